/-
C11: what a `--pack-dir` scan leaves in `links_unresolved`.  Every pending link is a hard-link node whose target is the
path the hard-link filter recorded for the first name of that file; at that path there is either nothing (the first name
was filtered out or dropped) or the node made from that first name — never a directory, never another link.  Hence
(`Sqfs/Proofs/FsTreeScanLinks2.lean`) post-processing does not depend on the order of the list.
-/
import Sqfs.Proofs.FsTreePost

namespace Sqfs.FsTree
open Sqfs.Consts

/-! ### A. mode bits -/

theorem and_mod_65536 (m : Nat) : (m % 65536) &&& 61440 = m &&& 61440 := by
  have h : m % 65536 = m &&& 65535 := by
    have := Nat.and_two_pow_sub_one_eq_mod m 16
    simpa using this.symm
  have h2 : (65535 &&& 61440 : Nat) = 61440 := by decide
  rw [h, Nat.and_assoc, h2]

theorem isType_mod (m ty : Nat) : isType (m % 65536) ty = isType m ty := by
  simp only [isType, sIFMT, and_mod_65536]

theorem testBit_61440 (i : Nat) : Nat.testBit 61440 i = (decide (12 ≤ i) && decide (i < 16)) := by
  have h : (61440 : Nat) = (2 ^ 4 - 1) <<< 12 := by decide
  rw [h, Nat.testBit_shiftLeft, Nat.testBit_two_pow_sub_one]
  by_cases h12 : 12 ≤ i
  · have : (decide (i - 12 < 4)) = decide (i < 16) := by
      apply decide_eq_decide.mpr; omega
    simp [h12, this]
  · simp [h12]

/-- `apply_changes` without DIR_SCAN_KEEP_MODE replaces the permission bits only -/
theorem typeBits_applyMode (m d : Nat) : ((m - (m &&& 4095)) ||| (d &&& 4095)) &&& 61440 = m &&& 61440 := by
  have h1 : m &&& 4095 = m % 4096 := by
    have := Nat.and_two_pow_sub_one_eq_mod m 12
    simpa using this
  have h2 : m - m % 4096 = (m >>> 12) <<< 12 := by
    rw [Nat.shiftRight_eq_div_pow, Nat.shiftLeft_eq]
    have := Nat.div_add_mod m 4096
    omega
  have h3 : d &&& 4095 = d &&& (2 ^ 12 - 1) := by rfl
  rw [h1, h2, h3]
  apply Nat.eq_of_testBit_eq
  intro i
  simp only [Nat.testBit_and, Nat.testBit_or, Nat.testBit_shiftLeft, Nat.testBit_shiftRight, Nat.testBit_two_pow_sub_one,
    testBit_61440]
  by_cases h12 : 12 ≤ i
  · have hi : ¬ i < 12 := by omega
    have : 12 + (i - 12) = i := by omega
    simp [h12, hi, this]
  · simp [h12]

/-! ### B. paths -/

theorem path_trichotomy : ∀ (a b : Path), Diverge a b ∨ a <+: b ∨ b <+: a
  | [], _ => Or.inr (Or.inl List.nil_prefix)
  | _ :: _, [] => Or.inr (Or.inr List.nil_prefix)
  | x :: a, y :: b => by
    by_cases h : x = y
    · subst h
      rcases path_trichotomy a b with h | h | h
      · exact Or.inl (Diverge.there h)
      · exact Or.inr (Or.inl ((List.prefix_cons_inj x).mpr h))
      · exact Or.inr (Or.inr ((List.prefix_cons_inj x).mpr h))
    · exact Or.inl (Diverge.here h)

theorem lookup_leaf_cons (n : Name) (a : Attr) (c : Name) (r : Path) : lookup (.mk n a []) (c :: r) = none := by
  rw [lookup_cons]
  split
  · rfl
  · simp [childByName]

/-- every prefix of an existing path exists, and is a directory if it is a proper prefix -/
theorem lookup_prefix {t x : TNode} {a r : Path} (h : lookup t (a ++ r) = some x) :
    ∃ y, lookup t a = some y ∧ lookup y r = some x ∧ (r ≠ [] → y.isDir = true) := by
  rw [lookup_append] at h
  cases hy : lookup t a with
  | none => rw [hy] at h; cases h
  | some y =>
    rw [hy] at h
    simp only [Option.bind_some] at h
    refine ⟨y, rfl, h, ?_⟩
    intro hr
    cases r with
    | nil => exact absurd rfl hr
    | cons c r' =>
      rw [lookup_cons] at h
      split at h
      · cases h
      · rename_i hd
        simpa using hd

/-! ### C. `fstree_add_generic` creating a new leaf below an existing directory -/

/-- `mknode` seen from the parent: the new node linked in with `insert_sorted`, `link_count++` -/
def addChild (leaf : TNode) (D : TNode) : TNode :=
  .mk D.name { D.attr with linkCount := D.attr.linkCount + 1 } (insertSorted leaf D.children)

theorem namePres_addChild (leaf : TNode) : NamePres (addChild leaf) := fun _ => rfl

theorem addChild_isDir (leaf D : TNode) : (addChild leaf D).isDir = D.isDir := rfl

theorem addPathAt_cons_cons (d : Defaults) (e : Ent) (x : Extra) (depth : Nat) (n m : Name) (rest : Path) (dir : TNode) :
    addPathAt d e x depth (n :: m :: rest) dir =
      if !dir.isDir then none
      else match childByName dir.children n with
        | some c =>
            match addPathAt d e x (depth + 1) (m :: rest) c with
            | none => none
            | some c' => some (.mk dir.name dir.attr (replaceChild c' dir.children))
        | none =>
            if tooDeep depth (implicitEnt d) then none
            else
              match addPathAt d e x (depth + 1) (m :: rest)
                  (TNode.mk n { mknodeAttr (implicitEnt d) .none with implicit := true } []) with
              | none => none
              | some c' => linkChild dir c' := by
  rw [addPathAt]
  all_goals first | rfl | (intro h; cases h)

/-- with the parent directory present and no child of that name, `fstree_add_generic` is `mknode` on that directory -/
theorem addPathAt_new (d : Defaults) (e : Ent) (x : Extra) (name : Name) :
    ∀ (pq : Path) (depth : Nat) (t t' D : TNode), lookup t pq = some D → D.isDir = true →
      childByName D.children name = none → addPathAt d e x depth (pq ++ [name]) t = some t' →
      t' = modifyAt (addChild (.mk name (mknodeAttr e x) [])) pq t
  | [], depth, t, t', D, hD, hdir, hnone, h => by
    simp only [lookup] at hD
    cases hD
    simp only [List.nil_append, addPathAt, hdir, Bool.not_true, Bool.false_eq_true, if_false, hnone, mknode] at h
    split at h
    · cases h
    · obtain ⟨tn, ta, tc⟩ := t
      simp only [linkChild] at h
      split at h
      · cases h
      · cases h
        rfl
  | c :: rest, depth, t, t', D, hD, hdir, hnone, h => by
    rw [lookup_cons] at hD
    split at hD
    · cases hD
    · rename_i htdir
      split at hD
      · rename_i ch hch
        obtain ⟨m, r', hmr⟩ : ∃ m r', rest ++ [name] = m :: r' := by
          cases rest with
          | nil => exact ⟨name, [], rfl⟩
          | cons a b => exact ⟨a, b ++ [name], rfl⟩
        rw [List.cons_append, hmr, addPathAt_cons_cons] at h
        simp only [htdir, hch] at h
        cases hrec : addPathAt d e x (depth + 1) (m :: r') ch with
        | none => rw [hrec] at h; simp at h
        | some c' =>
          rw [hrec] at h
          simp only [Bool.false_eq_true, if_false, Option.some.injEq] at h
          rw [← hmr] at hrec
          have := addPathAt_new d e x name rest (depth + 1) ch c' D hD hdir hnone hrec
          rw [modifyAt_cons, hch]
          simp only
          rw [← this, ← h]
      · cases hD

theorem lookup_addChild_other (leaf D : TNode) (c : Name) (r : Path) (h : c ≠ leaf.name) :
    lookup (addChild leaf D) (c :: r) = lookup D (c :: r) := by
  rw [lookup_cons, lookup_cons]
  simp only [addChild_isDir]
  simp only [addChild, TNode.children_mk, insertSorted, childByName_insertBy_ne leaf D.children c h]

theorem lookup_addChild_new (leaf D : TNode) (r : Path) (hD : D.isDir = true) (hnone : childByName D.children leaf.name = none) :
    lookup (addChild leaf D) (leaf.name :: r) = lookup leaf r := by
  rw [lookup_cons]
  simp only [addChild_isDir, hD, Bool.not_true, Bool.false_eq_true, if_false]
  simp only [addChild, TNode.children_mk, insertSorted, childByName_insertBy_self leaf D.children hnone]

/-! ### D. what changes in the tree when a leaf is added at `pq ++ [name]` -/

theorem addChild_at {t D : TNode} {pq : Path} {name : Name} {a : Attr} (hD : lookup t pq = some D) (hdir : D.isDir = true)
    (hnone : childByName D.children name = none) (r : Path) :
    lookup (modifyAt (addChild (.mk name a [])) pq t) (pq ++ name :: r) = lookup (TNode.mk name a []) r := by
  rw [lookup_append, lookup_modifyAt_self (namePres_addChild _) hD]
  simp only [Option.bind_some]
  exact lookup_addChild_new (.mk name a []) D r hdir hnone

theorem lookup_below_none {t D : TNode} {pq : Path} {name : Name} (hD : lookup t pq = some D) (hdir : D.isDir = true)
    (hnone : childByName D.children name = none) (r : Path) : lookup t (pq ++ name :: r) = none := by
  rw [lookup_append, hD]
  simp only [Option.bind_some]
  rw [lookup_cons]
  simp [hdir, hnone]

/-- nodes that are not directories, and places where there is nothing, are not affected -/
theorem addChild_frame {t D : TNode} {pq : Path} {name : Name} {a : Attr} (hD : lookup t pq = some D) (hdir : D.isDir = true)
    (hnone : childByName D.children name = none) (m : Path) (hm : m ≠ pq ++ [name])
    (hnd : ∀ n, lookup t m = some n → n.isDir = false) :
    lookup (modifyAt (addChild (.mk name a [])) pq t) m = lookup t m := by
  rcases path_trichotomy pq m with hdv | hpre | hpre
  · exact lookup_modifyAt_diverge (namePres_addChild _) hdv t
  · obtain ⟨r, rfl⟩ := hpre
    cases r with
    | nil =>
      rw [List.append_nil] at hnd
      have := hnd D hD
      rw [hdir] at this; cases this
    | cons c r' =>
      by_cases hc : c = name
      · subst hc
        rw [addChild_at hD hdir hnone, lookup_below_none hD hdir hnone]
        cases r' with
        | nil => exact absurd rfl hm
        | cons c2 r'' => exact lookup_leaf_cons _ _ _ _
      · rw [lookup_append, lookup_append, lookup_modifyAt_self (namePres_addChild _) hD, hD]
        simp only [Option.bind_some]
        exact lookup_addChild_other (.mk name a []) D c r' hc
  · obtain ⟨r, hr⟩ := hpre
    rw [← hr] at hD
    obtain ⟨y, hy, _, hyd⟩ := lookup_prefix hD
    have hnd' := hnd y hy
    cases r with
    | nil =>
      rw [List.append_nil] at hD
      rw [hD] at hy; cases hy
      rw [hdir] at hnd'; cases hnd'
    | cons c r' =>
      rw [hyd (by simp)] at hnd'; cases hnd'

/-- … and the only new place is `pq ++ [name]` -/
theorem addChild_dom {t D : TNode} {pq : Path} {name : Name} {a : Attr} (hD : lookup t pq = some D) (hdir : D.isDir = true)
    (hnone : childByName D.children name = none) (m : Path) (n' : TNode)
    (h : lookup (modifyAt (addChild (.mk name a [])) pq t) m = some n') :
    m = pq ++ [name] ∨ ∃ n, lookup t m = some n := by
  rcases path_trichotomy pq m with hdv | hpre | hpre
  · rw [lookup_modifyAt_diverge (namePres_addChild _) hdv t] at h
    exact Or.inr ⟨n', h⟩
  · obtain ⟨r, rfl⟩ := hpre
    cases r with
    | nil => rw [List.append_nil]; exact Or.inr ⟨D, hD⟩
    | cons c r' =>
      by_cases hc : c = name
      · subst hc
        rw [addChild_at hD hdir hnone] at h
        cases r' with
        | nil => exact Or.inl rfl
        | cons c2 r'' => rw [lookup_leaf_cons] at h; cases h
      · rw [lookup_append, lookup_modifyAt_self (namePres_addChild _) hD] at h
        simp only [Option.bind_some] at h
        rw [lookup_addChild_other (.mk name a []) D c r' hc] at h
        refine Or.inr ⟨n', ?_⟩
        rw [lookup_append, hD]
        exact h
  · obtain ⟨r, hr⟩ := hpre
    rw [← hr] at hD
    obtain ⟨y, hy, _, _⟩ := lookup_prefix hD
    exact Or.inr ⟨y, hy⟩

/-! ### E. the invariant of the scan, and one `scan_directory` step -/

/-- neither a directory nor a hard link -/
def Plain (n : TNode) : Prop := n.isHardLink = false ∧ n.isDir = false

/-- `V`: paths of the entries consumed so far; `T`: the paths the hard-link filter has recorded as link targets -/
structure ScanInv (V T : List Path) (tree : TNode) (links : List Path) : Prop where
  /-- nodes exist only at consumed paths -/
  dom : ∀ p n, lookup tree p = some n → p = [] ∨ p ∈ V
  tgtV : ∀ m ∈ T, m ∈ V
  /-- what sits at a recorded target is neither a directory nor a link -/
  seenPlain : ∀ m ∈ T, ∀ n, lookup tree m = some n → Plain n
  /-- a pending link is a hard-link node pointing at a recorded target -/
  linksOK : ∀ p ∈ links, ∃ n tgt, lookup tree p = some n ∧ n.isHardLink = true ∧ n.attr.extra = .link tgt none ∧ tgt ∈ T

theorem ScanInv.mono {V V' T : List Path} {t : TNode} {l : List Path} (h : ScanInv V T t l) (hV : ∀ p ∈ V, p ∈ V') :
    ScanInv V' T t l :=
  ⟨fun p n hp => (h.dom p n hp).imp id (hV p), fun m hm => hV m (h.tgtV m hm), h.seenPlain, h.linksOK⟩

theorem mknodeAttr_hard (e : Ent) (x : Extra) (h : e.hard = true) :
    (TNode.mk n (mknodeAttr e x) []).isHardLink = true ∧ (mknodeAttr e x).extra = x := by
  have h1 : isType (sIFLNK ||| 511) sIFLNK = true := by decide
  simp only [TNode.isHardLink, TNode.attr_mk, mknodeAttr, h, if_true, h1, Bool.or_true, Bool.and_self, and_self]

theorem mknodeAttr_plain (e : Ent) (x : Extra) (h : e.hard = false) (hd : isDirMode e.mode = false) :
    Plain (TNode.mk n (mknodeAttr e x) []) := by
  refine ⟨?_, ?_⟩
  · simp [TNode.isHardLink, mknodeAttr, h]
  · simp only [TNode.isDir, TNode.attr_mk, mknodeAttr, h, Bool.false_eq_true, if_false]
    split
    · decide
    · simp only [isDirMode] at hd ⊢
      rw [isType_mod]; exact hd

theorem scanStep_inv {V T : List Path} {t t' : TNode} {links links' : List Path} (inv : ScanInv V T t links)
    {d : Defaults} {cfg : Cfg} {e2 : Ent} {hl : Option Path} {target : List UInt8} {ig : Bool} {pq : Path} {name : Name}
    (hpath : e2.path = pq ++ [name]) (hq : pq ++ [name] ∉ V)
    (hhard : e2.hard = true → ∃ tgt, hl = some tgt ∧ tgt ∈ T ∧ isType e2.mode sIFLNK = true)
    (h : scanStep d cfg e2 hl target t links = some (t', links', ig)) :
    ScanInv ((pq ++ [name]) :: V) T t' links' ∧
      (e2.hard = false → isDirMode e2.mode = false → ∀ n, lookup t' (pq ++ [name]) = some n → Plain n) := by
  have hqne : pq ++ [name] ≠ [] := by simp
  have hnoq : lookup t (pq ++ [name]) = none := by
    cases hl' : lookup t (pq ++ [name]) with
    | none => rfl
    | some n => rcases inv.dom _ n hl' with h0 | h0
                · exact absurd h0 hqne
                · exact absurd h0 hq
  simp only [scanStep, hpath] at h
  split at h
  · -- parent missing: entry dropped
    cases h
    refine ⟨inv.mono (fun p hp => List.mem_cons_of_mem _ hp), ?_⟩
    intro _ _ n hn
    rw [hnoq] at hn; cases hn
  · rename_i P hP
    rw [parentOf_snoc] at hP
    cases hD : lookup t pq with
    | none => rw [hD] at hP; cases hP
    | some D =>
      rw [hD] at hP
      simp only [Option.bind_some] at hP
      have hdir : D.isDir = true := by
        by_cases hdd : D.isDir = true
        · exact hdd
        · simp [hdd] at hP
      have hnone : childByName D.children name = none := by
        rw [lookup_append, hD] at hnoq
        simp only [Option.bind_some] at hnoq
        rw [lookup_single] at hnoq
        simpa [hdir] using hnoq
      split at h
      · cases h
      · rename_i t1 hadd
        cases h
        simp only [addGeneric] at hadd
        split at hadd
        · cases hadd
        · split at hadd
          · cases hadd
          · split at hadd
            · cases hadd
            · rw [hpath] at hadd
              have ht1 := addPathAt_new d e2 (scanExtra cfg e2 hl target) name pq 0 t t' D hD hdir hnone hadd
              subst ht1
              have hnew : lookup (modifyAt (addChild (.mk name (mknodeAttr e2 (scanExtra cfg e2 hl target)) [])) pq t)
                  (pq ++ [name]) = some (.mk name (mknodeAttr e2 (scanExtra cfg e2 hl target)) []) := by
                rw [addChild_at hD hdir hnone]; rfl
              have hframe : ∀ m n, lookup t m = some n → n.isDir = false →
                  lookup (modifyAt (addChild (.mk name (mknodeAttr e2 (scanExtra cfg e2 hl target)) [])) pq t) m = some n := by
                intro m n hm hnd
                have hmq : m ≠ pq ++ [name] := by
                  intro e; rw [e, hnoq] at hm; cases hm
                rw [addChild_frame hD hdir hnone m hmq (fun n' hn' => by rw [hm] at hn'; cases hn'; exact hnd)]
                exact hm
              refine ⟨⟨?_, fun m hm => List.mem_cons_of_mem _ (inv.tgtV m hm), ?_, ?_⟩, ?_⟩
              · intro p n hp
                rcases addChild_dom hD hdir hnone p n hp with h0 | ⟨n0, h0⟩
                · exact Or.inr (h0 ▸ List.mem_cons_self)
                · exact (inv.dom p n0 h0).imp id (List.mem_cons_of_mem _)
              · intro m hm n hn
                have hmq : m ≠ pq ++ [name] := fun e => hq (e ▸ inv.tgtV m hm)
                rw [addChild_frame hD hdir hnone m hmq (fun n' hn' => (inv.seenPlain m hm n' hn').2)] at hn
                exact inv.seenPlain m hm n hn
              · intro p hp
                have hold : ∀ p ∈ links, ∃ n tgt, lookup (modifyAt (addChild (.mk name (mknodeAttr e2 (scanExtra cfg e2 hl target)) [])) pq t) p
                    = some n ∧ n.isHardLink = true ∧ n.attr.extra = .link tgt none ∧ tgt ∈ T := by
                  intro p hp
                  obtain ⟨n, tgt, h1, h2, h3, h4⟩ := inv.linksOK p hp
                  exact ⟨n, tgt, hframe p n h1 (isHardLink_not_dir h2), h2, h3, h4⟩
                by_cases hh : e2.hard = true
                · simp only [hh, if_true] at hp
                  rcases List.mem_cons.mp hp with rfl | hp'
                  · obtain ⟨tgt, htg, htT, hlnk⟩ := hhard hh
                    have hx : scanExtra cfg e2 hl target = .link tgt none := by
                      simp only [scanExtra, hlnk, if_true, htg]
                    refine ⟨_, tgt, hnew, (mknodeAttr_hard e2 _ hh).1, ?_, htT⟩
                    rw [TNode.attr_mk, (mknodeAttr_hard (n := name) e2 _ hh).2, hx]
                  · exact hold p hp'
                · simp only [hh, Bool.false_eq_true, if_false] at hp
                  exact hold p hp
              · intro hh hd n hn
                rw [hnew] at hn; cases hn
                exact mknodeAttr_plain e2 _ hh hd

/-! ### F. the paths a walk can visit are pairwise different -/

mutual
/-- the paths of all entries at or below a node of the host forest (`rel` = path of the directory it is in) -/
def allPathsNode (rel : Path) : HNode → List Path
  | .mk n _ _ c => (rel ++ [n]) :: allPathsList (rel ++ [n]) c
def allPathsList (rel : Path) : List HNode → List Path
  | [] => []
  | x :: xs => allPathsNode rel x ++ allPathsList rel xs
end

theorem prefix_snoc_inj {rel p : Path} {a b : Name} (ha : (rel ++ [a]) <+: p) (hb : (rel ++ [b]) <+: p) : a = b := by
  obtain ⟨r1, h1⟩ := ha
  obtain ⟨r2, h2⟩ := hb
  rw [← h2, List.append_assoc, List.append_assoc] at h1
  have := List.append_cancel_left h1
  simp only [List.cons_append, List.nil_append, List.cons.injEq] at this
  exact this.1

mutual
theorem allPathsNode_prefix (rel : Path) : ∀ (x : HNode) (p : Path), p ∈ allPathsNode rel x → (rel ++ [x.name]) <+: p
  | .mk n s t c, p, hp => by
    simp only [allPathsNode, List.mem_cons] at hp
    rcases hp with rfl | hp
    · exact List.prefix_refl _
    · obtain ⟨m, _, hm⟩ := allPathsList_prefix (rel ++ [n]) c p hp
      exact List.IsPrefix.trans (List.prefix_append _ _) hm
theorem allPathsList_prefix (rel : Path) : ∀ (l : List HNode) (p : Path), p ∈ allPathsList rel l →
    ∃ m ∈ l.map HNode.name, (rel ++ [m]) <+: p
  | [], p, hp => by simp [allPathsList] at hp
  | x :: xs, p, hp => by
    simp only [allPathsList, List.mem_append] at hp
    rcases hp with hp | hp
    · exact ⟨x.name, by simp, allPathsNode_prefix rel x p hp⟩
    · obtain ⟨m, hm, h⟩ := allPathsList_prefix rel xs p hp
      exact ⟨m, by simp only [List.map_cons, List.mem_cons]; exact Or.inr hm, h⟩
end

mutual
theorem allPathsNode_nodup (rel : Path) : ∀ (x : HNode), WFNode x → (allPathsNode rel x).Nodup
  | .mk n s t c, h => by
    rw [wfNode_mk] at h
    simp only [allPathsNode, List.nodup_cons]
    refine ⟨?_, allPathsList_nodup (rel ++ [n]) c h⟩
    intro hmem
    obtain ⟨m, _, hm⟩ := allPathsList_prefix (rel ++ [n]) c _ hmem
    have := hm.length_le
    simp at this
theorem allPathsList_nodup (rel : Path) : ∀ (l : List HNode), WFList l → (allPathsList rel l).Nodup
  | [], _ => by simp [allPathsList]
  | x :: xs, h => by
    rw [wfList_cons] at h
    simp only [allPathsList]
    rw [List.nodup_append]
    refine ⟨allPathsNode_nodup rel x h.2.1, allPathsList_nodup rel xs h.2.2, ?_⟩
    intro a ha b hb hab
    subst hab
    have h1 := allPathsNode_prefix rel x a ha
    obtain ⟨m, hm, h2⟩ := allPathsList_prefix rel xs a hb
    have := prefix_snoc_inj h1 h2
    obtain ⟨y, hy, hyn⟩ := List.mem_map.mp hm
    exact h.1 y hy (by rw [hyn, this])
end

/-! ### G. what the iterator stack hands to `scan_directory` (no prefix: `--pack-dir`) -/

theorem treeIterStep_out {cfg : Cfg} {fnm : Fnm} {e e2 : Ent} (h : (treeIterStep cfg fnm e).1 = some e2) :
    e2 = applyChanges cfg e := by
  unfold treeIterStep at h
  repeat' split at h
  all_goals (try simp only [apply_ite Prod.fst] at h)
  all_goals (repeat' split at h)
  all_goals (simp at h; try exact h.symm)

theorem applyChanges_isType (cfg : Cfg) (e : Ent) (ty : Nat) : isType (applyChanges cfg e).mode ty = isType e.mode ty := by
  simp only [applyChanges]
  split
  · rfl
  · simp only [isType, sIFMT]
    rw [typeBits_applyMode e.mode cfg.defMode]

def targets (seen : List ((Nat × Nat) × Path)) : List Path := seen.map (·.2)

theorem seenLookup_mem {seen : List ((Nat × Nat) × Path)} {k : Nat × Nat} {v : Path} (h : seenLookup seen k = some v) :
    v ∈ targets seen := by
  induction seen with
  | nil => simp [seenLookup] at h
  | cons x xs ih =>
    obtain ⟨k', v'⟩ := x
    simp only [seenLookup] at h
    split at h
    · cases h; simp [targets]
    · simp only [targets, List.map_cons, List.mem_cons]; exact Or.inr (ih h)

theorem iterStep_of_none {cfg : Cfg} {fnm : Fnm} {rel : Path} {dirDev : Nat} {seen : List ((Nat × Nat) × Path)} {name : Name}
    {s : Stat} (h : (treeIterStep cfg fnm (nativeEntry rel dirDev name s)).1 = none) :
    (iterStep cfg fnm rel dirDev seen name s).out = none ∧ (iterStep cfg fnm rel dirDev seen name s).seen = seen := by
  simp only [iterStep, h, and_self]

theorem iterStep_of_some {cfg : Cfg} {fnm : Fnm} {rel : Path} {dirDev : Nat} {seen : List ((Nat × Nat) × Path)} {name : Name}
    {s : Stat} {e1 : Ent} (h : (treeIterStep cfg fnm (nativeEntry rel dirDev name s)).1 = some e1) :
    (iterStep cfg fnm rel dirDev seen name s).out =
        some (if hasFlag cfg.flags dirScanNoHardlinks then (e1, none, seen) else hlNext seen e1).1 ∧
      (iterStep cfg fnm rel dirDev seen name s).hlTarget =
        (if hasFlag cfg.flags dirScanNoHardlinks then (e1, none, seen) else hlNext seen e1).2.1 ∧
      (iterStep cfg fnm rel dirDev seen name s).seen =
        (if hasFlag cfg.flags dirScanNoHardlinks then (e1, none, seen) else hlNext seen e1).2.2 := by
  simp only [iterStep, h, and_self]

theorem iterStep_cases (cfg : Cfg) (fnm : Fnm) (rel : Path) (dirDev : Nat) (seen : List ((Nat × Nat) × Path)) (name : Name)
    (s : Stat) (hp : cfg.pfx = []) :
    (∀ e2, (iterStep cfg fnm rel dirDev seen name s).out = some e2 → e2.path = rel ++ [name]) ∧
    (((iterStep cfg fnm rel dirDev seen name s).seen = seen ∧
        ∀ e2, (iterStep cfg fnm rel dirDev seen name s).out = some e2 → e2.hard = true →
          ∃ tgt, (iterStep cfg fnm rel dirDev seen name s).hlTarget = some tgt ∧ tgt ∈ targets seen ∧
            isType e2.mode sIFLNK = true) ∨
      ((iterStep cfg fnm rel dirDev seen name s).seen = ((s.dev, s.ino), rel ++ [name]) :: seen ∧
        ∀ e2, (iterStep cfg fnm rel dirDev seen name s).out = some e2 → e2.hard = false ∧ isDirMode e2.mode = false)) := by
  cases hti : (treeIterStep cfg fnm (nativeEntry rel dirDev name s)).1 with
  | none =>
    obtain ⟨ho, hs⟩ := iterStep_of_none (seen := seen) hti
    rw [ho, hs]
    exact ⟨fun e2 h => (by cases h), Or.inl ⟨rfl, fun e2 h => (by cases h)⟩⟩
  | some e1 =>
    obtain ⟨ho, ht, hs⟩ := iterStep_of_some (seen := seen) hti
    rw [ho, ht, hs]
    have he1 := treeIterStep_out hti
    have hpath1 : e1.path = rel ++ [name] := by rw [he1]; simp [applyChanges, hp, nativeEntry]
    have hhard1 : e1.hard = false := by rw [he1]; rfl
    have hdev : (e1.dev, e1.ino) = (s.dev, s.ino) := by rw [he1]; rfl
    by_cases hnh : hasFlag cfg.flags dirScanNoHardlinks = true
    · rw [if_pos hnh]
      refine ⟨fun e2 h => by cases h; exact hpath1, Or.inl ⟨rfl, ?_⟩⟩
      intro e2 h hh
      cases h
      rw [hhard1] at hh; cases hh
    · rw [if_neg hnh]
      by_cases hd : isDirMode e1.mode = true
      · have hl : hlNext seen e1 = (e1, none, seen) := by simp only [hlNext, hd, if_true]
        rw [hl]
        refine ⟨fun e2 h => by cases h; exact hpath1, Or.inl ⟨rfl, ?_⟩⟩
        intro e2 h hh
        cases h
        rw [hhard1] at hh; cases hh
      · cases hsl : seenLookup seen (e1.dev, e1.ino) with
        | some tgt =>
          have hl : hlNext seen e1 = ({ e1 with mode := inodeModeLnk ||| 0o777, hard := true }, some tgt, seen) := by
            simp only [hlNext, hd, Bool.false_eq_true, if_false, hsl]
          rw [hl]
          refine ⟨fun e2 h => by cases h; exact hpath1, Or.inl ⟨rfl, ?_⟩⟩
          intro e2 h _
          cases h
          refine ⟨tgt, rfl, seenLookup_mem hsl, ?_⟩
          show isType (inodeModeLnk ||| 511) sIFLNK = true
          decide
        | none =>
          have hl : hlNext seen e1 = (e1, none, ((e1.dev, e1.ino), e1.path) :: seen) := by
            simp only [hlNext, hd, Bool.false_eq_true, if_false, hsl]
          rw [hl]
          refine ⟨fun e2 h => by cases h; exact hpath1, Or.inr ⟨?_, ?_⟩⟩
          · show ((e1.dev, e1.ino), e1.path) :: seen = _
            rw [hpath1, hdev]
          · intro e2 h
            cases h
            exact ⟨hhard1, by simpa using hd⟩

/-! ### H. the invariant holds along the whole walk -/

theorem ScanInv.addTarget {V T : List Path} {t : TNode} {l : List Path} {q : Path} (h : ScanInv V T t l) (hq : q ∈ V)
    (hplain : ∀ n, lookup t q = some n → Plain n) : ScanInv V (q :: T) t l := by
  refine ⟨h.dom, ?_, ?_, ?_⟩
  · intro m hm
    rcases List.mem_cons.mp hm with rfl | hm'
    · exact hq
    · exact h.tgtV m hm'
  · intro m hm n hn
    rcases List.mem_cons.mp hm with rfl | hm'
    · exact hplain n hn
    · exact h.seenPlain m hm' n hn
  · intro p hp
    obtain ⟨n, tgt, h1, h2, h3, h4⟩ := h.linksOK p hp
    exact ⟨n, tgt, h1, h2, h3, List.mem_cons_of_mem _ h4⟩

mutual
theorem walkNode_inv (d : Defaults) (cfg : Cfg) (fnm : Fnm) (hp : cfg.pfx = []) :
    ∀ (h : HNode) (rel : Path) (dirDev : Nat) (st st' : St) (V : List Path), WFNode h →
      ScanInv V (targets st.seen) st.tree st.links → (∀ p ∈ allPathsNode rel h, p ∉ V) →
      walkNode d cfg fnm rel dirDev h st = some st' →
      ScanInv (allPathsNode rel h ++ V) (targets st'.seen) st'.tree st'.links
  | .mk name s target children, rel, dirDev, st, st', V, hwf, inv, hfresh, hw => by
    have hVsub : ∀ p ∈ V, p ∈ allPathsNode rel (.mk name s target children) ++ V :=
      fun p hp => List.mem_append_right _ hp
    have hqV : rel ++ [name] ∉ V := hfresh _ (by simp [allPathsNode])
    have hqne : rel ++ [name] ≠ [] := by simp
    simp only [walkNode] at hw
    split at hw
    · cases hw; exact inv.mono hVsub
    · split at hw
      · cases hw
      · obtain ⟨hpath, halt⟩ := iterStep_cases cfg fnm rel dirDev st.seen name s hp
        split at hw
        · cases hw
        · rename_i tree' links' ignored hr
          -- the state after `scan_directory` has handled this entry
          have inv1 : ScanInv ((rel ++ [name]) :: V) (targets (iterStep cfg fnm rel dirDev st.seen name s).seen) tree' links' := by
            cases hout : (iterStep cfg fnm rel dirDev st.seen name s).out with
            | none =>
              rw [hout] at hr
              simp only [Option.some.injEq, Prod.mk.injEq] at hr
              obtain ⟨rfl, rfl, _⟩ := hr
              have inv0 := inv.mono (V' := (rel ++ [name]) :: V) (fun p hp => List.mem_cons_of_mem _ hp)
              rcases halt with ⟨hs, _⟩ | ⟨hs, _⟩
              · rw [hs]; exact inv0
              · rw [hs]
                show ScanInv _ ((rel ++ [name]) :: targets st.seen) _ _
                refine inv0.addTarget List.mem_cons_self ?_
                intro n hn
                rcases inv.dom _ n hn with h0 | h0
                · exact absurd h0 hqne
                · exact absurd h0 hqV
            | some e2 =>
              rw [hout] at hr
              simp only at hr
              have he2 := hpath e2 hout
              rcases halt with ⟨hs, hh⟩ | ⟨hs, hh⟩
              · rw [hs]
                exact (scanStep_inv inv he2 hqV (hh e2 hout) hr).1
              · rw [hs]
                show ScanInv _ ((rel ++ [name]) :: targets st.seen) _ _
                obtain ⟨hnh, hnd⟩ := hh e2 hout
                have := scanStep_inv inv he2 hqV (fun hc => by rw [hnh] at hc; cases hc) hr
                exact this.1.addTarget List.mem_cons_self (this.2 hnh hnd)
          split at hw
          · -- descend into the sub-directory
            have hwfc : WFList children := (wfNode_mk _ _ _ _).mp hwf
            have hfresh' : ∀ p ∈ allPathsList (rel ++ [name]) children, p ∉ (rel ++ [name]) :: V := by
              intro p hp hmem
              rcases List.mem_cons.mp hmem with rfl | hmem'
              · obtain ⟨m, _, hm⟩ := allPathsList_prefix _ children _ hp
                have := hm.length_le
                simp at this
              · exact hfresh p (by simp only [allPathsNode, List.mem_cons]; exact Or.inr hp) hmem'
            have := walkList_inv d cfg fnm hp children (rel ++ [name]) s.dev _ st' _ hwfc inv1 hfresh' hw
            refine this.mono ?_
            intro p hp
            simp only [allPathsNode, List.mem_append, List.mem_cons] at hp ⊢
            rcases hp with hp | hp | hp
            · exact Or.inl (Or.inr hp)
            · exact Or.inl (Or.inl hp)
            · exact Or.inr hp
          · cases hw
            refine inv1.mono ?_
            intro p hp
            simp only [allPathsNode, List.mem_append, List.mem_cons] at hp ⊢
            rcases hp with hp | hp
            · exact Or.inl (Or.inl hp)
            · exact Or.inr hp
theorem walkList_inv (d : Defaults) (cfg : Cfg) (fnm : Fnm) (hp : cfg.pfx = []) :
    ∀ (l : List HNode) (rel : Path) (dirDev : Nat) (st st' : St) (V : List Path), WFList l →
      ScanInv V (targets st.seen) st.tree st.links → (∀ p ∈ allPathsList rel l, p ∉ V) →
      walkList d cfg fnm rel dirDev l st = some st' →
      ScanInv (allPathsList rel l ++ V) (targets st'.seen) st'.tree st'.links
  | [], rel, dirDev, st, st', V, _, inv, _, hw => by
    simp only [walkList] at hw; cases hw
    simpa [allPathsList] using inv
  | x :: xs, rel, dirDev, st, st', V, hwf, inv, hfresh, hw => by
    have hnd := allPathsList_nodup rel (x :: xs) hwf
    simp only [allPathsList, List.nodup_append] at hnd
    rw [wfList_cons] at hwf
    simp only [walkList] at hw
    split at hw
    · cases hw
    · rename_i st1 h1
      have inv1 := walkNode_inv d cfg fnm hp x rel dirDev st st1 V hwf.2.1 inv
        (fun p hp' => hfresh p (by simp only [allPathsList, List.mem_append]; exact Or.inl hp')) h1
      have hfresh' : ∀ p ∈ allPathsList rel xs, p ∉ allPathsNode rel x ++ V := by
        intro p hp' hmem
        rcases List.mem_append.mp hmem with hm | hm
        · exact hnd.2.2 p hm p hp' rfl
        · exact hfresh p (by simp only [allPathsList, List.mem_append]; exact Or.inr hp') hm
      have := walkList_inv d cfg fnm hp xs rel dirDev st1 st' _ hwf.2.2 inv1 hfresh' hw
      refine this.mono ?_
      intro p hp'
      simp only [allPathsList, List.mem_append] at hp' ⊢
      rcases hp' with hp' | hp' | hp'
      · exact Or.inl (Or.inr hp')
      · exact Or.inl (Or.inl hp')
      · exact Or.inr hp'
end

/-! ### I. post-processing with links that are flat or dangling -/

/-- the pending link at `p` names a path at which there is nothing -/
def DanglingAt (root : TNode) (p : Path) : Prop :=
  ∃ n tgt, lookup root p = some n ∧ n.isHardLink = true ∧ n.attr.extra = .link tgt none ∧ lookup root tgt = none

/-- what a `--pack-dir` scan leaves behind (`scanInto_links`) -/
def FlatOrDangling (root : TNode) (links : List Path) : Prop :=
  ∀ p ∈ links, (∃ tp, FlatAt root p tp) ∨ DanglingAt root p

theorem modifyAt_frame {f : TNode → TNode} (hf : NamePres f) (hfd : ∀ y, (f y).isDir = y.isDir) {t y : TNode} {p : Path}
    (hp : lookup t p = some y) (hy : y.isDir = false) (m : Path) (hm : m ≠ p)
    (hnd : ∀ n, lookup t m = some n → n.isDir = false) : lookup (modifyAt f p t) m = lookup t m := by
  rcases path_trichotomy p m with hdv | hpre | hpre
  · exact lookup_modifyAt_diverge hf hdv t
  · obtain ⟨r, rfl⟩ := hpre
    cases r with
    | nil => exact absurd (List.append_nil p) hm
    | cons c r' =>
      rw [lookup_append, lookup_append, lookup_modifyAt_self hf hp, hp]
      simp only [Option.bind_some]
      rw [lookup_cons, lookup_cons, hfd y, hy]
      rfl
  · obtain ⟨r, hr⟩ := hpre
    rw [← hr] at hp
    obtain ⟨z, hz, _, hzd⟩ := lookup_prefix hp
    have h1 := hnd z hz
    cases r with
    | nil => exact absurd (by simpa using hr) hm
    | cons c r' => rw [hzd (by simp)] at h1; cases h1

theorem bump_isDir (y : TNode) : (bumpLinkCount y).isDir = y.isDir := by cases y; rfl

theorem setResolved_isDir (tp : Path) (y : TNode) : (setResolved tp y).isDir = y.isDir := by
  obtain ⟨n, a, cs⟩ := y
  simp only [setResolved]
  split <;> rfl

theorem flat_not_dangling {root : TNode} {p tp : Path} (hf : FlatAt root p tp) (hd : DanglingAt root p) : False := by
  obtain ⟨n, tn, h1, _, h3, h4, _, _⟩ := hf
  obtain ⟨m, tgt, g1, _, g3, g4⟩ := hd
  rw [h1] at g1; cases g1
  simp only [linkTargetOf, g3] at h3
  cases h3
  rw [h4] at g4; cases g4

/-- resolving a flat link leaves a dangling one dangling -/
theorem dangling_step {root : TNode} {x tx q : Path} (hx : FlatAt root x tx) (hq : DanglingAt root q) :
    DanglingAt (resolveEffect root x tx) q := by
  have hqx : q ≠ x := fun e => flat_not_dangling hx (e ▸ hq)
  obtain ⟨nx, tn, h1, h2, _, h4, h5, h6⟩ := hx
  obtain ⟨n, tgt, g1, g2, g3, g4⟩ := hq
  have hqt : q ≠ tx := by
    intro e; subst e; rw [g1] at h4; cases h4; rw [g2] at h5; cases h5
  have htx : tx ≠ x := by
    intro e; subst e; rw [h1] at h4; cases h4; rw [h2] at h5; cases h5
  have hnx := isHardLink_not_dir h2
  have hn := isHardLink_not_dir g2
  have hs := namePres_setResolved tx
  have hb := namePres_bump
  have frame : ∀ m, m ≠ x → m ≠ tx → (∀ k, lookup root m = some k → k.isDir = false) →
      lookup (resolveEffect root x tx) m = lookup root m := by
    intro m hmx hmt hnd
    have e1 : lookup (modifyAt (setResolved tx) x root) m = lookup root m :=
      modifyAt_frame hs (setResolved_isDir tx) h1 hnx m hmx hnd
    have e2 : lookup (modifyAt (setResolved tx) x root) tx = some tn := by
      rw [modifyAt_frame hs (setResolved_isDir tx) h1 hnx tx htx (fun k hk => by rw [h4] at hk; cases hk; exact h6)]
      exact h4
    simp only [resolveEffect]
    rw [modifyAt_frame hb bump_isDir e2 h6 m hmt (fun k hk => by rw [e1] at hk; exact hnd k hk), e1]
  refine ⟨n, tgt, ?_, g2, g3, ?_⟩
  · rw [frame q hqx hqt (fun k hk => by rw [g1] at hk; cases hk; exact hn)]; exact g1
  · have hgx : tgt ≠ x := by intro e; subst e; rw [h1] at g4; cases g4
    have hgt : tgt ≠ tx := by intro e; subst e; rw [h4] at g4; cases g4
    rw [frame tgt hgx hgt (fun k hk => by rw [g4] at hk; cases hk)]; exact g4

theorem resolveLink_dangling {root : TNode} {p : Path} (h : DanglingAt root p) (c : Nat) : resolveLink root c p = none := by
  obtain ⟨n, tgt, h1, h2, h3, h4⟩ := h
  have : followLink root p c p = none := by
    cases c <;> simp [followLink, h1, h2, h3, h4]
  simp [resolveLink, this]

/-- one dangling link makes `fstree_resolve_hard_links` fail, wherever it stands in the list -/
theorem resolveHardLinks_dangling (fuel : Nat) : ∀ (l : List Path) (root : TNode), FlatOrDangling root l →
    (∃ p ∈ l, DanglingAt root p) → resolveHardLinks (fuel + 1) l root = none
  | [], _, _, h => by obtain ⟨p, hp, _⟩ := h; cases hp
  | x :: rest, root, hfd, ⟨p0, hp0, hd0⟩ => by
    simp only [resolveHardLinks]
    rcases hfd x List.mem_cons_self with ⟨tx, hx⟩ | hxd
    · rw [resolveLink_flat hx]
      by_cases hov : lcAt root tx = some 0xFFFFFFFF
      · rw [if_pos hov]
      · rw [if_neg hov]
        simp only
        have hne : p0 ≠ x := fun e => flat_not_dangling hx (e ▸ hd0)
        have hp0' : p0 ∈ rest := by
          rcases List.mem_cons.mp hp0 with h | h
          · exact absurd h hne
          · exact h
        apply resolveHardLinks_dangling fuel rest
        · intro q hq
          rcases hfd q (List.mem_cons_of_mem _ hq) with ⟨tq, hq'⟩ | hq'
          · exact Or.inl ⟨tq, (flat_step hx hq').1⟩
          · exact Or.inr (dangling_step hx hq')
        · exact ⟨p0, hp0', dangling_step hx hd0⟩
    · rw [resolveLink_dangling hxd]

/-- `fstree_post_process` does not depend on the order of `links_unresolved` when every pending link is flat or dangling -/
theorem postProcess_perm' {l₁ l₂ : List Path} (hp : l₁.Perm l₂) (tree : TNode) (h : FlatOrDangling tree l₁) :
    postProcess tree l₁ = postProcess tree l₂ := by
  by_cases hd : ∃ p ∈ l₁, DanglingAt tree p
  · obtain ⟨p, hp1, hpd⟩ := hd
    have h2 : FlatOrDangling tree l₂ := fun q hq => h q (hp.mem_iff.mpr hq)
    have hlen : ∃ k, l₁.length = k + 1 := by
      cases l₁ with
      | nil => cases hp1
      | cons a b => exact ⟨b.length, rfl⟩
    obtain ⟨k, hk⟩ := hlen
    simp only [postProcess, ← hp.length_eq, hk]
    rw [resolveHardLinks_dangling k l₁ tree h ⟨p, hp1, hpd⟩,
      resolveHardLinks_dangling k l₂ tree h2 ⟨p, hp.mem_iff.mp hp1, hpd⟩]
  · refine postProcess_perm hp tree ?_
    intro p hp1
    rcases h p hp1 with hf | hdg
    · exact hf
    · exact absurd ⟨p, hp1, hdg⟩ hd

theorem ScanInv.flatOrDangling {V T : List Path} {t : TNode} {l : List Path} (h : ScanInv V T t l) : FlatOrDangling t l := by
  intro p hp
  obtain ⟨n, tgt, h1, h2, h3, h4⟩ := h.linksOK p hp
  cases ht : lookup t tgt with
  | none => exact Or.inr ⟨n, tgt, h1, h2, h3, ht⟩
  | some tn =>
    have := h.seenPlain tgt h4 tn ht
    exact Or.inl ⟨tgt, n, tn, h1, h2, by simp [linkTargetOf, h3], ht, this.1, this.2⟩

/-! ### J. the scan of `--pack-dir` -/

theorem fperm_of_perm {l₁ l₂ : List HNode} (h : l₁.Perm l₂) : FPerm l₁ l₂ := by
  induction h with
  | nil => exact FPerm.nil
  | cons x _ ih =>
    obtain ⟨n, s, t, c⟩ := x
    exact FPerm.cons (fperm_refl c) ih
  | swap x y l => exact FPerm.trans (FPerm.swap y x l) (fperm_refl _)
  | trans _ _ ih₁ ih₂ => exact FPerm.trans ih₁ ih₂

theorem readNames_perm_self (b : Bool) (l : List HNode) : (readNames b l).Perm l := by
  cases b
  · rw [readNames_false]
  · rw [readNames_true]; exact sortByName_perm_self l

mutual
theorem fperm_nativeNode (b : Bool) : ∀ x : HNode, FPerm x.children (readNames b (nativeList b x.children))
  | .mk _ _ _ c => FPerm.trans (fperm_nativeList b c) (fperm_of_perm (readNames_perm_self b _).symm)
theorem fperm_nativeList (b : Bool) : ∀ l : List HNode, FPerm l (nativeList b l)
  | [] => FPerm.nil
  | .mk n s t c :: xs => by
    simp only [nativeList, nativeNode]
    exact FPerm.cons (fperm_nativeNode b (.mk n s t c)) (fperm_nativeList b xs)
end

/-- what the native iterators serve is one of the enumerations of the same forest -/
theorem fperm_nativeOrder (b : Bool) (l : List HNode) : FPerm l (nativeOrder b l) :=
  FPerm.trans (fperm_nativeList b l) (fperm_of_perm (readNames_perm_self b _).symm)

theorem scanInv_init (d : Defaults) : ScanInv [] [] (initRoot d) [] := by
  refine ⟨?_, ?_, ?_, ?_⟩
  · intro p n hp
    cases p with
    | nil => exact Or.inl rfl
    | cons c r => simp only [initRoot, lookup_leaf_cons] at hp; cases hp
  · intro m hm; cases hm
  · intro m hm; cases hm
  · intro p hp; cases hp

/-- every link a `--pack-dir` scan leaves pending points at the node made from the first name of that file, or at nothing -/
theorem scanInto_links {sorted : Bool} {d : Defaults} {cfg : Cfg} {fnm : Fnm} {rootDev : Nat} {e : List HNode} {t : TNode}
    {links : List Path} (hp : cfg.pfx = []) (hwf : WFList e)
    (h : scanInto sorted d cfg fnm rootDev e (initRoot d) [] = some (t, links)) : FlatOrDangling t links := by
  simp only [scanInto] at h
  split at h
  · cases h
  · rename_i st hst
    cases h
    have hwf' : WFList (nativeOrder sorted e) := fperm_wf (fperm_nativeOrder sorted e) hwf
    have := walkList_inv d cfg fnm hp (nativeOrder sorted e) [] rootDev
      { seen := [], tree := initRoot d, links := [] } st [] hwf' (scanInv_init d) (fun _ _ hm => by cases hm) hst
    exact this.flatOrDangling

end Sqfs.FsTree
