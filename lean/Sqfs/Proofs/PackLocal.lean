/-
Lemmas about `specPack` that are local to one file (`packFile`), and the plumbing that lifts a statement about
`packFile` in an arbitrary state to every file of `specPack`.
-/
import Sqfs.Spec.PackSpec
namespace Sqfs.Pack

/-! ## plumbing -/

theorem sum_eq_zero_of_all (l : List Nat) (h : ∀ x ∈ l, x = 0) : l.sum = 0 := by
  induction l with
  | nil => rfl
  | cons a t ih =>
    have ha := h a (by simp)
    have := ih (fun x hx => h x (List.mem_cons_of_mem _ hx))
    simp [ha, this]

theorem packFiles_length (P : Params) : ∀ (fs : List InFile) (σ : State), (packFiles P σ fs).2.length = fs.length := by
  intro fs
  induction fs with
  | nil => intro σ; rfl
  | cons f fs ih => intro σ; simp [packFiles, ih]

/-- every per-file result of `packFiles` is the result of `packFile` on that file in *some* state -/
theorem packFiles_getElem (P : Params) : ∀ (fs : List InFile) (σ : State) (i : Nat) (h : i < fs.length),
    ∃ σ', (packFiles P σ fs).2[i]? = some (packFile P σ' fs[i]).2 := by
  intro fs
  induction fs with
  | nil => intro σ i h; simp at h
  | cons f fs ih =>
    intro σ i h
    cases i with
    | zero => exact ⟨σ, by simp [packFiles]⟩
    | succ i =>
      obtain ⟨σ', hσ⟩ := ih (packFile P σ f).1 i (by simpa using h)
      exact ⟨σ', by simpa [packFiles] using hσ⟩

theorem specPack_files (P : Params) (files : List InFile) : (specPack P files).files = (packFiles P {} files).2 := rfl

/-- lift: a statement that holds for `packFile` in every state holds for every file of `specPack` -/
theorem specPack_lift (P : Params) (files : List InFile) (Q : InFile → FileResult → Prop)
    (hQ : ∀ σ f, Q f (packFile P σ f).2) (i : Nat) (h : i < files.length) :
    ∃ r, (specPack P files).files[i]? = some r ∧ Q files[i] r := by
  obtain ⟨σ', hσ⟩ := packFiles_getElem P files {} i h
  exact ⟨_, by rw [specPack_files]; exact hσ, hQ σ' _⟩

/-! ## worker rule -/

theorem encode_raw_of_dontCompress (P : Params) (ck : UInt32) (d : Bytes) : (encode P true ck d).raw = true := by
  simp [encode]

theorem workData_word_dontCompress (P : Params) (F : Flags) (d : Bytes) (h : F.dontCompress = true) :
    (workData P F d).word = .sparse ∨ ∃ n, (workData P F d).word = .stored n true := by
  unfold workData
  split
  · left; rfl
  · right; exact ⟨d.length, by simp [Worked.word, Stored.word, encode, h]⟩

theorem workData_nosparse (P : Params) (F : Flags) (d : Bytes) (h : F.ignoreSparse = true) :
    ∃ s, workData P F d = .stored s := by
  unfold workData
  simp [h]

theorem placeTail_sparse (P : Params) (σ : State) (F : Flags) (t : Bytes) (σ' : State)
    (h : placeTail P σ F t = (σ', .sparse)) : F.ignoreSparse = false ∧ allZero t = true := by
  unfold placeTail at h
  by_cases hc : (!F.ignoreSparse && allZero t) = true
  · simpa using hc
  · rw [if_neg hc] at h
    exfalso
    by_cases hd : F.dontDedup = true
    · simp [hd] at h
    · simp only [hd] at h
      cases hl : lookupChunk σ.chunks F.dontCompress (cksumOf P F t) t <;> simp [hl] at h

/-! ## the shape of `packFile`'s result -/

/-- block words contributed by the data blocks -/
def dataWords (P : Params) (f : InFile) : List Word := (dataBlocksOf P.B f).map (fun d => (workData P f.flags d).word)

theorem packFile_shape (P : Params) (σ : State) (f : InFile) (hne : f.data ≠ []) (r : FileResult)
    (hr : r = (packFile P σ f).2) :
    r.size = f.data.length ∧
    ((hasTailFrag P.B f = false ∧ r.words = dataWords P f ∧ r.frag = none
        ∧ r.sparse = ((dataBlocksOf P.B f).map (fun d => (workData P f.flags d).sparseBytes)).sum)
     ∨ (hasTailFrag P.B f = true ∧ f.flags.ignoreSparse = false ∧ allZero (tailOf P.B f.data) = true
        ∧ r.words = dataWords P f ++ [.sparse] ∧ r.frag = none
        ∧ r.sparse = ((dataBlocksOf P.B f).map (fun d => (workData P f.flags d).sparseBytes)).sum + (tailOf P.B f.data).length)
     ∨ (hasTailFrag P.B f = true ∧ r.words = dataWords P f ∧ (∃ i o, r.frag = some (i, o))
        ∧ r.sparse = ((dataBlocksOf P.B f).map (fun d => (workData P f.flags d).sparseBytes)).sum)) := by
  subst hr
  unfold packFile
  rw [if_neg hne]
  cases ht : hasTailFrag P.B f
  · simp only [Bool.false_eq_true, if_false]
    refine ⟨by first | trivial | rfl, Or.inl ⟨trivial, ?_, trivial, ?_⟩⟩
    · simp [dataWords, List.map_map, Function.comp_def]
    · simp [List.map_map, Function.comp_def]
  · simp only [if_true]
    split
    · rename_i σ2 hpt
      have := placeTail_sparse _ _ _ _ _ hpt
      refine ⟨by first | trivial | rfl, Or.inr (Or.inl ⟨trivial, this.1, this.2, ?_, rfl, ?_⟩)⟩
      · simp [dataWords, List.map_map, Function.comp_def]
      · simp [List.map_map, Function.comp_def]
    · rename_i σ2 i o hpt
      refine ⟨by first | trivial | rfl, Or.inr (Or.inr ⟨trivial, ?_, ⟨i, o, rfl⟩, ?_⟩)⟩
      · simp [dataWords, List.map_map, Function.comp_def]
      · simp [List.map_map, Function.comp_def]

theorem packFile_empty (P : Params) (σ : State) (f : InFile) (he : f.data = []) :
    packFile P σ f = (σ, ⟨0, [], 0, none, 0, false⟩) := by
  unfold packFile; simp [he]

theorem fullBlocks_length (B : Nat) (d : Bytes) : (fullBlocks B d).length = d.length / B := by
  simp [fullBlocks]

theorem dataBlocksOf_length (B : Nat) (f : InFile) :
    (dataBlocksOf B f).length = f.data.length / B + (if f.data.length % B > 0 && f.flags.dontFragment then 1 else 0) := by
  unfold dataBlocksOf
  rw [List.length_append, fullBlocks_length]
  split <;> simp

end Sqfs.Pack
