/-
Proofs for the step after the C16 round trip (`Sqfs/Model/QuoteFs.lean`, `Sqfs/Spec/QuoteFs.lean`): adding the decoded
entries of a described tree, in the order of the listing, to a fresh `fstree_t` yields `normTree`.
-/
import Sqfs.Proofs.QuoteTree
import Sqfs.Spec.QuoteFs
namespace Sqfs.QuoteFs
open Sqfs.Path (Bytes joinSlash splitSlash)
open Sqfs.Quote
open Sqfs.Consts
set_option linter.unusedSimpArgs false

/-! ### the type bits of `perm | S_IFxxx` -/

theorem mask_perm (p K : Nat) (hp : p < 4096) : (p ||| K) &&& 61440 = K &&& 61440 := by
  apply Nat.eq_of_testBit_eq
  intro i
  have e : (61440 : Nat) = 15 <<< 12 := by decide
  simp only [Nat.testBit_and, Nat.testBit_or, e, Nat.testBit_shiftLeft]
  by_cases hi : 12 ≤ i
  · have : p.testBit i = false :=
      Nat.testBit_lt_two_pow (Nat.lt_of_lt_of_le hp (by
        have : (4096 : Nat) = 2 ^ 12 := by decide
        rw [this]
        exact Nat.pow_le_pow_right (by omega) hi))
    simp [this]
  · simp [hi]

theorem isType_perm (p K T : Nat) (hp : p < 4096) : isType (p ||| K) T = ((K &&& 61440) == T) := by
  unfold isType sIFMT
  rw [mask_perm p K hp]

/-! ### `child_by_name`, `insert_sorted`, the in-place update -/

theorem eta (X : FNode) : FNode.mk X.name X.attr X.children = X := by cases X; rfl

theorem childByName_name {cs : List FNode} {n : Bytes} {c : FNode} (h : childByName cs n = some c) : c.name = n := by
  induction cs with
  | nil => simp [childByName] at h
  | cons x xs ih =>
    simp only [childByName] at h
    by_cases hx : x.name = n
    · simp only [hx, if_true, Option.some.injEq] at h; rw [← h]; exact hx
    · simp only [hx, if_false] at h; exact ih h

/-- the inserted node is the one `child_by_name` finds, if there was none of that name -/
theorem childByName_insert_self (c : FNode) (cs : List FNode) (h : childByName cs c.name = none) :
    childByName (insertSorted c cs) c.name = some c := by
  induction cs with
  | nil => simp [insertSorted, childByName]
  | cons x xs ih =>
    simp only [childByName] at h
    by_cases hx : x.name = c.name
    · simp [hx] at h
    · simp only [hx, if_false] at h
      simp only [insertSorted]
      by_cases hl : nameLt x.name c.name = true
      · simp only [hl, if_true, childByName, hx, if_false]; exact ih h
      · simp [hl, childByName]

/-- other names are found as before -/
theorem childByName_insert_other (c : FNode) (cs : List FNode) (m : Bytes) (h : m ≠ c.name) :
    childByName (insertSorted c cs) m = childByName cs m := by
  induction cs with
  | nil => simp [insertSorted, childByName, Ne.symm h]
  | cons x xs ih =>
    simp only [insertSorted]
    by_cases hl : nameLt x.name c.name = true
    · simp only [hl, if_true, childByName, ih]
    · have hc : ¬ c.name = m := fun e => h e.symm
      simp [hl, childByName, hc]

theorem replaceChild_self {cs : List FNode} {n : Bytes} {c : FNode} (h : childByName cs n = some c) : replaceChild c cs = cs := by
  induction cs with
  | nil => rfl
  | cons x xs ih =>
    have hn := childByName_name h
    simp only [childByName] at h
    simp only [replaceChild]
    by_cases hx : x.name = n
    · simp only [hx, if_true, Option.some.injEq] at h
      subst h
      simp
    · simp only [hx, if_false] at h
      have : ¬ x.name = c.name := by rw [hn]; exact hx
      simp only [this, if_false, ih h]

theorem childByName_replace {cs : List FNode} {n : Bytes} {c c' : FNode} (h : childByName cs n = some c) (hn : c'.name = n) :
    childByName (replaceChild c' cs) n = some c' := by
  induction cs with
  | nil => simp [childByName] at h
  | cons x xs ih =>
    simp only [childByName] at h
    simp only [replaceChild]
    by_cases hx : x.name = n
    · simp only [hx, hn, if_true, childByName]
    · simp only [hx, if_false] at h
      have : ¬ x.name = c'.name := by rw [hn]; exact hx
      simp only [this, if_false, childByName, hx, ih h]

theorem replaceChild_twice (c1 c2 : FNode) (cs : List FNode) (h : c1.name = c2.name) :
    replaceChild c2 (replaceChild c1 cs) = replaceChild c2 cs := by
  induction cs with
  | nil => rfl
  | cons x xs ih =>
    simp only [replaceChild]
    by_cases hx : x.name = c1.name
    · simp only [hx, if_true, replaceChild, h]
    · have : ¬ x.name = c2.name := by rw [← h]; exact hx
      simp only [hx, this, if_false, replaceChild, ih]

/-- replacing the freshly inserted node is inserting the replacement -/
theorem replace_insert (c c' : FNode) (cs : List FNode) (hn : c'.name = c.name) (h : childByName cs c.name = none) :
    replaceChild c' (insertSorted c cs) = insertSorted c' cs := by
  induction cs with
  | nil => simp [insertSorted, replaceChild, hn]
  | cons x xs ih =>
    simp only [childByName] at h
    by_cases hx : x.name = c.name
    · simp [hx] at h
    · simp only [hx, if_false] at h
      simp only [insertSorted, hn]
      by_cases hl : nameLt x.name c.name = true
      · have : ¬ x.name = c'.name := by rw [hn]; exact hx
        simp only [hl, if_true, replaceChild, this, if_false, ih h]
      · simp [hl, replaceChild, hn]

theorem insertSorted_length (c : FNode) (cs : List FNode) : (insertSorted c cs).length = cs.length + 1 := by
  induction cs with
  | nil => rfl
  | cons x xs ih =>
    simp only [insertSorted]
    split <;> simp [ih]

/-! ### entries with the path still to walk; adding below an existing child -/

theorem map_ok' {f : FNode → FNode} {r : Except FsErr FNode} {y : FNode} (h : r.map f = .ok y) : ∃ x, r = .ok x ∧ y = f x := by
  cases r with
  | error x => cases h
  | ok x => cases h; exact ⟨x, rfl, rfl⟩

theorem bind_ok' {f : FNode → Except FsErr FNode} {r : Except FsErr FNode} {y : FNode} (h : r.bind f = .ok y) :
    ∃ x, r = .ok x ∧ f x = .ok y := by
  cases r with
  | error x => cases h
  | ok x => exact ⟨x, rfl, h⟩

/-- entries in the order of the listing, each with the components left to walk from the current directory -/
abbrev RelE := List Bytes × Entry

def foldRel (d : Defaults) (k : Nat) : List RelE → FNode → Except FsErr FNode
  | [], X => .ok X
  | (p, e) :: r, X => (addAt d e p k X).bind (foldRel d k r)

theorem foldRel_append (d : Defaults) (k : Nat) (a b : List RelE) (X : FNode) :
    foldRel d k (a ++ b) X = (foldRel d k a X).bind (foldRel d k b) := by
  induction a generalizing X with
  | nil => rfl
  | cons pe r ih =>
    obtain ⟨p, e⟩ := pe
    simp only [List.cons_append, foldRel]
    cases addAt d e p k X with
    | error x => rfl
    | ok X' => exact ih X'

/-- run `f` on the child named `n` of the directory `X` and put the result in its place -/
def under (n : Bytes) (f : FNode → Except FsErr FNode) (X : FNode) : Except FsErr FNode :=
  match childByName X.children n with
  | some c => (f c).map (putChild X)
  | none => .error .notdir

theorem overwrite_name {c c' : FNode} {e : Entry} {m : Nat} (h : overwrite c e m = .ok c') : c'.name = c.name := by
  cases c with
  | mk n a cs =>
    unfold overwrite at h
    by_cases hc : (!isType a.mode sIFDIR || !isType e.mode sIFDIR || !a.implicit) = true
    · simp [hc] at h
    · simp only [hc, Bool.false_eq_true, if_false, Except.ok.injEq] at h
      rw [← h]; rfl

theorem linkChild_name {X c X' : FNode} (h : linkChild X c = .ok X') : X'.name = X.name := by
  cases X with
  | mk n a cs =>
    unfold linkChild at h
    by_cases hc : a.linkCount = 0xFFFFFFFF
    · simp [hc] at h
    · simp only [hc, if_false, Except.ok.injEq] at h
      rw [← h]; rfl

theorem putChild_name (X c : FNode) : (putChild X c).name = X.name := rfl
theorem putChild_children (X c : FNode) : (putChild X c).children = replaceChild c X.children := rfl
theorem putChild_isDir (X c : FNode) : (putChild X c).isDir = X.isDir := rfl
theorem putChild_attr (X c : FNode) : (putChild X c).attr = X.attr := rfl

theorem addAt_name (d : Defaults) (e : Entry) : ∀ (p : List Bytes) (k : Nat) (X X' : FNode), addAt d e p k X = .ok X' → X'.name = X.name
  | [], _, X, X', h => by simp only [addAt] at h; exact overwrite_name h
  | [n], k, X, X', h => by
    simp only [addAt] at h
    by_cases hd : X.isDir = true
    · simp only [hd, Bool.not_true, Bool.false_eq_true, if_false] at h
      cases hc : childByName X.children n with
      | none =>
        simp only [hc] at h
        obtain ⟨x, _, h2⟩ := bind_ok' h
        exact linkChild_name h2
      | some c =>
        simp only [hc] at h
        obtain ⟨x, _, rfl⟩ := map_ok' h
        rfl
    · simp [hd] at h
  | n :: m :: rest, k, X, X', h => by
    simp only [addAt] at h
    by_cases hd : X.isDir = true
    · simp only [hd, Bool.not_true, Bool.false_eq_true, if_false] at h
      cases hc : childByName X.children n with
      | none =>
        simp only [hc] at h
        by_cases h1 : k + 1 > sqfsMaxDirNesting
        · simp [h1] at h
        · by_cases h2 : X.attr.linkCount = 0xFFFFFFFF
          · simp [h1, h2] at h
          · simp only [h1, h2, if_false] at h
            obtain ⟨x, _, h3⟩ := bind_ok' h
            exact linkChild_name h3
      | some c =>
        simp only [hc] at h
        obtain ⟨x, _, rfl⟩ := map_ok' h
        rfl
    · simp [hd] at h

theorem foldRel_name (d : Defaults) (k : Nat) : ∀ (l : List RelE) (X X' : FNode), foldRel d k l X = .ok X' → X'.name = X.name
  | [], X, X', h => by simp only [foldRel, Except.ok.injEq] at h; rw [h]
  | (p, e) :: r, X, X', h => by
    simp only [foldRel] at h
    obtain ⟨X1, h1, h2⟩ := bind_ok' h
    rw [foldRel_name d k r X1 X' h2, addAt_name d e p k X X1 h1]

/-- walking `n :: p` (with more to come) from a directory that has a child `n` is walking `p` below that child -/
theorem addAt_under (d : Defaults) (e : Entry) (n m : Bytes) (rest : List Bytes) (k : Nat) (X c : FNode) (hd : X.isDir = true)
    (hc : childByName X.children n = some c) :
    addAt d e (n :: m :: rest) k X = under n (addAt d e (m :: rest) (k + 1)) X := by
  simp only [addAt, hd, Bool.not_true, Bool.false_eq_true, if_false, hc, under]

/-- the same for a whole run of entries that all start with `n` and go on below it -/
theorem foldRel_under (d : Defaults) (n : Bytes) (k : Nat) :
    ∀ (l : List RelE) (X c : FNode), X.isDir = true → childByName X.children n = some c → (∀ pe ∈ l, pe.1 ≠ []) →
      foldRel d k (l.map (fun pe => (n :: pe.1, pe.2))) X = under n (foldRel d (k + 1) l) X
  | [], X, c, _, hc, _ => by
    simp only [List.map_nil, foldRel, under, hc, Except.map, putChild, replaceChild_self hc, eta]
  | (p, e) :: r, X, c, hd, hc, hne => by
    have hp : p ≠ [] := hne (p, e) (by simp)
    obtain ⟨m, rest, rfl⟩ : ∃ m rest, p = m :: rest := by
      cases p with
      | nil => exact absurd rfl hp
      | cons m rest => exact ⟨m, rest, rfl⟩
    simp only [List.map_cons, foldRel]
    rw [addAt_under d e n m rest k X c hd hc]
    simp only [under, hc]
    cases h1 : addAt d e (m :: rest) (k + 1) c with
    | error x => rfl
    | ok c1 =>
      have hn1 : c1.name = n := by rw [addAt_name d e _ _ c c1 h1]; exact childByName_name hc
      have hc1 : childByName (putChild X c1).children n = some c1 := childByName_replace (c' := c1) hc hn1
      have ih := foldRel_under d n k r (putChild X c1) c1 hd hc1 (fun pe hpe => hne pe (by simp [hpe]))
      show foldRel d k (r.map _) (putChild X c1) = (foldRel d (k + 1) r c1).map (putChild X)
      rw [ih]
      simp only [under, hc1]
      cases h2 : foldRel d (k + 1) r c1 with
      | error x => rfl
      | ok c2 =>
        have hn2 : c1.name = c2.name := by rw [foldRel_name d (k + 1) r c1 c2 h2]
        show Except.ok (putChild (putChild X c1) c2) = Except.ok (putChild X c2)
        simp only [putChild, FNode.name, FNode.attr, FNode.children, replaceChild_twice c1 c2 _ hn2]

/-! ### the entries of a described tree, with relative paths -/

mutual
/-- `specTree` with, for every entry, the components left to walk: `rel` is the path of the node relative to the
directory the entries are added to, `abs` its path in the image -/
def relTree (ur : Option Bytes) (abs rel : List Bytes) : Tree → List RelE
  | .mk _ node ch =>
    ((specEntry ur abs node).toList.map (fun e => (rel, e))) ++
      (if node.kind = .dir then relForest ur abs rel ch else [])
def relForest (ur : Option Bytes) (pabs prel : List Bytes) : List Tree → List RelE
  | [] => []
  | .mk name node ch :: ts =>
    relTree ur (pabs ++ [name]) (prel ++ [name]) (.mk name node ch) ++ relForest ur pabs prel ts
end

mutual
theorem relTree_snd (ur : Option Bytes) (abs rel : List Bytes) : (t : Tree) → (relTree ur abs rel t).map (·.2) = specTree ur abs t
  | .mk name node ch => by
    simp only [relTree, specTree, List.map_append, List.map_map]
    congr 1
    · cases specEntry ur abs node <;> simp [Option.toList]
    · by_cases hk : node.kind = .dir
      · simp only [hk, if_true]; exact relForest_snd ur abs rel ch
      · simp only [hk, if_false, List.map_nil]
theorem relForest_snd (ur : Option Bytes) (pabs prel : List Bytes) : (ts : List Tree) → (relForest ur pabs prel ts).map (·.2) = specForest ur pabs ts
  | [] => by simp only [relForest, specForest, List.map_nil]
  | .mk name node ch :: ts => by
    simp only [relForest, specForest, List.map_append]
    rw [relTree_snd ur (pabs ++ [name]) (prel ++ [name]) (.mk name node ch), relForest_snd ur pabs prel ts]
end

mutual
/-- a longer relative prefix is put in front of every path -/
theorem relTree_cons (ur : Option Bytes) (abs : List Bytes) (n : Bytes) (rel : List Bytes) :
    (t : Tree) → relTree ur abs (n :: rel) t = (relTree ur abs rel t).map (fun pe => (n :: pe.1, pe.2))
  | .mk name node ch => by
    have ih := relForest_cons ur abs n rel ch
    unfold relTree
    cases specEntry ur abs node <;> by_cases hk : node.kind = .dir <;> simp [hk, ih, Option.toList]
theorem relForest_cons (ur : Option Bytes) (pabs : List Bytes) (n : Bytes) (prel : List Bytes) :
    (ts : List Tree) → relForest ur pabs (n :: prel) ts = (relForest ur pabs prel ts).map (fun pe => (n :: pe.1, pe.2))
  | [] => by simp only [relForest, List.map_nil]
  | .mk name node ch :: ts => by
    simp only [relForest, List.map_append, List.cons_append]
    rw [relTree_cons ur (pabs ++ [name]) n (prel ++ [name]) (.mk name node ch), relForest_cons ur pabs n prel ts]
end

mutual
/-- every path below a node starts with the node's relative path … -/
theorem relTree_prefix (ur : Option Bytes) (abs rel : List Bytes) :
    (t : Tree) → ∀ pe ∈ relTree ur abs rel t, ∃ q, pe.1 = rel ++ q
  | .mk name node ch => by
    intro pe hpe
    simp only [relTree, List.mem_append, List.mem_map] at hpe
    rcases hpe with ⟨e, _, rfl⟩ | hpe
    · exact ⟨[], by simp⟩
    · by_cases hk : node.kind = .dir
      · simp only [hk, if_true] at hpe
        obtain ⟨q, hq, _⟩ := relForest_prefix ur abs rel ch pe hpe
        exact ⟨q, hq⟩
      · simp [hk] at hpe
/-- … and every path of a forest goes at least one step further than the parent's -/
theorem relForest_prefix (ur : Option Bytes) (pabs prel : List Bytes) :
    (ts : List Tree) → ∀ pe ∈ relForest ur pabs prel ts, ∃ q, pe.1 = prel ++ q ∧ q ≠ []
  | [] => by intro pe hpe; simp [relForest] at hpe
  | .mk name node ch :: ts => by
    intro pe hpe
    simp only [relForest, List.mem_append] at hpe
    rcases hpe with hpe | hpe
    · obtain ⟨q, hq⟩ := relTree_prefix ur (pabs ++ [name]) (prel ++ [name]) (.mk name node ch) pe hpe
      exact ⟨name :: q, by rw [hq]; simp, by simp⟩
    · exact relForest_prefix ur pabs prel ts pe hpe
end

theorem relForest_ne (ur : Option Bytes) (pabs : List Bytes) (ts : List Tree) : ∀ pe ∈ relForest ur pabs [] ts, pe.1 ≠ [] := by
  intro pe hpe
  obtain ⟨q, hq, hne⟩ := relForest_prefix ur pabs [] ts pe hpe
  rw [hq]; simpa using hne

/-! ### attributes -/

theorem clampTime_id {m : Nat} (h : m < 2 ^ 32) : clampTime m = m := by
  unfold clampTime
  have : ¬ m > 0xFFFFFFFF := by omega
  simp only [this, if_false]

theorem specEntry_some (ur : Option Bytes) (comps : List Bytes) (n : Node) (hk : n.kind ≠ .other) :
    ∃ e, specEntry ur comps n = some e := by
  cases h : n.kind <;> first | exact absurd h hk | simp [specEntry, h]

/-- the node `mknode` creates for the entry of a described node -/
theorem leaf_attr (d : Defaults) (hd : d.mtime < 2 ^ 32) (ur : Option Bytes) (comps : List Bytes) (n : Node) (hn : n.Wf)
    (e : Entry) (he : specEntry ur comps n = some e) :
    mkAttr e.mode e.uid e.gid d.mtime e.rdev e.extra = attrOf d ur comps n 0 := by
  have hp := hn.1
  cases hk : n.kind <;> simp only [specEntry, hk, Option.some.injEq] at he
  all_goals first | (exact absurd he (by simp)) | subst he
  all_goals simp only [mkAttr, attrOf, hk, ifmtOf, isType_perm _ _ _ hp, clampTime_id hd]
  all_goals cases ur <;> simp [sIFDIR, sIFREG, sIFLNK, sIFBLK, sIFCHR, sIFIFO, sIFSOCK]

theorem entry_mode_dir (ur : Option Bytes) (comps : List Bytes) (n : Node) (hn : n.Wf) (hk : n.kind = .dir)
    (e : Entry) (he : specEntry ur comps n = some e) : isType e.mode sIFDIR = true := by
  simp only [specEntry, hk, Option.some.injEq] at he
  subst he
  simp only [ifmtOf, isType_perm _ _ _ hn.1]
  decide

def bump (X : FNode) (k : Nat) (cs : List FNode) : FNode :=
  .mk X.name { X.attr with linkCount := X.attr.linkCount + k } cs

theorem bump_bump (X : FNode) (a b : Nat) (cs cs' : List FNode) : bump (bump X a cs) b cs' = bump X (a + b) cs' := by
  simp [bump, FNode.name, FNode.attr, Nat.add_assoc]

theorem bump_isDir (X : FNode) (k : Nat) (cs : List FNode) : (bump X k cs).isDir = X.isDir := rfl
theorem bump_children (X : FNode) (k : Nat) (cs : List FNode) : (bump X k cs).children = cs := rfl
theorem bump_zero (X : FNode) : bump X 0 X.children = X := by cases X; rfl

theorem linkChild_ok (X c : FNode) (h : X.attr.linkCount < 0xFFFFFFFF) :
    linkChild X c = .ok (bump X 1 (insertSorted c X.children)) := by
  cases X with
  | mk n a cs =>
    have : ¬ a.linkCount = 0xFFFFFFFF := by simp only [FNode.attr] at h; omega
    simp only [linkChild, this, if_false, bump, FNode.name, FNode.attr, FNode.children]

theorem putChild_bump_insert (X c c' : FNode) (hn : c'.name = c.name) (h : childByName X.children c.name = none) :
    putChild (bump X 1 (insertSorted c X.children)) c' = bump X 1 (insertSorted c' X.children) := by
  cases X with
  | mk n a cs =>
    simp only [FNode.children] at h
    simp only [putChild, bump, FNode.name, FNode.attr, FNode.children, replace_insert c c' cs hn h]

/-- number of children that are described -/
def cnt : List Tree → Nat
  | [] => 0
  | .mk _ node _ :: ts => if node.kind = .other then cnt ts else 1 + cnt ts

theorem normForest_length (d : Defaults) (ur : Option Bytes) (pa : List Bytes) :
    ∀ (ts : List Tree) (acc : List FNode), (normForest d ur pa acc ts).length = acc.length + cnt ts
  | [], acc => by simp [normForest, cnt]
  | .mk name node ch :: ts, acc => by
    simp only [normForest, cnt]
    by_cases hk : node.kind = .other
    · simp only [hk, if_true]; exact normForest_length d ur pa ts acc
    · simp only [hk, if_false]
      rw [normForest_length d ur pa ts _, insertSorted_length]
      omega

theorem normTree_name (d : Defaults) (ur : Option Bytes) (comps : List Bytes) (t : Tree) : (normTree d ur comps t).name = t.name := by
  cases t; simp [normTree, FNode.name, Tree.name]

theorem specEntry_flags (ur : Option Bytes) (comps : List Bytes) (n : Node) (e : Entry) (he : specEntry ur comps n = some e) :
    e.flags = 0 := by
  cases hk : n.kind <;> simp only [specEntry, hk, Option.some.injEq] at he
  all_goals first | (exact absurd he (by simp)) | (subst he; rfl)

mutual
theorem specTree_flags (ur : Option Bytes) (comps : List Bytes) : (t : Tree) → ∀ e ∈ specTree ur comps t, e.flags = 0
  | .mk name node ch => by
    intro e he
    simp only [specTree, List.mem_append] at he
    rcases he with he | he
    · cases hs : specEntry ur comps node with
      | none => simp [hs, Option.toList] at he
      | some e' =>
        simp only [hs, Option.toList, List.mem_singleton] at he
        rw [he]; exact specEntry_flags ur comps node e' hs
    · by_cases hk : node.kind = .dir
      · simp only [hk, if_true] at he; exact specForest_flags ur comps ch e he
      · simp [hk] at he
theorem specForest_flags (ur : Option Bytes) (parents : List Bytes) : (ts : List Tree) → ∀ e ∈ specForest ur parents ts, e.flags = 0
  | [] => by intro e he; simp [specForest] at he
  | .mk name node ch :: ts => by
    intro e he
    simp only [specForest, List.mem_append] at he
    rcases he with he | he
    · exact specTree_flags ur (parents ++ [name]) (.mk name node ch) e he
    · exact specForest_flags ur parents ts e he
end

theorem isHard_of_flags {e : Entry} (h : e.flags = 0) : isHard e = false := by
  simp [isHard, h]

/-- `mknode` for the entry of a described node, below a directory at depth `k`: no hard link; the nesting limit is
the only test that can fire -/
theorem mknodeOf_spec (d : Defaults) (k : Nat) (name : Bytes) (e : Entry) (hfl : e.flags = 0)
    (hk : isType e.mode sIFDIR = true → k + 1 ≤ sqfsMaxDirNesting) : mknodeOf d k name e = .ok (leafOf d name e) := by
  have hh := isHard_of_flags hfl
  unfold mknodeOf
  by_cases hd : isType e.mode sIFDIR = true
  · have : ¬ (k + 1 > sqfsMaxDirNesting) := by have := hk hd; omega
    simp [hd, hh, this]
  · simp [hd, hh]

/-! ### the entries of a subtree, added below a directory -/

theorem relTree_other (ur : Option Bytes) (abs rel : List Bytes) (name : Bytes) (node : Node) (ch : List Tree)
    (hk : node.kind = .other) : relTree ur abs rel (.mk name node ch) = [] := by
  have : ¬ node.kind = .dir := by rw [hk]; decide
  simp [relTree, specEntry, hk, this, Option.toList]

mutual
/-- **one subtree**: adding the entries of the described tree `t` (its own, then those of everything below it, in
the order of the listing) below a directory `X` at depth `k` that has no child of `t`'s name links the rebuilt `t`
into `X` -/
theorem tree_fs (d : Defaults) (hd : d.mtime < 2 ^ 32) (ur : Option Bytes) (pabs : List Bytes) (k : Nat) :
    (t : Tree) → (X : FNode) →
      (match t with
        | .mk name node ch => node.kind ≠ .other ∧ node.Wf ∧ ForestOk ch ∧ DistinctF ch ∧ (ch.map Tree.name).Nodup ∧
            ch.length < 2 ^ 32 - 3 ∧ childByName X.children name = none) →
      Shallow (k + 1) t → X.isDir = true → X.attr.linkCount < 0xFFFFFFFF →
      foldRel d k (relTree ur (pabs ++ [t.name]) [t.name] t) X
        = .ok (bump X 1 (insertSorted (normTree d ur (pabs ++ [t.name]) t) X.children))
  | .mk name node ch, X, h, hsh, hX, hlc => by
    obtain ⟨hk, hn, hf, hdf, hnd, hlen, hnone⟩ := h
    obtain ⟨hsh1, hsh2⟩ := hsh
    obtain ⟨e, he⟩ := specEntry_some ur (pabs ++ [name]) node hk
    have hleaf : leafOf d name e = .mk name (attrOf d ur (pabs ++ [name]) node 0) [] := by
      simp only [leafOf, leaf_attr d hd ur _ node hn e he]
    have hmk : mknodeOf d k name e = .ok (leafOf d name e) := by
      apply mknodeOf_spec d k name e (specEntry_flags ur _ node e he)
      intro hdir
      apply hsh1
      -- the entry has the type bits of a directory only for a directory
      cases hkk : node.kind <;> simp only [specEntry, hkk, Option.some.injEq] at he
      all_goals first | rfl | (exact absurd he (by simp)) | skip
      all_goals subst he
      all_goals simp [isType_perm _ _ _ hn.1, ifmtOf, sIFDIR, sIFREG, sIFLNK, sIFBLK, sIFCHR, sIFIFO, sIFSOCK] at hdir
    have hadd : addAt d e [name] k X = .ok (bump X 1 (insertSorted (leafOf d name e) X.children)) := by
      simp only [addAt, hX, Bool.not_true, Bool.false_eq_true, if_false, hnone, hmk, Except.bind]
      exact linkChild_ok X _ hlc
    simp only [Tree.name, relTree, he, Option.toList, List.map_cons, List.map_nil, List.cons_append, List.nil_append, foldRel, hadd,
      Except.bind]
    by_cases hdir : node.kind = .dir
    · simp only [hdir, if_true]
      rw [show relForest ur (pabs ++ [name]) [name] ch
            = (relForest ur (pabs ++ [name]) [] ch).map (fun pe => (name :: pe.1, pe.2)) from relForest_cons ur _ name [] ch]
      have hself : childByName (bump X 1 (insertSorted (leafOf d name e) X.children)).children name = some (leafOf d name e) := by
        rw [bump_children]
        exact childByName_insert_self (leafOf d name e) X.children hnone
      rw [foldRel_under d name k _ _ (leafOf d name e) (by rw [bump_isDir]; exact hX) hself (relForest_ne ur _ ch)]
      simp only [under, hself]
      -- the children, added below the fresh leaf
      have hleafdir : (leafOf d name e).isDir = true := by
        rw [hleaf]
        have hm : (attrOf d ur (pabs ++ [name]) node 0).mode = node.perm ||| sIFDIR := by simp [attrOf, hdir, ifmtOf]
        simp only [FNode.isDir, FNode.attr, hm, isType_perm _ _ _ hn.1]
        decide
      have hkids := forest_fs d hd ur (pabs ++ [name]) (k + 1) ch (leafOf d name e) hf hdf hnd hsh2 hleafdir
        (fun t _ => by rw [hleaf]; rfl)
        (by rw [hleaf]; simp only [FNode.attr, attrOf, hdir, if_true]; omega)
      rw [hkids]
      show Except.ok (putChild (bump X 1 (insertSorted (leafOf d name e) X.children))
        (bump (leafOf d name e) (cnt ch) (normForest d ur (pabs ++ [name]) (leafOf d name e).children ch))) = _
      rw [putChild_bump_insert X (leafOf d name e)
        (bump (leafOf d name e) (cnt ch) (normForest d ur (pabs ++ [name]) (leafOf d name e).children ch)) rfl hnone]
      -- the rebuilt node
      have hnode : bump (leafOf d name e) (cnt ch) (normForest d ur (pabs ++ [name]) (leafOf d name e).children ch)
          = normTree d ur (pabs ++ [name]) (.mk name node ch) := by
        rw [hleaf]
        simp only [bump, FNode.name, FNode.attr, FNode.children, normTree, hdir, if_true, normForest_length, attrOf,
          List.length_nil, Nat.zero_add, Nat.add_zero]
      rw [hnode]
    · simp only [hdir, if_false, foldRel]
      congr 2
      simp only [normTree, hdir, if_false, hleaf, List.length_nil]
/-- **the children of one directory** (at depth `k`), one after the other -/
theorem forest_fs (d : Defaults) (hd : d.mtime < 2 ^ 32) (ur : Option Bytes) (pabs : List Bytes) (k : Nat) :
    (ts : List Tree) → (X : FNode) → ForestOk ts → DistinctF ts → (ts.map Tree.name).Nodup → ShallowF (k + 1) ts → X.isDir = true →
      (∀ t ∈ ts, childByName X.children t.name = none) → X.attr.linkCount + ts.length < 0xFFFFFFFF →
      foldRel d k (relForest ur pabs [] ts) X = .ok (bump X (cnt ts) (normForest d ur pabs X.children ts))
  | [], X, _, _, _, _, _, _, _ => by
    simp only [relForest, foldRel, cnt, normForest, bump_zero]
  | .mk name node ch :: ts, X, hf, hdf, hnd, hsh, hX, hnone, hlc => by
    obtain ⟨⟨_, hn, hch⟩, hts⟩ := hf
    obtain ⟨⟨⟨hndc, hlenc⟩, hdc⟩, hdts⟩ := hdf
    obtain ⟨hsh1, hshts⟩ := hsh
    have hnd' : (ts.map Tree.name).Nodup := (List.nodup_cons.1 hnd).2
    have hnotin : name ∉ ts.map Tree.name := (List.nodup_cons.1 hnd).1
    simp only [relForest, List.nil_append, foldRel_append]
    by_cases hk : node.kind = .other
    · rw [relTree_other ur _ _ name node ch hk]
      simp only [foldRel, Except.bind, cnt, normForest, hk, if_true]
      exact forest_fs d hd ur pabs k ts X hts hdts hnd' hshts hX (fun t ht => hnone t (by simp [ht])) (by simp at hlc; omega)
    · have h1 := tree_fs d hd ur pabs k (.mk name node ch) X
        ⟨hk, hn, hch, hdc, hndc, hlenc, hnone (.mk name node ch) (by simp)⟩ hsh1 hX (by simp at hlc; omega)
      simp only [Tree.name] at h1
      rw [h1]
      simp only [Except.bind, cnt, normForest, hk, if_false]
      have h2 := forest_fs d hd ur pabs k ts (bump X 1 (insertSorted (normTree d ur (pabs ++ [name]) (.mk name node ch)) X.children))
        hts hdts hnd' hshts (by rw [bump_isDir]; exact hX)
        (fun t ht => by
          rw [bump_children, childByName_insert_other _ _ _ (by
            rw [normTree_name]
            intro e
            exact hnotin (List.mem_map.2 ⟨t, ht, e⟩))]
          exact hnone t (by simp [ht]))
        (by simp only [bump, FNode.attr] at hlc ⊢; simp at hlc; omega)
      rw [h2, bump_bump, bump_children]
end

/-! ### from the entry list of the whole listing to the tree -/

theorem pathOf_join (p : List Bytes) (h : ∀ c ∈ p, GoodName c) : pathOf (joinSlash p) = p := by
  unfold pathOf
  by_cases hp : p = []
  · subst hp; simp [joinSlash]
  · have hne := joinSlash_ne_nil p hp h
    simp only [hne, if_false]
    exact Sqfs.Path.splitSlash_joinSlash p hp (fun c hc => (h c hc).2.2.2.1)

theorem specEntry_name (ur : Option Bytes) (comps : List Bytes) (n : Node) (e : Entry) (he : specEntry ur comps n = some e) :
    e.name = joinSlash comps := by
  cases hk : n.kind <;> simp only [specEntry, hk, Option.some.injEq] at he
  all_goals first | (exact absurd he (by simp)) | (subst he; rfl)

/-- none of the argument checks of `fstree_add_generic` fires for the entry of a described node -/
theorem addEntry_spec (d : Defaults) (ur : Option Bytes) (comps : List Bytes) (n : Node) (hn : n.Wf) (e : Entry)
    (he : specEntry ur comps n = some e) (X : FNode) : addEntry d e X = addAt d e (pathOf e.name) 0 X := by
  obtain ⟨hp, hu, hg, hdv, _⟩ := hn
  have h1 : (isType e.mode sIFLNK && e.extra.isNone) = false := by
    cases hk : n.kind <;> simp only [specEntry, hk, Option.some.injEq] at he
    all_goals first | (exact absurd he (by simp)) | subst he
    all_goals simp [isType_perm _ _ _ hp, ifmtOf, sIFDIR, sIFREG, sIFLNK, sIFBLK, sIFCHR, sIFIFO, sIFSOCK]
  have h2 : (decide (e.uid > 0xFFFFFFFF) || decide (e.gid > 0xFFFFFFFF)) = false := by
    cases hk : n.kind <;> simp only [specEntry, hk, Option.some.injEq] at he
    all_goals first | (exact absurd he (by simp)) | subst he
    all_goals simp; omega
  have h3 : ((isType e.mode sIFBLK || isType e.mode sIFCHR) && !isHard e && decide (e.rdev > 0xFFFFFFFF)) = false := by
    cases hk : n.kind <;> simp only [specEntry, hk, Option.some.injEq] at he
    all_goals first | (exact absurd he (by simp)) | subst he
    all_goals simp; try omega
  simp only [addEntry, h1, h2, h3, Bool.false_eq_true, if_false]

/-- a pair of the annotated entry list is usable by `addAll`: the path is what `fstree_get_node_by_path` cuts the
name into, and the argument checks pass -/
def PairOk (d : Defaults) (pe : RelE) : Prop := ∀ X, addEntry d pe.2 X = addAt d pe.2 pe.1 0 X

mutual
theorem relTree_ok (d : Defaults) (ur : Option Bytes) (comps : List Bytes) (hc : ∀ c ∈ comps, GoodName c) :
    (t : Tree) → (match t with | .mk _ node ch => node.Wf ∧ ForestOk ch) → ∀ pe ∈ relTree ur comps comps t, PairOk d pe
  | .mk name node ch, h => by
    obtain ⟨hn, hf⟩ := h
    intro pe hpe
    simp only [relTree, List.mem_append, List.mem_map] at hpe
    rcases hpe with ⟨e, he, rfl⟩ | hpe
    · intro X
      have he' : specEntry ur comps node = some e := by
        cases hs : specEntry ur comps node with
        | none => simp [hs, Option.toList] at he
        | some e' => simp only [hs, Option.toList, List.mem_singleton] at he; rw [he]
      rw [addEntry_spec d ur comps node hn e he' X, specEntry_name ur comps node e he', pathOf_join comps hc]
    · by_cases hk : node.kind = .dir
      · simp only [hk, if_true] at hpe
        exact relForest_ok d ur comps hc ch hf pe hpe
      · simp [hk] at hpe
theorem relForest_ok (d : Defaults) (ur : Option Bytes) (parents : List Bytes) (hc : ∀ c ∈ parents, GoodName c) :
    (ts : List Tree) → ForestOk ts → ∀ pe ∈ relForest ur parents parents ts, PairOk d pe
  | [], _ => by intro pe hpe; simp [relForest] at hpe
  | .mk name node ch :: ts, h => by
    obtain ⟨⟨hname, hn, hch⟩, hts⟩ := h
    intro pe hpe
    simp only [relForest, List.mem_append] at hpe
    rcases hpe with hpe | hpe
    · have hc' : ∀ c ∈ parents ++ [name], GoodName c := by
        intro c hcm
        rcases List.mem_append.1 hcm with m | m
        · exact hc c m
        · rw [List.mem_singleton.1 m]; exact hname
      exact relTree_ok d ur (parents ++ [name]) hc' (.mk name node ch) ⟨hn, hch⟩ pe hpe
    · exact relForest_ok d ur parents hc ts hts pe hpe
end

theorem addAll_of_foldRel (d : Defaults) :
    ∀ (l : List RelE) (X X' : FNode), (∀ pe ∈ l, PairOk d pe) → foldRel d 0 l X = .ok X' → addAll d (l.map (·.2)) X = (X', none)
  | [], X, X', _, h => by
    simp only [foldRel, Except.ok.injEq] at h
    simp [addAll, h]
  | (p, e) :: r, X, X', hok, h => by
    simp only [foldRel] at h
    obtain ⟨X1, h1, h2⟩ := bind_ok' h
    have := hok (p, e) (by simp) X
    simp only at this
    simp only [List.map_cons, addAll, this, h1]
    exact addAll_of_foldRel d r X1 X' (fun pe hpe => hok pe (by simp [hpe])) h2

theorem or_perm_isDir (x : Nat) : isType (sIFDIR ||| (x &&& 0o7777)) sIFDIR = true := by
  rw [Nat.or_comm, isType_perm _ _ _ (by
    have : x &&& 0o7777 ≤ 0o7777 := Nat.and_le_right
    omega)]
  decide

/-- **the whole listing**: the decoded entries of the tree of an image, added in the order of the listing to a fresh
`fstree_t`, give the rebuilt tree -/
theorem build_root (d : Defaults) (hd : d.mtime < 2 ^ 32) (ur : Option Bytes) (t : Tree) (ht : RootOk t) (hdist : Distinct t)
    (hsh : Shallow 0 t) :
    addAll d (specTree ur [] t) (initRoot d) = (normTree d ur [] t, none) := by
  cases t with
  | mk name node ch =>
    obtain ⟨hname, hk, hn, hf⟩ := ht
    obtain ⟨⟨hnd, hlen⟩, hdf⟩ := hdist
    obtain ⟨_, hshf⟩ := hsh
    subst hname
    rw [← relTree_snd ur [] [] (.mk [] node ch)]
    obtain ⟨e, he⟩ := specEntry_some ur [] node (by rw [hk]; decide)
    have hem := entry_mode_dir ur [] node hn hk e he
    -- the root's own line overwrites the implicitly created root
    let R1 : FNode := .mk [] { (initRoot d).attr with uid := e.uid, gid := e.gid, mode := e.mode, mtime := d.mtime % 2 ^ 32, implicit := false } []
    have hover : addAt d e [] 0 (initRoot d) = .ok R1 := by
      simp only [addAt, initRoot, overwrite, or_perm_isDir, hem, Bool.not_true, Bool.or_self, Bool.false_eq_true, if_false, R1, FNode.attr]
    have hR1dir : R1.isDir = true := hem
    have hkids := forest_fs d hd ur [] 0 ch R1 hf hdf hnd hshf hR1dir (fun t _ => rfl) (by simp only [R1, FNode.attr, initRoot]; omega)
    apply addAll_of_foldRel d _ _ _ (relTree_ok d ur [] (by simp) (.mk [] node ch) ⟨hn, hf⟩)
    simp only [relTree, he, Option.toList, List.map_cons, List.map_nil, hk, if_true, List.cons_append, List.nil_append, foldRel, hover,
      Except.bind, hkids]
    congr 1
    have e1 : e.mode = node.perm ||| sIFDIR := by
      simp only [specEntry, hk, Option.some.injEq] at he; subst he; simp [ifmtOf]
    have e2 : e.uid = node.uid := by simp only [specEntry, hk, Option.some.injEq] at he; subst he; rfl
    have e3 : e.gid = node.gid := by simp only [specEntry, hk, Option.some.injEq] at he; subst he; rfl
    simp only [bump, R1, FNode.name, FNode.attr, FNode.children, initRoot, normTree, hk, if_true, normForest_length, attrOf, e1, e2, e3,
      List.length_nil, Nat.zero_add, Nat.mod_eq_of_lt hd, ifmtOf]
    simp

end Sqfs.QuoteFs
