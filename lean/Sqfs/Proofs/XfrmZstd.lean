/-
C15 — the compressing side of `zstd.c: process_data`: libzstd's streaming convention
(`ZSTD_compressStream2`: the return value is 0 exactly when, under `ZSTD_e_end`, the frame is complete and flushed)
⇒ the loop with its `pending` flag is a codec that meets `EncContract`.
-/
import Sqfs.Proofs.XfrmWrapDec
namespace Sqfs.Xfrm

section ZEnc
variable {τ : Type} {L : ZLib τ} {Dec : Bytes → Option Bytes}

/-- the relation for the stream object: the library's, plus the meaning of the `pending` flag -/
def ZEncR (hL : ZEncContract L Dec) (zs : ZState τ) (x y : Bytes) (fin : Bool) : Prop :=
  hL.R zs.lib x y fin ∧ (zs.pending = false → x = [] ∧ y = [] ∧ fin = false)

theorem zflag_fix (hL : ZEncContract L Dec) {s : τ} {x y : Bytes} {f F : Bool} (hR : hL.R s x y f)
    (h : f = true → F = true) : hL.R s x y F := by
  cases f with
  | true => rw [h rfl]; exact hR
  | false =>
    cases F with
    | false => exact hR
    | true => exact hL.mono hR

/-- result of the loop of `zstd.c` on a compressing stream object: (final loop state, error flag) -/
def ZLoopPost (hL : ZEncContract L Dec) (s : ZState τ) (x y : Bytes) (fin : Bool) (inp : Bytes) (room : Nat) (fl : Flush)
    (r : ZWrapSt τ × Bool) : Prop :=
  r.2 = false ∧ r.1.2.2.2.1 ≤ inp.length ∧ r.1.2.1 = inp.drop r.1.2.2.2.1 ∧ r.1.2.2.2.2.length ≤ room ∧
  r.1.2.2.1 = room - r.1.2.2.2.2.length ∧
  -- the loop was left because nothing is to be done, or because there is no room
  ((r.1.2.1 = [] ∧ ¬ (r.1.1.pending = true ∧ fl = Flush.full)) ∨ r.1.2.2.1 = 0) ∧
  (-- nothing has happened on an idle stream object
   (r.1.1 = s ∧ r.1.2.2.2.1 = 0 ∧ r.1.2.2.2.2 = [] ∧ s.pending = false ∧ x = [] ∧ y = [] ∧ fin = false) ∨
   -- the frame has been finished
   (r.1.1.pending = false ∧ r.1.2.2.2.1 = inp.length ∧ hL.R r.1.1.lib [] [] false ∧ fl = Flush.full ∧
      (x ++ inp ≠ [] → Dec (y ++ r.1.2.2.2.2) = some (x ++ inp))) ∨
   -- the frame is open
   (r.1.1.pending = true ∧
      hL.R r.1.1.lib (x ++ inp.take r.1.2.2.2.1) (y ++ r.1.2.2.2.2) (fin || (decide (fl = Flush.full) && decide (r.1.2.2.2.1 = inp.length))) ∧
      (0 < room → (inp ≠ [] ∨ (fl = Flush.full ∧ x ≠ [])) → 0 < r.1.2.2.2.1 ∨ hL.pend r.1.1.lib < hL.pend s.lib)))

theorem zstdLoop_enc_spec (hL : ZEncContract L Dec) {s : ZState τ} {x y : Bytes} {fin : Bool} (inp : Bytes) (room : Nat)
    (fl : Flush) (hR : ZEncR hL s x y fin) (hP : Proto fin fl inp) :
    ∃ r, zstdLoop L true fl (inp.length + room + 2) s inp room 0 [] = some r ∧ ZLoopPost hL s x y fin inp room fl r := by
  let hyp : Prop := inp ≠ [] ∨ (fl = Flush.full ∧ x ≠ [])
  have main := iter_fuel (zstdBody L true fl)
    (fun a => a.2.2.2.1 ≤ inp.length ∧ a.2.1 = inp.drop a.2.2.2.1 ∧ a.2.2.2.2.length ≤ room ∧ a.2.2.1 = room - a.2.2.2.2.length ∧
      ((a.1.pending = false ∧ a.2.2.2.1 = inp.length ∧ hL.R a.1.lib [] [] false ∧ fl = Flush.full ∧
          (x ++ inp ≠ [] → Dec (y ++ a.2.2.2.2) = some (x ++ inp))) ∨
       (∃ f, hL.R a.1.lib (x ++ inp.take a.2.2.2.1) (y ++ a.2.2.2.2) f ∧
          (f = true → fin = true ∨ (fl = Flush.full ∧ a.2.2.2.1 = inp.length)) ∧ (fin = true → f = true) ∧
          (a.1.pending = false → a.1 = s ∧ a.2.2.2.1 = 0 ∧ a.2.2.2.2 = [] ∧ x = [] ∧ y = [] ∧ fin = false) ∧
          ((a.1 = s ∧ a.2.2.2.1 = 0 ∧ a.2.2.2.2 = []) ∨ (a.1.pending = true ∧ (hyp → 0 < a.2.2.2.1 ∨ hL.pend a.1.lib < hL.pend s.lib))))))
    (ZLoopPost hL s x y fin inp room fl)
    (fun a => a.2.1.length + a.2.2.1) ?_ (s, inp, room, 0, [])
    ⟨Nat.zero_le _, by simp, by simp, by simp, Or.inr ⟨fin, by simpa using hR.1, fun h => Or.inl h, fun h => h,
      fun h => ⟨rfl, rfl, rfl, (hR.2 h).1, (hR.2 h).2.1, (hR.2 h).2.2⟩, Or.inl ⟨rfl, rfl, rfl⟩⟩⟩
  · obtain ⟨r, hr, hq⟩ := main
    refine ⟨r, ?_, hq⟩
    simp only [zstdLoop]
    exact iter_mono _ _ _ _ hr _ (by simp)
  · rintro ⟨st, inp', room', ai, ao⟩ ⟨hai, hinp, hao, hroom, hmode⟩
    simp only at hai hinp hao hroom hmode
    have hlen : inp'.length = inp.length - ai := by rw [hinp]; simp
    by_cases hcond : ((decide (0 < inp'.length) || (st.pending && decide (fl = Flush.full))) && decide (0 < room')) = true
    · have hr0 : 0 < room' := by simp only [Bool.and_eq_true, decide_eq_true_eq] at hcond; exact hcond.2
      rcases hmode with ⟨hpf, hfin, _⟩ | ⟨f, hRf, hf1, hf2, hpend, htrack⟩
      · -- after the frame has been finished the loop condition is false
        exfalso
        simp only [Bool.and_eq_true, Bool.or_eq_true, decide_eq_true_eq] at hcond
        rcases hcond.1 with h | h
        · omega
        · rw [hpf] at h; simp at h
      · have hPf : Proto f fl inp' := by
          refine ⟨hP.1, fun hf => ?_⟩
          rcases hf1 hf with h | ⟨h1, h2⟩
          · obtain ⟨h1, h2⟩ := hP.2 h
            exact ⟨h1, by rw [hinp, h2]; simp⟩
          · exact ⟨h1, by rw [hinp, h2]; simp⟩
        obtain ⟨hne, hcl, hol⟩ := hL.ok inp' room' fl hRf hPf hr0
        have hwork : inp' ≠ [] ∨ fl = Flush.full := by
          simp only [Bool.and_eq_true, Bool.or_eq_true, decide_eq_true_eq] at hcond
          rcases hcond.1 with h | h
          · left; intro h0; rw [h0] at h; simp at h
          · right; exact h.2
        have hbytes := hL.bytes inp' room' fl hRf hPf hr0 hwork
        have hnostuck : (decide (inp'.length = 0) && decide ((L.call st.lib inp' room' fl).consumed = 0) &&
            decide ((L.call st.lib inp' room' fl).out.length = 0)) = false := by
          cases h : (decide (inp'.length = 0) && decide ((L.call st.lib inp' room' fl).consumed = 0) &&
            decide ((L.call st.lib inp' room' fl).out.length = 0)) with
          | false => rfl
          | true =>
            simp only [Bool.and_eq_true, decide_eq_true_eq] at h
            omega
        simp only [zstdBody, hcond, if_true, hne, Bool.false_eq_true, if_false, hnostuck]
        refine ⟨fun r h => (by cases h), ?_⟩
        intro a' ha'; cases ha'
        have htake : x ++ inp.take ai ++ inp'.take (L.call st.lib inp' room' fl).consumed =
            x ++ inp.take (ai + (L.call st.lib inp' room' fl).consumed) := by
          rw [List.append_assoc, hinp, take_add_drop]
        refine ⟨⟨?_, ?_, ?_, ?_, ?_⟩, ?_⟩
        · show ai + (L.call st.lib inp' room' fl).consumed ≤ inp.length; omega
        · show inp'.drop (L.call st.lib inp' room' fl).consumed = inp.drop (ai + (L.call st.lib inp' room' fl).consumed)
          rw [hinp, List.drop_drop]
        · show (ao ++ (L.call st.lib inp' room' fl).out).length ≤ room; rw [List.length_append]; omega
        · show room' - (L.call st.lib inp' room' fl).out.length = room - (ao ++ (L.call st.lib inp' room' fl).out).length
          rw [List.length_append]; omega
        rotate_left
        · show (inp'.drop (L.call st.lib inp' room' fl).consumed).length + (room' - (L.call st.lib inp' room' fl).out.length) < inp'.length + room'
          rw [List.length_drop]; omega
        by_cases hdone : fl = Flush.full ∧ (L.call st.lib inp' room' fl).hint = 0
        · -- the frame is finished by this call
          obtain ⟨d1, d2, d3⟩ := hL.done inp' room' fl hRf hPf hr0 hdone.1 hdone.2
          left
          refine ⟨(by show (decide ((L.call st.lib inp' room' fl).hint ≠ 0) || (true && decide (fl ≠ Flush.full))) = false
                      rw [hdone.2]; simp [hdone.1]), (by show ai + (L.call st.lib inp' room' fl).consumed = inp.length; omega), d2, hdone.1, ?_⟩
          intro hne'
          have e : x ++ inp.take ai ++ inp' = x ++ inp := by
            rw [List.append_assoc, hinp, List.take_append_drop]
          have h5 := d3 (by rw [e]; exact hne')
          rw [e] at h5
          simpa [List.append_assoc] using h5
        · right
          have hkeep := hL.keep inp' room' fl hRf hPf hr0 hdone
          rw [htake] at hkeep
          have hpend' : (decide ((L.call st.lib inp' room' fl).hint ≠ 0) || (true && decide (fl ≠ Flush.full))) = true := by
            by_cases hfl : fl = Flush.full
            · have : (L.call st.lib inp' room' fl).hint ≠ 0 := fun h => hdone ⟨hfl, h⟩
              simp [this]
            · simp [hfl]
          refine ⟨_, by simpa [List.append_assoc] using hkeep, ?_, ?_, ?_, Or.inr ⟨hpend', ?_⟩⟩
          · intro h
            simp only [Bool.or_eq_true, Bool.and_eq_true, decide_eq_true_eq] at h
            rcases h with h | ⟨h1, h2⟩
            · rcases hf1 h with h' | ⟨h1, h2⟩
              · exact Or.inl h'
              · exact Or.inr ⟨h1, (by show ai + (L.call st.lib inp' room' fl).consumed = inp.length; omega)⟩
            · exact Or.inr ⟨h1, (by show ai + (L.call st.lib inp' room' fl).consumed = inp.length; omega)⟩
          · intro h; simp [hf2 h]
          · intro h
            change (decide ((L.call st.lib inp' room' fl).hint ≠ 0) || (true && decide (fl ≠ Flush.full))) = false at h
            rw [hpend'] at h; cases h
          · intro hh
            show 0 < ai + (L.call st.lib inp' room' fl).consumed ∨ hL.pend (L.call st.lib inp' room' fl).st < hL.pend s.lib
            by_cases hpos : 0 < ai + (L.call st.lib inp' room' fl).consumed
            · exact Or.inl hpos
            · right
              have hai0 : ai = 0 := by omega
              have hinp0 : inp' = inp := by rw [hinp, hai0]; simp
              have hx0 : x ++ inp.take ai = x := by rw [hai0]; simp
              have hpre : inp' ≠ [] ∨ (fl = Flush.full ∧ x ++ inp.take ai ≠ []) := by
                rw [hinp0, hx0]; exact hh
              rcases hL.progress inp' room' fl hRf hPf hr0 hpre hdone with h | h
              · omega
              · rcases htrack with ⟨h1, _, _⟩ | ⟨_, h1⟩
                · rw [← h1]; exact h
                · rcases h1 hh with h1 | h1
                  · omega
                  · omega
    · -- the loop condition is false
      simp only [zstdBody, hcond, Bool.false_eq_true, if_false]
      refine ⟨?_, fun a' h => (by cases h)⟩
      intro r hr; cases hr
      have hreason : (inp' = [] ∧ ¬ (st.pending = true ∧ fl = Flush.full)) ∨ room' = 0 := by
        by_cases hr0 : room' = 0
        · exact Or.inr hr0
        · left
          have hr1 : 0 < room' := by omega
          simp only [Bool.and_eq_true, Bool.or_eq_true, decide_eq_true_eq, hr1, and_true, not_or, Nat.not_lt] at hcond
          refine ⟨List.eq_nil_of_length_eq_zero (by omega), ?_⟩
          rintro ⟨h1, h2⟩
          exact hcond.2 ⟨h1, h2⟩
      refine ⟨rfl, hai, hinp, hao, hroom, hreason, ?_⟩
      rcases hmode with ⟨hpf, hfin, hRl, hfull, hdec⟩ | ⟨f, hRf, hf1, hf2, hpend, htrack⟩
      · exact Or.inr (Or.inl ⟨hpf, hfin, hRl, hfull, hdec⟩)
      · cases hp : st.pending with
        | false =>
          obtain ⟨h1, h2, h3, h4, h5, h6⟩ := hpend hp
          exact Or.inl ⟨h1, h2, h3, by rw [← h1]; exact hp, h4, h5, h6⟩
        | true =>
          right; right
          refine ⟨rfl, ?_, ?_⟩
          · refine zflag_fix hL hRf ?_
            intro h
            show (fin || (decide (fl = Flush.full) && decide (ai = inp.length))) = true
            rcases hf1 h with h' | ⟨h1, h2⟩
            · simp [h']
            · rw [Bool.or_eq_true]; right
              simp only [Bool.and_eq_true, decide_eq_true_eq]; exact ⟨h1, h2⟩
          · intro hr0 hh
            rcases htrack with ⟨h1, h2, h3⟩ | ⟨_, h1⟩
            · -- no call although there is room and work to do: impossible
              exfalso
              apply hcond
              have hr' : 0 < room' := by rw [hroom, h3]; simpa using hr0
              rcases hh with h | ⟨h, _⟩
              · have : 0 < inp'.length := by
                  rw [hinp, h2]
                  cases inp with
                  | nil => exact absurd rfl h
                  | cons a t => simp
                simp [this, hr']
              · simp [hp, h, hr']
            · exact h1 hh

/-- `process_data` of the compressing zstd object: result, and when it is `END` -/
theorem zstdProcess_enc_spec (hL : ZEncContract L Dec) {s : ZState τ} {x y : Bytes} {fin : Bool} (inp : Bytes) (room : Nat)
    (fl : Flush) (hR : ZEncR hL s x y fin) (hP : Proto fin fl inp) :
    ∃ st' ai ao res, zstdProcess L true s inp room fl = some ⟨st', ai, ao, res⟩ ∧ res ≠ Res.error ∧
      (res = Res.streamEnd ↔ (fl ≠ Flush.none ∧ ai = inp.length ∧ st'.pending = false)) ∧
      ZLoopPost hL s x y fin inp room fl ((st', inp.drop ai, room - ao.length, ai, ao), false) := by
  obtain ⟨⟨⟨st', inp', room', ai, ao⟩, err⟩, hrun, hpost⟩ := zstdLoop_enc_spec hL inp room fl hR hP
  have hpost0 := hpost
  obtain ⟨herr, hai, hinp, hao, hroom, _⟩ := hpost0
  simp only at herr hai hinp hao hroom
  subst herr
  have hlen0 : inp'.length = 0 ↔ ai = inp.length := by rw [hinp, List.length_drop]; omega
  have hpost' : ZLoopPost hL s x y fin inp room fl ((st', inp.drop ai, room - ao.length, ai, ao), false) := by
    rw [← hinp, ← hroom]; exact hpost
  by_cases hE : fl ≠ Flush.none ∧ inp'.length = 0 ∧ (!st'.pending) = true
  · refine ⟨st', ai, ao, Res.streamEnd, ?_, by simp, ?_, hpost'⟩
    · simp only [zstdProcess, hrun]; rw [if_pos hE]
    · constructor
      · intro _; exact ⟨hE.1, hlen0.1 hE.2.1, by simpa using hE.2.2⟩
      · intro _; rfl
  · by_cases hB : 0 < inp'.length ∧ room' = 0
    · refine ⟨st', ai, ao, Res.bufferFull, ?_, by simp, ?_, hpost'⟩
      · simp only [zstdProcess, hrun]; rw [if_neg hE, if_pos hB]
      · constructor
        · intro h; cases h
        · rintro ⟨h1, h2, h3⟩; exfalso; exact hE ⟨h1, hlen0.2 h2, by simp [h3]⟩
    · refine ⟨st', ai, ao, Res.ok, ?_, by simp, ?_, hpost'⟩
      · simp only [zstdProcess, hrun]; rw [if_neg hE, if_neg hB]
      · constructor
        · intro h; cases h
        · rintro ⟨h1, h2, h3⟩; exfalso; exact hE ⟨h1, hlen0.2 h2, by simp [h3]⟩

/-- the compressing zstd object is a codec that meets the encoder contract -/
def zstdEncContract (hL : ZEncContract L Dec) : EncContract (zstdCodec L true) Dec where
  R := ZEncR hL
  pend zs := hL.pend zs.lib
  init := ⟨hL.init, fun _ => ⟨rfl, rfl, rfl⟩⟩
  no_error := by
    intro s x y fin inp room fl hR hP
    obtain ⟨st', ai, ao, res, hrun, hne, _, _⟩ := zstdProcess_enc_spec hL inp room fl hR hP
    simp only [zstdCodec, hrun]; exact hne
  consumed_le := by
    intro s x y fin inp room fl hR hP
    obtain ⟨st', ai, ao, res, hrun, _, _, hpost⟩ := zstdProcess_enc_spec hL inp room fl hR hP
    simp only [zstdCodec, hrun]; exact hpost.2.1
  out_le := by
    intro s x y fin inp room fl hR hP
    obtain ⟨st', ai, ao, res, hrun, _, _, hpost⟩ := zstdProcess_enc_spec hL inp room fl hR hP
    simp only [zstdCodec, hrun]; exact hpost.2.2.2.1
  keep := by
    intro s x y fin inp room fl hR hP
    obtain ⟨st', ai, ao, res, hrun, _, hend, hpost⟩ := zstdProcess_enc_spec hL inp room fl hR hP
    simp only [zstdCodec, hrun]
    intro hne
    obtain ⟨_, hai, _, _, _, hreason, hmode⟩ := hpost
    simp only at hai hreason hmode
    rcases hmode with ⟨h1, h2, h3, h4, h5, h6, h7⟩ | ⟨h1, h2, h3, h4, _⟩ | ⟨h1, h2, _⟩
    · -- nothing happened on an idle object: the state is the old one
      subst h1 h2 h3 h5 h6 h7
      have hF : (false || (decide (fl = Flush.full) && decide (0 = inp.length))) = false := by
        cases hb : (decide (fl = Flush.full) && decide (0 = inp.length)) with
        | false => rfl
        | true =>
          exfalso
          simp only [Bool.and_eq_true, decide_eq_true_eq] at hb
          exact hne (hend.2 ⟨by rw [hb.1]; simp, hb.2, h4⟩)
      simp only [List.take_zero, List.append_nil, hF]
      exact hR
    · exact absurd (hend.2 ⟨by rw [h4]; simp, h2, h1⟩) hne
    · exact ⟨h2, fun h => by rw [h1] at h; cases h⟩
  finish := by
    intro s x y fin inp room fl hR hP
    obtain ⟨st', ai, ao, res, hrun, _, hend, hpost⟩ := zstdProcess_enc_spec hL inp room fl hR hP
    simp only [zstdCodec, hrun]
    intro he
    obtain ⟨hfl, hai, hpf⟩ := hend.1 he
    obtain ⟨_, _, _, _, _, _, hmode⟩ := hpost
    simp only at hmode
    rcases hmode with ⟨h1, h2, h3, h4, h5, h6, h7⟩ | ⟨h1, h2, h3, h4, h5⟩ | ⟨h1, _⟩
    · subst h1 h5 h6 h7
      have hin : inp = [] := List.eq_nil_of_length_eq_zero (by omega)
      refine ⟨hfl, hai, ⟨hR.1, fun _ => ⟨rfl, rfl, rfl⟩⟩, fun h => absurd (by simp [hin]) h⟩
    · exact ⟨hfl, hai, ⟨h3, fun _ => ⟨rfl, rfl, rfl⟩⟩, h5⟩
    · rw [hpf] at h1; cases h1
  progress := by
    intro s x y fin inp room fl hR hP hr0 hh
    obtain ⟨st', ai, ao, res, hrun, _, hend, hpost⟩ := zstdProcess_enc_spec hL inp room fl hR hP
    simp only [zstdCodec, hrun]
    intro hne
    obtain ⟨_, hai, _, hao, _, hreason, hmode⟩ := hpost
    simp only at hai hao hreason hmode
    rcases hmode with ⟨h1, h2, h3, h4, h5, h6, h7⟩ | ⟨h1, h2, h3, h4, _⟩ | ⟨h1, _, h3⟩
    · -- idle object, room and work: the loop would have run
      exfalso
      subst h1 h2 h3 h5
      rcases hreason with ⟨hr1, _⟩ | hr1
      · rcases hh with h | ⟨_, h⟩
        · simp at hr1; exact h hr1
        · exact h rfl
      · simp at hr1; omega
    · exact absurd (hend.2 ⟨by rw [h4]; simp, h2, h1⟩) hne
    · exact h3 hr0 hh

end ZEnc

/-! ### non-vacuity: the toy library behind the libzstd interface meets the convention -/
namespace Toy

theorem encZLib_call (P : Params) (s : Enc) (inp : Bytes) (room : Nat) (fl : Flush) :
    ((encZLib P).call s inp room fl).st = (encStep P s inp room fl).st ∧
    ((encZLib P).call s inp room fl).consumed = (encStep P s inp room fl).consumed ∧
    ((encZLib P).call s inp room fl).out = (encStep P s inp room fl).out ∧
    ((encZLib P).call s inp room fl).isError = false ∧
    ((encZLib P).call s inp room fl).hint =
      (if (encStep P s inp room fl).res = Res.streamEnd then 0
       else (encStep P s inp room fl).st.q.length + (if fl = Flush.full then 1 else 0)) := ⟨rfl, rfl, rfl, rfl, rfl⟩

/-- under `ZSTD_e_end`, hint 0 is the end of the member -/
theorem encZ_done_iff (P : Params) (s : Enc) (inp : Bytes) (room : Nat) :
    ((encZLib P).call s inp room Flush.full).hint = 0 ↔ (encStep P s inp room Flush.full).res = Res.streamEnd := by
  rw [(encZLib_call P s inp room Flush.full).2.2.2.2]
  constructor
  · intro h
    by_cases he : (encStep P s inp room Flush.full).res = Res.streamEnd
    · exact he
    · rw [if_neg he] at h; simp at h
  · intro h; rw [if_pos h]

/-- with room and work to do the engine always takes something in or hands something out (a state that has queued the
terminator still holds at least that byte) -/
theorem enc_not_stuck (P : Params) {s : Enc} (inp : Bytes) {room : Nat} (fl : Flush) (hr : 0 < room)
    (hwork : inp ≠ [] ∨ fl = Flush.full) (hq : s.fin = true → s.q ≠ []) :
    0 < (encStep P s inp room fl).consumed + (encStep P s inp room fl).out.length := by
  rw [encStep_eq P s inp room fl hr]
  have hql := encQ_length P s inp fl
  have hco : (if encFin P s inp fl && decide (((encQ P s inp fl).drop (encM P s inp room fl)).length = 0) then
        (⟨⟨[], false⟩, encN P s inp, (encQ P s inp fl).take (encM P s inp room fl), Res.streamEnd⟩ : StepOut Enc)
      else ⟨⟨(encQ P s inp fl).drop (encM P s inp room fl), encFin P s inp fl⟩, encN P s inp,
            (encQ P s inp fl).take (encM P s inp room fl), Res.ok⟩).consumed = encN P s inp := by split <;> rfl
  have hou : (if encFin P s inp fl && decide (((encQ P s inp fl).drop (encM P s inp room fl)).length = 0) then
        (⟨⟨[], false⟩, encN P s inp, (encQ P s inp fl).take (encM P s inp room fl), Res.streamEnd⟩ : StepOut Enc)
      else ⟨⟨(encQ P s inp fl).drop (encM P s inp room fl), encFin P s inp fl⟩, encN P s inp,
            (encQ P s inp fl).take (encM P s inp room fl), Res.ok⟩).out = (encQ P s inp fl).take (encM P s inp room fl) := by split <;> rfl
  rw [hco, hou, List.length_take]
  by_cases hn : 0 < encN P s inp
  · omega
  · have hn0 : encN P s inp = 0 := by omega
    -- nothing taken in: the queue is not empty
    have hqpos : 0 < (encQ P s inp fl).length := by
      cases hf : s.fin with
      | true =>
        have := hq hf
        have : 0 < s.q.length := by
          cases h : s.q with
          | nil => exact absurd h this
          | cons a t => simp
        omega
      | false =>
        simp only [encN, hf, Bool.false_eq_true, if_false] at hn0
        by_cases hqt : s.q.length ≤ P.thresh
        · rw [if_pos hqt] at hn0
          have hlen : inp.length = 0 := by omega
          have hfull : fl = Flush.full := by
            rcases hwork with h | h
            · exact absurd (List.eq_nil_of_length_eq_zero hlen) h
            · exact h
          have hfin : encFin P s inp fl = true := by
            simp [encFin, hf, hfull, encN, hqt, hlen]
          rw [hfin, hf] at hql
          simp at hql; omega
        · omega
    have hm := encM_pos (P := P) (s := s) (inp := inp) (fl := fl) hr hqpos
    omega

/-- the relation for the zstd-style toy library: as for the codec, and a queued terminator has not been handed out yet -/
def EncRz (s : Enc) (x y : Bytes) (fin : Bool) : Prop := EncR s x y fin ∧ (s.fin = true → s.q ≠ [])

theorem encStep_end_full {P : Params} {s : Enc} {x y : Bytes} {fin : Bool} {inp : Bytes} {room : Nat} {fl : Flush}
    (hR : EncR s x y fin) (hP : Proto fin fl inp) (he : (encStep P s inp room fl).res = Res.streamEnd) : fl = Flush.full := by
  by_cases hr : 0 < room
  · rw [encStep_eq P s inp room fl hr] at he
    split at he
    · rename_i hc
      simp only [Bool.and_eq_true, encFin, Bool.or_eq_true, decide_eq_true_eq] at hc
      rcases hc.1 with h | h
      · exact (hP.2 (hR.2 h)).1
      · exact h.1
    · cases he
  · have : room = 0 := by omega
    subst this
    rw [encStep_room0] at he; cases he

/-- after a call that is not the end of the member, a queued terminator is still (partly) queued -/
theorem encStep_keeps_queue {P : Params} {s : Enc} {inp : Bytes} {room : Nat} {fl : Flush}
    (hq : s.fin = true → s.q ≠ []) (hne : (encStep P s inp room fl).res ≠ Res.streamEnd) :
    (encStep P s inp room fl).st.fin = true → (encStep P s inp room fl).st.q ≠ [] := by
  by_cases hr : 0 < room
  · rw [encStep_eq P s inp room fl hr] at hne ⊢
    split at hne
    · exact absurd rfl hne
    · rename_i hc
      rw [if_neg hc]
      intro hf hnil
      apply hc
      simp only [] at hf hnil
      simp [hf, hnil]
  · have : room = 0 := by omega
    subst this
    rw [encStep_room0]; exact hq

def encZLibContract (P : Params) : ZEncContract (encZLib P) decode where
  R := EncRz
  pend := encPend
  init := ⟨(encContract P).init, fun h => by cases h⟩
  mono := fun h => ⟨⟨h.1.1, fun _ => rfl⟩, h.2⟩
  ok := by
    intro s x y fin inp room fl hR hP _
    exact ⟨rfl, (encContract P).consumed_le inp room fl hR.1 hP, (encContract P).out_le inp room fl hR.1 hP⟩
  done := by
    intro s x y fin inp room fl hR hP _ hfl hh
    subst hfl
    have he := (encZ_done_iff P s inp room).1 hh
    obtain ⟨_, f2, f3, f4⟩ := (encContract P).finish inp room Flush.full hR.1 hP he
    refine ⟨f2, ⟨f3, ?_⟩, f4⟩
    intro h
    have : (encStep P s inp room Flush.full).st = ⟨[], false⟩ := by
      by_cases hr : 0 < room
      · rw [encStep_eq P s inp room Flush.full hr] at he ⊢
        split at he
        · rename_i hc; rw [if_pos hc]
        · cases he
      · have : room = 0 := by omega
        subst this
        rw [encStep_room0] at he; cases he
    change (encStep P s inp room Flush.full).st.fin = true at h
    rw [this] at h; cases h
  keep := by
    intro s x y fin inp room fl hR hP _ hnd
    have hne : (encStep P s inp room fl).res ≠ Res.streamEnd := by
      intro he
      have hfull := encStep_end_full hR.1 hP he
      subst hfull
      exact hnd ⟨rfl, (encZ_done_iff P s inp room).2 he⟩
    exact ⟨(encContract P).keep inp room fl hR.1 hP hne, encStep_keeps_queue hR.2 hne⟩
  progress := by
    intro s x y fin inp room fl hR hP hr hin hnd
    apply (encContract P).progress inp room fl hR.1 hP hr hin
    intro he
    have hfull := encStep_end_full hR.1 hP he
    subst hfull
    exact hnd ⟨rfl, (encZ_done_iff P s inp room).2 he⟩
  bytes := by
    intro s x y fin inp room fl hR _ hr hwork
    exact enc_not_stuck P inp fl hr hwork hR.2

end Toy

end Sqfs.Xfrm
