/-
C04 — `parse_uint` / `parse_int` (lib/util/src/parse_int.c as used by pax_header.c with `len = -1`): the value of a decimal
digit string, exactly, or an error.
-/
import Sqfs.Model.TarPax
namespace Sqfs.Tar

/-- the number a string of decimal digits denotes, continuing from `a` -/
def decFrom (a : Nat) (ds : Bytes) : Nat := ds.foldl (fun v c => v * 10 + (c.toNat - 48)) a

/-- the number a string of decimal digits denotes -/
def decVal (ds : Bytes) : Nat := decFrom 0 ds

/-- what `parse_uint` accepts: everything below `(2^64 − 1) / 10 · 10` (the overflow test `out >= UINT64_MAX / 10` is
    conservative: the six largest 64-bit values are refused as well — a loud error, never a wrong value) -/
abbrev PARSE_UINT_BOUND : Nat := 18446744073709551610

theorem decFrom_ge (ds : Bytes) : ∀ a, a ≤ decFrom a ds := by
  induction ds with
  | nil => intro a; exact Nat.le_refl a
  | cons c t ih =>
    intro a
    have := ih (a * 10 + (c.toNat - 48))
    simp only [decFrom, List.foldl_cons] at this ⊢
    omega

theorem digit_le (c : UInt8) (h : isDigit c = true) : c.toNat - 48 ≤ 9 := by
  simp only [isDigit, Bool.and_eq_true, decide_eq_true_eq] at h
  omega

/-- the digit loop: exact value and digit count, or overflow -/
theorem parseLoop_spec (rest : Bytes) (hr : ∀ c, rest.head? = some c → isDigit c = false) :
    ∀ (ds : Bytes) (out diff : Nat), (∀ c ∈ ds, isDigit c = true) → out < PARSE_UINT_BOUND →
      parseLoop out diff (ds ++ rest) =
        if decFrom out ds < PARSE_UINT_BOUND then some (decFrom out ds, diff + ds.length) else none := by
  intro ds
  induction ds with
  | nil =>
    intro out diff _ ho
    simp only [List.nil_append, decFrom, List.foldl_nil, ho, if_true, List.length_nil, Nat.add_zero]
    cases rest with
    | nil => rfl
    | cons c t =>
      have := hr c rfl
      rw [parseLoop, this]
      rfl
  | cons c t ih =>
    intro out diff hd ho
    have hc : isDigit c = true := hd c (by simp)
    have hx := digit_le c hc
    have ht : ∀ d ∈ t, isDigit d = true := fun d hd' => hd d (List.mem_cons_of_mem _ hd')
    rw [List.cons_append, parseLoop, hc]
    simp only [if_true]
    have hmono := decFrom_ge t (out * 10 + (c.toNat - 48))
    have hstep : decFrom out (c :: t) = decFrom (out * 10 + (c.toNat - 48)) t := by simp [decFrom]
    have hB : PARSE_UINT_BOUND = 18446744073709551610 := rfl
    by_cases h1 : out ≥ 1844674407370955161
    · rw [if_pos h1, hstep]
      have : ¬ decFrom (out * 10 + (c.toNat - 48)) t < PARSE_UINT_BOUND := by omega
      rw [if_neg this]
    · rw [if_neg h1]
      have h2 : ¬ out * 10 > 18446744073709551615 - (c.toNat - 48) := by omega
      rw [if_neg h2, ih (out * 10 + (c.toNat - 48)) (diff + 1) ht (by omega), hstep]
      simp only [List.length_cons]
      have : diff + 1 + t.length = diff + (t.length + 1) := by omega
      rw [this]

/-- **`parse_uint`**: on a non-empty digit string followed by the end of the string or any non-digit -/
theorem parseUint_spec (ds rest : Bytes) (hne : ds ≠ []) (hd : ∀ c ∈ ds, isDigit c = true)
    (hr : ∀ c, rest.head? = some c → isDigit c = false) :
    parseUint (ds ++ rest) = if decVal ds < PARSE_UINT_BOUND then some (decVal ds, ds.length) else none := by
  cases ds with
  | nil => exact absurd rfl hne
  | cons c t =>
    have hc : isDigit c = true := hd c (by simp)
    have := parseLoop_spec rest hr (c :: t) 0 0 hd (by decide)
    simp only [Nat.zero_add] at this
    rw [List.cons_append, parseUint, hc]
    simp only [if_true]
    rw [← List.cons_append, this]
    rfl

/-- `parse_int` on a string that does not start with '-' -/
theorem parseInt_pos (c : UInt8) (t : Bytes) (h : c ≠ 45) :
    parseInt (c :: t) = (match parseUint (c :: t) with
      | none => none
      | some (v, _) => if v ≥ 0x7FFFFFFFFFFFFFFF then none else some (v : Int)) := by
  unfold parseInt
  split
  · rename_i neg s' heq
    split at heq
    · rename_i t' h45; exact absurd (List.cons.inj h45).1 h
    · obtain ⟨rfl, rfl⟩ := Prod.mk.inj heq
      simp only [Bool.false_eq_true, if_false]
      cases parseUint (c :: t) with
      | none => rfl
      | some p => rfl
  
/-- `parse_int` on '-' followed by `s` -/
theorem parseInt_neg (s : Bytes) :
    parseInt (45 :: s) = (match parseUint s with
      | none => none
      | some (v, _) => if v ≥ 0x7FFFFFFFFFFFFFFF then none else some (-(v : Int))) := by
  unfold parseInt
  simp only [if_true]
  cases parseUint s with
  | none => rfl
  | some p => rfl

/-! ### `pax_sparse_map` (PAX sparse format 0.1: `GNU.sparse.map=off,num,off,num,…`) -/

/-- a decimal number as the parser wants it: non-empty, digits only, below the parser's bound -/
def IsDec (ds : Bytes) : Prop := ds ≠ [] ∧ (∀ c ∈ ds, isDigit c = true) ∧ decVal ds < PARSE_UINT_BOUND

/-- `off,num,off,num,…` -/
def renderMap : List (Bytes × Bytes) → Bytes
  | [] => []
  | [(o, c)] => o ++ 44 :: c
  | (o, c) :: p :: rest => o ++ 44 :: (c ++ 44 :: renderMap (p :: rest))

theorem parseUint_dec (ds rest : Bytes) (h : IsDec ds) (hr : ∀ c, rest.head? = some c → isDigit c = false) :
    parseUint (ds ++ rest) = some (decVal ds, ds.length) := by
  rw [parseUint_spec ds rest h.1 h.2.1 hr, if_pos h.2.2]

theorem sparseMapLoop_spec (tail : Bytes) (ht : ∀ c, tail.head? = some c → isDigit c = false ∧ c ≠ 44) :
    ∀ (l : List (Bytes × Bytes)) (f : Nat) (acc : List (Nat × Nat)), l ≠ [] → l.length ≤ f →
      (∀ p ∈ l, IsDec p.1 ∧ IsDec p.2) →
      sparseMapLoop f (renderMap l ++ tail) acc = some (acc ++ l.map fun p => (decVal p.1, decVal p.2)) := by
  intro l
  induction l with
  | nil => intro f acc h; exact absurd rfl h
  | cons p rest ih =>
    intro f acc _ hf hd
    obtain ⟨o, c⟩ := p
    obtain ⟨f', rfl⟩ : ∃ f', f = f' + 1 := ⟨f - 1, by simp at hf; omega⟩
    have ⟨ho, hc⟩ := hd (o, c) (by simp)
    have hcomma : ∀ x, ((44 : UInt8) :: x).head? = some 44 := fun _ => rfl
    have hnd : ∀ (x : Bytes) (d : UInt8), ((44 : UInt8) :: x).head? = some d → isDigit d = false := by
      intro x d h; cases h; decide
    cases rest with
    | nil =>
      simp only [renderMap, List.append_assoc, List.cons_append]
      rw [sparseMapLoop, parseUint_dec o _ ho (hnd _)]
      simp only [List.drop_left' rfl]
      rw [parseUint_dec c tail hc (fun d hd' => (ht d hd').1)]
      simp only [List.drop_left' rfl, List.map_cons, List.map_nil]
      cases tail with
      | nil => rfl
      | cons d t =>
        have := (ht d rfl).2
        split
        · rename_i l3 heq; exact absurd (List.cons.inj heq).1 this
        · rfl
    | cons q rest' =>
      simp only [renderMap, List.append_assoc, List.cons_append]
      rw [sparseMapLoop, parseUint_dec o _ ho (hnd _)]
      simp only [List.drop_left' rfl]
      rw [parseUint_dec c _ hc (hnd _)]
      simp only [List.drop_left' rfl]
      have := ih f' (acc ++ [(decVal o, decVal c)]) (by simp) (by simp at hf ⊢; omega)
        (fun p hp => hd p (List.mem_cons_of_mem _ hp))
      rw [this]
      simp

theorem renderMap_length : ∀ (l : List (Bytes × Bytes)), l.length ≤ (renderMap l).length
  | [] => Nat.le_refl 0
  | [(o, c)] => by simp only [renderMap, List.length_cons, List.length_append, List.length_nil]; omega
  | (o, c) :: p :: rest => by
    have := renderMap_length (p :: rest)
    simp only [renderMap, List.length_cons, List.length_append] at this ⊢
    omega

/-- **`pax_sparse_map`** on a well-formed `GNU.sparse.map` value -/
theorem paxSparseMap_spec (l : List (Bytes × Bytes)) (hne : l ≠ []) (hd : ∀ p ∈ l, IsDec p.1 ∧ IsDec p.2) :
    paxSparseMap (renderMap l) = some (l.map fun p => (decVal p.1, decVal p.2)) := by
  unfold paxSparseMap
  have := sparseMapLoop_spec [] (fun c h => by cases h) l ((renderMap l).length + 1) [] hne
    (by have := renderMap_length l; omega) hd
  simpa using this

end Sqfs.Tar
