/-
C02 helper lemmas, part 1: flag words, `process_block`, inode updates as data (`Eff`) and order-preserving merges.
-/
import Sqfs.Spec.BlockProcSpec
namespace Sqfs.BlockProc
open Sqfs.Consts
open Sqfs.BlockWriter (hasFlag)

/-! ### flag words -/

theorem hasFlag_or (a b c : Nat) : hasFlag (a ||| b) c = (hasFlag a c || hasFlag b c) := by
  unfold hasFlag
  rw [Nat.and_or_distrib_right, Bool.eq_iff_iff]
  simp only [bne_iff_ne, ne_eq, Bool.or_eq_true, Nat.or_eq_zero_iff]
  by_cases h1 : a &&& c = 0 <;> by_cases h2 : b &&& c = 0 <;> simp_all

theorem hasFlag_and (a k c : Nat) : hasFlag (a &&& k) c = hasFlag a (k &&& c) := by
  unfold hasFlag; rw [Nat.and_assoc]

theorem hasFlag_zero (a : Nat) : hasFlag a 0 = false := by simp [hasFlag]

/-- normalise `hasFlag (… ||| const &&& const …) const` -/
macro "flag_simp" : tactic => `(tactic| (
  simp only [clearFlag, hasFlag_or, hasFlag_and, blkFirstBlock, blkLastBlock, blkFragmentBlock, blkIsFragment, blkDontCompress,
    blkDontHash, blkDontFragment, blkDontDeduplicate, blkIgnoreSparse, blkIsSparse, blkIsCompressed, blkFlagInternal,
    blkFlagManualSubmission, blkUserSettable, Nat.reduceAnd, Nat.reduceOr, Nat.reduceXor, hasFlag_zero, Bool.or_false, Bool.false_or,
    Bool.or_true, Bool.true_or] <;>
  try (simp [hasFlag])))

/-- flags for which `process_block` leaves `hasFlag · c` alone: `c` contains neither `IS_SPARSE` nor `IS_COMPRESSED` -/
def Stable (c : Nat) : Prop := hasFlag blkIsSparse c = false ∧ hasFlag blkIsCompressed c = false

theorem stable_first : Stable blkFirstBlock := by constructor <;> decide
theorem stable_last : Stable blkLastBlock := by constructor <;> decide
theorem stable_isFragment : Stable blkIsFragment := by constructor <;> decide
theorem stable_fragmentBlock : Stable blkFragmentBlock := by constructor <;> decide
theorem stable_manual : Stable blkFlagManualSubmission := by constructor <;> decide
theorem stable_internal : Stable blkFlagInternal := by constructor <;> decide
theorem stable_dontCompress : Stable blkDontCompress := by constructor <;> decide
theorem stable_dontDedup : Stable blkDontDeduplicate := by constructor <;> decide

/-! ### `process_block` -/

/-- the four things `process_block` can do to a block -/
theorem processBlock_cases (P : Params) (b : Blk) :
    processBlock P b = b ∨ (b.data ≠ [] ∧ processBlock P b = { b with flags := b.flags ||| blkIsSparse }) ∨
    (b.data ≠ [] ∧ ∃ chk, processBlock P b = { b with chk := chk }) ∨
    (b.data ≠ [] ∧ ∃ chk z, z ≠ [] ∧ processBlock P b = { b with chk := chk, data := z, flags := b.flags ||| blkIsCompressed }) := by
  unfold processBlock
  by_cases h0 : b.data.length = 0
  · left; rw [if_pos h0]
  · have hne : b.data ≠ [] := fun h => h0 (by simp [h])
    rw [if_neg h0]
    split
    · right; left; exact ⟨hne, rfl⟩
    · dsimp only
      split
      · right; right; left; exact ⟨hne, _, rfl⟩
      · split
        · split
          · rename_i z _ hz
            right; right; right
            exact ⟨hne, _, z, fun h => by simp [h] at hz, rfl⟩
          · right; right; left; exact ⟨hne, _, rfl⟩
        · right; right; left; exact ⟨hne, _, rfl⟩

theorem processBlock_inode (P : Params) (b : Blk) : (processBlock P b).inode = b.inode := by
  rcases processBlock_cases P b with h | ⟨_, h⟩ | ⟨_, _, h⟩ | ⟨_, _, _, _, h⟩ <;> rw [h]

theorem processBlock_index (P : Params) (b : Blk) : (processBlock P b).index = b.index := by
  rcases processBlock_cases P b with h | ⟨_, h⟩ | ⟨_, _, h⟩ | ⟨_, _, _, _, h⟩ <;> rw [h]

theorem processBlock_seq (P : Params) (b : Blk) : (processBlock P b).seq = b.seq := by
  rcases processBlock_cases P b with h | ⟨_, h⟩ | ⟨_, _, h⟩ | ⟨_, _, _, _, h⟩ <;> rw [h]

theorem processBlock_hasFlag (P : Params) (b : Blk) (c : Nat) (hc : Stable c) :
    hasFlag (processBlock P b).flags c = hasFlag b.flags c := by
  obtain ⟨h1, h2⟩ := hc
  rcases processBlock_cases P b with h | ⟨_, h⟩ | ⟨_, _, h⟩ | ⟨_, _, _, _, h⟩ <;> rw [h] <;>
    simp only [hasFlag_or, h1, h2, Bool.or_false]

theorem processBlock_data_nil (P : Params) (b : Blk) : (processBlock P b).data = [] ↔ b.data = [] := by
  rcases processBlock_cases P b with h | ⟨hne, h⟩ | ⟨hne, _, h⟩ | ⟨hne, _, z, hz, h⟩ <;> rw [h] <;> simp [hne, hz]

/-- `blk->flags & ~BLK_FLAG_INTERNAL` keeps every public flag -/
theorem clearInternal_first (f : Nat) : hasFlag (clearFlag f blkFlagInternal) blkFirstBlock = hasFlag f blkFirstBlock := by flag_simp
theorem clearInternal_last (f : Nat) : hasFlag (clearFlag f blkFlagInternal) blkLastBlock = hasFlag f blkLastBlock := by flag_simp
theorem clearInternal_sparse (f : Nat) : hasFlag (clearFlag f blkFlagInternal) blkIsSparse = hasFlag f blkIsSparse := by flag_simp
theorem clearInternal_compressed (f : Nat) : hasFlag (clearFlag f blkFlagInternal) blkIsCompressed = hasFlag f blkIsCompressed := by flag_simp
theorem clearInternal_dontDedup (f : Nat) : hasFlag (clearFlag f blkFlagInternal) blkDontDeduplicate = hasFlag f blkDontDeduplicate := by flag_simp

/-! ### inode updates -/

theorem applyEffs_append (l : List Inode) (a b : List Eff) : applyEffs l (a ++ b) = applyEffs (applyEffs l a) b := by
  simp [applyEffs, List.foldl_append]

theorem applyEffs_nil (l : List Inode) : applyEffs l [] = l := rfl

theorem applyEffs_length (l : List Inode) (xs : List Eff) : (applyEffs l xs).length = l.length := by
  induction xs generalizing l with
  | nil => rfl
  | cons x xs ih => simp only [applyEffs, List.foldl_cons] at ih ⊢; rw [ih]; simp [applyEff]

/-- appending a fresh inode commutes with updates of existing ones -/
theorem applyEffs_snoc (l : List Inode) (xs : List Eff) (i : Inode) (h : ∀ x ∈ xs, x.id < l.length) :
    applyEffs (l ++ [i]) xs = applyEffs l xs ++ [i] := by
  induction xs generalizing l with
  | nil => rfl
  | cons x xs ih =>
    simp only [applyEffs, List.foldl_cons] at ih ⊢
    have hx := h x (List.mem_cons_self)
    have e : applyEff (l ++ [i]) x = applyEff l x ++ [i] := by
      unfold applyEff
      apply List.ext_getElem?
      intro k
      simp only [List.getElem?_modify, List.getElem?_append, List.length_modify]
      by_cases hk : k < l.length
      · simp [hk]
      · have : x.id ≠ k := by omega
        simp [hk, this]
    rw [e]
    apply ih
    intro y hy
    have := h y (List.mem_cons_of_mem _ hy)
    simpa [applyEff] using this

/-- two updates commute (as functions on the inode list) -/
def EffComm (x y : Eff) : Prop := ∀ l, applyEff (applyEff l x) y = applyEff (applyEff l y) x

theorem modify_modify_comm {α : Type} (l : List α) (i j : Nat) (f g : α → α) (h : i = j → ∀ a, g (f a) = f (g a)) :
    (l.modify i f).modify j g = (l.modify j g).modify i f := by
  apply List.ext_getElem?
  intro k
  simp only [List.getElem?_modify]
  cases hk : l[k]? with
  | none => rfl
  | some a =>
    simp only [Option.map_eq_map, Option.map_some]
    by_cases hi : i = k <;> by_cases hj : j = k
    · subst hi; subst hj; simp [h rfl a]
    · simp [hi, hj]
    · simp [hi, hj]
    · simp [hi, hj]

theorem effComm_of_ne (x y : Eff) (h : x.id ≠ y.id) : EffComm x y := by
  intro l; unfold applyEff
  exact modify_modify_comm l _ _ _ _ (fun e => absurd e h)

theorem effComm_of_app (x y : Eff) (h : ∀ a, y.e.app (x.e.app a) = x.e.app (y.e.app a)) : EffComm x y := by
  intro l; unfold applyEff
  exact modify_modify_comm l _ _ _ _ (fun _ => h)

theorem effComm_symm {x y : Eff} (h : EffComm x y) : EffComm y x := fun l => (h l).symm

theorem inode_ext (a b : Inode) (h1 : a.size = b.size) (h2 : ∀ k, a.extra k = b.extra k) (h3 : a.used = b.used)
    (h4 : a.start = b.start) (h5 : a.fragIdx = b.fragIdx) (h6 : a.fragOff = b.fragOff) (h7 : a.sparse = b.sparse)
    (h8 : a.extended = b.extended) : a = b := by
  cases a; cases b
  simp only [Inode.mk.injEq] at *
  exact ⟨h1, funext h2, h3, h4, h5, h6, h7, h8⟩

/-- `size` updates commute with everything -/
theorem size_comm (n : Nat) (e : InoEff) (a : Inode) : e.app ((InoEff.size n).app a) = (InoEff.size n).app (e.app a) := by
  cases e <;> simp [InoEff.app, Inode.setBlockSize, Nat.add_right_comm]

theorem fragLoc_comm_sparse (i o k n : Nat) (a : Inode) :
    (InoEff.sparse k n).app ((InoEff.fragLoc i o).app a) = (InoEff.fragLoc i o).app ((InoEff.sparse k n).app a) := by
  simp [InoEff.app, Inode.setBlockSize]

theorem fragLoc_comm_word (i o k v : Nat) (a : Inode) :
    (InoEff.word k v).app ((InoEff.fragLoc i o).app a) = (InoEff.fragLoc i o).app ((InoEff.word k v).app a) := by
  simp [InoEff.app, Inode.setBlockSize]

theorem fragLoc_comm_start (i o loc : Nat) (a : Inode) :
    (InoEff.start loc).app ((InoEff.fragLoc i o).app a) = (InoEff.fragLoc i o).app ((InoEff.start loc).app a) := by
  simp [InoEff.app]

theorem sparse_comm_start (k n loc : Nat) (a : Inode) :
    (InoEff.start loc).app ((InoEff.sparse k n).app a) = (InoEff.sparse k n).app ((InoEff.start loc).app a) := by
  simp [InoEff.app, Inode.setBlockSize]

theorem sparse_comm_sparse (k n k' n' : Nat) (a : Inode) :
    (InoEff.sparse k' n').app ((InoEff.sparse k n).app a) = (InoEff.sparse k n).app ((InoEff.sparse k' n').app a) := by
  apply inode_ext <;> simp [InoEff.app, Inode.setBlockSize]
  · intro j; by_cases h1 : j = k <;> by_cases h2 : j = k' <;> simp [h1, h2]
  · omega
  · omega

theorem sparse_comm_word (k n k' v : Nat) (hk : k ≠ k') (a : Inode) :
    (InoEff.word k' v).app ((InoEff.sparse k n).app a) = (InoEff.sparse k n).app ((InoEff.word k' v).app a) := by
  apply inode_ext <;> simp [InoEff.app, Inode.setBlockSize]
  · intro j
    by_cases h1 : j = k
    · subst h1; simp [hk]
    · simp [h1]
  · omega

/-! ### order-preserving merges -/

/-- `Merge h a b`: `h` is an interleaving of `a` and `b` that keeps the order inside each of them -/
inductive Merge {α : Type} : List α → List α → List α → Prop where
  | nil : Merge [] [] []
  | left (x : α) {h a b : List α} : Merge h a b → Merge (x :: h) (x :: a) b
  | right (x : α) {h a b : List α} : Merge h a b → Merge (x :: h) a (x :: b)

theorem Merge.snoc_left {α : Type} {h a b : List α} (x : α) (m : Merge h a b) : Merge (h ++ [x]) (a ++ [x]) b := by
  induction m with
  | nil => exact .left x .nil
  | left y _ ih => exact .left y ih
  | right y _ ih => exact .right y ih

theorem Merge.snoc_right {α : Type} {h a b : List α} (x : α) (m : Merge h a b) : Merge (h ++ [x]) a (b ++ [x]) := by
  induction m with
  | nil => exact .right x .nil
  | left y _ ih => exact .left y ih
  | right y _ ih => exact .right y ih

theorem Merge.append_left {α : Type} {h a b : List α} (xs : List α) (m : Merge h a b) : Merge (h ++ xs) (a ++ xs) b := by
  induction xs generalizing h a with
  | nil => simpa using m
  | cons x xs ih =>
    have := ih (m.snoc_left x)
    simpa [List.append_assoc] using this

theorem Merge.append_right {α : Type} {h a b : List α} (xs : List α) (m : Merge h a b) : Merge (h ++ xs) a (b ++ xs) := by
  induction xs generalizing h b with
  | nil => simpa using m
  | cons x xs ih =>
    have := ih (m.snoc_right x)
    simpa [List.append_assoc] using this

theorem Merge.mem {α : Type} {h a b : List α} (m : Merge h a b) (x : α) : x ∈ h ↔ x ∈ a ∨ x ∈ b := by
  induction m with
  | nil => simp
  | left y _ ih => simp [ih, or_assoc]
  | right y _ ih => simp only [List.mem_cons, ih]; grind

theorem foldl_comm_one {α β : Type} (f : β → α → β) (a : List α) (y : α)
    (hc : ∀ x ∈ a, ∀ s, f (f s x) y = f (f s y) x) : ∀ s, a.foldl f (f s y) = f (a.foldl f s) y := by
  induction a with
  | nil => intro s; rfl
  | cons x a ih =>
    intro s
    simp only [List.foldl_cons]
    rw [← hc x List.mem_cons_self s]
    exact ih (fun x' hx' => hc x' (List.mem_cons_of_mem _ hx')) _

/-- a merge of `a` and `b` folds like `a ++ b` when every element of `a` commutes with every element of `b` -/
theorem Merge.foldl_eq {α β : Type} (f : β → α → β) {h a b : List α} (m : Merge h a b)
    (hc : ∀ x ∈ a, ∀ y ∈ b, ∀ s, f (f s x) y = f (f s y) x) : ∀ s, h.foldl f s = (a ++ b).foldl f s := by
  induction m with
  | nil => intro s; rfl
  | left x _ ih =>
    intro s
    simp only [List.foldl_cons, List.cons_append]
    exact ih (fun x' hx' y hy => hc x' (List.mem_cons_of_mem _ hx') y hy) _
  | @right y h a b _ ih =>
    intro s
    simp only [List.foldl_cons]
    rw [ih (fun x' hx' y' hy' => hc x' hx' y' (List.mem_cons_of_mem _ hy')) _]
    simp only [List.foldl_append, List.foldl_cons]
    rw [foldl_comm_one f a y (fun x hx s => hc x hx y List.mem_cons_self s)]

end Sqfs.BlockProc
