/-
Helper lemmas for C06 (unpack confinement).  Property theorems live in `Sqfs/Props/C06.lean`.
-/
import Sqfs.Spec.Unpack
import Sqfs.Props.C18
namespace Sqfs.Unpack
open Sqfs.Path

/-! ## A. path strings -/

/-- what `sqfs_tree_node_get_path` accepts as a component -/
def GoodComp (c : Bytes) : Prop := c ≠ [] ∧ SL ∉ c ∧ c ≠ [DOT] ∧ c ≠ [DOT, DOT]

def AllGood (cs : List Bytes) : Prop := ∀ c ∈ cs, GoodComp c

theorem badComp_false_iff (c : Bytes) : badComp c = false ↔ GoodComp c := by
  unfold badComp GoodComp
  rcases c with _ | ⟨x, _ | ⟨y, _ | ⟨z, t⟩⟩⟩ <;> simp [List.isEmpty]

theorem any_badComp_false {cs : List Bytes} (h : cs.any badComp = false) : AllGood cs := by
  intro c hc
  rw [List.any_eq_false] at h
  exact (badComp_false_iff c).1 (by simpa using h c hc)

theorem getPath_ok {rn : Bytes} {cs : List Bytes} {s : Bytes} (h : getPath rn cs = .ok s) :
    rn = [] ∧ AllGood cs ∧ s = (if cs.isEmpty then [SL] else cs.flatMap (SL :: ·)) := by
  unfold getPath at h
  split at h
  · cases h
  · rename_i hb
    split at h
    · cases h
    · rename_i hr
      have hr' : rn = [] := by cases rn <;> simp_all
      refine ⟨hr', any_badComp_false (by simpa using hb), ?_⟩
      split at h <;> rename_i he
      · cases h; simp [he]
      · cases h; simp [he]

theorem splitSlash_flat (c : Bytes) (cs : List Bytes) (hc : SlashFree c) (hcs : ∀ d ∈ cs, SlashFree d) :
    splitSlash (c ++ cs.flatMap (SL :: ·)) = c :: cs := by
  induction cs generalizing c with
  | nil => simpa using splitSlash_slashFree hc
  | cons d ds ih =>
    simp only [List.flatMap_cons, List.cons_append]
    rw [splitSlash_append hc, ih d (hcs d (by simp)) (fun x hx => hcs x (by simp [hx]))]

theorem keep_good {c : Bytes} (h : GoodComp c) : keep c = true := by
  obtain ⟨h1, _, h3, _⟩ := h
  simp [keep, isNE_of_ne h1, notDot_iff.2 h3]

theorem filter_keep_good {cs : List Bytes} (h : AllGood cs) : cs.filter keep = cs := by
  rw [List.filter_eq_self]
  intro c hc
  exact keep_good (h c hc)

/-- `canonicalize_name` applied to what `sqfs_tree_node_get_path` builds gives the components joined by
    single slashes; in particular it never fails (the `assert(ret == 0)` never fires). -/
theorem canon_pathStr {cs : List Bytes} (h : AllGood cs) :
    canonicalize (if cs.isEmpty then [SL] else cs.flatMap (SL :: ·)) = some (joinSlash cs) := by
  rw [Sqfs.C18.canon_eq_spec]
  cases cs with
  | nil => decide
  | cons c r =>
    have hsf : ∀ d ∈ c :: r, SlashFree d := fun d hd => (h d hd).2.1
    have hsplit : splitSlash ((c :: r).flatMap (SL :: ·)) = [] :: c :: r := by
      simp only [List.flatMap_cons, List.cons_append]
      have : splitSlash (SL :: (c ++ r.flatMap (SL :: ·))) = [] :: splitSlash (c ++ r.flatMap (SL :: ·)) := by
        simp [splitSlash]
      rw [this, splitSlash_flat c r (hsf c (by simp)) (fun d hd => hsf d (by simp [hd]))]
    simp only [List.isEmpty_cons, Bool.false_eq_true, if_false]
    unfold specCanon
    simp only [hsplit]
    have hdd : ([DOT, DOT] : Bytes) ∉ ([] : Bytes) :: c :: r := by
      intro m
      rcases List.mem_cons.1 m with e | m
      · cases e
      · exact (h _ m).2.2.2 rfl
    rw [if_neg hdd]
    have : (([] : Bytes) :: c :: r).filter keep = c :: r := by
      rw [List.filter_cons_of_neg (by simp [keep]), filter_keep_good h]
    rw [this]

theorem pathOf_ok {rn : Bytes} {cs : List Bytes} {p : Bytes} (h : pathOf rn cs = .ok p) :
    rn = [] ∧ AllGood cs ∧ p = joinSlash cs := by
  unfold pathOf at h
  split at h
  · cases h
  · rename_i s hs
    obtain ⟨h1, h2, h3⟩ := getPath_ok hs
    subst h3
    rw [canon_pathStr h2] at h
    simp at h
    exact ⟨h1, h2, by cases h; rfl⟩

theorem pathOf_ne_canonFail (rn : Bytes) (cs : List Bytes) : pathOf rn cs ≠ .error .canonFail := by
  unfold pathOf
  split
  · rename_i e he
    intro h
    cases h
    unfold getPath at he
    split at he
    · cases he
    · split at he
      · cases he
      · split at he <;> cases he
  · rename_i s hs
    obtain ⟨_, h2, h3⟩ := getPath_ok hs
    subst h3
    rw [canon_pathStr h2]
    simp

theorem joinSlash_good_ne_nil {cs : List Bytes} (h : AllGood cs) (hne : cs ≠ []) :
    joinSlash cs ≠ [] ∧ (joinSlash cs).head? ≠ some SL := by
  cases cs with
  | nil => exact absurd rfl hne
  | cons c r =>
    obtain ⟨h1, h2, _, _⟩ := h c (by simp)
    cases c with
    | nil => exact absurd rfl h1
    | cons x t =>
      rw [joinSlash_cons]
      constructor
      · simp
      · simp only [List.cons_append, List.head?_cons]
        intro e
        apply h2
        cases e
        simp

theorem splitSlash_joinSlash_good {cs : List Bytes} (h : AllGood cs) (hne : cs ≠ []) :
    splitSlash (joinSlash cs) = cs :=
  splitSlash_joinSlash cs hne (fun c hc => (h c hc).2.1)

/-! ## B. resolution of a clean relative path -/

def IsDirOrNone (o : Option Node) : Prop := o = none ∨ ∃ a, o = some ⟨.dir, a⟩

def NotSymlink (o : Option Node) : Prop := ∀ t a, o ≠ some ⟨.symlink t, a⟩

/-- every proper, non-empty prefix of `comps` (below `cur`) is a directory or absent -/
def PrefDirOrNone (fs : Fs) (cur : PathC) (comps : List Bytes) : Prop :=
  ∀ pre, pre <+: comps → pre ≠ [] → pre ≠ comps → IsDirOrNone (fs (cur ++ pre))

theorem PrefDirOrNone.tail {fs : Fs} {cur : PathC} {c : Bytes} {rest : List Bytes}
    (h : PrefDirOrNone fs cur (c :: rest)) : PrefDirOrNone fs (cur ++ [c]) rest := by
  intro pre hp hne hne2
  have := h (c :: pre) (by simpa using hp) (by simp) (by simpa using hne2)
  simpa using this

/-- Walking good components whose proper prefixes are directories (or absent) either fails or ends exactly at
    `cur ++ comps` without reading any symlink — provided the last component is handled no-follow or is not a
    symlink. -/
theorem walkL_clean (k : PathC → List Bytes → Bool → Res) (fs : Fs) :
    ∀ (comps : List Bytes) (cur : PathC) (fl : Bool), AllGood comps → comps ≠ [] → PrefDirOrNone fs cur comps →
      (fl = false ∨ NotSymlink (fs (cur ++ comps))) →
      (∃ e, walkL k fs cur comps fl = .error e) ∨ walkL k fs cur comps fl = .ok (cur ++ comps, fs (cur ++ comps)) := by
  intro comps
  induction comps with
  | nil => intro _ _ _ h; exact absurd rfl h
  | cons c rest ih =>
    intro cur fl hg _ hp hfin
    obtain ⟨h1, _, h3, h4⟩ := hg c (by simp)
    unfold walkL
    rw [if_neg (by simp [h1, h3]), if_neg h4]
    split
    · exact Or.inl ⟨_, rfl⟩
    · cases rest with
      | nil =>
        -- last component
        simp only [List.isEmpty_nil, if_true, Bool.true_and]
        cases hfs : fs (cur ++ [c]) with
        | none => exact Or.inr rfl
        | some n =>
          obtain ⟨kd, a⟩ := n
          cases kd with
          | dir => exact Or.inr rfl
          | file _ => exact Or.inr rfl
          | special _ _ => exact Or.inr rfl
          | symlink t =>
            rcases hfin with hf | hf
            · subst hf; exact Or.inr rfl
            · exact absurd hfs (hf t a)
      | cons d rest' =>
        have hpre := hp [c] (by simp) (by simp) (by simp)
        simp only [List.isEmpty_cons, Bool.false_and, Bool.false_eq_true, if_false]
        rcases hpre with hn | ⟨a, hd⟩
        · rw [hn]; exact Or.inl ⟨_, rfl⟩
        · rw [hd]
          have hrec := ih (cur ++ [c]) fl (fun x hx => hg x (by simp [hx])) (by simp) hp.tail
            (by simpa using hfin)
          simpa using hrec

theorem walk_clean (n : Nat) (fs : Fs) (comps : List Bytes) (cur : PathC) (fl : Bool) (hg : AllGood comps)
    (hne : comps ≠ []) (hp : PrefDirOrNone fs cur comps) (hfin : fl = false ∨ NotSymlink (fs (cur ++ comps))) :
    (∃ e, walk n fs cur comps fl = .error e) ∨ walk n fs cur comps fl = .ok (cur ++ comps, fs (cur ++ comps)) := by
  cases n with
  | zero => exact walkL_clean _ fs comps cur fl hg hne hp hfin
  | succ m => exact walkL_clean _ fs comps cur fl hg hne hp hfin

/-- `resolve` of the path string of good components from `R` -/
theorem resolve_good (fs : Fs) (R : PathC) (comps : List Bytes) (fl : Bool) (hg : AllGood comps)
    (hp : PrefDirOrNone fs R comps) (hfin : fl = false ∨ NotSymlink (fs (R ++ comps))) :
    (∃ e, resolve fs R (joinSlash comps) fl = .error e) ∨
      (comps ≠ [] ∧ resolve fs R (joinSlash comps) fl = .ok (R ++ comps, fs (R ++ comps))) := by
  by_cases hne : comps = []
  · subst hne; left; exact ⟨.ENOENT, by simp [resolve, joinSlash]⟩
  · obtain ⟨hj1, hj2⟩ := joinSlash_good_ne_nil hg hne
    unfold resolve
    rw [if_neg (by cases hj : joinSlash comps <;> simp_all)]
    split
    · exact Or.inl ⟨_, rfl⟩
    · rw [splitSlash_joinSlash_good hg hne]
      rcases walk_clean MAXSYMLINKS fs comps R fl hg hne hp hfin with h | h
      · exact Or.inl h
      · exact Or.inr ⟨hne, h⟩

/-! ## C. one system call, and a run, preserve the invariant -/

/-- the object `fk` is what a tree node of kind `k` is unpacked to -/
def kindMatch : FKind → Kind → Bool
  | .dir, .dir => true
  | .file _, .reg => true
  | .symlink _, .lnk => true
  | .special k' _, k => k' == k && (k == .blk || k == .chr || k == .fifo || k == .sock)
  | _, _ => false

/-- the call is one the unpacker makes for a tree node of kind `k` -/
def Compat : Syscall → Kind → Prop
  | .mkdir _ _, k => k = .dir
  | .symlink _ _, k => k = .lnk
  | .mknod _ kd _ _, k => k = kd ∧ (k = .blk ∨ k = .chr ∨ k = .fifo ∨ k = .sock)
  | .openExcl _ _, k => k = .reg
  | .openTrunc _ _, k => k = .reg
  | .setxattr _ _ _ nf, k => nf = true ∨ k ≠ .lnk
  | .utimens _ _ nf, k => nf = true ∨ k ≠ .lnk
  | .chown _ _ _ nf, k => nf = true ∨ k ≠ .lnk
  | .chmod _ _, k => k ≠ .lnk

/-- the set of (path components, kind) the plan works on -/
abbrev VSet := List (List Bytes × Kind)

/-- kind is a function of the path -/
def VFun (V : VSet) : Prop := ∀ c k₁ k₂, (c, k₁) ∈ V → (c, k₂) ∈ V → k₁ = k₂

/-- every proper non-empty prefix of a member is a member, as a directory -/
def VPrefix (V : VSet) : Prop := ∀ c k pre, (c, k) ∈ V → pre <+: c → pre ≠ [] → pre ≠ c → (pre, Kind.dir) ∈ V

/-- the call names a member of `V` by its clean relative path and is of a sort made for that kind -/
def OpFor (V : VSet) (sc : Syscall) : Prop :=
  ∃ comps k, (comps, k) ∈ V ∧ AllGood comps ∧ sc.path = joinSlash comps ∧ Compat sc k

/-- the invariant: nothing outside R has changed, and whatever exists below R is a member of `V` unpacked as
    an object of the right sort -/
structure Inv (V : VSet) (R : PathC) (fs₀ fs : Fs) : Prop where
  out : ∀ p, underB R p = false → fs p = fs₀ p
  inn : ∀ comps, comps ≠ [] → fs (R ++ comps) = none ∨
          ∃ n k, fs (R ++ comps) = some n ∧ (comps, k) ∈ V ∧ kindMatch n.kind k = true

theorem underB_append (R : PathC) {comps : List Bytes} (h : comps ≠ []) : underB R (R ++ comps) = true := by
  unfold underB
  have h1 : R.isPrefixOf (R ++ comps) = true := by
    rw [List.isPrefixOf_iff_prefix]; exact List.prefix_append R comps
  have h2 : R ++ comps ≠ R := by
    intro e
    have := congrArg List.length e
    simp at this
    exact h this
  simp [h1, h2]

theorem Inv.fresh {V : VSet} {R : PathC} {fs₀ : Fs} (h : Fresh fs₀ R) : Inv V R fs₀ fs₀ :=
  ⟨fun _ _ => rfl, fun comps hne => Or.inl (h.2 _ (underB_append R hne))⟩

/-- What a successful call does: nothing, or it (re)writes the single key its path resolves to — creating an
    object fit for every kind the call is compatible with, or replacing an object by one of the same sort. -/
theorem step_shape {fs fs' : Fs} {R : PathC} {sc : Syscall} (h : step fs R sc = .ok fs') :
    fs' = fs ∨ ∃ key cur n, resolve fs R sc.path sc.follows = .ok (key, cur) ∧ fs' = fs.set key n ∧
      ((cur = none ∧ ∀ k, Compat sc k → kindMatch n.kind k = true) ∨
       (∃ n₀, cur = some n₀ ∧ ∀ k, kindMatch n₀.kind k = true → kindMatch n.kind k = true)) := by
  cases sc with
  | mkdir p m =>
    simp only [step] at h
    split at h
    · cases h
    · cases h
    · rename_i key hr
      cases h
      exact Or.inr ⟨key, none, _, hr, rfl, Or.inl ⟨rfl, by intro k hk; simp [Compat] at hk; subst hk; rfl⟩⟩
  | symlink t p =>
    simp only [step] at h
    split at h
    · cases h
    · split at h
      · cases h
      · split at h
        · cases h
        · cases h
        · rename_i key hr
          cases h
          exact Or.inr ⟨key, none, _, hr, rfl, Or.inl ⟨rfl, by intro k hk; simp [Compat] at hk; subst hk; rfl⟩⟩
  | mknod p kd m d =>
    simp only [step] at h
    split at h
    · cases h
    · cases h
    · rename_i key hr
      cases h
      refine Or.inr ⟨key, none, _, hr, rfl, Or.inl ⟨rfl, ?_⟩⟩
      intro k hk
      simp only [Compat] at hk
      obtain ⟨rfl, h⟩ := hk
      rcases h with rfl | rfl | rfl | rfl <;> rfl
  | openExcl p m =>
    simp only [step] at h
    split at h
    · cases h
    · cases h
    · rename_i key hr
      cases h
      exact Or.inr ⟨key, none, _, hr, rfl, Or.inl ⟨rfl, by intro k hk; simp [Compat] at hk; subst hk; rfl⟩⟩
  | openTrunc p data =>
    simp only [step] at h
    split at h
    · cases h
    · rename_i key hr
      cases h
      exact Or.inr ⟨key, none, _, hr, rfl, Or.inl ⟨rfl, by intro k hk; simp [Compat] at hk; subst hk; rfl⟩⟩
    · rename_i key c a hr
      cases h
      exact Or.inr ⟨key, _, _, hr, rfl, Or.inr ⟨_, rfl, by intro k hk; cases k <;> simp_all [kindMatch]⟩⟩
    · cases h
    · cases h
    · cases h
    · cases h; exact Or.inl rfl
  | setxattr p k v nf =>
    simp only [step] at h
    split at h
    · cases h
    · cases h
    · rename_i key n hr
      split at h
      · cases h
      · split at h
        · cases h
        · cases h
          exact Or.inr ⟨key, _, _, hr, rfl, Or.inr ⟨n, rfl, fun _ hk => hk⟩⟩
  | utimens p t nf =>
    simp only [step] at h
    split at h
    · cases h
    · cases h
    · rename_i key n hr
      cases h
      exact Or.inr ⟨key, _, _, hr, rfl, Or.inr ⟨n, rfl, fun _ hk => hk⟩⟩
  | chown p u g nf =>
    simp only [step] at h
    split at h
    · cases h
    · cases h
    · rename_i key n hr
      cases h
      exact Or.inr ⟨key, _, _, hr, rfl, Or.inr ⟨n, rfl, fun _ hk => hk⟩⟩
  | chmod p m =>
    simp only [step] at h
    split at h
    · cases h
    · cases h
    · rename_i key n hr
      cases h
      exact Or.inr ⟨key, _, _, hr, rfl, Or.inr ⟨n, rfl, fun _ hk => hk⟩⟩

theorem kindMatch_dir {fk : FKind} (h : kindMatch fk .dir = true) : fk = .dir := by
  cases fk <;> simp_all [kindMatch]

theorem kindMatch_symlink {t : Bytes} {k : Kind} (h : kindMatch (.symlink t) k = true) : k = .lnk := by
  cases k <;> simp_all [kindMatch]

/-- under the invariant, the proper prefixes of a member's path are directories or absent -/
theorem Inv.prefixes {V : VSet} {R : PathC} {fs₀ fs : Fs} (hi : Inv V R fs₀ fs) (hf : VFun V) (hp : VPrefix V)
    {comps : List Bytes} {k : Kind} (hm : (comps, k) ∈ V) : PrefDirOrNone fs R comps := by
  intro pre hpre hne hne2
  have hd := hp comps k pre hm hpre hne hne2
  rcases hi.inn pre hne with h | ⟨n, k', hn, hk', hmatch⟩
  · exact Or.inl h
  · have : k' = .dir := hf pre k' .dir hk' hd
    subst this
    obtain ⟨kd, a⟩ := n
    have : kd = .dir := kindMatch_dir hmatch
    subst this
    exact Or.inr ⟨a, hn⟩

theorem Syscall.follows_compat {sc : Syscall} {k : Kind} (h : Compat sc k) : sc.follows = false ∨ k ≠ .lnk := by
  cases sc <;> simp_all [Compat, Syscall.follows]

/-- **one call**: a successful call made for a member of `V` keeps the invariant -/
theorem Inv.step {V : VSet} {R : PathC} {fs₀ fs fs' : Fs} {sc : Syscall} (hi : Inv V R fs₀ fs) (hf : VFun V)
    (hp : VPrefix V) (ho : OpFor V sc) (hs : step fs R sc = .ok fs') : Inv V R fs₀ fs' := by
  obtain ⟨comps, k, hm, hg, hpath, hc⟩ := ho
  rcases step_shape hs with rfl | ⟨key, cur, n, hr, rfl, hnew⟩
  · exact hi
  · -- where does the path resolve to?
    have hfin : sc.follows = false ∨ NotSymlink (fs (R ++ comps)) := by
      rcases Syscall.follows_compat hc with h | h
      · exact Or.inl h
      · right
        intro t a hfs
        by_cases hne : comps = []
        · -- the empty path does not resolve at all; irrelevant but easy: use the invariant only for non-empty
          subst hne
          have := resolve_good fs R [] sc.follows hg (by intro pre hp' hne' hne2; simp at hp'; exact absurd hp' hne') (Or.inr ?_)
          · rcases this with ⟨e, he⟩ | ⟨hne, _⟩
            · rw [hpath, he] at hr; cases hr
            · exact absurd rfl hne
          · -- NotSymlink claim needed for the recursive use; discharge by the resolution failing anyway
            intro t' a' _
            have : resolve fs R (joinSlash []) sc.follows = .error .ENOENT := by simp [resolve, joinSlash]
            rw [hpath, this] at hr; cases hr
        · rcases hi.inn comps hne with h0 | ⟨n', k', hn', hk', hmatch⟩
          · rw [h0] at hfs; cases hfs
          · rw [hn'] at hfs
            cases hfs
            have := kindMatch_symlink hmatch
            subst this
            exact h (hf comps k .lnk hm hk')
    rcases resolve_good fs R comps sc.follows hg (hi.prefixes hf hp hm) hfin with ⟨e, he⟩ | ⟨hne, hres⟩
    · rw [hpath, he] at hr; cases hr
    · rw [hpath, hres] at hr
      cases hr
      constructor
      · intro q hq
        have : q ≠ R ++ comps := by
          intro e; subst e; rw [underB_append R hne] at hq; cases hq
        simp only [Fs.set, if_neg this]
        exact hi.out q hq
      · intro comps' hne'
        by_cases he : comps' = comps
        · subst he
          right
          refine ⟨n, k, by simp [Fs.set], hm, ?_⟩
          rcases hnew with ⟨_, hcreate⟩ | ⟨n₀, hcur, hsame⟩
          · exact hcreate k hc
          · rcases hi.inn comps' hne' with h0 | ⟨n', k', hn', hk', hmatch⟩
            · rw [h0] at hcur; cases hcur
            · rw [hn'] at hcur
              cases hcur
              have : k' = k := hf comps' k' k hk' hm
              subst this
              exact hsame k' hmatch
        · have : R ++ comps' ≠ R ++ comps := by
            intro e; exact he (List.append_cancel_left e)
          simp only [Fs.set, if_neg this]
          exact hi.inn comps' hne'

/-- **a run**: executing calls that are all made for members of `V` keeps the invariant -/
theorem Inv.exec {V : VSet} {R : PathC} {fs₀ : Fs} (hf : VFun V) (hp : VPrefix V) :
    ∀ (scs : List Syscall) (fs : Fs), Inv V R fs₀ fs → (∀ sc ∈ scs, OpFor V sc) → Inv V R fs₀ (exec R fs scs) := by
  intro scs
  induction scs with
  | nil => intro fs hi _; exact hi
  | cons sc r ih =>
    intro fs hi ho
    unfold Unpack.exec
    split
    · rename_i fs' hs
      exact ih fs' (hi.step hf hp (ho sc (by simp)) hs) (fun x hx => ho x (by simp [hx]))
    · split
      · exact ih fs hi (fun x hx => ho x (by simp [hx]))
      · exact hi

/-- the invariant gives the specification -/
theorem Inv.outside_eq {V : VSet} {R : PathC} {fs₀ fs : Fs} (hi : Inv V R fs₀ fs) : outside R fs = outside R fs₀ := by
  funext p
  unfold outside
  cases h : underB R p with
  | true => rfl
  | false => simpa using hi.out p h

/-! ## D. the walks work on the visited nodes only -/

mutual
/-- (path components, kind) of the nodes a walk reaches below (and including) a node whose own path is
    `comps`: a node with an insane name hides its subtree; only directories are descended into -/
def visit (comps : List Bytes) : TNode → VSet
  | .mk name k _ _ ch =>
    if !isFilenameSane name then [] else (comps, k) :: (if k = .dir then visitL comps ch else [])
def visitL (anc : List Bytes) : List TNode → VSet
  | [] => []
  | c :: cs => visit (anc ++ [c.name]) c ++ visitL anc cs
end

/-- what the three walks of `restore_fstree` / `fill_unpacked_files` / `update_tree_attribs` reach -/
def visitRoot (t : TNode) : VSet := if t.kind = .dir then visitL [] t.children else visit [] t

mutual
/-- below every node the children's names are pairwise distinct (what `tree_sort` establishes) -/
def NodupH : TNode → Prop
  | .mk _ _ _ _ ch => (ch.map TNode.name).Nodup ∧ NodupHL ch
def NodupHL : List TNode → Prop
  | [] => True
  | c :: cs => NodupH c ∧ NodupHL cs
end

theorem Out.mem_seq {a b : Out} {ev : Ev} (h : ev ∈ (a.seq b).evs) : ev ∈ a.evs ∨ ev ∈ b.evs := by
  unfold Out.seq at h
  split at h
  · exact Or.inl h
  · simp at h; exact h

theorem OpFor.mono {V W : VSet} {sc : Syscall} (h : OpFor V sc) (hs : ∀ x ∈ V, x ∈ W) : OpFor W sc := by
  obtain ⟨c, k, hm, r⟩ := h
  exact ⟨c, k, hs _ hm, r⟩

theorem compat_createNode (k : Kind) (p pl : Bytes) (a : Attr) (fl : Flags) : Compat (createNode k p pl a fl) k := by
  cases k <;> simp [createNode, Compat]

theorem path_createNode (k : Kind) (p pl : Bytes) (a : Attr) (fl : Flags) : (createNode k p pl a fl).path = p := by
  cases k <;> simp [createNode, Syscall.path]

mutual
theorem createDfs_ops (rn : Bytes) (fl : Flags) : ∀ (x : TNode) (comps : List Bytes) (sc : Syscall),
    Ev.sys sc ∈ (createDfs rn fl comps x).evs → OpFor (visit comps x) sc
  | .mk name k pl a ch, comps, sc, h => by
    unfold createDfs at h
    unfold visit
    split at h
    · simp at h
    · rename_i hs
      rw [if_neg hs]
      split at h
      · simp at h
      · rename_i p hp
        obtain ⟨_, hg, hpj⟩ := pathOf_ok hp
        rcases Out.mem_seq h with h1 | h1
        · simp at h1
          subst h1
          exact ⟨comps, k, by simp, hg, by rw [path_createNode, hpj], compat_createNode ..⟩
        · split at h1
          · rename_i hk
            rw [if_pos hk]
            exact (createList_ops rn fl ch comps sc h1).mono (fun x hx => by simp [hx])
          · simp at h1
theorem createList_ops (rn : Bytes) (fl : Flags) : ∀ (l : List TNode) (anc : List Bytes) (sc : Syscall),
    Ev.sys sc ∈ (createList rn fl anc l).evs → OpFor (visitL anc l) sc
  | [], _, _, h => by simp [createList] at h
  | c :: cs, anc, sc, h => by
    unfold createList at h
    unfold visitL
    rcases Out.mem_seq h with h1 | h1
    · exact (createDfs_ops rn fl c _ sc h1).mono (fun x hx => by simp [hx])
    · exact (createList_ops rn fl cs anc sc h1).mono (fun x hx => by simp [hx])
end

theorem GenOut.mem_seq_files {a b : GenOut} {f : FileEnt} (h : f ∈ (a.seq b).files) : f ∈ a.files ∨ f ∈ b.files := by
  unfold GenOut.seq at h
  split at h
  · exact Or.inl h
  · simp at h; exact h

theorem GenOut.mem_seq_evs {a b : GenOut} {ev : Ev} (h : ev ∈ (a.seq b).evs) : ev ∈ a.evs ∨ ev ∈ b.evs := by
  unfold GenOut.seq at h
  split at h
  · exact Or.inl h
  · simp at h; exact h

/-- a file-list entry is a visited regular file, named by its clean path -/
def FileFor (V : VSet) (f : FileEnt) : Prop := ∃ comps, (comps, Kind.reg) ∈ V ∧ AllGood comps ∧ f.path = joinSlash comps

mutual
theorem genFiles_files (rn : Bytes) : ∀ (x : TNode) (comps : List Bytes) (f : FileEnt),
    f ∈ (genFiles rn comps x).files → FileFor (visit comps x) f
  | .mk name k pl a ch, comps, f, h => by
    unfold genFiles at h
    unfold visit
    split at h
    · simp at h
    · rename_i hs
      rw [if_neg hs]
      split at h
      · rename_i hk
        split at h
        · simp at h
        · rename_i p hp
          obtain ⟨_, hg, hpj⟩ := pathOf_ok hp
          simp at h
          subst h
          exact ⟨comps, by simp [hk], hg, hpj⟩
      · split at h
        · rename_i hk
          obtain ⟨c, hm, r⟩ := genFilesL_files rn ch comps f h
          exact ⟨c, by simp [hk, hm], r⟩
        · simp at h
theorem genFilesL_files (rn : Bytes) : ∀ (l : List TNode) (anc : List Bytes) (f : FileEnt),
    f ∈ (genFilesL rn anc l).files → FileFor (visitL anc l) f
  | [], _, _, h => by simp [genFilesL] at h
  | c :: cs, anc, f, h => by
    unfold genFilesL at h
    unfold visitL
    rcases GenOut.mem_seq_files h with h1 | h1
    · obtain ⟨c', hm, r⟩ := genFiles_files rn c _ f h1
      exact ⟨c', by simp [hm], r⟩
    · obtain ⟨c', hm, r⟩ := genFilesL_files rn cs anc f h1
      exact ⟨c', by simp [hm], r⟩
end

mutual
/-- `gen_file_list_dfs` makes no system call -/
theorem genFiles_nosys (rn : Bytes) : ∀ (x : TNode) (comps : List Bytes) (sc : Syscall),
    Ev.sys sc ∉ (genFiles rn comps x).evs
  | .mk name k pl a ch, comps, sc => by
    unfold genFiles
    split
    · simp
    · split
      · split <;> simp
      · split
        · exact genFilesL_nosys rn ch comps sc
        · simp
theorem genFilesL_nosys (rn : Bytes) : ∀ (l : List TNode) (anc : List Bytes) (sc : Syscall),
    Ev.sys sc ∉ (genFilesL rn anc l).evs
  | [], _, _ => by simp [genFilesL]
  | c :: cs, anc, sc => by
    unfold genFilesL
    intro h
    rcases GenOut.mem_seq_evs h with h1 | h1
    · exact genFiles_nosys rn c _ sc h1
    · exact genFilesL_nosys rn cs anc sc h1
end

theorem xattrOps_compat {k : Kind} {p : Bytes} {a : Attr} {sc : Syscall}
    (h : Ev.sys sc ∈ (xattrOps p a).evs) : sc.path = p ∧ Compat sc k := by
  unfold xattrOps at h
  split at h <;>
  · simp only [List.mem_map] at h
    obtain ⟨kv, _, e⟩ := h
    cases e
    simp [Syscall.path, Compat]

theorem attrTail_compat {fl : Flags} {k : Kind} {p : Bytes} {a : Attr} {sc : Syscall}
    (h : Ev.sys sc ∈ attrTail fl k p a) : sc.path = p ∧ Compat sc k := by
  unfold attrTail at h
  simp only [List.mem_append] at h
  rcases h with (h | h) | h
  · split at h
    · simp at h; subst h; simp [Syscall.path, Compat]
    · simp at h
  · split at h
    · simp at h; subst h; simp [Syscall.path, Compat]
    · simp at h
  · split at h
    · rename_i hc
      simp at h; subst h
      simp at hc
      simp [Syscall.path, Compat, hc.2]
    · simp at h

theorem attrOps_compat {fl : Flags} {k : Kind} {p : Bytes} {a : Attr} {sc : Syscall}
    (h : Ev.sys sc ∈ (attrOps fl k p a).evs) : sc.path = p ∧ Compat sc k := by
  unfold attrOps at h
  rcases Out.mem_seq h with h1 | h1
  · split at h1
    · exact xattrOps_compat h1
    · simp at h1
  · exact attrTail_compat h1

mutual
theorem setAttribs_ops (rn : Bytes) (fl : Flags) : ∀ (x : TNode) (comps : List Bytes) (sc : Syscall),
    Ev.sys sc ∈ (setAttribs rn fl comps x).evs → OpFor (visit comps x) sc
  | .mk name k pl a ch, comps, sc, h => by
    unfold setAttribs at h
    unfold visit
    split at h
    · simp at h
    · rename_i hs
      rw [if_neg hs]
      rcases Out.mem_seq h with h1 | h1
      · split at h1
        · rename_i hk
          rw [if_pos hk]
          exact (setAttribsL_ops rn fl ch comps sc h1).mono (fun x hx => by simp [hx])
        · simp at h1
      · split at h1
        · simp at h1
        · rename_i p hp
          obtain ⟨_, hg, hpj⟩ := pathOf_ok hp
          obtain ⟨h2, h3⟩ := attrOps_compat h1
          exact ⟨comps, k, by simp, hg, by rw [h2, hpj], h3⟩
theorem setAttribsL_ops (rn : Bytes) (fl : Flags) : ∀ (l : List TNode) (anc : List Bytes) (sc : Syscall),
    Ev.sys sc ∈ (setAttribsL rn fl anc l).evs → OpFor (visitL anc l) sc
  | [], _, _, h => by simp [setAttribsL] at h
  | c :: cs, anc, sc, h => by
    unfold setAttribsL at h
    unfold visitL
    rcases Out.mem_seq h with h1 | h1
    · exact (setAttribs_ops rn fl c _ sc h1).mono (fun x hx => by simp [hx])
    · exact (setAttribsL_ops rn fl cs anc sc h1).mono (fun x hx => by simp [hx])
end

/-! ### the visited set: prefixes, kinds -/

mutual
theorem visit_prefix : ∀ (x : TNode) (comps c : List Bytes) (k : Kind), (c, k) ∈ visit comps x → comps <+: c
  | .mk name kd pl a ch, comps, c, k, h => by
    unfold visit at h
    split at h
    · simp at h
    · simp only [List.mem_cons, Prod.mk.injEq] at h
      rcases h with ⟨rfl, _⟩ | h
      · exact List.prefix_refl _
      · split at h
        · obtain ⟨y, _, hy⟩ := visitL_prefix ch comps c k h
          exact List.IsPrefix.trans (List.prefix_append comps [y.name]) hy
        · simp at h
theorem visitL_prefix : ∀ (l : List TNode) (anc c : List Bytes) (k : Kind), (c, k) ∈ visitL anc l →
    ∃ y ∈ l, (anc ++ [y.name]) <+: c
  | [], _, _, _, h => by simp [visitL] at h
  | x :: xs, anc, c, k, h => by
    unfold visitL at h
    rcases List.mem_append.1 h with h1 | h1
    · exact ⟨x, by simp, visit_prefix x _ c k h1⟩
    · obtain ⟨y, hy, hp⟩ := visitL_prefix xs anc c k h1
      exact ⟨y, by simp [hy], hp⟩
end

theorem prefix_snoc_inj {anc c : List Bytes} {a b : Bytes} (h1 : (anc ++ [a]) <+: c) (h2 : (anc ++ [b]) <+: c) : a = b := by
  obtain ⟨t1, e1⟩ := h1
  obtain ⟨t2, e2⟩ := h2
  have : anc ++ (a :: t1) = anc ++ (b :: t2) := by simpa using e1.trans e2.symm
  have := List.append_cancel_left this
  simp at this
  exact this.1

theorem prefix_longer_ne {comps c : List Bytes} {a : Bytes} (h : (comps ++ [a]) <+: c) : c ≠ comps := by
  intro e
  subst e
  have := h.length_le
  simp at this
  omega

mutual
theorem visit_fun : ∀ (x : TNode) (comps : List Bytes), NodupH x → VFun (visit comps x)
  | .mk name kd pl a ch, comps, hn => by
    unfold NodupH at hn
    intro c k₁ k₂ h1 h2
    unfold visit at h1 h2
    by_cases hs : (!isFilenameSane name) = true
    · rw [if_pos hs] at h1; simp at h1
    · rw [if_neg hs] at h1 h2
      simp only [List.mem_cons, Prod.mk.injEq] at h1 h2
      have key : ∀ k, (c, k) ∈ (if kd = Kind.dir then visitL comps ch else []) → c ≠ comps := by
        intro k hk
        split at hk
        · obtain ⟨y, _, hy⟩ := visitL_prefix ch comps c k hk
          exact prefix_longer_ne hy
        · simp at hk
      rcases h1 with ⟨rfl, rfl⟩ | h1 <;> rcases h2 with ⟨e, rfl⟩ | h2
      · rfl
      · exact absurd rfl (key _ h2)
      · exact absurd e (key _ h1)
      · split at h1
        · rename_i hk
          rw [if_pos hk] at h2
          exact visitL_fun ch comps hn.1 hn.2 c k₁ k₂ h1 h2
        · simp at h1
theorem visitL_fun : ∀ (l : List TNode) (anc : List Bytes), (l.map TNode.name).Nodup → NodupHL l → VFun (visitL anc l)
  | [], _, _, _ => by intro c k₁ k₂ h; simp [visitL] at h
  | x :: xs, anc, hnd, hn => by
    unfold NodupHL at hn
    simp only [List.map_cons, List.nodup_cons] at hnd
    intro c k₁ k₂ h1 h2
    unfold visitL at h1 h2
    have cross : ∀ k k', (c, k) ∈ visit (anc ++ [x.name]) x → (c, k') ∈ visitL anc xs → False := by
      intro k k' ha hb
      have p1 := visit_prefix x _ c k ha
      obtain ⟨y, hy, p2⟩ := visitL_prefix xs anc c k' hb
      have := prefix_snoc_inj p1 p2
      exact hnd.1 (by rw [this]; exact List.mem_map_of_mem hy)
    rcases List.mem_append.1 h1 with a1 | a1 <;> rcases List.mem_append.1 h2 with a2 | a2
    · exact visit_fun x _ hn.1 c k₁ k₂ a1 a2
    · exact (cross _ _ a1 a2).elim
    · exact (cross _ _ a2 a1).elim
    · exact visitL_fun xs anc hnd.2 hn.2 c k₁ k₂ a1 a2
end

theorem prefix_of_prefix_len {pre c q : List Bytes} (hp : pre <+: c) (hq : q <+: c) (hl : q.length ≤ pre.length) : q <+: pre :=
  List.prefix_of_prefix_length_le hq hp hl

mutual
theorem visit_pref : ∀ (x : TNode) (comps c pre : List Bytes) (k : Kind), (c, k) ∈ visit comps x → pre <+: c →
    comps.length < pre.length → pre ≠ c → (pre, Kind.dir) ∈ visit comps x
  | .mk name kd pl a ch, comps, c, pre, k, h, hp, hl, hne => by
    unfold visit at h ⊢
    split at h
    · simp at h
    · rename_i hs
      rw [if_neg hs]
      simp only [List.mem_cons, Prod.mk.injEq] at h
      rcases h with ⟨rfl, _⟩ | h
      · have := hp.length_le; omega
      · split at h
        · rename_i hk
          rw [if_pos hk]
          exact List.mem_cons_of_mem _ (visitL_pref ch comps c pre k h hp hl hne)
        · simp at h
theorem visitL_pref : ∀ (l : List TNode) (anc c pre : List Bytes) (k : Kind), (c, k) ∈ visitL anc l → pre <+: c →
    anc.length < pre.length → pre ≠ c → (pre, Kind.dir) ∈ visitL anc l
  | [], _, _, _, _, h, _, _, _ => by simp [visitL] at h
  | x :: xs, anc, c, pre, k, h, hp, hl, hne => by
    unfold visitL at h ⊢
    rcases List.mem_append.1 h with h1 | h1
    · apply List.mem_append_left
      have hx := visit_prefix x _ c k h1
      by_cases hlen : pre.length = anc.length + 1
      · -- pre is exactly the path of x; x must be a directory because c lies strictly below it
        have hpe : pre = anc ++ [x.name] := by
          have h1' : (anc ++ [x.name]) <+: pre := prefix_of_prefix_len hp hx (by simp [hlen])
          exact (List.IsPrefix.eq_of_length h1' (by simp [hlen])).symm
        subst hpe
        cases x with
        | mk name kd pl a ch =>
          unfold visit at h1 ⊢
          split at h1
          · simp at h1
          · rename_i hs
            rw [if_neg hs]
            simp only [List.mem_cons, Prod.mk.injEq] at h1
            rcases h1 with ⟨rfl, _⟩ | h1
            · exact absurd rfl hne
            · split at h1
              · rename_i hk
                simp [TNode.name, hk]
              · simp at h1
      · exact visit_pref x _ c pre k h1 hp (by simp; omega) hne
    · exact List.mem_append_right _ (visitL_pref xs anc c pre k h1 hp hl hne)
end

/-! ## E. `tree_sort` makes sibling names distinct -/

theorem u8_tri (a b : UInt8) : a < b ∨ a = b ∨ b < a := by
  rcases Nat.lt_trichotomy a.toNat b.toNat with h | h | h
  · exact Or.inl (UInt8.lt_iff_toNat_lt.2 h)
  · exact Or.inr (Or.inl (UInt8.toNat_inj.1 h))
  · exact Or.inr (Or.inr (UInt8.lt_iff_toNat_lt.2 h))

theorem u8_lt_asymm {a b : UInt8} (h : a < b) : ¬ b < a := by
  rw [UInt8.lt_iff_toNat_lt] at *; omega

theorem u8_lt_trans {a b c : UInt8} (h : a < b) (h' : b < c) : a < c := by
  rw [UInt8.lt_iff_toNat_lt] at *; omega

theorem strLe_total : ∀ (a b : Bytes), strLe a b = true ∨ strLe b a = true
  | [], _ => Or.inl (by simp [strLe])
  | _ :: _, [] => Or.inr (by simp [strLe])
  | x :: xs, y :: ys => by
    rcases u8_tri x y with h | h | h
    · left; simp [strLe, h]
    · subst h
      have := strLe_total xs ys
      simp [strLe, UInt8.lt_irrefl, this]
    · right; simp [strLe, h]

theorem strLe_antisymm : ∀ (a b : Bytes), strLe a b = true → strLe b a = true → a = b
  | [], [], _, _ => rfl
  | [], _ :: _, _, h => by simp [strLe] at h
  | _ :: _, [], h, _ => by simp [strLe] at h
  | x :: xs, y :: ys, h1, h2 => by
    rcases u8_tri x y with h | h | h
    · simp [strLe, h, u8_lt_asymm h] at h2
    · subst h
      simp [strLe, UInt8.lt_irrefl] at h1 h2
      rw [strLe_antisymm xs ys h1 h2]
    · simp [strLe, h, u8_lt_asymm h] at h1

theorem strLe_trans : ∀ (a b c : Bytes), strLe a b = true → strLe b c = true → strLe a c = true
  | [], _, _, _, _ => by simp [strLe]
  | _ :: _, [], _, h, _ => by simp [strLe] at h
  | _ :: _, _ :: _, [], _, h => by simp [strLe] at h
  | x :: xs, y :: ys, z :: zs, h1, h2 => by
    rcases u8_tri x y with hxy | hxy | hxy
    · rcases u8_tri y z with hyz | hyz | hyz
      · simp [strLe, u8_lt_trans hxy hyz]
      · subst hyz; simp [strLe, hxy]
      · simp [strLe, hyz, u8_lt_asymm hyz] at h2
    · subst hxy
      rcases u8_tri x z with hyz | hyz | hyz
      · simp [strLe, hyz]
      · subst hyz
        simp [strLe, UInt8.lt_irrefl] at h1 h2 ⊢
        exact strLe_trans xs ys zs h1 h2
      · simp [strLe, hyz, u8_lt_asymm hyz] at h2
    · simp [strLe, hxy, u8_lt_asymm hxy] at h1

def SortedN (l : List TNode) : Prop := l.Pairwise (fun a b => strLe a.name b.name = true)

theorem mem_insertNode {x y : TNode} : ∀ {l : List TNode}, y ∈ insertNode x l ↔ y = x ∨ y ∈ l
  | [] => by simp [insertNode]
  | z :: zs => by
    unfold insertNode
    split
    · simp
    · simp only [List.mem_cons, mem_insertNode (l := zs)]
      constructor
      · rintro (h | h | h) <;> simp [h]
      · rintro (h | h | h) <;> simp [h]

theorem insertNode_sorted (x : TNode) : ∀ (l : List TNode), SortedN l → SortedN (insertNode x l)
  | [], _ => by simp [insertNode, SortedN]
  | z :: zs, h => by
    unfold SortedN at h
    rw [List.pairwise_cons] at h
    unfold insertNode
    split
    · rename_i hle
      unfold SortedN
      rw [List.pairwise_cons]
      refine ⟨?_, List.pairwise_cons.2 h⟩
      intro y hy
      rcases List.mem_cons.1 hy with rfl | hy
      · exact hle
      · exact strLe_trans _ _ _ hle (h.1 y hy)
    · rename_i hle
      have hzx : strLe z.name x.name = true := by
        rcases strLe_total x.name z.name with h' | h'
        · exact absurd h' hle
        · exact h'
      unfold SortedN
      rw [List.pairwise_cons]
      refine ⟨?_, insertNode_sorted x zs h.2⟩
      intro y hy
      rcases mem_insertNode.1 hy with rfl | hy
      · exact hzx
      · exact h.1 y hy

theorem sortNodes_sorted : ∀ (l : List TNode), SortedN (sortNodes l)
  | [] => by simp [sortNodes, SortedN]
  | x :: xs => by
    unfold sortNodes
    exact insertNode_sorted x _ (sortNodes_sorted xs)

theorem mem_sortNodes {y : TNode} : ∀ {l : List TNode}, y ∈ sortNodes l ↔ y ∈ l
  | [] => by simp [sortNodes]
  | x :: xs => by
    unfold sortNodes
    rw [mem_insertNode, mem_sortNodes (l := xs)]
    simp

/-- sorted + no two *adjacent* equal names ⇒ all names distinct -/
theorem nodup_of_sorted_noAdjDup : ∀ (l : List TNode), SortedN l → hasAdjDup l = false → (l.map TNode.name).Nodup
  | [], _, _ => by simp
  | [a], _, _ => by simp
  | a :: b :: r, hs, hd => by
    unfold hasAdjDup at hd
    simp only [Bool.or_eq_false_iff, beq_eq_false_iff_ne] at hd
    unfold SortedN at hs
    rw [List.pairwise_cons] at hs
    have ih := nodup_of_sorted_noAdjDup (b :: r) hs.2 hd.2
    simp only [List.map_cons, List.nodup_cons] at ih ⊢
    refine ⟨?_, ih⟩
    intro hm
    rcases List.mem_cons.1 hm with e | hm
    · exact hd.1 e
    · obtain ⟨c, hc, e⟩ := List.mem_map.1 hm
      -- a ≤ b ≤ c and c.name = a.name, so a.name = b.name
      have hab := hs.1 b (by simp)
      have hbc : strLe b.name c.name = true := (List.pairwise_cons.1 hs.2).1 c hc
      rw [e] at hbc
      exact hd.1 (strLe_antisymm _ _ hab hbc)

theorem NodupHL_iff : ∀ (l : List TNode), NodupHL l ↔ ∀ c ∈ l, NodupH c
  | [] => by simp [NodupHL]
  | x :: xs => by
    unfold NodupHL
    rw [NodupHL_iff xs]
    simp

mutual
theorem treeSort_nodup : ∀ (x x' : TNode), treeSort x = .ok x' → NodupH x'
  | .mk n k p a ch, x', h => by
    unfold treeSort at h
    split at h
    · cases h
    · rename_i ch' hch
      simp only at h
      split at h
      · cases h
      · rename_i hd
        cases h
        unfold NodupH
        refine ⟨nodup_of_sorted_noAdjDup _ (sortNodes_sorted ch') (by simpa using hd), ?_⟩
        rw [NodupHL_iff]
        intro c hc
        exact (NodupHL_iff ch').1 (treeSortL_nodup ch ch' hch) c (mem_sortNodes.1 hc)
theorem treeSortL_nodup : ∀ (l l' : List TNode), treeSortL l = .ok l' → NodupHL l'
  | [], l', h => by
    unfold treeSortL at h
    cases h
    simp [NodupHL]
  | c :: cs, l', h => by
    unfold treeSortL at h
    split at h
    · cases h
    · rename_i c' hc
      split at h
      · cases h
      · rename_i cs' hcs
        cases h
        unfold NodupHL
        exact ⟨treeSort_nodup c c' hc, treeSortL_nodup cs cs' hcs⟩
end

/-- what `tree_sort` guarantees about the visited set -/
theorem visitRoot_fun {t : TNode} (h : NodupH t) : VFun (visitRoot t) := by
  unfold visitRoot
  split
  · cases t with
    | mk n k p a ch =>
      unfold NodupH at h
      exact visitL_fun ch [] h.1 h.2
  · exact visit_fun t [] h

theorem visitRoot_prefix (t : TNode) : VPrefix (visitRoot t) := by
  intro c k pre hm hp hne hne2
  have hl : ([] : List Bytes).length < pre.length := by
    cases pre with
    | nil => exact absurd rfl hne
    | cons _ _ => simp
  unfold visitRoot at hm ⊢
  split
  · rename_i hk
    rw [if_pos hk] at hm
    exact visitL_pref _ [] c pre k hm hp hl hne2
  · rename_i hk
    rw [if_neg hk] at hm
    exact visit_pref t [] c pre k hm hp hl hne2

/-! ## F. the whole plan -/

/-- `qsort` only permutes the file list: it invents no entry -/
def OrdOK (ord : List FileEnt → List FileEnt) : Prop := ∀ l f, f ∈ ord l → f ∈ l

theorem Out.mem_syscalls {o : Out} {sc : Syscall} : sc ∈ o.syscalls ↔ Ev.sys sc ∈ o.evs := by
  unfold Out.syscalls
  rw [List.mem_filterMap]
  constructor
  · rintro ⟨ev, hev, h⟩
    cases ev with
    | sys s => simp at h; subst h; exact hev
    | skip n => simp at h
  · intro h; exact ⟨_, h, rfl⟩

theorem restoreFstree_ops (fl : Flags) (t : TNode) (sc : Syscall) (h : Ev.sys sc ∈ (restoreFstree fl t).evs) :
    OpFor (visitRoot t) sc := by
  unfold restoreFstree at h
  unfold visitRoot
  split at h
  · rename_i hk; rw [if_pos hk]; exact createList_ops _ fl _ [] sc h
  · rename_i hk; rw [if_neg hk]; exact createDfs_ops _ fl t [] sc h

theorem updateAttribs_ops (fl : Flags) (t : TNode) (sc : Syscall) (h : Ev.sys sc ∈ (updateAttribs fl t).evs) :
    OpFor (visitRoot t) sc := by
  unfold updateAttribs at h
  unfold visitRoot
  split at h
  · simp at h
  · split at h
    · rename_i hk; rw [if_pos hk]; exact setAttribsL_ops _ fl _ [] sc h
    · rename_i hk; rw [if_neg hk]; exact setAttribs_ops _ fl t [] sc h

theorem genFiles_root_files (t : TNode) (f : FileEnt) (h : f ∈ (genFiles t.name [] t).files) : FileFor (visitRoot t) f := by
  unfold visitRoot
  cases t with
  | mk name k pl a ch =>
    by_cases hk : k = .dir
    · simp only [TNode.kind, hk, if_true]
      subst hk
      unfold genFiles at h
      split at h
      · simp at h
      · simp only [TNode.name] at h
        simp only [if_true] at h
        exact genFilesL_files name ch [] f h
    · simp only [TNode.kind, hk, if_false]
      exact genFiles_files _ _ [] f h

theorem fillFiles_mem {sc : Syscall} : ∀ {l : List FileEnt}, Ev.sys sc ∈ (fillFiles l).evs →
    ∃ f ∈ l, sc = .openTrunc f.path f.data
  | [], h => by simp [fillFiles] at h
  | f :: r, h => by
    unfold fillFiles at h
    rcases Out.mem_seq h with h1 | h1
    · simp at h1
      exact ⟨f, by simp, h1⟩
    · obtain ⟨g, hg, e⟩ := fillFiles_mem h1
      exact ⟨g, by simp [hg], e⟩

theorem fillUnpacked_ops (ord : List FileEnt → List FileEnt) (hord : OrdOK ord) (t : TNode) (sc : Syscall)
    (h : Ev.sys sc ∈ (fillUnpacked ord t).evs) : OpFor (visitRoot t) sc := by
  unfold fillUnpacked at h
  simp only at h
  split at h
  · exact absurd h (genFiles_nosys _ t [] sc)
  · rcases Out.mem_seq h with h1 | h1
    · exact absurd h1 (genFiles_nosys _ t [] sc)
    · obtain ⟨f, hf, e⟩ := fillFiles_mem h1
      subst e
      obtain ⟨comps, hm, hg, hp⟩ := genFiles_root_files t f (hord _ f hf)
      exact ⟨comps, .reg, hm, hg, hp, rfl⟩

/-- every system call of the plan is made for a visited node of the sorted tree -/
theorem unpackTree_ops (ord : List FileEnt → List FileEnt) (hord : OrdOK ord) (fl : Flags) (t t' : TNode)
    (hs : treeSort t = .ok t') (sc : Syscall) (h : sc ∈ (unpackTree ord fl t).syscalls) : OpFor (visitRoot t') sc := by
  rw [Out.mem_syscalls] at h
  unfold unpackTree at h
  rw [hs] at h
  simp only [planSorted] at h
  rcases Out.mem_seq h with h1 | h1
  · exact restoreFstree_ops fl t' sc h1
  · rcases Out.mem_seq h1 with h2 | h2
    · exact fillUnpacked_ops ord hord t' sc h2
    · exact updateAttribs_ops fl t' sc h2

theorem unpackTree_dup (ord : List FileEnt → List FileEnt) (fl : Flags) (t : TNode) (e : Err)
    (hs : treeSort t = .error e) : (unpackTree ord fl t).syscalls = [] := by
  unfold unpackTree
  rw [hs]
  rfl

/-! ## G. skipped entries are reported, everything else is unpacked (when the create walk does not fail) -/

mutual
/-- names of the entries a walk refuses: insane name, directly below the root or a visited directory -/
def skipped : TNode → List Bytes
  | .mk name k _ _ ch => if !isFilenameSane name then [name] else if k = .dir then skippedL ch else []
def skippedL : List TNode → List Bytes
  | [] => []
  | c :: cs => skipped c ++ skippedL cs
end

def skippedRoot (t : TNode) : List Bytes := if t.kind = .dir then skippedL t.children else skipped t

theorem Out.seq_ok {a b : Out} (h : (a.seq b).err = none) :
    a.err = none ∧ b.err = none ∧ (a.seq b).evs = a.evs ++ b.evs := by
  unfold Out.seq at h ⊢
  split at h
  · rename_i e he; rw [he] at h; cases h
  · rename_i he; simp only at h; simp [he, h]

/-- the calls that make a new name: `mkdir`, `symlink`, `mknod`, `open(O_CREAT|O_EXCL)` -/
def Syscall.isCreate : Syscall → Bool
  | .mkdir _ _ | .symlink _ _ | .mknod _ _ _ _ | .openExcl _ _ => true
  | _ => false

/-- the walk made a creating call for the node `(c, k)` -/
def CreatedIn (evs : List Ev) (c : List Bytes) (k : Kind) : Prop :=
  ∃ sc, Ev.sys sc ∈ evs ∧ sc.path = joinSlash c ∧ Compat sc k ∧ sc.isCreate = true

theorem follows_createNode (k : Kind) (p pl : Bytes) (a : Attr) (fl : Flags) : (createNode k p pl a fl).isCreate = true := by
  cases k <;> simp [createNode, Syscall.isCreate]

theorem create_dir_is_mkdir {sc : Syscall} (h1 : sc.isCreate = true) (h2 : Compat sc .dir) : ∃ m, sc = .mkdir sc.path m := by
  cases sc <;> simp_all [Syscall.isCreate, Compat, Syscall.path]

mutual
theorem createDfs_complete (rn : Bytes) (fl : Flags) : ∀ (x : TNode) (comps : List Bytes),
    (createDfs rn fl comps x).err = none →
      (∀ c k, (c, k) ∈ visit comps x → CreatedIn (createDfs rn fl comps x).evs c k) ∧
      (∀ n ∈ skipped x, Ev.skip n ∈ (createDfs rn fl comps x).evs)
  | .mk name k pl a ch, comps, h => by
    unfold createDfs at h ⊢
    unfold visit skipped
    by_cases hs : (!isFilenameSane name) = true
    · simp [hs]
    · rw [if_neg hs] at h
      simp only [if_neg hs]
      cases hp : pathOf rn comps with
      | error e => rw [hp] at h; cases h
      | ok p =>
        rw [hp] at h
        simp only at h ⊢
        obtain ⟨_, hb, hevs⟩ := Out.seq_ok h
        obtain ⟨_, _, hpj⟩ := pathOf_ok hp
        rw [hevs]
        constructor
        · intro c k' hm
          simp only [List.mem_cons, Prod.mk.injEq] at hm
          rcases hm with ⟨rfl, rfl⟩ | hm
          · exact ⟨createNode k' p pl a fl, by simp, by rw [path_createNode, hpj], compat_createNode .., follows_createNode ..⟩
          · by_cases hk : k = .dir
            · rw [if_pos hk] at hm hb ⊢
              obtain ⟨sc, h1, h2⟩ := (createList_complete rn fl ch comps hb).1 c k' hm
              exact ⟨sc, by simp [h1], h2⟩
            · rw [if_neg hk] at hm; simp at hm
        · intro n hn
          by_cases hk : k = .dir
          · rw [if_pos hk] at hn hb ⊢
            have := (createList_complete rn fl ch comps hb).2 n hn
            simp [this]
          · rw [if_neg hk] at hn; simp at hn
theorem createList_complete (rn : Bytes) (fl : Flags) : ∀ (l : List TNode) (anc : List Bytes),
    (createList rn fl anc l).err = none →
      (∀ c k, (c, k) ∈ visitL anc l → CreatedIn (createList rn fl anc l).evs c k) ∧
      (∀ n ∈ skippedL l, Ev.skip n ∈ (createList rn fl anc l).evs)
  | [], _, _ => by simp [visitL, skippedL]
  | x :: xs, anc, h => by
    unfold createList at h ⊢
    unfold visitL skippedL
    obtain ⟨ha, hb, hevs⟩ := Out.seq_ok h
    rw [hevs]
    have ih1 := createDfs_complete rn fl x _ ha
    have ih2 := createList_complete rn fl xs anc hb
    constructor
    · intro c k hm
      rcases List.mem_append.1 hm with h1 | h1
      · obtain ⟨sc, h3, h4⟩ := ih1.1 c k h1
        exact ⟨sc, by simp [h3], h4⟩
      · obtain ⟨sc, h3, h4⟩ := ih2.1 c k h1
        exact ⟨sc, by simp [h3], h4⟩
    · intro n hn
      rcases List.mem_append.1 hn with h1 | h1
      · simp [ih1.2 n h1]
      · simp [ih2.2 n h1]
end

theorem restoreFstree_complete (fl : Flags) (t : TNode) (h : (restoreFstree fl t).err = none) :
    (∀ c k, (c, k) ∈ visitRoot t → CreatedIn (restoreFstree fl t).evs c k) ∧
    (∀ n ∈ skippedRoot t, Ev.skip n ∈ (restoreFstree fl t).evs) := by
  unfold restoreFstree at h ⊢
  unfold visitRoot skippedRoot
  split
  · rename_i hk
    rw [if_pos hk] at h
    exact createList_complete _ fl _ [] h
  · rename_i hk
    rw [if_neg hk] at h
    exact createDfs_complete _ fl t [] h

/-! ## H. order: a path's prefixes are made by earlier `mkdir`s -/

/-- all proper prefixes of `c` that are longer than `n` components have their `mkdir` in `l₁` -/
def PrefMadeIn (l₁ : List Ev) (n : Nat) (c : List Bytes) : Prop :=
  ∀ pre, pre <+: c → n < pre.length → pre ≠ c → ∃ m, Ev.sys (.mkdir (joinSlash pre) m) ∈ l₁

theorem PrefMadeIn.mono {l₁ l₁' : List Ev} {n : Nat} {c : List Bytes} (h : PrefMadeIn l₁ n c) (hs : ∀ e ∈ l₁, e ∈ l₁') :
    PrefMadeIn l₁' n c := by
  intro pre h1 h2 h3
  obtain ⟨m, hm⟩ := h pre h1 h2 h3
  exact ⟨m, hs _ hm⟩

theorem Out.seq_evs_none {a b : Out} (h : a.err = none) : (a.seq b).evs = a.evs ++ b.evs := by
  unfold Out.seq; rw [h]

theorem Out.seq_evs_some {a b : Out} {e : Err} (h : a.err = some e) : (a.seq b).evs = a.evs := by
  unfold Out.seq; rw [h]

/-- position of an element of `A ++ B` -/
theorem split_append {α : Type} {A B l₁ l₂ : List α} {x : α} (h : A ++ B = l₁ ++ x :: l₂) :
    (∃ r, A = l₁ ++ x :: r) ∨ (∃ a', l₁ = A ++ a' ∧ B = a' ++ x :: l₂) := by
  rcases List.append_eq_append_iff.1 h with ⟨a', h1, h2⟩ | ⟨b', h1, h2⟩
  · exact Or.inr ⟨a', h1, h2⟩
  · cases b' with
    | nil =>
      simp at h1 h2
      exact Or.inr ⟨[], by simp [h1], by simp [h2]⟩
    | cons y ys =>
      simp at h2
      obtain ⟨rfl, _⟩ := h2
      exact Or.inl ⟨ys, h1⟩

mutual
theorem createDfs_ordered (rn : Bytes) (fl : Flags) : ∀ (x : TNode) (comps : List Bytes) (l₁ : List Ev) (sc : Syscall)
    (l₂ : List Ev), (createDfs rn fl comps x).evs = l₁ ++ Ev.sys sc :: l₂ →
      ∃ c, sc.path = joinSlash c ∧ AllGood c ∧ comps <+: c ∧ (comps.length - 1 < comps.length → PrefMadeIn l₁ (comps.length - 1) c)
  | .mk name k pl a ch, comps, l₁, sc, l₂, h => by
    unfold createDfs at h
    by_cases hs : (!isFilenameSane name) = true
    · rw [if_pos hs] at h
      cases l₁ <;> simp at h
    · rw [if_neg hs] at h
      cases hp : pathOf rn comps with
      | error e => rw [hp] at h; cases l₁ <;> simp at h
      | ok p =>
        rw [hp] at h
        simp only at h
        obtain ⟨_, hgood, hpj⟩ := pathOf_ok hp
        rw [Out.seq_evs_none rfl] at h
        cases l₁ with
        | nil =>
          simp at h
          obtain ⟨h1, _⟩ := h
          subst h1
          refine ⟨comps, by rw [path_createNode, hpj], hgood, List.prefix_refl _, ?_⟩
          intro _ pre hp1 hp2 hp3
          have := hp1.length_le
          have : pre = comps := hp1.eq_of_length (by omega)
          exact absurd this hp3
        | cons e l₁' =>
          simp at h
          obtain ⟨he, hrest⟩ := h
          by_cases hk : k = .dir
          · rw [if_pos hk] at hrest
            obtain ⟨c, h1, hgc, h2, h3⟩ := createList_ordered rn fl ch comps l₁' sc l₂ hrest
            refine ⟨c, h1, hgc, h2.1, ?_⟩
            intro _ pre hp1 hp2 hp3
            by_cases hl : comps.length < pre.length
            · obtain ⟨m, hm⟩ := h3 pre hp1 hl hp3
              exact ⟨m, List.mem_cons_of_mem _ hm⟩
            · -- pre = comps: its mkdir is the head
              have : pre = comps := by
                have hq : pre <+: comps := List.prefix_of_prefix_length_le hp1 h2.1 (by omega)
                exact hq.eq_of_length (by omega)
              subst this
              subst hk
              exact ⟨0o755, by rw [← he]; simp [createNode, hpj]⟩
          · rw [if_neg hk] at hrest
            cases l₁' <;> simp at hrest
theorem createList_ordered (rn : Bytes) (fl : Flags) : ∀ (l : List TNode) (anc : List Bytes) (l₁ : List Ev) (sc : Syscall)
    (l₂ : List Ev), (createList rn fl anc l).evs = l₁ ++ Ev.sys sc :: l₂ →
      ∃ c, sc.path = joinSlash c ∧ AllGood c ∧ (anc <+: c ∧ anc.length < c.length) ∧ PrefMadeIn l₁ anc.length c
  | [], _, l₁, _, _, h => by
    unfold createList at h
    cases l₁ <;> simp at h
  | x :: xs, anc, l₁, sc, l₂, h => by
    unfold createList at h
    cases he : (createDfs rn fl (anc ++ [x.name]) x).err with
    | some e =>
      rw [Out.seq_evs_some he] at h
      obtain ⟨c, h1, hgc, h2, h3⟩ := createDfs_ordered rn fl x _ l₁ sc l₂ h
      have hl := h2.length_le
      simp at hl h3
      exact ⟨c, h1, hgc, ⟨List.IsPrefix.trans (List.prefix_append anc [x.name]) h2, by omega⟩, h3⟩
    | none =>
      rw [Out.seq_evs_none he] at h
      rcases split_append h with ⟨r, hA⟩ | ⟨a', hl₁, hB⟩
      · obtain ⟨c, h1, hgc, h2, h3⟩ := createDfs_ordered rn fl x _ l₁ sc r hA
        have hl := h2.length_le
        simp at hl h3
        exact ⟨c, h1, hgc, ⟨List.IsPrefix.trans (List.prefix_append anc [x.name]) h2, by omega⟩, h3⟩
      · obtain ⟨c, h1, hgc, h2, h3⟩ := createList_ordered rn fl xs anc a' sc l₂ hB
        exact ⟨c, h1, hgc, h2, h3.mono (fun e he' => by rw [hl₁]; simp [he'])⟩
end

theorem restoreFstree_ordered (fl : Flags) (t : TNode) (l₁ : List Ev) (sc : Syscall) (l₂ : List Ev)
    (h : (restoreFstree fl t).evs = l₁ ++ Ev.sys sc :: l₂) : ∃ c, sc.path = joinSlash c ∧ AllGood c ∧ PrefMadeIn l₁ 0 c := by
  unfold restoreFstree at h
  split at h
  · obtain ⟨c, h1, hgc, _, h3⟩ := createList_ordered _ fl _ [] l₁ sc l₂ h
    exact ⟨c, h1, hgc, h3⟩
  · obtain ⟨c, h1, _, _⟩ := createDfs_ordered _ fl t [] l₁ sc l₂ h
    -- a non-directory root: the only call is for the root itself
    cases t with
    | mk name k pl a ch =>
      unfold createDfs at h
      by_cases hs : (!isFilenameSane name) = true
      · rw [if_pos hs] at h; cases l₁ <;> simp at h
      · rw [if_neg hs] at h
        cases hp : pathOf name [] with
        | error e => simp only [TNode.name] at h; rw [hp] at h; cases l₁ <;> simp at h
        | ok p =>
          simp only [TNode.name] at h
          rw [hp] at h
          rename_i hk
          simp only [TNode.kind] at hk
          simp only [if_neg hk] at h
          rw [Out.seq_evs_none rfl] at h
          obtain ⟨_, _, hpj⟩ := pathOf_ok hp
          cases l₁ with
          | nil =>
            simp at h
            refine ⟨[], by rw [← h.1, path_createNode, hpj], (by intro x hx; cases hx), ?_⟩
            intro pre hp1 hp2 _
            have : pre = [] := by simpa using hp1
            subst this
            simp at hp2
          | cons e l₁' => simp at h

theorem joinSlash_inj {c₁ c₂ : List Bytes} (h1 : AllGood c₁) (h2 : AllGood c₂) (h : joinSlash c₁ = joinSlash c₂) : c₁ = c₂ := by
  by_cases e1 : c₁ = []
  · subst e1
    by_cases e2 : c₂ = []
    · exact e2.symm
    · exact absurd h.symm (by simpa [joinSlash] using (joinSlash_good_ne_nil h2 e2).1)
  · by_cases e2 : c₂ = []
    · subst e2
      exact absurd h (by simpa [joinSlash] using (joinSlash_good_ne_nil h1 e1).1)
    · rw [← splitSlash_joinSlash_good h1 e1, ← splitSlash_joinSlash_good h2 e2, h]

theorem AllGood.prefix {c pre : List Bytes} (h : AllGood c) (hp : pre <+: c) : AllGood pre :=
  fun x hx => h x (hp.subset hx)

/-- in the whole plan, each call comes after the `mkdir` of every proper prefix of its path -/
theorem unpackTree_ordered (ord : List FileEnt → List FileEnt) (hord : OrdOK ord) (fl : Flags) (t t' : TNode)
    (hs : treeSort t = .ok t') (l₁ : List Ev) (sc : Syscall) (l₂ : List Ev)
    (h : (unpackTree ord fl t).evs = l₁ ++ Ev.sys sc :: l₂) :
    ∃ c, sc.path = joinSlash c ∧ AllGood c ∧
      ∀ pre, pre <+: c → pre ≠ [] → pre ≠ c → ∃ m, Ev.sys (.mkdir (joinSlash pre) m) ∈ l₁ := by
  have hop : OpFor (visitRoot t') sc := unpackTree_ops ord hord fl t t' hs sc (by
    rw [Out.mem_syscalls, h]; simp)
  obtain ⟨c, k, hm, hg, hpath, _⟩ := hop
  refine ⟨c, hpath, hg, ?_⟩
  unfold unpackTree at h
  rw [hs] at h
  simp only [planSorted] at h
  have inCreate : ∀ r, (restoreFstree fl t').evs = l₁ ++ Ev.sys sc :: r →
      ∀ pre, pre <+: c → pre ≠ [] → pre ≠ c → ∃ m, Ev.sys (.mkdir (joinSlash pre) m) ∈ l₁ := by
    intro r hr pre hp1 hp2 hp3
    obtain ⟨c', hc1, hgc, hc2⟩ := restoreFstree_ordered fl t' l₁ sc r hr
    have : c' = c := joinSlash_inj hgc hg (hc1.symm.trans hpath)
    subst this
    exact hc2 pre hp1 (by cases pre with | nil => exact absurd rfl hp2 | cons _ _ => simp) hp3
  cases he : (restoreFstree fl t').err with
  | some e =>
    rw [Out.seq_evs_some he] at h
    exact inCreate l₂ h
  | none =>
    rw [Out.seq_evs_none he] at h
    rcases split_append h with ⟨r, hA⟩ | ⟨a', hl₁, _⟩
    · exact inCreate r hA
    · intro pre hp1 hp2 hp3
      have hd := visitRoot_prefix t' c k pre hm hp1 hp2 hp3
      obtain ⟨sc', h1, h2, h3, h4⟩ := (restoreFstree_complete fl t' he).1 pre .dir hd
      obtain ⟨m, hm'⟩ := create_dir_is_mkdir h4 h3
      refine ⟨m, ?_⟩
      rw [hl₁, ← h2, ← hm']
      simp [h1]

end Sqfs.Unpack
