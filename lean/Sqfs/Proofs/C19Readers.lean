import Sqfs.Model.C19Readers
/-! C19: a copied data reader / meta reader *is* the original, as far as any later operation can tell.
For the data reader this needs the invariant of `get_block` (a cached block is `block_size` bytes long and zero beyond
`*_blk_size`), which `data_reader_copy` relies on when it copies `*_blk_size` bytes into a zero-filled buffer. -/
namespace Sqfs.C19R
open Sqfs.MetaReader Sqfs.DataReader

theorem mrCopy_eq (m : MR) : mrCopy m = m := rfl

theorem zeros_length (n : Nat) : (zeros n).length = n := by simp [zeros]
theorem zeros_drop (n k : Nat) : (zeros n).drop k = zeros (n - k) := by simp [zeros]

theorem padded_iff {bs : Nat} {c : Bytes × Nat} :
    padded bs c = true ↔ c.1.length = bs ∧ c.2 ≤ bs ∧ c.1.drop c.2 = zeros (bs - c.2) := by
  simp [padded, and_assoc]

theorem copyBlock_eq {bs : Nat} {c : Bytes × Nat} (h : padded bs c = true) : copyBlock bs c = c := by
  obtain ⟨buf, n⟩ := c
  obtain ⟨h1, h2, h3⟩ := padded_iff.mp h
  simp only at h1 h2 h3
  simp only [copyBlock, overwrite]
  have : (buf.take n).length = n := by simp [List.length_take]; omega
  rw [this, zeros_drop, ← h3, List.take_append_drop]

/-- **the copy of a reader that satisfies the cache invariant is the reader** -/
theorem drCopy_eq {d : DR} (h : cacheInv d = true) : drCopy d = d := by
  obtain ⟨bs, tbl, db, cb, cw, fb, cf⟩ := d
  simp only [cacheInv, Bool.and_eq_true] at h
  obtain ⟨h1, h2⟩ := h
  simp only [drCopy]
  congr 1
  · cases db with
    | none => rfl
    | some c => simp only [Option.map_some]; rw [copyBlock_eq h1]
  · cases fb with
    | none => rfl
    | some c => simp only [Option.map_some]; rw [copyBlock_eq h2]

theorem readAt_length {f : File} {off n : Nat} {raw : Bytes} (h : f.readAt off n = .ok raw) : raw.length = n := by
  unfold File.readAt at h
  split at h
  · cases h
  · split at h
    · cases h
    · cases h; simp

theorem padded_overwrite {m : Nat} {out : Bytes} (h : out.length ≤ m) : padded m (overwrite (zeros m) out, out.length) = true := by
  apply padded_iff.mpr
  simp only [overwrite, zeros_drop]
  refine ⟨by simp [zeros_length]; omega, h, by simp⟩

/-- what `get_block` returns is `max_size` bytes long and zero beyond the block -/
theorem getBlock_padded {f : File} {unc : Codec} (hc : CodecBounded unc) {off w m : Nat} {r : Bytes × Nat}
    (h : getBlock f unc off w m = .ok r) : padded m r = true := by
  unfold getBlock at h
  split at h
  · cases h
    apply padded_iff.mpr
    simp [zeros_length, zeros]
  · simp only at h
    split at h
    · cases h
    · rename_i hle
      split at h
      · split at h
        · cases h
        · rename_i raw hraw
          split at h
          · cases h
          · rename_i out hout
            split at h
            · cases h
            · cases h
              exact padded_overwrite (hc _ _ _ hout)
      · split at h
        · cases h
        · rename_i raw hraw
          cases h
          have hl := readAt_length hraw
          have := padded_overwrite (m := m) (out := raw) (by omega)
          rw [hl] at this
          exact this

theorem precacheData_inv {kw : Bool} {f : File} {unc : Codec} (hc : CodecBounded unc) {d : DR} (loc w : Nat)
    (h : cacheInv d = true) :
    cacheInv (precacheData kw f unc d loc w).2 = true ∧ (precacheData kw f unc d loc w).2.blockSize = d.blockSize := by
  unfold precacheData
  split
  · exact ⟨h, rfl⟩
  · simp only [cacheInv, Bool.and_eq_true] at h
    split
    · exact ⟨by simp [cacheInv, h.2], rfl⟩
    · rename_i r hr
      exact ⟨by simp [cacheInv, h.2, getBlock_padded hc hr], rfl⟩

theorem precacheFrag_inv {f : File} {unc : Codec} (hc : CodecBounded unc) {d : DR} (idx : Nat)
    (h : cacheInv d = true) :
    cacheInv (precacheFrag f unc d idx).2 = true ∧ (precacheFrag f unc d idx).2.blockSize = d.blockSize := by
  unfold precacheFrag
  split
  · exact ⟨h, rfl⟩
  · split
    · exact ⟨h, rfl⟩
    · simp only [cacheInv, Bool.and_eq_true] at h
      split
      · exact ⟨by simp [cacheInv, h.1], rfl⟩
      · rename_i r hr
        exact ⟨by simp [cacheInv, h.1, getBlock_padded hc hr], rfl⟩

/-- the reader object a run of the block loop leaves behind -/
def crDR : CopyR → DR
  | .fail _ d => d
  | .cont d _ _ _ => d

theorem copyBlocks_inv {kw : Bool} {f : File} {unc : Codec} (hc : CodecBounded unc) :
    ∀ (bl : List Nat) (d : DR) (off offset size : Nat) (acc : Bytes), cacheInv d = true →
      cacheInv (crDR (copyBlocks kw f unc d bl off offset size acc)) = true := by
  intro bl
  induction bl with
  | nil => intro d off offset size acc h; simpa [copyBlocks, crDR] using h
  | cons w rest ih =>
    intro d off offset size acc h
    unfold copyBlocks
    split
    · simpa [crDR] using h
    · simp only
      split
      · exact ih _ _ _ _ _ h
      · split
        · simp only [crDR]; exact (precacheData_inv hc off w h).1
        · exact ih _ _ _ _ _ (precacheData_inv hc off w h).1

theorem read_inv {kw : Bool} {f : File} {unc : Codec} (hc : CodecBounded unc) {d : DR} (ino : Inode) (o n : Nat)
    (h : cacheInv d = true) : cacheInv (DataReader.read kw f unc d ino o n).2 = true := by
  unfold DataReader.read
  simp only
  generalize (if n ≥ 2147483647 then 2147483646 else n) = n1
  generalize (if ino.fileSize - o < n1 then ino.fileSize - o else n1) = n2
  split
  · exact h
  · split
    · exact h
    · have hcb := copyBlocks_inv (kw := kw) (f := f) hc (skipBlocks d.blockSize ino.blocks ino.blocksStart o).1 d
        (skipBlocks d.blockSize ino.blocks ino.blocksStart o).2.1 (skipBlocks d.blockSize ino.blocks ino.blocksStart o).2.2 n2 [] h
      split
      · rename_i e d' heq
        rw [heq] at hcb; exact hcb
      · rename_i d' offset size acc heq
        rw [heq] at hcb
        simp only [crDR] at hcb
        split
        · exact hcb
        · have hf := (precacheFrag_inv (f := f) hc ino.fragIdx hcb).1
          split
          · exact hf
          · split
            · exact hf
            · split
              · exact hf
              · split
                · exact hf
                · exact hf

theorem cacheInv_fresh (bs : Nat) (tbl : List (Nat × Nat)) : cacheInv (DataReader.fresh bs tbl) = true := rfl

/-- every reader state the library can reach — created, fragment table loaded, any history of reads (failed ones
included), over any image and any bounded decompressor — satisfies the cache invariant -/
theorem cacheInv_run {kw : Bool} {f : File} {unc : Codec} (hc : CodecBounded unc) :
    ∀ (hist : List DataReader.Op) (d : DR), cacheInv d = true → cacheInv (DataReader.run kw f unc d hist) = true := by
  intro hist
  induction hist with
  | nil => intro d h; exact h
  | cons op rest ih =>
    intro d h
    cases op with
    | read ino o n => exact ih _ (read_inv hc ino o n h)

/-! ### the other entry points that touch the caches (C10's `OpX`): fragment access, streams, reloading the fragment table -/

theorem getFragment_dr (f : File) (unc : Codec) (d : DR) (ino : DataReader.Inode) :
    (DataReader.getFragment f unc d ino).2 = d ∨ (DataReader.getFragment f unc d ino).2 = (DataReader.precacheFrag f unc d ino.fragIdx).2 := by
  unfold DataReader.getFragment
  repeat' (first | split | dsimp only)
  all_goals first | exact Or.inl rfl | exact Or.inr rfl

theorem streamFill_dr (f : File) (unc : Codec) (d : DR) (s : DataReader.Stream) (used : Nat) :
    (DataReader.streamFill f unc d s used).2 = d ∨ (DataReader.streamFill f unc d s used).2 = (DataReader.precacheFrag f unc d s.fragIdx).2 := by
  unfold DataReader.streamFill
  repeat' (first | split | dsimp only)
  all_goals first | exact Or.inl rfl | exact Or.inr rfl

theorem streamGet_dr (sfix : Bool) (f : File) (unc : Codec) (d : DR) (s : DataReader.Stream) :
    (DataReader.streamGet sfix f unc d s).2.2 = d ∨ (DataReader.streamGet sfix f unc d s).2.2 = (DataReader.precacheFrag f unc d s.fragIdx).2 := by
  unfold DataReader.streamGet
  split
  · exact Or.inl rfl
  · split
    · exact Or.inl rfl
    · have h := streamFill_dr f unc d { s with bufOff := 0, bufUsed := if s.filesz < d.blockSize then s.filesz else d.blockSize }
        (if s.filesz < d.blockSize then s.filesz else d.blockSize)
      simp only []
      split <;> rename_i heq <;> rw [heq] at h <;> exact h

theorem stepX_inv {kw sfix : Bool} {f : File} {unc : Codec} (hc : CodecBounded unc) {d : DR} (op : DataReader.OpX) (h : cacheInv d = true) :
    cacheInv (DataReader.stepX kw sfix f unc d op) = true := by
  cases op with
  | read ino o n => exact read_inv hc ino o n h
  | frag ino =>
    show cacheInv (DataReader.getFragment f unc d ino).2 = true
    rcases getFragment_dr f unc d ino with e | e <;> rw [e]
    · exact h
    · exact (precacheFrag_inv hc ino.fragIdx h).1
  | sget s c =>
    show cacheInv (DataReader.streamGet sfix f unc d s).2.2 = true
    rcases streamGet_dr sfix f unc d s with e | e <;> rw [e]
    · exact h
    · exact (precacheFrag_inv hc s.fragIdx h).1
  | reload t =>
    simp only [cacheInv, Bool.and_eq_true] at h
    cases t <;> simp [DataReader.stepX, DataReader.reload, cacheInv, h.1]

/-- every reader state reachable through **any** of the entry points that touch the caches satisfies the cache invariant -/
theorem cacheInv_runX {kw sfix : Bool} {f : File} {unc : Codec} (hc : CodecBounded unc) :
    ∀ (hist : List DataReader.OpX) (d : DR), cacheInv d = true → cacheInv (DataReader.runX kw sfix f unc d hist) = true := by
  intro hist
  induction hist with
  | nil => intro d h; exact h
  | cons op rest ih => intro d h; exact ih _ (stepX_inv hc op h)

/-- the toy decompressor of the harnesses respects its output buffer -/
theorem toyUnc_bounded : CodecBounded toyUnc := by
  intro inp sz out h
  unfold toyUnc at h
  split at h
  · split at h
    · cases h; assumption
    · cases h
  · split at h
    · cases h; simpa using ‹_›
    · cases h
  · simp only at h
    split at h
    · cases h; simpa using ‹_›
    · cases h
  · cases h

end Sqfs.C19R
