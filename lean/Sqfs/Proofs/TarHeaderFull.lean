/-
C04 — the header round trip, composed: the records `write_tar_header` emits for one entry (optional PAX 'x', GNU 'K',
GNU 'L', then the real header) through the loop of `read_header`.
-/
import Sqfs.Proofs.TarDecode
import Sqfs.Spec.TarHeader
namespace Sqfs.Tar

/-- number of records an optional extension record contributes -/
def nrec (b : Bool) : Nat := if b then 1 else 0

theorem cstr_clean (b : Bytes) (h : ∀ x ∈ b, x ≠ 0) : cstr b = b := by
  unfold cstr
  induction b with
  | nil => rfl
  | cons x t ih =>
    have hx : x ≠ 0 := h x (by simp)
    simp only [List.takeWhile, ne_eq, hx, not_false_eq_true, decide_true]
    congr 1
    exact ih (fun y hy => h y (List.mem_cons_of_mem _ hy))

theorem strn_zeros (n : Nat) : strn (zeros n) = [] := by
  cases n with
  | zero => rfl
  | succ n => simp [strn, zeros, List.replicate_succ, List.takeWhile]

/-- an extension record = a header block for a pseudo file of `p.length` bytes, the payload, the padding -/
theorem writeExtHeader_eq (orig : WEntry) (p : Bytes) (tf : UInt8) (nm : Bytes) :
    writeExtHeader orig p tf nm =
      hdrBlock (field 100 (nm.take 99)) 0o644 orig.uid orig.gid p.length orig.mtime tf (zeros 100) 0 0 ++
        (p ++ zeros (padding p.length)) := by
  unfold writeExtHeader writeHeaderRec hdrBlock
  have h1 : fmt (S_IFREG + 0o644) = S_IFREG := by decide
  have h2 : perm (S_IFREG + 0o644) = 0o644 := by decide
  simp only [h1, h2, if_true, List.append_assoc]
  have h3 : ¬ (S_IFREG = S_IFCHR ∨ S_IFREG = S_IFBLK) := by decide
  simp only [h3, if_false]

theorem ext_isHdr (orig : WEntry) (p : Bytes) (tf : UInt8) (nm : Bytes) (h : p.length ≤ 65536) :
    IsHdr (hdrBlock (field 100 (nm.take 99)) 0o644 orig.uid orig.gid p.length orig.mtime tf (zeros 100) 0 0) tf p.length :=
  hdrBlock_isHdr _ _ _ _ _ _ _ _ _ _ (field_length _ _) (zeros_length _) (by simp only [U64]; omega)

theorem writeExtHeader_length (orig : WEntry) (p : Bytes) (tf : UInt8) (nm : Bytes) :
    512 ≤ (writeExtHeader orig p tf nm).length := by
  rw [writeExtHeader_eq, List.length_append, hdrBlock_length _ _ _ _ _ _ _ _ _ _ (field_length _ _) (zeros_length _)]
  omega

section cps
variable (orig : WEntry) (p nm s' : Bytes) (out : Decoded) (mask : Nat) (R : ReadResult) (k : Nat)

/-- an optional GNU 'K' record in front of `s'` -/
theorem cps_K (b : Bool) (h1 : b = true → 1 ≤ p.length) (h2 : p.length ≤ 65536)
    (hc : ∀ g, k ≤ g → ∀ pz, readHeaderLoop {} g s' (if b then { out with link := some (cstr p) } else out)
            (if b then setFlag mask PAX_SLINK_TARGET else mask) pz = R) :
    ∀ g, k + nrec b ≤ g → ∀ pz,
      readHeaderLoop {} g ((if b then writeExtHeader orig p 75 nm else []) ++ s') out mask pz = R := by
  intro g hg pz
  cases b with
  | false => simpa using hc g (by simpa [nrec] using hg) pz
  | true =>
    obtain ⟨g', rfl⟩ : ∃ g', g = g' + 1 := ⟨g - 1, by simp [nrec] at hg; omega⟩
    simp only [if_true, writeExtHeader_eq, List.append_assoc]
    rw [loop_K {} g' _ p s' out mask pz (ext_isHdr orig p 75 nm h2) (h1 rfl) h2]
    simpa using hc g' (by simp [nrec] at hg; omega) false

/-- an optional GNU 'L' record in front of `s'` -/
theorem cps_L (b : Bool) (h1 : b = true → 1 ≤ p.length) (h2 : p.length ≤ 65536)
    (hc : ∀ g, k ≤ g → ∀ pz, readHeaderLoop {} g s' (if b then { out with name := some (cstr p) } else out)
            (if b then setFlag mask PAX_NAME else mask) pz = R) :
    ∀ g, k + nrec b ≤ g → ∀ pz,
      readHeaderLoop {} g ((if b then writeExtHeader orig p 76 nm else []) ++ s') out mask pz = R := by
  intro g hg pz
  cases b with
  | false => simpa using hc g (by simpa [nrec] using hg) pz
  | true =>
    obtain ⟨g', rfl⟩ : ∃ g', g = g' + 1 := ⟨g - 1, by simp [nrec] at hg; omega⟩
    simp only [if_true, writeExtHeader_eq, List.append_assoc]
    rw [loop_L {} g' _ p s' out mask pz (ext_isHdr orig p 76 nm h2) (h1 rfl) h2]
    simpa using hc g' (by simp [nrec] at hg; omega) false

end cps

theorem paxPayload_pos (xs : List (Bytes × Bytes)) (h : xs ≠ []) : 1 ≤ (paxPayload xs).length := by
  cases xs with
  | nil => exact absurd rfl h
  | cons kv t =>
    unfold paxPayload
    simp only [List.map_cons, List.flatten_cons, List.length_append]
    have : 1 ≤ (schilyRecord kv.1 kv.2).length := by
      cases h : schilyRecord kv.1 kv.2 with
      | nil => exact absurd h (schilyRecord_ne_nil _ _)
      | cons _ _ => simp
    omega

theorem readPaxHeader_payload (xs : List (Bytes × Bytes)) (hk : ∀ kv ∈ xs, ∀ x ∈ kv.1, x ≠ 0) :
    readPaxHeader {} (paxPayload xs) {} 0 = some ({ xattr := xs.reverse }, 0) := by
  unfold readPaxHeader paxPayload
  rw [paxLoop_schily xs _ _ hk]
  · simp
  · have : xs.length ≤ ((xs.map fun kv => schilyRecord kv.1 kv.2).flatten).length := by
      induction xs with
      | nil => simp
      | cons kv t ih =>
        have h1 := ih (fun kv' h' => hk kv' (List.mem_cons_of_mem _ h'))
        have h2 : 1 ≤ (schilyRecord kv.1 kv.2).length := by
          cases h : schilyRecord kv.1 kv.2 with
          | nil => exact absurd h (schilyRecord_ne_nil _ _)
          | cons _ _ => simp
        simp only [List.map_cons, List.flatten_cons, List.length_append, List.length_cons]
        omega
    omega

/-- the optional PAX 'x' record (always first): the header starts from scratch with exactly the written pairs, reversed -/
theorem cps_x (orig : WEntry) (xs : List (Bytes × Bytes)) (nm s' : Bytes) (R : ReadResult) (k : Nat)
    (hk : ∀ kv ∈ xs, ∀ x ∈ kv.1, x ≠ 0) (h2 : (paxPayload xs).length ≤ 65536)
    (hc : ∀ g, k ≤ g → ∀ pz, readHeaderLoop {} g s' { xattr := xs.reverse } 0 pz = R) :
    ∀ g, k + nrec (!xs.isEmpty) ≤ g → ∀ pz,
      readHeaderLoop {} g ((if xs.isEmpty then [] else writeSchilyXattr orig nm xs) ++ s') {} 0 pz = R := by
  intro g hg pz
  cases hx : xs.isEmpty with
  | true =>
    have : xs = [] := List.isEmpty_iff.1 hx
    subst this
    simpa using hc g (by simpa [nrec] using hg) pz
  | false =>
    have hne : xs ≠ [] := by intro h; rw [h] at hx; cases hx
    obtain ⟨g', rfl⟩ : ∃ g', g = g' + 1 := ⟨g - 1, by simp [nrec, hx] at hg; omega⟩
    have hw : writeSchilyXattr orig nm xs = writeExtHeader orig (paxPayload xs) 120 nm := rfl
    simp only [Bool.false_eq_true, if_false, hw, writeExtHeader_eq, List.append_assoc]
    rw [loop_x {} g' _ (paxPayload xs) s' {} 0 pz (ext_isHdr orig _ 120 nm h2) (paxPayload_pos xs hne) h2 _ _
      (readPaxHeader_payload xs hk)]
    exact hc g' (by simp [nrec, hx] at hg; omega) false

/-! ### shape of the writer's output for an entry that is not a hard link -/

/-- name left for the real header -/
def mainName (e : WEntry) (n : Nat) : Bytes := if e.name.length ≥ 100 then ascii "gnu/data" ++ decStr n else e.name
/-- link target left for the real header -/
def mainSlink (e : WEntry) (tgt : Option Bytes) : Option Bytes :=
  if fmt e.mode = S_IFLNK ∧ e.size ≥ 100 then none else if fmt e.mode = S_IFLNK then tgt else none

theorem writeTarHeader_shape (e : WEntry) (tgt : Option Bytes) (xs : List (Bytes × Bytes)) (n : Nat) (t : UInt8)
    (hh : e.hardLink = false) (ht : entryType e.mode = some t) :
    writeTarHeader e tgt xs n = some (
      (if xs.isEmpty then [] else writeSchilyXattr e (ascii "pax/xattr" ++ decStr n) xs) ++
      ((if decide (fmt e.mode = S_IFLNK ∧ e.size ≥ 100) then
          writeExtHeader e ((tgt.getD []).take e.size) 75 (ascii "gnu/target" ++ decStr n) else []) ++
       ((if decide (e.name.length ≥ 100) then writeExtHeader e e.name 76 (ascii "gnu/name" ++ decStr n) else []) ++
        writeHeaderRec e (mainName e n) (mainSlink e tgt) t))) := by
  unfold writeTarHeader writeTarHeaderK
  simp only [hh, Bool.false_eq_true, if_false, ht]
  unfold extRecordsK mainName mainSlink
  by_cases hk : fmt e.mode = S_IFLNK ∧ e.size ≥ 100
  · have hl : fmt e.mode = S_IFLNK := hk.1
    by_cases hn : e.name.length ≥ 100
    · simp only [hk, hn, hl, and_self, if_true, decide_true, List.append_assoc]; rfl
    · simp only [hk, hn, hl, and_self, if_true, if_false, decide_true, decide_false, List.append_assoc, List.nil_append,
        Bool.false_eq_true]; rfl
  · by_cases hn : e.name.length ≥ 100
    · simp only [hk, hn, if_true, if_false, decide_true, decide_false, List.append_assoc, List.nil_append, List.append_nil,
        Bool.false_eq_true]; rfl
    · simp only [hk, hn, if_true, if_false, decide_true, decide_false, List.append_assoc, List.nil_append, List.append_nil,
        Bool.false_eq_true]; rfl

/-- the `linkname` field `write_header` fills in -/
def linkField (e : WEntry) (slink : Option Bytes) : Bytes :=
  match slink with
  | some t => field 100 (t.take e.size)
  | none => zeros 100

theorem linkField_length (e : WEntry) (slink : Option Bytes) : (linkField e slink).length = 100 := by
  cases slink <;> simp [linkField, field_length, zeros_length]

/-- `int maj = major(rdev)` passed on as `sqfs_u64` -/
def sext32 (x : Nat) : Nat := if x ≥ 2147483648 then x % 4294967296 + (U64 - 4294967296) else x

theorem writeHeaderRec_eq (e : WEntry) (nm : Bytes) (slink : Option Bytes) (t : UInt8) :
    writeHeaderRec e nm slink t =
      hdrBlock (field 100 (nm.take 99)) (perm e.mode) e.uid e.gid (if fmt e.mode = S_IFREG then e.size else 0) e.mtime t
        (linkField e slink)
        (if fmt e.mode = S_IFCHR ∨ fmt e.mode = S_IFBLK then sext32 e.devMajor else 0)
        (if fmt e.mode = S_IFCHR ∨ fmt e.mode = S_IFBLK then sext32 e.devMinor else 0) := by
  unfold writeHeaderRec hdrBlock linkField sext32
  cases slink <;> rfl

theorem entryType_cases (m : Nat) (t : UInt8) (h : entryType m = some t) :
    (fmt m = S_IFCHR ∧ t = 51) ∨ (fmt m = S_IFBLK ∧ t = 52) ∨ (fmt m = S_IFLNK ∧ t = 50) ∨ (fmt m = S_IFREG ∧ t = 48) ∨
    (fmt m = S_IFDIR ∧ t = 53) ∨ (fmt m = S_IFIFO ∧ t = 54) := by
  unfold entryType at h
  split_ifs at h with h1 h2 h3 h4 h5 h6 <;> simp only [Option.some.injEq, reduceCtorEq] at h <;> subst h <;> simp [*]

theorem mode_rebuild (m k : Nat) (h : fmt m = k) : perm m % 4096 + k = m := by
  unfold fmt at h; unfold perm; omega

/-- the state after the optional records equals the expected header: entries that are not hard links -/
theorem final_eq (e : WEntry) (tgt : Option Bytes) (xs : List (Bytes × Bytes)) (n : Nat) (t : UInt8)
    (hE : Encodable e tgt xs) (hh : e.hardLink = false) (ht : entryType e.mode = some t) :
    let bk := decide (fmt e.mode = S_IFLNK ∧ e.size ≥ 100)
    let bl := decide (e.name.length ≥ 100)
    let outX : Decoded := { xattr := xs.reverse }
    let outK : Decoded := if bk then { outX with link := some (cstr ((tgt.getD []).take e.size)) } else outX
    let outL : Decoded := if bl then { outK with name := some (cstr e.name) } else outK
    let size := if fmt e.mode = S_IFREG then e.size else 0
    { decodedMain (field 100 ((mainName e n).take 99)) (linkField e (mainSlink e tgt)) (perm e.mode) e.uid e.gid size
        (if fmt e.mode = S_IFCHR ∨ fmt e.mode = S_IFBLK then sext32 e.devMajor else 0)
        (if fmt e.mode = S_IFCHR ∨ fmt e.mode = S_IFBLK then sext32 e.devMinor else 0) e.mtime t (nlMask bl bk) outL
      with actualSize := size } = decodedOf e tgt xs.reverse := by
  intro bk bl outX outK outL size
  have hname : (if bl then some (cstr e.name) else some (strn (field 100 ((mainName e n).take 99)))) = some e.name := by
    by_cases hn : e.name.length ≥ 100
    · simp only [bl, hn, decide_true, if_true, cstr_clean _ hE.nameNul]
    · have : mainName e n = e.name := by simp [mainName, hn]
      simp only [bl, hn, decide_false, Bool.false_eq_true, if_false, this]
      rw [List.take_of_length_le (by omega), strn_field 100 e.name (by omega) hE.nameNul]
  have htake : ∀ x ∈ (tgt.getD []).take e.size, x ≠ 0 := fun x hx => hE.tgtNul x (List.mem_of_mem_take hx)
  have hsx1 : sext32 e.devMajor % 4294967296 = e.devMajor := by
    have := hE.dev.1; simp only [sext32]; rw [if_neg (by omega)]; omega
  have hsx2 : sext32 e.devMinor % 4294967296 = e.devMinor := by
    have := hE.dev.2; simp only [sext32]; rw [if_neg (by omega)]; omega
  rcases entryType_cases e.mode t ht with ⟨hf, rfl⟩ | ⟨hf, rfl⟩ | ⟨hf, rfl⟩ | ⟨hf, rfl⟩ | ⟨hf, rfl⟩ | ⟨hf, rfl⟩
  · have hnl : ¬ (fmt e.mode = S_IFLNK) := by rw [hf]; decide
    have hbk : bk = false := by simp [bk, hnl]
    simp only [outL, outK, outX, hbk, Bool.false_eq_true, if_false]
    unfold decodedMain decodedOf
    simp only [hh, hf, nlMask_name, nlMask_link, Bool.false_eq_true, if_false]
    have hm := mode_rebuild e.mode _ hf
    cases hbl : bl <;> simp [hbl, size, hf, hsx1, hsx2, hm] at hname ⊢ <;> exact hname
  · have hnl : ¬ (fmt e.mode = S_IFLNK) := by rw [hf]; decide
    have hbk : bk = false := by simp [bk, hnl]
    simp only [outL, outK, outX, hbk, Bool.false_eq_true, if_false]
    unfold decodedMain decodedOf
    simp only [hh, hf, nlMask_name, nlMask_link, Bool.false_eq_true, if_false]
    have hm := mode_rebuild e.mode _ hf
    cases hbl : bl <;> simp [hbl, size, hf, hsx1, hsx2, hm] at hname ⊢ <;> exact hname
  · -- symbolic link
    unfold decodedMain decodedOf
    simp only [hh, hf, nlMask_name, nlMask_link, Bool.false_eq_true, if_false]
    by_cases h100 : e.size ≥ 100
    · have hbk : bk = true := by simp [bk, hf, h100]
      simp only [outL, outK, outX, hbk, if_true]
      cases hbl : bl <;> simp [hbl, size, hf, cstr_clean _ htake] at hname ⊢ <;> exact hname
    · have hbk : bk = false := by simp [bk, h100]
      have hms : mainSlink e tgt = tgt := by simp [mainSlink, hf, h100]
      have hlink : strn (linkField e tgt) = (tgt.getD []).take e.size := by
        cases tgt with
        | none => simp [linkField, strn_zeros]
        | some tg =>
          simp only [linkField, Option.getD_some]
          exact strn_field 100 _ (by rw [List.length_take]; omega) (by simpa using htake)
      simp only [outL, outK, outX, hbk, Bool.false_eq_true, if_false, hms]
      cases hbl : bl <;> simp [hbl, size, hf, hlink] at hname ⊢ <;> exact hname
  · have hnl : ¬ (fmt e.mode = S_IFLNK) := by rw [hf]; decide
    have hbk : bk = false := by simp [bk, hnl]
    simp only [outL, outK, outX, hbk, Bool.false_eq_true, if_false]
    unfold decodedMain decodedOf
    simp only [hh, hf, nlMask_name, nlMask_link, Bool.false_eq_true, if_false]
    have hm := mode_rebuild e.mode _ hf
    cases hbl : bl <;> simp [hbl, size, hf, hsx1, hsx2, hm] at hname ⊢ <;> exact hname
  · have hnl : ¬ (fmt e.mode = S_IFLNK) := by rw [hf]; decide
    have hbk : bk = false := by simp [bk, hnl]
    simp only [outL, outK, outX, hbk, Bool.false_eq_true, if_false]
    unfold decodedMain decodedOf
    simp only [hh, hf, nlMask_name, nlMask_link, Bool.false_eq_true, if_false]
    have hm := mode_rebuild e.mode _ hf
    cases hbl : bl <;> simp [hbl, size, hf, hsx1, hsx2, hm] at hname ⊢ <;> exact hname
  · have hnl : ¬ (fmt e.mode = S_IFLNK) := by rw [hf]; decide
    have hbk : bk = false := by simp [bk, hnl]
    simp only [outL, outK, outX, hbk, Bool.false_eq_true, if_false]
    unfold decodedMain decodedOf
    simp only [hh, hf, nlMask_name, nlMask_link, Bool.false_eq_true, if_false]
    have hm := mode_rebuild e.mode _ hf
    cases hbl : bl <;> simp [hbl, size, hf, hsx1, hsx2, hm] at hname ⊢ <;> exact hname

theorem opt_length (b : Bool) (r : Bytes) (h : 512 ≤ r.length) : 512 * nrec b ≤ (if b then r else []).length := by
  cases b <;> simp [nrec, h]

theorem mask_after (bl bk : Bool) :
    (if bl then setFlag (if bk then setFlag 0 PAX_SLINK_TARGET else 0) PAX_NAME else (if bk then setFlag 0 PAX_SLINK_TARGET else 0)) =
      nlMask bl bk := by
  cases bl <;> cases bk <;> decide

/-- **header round trip, entries that are not hard links** -/
theorem readHeader_written (e : WEntry) (tgt : Option Bytes) (xs : List (Bytes × Bytes)) (n : Nat) (rest : Bytes) (t : UInt8)
    (hE : Encodable e tgt xs) (hh : e.hardLink = false) (ht : entryType e.mode = some t) (w : Bytes)
    (hw : writeTarHeader e tgt xs n = some w) :
    readHeader (w ++ rest) = .ok (decodedOf e tgt xs.reverse) rest := by
  rw [writeTarHeader_shape e tgt xs n t hh ht] at hw
  have hw := (Option.some.inj hw).symm
  -- names
  generalize hbk : decide (fmt e.mode = S_IFLNK ∧ e.size ≥ 100) = bk at hw
  generalize hbl : decide (e.name.length ≥ 100) = bl at hw
  set pK := (tgt.getD []).take e.size with hpK
  have hfin := final_eq e tgt xs n t hE hh ht
  simp only [hbk, hbl] at hfin
  have hpKlen : pK.length ≤ 65536 := by
    have := hE.tgtLen; simp only [hpK, List.length_take]; omega
  have hpK1 : bk = true → 1 ≤ pK.length := by
    intro hb; rw [← hbk] at hb
    have := of_decide_eq_true hb
    have h2 := hE.slink hh this.1
    simp only [hpK, List.length_take]; omega
  have hL1 : bl = true → 1 ≤ e.name.length := by
    intro hb; rw [← hbl] at hb
    have := of_decide_eq_true hb; omega
  have hdev1 : sext32 e.devMajor < 127 * 2 ^ 56 := by
    have := hE.dev.1; simp only [sext32]; rw [if_neg (by omega)]; omega
  have hdev2 : sext32 e.devMinor < 127 * 2 ^ 56 := by
    have := hE.dev.2; simp only [sext32]; rw [if_neg (by omega)]; omega
  have htf : t ≠ 75 ∧ t ≠ 76 ∧ t ≠ 103 ∧ t ≠ 120 ∧ t ≠ 83 := by
    rcases entryType_cases e.mode t ht with ⟨_, rfl⟩ | ⟨_, rfl⟩ | ⟨_, rfl⟩ | ⟨_, rfl⟩ | ⟨_, rfl⟩ | ⟨_, rfl⟩ <;> decide
  -- the last iteration
  have hmain : ∀ g, 1 ≤ g → ∀ pz, readHeaderLoop {} g (writeHeaderRec e (mainName e n) (mainSlink e tgt) t ++ rest)
      (if bl then { (if bk then { ({ xattr := xs.reverse } : Decoded) with link := some (cstr pK) } else { xattr := xs.reverse })
                    with name := some (cstr e.name) }
       else (if bk then { ({ xattr := xs.reverse } : Decoded) with link := some (cstr pK) } else { xattr := xs.reverse }))
      (if bl then setFlag (if bk then setFlag 0 PAX_SLINK_TARGET else 0) PAX_NAME else (if bk then setFlag 0 PAX_SLINK_TARGET else 0)) pz =
      .ok (decodedOf e tgt xs.reverse) rest := by
    intro g hg pz
    obtain ⟨g', rfl⟩ : ∃ g', g = g' + 1 := ⟨g - 1, by omega⟩
    rw [writeHeaderRec_eq, mask_after]
    rw [loop_main {} g' rest pz _ _ _ _ _ _ _ _ _ _ (field_length _ _) (linkField_length _ _) _ _ (nlMask_only bl bk)
      (by unfold perm; omega) hE.uid hE.gid (by split <;> [exact hE.size; (simp only [U64]; omega)]) hE.mtime
      (by split <;> [exact hdev1; omega]) (by split <;> [exact hdev2; omega]) htf (by cases bl <;> cases bk <;> rfl)]
    rw [← hfin]
  have hK := cps_L e e.name (ascii "gnu/name" ++ decStr n) _ _ _ _ 1 bl hL1 hE.nameLen hmain
  have hX := cps_K e pK (ascii "gnu/target" ++ decStr n) _ _ _ _ (1 + nrec bl) bk hpK1 hpKlen hK
  have hAll := cps_x e xs (ascii "pax/xattr" ++ decStr n) _ _ (1 + nrec bl + nrec bk) hE.keyNul (hE.paxLen hh) hX
  unfold readHeader readHeaderWith
  rw [hw]
  simp only [List.append_assoc]
  apply hAll
  -- fuel
  have l1 := opt_length (!xs.isEmpty) (writeSchilyXattr e (ascii "pax/xattr" ++ decStr n) xs) (writeExtHeader_length _ _ _ _)
  have l2 := opt_length bk (writeExtHeader e pK 75 (ascii "gnu/target" ++ decStr n)) (writeExtHeader_length _ _ _ _)
  have l3 := opt_length bl (writeExtHeader e e.name 76 (ascii "gnu/name" ++ decStr n)) (writeExtHeader_length _ _ _ _)
  have l1' : (if xs.isEmpty then [] else writeSchilyXattr e (ascii "pax/xattr" ++ decStr n) xs).length =
      (if (!xs.isEmpty) then writeSchilyXattr e (ascii "pax/xattr" ++ decStr n) xs else []).length := by
    cases xs.isEmpty <;> rfl
  simp only [List.length_append, l1']
  omega

/-! ### hard links (`write_hard_link`) -/

theorem writeHardLink_shape (e : WEntry) (target : Bytes) (n : Nat) :
    writeHardLink e target n =
      (if decide (target.length ≥ 100) then writeExtHeader e target 75 (ascii "gnu/target" ++ decStr n) else []) ++
      ((if decide (e.name.length ≥ 100) then writeExtHeader e e.name 76 (ascii "gnu/name" ++ decStr n) else []) ++
        hdrBlock (field 100 (if e.name.length ≥ 100 then ascii "gnu/data" ++ decStr n else e.name)) (perm e.mode) e.uid e.gid 0
          e.mtime 49 (field 100 (if target.length ≥ 100 then ascii "hardlink_" ++ decStr n else target)) 0 0) := by
  unfold writeHardLink hdrBlock
  by_cases hk : target.length ≥ 100 <;> by_cases hn : e.name.length ≥ 100 <;>
    simp only [hk, hn, if_true, if_false, decide_true, decide_false, List.append_assoc, List.nil_append, Bool.false_eq_true]

theorem final_eq_hard (e : WEntry) (tgt : Option Bytes) (xs : List (Bytes × Bytes)) (n : Nat)
    (hE : Encodable e tgt xs) (hh : e.hardLink = true) :
    let target := tgt.getD []
    let bk := decide (target.length ≥ 100)
    let bl := decide (e.name.length ≥ 100)
    let outK : Decoded := if bk then { link := some (cstr target) } else {}
    let outL : Decoded := if bl then { outK with name := some (cstr e.name) } else outK
    { decodedMain (field 100 (if e.name.length ≥ 100 then ascii "gnu/data" ++ decStr n else e.name))
        (field 100 (if target.length ≥ 100 then ascii "hardlink_" ++ decStr n else target)) (perm e.mode) e.uid e.gid 0 0 0
        e.mtime 49 (nlMask bl bk) outL with actualSize := 0 } = decodedOf e tgt xs.reverse := by
  intro target bk bl outK outL
  unfold decodedMain decodedOf
  simp only [hh, nlMask_name, nlMask_link, if_true]
  have hp : perm e.mode % 4096 = perm e.mode := by unfold perm; omega
  by_cases hk : target.length ≥ 100 <;> by_cases hn : e.name.length ≥ 100
  · simp [outL, outK, bk, bl, hk, hn, hp, cstr_clean _ hE.nameNul, cstr_clean _ hE.tgtNul, target]
  · have h1 := strn_field 100 e.name (by omega) hE.nameNul
    simp [outL, outK, bk, bl, hk, hn, hp, h1, cstr_clean _ hE.tgtNul, target]
  · have h2 := strn_field 100 target (by omega) hE.tgtNul
    simp [outL, outK, bk, bl, hk, hn, hp, h2, cstr_clean _ hE.nameNul, target]
  · have h1 := strn_field 100 e.name (by omega) hE.nameNul
    have h2 := strn_field 100 target (by omega) hE.tgtNul
    simp [outL, outK, bk, bl, hk, hn, hp, h1, h2, target]

/-- **header round trip, hard links** -/
theorem readHeader_written_hard (e : WEntry) (tgt : Option Bytes) (xs : List (Bytes × Bytes)) (n : Nat) (rest : Bytes)
    (hE : Encodable e tgt xs) (hh : e.hardLink = true) (w : Bytes) (hw : writeTarHeader e tgt xs n = some w) :
    readHeader (w ++ rest) = .ok (decodedOf e tgt xs.reverse) rest := by
  unfold writeTarHeader writeTarHeaderK at hw
  simp only [hh, if_true] at hw
  have hw := (Option.some.inj hw).symm
  rw [writeHardLink_shape] at hw
  have hfin := final_eq_hard e tgt xs n hE hh
  simp only at hfin
  generalize hbk : decide ((tgt.getD []).length ≥ 100) = bk at hw hfin
  generalize hbl : decide (e.name.length ≥ 100) = bl at hw hfin
  have hK1 : bk = true → 1 ≤ (tgt.getD []).length := by
    intro hb; rw [← hbk] at hb; have := of_decide_eq_true hb; omega
  have hL1 : bl = true → 1 ≤ e.name.length := by
    intro hb; rw [← hbl] at hb; have := of_decide_eq_true hb; omega
  have hmain : ∀ g, 1 ≤ g → ∀ pz, readHeaderLoop {} g
      (hdrBlock (field 100 (if e.name.length ≥ 100 then ascii "gnu/data" ++ decStr n else e.name)) (perm e.mode) e.uid e.gid 0
          e.mtime 49 (field 100 (if (tgt.getD []).length ≥ 100 then ascii "hardlink_" ++ decStr n else tgt.getD [])) 0 0 ++ rest)
      (if bl then { (if bk then { ({} : Decoded) with link := some (cstr (tgt.getD [])) } else {}) with name := some (cstr e.name) }
       else (if bk then { ({} : Decoded) with link := some (cstr (tgt.getD [])) } else {}))
      (if bl then setFlag (if bk then setFlag 0 PAX_SLINK_TARGET else 0) PAX_NAME else (if bk then setFlag 0 PAX_SLINK_TARGET else 0)) pz =
      .ok (decodedOf e tgt xs.reverse) rest := by
    intro g hg pz
    obtain ⟨g', rfl⟩ : ∃ g', g = g' + 1 := ⟨g - 1, by omega⟩
    rw [mask_after]
    rw [loop_main {} g' rest pz _ _ _ _ _ _ _ _ _ _ (field_length _ _) (field_length _ _) _ _ (nlMask_only bl bk)
      (by unfold perm; omega) hE.uid hE.gid (by simp only [U64]; omega) hE.mtime (by omega) (by omega) (by decide)
      (by cases bl <;> cases bk <;> rfl)]
    rw [← hfin]
  have hK := cps_L e e.name (ascii "gnu/name" ++ decStr n) _ _ _ _ 1 bl hL1 hE.nameLen hmain
  have hX := cps_K e (tgt.getD []) (ascii "gnu/target" ++ decStr n) _ {} 0 _ (1 + nrec bl) bk hK1 hE.tgtLen hK
  unfold readHeader readHeaderWith
  rw [hw]
  simp only [List.append_assoc]
  apply hX
  have l2 := opt_length bk (writeExtHeader e (tgt.getD []) 75 (ascii "gnu/target" ++ decStr n)) (writeExtHeader_length _ _ _ _)
  have l3 := opt_length bl (writeExtHeader e e.name 76 (ascii "gnu/name" ++ decStr n)) (writeExtHeader_length _ _ _ _)
  simp only [List.length_append]
  omega

end Sqfs.Tar
