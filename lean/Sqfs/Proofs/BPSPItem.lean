/-
C02, `packRef = specPack`, part 8: the items of one file.  A data block the front end submits, worked by the pool, is what
`Pack.workData` says (`item_rel`, from `worker_eq_workData`); the fragment pass numbers it and the writer pass stores it
(`data_sim`, `datas_sim`).  The tail end submitted as a fragment is a hole or carries `Pack.cksumOf` (`frag_item`).
-/
import Sqfs.Proofs.BPSPStore
import Sqfs.Proofs.BPSPEff
import Sqfs.Proofs.BPSPFront
namespace Sqfs.BlockProc
open Sqfs.Consts
open Sqfs.BlockWriter (hasFlag)

/-- flag words of the blocks of a file with user flags `fl` -/
structure ItemFlags (g fl : Nat) : Prop where
  nsp : hasFlag g blkIsSparse = false
  ncomp : hasFlag g blkIsCompressed = false
  nfb : hasFlag g blkFragmentBlock = false
  ofNat : Sqfs.Pack.Flags.ofNat g = Sqfs.Pack.Flags.ofNat fl
  dd : hasFlag g blkDontDeduplicate = hasFlag fl blkDontDeduplicate
  dc : hasFlag g blkDontCompress = hasFlag fl blkDontCompress

theorem itemFlags_plain : ∀ fl, fl < 32 → ItemFlags fl fl := by
  intro fl h; exact ⟨by revert fl; decide, by revert fl; decide, by revert fl; decide, rfl, rfl, rfl⟩
theorem itemFlags_first : ∀ fl, fl < 32 → ItemFlags (fl ||| blkFirstBlock) fl := by
  intro fl h; refine ⟨?_, ?_, ?_, ?_, ?_, ?_⟩ <;> revert fl <;> decide
theorem itemFlags_last : ∀ fl, fl < 32 → ItemFlags (fl ||| blkLastBlock) fl := by
  intro fl h; refine ⟨?_, ?_, ?_, ?_, ?_, ?_⟩ <;> revert fl <;> decide
theorem itemFlags_first_last : ∀ fl, fl < 32 → ItemFlags (fl ||| blkFirstBlock ||| blkLastBlock) fl := by
  intro fl h; refine ⟨?_, ?_, ?_, ?_, ?_, ?_⟩ <;> revert fl <;> decide
theorem itemFlags_frag : ∀ fl, fl < 32 → ItemFlags (fl ||| blkIsFragment) fl := by
  intro fl h; refine ⟨?_, ?_, ?_, ?_, ?_, ?_⟩ <;> revert fl <;> decide
theorem itemFlags_first_frag : ∀ fl, fl < 32 → ItemFlags (fl ||| blkFirstBlock ||| blkIsFragment) fl := by
  intro fl h; refine ⟨?_, ?_, ?_, ?_, ?_, ?_⟩ <;> revert fl <;> decide

theorem encode_cases (P' : Sqfs.Pack.Params) (dc : Bool) (ck : UInt32) (d : Bytes) :
    ((Sqfs.Pack.encode P' dc ck d).raw = true ∧ (Sqfs.Pack.encode P' dc ck d).data = d) ∨
    ((Sqfs.Pack.encode P' dc ck d).raw = false ∧ P'.codec.cmp d = some (Sqfs.Pack.encode P' dc ck d).data) := by
  unfold Sqfs.Pack.encode
  split
  · exact Or.inl ⟨rfl, rfl⟩
  · split
    · rename_i z hz; exact Or.inr ⟨rfl, hz⟩
    · exact Or.inl ⟨rfl, rfl⟩

/-- a worked data block of a file is `workData` of its bytes -/
theorem item_rel (P : Params) (hc : CodecOk P.codec) (hpos : ∀ x z, P.codec.cmp x = some z → 0 < z.length) (hB : P.B < 2 ^ 24)
    (fl : Nat) (item : Blk) (hg : ItemFlags item.flags fl) (hnf : hasFlag item.flags blkIsFragment = false)
    (hne : item.data ≠ []) (hsz : item.data.length ≤ P.B) :
    BlkRel (processBlock P item) (some (Sqfs.Pack.workData (toPackParams P) (Sqfs.Pack.Flags.ofNat fl) item.data)) := by
  have hw := worker_eq_workData P hpos item hne hnf hg.nfb
  rw [hg.ofNat] at hw
  cases hwd : Sqfs.Pack.workData (toPackParams P) (Sqfs.Pack.Flags.ofNat fl) item.data with
  | sparse n =>
    rw [hwd] at hw
    obtain ⟨h1, h2, h3⟩ := hw
    exact ⟨by rw [h3]; exact hne, h1, by rw [h3]; exact h2⟩
  | stored st =>
    rw [hwd] at hw
    obtain ⟨h1, h2, h3⟩ := hw
    have hst : st = Sqfs.Pack.encode (toPackParams P) (Sqfs.Pack.Flags.ofNat fl).dontCompress
        (Sqfs.Pack.cksumOf (toPackParams P) (Sqfs.Pack.Flags.ofNat fl) item.data) item.data := by
      unfold Sqfs.Pack.workData at hwd
      split at hwd
      · cases hwd
      · exact (Sqfs.Pack.Worked.stored.inj hwd).symm
    have hcases := encode_cases (toPackParams P) (Sqfs.Pack.Flags.ofNat fl).dontCompress
        (Sqfs.Pack.cksumOf (toPackParams P) (Sqfs.Pack.Flags.ofNat fl) item.data) item.data
    rw [← hst] at hcases
    have hdata : st.data ≠ [] ∧ st.data.length < 2 ^ 24 := by
      rcases hcases with ⟨_, hd⟩ | ⟨_, hd⟩
      · rw [hd]; exact ⟨hne, by omega⟩
      · have hd' : P.codec.cmp item.data = some st.data := hd
        have h1 := hpos _ _ hd'
        have h2 := hc.smaller _ _ hd'
        exact ⟨fun h => by rw [h] at h1; simp at h1, by omega⟩
    refine ⟨by rw [h2]; exact hdata.1, ?_, h2, h3, ?_, hdata.2⟩
    · rw [h1]; split
      · exact hg.nsp
      · rw [hasFlag_or, hg.nsp]; decide
    · rw [h1]
      cases hr : st.raw
      · simp only [Bool.false_eq_true, if_false, Bool.not_false]; rw [hasFlag_or]; simp; right; decide
      · simp only [if_true, Bool.not_true]; exact hg.ncomp

/-- the tail end submitted as a fragment: a hole, or hashed and left alone -/
theorem frag_item (P : Params) (fl : Nat) (item : Blk) (hg : ItemFlags item.flags fl)
    (hf : hasFlag item.flags blkIsFragment = true) (hne : item.data ≠ []) :
    processBlock P item =
      if !(Sqfs.Pack.Flags.ofNat fl).ignoreSparse && Sqfs.Pack.allZero item.data then { item with flags := item.flags ||| blkIsSparse }
      else { item with chk := Sqfs.Pack.cksumOf (toPackParams P) (Sqfs.Pack.Flags.ofNat fl) item.data } := by
  have h0 : ¬ item.data.length = 0 := fun h => hne (by simpa using h)
  have hign : hasFlag item.flags (blkIgnoreSparse ||| blkFragmentBlock) = (Sqfs.Pack.Flags.ofNat fl).ignoreSparse := by
    rw [hasFlag_or_right, hg.nfb, Bool.or_false, ← hg.ofNat]; rfl
  have hfc : hasFlag item.flags (blkIsFragment ||| blkDontCompress) = true := by
    rw [hasFlag_or_right, hf, Bool.true_or]
  have hdh : hasFlag item.flags blkDontHash = (Sqfs.Pack.Flags.ofNat fl).dontHash := by rw [← hg.ofNat]; rfl
  unfold processBlock
  rw [if_neg h0, hign, allZero_eq]
  split
  · rfl
  · simp only [hfc, if_true, hdh, Sqfs.Pack.cksumOf, toPackParams]

/-! ### a block of a file through both passes -/

/-- a worked block of a file (data block or sentinel): numbered, then written -/
theorem data_sim {P : Params} {F : FSt} {W : WSt} {σ : Sqfs.Pack.State} (h : Sim P F W σ) {hs mine : List Sqfs.Pack.Stored}
    (hσ : σ.hist = hs ++ mine) (b : Blk) (ow : Option Sqfs.Pack.Worked) (hrel : BlkRel b ow)
    (hnfb : hasFlag b.flags blkFragmentBlock = false) (hnf : hasFlag b.flags blkIsFragment = false) (id j : Nat)
    (hino : b.inode = some id) (hidx : b.index = j)
    (hfs : isFirst b = false → W.wr.fileStart = hs.length) (hfirst : isFirst b = true → mine = []) :
    (fStep P F b).effs = F.effs ∧
    ∃ W',
      (isLast b = false → Sim P (fStep P F b) W' { σ with hist := hs ++ (mine ++ storedOf ow) } ∧ W'.wr.fileStart = hs.length ∧
         W'.effs = W.effs ++ effOf id j ow) ∧
      (isLast b = true →
         Sim P (fStep P F b) W'
           { σ with hist := (Sqfs.Pack.placeBlocks P.pre.length (hasFlag b.flags blkDontDeduplicate) hs (mine ++ storedOf ow)).1 } ∧
         W'.effs = W.effs ++ (effOf id j ow ++
           [⟨id, .start (Sqfs.Pack.placeBlocks P.pre.length (hasFlag b.flags blkDontDeduplicate) hs (mine ++ storedOf ow)).2.1⟩])) := by
  rw [fStep_data P F b hnf]
  refine ⟨rfl, ?_⟩
  have hw := h.w
  rw [hσ] at hw
  obtain ⟨W', hstep, h1, h2⟩ := wStep_gen hw (b.withSeq F.stream.length) ow hrel hnfb id j hino hidx hfs hfirst
  have hrun : wRun { wr := BlockWriter.init P.pre } (F.stream ++ [b.withSeq F.stream.length]) = .ok W' := by
    rw [wRun_snoc, h.run]; exact hstep
  refine ⟨W', fun hl => ?_, fun hl => ?_⟩
  · obtain ⟨a, b', c⟩ := h1 hl
    exact ⟨⟨hrun, a, (h.f.hist _).congr rfl rfl rfl rfl⟩, b', c⟩
  · obtain ⟨a, c⟩ := h2 hl
    exact ⟨⟨hrun, a, (h.f.hist _).congr rfl rfl rfl rfl⟩, c⟩

/-! ### the full blocks of a file -/

theorem filterMap_cons_stored (w : Sqfs.Pack.Worked) (ws : List Sqfs.Pack.Worked) :
    storedOf (some w) ++ ws.filterMap Sqfs.Pack.Worked.stored? = (w :: ws).filterMap Sqfs.Pack.Worked.stored? := by
  cases w <;> rfl

theorem user_flag_facts : ∀ fl, fl < 32 →
    hasFlag fl blkIsFragment = false ∧ hasFlag fl blkLastBlock = false ∧ hasFlag fl blkFirstBlock = false ∧
    hasFlag (fl ||| blkFirstBlock) blkIsFragment = false ∧ hasFlag (fl ||| blkFirstBlock) blkLastBlock = false ∧
    hasFlag (fl ||| blkFirstBlock) blkFirstBlock = true := by decide

structure DataItemFacts (fl j : Nat) (g : Nat) : Prop where
  flags : ItemFlags g fl
  nfrag : hasFlag g blkIsFragment = false
  nlast : hasFlag g blkLastBlock = false
  first : hasFlag g blkFirstBlock = decide (j = 0)

theorem dataItem_facts (fl id j : Nat) (d : Bytes) (hfl : fl < 32) : DataItemFacts fl j (dataItem fl id j d).flags := by
  obtain ⟨a1, a2, a3, b1, b2, b3⟩ := user_flag_facts fl hfl
  unfold dataItem
  by_cases hj : j = 0
  · simp only [hj, if_true]
    exact ⟨itemFlags_first fl hfl, b1, b2, by simp [b3]⟩
  · simp only [hj, if_false]
    exact ⟨itemFlags_plain fl hfl, a1, a2, by simp [a3, hj]⟩

theorem fRun_cons (P : Params) (F : FSt) (x : Blk) (xs : List Blk) : fRun P F (x :: xs) = fRun P (fStep P F x) xs := rfl

theorem fRun_nil (P : Params) (F : FSt) : fRun P F [] = F := rfl

theorem fRun_append (P : Params) (F : FSt) (a b : List Blk) : fRun P F (a ++ b) = fRun P (fRun P F a) b := by
  simp [fRun, List.foldl_append]

theorem state_hist_self (σ : Sqfs.Pack.State) (H : List Sqfs.Pack.Stored) (h : σ.hist = H) : { σ with hist := H } = σ := by
  cases σ; simp_all

theorem datas_sim {P : Params} (hc : CodecOk P.codec) (hpos : ∀ x z, P.codec.cmp x = some z → 0 < z.length) (hB : P.B < 2 ^ 24)
    (fl id : Nat) (hfl : fl < 32) : ∀ (xs : List Bytes) (j : Nat) (F : FSt) (W : WSt) (σ : Sqfs.Pack.State)
    (hs mine : List Sqfs.Pack.Stored), Sim P F W σ → σ.hist = hs ++ mine → (∀ d ∈ xs, d ≠ [] ∧ d.length ≤ P.B) →
    (j = 0 → mine = []) → (j ≠ 0 → W.wr.fileStart = hs.length) →
    ∃ W', Sim P (fRun P F ((dataItems fl id j xs).map (processBlock P))) W'
        { σ with hist := hs ++ (mine ++ (xs.map (Sqfs.Pack.workData (toPackParams P) (Sqfs.Pack.Flags.ofNat fl))).filterMap
                                          Sqfs.Pack.Worked.stored?) } ∧
      (j + xs.length ≠ 0 → W'.wr.fileStart = hs.length) ∧
      W'.effs = W.effs ++ dataEffs id j (xs.map (Sqfs.Pack.workData (toPackParams P) (Sqfs.Pack.Flags.ofNat fl))) ∧
      (fRun P F ((dataItems fl id j xs).map (processBlock P))).effs = F.effs := by
  intro xs
  induction xs with
  | nil =>
    intro j F W σ hs mine h hσ _ _ hfs
    refine ⟨W, ?_, fun hj => hfs (by simpa using hj), by simp [dataEffs], rfl⟩
    have : ({ σ with hist := hs ++ (mine ++ ([] : List Sqfs.Pack.Worked).filterMap Sqfs.Pack.Worked.stored?) } : Sqfs.Pack.State) = σ :=
      state_hist_self σ _ (by simp [hσ])
    simp only [List.map_nil]
    rw [this]
    exact h
  | cons d xs ih =>
    intro j F W σ hs mine h hσ hxs hj0 hfs
    obtain ⟨hdne, hdsz⟩ := hxs d List.mem_cons_self
    have hf := dataItem_facts fl id j d hfl
    have hrel := item_rel P hc hpos hB fl (dataItem fl id j d) hf.flags hf.nfrag hdne hdsz
    have hnfb : hasFlag (processBlock P (dataItem fl id j d)).flags blkFragmentBlock = false := by
      rw [processBlock_hasFlag P _ _ stable_fragmentBlock]; exact hf.flags.nfb
    have hnf : hasFlag (processBlock P (dataItem fl id j d)).flags blkIsFragment = false := by
      rw [processBlock_hasFlag P _ _ stable_isFragment]; exact hf.nfrag
    have hfirst : isFirst (processBlock P (dataItem fl id j d)) = decide (j = 0) := by
      unfold isFirst; rw [processBlock_hasFlag P _ _ stable_first]; exact hf.first
    have hlast : isLast (processBlock P (dataItem fl id j d)) = false := by
      unfold isLast; rw [processBlock_hasFlag P _ _ stable_last]; exact hf.nlast
    obtain ⟨heff, W1, h1, _⟩ := data_sim h hσ (processBlock P (dataItem fl id j d)) _ hrel hnfb hnf id j
      (by rw [processBlock_inode]; rfl) (by rw [processBlock_index]; rfl)
      (fun hh => hfs (by rw [hfirst] at hh; simpa using hh)) (fun hh => hj0 (by rw [hfirst] at hh; simpa using hh))
    obtain ⟨hsim1, hfs1, heff1⟩ := h1 hlast
    obtain ⟨W', hsim', hfs', heff', hfe'⟩ := ih (j + 1) _ W1 _ hs _ hsim1 rfl
      (fun d' hd' => hxs d' (List.mem_cons_of_mem _ hd')) (fun hh => by omega) (fun _ => hfs1)
    refine ⟨W', ?_, fun _ => hfs' (by omega), ?_, ?_⟩
    · simp only [dataItems, List.map_cons, fRun_cons]
      rw [← filterMap_cons_stored, ← List.append_assoc mine]
      exact hsim'
    · simp only [List.map_cons, dataEffs]
      rw [heff', heff1, List.append_assoc]
      rfl
    · simp only [dataItems, List.map_cons, fRun_cons]
      rw [hfe', heff]

end Sqfs.BlockProc
