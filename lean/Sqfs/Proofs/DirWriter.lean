/-
Helper lemmas about the model of `dir_writer.c` (`Sqfs/Model/DirWriter.lean`).
-/
import Sqfs.Model.DirWriter
import Sqfs.Proofs.MetaWriter
namespace Sqfs.DirWriter
open Sqfs.Consts
open Sqfs.MetaWriter (Codec St append stream)

theorem sdiff32_self (a : Nat) : sdiff32 a a = 0 := by
  unfold sdiff32
  have h : (a + 4294967296 - a % 4294967296) % 4294967296 = 0 := by omega
  simp [h]

/-- what an accepted entry satisfies w.r.t. the head of its run -/
def Accept (hblk hnum : Nat) (e : DEnt) : Prop :=
  e.inodeRef >>> 16 = hblk ∧ -32767 ≤ sdiff32 e.inodeNum hnum ∧ sdiff32 e.inodeNum hnum ≤ 32767

/-- invariant of the loop of `get_conseq_entry_count` -/
theorem conseqGo_spec (hblk hnum : Nat) (l : List DEnt) : ∀ (size count : Nat), count < maxDirEnt →
    ∃ k, conseqGo hblk hnum size count l = count + k ∧ k ≤ l.length ∧ count + k ≤ maxDirEnt ∧
      (∀ e ∈ l.take k, Accept hblk hnum e) ∧
      (k = 0 ∨ (count = 0 ∧ k = 1) ∨ size + ((l.take k).map entSize).sum ≤ metaBlockSize) := by
  induction l with
  | nil => intro size count hc; exact ⟨0, by simp [conseqGo], by simp, by omega, by simp, Or.inl rfl⟩
  | cons it rest ih =>
    intro size count hc
    unfold conseqGo
    by_cases h1 : it.inodeRef >>> 16 ≠ hblk
    · rw [if_pos h1]; exact ⟨0, by simp, by simp, by omega, by simp, Or.inl rfl⟩
    · rw [if_neg h1]
      by_cases h2 : sdiff32 it.inodeNum hnum > 32767 ∨ sdiff32 it.inodeNum hnum < -32767
      · rw [if_pos h2]; exact ⟨0, by simp, by simp, by omega, by simp, Or.inl rfl⟩
      · rw [if_neg h2]
        have hacc : Accept hblk hnum it := by
          refine ⟨by simpa using h1, ?_, ?_⟩ <;> omega
        by_cases h3 : count > 0 ∧ size + entSize it > metaBlockSize
        · rw [if_pos h3]; exact ⟨0, by simp, by simp, by omega, by simp, Or.inl rfl⟩
        · rw [if_neg h3]
          have hsz : count = 0 ∨ size + entSize it ≤ metaBlockSize := by omega
          by_cases h4 : count + 1 = maxDirEnt
          · rw [if_pos h4]
            refine ⟨1, by omega, by simp, by omega, ?_, ?_⟩
            · intro e he; simp at he; subst he; exact hacc
            · rcases hsz with h | h
              · exact Or.inr (Or.inl ⟨h, rfl⟩)
              · right; right; simpa using h
          · rw [if_neg h4]
            obtain ⟨k, hk1, hk2, hk3, hk4, hk5⟩ := ih (size + entSize it) (count + 1) (by omega)
            refine ⟨k + 1, by omega, by simp; omega, by omega, ?_, ?_⟩
            · intro e he
              simp only [List.take_succ_cons, List.mem_cons] at he
              rcases he with he | he
              · subst he; exact hacc
              · exact hk4 e he
            · rcases hk5 with h | h | h
              · subst h
                rcases hsz with h' | h'
                · exact Or.inr (Or.inl ⟨h', rfl⟩)
                · right; right; simpa using h'
              · omega
              · right; right
                simp only [List.take_succ_cons, List.map_cons, List.sum_cons]
                omega

theorem maxDirEnt_gt_one : 1 < maxDirEnt := by decide

/-- the head itself is always accepted -/
theorem conseqCount_pos (offset : Nat) (head : DEnt) (rest : List DEnt) :
    1 ≤ conseqCount offset (head :: rest) := by
  unfold conseqCount conseqGo
  simp only [ne_eq, not_true_eq_false, if_false, sdiff32_self]
  have h0 : ¬ ((0 : Int) > 32767 ∨ (0 : Int) < -32767) := by omega
  simp only [h0, if_false, Nat.lt_irrefl, gt_iff_lt, false_and]
  have h1 : ¬ (0 + 1 = maxDirEnt) := by decide
  rw [if_neg h1]
  obtain ⟨k, hk, _⟩ := conseqGo_spec (head.inodeRef >>> 16) head.inodeNum rest
    ((offset + sizeofDirHeader) % metaBlockSize + entSize head) (0 + 1) (by decide)
  omega


/-- `get_conseq_entry_count` on a non-empty list: everything the format asks of one header -/
theorem conseqCount_spec (offset : Nat) (head : DEnt) (rest : List DEnt) :
    1 ≤ conseqCount offset (head :: rest) ∧ conseqCount offset (head :: rest) ≤ maxDirEnt ∧
    conseqCount offset (head :: rest) ≤ (head :: rest).length ∧
    (∀ e ∈ (head :: rest).take (conseqCount offset (head :: rest)), Accept (head.inodeRef >>> 16) head.inodeNum e) ∧
    (conseqCount offset (head :: rest) = 1 ∨
      (offset + sizeofDirHeader) % metaBlockSize +
        (((head :: rest).take (conseqCount offset (head :: rest))).map entSize).sum ≤ metaBlockSize) := by
  have hpos := conseqCount_pos offset head rest
  obtain ⟨k, hk1, hk2, hk3, hk4, hk5⟩ := conseqGo_spec (head.inodeRef >>> 16) head.inodeNum (head :: rest)
    ((offset + sizeofDirHeader) % metaBlockSize) 0 (by decide)
  have he : conseqCount offset (head :: rest) = k := by
    show conseqGo _ _ _ 0 (head :: rest) = k
    rw [hk1]; omega
  rw [he] at hpos ⊢
  refine ⟨hpos, by omega, hk2, hk4, ?_⟩
  rcases hk5 with h | h | h
  · omega
  · exact Or.inl h.2
  · exact Or.inr h

/-- what `sqfs_dir_writer_end` guarantees for one emitted header + run -/
def RunOk (r : Run) : Prop :=
  ∃ first tl, r.ents = first :: tl ∧ r.ents.length ≤ maxDirEnt ∧
    r.startBlock = (first.inodeRef >>> 16) % 4294967296 ∧ r.inodeNumber = first.inodeNum ∧
    ∀ e ∈ r.ents, e.inodeRef >>> 16 = first.inodeRef >>> 16 ∧
      -32767 ≤ sdiff32 e.inodeNum r.inodeNumber ∧ sdiff32 e.inodeNum r.inodeNumber ≤ 32767

theorem dirEndGoM_runs_ok (cmp : Codec) : ∀ (fuel : Nat) (st : St) (ds : Nat) (ents : List DEnt),
    ∀ r ∈ (dirEndGoM cmp fuel st ds ents).1, RunOk r := by
  intro fuel
  induction fuel with
  | zero => intro st ds ents r hr; simp [dirEndGoM] at hr
  | succ f ih =>
    intro st ds ents r hr
    cases ents with
    | nil => simp [dirEndGoM] at hr
    | cons first rest =>
      simp only [dirEndGoM, List.mem_cons] at hr
      obtain ⟨h1, h2, h3, h4, _⟩ := conseqCount_spec st.cur.length first rest
      rcases hr with hr | hr
      · subst hr
        obtain ⟨n, hn⟩ : ∃ n, conseqCount st.cur.length (first :: rest) = n + 1 :=
          ⟨conseqCount st.cur.length (first :: rest) - 1, by omega⟩
        refine ⟨first, rest.take n, ?_, ?_, rfl, rfl, ?_⟩
        · simp [hn]
        · simp only [List.length_take]; omega
        · intro e he
          exact h4 e he
      · exact ih _ _ _ r hr

/-- nothing is lost or reordered: the runs, concatenated, are the entry list -/
theorem dirEndGoM_flatten (cmp : Codec) : ∀ (fuel : Nat) (st : St) (ds : Nat) (ents : List DEnt), ents.length < fuel →
    ((dirEndGoM cmp fuel st ds ents).1.map (·.ents)).flatten = ents := by
  intro fuel
  induction fuel with
  | zero => intro st ds ents h; omega
  | succ f ih =>
    intro st ds ents h
    cases ents with
    | nil => simp [dirEndGoM]
    | cons first rest =>
      simp only [dirEndGoM, List.map_cons, List.flatten_cons]
      obtain ⟨h1, _, h3, _, _⟩ := conseqCount_spec st.cur.length first rest
      rw [ih]
      · exact List.take_append_drop _ _
      · simp only [List.length_drop]; simp only [List.length_cons] at h h3 ⊢; omega

/-! ### bytes and positions -/

theorem le16_length (v : Nat) : (le16 v).length = 2 := rfl
theorem le32_length (v : Nat) : (le32 v).length = 4 := rfl

theorem headerBytes_length (c b n : Nat) : (headerBytes c b n).length = sizeofDirHeader := rfl

theorem nodeBytes_length (f : Nat) (e : DEnt) : (nodeBytes f e).length = sizeofDirNode := rfl

theorem encodeEnt_eq (f : Nat) (e : DEnt) : encodeEnt f e = nodeBytes f e ++ e.name := rfl

theorem encodeRun_eq (r : Run) :
    encodeRun r = headerBytes r.ents.length r.startBlock r.inodeNumber ++ (r.ents.map (encodeEnt r.inodeNumber)).flatten := rfl

theorem encodeEnt_length (f : Nat) (e : DEnt) : (encodeEnt f e).length = entSize e := by
  rw [encodeEnt_eq, List.length_append, nodeBytes_length]; rfl

theorem runChunks_flatten (r : Run) : (runChunks r).flatten = encodeRun r := by
  rw [encodeRun_eq]
  unfold runChunks
  simp only [List.flatten_cons]
  congr 1
  induction r.ents with
  | nil => rfl
  | cons e es ih => simp [encodeEnt_eq, ih]

theorem encodeRun_length (r : Run) : (encodeRun r).length = runBytes r.ents := by
  rw [encodeRun_eq]
  unfold runBytes
  rw [List.length_append, headerBytes_length]
  congr 1
  induction r.ents with
  | nil => rfl
  | cons e es ih => simp [encodeEnt_length, ih]

open Sqfs.MetaWriter in
/--
Position bookkeeping of `sqfs_dir_writer_end` on a real meta writer: the writer stays well formed, never touches
blocks it flushed before, the bytes appended are the encoded runs, and for the `k`-th header: `index` is
`dir_size` at that moment = `ds` + the bytes of the runs before it; `block` is the disk size of exactly the blocks
that precede the metadata block in which the header's first byte lies.
-/
theorem dirEndGoM_pos (cmp : Codec) : ∀ (fuel : Nat) (st : St) (ds : Nat) (ents : List DEnt), WF cmp st → ents.length < fuel →
    WF cmp (dirEndGoM cmp fuel st ds ents).2 ∧ Ext st (dirEndGoM cmp fuel st ds ents).2 ∧
    stream (dirEndGoM cmp fuel st ds ents).2 = stream st ++ ((dirEndGoM cmp fuel st ds ents).1.map encodeRun).flatten ∧
    ∀ (k : Nat) (r : Run), (dirEndGoM cmp fuel st ds ents).1[k]? = some r →
      r.index = ds + ((((dirEndGoM cmp fuel st ds ents).1.take k).map encodeRun).flatten).length ∧
      ((stream st).length + (r.index - ds)) / metaBlockSize ≤ (dirEndGoM cmp fuel st ds ents).2.out.length ∧
      r.block = outBytes ((dirEndGoM cmp fuel st ds ents).2.out.take (((stream st).length + (r.index - ds)) / metaBlockSize)) := by
  intro fuel
  induction fuel with
  | zero => intro st ds ents _ h; omega
  | succ f ih =>
    intro st ds ents hwf h
    cases ents with
    | nil => simp [dirEndGoM, hwf, Ext.refl]
    | cons first rest =>
      obtain ⟨c1, _, c3, _, _⟩ := conseqCount_spec st.cur.length first rest
      simp only [dirEndGoM]
      generalize hr0 : (⟨(first :: rest).take (conseqCount st.cur.length (first :: rest)), (first.inodeRef >>> 16) % 4294967296,
        first.inodeNum, ds, st.blockOffset⟩ : Run) = r0
      have hr0e : r0.ents = (first :: rest).take (conseqCount st.cur.length (first :: rest)) := by rw [← hr0]
      have hr0i : r0.index = ds := by rw [← hr0]
      have hr0b : r0.block = st.blockOffset := by rw [← hr0]
      obtain ⟨w1, w2, w3⟩ := foldl_append_wf cmp (runChunks r0) st hwf
      rw [runChunks_flatten] at w3
      generalize (runChunks r0).foldl (append cmp) st = st' at w1 w2 w3
      obtain ⟨i1, i2, i3, i4⟩ := ih st' (ds + runBytes ((first :: rest).take (conseqCount st.cur.length (first :: rest))))
        ((first :: rest).drop (conseqCount st.cur.length (first :: rest))) w1
        (by simp only [List.length_drop]; simp only [List.length_cons] at h c3 ⊢; omega)
      rw [← hr0e] at i1 i2 i3 i4 ⊢
      generalize dirEndGoM cmp f st' (ds + runBytes r0.ents)
        ((first :: rest).drop (conseqCount st.cur.length (first :: rest))) = next at i1 i2 i3 i4 ⊢
      refine ⟨i1, Ext.trans w2 i2, ?_, ?_⟩
      · rw [i3, w3]; simp [List.append_assoc]
      · intro k r hk
        cases k with
        | zero =>
          simp only [List.getElem?_cons_zero, Option.some.injEq] at hk
          subst hk
          have hlen : st.out.length = (stream st).length / metaBlockSize := hwf.blocks
          have hext := (Ext.trans w2 i2).take
          obtain ⟨bs, hbs⟩ := Ext.trans w2 i2
          refine ⟨by simp [hr0i], ?_, ?_⟩
          · rw [hr0i, Nat.sub_self, Nat.add_zero, ← hlen, hbs]; simp
          · rw [hr0i, Nat.sub_self, Nat.add_zero, ← hlen, hext, hr0b]; exact hwf.off
        | succ j =>
          simp only [List.getElem?_cons_succ] at hk
          obtain ⟨j1, j2, j3⟩ := i4 j r hk
          have hsl : (stream st').length = (stream st).length + runBytes r0.ents := by
            rw [w3, List.length_append, encodeRun_length]
          have hge : ds + runBytes r0.ents ≤ r.index := by omega
          have hpos : (stream st').length + (r.index - (ds + runBytes r0.ents)) = (stream st).length + (r.index - ds) := by
            omega
          rw [hpos] at j2 j3
          refine ⟨?_, j2, j3⟩
          rw [j1]
          simp only [List.take_succ_cons, List.map_cons, List.flatten_cons, List.length_append, encodeRun_length]
          omega

/-! #### the same two facts for the coarser model `dirEnd blkCost` (users: C01) -/

theorem dirEndGo_runs_ok (c : Nat) : ∀ (fuel blk off ds : Nat) (ents : List DEnt),
    ∀ r ∈ dirEndGo c fuel blk off ds ents, RunOk r := by
  intro fuel
  induction fuel with
  | zero => intro blk off ds ents r hr; simp [dirEndGo] at hr
  | succ f ih =>
    intro blk off ds ents r hr
    cases ents with
    | nil => simp [dirEndGo] at hr
    | cons first rest =>
      simp only [dirEndGo, List.mem_cons] at hr
      obtain ⟨h1, h2, h3, h4, _⟩ := conseqCount_spec off first rest
      rcases hr with hr | hr
      · subst hr
        obtain ⟨n, hn⟩ : ∃ n, conseqCount off (first :: rest) = n + 1 := ⟨conseqCount off (first :: rest) - 1, by omega⟩
        refine ⟨first, rest.take n, ?_, ?_, rfl, rfl, ?_⟩
        · simp [hn]
        · simp only [List.length_take]; omega
        · intro e he
          exact h4 e he
      · exact ih _ _ _ _ r hr

/-- nothing is lost or reordered: the runs, concatenated, are the entry list -/
theorem dirEndGo_flatten (c : Nat) : ∀ (fuel blk off ds : Nat) (ents : List DEnt), ents.length < fuel →
    ((dirEndGo c fuel blk off ds ents).map (·.ents)).flatten = ents := by
  intro fuel
  induction fuel with
  | zero => intro blk off ds ents h; omega
  | succ f ih =>
    intro blk off ds ents h
    cases ents with
    | nil => simp [dirEndGo]
    | cons first rest =>
      simp only [dirEndGo, List.map_cons, List.flatten_cons]
      obtain ⟨h1, _, h3, _, _⟩ := conseqCount_spec off first rest
      rw [ih]
      · exact List.take_append_drop _ _
      · simp only [List.length_drop]; simp only [List.length_cons] at h h3 ⊢; omega

/-- the 16-bit field written for an accepted entry decodes (as s16, added to the header's number) to the
entry's inode number (in the reader's 32-bit arithmetic): "inode-number deltas fit in 16 bits" -/
theorem delta_roundtrip (num first : Nat) (hn : num < 4294967296) (hf : first < 4294967296)
    (h1 : -32767 ≤ sdiff32 num first) (h2 : sdiff32 num first ≤ 32767) :
    let d16 := (num + 4294967296 - first % 4294967296) % 65536
    ((first : Int) + (if d16 < 32768 then (d16 : Int) else (d16 : Int) - 65536)) % 4294967296 = num := by
  unfold sdiff32 at h1 h2
  rw [Nat.mod_eq_of_lt hf] at h1 h2 ⊢
  generalize hx : num + 4294967296 - first = x at h1 h2 ⊢
  have hx' : x + first = num + 4294967296 := by omega
  simp only at h1 h2 ⊢
  by_cases hc : x % 4294967296 < 2147483648
  · rw [if_pos hc] at h1 h2; split <;> omega
  · rw [if_neg hc] at h1 h2; split <;> omega

/-! ### export table -/

theorem addExport_length (t : List Nat) (n r : Nat) (hn : 1 ≤ n) : (addExport t n r).length = max t.length n := by
  unfold addExport
  simp only [List.length_set]
  split
  · simp only [List.length_append, List.length_replicate]; omega
  · omega

theorem addExport_get (t : List Nat) (n r i : Nat) (hn : 1 ≤ n) :
    (addExport t n r)[i]? =
      if i = n - 1 then some r else if i < t.length then t[i]? else if i < n then some exportUnset else none := by
  unfold addExport
  by_cases hg : n - 1 ≥ t.length
  · simp only [hg, if_true]
    by_cases hi : i = n - 1
    · subst hi
      rw [List.getElem?_set_self (by simp only [List.length_append, List.length_replicate]; omega)]
      simp
    · rw [if_neg hi, List.getElem?_set_ne (Ne.symm hi)]
      by_cases hl : i < t.length
      · rw [if_pos hl, List.getElem?_append_left hl]
      · rw [if_neg hl, List.getElem?_append_right (by omega), List.getElem?_replicate]
        by_cases hn' : i < n
        · rw [if_pos hn', if_pos (by omega)]
        · rw [if_neg hn', if_neg (by omega)]
  · simp only [hg, if_false]
    by_cases hi : i = n - 1
    · subst hi
      rw [List.getElem?_set_self (by omega)]
      simp
    · rw [if_neg hi, List.getElem?_set_ne (Ne.symm hi)]
      by_cases hl : i < t.length
      · rw [if_pos hl]
      · rw [if_neg hl, List.getElem?_eq_none (by omega)]
        rw [if_neg (by omega)]

/-- largest inode number among the adds (0 if none) -/
def maxNum (adds : List (Nat × Nat)) : Nat := adds.foldl (fun m a => max m a.1) 0

/-- what a table holds after the adds `L` when inode `m` always comes with reference `ref m` -/
def ExportOk (ref : Nat → Nat) (L : List (Nat × Nat)) (t : List Nat) : Prop :=
  t.length = maxNum L ∧ ∀ i, i < t.length → t[i]? = some (if i + 1 ∈ L.map (·.1) then ref (i + 1) else exportUnset)

theorem maxNum_snoc (L : List (Nat × Nat)) (a : Nat × Nat) : maxNum (L ++ [a]) = max (maxNum L) a.1 := by
  simp [maxNum, List.foldl_append]

theorem exportOk_step (ref : Nat → Nat) (L : List (Nat × Nat)) (t : List Nat) (a : Nat × Nat) (h : ExportOk ref L t)
    (ha : 1 ≤ a.1) (hr : a.2 = ref a.1) : ExportOk ref (L ++ [a]) (addExport t a.1 a.2) := by
  obtain ⟨h1, h2⟩ := h
  refine ⟨by rw [addExport_length _ _ _ ha, maxNum_snoc, h1], ?_⟩
  intro i hi
  rw [addExport_length _ _ _ ha] at hi
  rw [addExport_get _ _ _ _ ha]
  simp only [List.map_append, List.map_cons, List.map_nil, List.mem_append, List.mem_singleton]
  by_cases hia : i = a.1 - 1
  · rw [if_pos hia]
    have : i + 1 = a.1 := by omega
    simp [this, hr]
  · rw [if_neg hia]
    have hne : ¬ (i + 1 = a.1) := by omega
    by_cases hl : i < t.length
    · rw [if_pos hl, h2 i hl]; simp only [hne, or_false]
    · rw [if_neg hl, if_pos (by omega)]
      have hnm : ¬ (i + 1 ∈ L.map (·.1)) := by
        intro hm
        -- every number in L is at most maxNum L = t.length
        have : ∀ (L : List (Nat × Nat)) (m0 : Nat) (x : Nat), x ∈ L.map (·.1) → x ≤ L.foldl (fun m a => max m a.1) m0 := by
          intro L
          induction L with
          | nil => intro m0 x hx; simp at hx
          | cons b bs ih =>
            intro m0 x hx
            simp only [List.map_cons, List.mem_cons] at hx
            simp only [List.foldl_cons]
            rcases hx with hx | hx
            · subst hx
              have hmono : ∀ (bs : List (Nat × Nat)) (m0 : Nat), m0 ≤ bs.foldl (fun m a => max m a.1) m0 := by
                intro bs
                induction bs with
                | nil => intro m0; simp
                | cons c cs ihc => intro m0; simp only [List.foldl_cons]; exact Nat.le_trans (Nat.le_max_left _ _) (ihc _)
              exact Nat.le_trans (Nat.le_max_right _ _) (hmono bs _)
            · exact ih _ x hx
        have := this L 0 (i + 1) hm
        unfold maxNum at h1
        omega
      simp [hnm, hne]

theorem exportOk_fold (ref : Nat → Nat) : ∀ (adds L : List (Nat × Nat)) (t : List Nat), ExportOk ref L t →
    (∀ a ∈ adds, 1 ≤ a.1 ∧ a.2 = ref a.1) →
    ExportOk ref (L ++ adds) (adds.foldl (fun t a => addExport t a.1 a.2) t) := by
  intro adds
  induction adds with
  | nil => intro L t h _; simpa using h
  | cons a as ih =>
    intro L t h ha
    simp only [List.foldl_cons]
    have := ih (L ++ [a]) _ (exportOk_step ref L t a h (ha a List.mem_cons_self).1 (ha a List.mem_cons_self).2)
      (fun b hb => ha b (List.mem_cons_of_mem _ hb))
    simpa [List.append_assoc] using this

/-! ### the coarser `dirEnd blkCost` is `dirEndM` for a compressor that never shrinks -/

open Sqfs.MetaWriter in
/-- under a compressor that never shrinks every flushed block occupies 8192 + 2 bytes -/
theorem raw_outBytes (st : St) (hi : Inv (fun _ => none) st) : outBytes st.out = 8194 * st.out.length := by
  have h : ∀ (bs : List Block), (∀ b ∈ bs, b.raw.length = metaBlockSize) → (∀ b ∈ bs, Made (fun _ => none) b) →
      outBytes bs = 8194 * bs.length := by
    intro bs
    induction bs with
    | nil => intro _ _; rfl
    | cons b bs ih =>
      intro hf hm
      rw [outBytes_cons, ih (fun x hx => hf x (List.mem_cons_of_mem _ hx)) (fun x hx => hm x (List.mem_cons_of_mem _ hx))]
      have hb := hm b List.mem_cons_self
      have hl := hf b List.mem_cons_self
      have : b.stored = b.raw := by
        cases hc : b.compressed with
        | false => exact hb.2 hc
        | true => have := (hb.1 hc).1; simp at this
      rw [this, hl, mb_eq, List.length_cons]; omega
  exact h st.out hi.full hi.made

open Sqfs.MetaWriter in
theorem dirEndGo_eq_dirEndGoM : ∀ (fuel : Nat) (st : St) (ds : Nat) (ents : List DEnt), WF (fun _ => none) st →
    dirEndGo 8194 fuel st.blockOffset st.cur.length ds ents = (dirEndGoM (fun _ => none) fuel st ds ents).1 := by
  intro fuel
  induction fuel with
  | zero => intro st ds ents _; rfl
  | succ f ih =>
    intro st ds ents hwf
    cases ents with
    | nil => rfl
    | cons first rest =>
      simp only [dirEndGo, dirEndGoM]
      generalize hr0 : (⟨(first :: rest).take (conseqCount st.cur.length (first :: rest)), (first.inodeRef >>> 16) % 4294967296,
        first.inodeNum, ds, st.blockOffset⟩ : Run) = r0
      have hr0e : r0.ents = (first :: rest).take (conseqCount st.cur.length (first :: rest)) := by rw [← hr0]
      obtain ⟨w1, _, w3⟩ := foldl_append_wf (fun _ => none) (runChunks r0) st hwf
      rw [runChunks_flatten] at w3
      -- position after the run
      have hpos : advance 8194 st.blockOffset st.cur.length (runBytes r0.ents) =
          (((runChunks r0).foldl (append (fun _ => none)) st).blockOffset, ((runChunks r0).foldl (append (fun _ => none)) st).cur.length) := by
        generalize (runChunks r0).foldl (append (fun _ => none)) st = st' at w1 w3
        have hl : (stream st').length = (stream st).length + runBytes r0.ents := by
          rw [w3, List.length_append, encodeRun_length]
        have a1 := hwf.blocks; have a2 := hwf.offset
        have b1 := w1.blocks; have b2 := w1.offset
        have c1 := raw_outBytes st hwf.inv; have c2 := raw_outBytes st' w1.inv
        have d1 : st.blockOffset = outBytes st.out := hwf.off
        have d2 : st'.blockOffset = outBytes st'.out := w1.off
        have hs := inv_stream_length _ st hwf.inv
        unfold advance
        rw [mb_eq] at *
        refine Prod.ext ?_ ?_
        · simp only; rw [d2, c2, b1, hl, d1, c1, a1]; omega
        · simp only; rw [b2, hl, a2]; omega
      rw [← hr0e, hpos]
      simp only
      rw [ih _ _ _ w1]

/-- `dirEnd 8194 blk off` (the model C01 builds on) is the run list of `dirEndM` on any well-formed meta writer at
position `(blk, off)` whose compressor never shrinks -/
theorem dirEnd_eq_dirEndM (st : MetaWriter.St) (ents : List DEnt) (hwf : MetaWriter.WF (fun _ => none) st) :
    dirEnd 8194 st.blockOffset st.cur.length ents = (dirEndM (fun _ => none) st ents).1 :=
  dirEndGo_eq_dirEndGoM _ st 0 ents hwf

end Sqfs.DirWriter
