/-
Helper lemmas about the model of `dir_writer.c` (`Sqfs/Model/DirWriter.lean`).
-/
import Sqfs.Model.DirWriter
namespace Sqfs.DirWriter
open Sqfs.Consts

theorem sdiff32_self (a : Nat) : sdiff32 a a = 0 := by
  unfold sdiff32
  have h : (a + 4294967296 - a % 4294967296) % 4294967296 = 0 := by omega
  simp [h]

/-- what an accepted entry satisfies w.r.t. the head of its run -/
def Accept (hblk hnum : Nat) (e : DEnt) : Prop :=
  e.inodeRef >>> 16 = hblk ∧ -32767 ≤ sdiff32 e.inodeNum hnum ∧ sdiff32 e.inodeNum hnum ≤ 32767

/-- invariant of the loop of `get_conseq_entry_count` -/
theorem conseqGo_spec (hblk hnum : Nat) (l : List DEnt) : ∀ (size count : Nat), count < maxDirEnt →
    ∃ k, conseqGo hblk hnum size count l = count + k ∧ k ≤ l.length ∧ count + k ≤ maxDirEnt ∧
      (∀ e ∈ l.take k, Accept hblk hnum e) ∧
      (k = 0 ∨ (count = 0 ∧ k = 1) ∨ size + ((l.take k).map entSize).sum ≤ metaBlockSize) := by
  induction l with
  | nil => intro size count hc; exact ⟨0, by simp [conseqGo], by simp, by omega, by simp, Or.inl rfl⟩
  | cons it rest ih =>
    intro size count hc
    unfold conseqGo
    by_cases h1 : it.inodeRef >>> 16 ≠ hblk
    · rw [if_pos h1]; exact ⟨0, by simp, by simp, by omega, by simp, Or.inl rfl⟩
    · rw [if_neg h1]
      by_cases h2 : sdiff32 it.inodeNum hnum > 32767 ∨ sdiff32 it.inodeNum hnum < -32767
      · rw [if_pos h2]; exact ⟨0, by simp, by simp, by omega, by simp, Or.inl rfl⟩
      · rw [if_neg h2]
        have hacc : Accept hblk hnum it := by
          refine ⟨by simpa using h1, ?_, ?_⟩ <;> omega
        by_cases h3 : count > 0 ∧ size + entSize it > metaBlockSize
        · rw [if_pos h3]; exact ⟨0, by simp, by simp, by omega, by simp, Or.inl rfl⟩
        · rw [if_neg h3]
          have hsz : count = 0 ∨ size + entSize it ≤ metaBlockSize := by omega
          by_cases h4 : count + 1 = maxDirEnt
          · rw [if_pos h4]
            refine ⟨1, by omega, by simp, by omega, ?_, ?_⟩
            · intro e he; simp at he; subst he; exact hacc
            · rcases hsz with h | h
              · exact Or.inr (Or.inl ⟨h, rfl⟩)
              · right; right; simpa using h
          · rw [if_neg h4]
            obtain ⟨k, hk1, hk2, hk3, hk4, hk5⟩ := ih (size + entSize it) (count + 1) (by omega)
            refine ⟨k + 1, by omega, by simp; omega, by omega, ?_, ?_⟩
            · intro e he
              simp only [List.take_succ_cons, List.mem_cons] at he
              rcases he with he | he
              · subst he; exact hacc
              · exact hk4 e he
            · rcases hk5 with h | h | h
              · subst h
                rcases hsz with h' | h'
                · exact Or.inr (Or.inl ⟨h', rfl⟩)
                · right; right; simpa using h'
              · omega
              · right; right
                simp only [List.take_succ_cons, List.map_cons, List.sum_cons]
                omega

theorem maxDirEnt_gt_one : 1 < maxDirEnt := by decide

/-- the head itself is always accepted -/
theorem conseqCount_pos (offset : Nat) (head : DEnt) (rest : List DEnt) :
    1 ≤ conseqCount offset (head :: rest) := by
  unfold conseqCount conseqGo
  simp only [ne_eq, not_true_eq_false, if_false, sdiff32_self]
  have h0 : ¬ ((0 : Int) > 32767 ∨ (0 : Int) < -32767) := by omega
  simp only [h0, if_false, Nat.lt_irrefl, gt_iff_lt, false_and]
  have h1 : ¬ (0 + 1 = maxDirEnt) := by decide
  rw [if_neg h1]
  obtain ⟨k, hk, _⟩ := conseqGo_spec (head.inodeRef >>> 16) head.inodeNum rest
    ((offset + sizeofDirHeader) % metaBlockSize + entSize head) (0 + 1) (by decide)
  omega


/-- `get_conseq_entry_count` on a non-empty list: everything the format asks of one header -/
theorem conseqCount_spec (offset : Nat) (head : DEnt) (rest : List DEnt) :
    1 ≤ conseqCount offset (head :: rest) ∧ conseqCount offset (head :: rest) ≤ maxDirEnt ∧
    conseqCount offset (head :: rest) ≤ (head :: rest).length ∧
    (∀ e ∈ (head :: rest).take (conseqCount offset (head :: rest)), Accept (head.inodeRef >>> 16) head.inodeNum e) ∧
    (conseqCount offset (head :: rest) = 1 ∨
      (offset + sizeofDirHeader) % metaBlockSize +
        (((head :: rest).take (conseqCount offset (head :: rest))).map entSize).sum ≤ metaBlockSize) := by
  have hpos := conseqCount_pos offset head rest
  obtain ⟨k, hk1, hk2, hk3, hk4, hk5⟩ := conseqGo_spec (head.inodeRef >>> 16) head.inodeNum (head :: rest)
    ((offset + sizeofDirHeader) % metaBlockSize) 0 (by decide)
  have he : conseqCount offset (head :: rest) = k := by
    show conseqGo _ _ _ 0 (head :: rest) = k
    rw [hk1]; omega
  rw [he] at hpos ⊢
  refine ⟨hpos, by omega, hk2, hk4, ?_⟩
  rcases hk5 with h | h | h
  · omega
  · exact Or.inl h.2
  · exact Or.inr h

/-- what `sqfs_dir_writer_end` guarantees for one emitted header + run -/
def RunOk (r : Run) : Prop :=
  ∃ first tl, r.ents = first :: tl ∧ r.ents.length ≤ maxDirEnt ∧
    r.startBlock = (first.inodeRef >>> 16) % 4294967296 ∧ r.inodeNumber = first.inodeNum ∧
    ∀ e ∈ r.ents, e.inodeRef >>> 16 = first.inodeRef >>> 16 ∧
      -32767 ≤ sdiff32 e.inodeNum r.inodeNumber ∧ sdiff32 e.inodeNum r.inodeNumber ≤ 32767

theorem dirEndGo_runs_ok (c : Nat) : ∀ (fuel blk off ds : Nat) (ents : List DEnt),
    ∀ r ∈ dirEndGo c fuel blk off ds ents, RunOk r := by
  intro fuel
  induction fuel with
  | zero => intro blk off ds ents r hr; simp [dirEndGo] at hr
  | succ f ih =>
    intro blk off ds ents r hr
    cases ents with
    | nil => simp [dirEndGo] at hr
    | cons first rest =>
      simp only [dirEndGo, List.mem_cons] at hr
      obtain ⟨h1, h2, h3, h4, _⟩ := conseqCount_spec off first rest
      rcases hr with hr | hr
      · subst hr
        obtain ⟨n, hn⟩ : ∃ n, conseqCount off (first :: rest) = n + 1 := ⟨conseqCount off (first :: rest) - 1, by omega⟩
        refine ⟨first, rest.take n, ?_, ?_, rfl, rfl, ?_⟩
        · simp [hn]
        · simp only [List.length_take]; omega
        · intro e he
          exact h4 e he
      · exact ih _ _ _ _ r hr

/-- nothing is lost or reordered: the runs, concatenated, are the entry list -/
theorem dirEndGo_flatten (c : Nat) : ∀ (fuel blk off ds : Nat) (ents : List DEnt), ents.length < fuel →
    ((dirEndGo c fuel blk off ds ents).map (·.ents)).flatten = ents := by
  intro fuel
  induction fuel with
  | zero => intro blk off ds ents h; omega
  | succ f ih =>
    intro blk off ds ents h
    cases ents with
    | nil => simp [dirEndGo]
    | cons first rest =>
      simp only [dirEndGo, List.map_cons, List.flatten_cons]
      obtain ⟨h1, _, h3, _, _⟩ := conseqCount_spec off first rest
      rw [ih]
      · exact List.take_append_drop _ _
      · simp only [List.length_drop]; simp only [List.length_cons] at h h3 ⊢; omega

/-- the 16-bit field written for an accepted entry decodes (as s16, added to the header's number) to the
entry's inode number (in the reader's 32-bit arithmetic): "inode-number deltas fit in 16 bits" -/
theorem delta_roundtrip (num first : Nat) (hn : num < 4294967296) (hf : first < 4294967296)
    (h1 : -32767 ≤ sdiff32 num first) (h2 : sdiff32 num first ≤ 32767) :
    let d16 := (num + 4294967296 - first % 4294967296) % 65536
    ((first : Int) + (if d16 < 32768 then (d16 : Int) else (d16 : Int) - 65536)) % 4294967296 = num := by
  unfold sdiff32 at h1 h2
  rw [Nat.mod_eq_of_lt hf] at h1 h2 ⊢
  generalize hx : num + 4294967296 - first = x at h1 h2 ⊢
  have hx' : x + first = num + 4294967296 := by omega
  simp only at h1 h2 ⊢
  by_cases hc : x % 4294967296 < 2147483648
  · rw [if_pos hc] at h1 h2; split <;> omega
  · rw [if_neg hc] at h1 h2; split <;> omega

end Sqfs.DirWriter
