/-
`directives_preserve_content`: reading every file back from the `specPack` layout (block words via `unc`, holes as
zeros, the tail from its fragment block) returns the input bytes — whatever the flags.  Part 1: blocks.
-/
import Sqfs.Proofs.PackInv
namespace Sqfs.Pack

/-! ## codec and worker -/

theorem decode_encode (P : Params) (hc : P.codec.Ok) (dc : Bool) (ck : UInt32) (d : Bytes) :
    decodeBlock P.codec (encode P dc ck d).raw (encode P dc ck d).data = d := by
  unfold encode
  by_cases h : dc = true
  · simp [h, decodeBlock]
  · simp only [h, Bool.false_eq_true, if_false]
    cases hz : P.codec.cmp d with
    | none => simp [decodeBlock]
    | some z => simp [decodeBlock, hc.roundTrip d z hz]

theorem allZero_eq_replicate (d : Bytes) (h : allZero d = true) : List.replicate d.length 0 = d := by
  induction d with
  | nil => rfl
  | cons a t ih =>
    simp only [allZero, List.all_cons, Bool.and_eq_true, beq_iff_eq] at h
    simp only [List.length_cons, List.replicate_succ]
    rw [h.1]
    congr 1
    exact ih (by simpa [allZero] using h.2)

/-- a data block `d` and what the worker made of it: reading it back gives `d` -/
def WOK (c : Codec) (d : Bytes) (w : Worked) : Prop :=
  match w with
  | .sparse n => n = d.length ∧ allZero d = true
  | .stored s => decodeBlock c s.raw s.data = d

theorem workData_WOK (P : Params) (hc : P.codec.Ok) (F : Flags) (d : Bytes) : WOK P.codec d (workData P F d) := by
  unfold workData
  split
  · rename_i h
    simp only [Bool.and_eq_true] at h
    exact ⟨rfl, h.2⟩
  · exact decode_encode P hc _ _ d

/-! ## block sizes seen by the reader -/

/-- the blocks have the sizes a reader expects: `min B rem` each, `rem` = bytes of the file still to come -/
def Fit (B : Nat) : Nat → List Bytes → Prop
  | _, [] => True
  | rem, d :: t => d.length = min B rem ∧ Fit B (rem - d.length) t

theorem fit_append (B : Nat) : ∀ (a b : List Bytes) (rem : Nat),
    Fit B rem (a ++ b) ↔ Fit B rem a ∧ Fit B (rem - a.flatten.length) b := by
  intro a
  induction a with
  | nil => intro b rem; simp [Fit]
  | cons d t ih =>
    intro b rem
    simp only [List.cons_append, Fit, ih, List.flatten_cons, List.length_append, and_assoc]
    constructor
    · intro ⟨h1, h2, h3⟩; exact ⟨h1, h2, by rwa [Nat.sub_sub] at h3⟩
    · intro ⟨h1, h2, h3⟩; exact ⟨h1, h2, by rwa [Nat.sub_sub]⟩

theorem blockAt_length (B : Nat) (d : Bytes) (k : Nat) (h : (k + 1) * B ≤ d.length) : (blockAt B d k).length = B := by
  unfold blockAt
  rw [List.length_take, List.length_drop]
  have : (k + 1) * B = k * B + B := Nat.succ_mul k B
  omega

theorem range_blocks_flatten (B : Nat) (d : Bytes) : ∀ k, k * B ≤ d.length →
    ((List.range k).map (blockAt B d)).flatten = d.take (k * B) := by
  intro k
  induction k with
  | zero => intro _; simp
  | succ k ih =>
    intro h
    have hk : k * B ≤ d.length := by
      have : (k + 1) * B = k * B + B := Nat.succ_mul k B
      omega
    rw [List.range_succ, List.map_append, List.flatten_append, ih hk]
    simp only [List.map_cons, List.map_nil, List.flatten_cons, List.flatten_nil, List.append_nil, blockAt]
    rw [Nat.succ_mul, List.take_add]

theorem range_blocks_fit (B : Nat) (d : Bytes) : ∀ k, k * B ≤ d.length →
    Fit B d.length ((List.range k).map (blockAt B d)) := by
  intro k
  induction k with
  | zero => intro _; simp [Fit]
  | succ k ih =>
    intro h
    have hs : (k + 1) * B = k * B + B := Nat.succ_mul k B
    have hk : k * B ≤ d.length := by omega
    rw [List.range_succ, List.map_append, fit_append]
    refine ⟨ih hk, ?_⟩
    rw [range_blocks_flatten B d k hk, List.length_take, Nat.min_eq_left hk]
    simp only [List.map_cons, List.map_nil, Fit, and_true]
    rw [blockAt_length B d k h]
    omega

theorem fullBlocks_flatten (B : Nat) (d : Bytes) : (fullBlocks B d).flatten = d.take (d.length / B * B) :=
  range_blocks_flatten B d _ (Nat.div_mul_le_self _ _)

theorem fullBlocks_fit (B : Nat) (d : Bytes) : Fit B d.length (fullBlocks B d) :=
  range_blocks_fit B d _ (Nat.div_mul_le_self _ _)

theorem fullBlocks_tail (B : Nat) (d : Bytes) : (fullBlocks B d).flatten ++ tailOf B d = d := by
  rw [fullBlocks_flatten]; exact List.take_append_drop _ _

theorem fullBlocks_tail_single (B : Nat) (d : Bytes) : (fullBlocks B d).flatten ++ [tailOf B d].flatten = d := by
  simpa using fullBlocks_tail B d

theorem fit_with_tail (B : Nat) (hB : 0 < B) (d : Bytes) : Fit B d.length (fullBlocks B d ++ [tailOf B d]) := by
  rw [fit_append]
  refine ⟨fullBlocks_fit B d, ?_⟩
  simp only [Fit, and_true]
  rw [fullBlocks_flatten, List.length_take, tailOf_length]
  have h1 := Nat.div_mul_le_self d.length B
  have h2 := Nat.mod_lt d.length hB
  have h3 := Nat.div_add_mod d.length B
  have h4 : d.length / B * B = B * (d.length / B) := Nat.mul_comm _ _
  rw [Nat.min_eq_left h1]
  omega

/-! ## reading the blocks of one file -/

theorem readBlocks_pairs (c : Codec) (B base : Nat) : ∀ (pairs : List (Bytes × Worked)) (A Z : Bytes) (off rem : Nat),
    (∀ p ∈ pairs, WOK c p.1 p.2) → Fit B rem (pairs.map (·.1)) →
    (pairs.filterMap (fun p => p.2.stored?) ≠ [] → off = base + A.length) →
    readBlocks c B base (A ++ areaOf (pairs.filterMap (fun p => p.2.stored?)) ++ Z) off rem
        (pairs.map (fun p => p.2.word)) = (pairs.map (·.1)).flatten := by
  intro pairs
  induction pairs with
  | nil => intro A Z off rem _ _ _; simp [readBlocks]
  | cons p t ih =>
    intro A Z off rem hw hf hoff
    obtain ⟨d, w⟩ := p
    have hwd := hw (d, w) (by simp)
    have hwt : ∀ p ∈ t, WOK c p.1 p.2 := fun p hp => hw p (List.mem_cons_of_mem _ hp)
    simp only [List.map_cons, Fit] at hf
    cases w with
    | sparse n =>
      simp only [WOK] at hwd
      have e1 : ((d, Worked.sparse n) :: t).filterMap (fun p => p.2.stored?) = t.filterMap (fun p => p.2.stored?) := rfl
      have e2 : ((d, Worked.sparse n) :: t).map (fun p => p.2.word) = Word.sparse :: t.map (fun p => p.2.word) := rfl
      rw [e1] at hoff
      rw [e1, e2]
      simp only [readBlocks, List.map_cons, List.flatten_cons]
      rw [← hf.1, allZero_eq_replicate d hwd.2]
      congr 1
      exact ih A Z off _ hwt hf.2 hoff
    | stored s =>
      simp only [WOK] at hwd
      have e1 : ((d, Worked.stored s) :: t).filterMap (fun p => p.2.stored?) = s :: t.filterMap (fun p => p.2.stored?) := rfl
      have e2 : ((d, Worked.stored s) :: t).map (fun p => p.2.word)
          = Word.stored s.data.length s.raw :: t.map (fun p => p.2.word) := rfl
      have hoff' : off = base + A.length := hoff (by rw [e1]; simp)
      subst hoff'
      rw [e1, e2, areaOf_cons]
      simp only [readBlocks, List.map_cons, List.flatten_cons]
      have hread : readAt base (A ++ (s.data ++ areaOf (t.filterMap (fun p => p.2.stored?))) ++ Z) (base + A.length) s.data.length
          = s.data := by
        have := readAt_mid base A s.data (areaOf (t.filterMap (fun p => p.2.stored?)) ++ Z)
        simpa [List.append_assoc] using this
      rw [hread, hwd]
      congr 1
      have := ih (A ++ s.data) Z (base + A.length + s.data.length) (rem - d.length) hwt hf.2
        (fun _ => by simp [Nat.add_assoc])
      rw [← hf.1]
      simpa [List.append_assoc] using this

/-- reads that stay inside `area` do not see an extension of the area -/
theorem readBlocks_ext (c : Codec) (B base : Nat) (area ext : Bytes) : ∀ (ws : List Word) (off rem : Nat),
    off - base + diskBytes ws ≤ area.length →
    readBlocks c B base (area ++ ext) off rem ws = readBlocks c B base area off rem ws := by
  intro ws
  induction ws with
  | nil => intro off rem _; simp [readBlocks]
  | cons w t ih =>
    intro off rem h
    cases w with
    | sparse =>
      simp only [readBlocks]
      rw [ih off _ (by simpa [diskBytes, Word.diskSize] using h)]
    | stored n raw =>
      simp only [diskBytes, List.map_cons, List.sum_cons, Word.diskSize] at h
      simp only [readBlocks]
      rw [readAt_ext base area ext off n (by omega), ih (off + n) _ (by simp only [diskBytes]; omega)]

end Sqfs.Pack
