/-
Specification side of C11: what "the same directory contents, enumerated in a different order" means, and the
side conditions under which statements about the scan are made.  Reads in a minute.
-/
import Sqfs.Proofs.C11Pinned.Model

namespace Sqfs.C11Pinned

/-- Two enumerations of one directory forest: the same entries with the same attributes, and inside **every**
directory (at any depth) the order of the entries may differ by an arbitrary permutation. -/
inductive FPerm : List HNode → List HNode → Prop
  | nil : FPerm [] []
  /-- same entry in front; its own children may be permuted (recursively), and so may the rest -/
  | cons {n : Name} {s : Stat} {t : List UInt8} {c c' l l' : List HNode} :
      FPerm c c' → FPerm l l' → FPerm (.mk n s t c :: l) (.mk n s t c' :: l')
  | swap (a b : HNode) (l : List HNode) : FPerm (a :: b :: l) (b :: a :: l)
  | trans {l₁ l₂ l₃ : List HNode} : FPerm l₁ l₂ → FPerm l₂ l₃ → FPerm l₁ l₃

mutual
/-- the names inside each directory are pairwise different (true of every directory a kernel serves) -/
def WFNode : HNode → Prop
  | .mk _ _ _ c => WFList c
def WFList : List HNode → Prop
  | [] => True
  | x :: xs => (∀ y ∈ xs, y.name ≠ x.name) ∧ WFNode x ∧ WFList xs
end

mutual
/-- `(st_dev, st_ino)` of every non-directory entry, in DFS order -/
def keysNode : HNode → List (Nat × Nat)
  | .mk _ s _ c => if isDirMode s.mode then keysList c else [(s.dev, s.ino)]
def keysList : List HNode → List (Nat × Nat)
  | [] => []
  | x :: xs => keysNode x ++ keysList xs
end

/-- "no file has more than one link inside the scanned forest" -/
def NoMultiLink (e : List HNode) : Prop := (keysList e).Nodup

/-- strictly increasing in `strcmp` order (what `insert_sorted` maintains for the children of a directory) -/
def SortedNames (l : List Name) : Prop := l.Pairwise (fun a b => nameLt a b = true)

instance (l : List Name) : Decidable (SortedNames l) := by unfold SortedNames; infer_instance

mutual
/-- every directory at or below the node keeps its children strictly sorted by `strcmp` (hence with pairwise
different names): the form in which `fstree.c` hands the tree to the serialiser -/
def TNode.AllSorted : TNode → Prop
  | .mk _ _ cs => SortedNames (cs.map TNode.name) ∧ AllSortedList cs
def AllSortedList : List TNode → Prop
  | [] => True
  | c :: cs => c.AllSorted ∧ AllSortedList cs
end

end Sqfs.C11Pinned
