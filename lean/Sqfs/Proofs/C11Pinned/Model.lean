/-
FROZEN HISTORICAL RECORD (C11) — not an obligation of the property, not tied to the working tree.

This is a verbatim copy (namespace renamed to `Sqfs.C11Pinned`) of the model of the directory-scan path as it was at the
commit the verification started from (before /repo 7ff9210 "native directory iterator: return entries in sorted order",
dd9254e "refuse IDs that do not fit 32 bits", 9724762 "limit the nesting depth", 185b4ea "bound the chain length").
The theorems about it (`Sqfs/Proofs/C11Pinned/Theorems.lean`) say that the *old* code was order independent outside the
multiply-linked case and that the repair is conservative.  That code no longer exists in /repo, so nothing here is
compared with real code any more; the live model is `Sqfs/Model/FsTree.lean`.
-/
/-
Executable model of the directory-scan path of `gensquashfs` (property C11):

  lib/sqfs/src/io/dir_unix.c          native iterator           → `nativeOrder`, `nativeEntry`
  lib/sqfs/src/io/dir_rec.c           recursive (DFS) iterator  → `walkNode` / `walkList` (the explicit stack of open
                                                                   directory iterators is the call stack of `walk*`)
  lib/sqfs/src/io/dir_hl.c            hard-link filter          → `hlNext`
  lib/common/src/dir_tree_iterator.c  filters / prefix / defaults → `shouldSkip`, `applyChanges`, `treeIterStep`
  bin/gensquashfs/src/glob.c          `scan_directory`          → `scanStep`
  lib/fstree/src/fstree.c             `insert_sorted`, `mknode`, `fstree_get_node_by_path`, `fstree_add_generic`
  lib/fstree/src/hardlink.c           `resolve_link`, `fstree_resolve_hard_links` (only as far as the scan needs it;
                                       property C07 owns the full model in `Sqfs/Model/HardLink.lean`)
  lib/fstree/src/post_process.c       `alloc_inode_num_dfs`, `map_inodes_dfs`, `reorder_hard_links`, `file_list_dfs`

Modelling decisions (all exercised by the correspondence check, tools/checks/c11.py):
  * a path is the list of its components; `expand_path` (string concatenation with '/') and the splitting loop of
    `fstree_get_node_by_path` are the identity on component lists (readdir names are non-empty and contain no '/');
  * nodes are identified by their path; the `inodes` array is a list of paths, a node's inode number is its index + 1
    (the C code keeps `inodes[k]->inode_num == k + 1` through `map_inodes_dfs` and `reorder_hard_links`);
  * an error anywhere aborts the scan (`scan_directory` returns -1, the tool exits with failure);
  * `fnmatch` is a parameter.
Core Lean only; structural recursion or explicit fuel only.
-/
import Sqfs.Generated.Consts

namespace Sqfs.C11Pinned
open Sqfs.Consts

abbrev Name := List UInt8
abbrev Path := List Name

/-- `strcmp(a, b) < 0` for NUL-free strings: lexicographic on unsigned bytes. -/
def nameLt : Name → Name → Bool
  | [], [] => false
  | [], _ :: _ => true
  | _ :: _, [] => false
  | a :: as, b :: bs => if a.toNat < b.toNat then true else if a.toNat = b.toNat then nameLt as bs else false

/-! ## host side: one enumeration of a directory forest -/

/-- what `fstatat(AT_SYMLINK_NOFOLLOW)` reports -/
structure Stat where
  mode : Nat
  uid : Nat
  gid : Nat
  mtime : Int
  dev : Nat
  ino : Nat
  rdev : Nat
  deriving DecidableEq, Repr, Inhabited

/-- A directory entry of the host together with (for directories) the entries below it **in the order readdir
serves them**.  Whether the children are visited is decided by `st.mode` exactly as in the C code. `target` is what
`readlinkat` returns (symlinks only). -/
inductive HNode where
  | mk (name : Name) (st : Stat) (target : List UInt8) (children : List HNode)
  deriving Repr, Inhabited

def HNode.name : HNode → Name | .mk n _ _ _ => n
def HNode.st : HNode → Stat | .mk _ s _ _ => s
def HNode.target : HNode → List UInt8 | .mk _ _ t _ => t
def HNode.children : HNode → List HNode | .mk _ _ _ c => c

def isType (mode ty : Nat) : Bool := (mode &&& sIFMT) == ty
def isDirMode (mode : Nat) : Bool := isType mode sIFDIR
def hasFlag (flags f : Nat) : Bool := (flags &&& f) != 0

/-! ### the repaired native iterator: names collected and sorted with `strcmp` (fixes/C11-sorted-readdir.patch) -/

/-- the loop of `insert_sorted` (fstree.c), generic in the element type: skip while `strcmp(it->name, x->name) < 0`,
link `x` in front of the first element that is not smaller -/
def insertBy {α : Type} (key : α → Name) (x : α) : List α → List α
  | [] => [x]
  | y :: ys => if nameLt (key y) (key x) then y :: insertBy key x ys else x :: y :: ys

/-- one step of insertion sort by name -/
def insertByName (x : HNode) (l : List HNode) : List HNode := insertBy HNode.name x l

/-- `qsort(names, count, …, strcmp)` — on pairwise different names every correct sort returns this list -/
def sortByName (l : List HNode) : List HNode := l.foldr insertByName []

mutual
/-- the enumeration the patched `dir_unix.c` hands to the recursive iterator: every directory sorted -/
def canonNode : HNode → HNode
  | .mk n s t c => .mk n s t (sortByName (canonList c))
def canonList : List HNode → List HNode
  | [] => []
  | x :: xs => canonNode x :: canonList xs
end

/-- `sorted = true`: native iterator of the repaired tree; `false`: readdir order is passed through (code as pinned) -/
def nativeOrder (sorted : Bool) (l : List HNode) : List HNode :=
  if sorted then sortByName (canonList l) else l

/-! ## `sqfs_dir_entry_t` -/

structure Ent where
  /-- name as returned by the recursive iterator (relative to the scanned directory) -/
  rel : Path
  /-- name after `dir_tree_iterator.c: expand_path` (prefix prepended) -/
  path : Path
  mode : Nat
  uid : Nat
  gid : Nat
  mtime : Int
  dev : Nat
  ino : Nat
  rdev : Nat
  mount : Bool
  hard : Bool
  deriving DecidableEq, Repr, Inhabited

/-! ## `tree_node_t` -/

inductive Extra where
  | none
  /-- symlink target or input file path (bytes) -/
  | str (s : List UInt8)
  /-- hard link: path of the target as written by the hard-link filter; `res` = `data.target_node` once
  `FLAG_LINK_RESOVED` is set -/
  | link (target : Path) (res : Option Path)
  deriving DecidableEq, Repr, Inhabited

structure Attr where
  mode : Nat
  uid : Nat
  gid : Nat
  modTime : Nat
  linkCount : Nat
  rdev : Nat
  /-- FLAG_DIR_CREATED_IMPLICITLY -/
  implicit : Bool
  /-- FLAG_LINK_IS_HARD -/
  hard : Bool
  extra : Extra
  deriving DecidableEq, Repr, Inhabited

inductive TNode where
  | mk (name : Name) (a : Attr) (children : List TNode)
  deriving Repr, Inhabited

def TNode.name : TNode → Name | .mk n _ _ => n
def TNode.attr : TNode → Attr | .mk _ a _ => a
def TNode.children : TNode → List TNode | .mk _ _ c => c
def TNode.isDir (t : TNode) : Bool := isDirMode t.attr.mode

/-! Failure is `none`: every error of the scan path makes the tool exit with failure and nothing else about it is
observable (the errno only selects the message), so errors are not distinguished.  Comments name the C error. -/

structure Defaults where
  uid : Nat
  gid : Nat
  mtime : Nat
  mode : Nat
  deriving DecidableEq, Repr, Inhabited

/-- `clamp_timestamp` -/
def clampTimestamp (ts : Int) : Nat :=
  if ts < 0 then 0 else if ts > 0xFFFFFFFF then 0xFFFFFFFF else ts.toNat

/-- `child_by_name`: first child with that name -/
def childByName : List TNode → Name → Option TNode
  | [], _ => none
  | c :: cs, n => if c.name = n then some c else childByName cs n

/-- `insert_sorted`: skip while `strcmp(it->name, n->name) < 0` -/
def insertSorted (n : TNode) (children : List TNode) : List TNode := insertBy TNode.name n children

/-- the in-place update of the child found by `child_by_name` (first with that name) -/
def replaceChild (c' : TNode) : List TNode → List TNode
  | [] => []
  | c :: cs => if c.name = c'.name then c' :: cs else c :: replaceChild c' cs

/-- attribute part of `mknode` -/
def mknodeAttr (ent : Ent) (extra : Extra) : Attr :=
  let mode0 := ent.mode % 65536
  let mode1 := if ent.hard then sIFLNK ||| 0o777 else mode0
  let isReg := isType mode1 sIFREG
  let isLnk := isType mode1 sIFLNK
  let isDev := isType mode1 sIFBLK || isType mode1 sIFCHR
  { mode := if isLnk then sIFLNK ||| 0o777 else mode1
    uid := ent.uid % 4294967296
    gid := ent.gid % 4294967296
    modTime := clampTimestamp ent.mtime
    linkCount := if isDirMode mode1 then 2 else 1
    rdev := if isDev then ent.rdev else 0
    implicit := false
    hard := ent.hard
    extra := if isReg || isLnk then extra else .none }

/-- tail of `mknode`: `EMLINK` check, `insert_sorted(parent, n)`, `parent->link_count++` -/
def linkChild (parent : TNode) (n : TNode) : Option TNode :=
  match parent with
  | .mk pn pa pc =>
    if pa.linkCount = 0xFFFFFFFF then none /- EMLINK -/
    else some (.mk pn { pa with linkCount := pa.linkCount + 1 } (insertSorted n pc))

/-- `mknode` for a leaf: create the node and link it into `parent` -/
def mknode (parent : TNode) (name : Name) (ent : Ent) (extra : Extra) : Option TNode :=
  linkChild parent (.mk name (mknodeAttr ent extra) [])

/-- the entry `fstree_get_node_by_path` fabricates for an implicitly created directory -/
def implicitEnt (d : Defaults) : Ent :=
  { rel := [], path := [], mode := sIFDIR ||| (d.mode &&& 0o7777), uid := d.uid, gid := d.gid, mtime := d.mtime,
    dev := 0, ino := 0, rdev := 0, mount := false, hard := false }

/-- the `child != NULL` branch of `fstree_add_generic` -/
def overwrite (c : TNode) (ent : Ent) : Option TNode :=
  let .mk n a cs := c
  if !isDirMode a.mode || !isDirMode ent.mode || !a.implicit then none /- EEXIST -/
  else some (.mk n { a with uid := ent.uid % 4294967296, gid := ent.gid % 4294967296, mode := ent.mode % 65536,
                             modTime := (ent.mtime % 4294967296).toNat, implicit := false } cs)

/-- `fstree_add_generic` = `fstree_get_node_by_path(…, create_implicitly = true, stop_at_parent = true)` followed by
`child_by_name` and either the overwrite branch or `mknode`; written as one descent that rebuilds the spine.
An implicitly created parent is a fresh childless node, so the descent continues into it before it is linked into
its own parent — the resulting tree is the same as linking first and descending afterwards. -/
def addPath (d : Defaults) (ent : Ent) (extra : Extra) : Path → TNode → Option TNode
  | [], root => overwrite root ent                      -- `ent->name[0] == '\0'`: child = fs->root
  | [n], dir =>
      if !dir.isDir then none /- ENOTDIR -/
      else match childByName dir.children n with
        | some c =>
            match overwrite c ent with
            | none => none
            | some c' => some (.mk dir.name dir.attr (replaceChild c' dir.children))
        | none => mknode dir n ent extra
  | n :: rest, dir =>
      if !dir.isDir then none /- ENOTDIR -/
      else match childByName dir.children n with
        | some c =>
            match addPath d ent extra rest c with
            | none => none
            | some c' => some (.mk dir.name dir.attr (replaceChild c' dir.children))
        | none =>
            let fresh := TNode.mk n { mknodeAttr (implicitEnt d) .none with implicit := true } []
            match addPath d ent extra rest fresh with
            | none => none
            | some c' => linkChild dir c'

/-- `fstree_get_node_by_path(fs, root, path, false, false)` -/
def lookup : TNode → Path → Option TNode
  | t, [] => some t
  | t, n :: rest =>
      if !t.isDir then none
      else match childByName t.children n with
        | some c => lookup c rest
        | none => none

/-- `fstree_get_node_by_path(fs, root, path, false, true)`: the parent exists and is a directory -/
def parentOf (t : TNode) (p : Path) : Option TNode :=
  match p with
  | [] => some t
  | _ => match lookup t p.dropLast with
    | some q => if q.isDir then some q else none
    | none => none

/-! ## the iterator stack and `scan_directory` -/

structure Cfg where
  flags : Nat
  defUid : Nat
  defGid : Nat
  defMode : Nat
  defMtime : Int
  /-- `cfg.prefix` (components) -/
  pfx : Path
  /-- `file_prefix` argument of `scan_directory` -/
  filePrefix : Option (List UInt8)
  /-- `cfg.name_pattern` -/
  pattern : Option (List UInt8)
  deriving DecidableEq, Repr, Inhabited

/-- `fnmatch(pattern, string, pathname_flag)` — parameter of the model -/
abbrev Fnm := List UInt8 → List UInt8 → Bool → Bool

structure St where
  /-- dir_hl.c `inumtree`: (dev, inode) ↦ first name seen -/
  seen : List ((Nat × Nat) × Path)
  tree : TNode
  /-- `fs->links_unresolved` (LIFO) -/
  links : List Path
  deriving Repr, Inhabited

def seenLookup : List ((Nat × Nat) × Path) → Nat × Nat → Option Path
  | [], _ => none
  | (k, v) :: r, q => if k = q then some v else seenLookup r q

def slash : UInt8 := 0x2f

def joinPath : Path → List UInt8
  | [] => []
  | [n] => n
  | n :: rest => n ++ slash :: joinPath rest

def dotName : Name := [0x2e]
def dotDotName : Name := [0x2e, 0x2e]

/-- `dir_unix.c: dir_next` + `dir_rec.c: expand_path` -/
def nativeEntry (rel : Path) (dirDev : Nat) (name : Name) (s : Stat) : Ent :=
  { rel := rel ++ [name], path := rel ++ [name], mode := s.mode, uid := s.uid, gid := s.gid, mtime := s.mtime,
    dev := s.dev, ino := s.ino, rdev := s.rdev, mount := s.dev != dirDev, hard := false }

/-- `dir_hl.c: next` — returns the entry, the link target (if detected) and the new `inumtree` -/
def hlNext (seen : List ((Nat × Nat) × Path)) (e : Ent) : Ent × Option Path × List ((Nat × Nat) × Path) :=
  if isDirMode e.mode then (e, none, seen)                      -- detect: NULL; store: nothing
  else match seenLookup seen (e.dev, e.ino) with
    | some tgt => ({ e with mode := inodeModeLnk ||| 0o777, hard := true }, some tgt, seen)
    | none => (e, none, ((e.dev, e.ino), e.rel) :: seen)

/-- `dir_tree_iterator.c: should_skip` -/
def shouldSkip (cfg : Cfg) (e : Ent) : Bool :=
  if hasFlag cfg.flags dirScanOneFilesystem && e.mount then true
  else
    let ty := e.mode &&& sIFMT
    let mask :=
      if ty == sIFSOCK then dirScanNoSock
      else if ty == sIFLNK then dirScanNoSlink
      else if ty == sIFREG then dirScanNoFile
      else if ty == sIFBLK then dirScanNoBlk
      else if ty == sIFCHR then dirScanNoChr
      else if ty == sIFIFO then dirScanNoFifo
      else 0
    hasFlag cfg.flags mask

/-- `dir_tree_iterator.c: expand_path` + `apply_changes` -/
def applyChanges (cfg : Cfg) (e : Ent) : Ent :=
  { e with
    path := cfg.pfx ++ e.rel
    mtime := if hasFlag cfg.flags dirScanKeepTime then e.mtime else cfg.defMtime
    uid := if hasFlag cfg.flags dirScanKeepUid then e.uid else cfg.defUid
    gid := if hasFlag cfg.flags dirScanKeepGid then e.gid else cfg.defGid
    mode := if hasFlag cfg.flags dirScanKeepMode then e.mode
            else (e.mode - (e.mode &&& 0o7777)) ||| (cfg.defMode &&& 0o7777) }

/-- `dir_tree_iterator.c: next` for one entry delivered by the layer below.
Result: `(entry delivered upward?, recurse into it?)`. -/
def treeIterStep (cfg : Cfg) (fnm : Fnm) (e : Ent) : Option Ent × Bool :=
  let isdir := isDirMode e.mode
  if shouldSkip cfg e then (none, false)                         -- `ignore_subdir` for directories
  else
    let e' := applyChanges cfg e
    let recurse := isdir && !hasFlag cfg.flags dirScanNoRecursion
    if isdir && hasFlag cfg.flags dirScanNoDir then (none, recurse)
    else match cfg.pattern with
      | none => (some e', recurse)
      | some pat =>
          let ok :=
            if hasFlag cfg.flags dirScanMatchFullPath then fnm pat (joinPath e'.path) true
            else fnm pat (e'.path.getLast?.getD []) false
          if ok then (some e', recurse) else (none, recurse)

/-- the `extra` string `scan_directory` hands to `fstree_add_generic`: link target (`dir->read_link`: the hard-link
filter's target if it detected one, else `readlinkat`), or the input path of a regular file when a prefix is in use -/
def scanExtra (cfg : Cfg) (e : Ent) (hlTarget : Option Path) (symTarget : List UInt8) : Extra :=
  if isType e.mode sIFLNK then
    match hlTarget with
    | some t => .link t none
    | none => .str symTarget
  else if isType e.mode sIFREG && (!cfg.pfx.isEmpty || cfg.filePrefix.isSome) then
    match cfg.filePrefix with
    | none => .str (joinPath e.rel)
    | some fp => .str (fp ++ slash :: joinPath e.rel)
  else .none

/-- body of the loop of `scan_directory` for one entry.
Result: new tree/links and whether `ignore_subdir` was called. -/
def scanStep (d : Defaults) (cfg : Cfg) (e : Ent) (hlTarget : Option Path) (symTarget : List UInt8)
    (tree : TNode) (links : List Path) : Option (TNode × List Path × Bool) :=
  match parentOf tree e.path with
  | none => some (tree, links, isDirMode e.mode)                  -- parent missing: entry dropped
  | some _ =>
    match addPath d e (scanExtra cfg e hlTarget symTarget) e.path tree with
    | none => none
    | some tree' => some (tree', if e.hard then e.path :: links else links, false)

/-- what the three iterator layers below `scan_directory` compute for one raw directory entry -/
structure IterOut where
  /-- entry delivered to `scan_directory` (none: filtered out) -/
  out : Option Ent
  /-- the recursive iterator will descend into it (unless `scan_directory` calls `ignore_subdir`) -/
  recurse : Bool
  /-- `link_target` of the hard-link filter -/
  hlTarget : Option Path
  seen : List ((Nat × Nat) × Path)

/-- `dir_rec.c: next` (after the "."/".." test) → `dir_hl.c: next` (unless DIR_SCAN_NO_HARDLINKS) →
`dir_tree_iterator.c: next` -/
def iterStep (cfg : Cfg) (fnm : Fnm) (rel : Path) (dirDev : Nat) (seen : List ((Nat × Nat) × Path)) (name : Name)
    (s : Stat) : IterOut :=
  let e0 := nativeEntry rel dirDev name s
  let hl := if hasFlag cfg.flags dirScanNoHardlinks then (e0, none, seen) else hlNext seen e0
  let ti := treeIterStep cfg fnm hl.1
  { out := ti.1, recurse := ti.2, hlTarget := hl.2.1, seen := hl.2.2 }

mutual
/-- one entry of the directory being read by the native iterator at the top of `dir_rec.c`'s stack, pushed through
`dir_rec.c: next`, `dir_hl.c: next`, `dir_tree_iterator.c: next` and the body of `scan_directory`; then, if the
sub-directory was not ignored, everything below it (DFS, pre-order) -/
def walkNode (d : Defaults) (cfg : Cfg) (fnm : Fnm) (rel : Path) (dirDev : Nat) (h : HNode) (st : St) : Option St :=
  match h with
  | .mk name s target children =>
    if name = dotName || name = dotDotName then some st            -- dir_rec.c: "." and ".." are skipped
    else
      let it := iterStep cfg fnm rel dirDev st.seen name s
      let r : Option (TNode × List Path × Bool) :=
        match it.out with
        | none => some (st.tree, st.links, false)
        | some e2 => scanStep d cfg e2 it.hlTarget target st.tree st.links
      match r with
      | none => none
      | some (tree', links', ignored) =>
        let st' : St := { seen := it.seen, tree := tree', links := links' }
        if isDirMode s.mode && it.recurse && !ignored then walkList d cfg fnm (rel ++ [name]) s.dev children st'
        else some st'
def walkList (d : Defaults) (cfg : Cfg) (fnm : Fnm) (rel : Path) (dirDev : Nat) (l : List HNode) (st : St) : Option St :=
  match l with
  | [] => some st
  | h :: hs =>
    match walkNode d cfg fnm rel dirDev h st with
    | none => none
    | some st' => walkList d cfg fnm rel dirDev hs st'
end

/-! ## `fstree_post_process` -/

/-- apply `f` to the node at `p` (spine rebuilt) -/
def modifyAt (f : TNode → TNode) : Path → TNode → TNode
  | [], t => f t
  | n :: rest, t =>
      match childByName t.children n with
      | some c => .mk t.name t.attr (replaceChild (modifyAt f rest c) t.children)
      | none => t

def TNode.isHardLink (t : TNode) : Bool := isType t.attr.mode sIFLNK && t.attr.hard

/-- `resolve_link`: follow the chain starting at the node at `start`.  Returns the path of the final node. -/
def followLink (root : TNode) (start : Path) : Nat → Path → Option Path
  | 0, _ => none /- does not terminate (D12) -/
  | fuel + 1, cur =>
      match lookup root cur with
      | none => none /- ENOENT -/
      | some node =>
        if !node.isHardLink then some cur
        else
          let next : Option Path :=
            match node.attr.extra with
            | .link _ (some r) => some r
            | .link t none => (match lookup root t with | some _ => some t | none => none /- ENOENT -/)
            | _ => none /- EINVAL -/
          match next with
          | none => none
          | some nx => if nx = start then none /- EMLINK -/ else followLink root start fuel nx

def setResolved (tgt : Path) (t : TNode) : TNode :=
  match t with
  | .mk n a cs => match a.extra with
    | .link p _ => .mk n { a with extra := .link p (some tgt) } cs
    | _ => t

def bumpLinkCount (t : TNode) : TNode :=
  match t with
  | .mk n a cs => .mk n { a with linkCount := a.linkCount + 1 } cs

/-- `resolve_link` for the link node at `p` -/
def resolveLink (root : TNode) (fuel : Nat) (p : Path) : Option TNode :=
  match followLink root p fuel p with
  | none => none
  | some tp =>
    match lookup root tp with
    | none => none /- ENOENT -/
    | some tn =>
      if tn.isDir then none /- EPERM -/
      else if tn.attr.linkCount = 0xFFFFFFFF then none /- EMLINK -/
      else some (modifyAt bumpLinkCount tp (modifyAt (setResolved tp) p root))

/-- `fstree_resolve_hard_links`: pop `links_unresolved` until empty -/
def resolveHardLinks (fuel : Nat) : List Path → TNode → Option TNode
  | [], t => some t
  | p :: rest, t =>
      match resolveLink t fuel p with
      | none => none
      | some t' => resolveHardLinks fuel rest t'

mutual
/-- `alloc_inode_num_dfs`: the nodes below `t` in the order in which they receive their numbers: first the whole
content of every sub-directory (in child order), then every child that is not a hard link -/
def allocNode (path : Path) : TNode → List Path
  | .mk _ _ cs => allocSubdirs path cs ++ allocOwn path cs
def allocSubdirs (path : Path) : List TNode → List Path
  | [] => []
  | c :: cs => (if c.isDir then allocNode (path ++ [c.name]) c else []) ++ allocSubdirs path cs
def allocOwn (path : Path) : List TNode → List Path
  | [] => []
  | c :: cs => (if c.isHardLink then [] else [path ++ [c.name]]) ++ allocOwn path cs
end

/-- numbering order before `reorder_hard_links`; the root is numbered last (`fstree_post_process`).
`map_inodes_dfs` stores the node with number `k` at `inodes[k-1]`, i.e. builds exactly this list. -/
def allocOrder (root : TNode) : List Path := allocNode [] root ++ [[]]

def indexOf (p : Path) : List Path → Nat
  | [] => 0
  | q :: r => if q = p then 0 else indexOf p r + 1

/-- move the element at index `j` to index `i` (`i ≤ j`), shifting `[i, j)` up by one -/
def moveTo (arr : List Path) (i j : Nat) : List Path :=
  match arr[j]? with
  | none => arr
  | some x => (arr.take i) ++ x :: ((arr.drop i).take (j - i)) ++ arr.drop (j + 1)

/-- inner loop of `reorder_hard_links` over the children of the directory at `inodes[i]` -/
def reorderChildren (dirPath : Path) : List TNode → List Path → Nat → List Path × Nat
  | [], arr, i => (arr, i)
  | c :: cs, arr, i =>
      if !c.isHardLink then reorderChildren dirPath cs arr i
      else match c.attr.extra with
        | .link _ (some tgt) =>
            let j := indexOf tgt arr
            if j ≤ i then reorderChildren dirPath cs arr i
            else reorderChildren dirPath cs (moveTo arr i j) (i + 1)
        | _ => reorderChildren dirPath cs arr i

/-- outer loop of `reorder_hard_links` (`fuel` ≥ number of inodes; `i` grows in every round) -/
def reorderLoop (root : TNode) : Nat → List Path → Nat → List Path
  | 0, arr, _ => arr
  | fuel + 1, arr, i =>
      match arr[i]? with
      | none => arr
      | some p =>
        match lookup root p with
        | none => arr
        | some n =>
          if !n.isDir then reorderLoop root fuel arr (i + 1)
          else
            let (arr', i') := reorderChildren p n.children arr i
            reorderLoop root fuel arr' (i' + 1)

def reorderHardLinks (root : TNode) (arr : List Path) : List Path :=
  reorderLoop root (arr.length + 1) arr 0

mutual
/-- `file_list_dfs` -/
def fileListNode (path : Path) : TNode → List Path
  | .mk _ a cs =>
      if isType a.mode sIFREG then [path]
      else if isDirMode a.mode then fileListChildren path cs
      else []
def fileListChildren (path : Path) : List TNode → List Path
  | [] => []
  | c :: cs => fileListNode (path ++ [c.name]) c ++ fileListChildren path cs
end

structure Result where
  tree : TNode
  /-- `fs->inodes`: node with inode number `k` is `inodes[k-1]` -/
  inodes : List Path
  /-- `fs->files` -/
  files : List Path
  deriving Repr, Inhabited

/-- `fstree_post_process` given the tree and `links_unresolved` -/
def postProcess (tree : TNode) (links : List Path) : Option Result :=
  match resolveHardLinks (links.length + 2) links tree with
  | none => none
  | some t =>
    let arr := allocOrder t
    if arr.length > 0xFFFFFFFF then none /- too many inodes -/
    else some { tree := t, inodes := reorderHardLinks t arr, files := fileListNode [] t }

/-- `fstree_init`: the root node -/
def initRoot (d : Defaults) : TNode :=
  .mk [] { mode := sIFDIR ||| (d.mode &&& 0o7777), uid := d.uid, gid := d.gid, modTime := d.mtime, linkCount := 2,
           rdev := 0, implicit := true, hard := false, extra := .none } []

/-- `dir_tree_iterator_create(path, cfg)` + `scan_directory` on an existing tree (a `glob` line, or `--pack-dir` with
`tree = initRoot`) -/
def scanInto (sorted : Bool) (d : Defaults) (cfg : Cfg) (fnm : Fnm) (rootDev : Nat) (forest : List HNode)
    (tree : TNode) (links : List Path) : Option (TNode × List Path) :=
  match walkList d cfg fnm [] rootDev (nativeOrder sorted forest) { seen := [], tree := tree, links := links } with
  | none => none
  | some st => some (st.tree, st.links)

/-- `fstree_get_node_by_path(fs, fs->root, path, create_implicitly = true, stop_at_parent = false)` as `glob_files`
uses it to fetch the target directory of a `glob` line -/
def mkdirImplicit (d : Defaults) : Path → TNode → Option TNode
  | [], t => some t
  | n :: rest, dir =>
      if !dir.isDir then none /- ENOTDIR -/
      else match childByName dir.children n with
        | some c =>
            match mkdirImplicit d rest c with
            | none => none
            | some c' => some (.mk dir.name dir.attr (replaceChild c' dir.children))
        | none =>
            let fresh := TNode.mk n { mknodeAttr (implicitEnt d) .none with implicit := true } []
            match mkdirImplicit d rest fresh with
            | none => none
            | some c' => linkChild dir c'

/-- `glob_files`: fetch (or implicitly create) the target directory, which becomes `cfg.prefix`, then scan.
The caller passes `cfg` with `pfx = target`. -/
def globInto (sorted : Bool) (d : Defaults) (cfg : Cfg) (fnm : Fnm) (rootDev : Nat) (forest : List HNode)
    (target : Path) (tree : TNode) (links : List Path) : Option (TNode × List Path) :=
  match mkdirImplicit d target tree with
  | none => none
  | some t1 =>
    match lookup t1 target with
    | none => none /- ENOENT -/
    | some r => if !r.isDir then none /- ENOTDIR -/ else scanInto sorted d cfg fnm rootDev forest t1 links

/-- `gensquashfs --pack-dir`: scan + post-process -/
def packDir (sorted : Bool) (d : Defaults) (cfg : Cfg) (fnm : Fnm) (rootDev : Nat) (forest : List HNode) :
    Option Result :=
  match scanInto sorted d cfg fnm rootDev forest (initRoot d) [] with
  | none => none
  | some (t, links) => postProcess t links

end Sqfs.C11Pinned
