/-
FROZEN HISTORICAL RECORD (C11) — theorems about the code as it was BEFORE /repo 7ff9210 (`sorted = false`: the native
iterator passes the readdir order through).  They were property theorems of C11 while that code was in /repo; they are
kept building (and are axiom-audited with the witness module) but are no longer claimed: the model they speak about
(`Sqfs.C11Pinned`, a frozen copy) is not compared with any real code.
-/
import Sqfs.Proofs.C11Pinned.Scan

namespace Sqfs.C11Pinned

/-- **The code as it was pinned** (`sorted = false`).  Outside the case "some file has more than one name inside the
scanned forest and hard-link detection is on" tree, inode numbering and file list do not depend on the enumeration. -/
theorem scan_perm_invariant_partial {e₁ e₂ : List HNode} (h : FPerm e₁ e₂) (hwf : WFList e₁)
    (d : Defaults) (cfg : Cfg) (fnm : Fnm) (rootDev : Nat)
    (hno : hasFlag cfg.flags Consts.dirScanNoHardlinks = true ∨ NoMultiLink e₁) :
    packDir false d cfg fnm rootDev e₁ = packDir false d cfg fnm rootDev e₂ := by
  unfold packDir
  rw [scanInto_false_fperm d cfg fnm rootDev h hwf hno]

/-- … and the same for a `glob` line on top of any tree built so far. -/
theorem scan_perm_invariant_glob_partial {e₁ e₂ : List HNode} (h : FPerm e₁ e₂) (hwf : WFList e₁)
    (d : Defaults) (cfg : Cfg) (fnm : Fnm) (rootDev : Nat) (target : Path) (tree : TNode) (links : List Path)
    (hno : hasFlag cfg.flags Consts.dirScanNoHardlinks = true ∨ NoMultiLink e₁) :
    globInto false d cfg fnm rootDev e₁ target tree links = globInto false d cfg fnm rootDev e₂ target tree links := by
  unfold globInto
  cases mkdirImplicit d target tree with
  | none => rfl
  | some t1 =>
    simp only
    cases lookup t1 target with
    | none => rfl
    | some r =>
      simp only
      split
      · rfl
      · exact scanInto_false_fperm d cfg fnm rootDev h hwf hno t1 links

/-- The repair (sorting in the native iterator) did not change what the old code computed where that was well defined. -/
theorem repair_conservative (e : List HNode) (hwf : WFList e) (d : Defaults) (cfg : Cfg) (fnm : Fnm) (rootDev : Nat)
    (hno : hasFlag cfg.flags Consts.dirScanNoHardlinks = true ∨ NoMultiLink e) :
    packDir true d cfg fnm rootDev e = packDir false d cfg fnm rootDev e := by
  have h := scan_perm_invariant_partial (fperm_nativeOrder e) hwf d cfg fnm rootDev hno
  rw [h]
  rfl

private def st (mode ino : Nat) : Stat := { mode := mode, uid := 0, gid := 0, mtime := 0, dev := 1, ino := ino, rdev := 0 }
private def fa : HNode := .mk [0x61] (st 0o100644 10) [] []
private def fb : HNode := .mk [0x62] (st 0o100644 11) [] []
private def fc : HNode := .mk [0x63] (st 0o100644 10) [] []
private def fe : HNode := .mk [0x65] (st 0o100644 13) [] []
private def dd (c : List HNode) : HNode := .mk [0x64] (st 0o040755 12) [] c

example : NoMultiLink [fa, fb, dd [fe]] ∧ WFList [fa, fb, dd [fe]] := by
  refine ⟨?_, ?_⟩
  · simp [NoMultiLink, keysList, keysNode, fa, fb, fe, dd, st, isDirMode, isType, Consts.sIFMT, Consts.sIFDIR]
  · simp [WFList, WFNode, HNode.name, fa, fb, fe, dd]

example : ¬ NoMultiLink [fa, fb, fc] := by
  simp [NoMultiLink, keysList, keysNode, fa, fb, fc, st, isDirMode, isType, Consts.sIFMT, Consts.sIFDIR]

end Sqfs.C11Pinned
