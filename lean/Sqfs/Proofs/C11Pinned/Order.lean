/-
Helper lemmas for C11 (Sqfs/Props/C11.lean): `strcmp` is a strict total order, sorted insertion commutes on
different names, sorting is invariant under permutations of lists with pairwise different names, the canonical
(sorted) enumeration of a forest is invariant under `FPerm`.
-/
import Sqfs.Proofs.C11Pinned.Spec

namespace Sqfs.C11Pinned

/-! ### `nameLt` (strcmp < 0) is a strict total order -/

theorem nameLt_irrefl (a : Name) : nameLt a a = false := by
  induction a with
  | nil => rfl
  | cons x xs ih => simp [nameLt, ih]

theorem nameLt_trans {a b c : Name} : nameLt a b = true → nameLt b c = true → nameLt a c = true := by
  induction a generalizing b c with
  | nil =>
    cases b <;> cases c <;> simp [nameLt]
  | cons x xs ih =>
    cases b with
    | nil => simp [nameLt]
    | cons y ys =>
      cases c with
      | nil => simp [nameLt]
      | cons z zs =>
        simp only [nameLt]
        intro h1 h2
        by_cases hxy : x.toNat < y.toNat
        · by_cases hyz : y.toNat < z.toNat
          · have : x.toNat < z.toNat := by omega
            simp [this]
          · simp only [hyz, if_false] at h2
            by_cases hyz' : y.toNat = z.toNat
            · have : x.toNat < z.toNat := by omega
              simp [this]
            · simp [hyz'] at h2
        · simp only [hxy, if_false] at h1
          by_cases hxy' : x.toNat = y.toNat
          · simp only [hxy', if_true] at h1
            by_cases hyz : y.toNat < z.toNat
            · have : x.toNat < z.toNat := by omega
              simp [this]
            · simp only [hyz, if_false] at h2
              by_cases hyz' : y.toNat = z.toNat
              · simp only [hyz', if_true] at h2
                have h3 : ¬ x.toNat < z.toNat := by omega
                have h4 : x.toNat = z.toNat := by omega
                simp only [h4, Nat.lt_irrefl, ↓reduceIte]
                exact ih h1 h2
              · simp [hyz'] at h2
          · simp [hxy'] at h1

theorem nameLt_total {a b : Name} : a ≠ b → nameLt a b = true ∨ nameLt b a = true := by
  induction a generalizing b with
  | nil => cases b <;> simp [nameLt]
  | cons x xs ih =>
    cases b with
    | nil => simp [nameLt]
    | cons y ys =>
      intro hne
      simp only [nameLt]
      by_cases h1 : x.toNat < y.toNat
      · simp [h1]
      · by_cases h2 : y.toNat < x.toNat
        · simp [h2]
        · have heq : x.toNat = y.toNat := by omega
          have hxy : x = y := UInt8.toNat_inj.mp heq
          have hne' : xs ≠ ys := by
            intro h; apply hne; rw [hxy, h]
          simp only [heq, Nat.lt_irrefl, ↓reduceIte]
          exact ih hne'

theorem nameLt_asymm {a b : Name} (h : nameLt a b = true) : nameLt b a = false := by
  cases hba : nameLt b a with
  | false => rfl
  | true =>
    have := nameLt_trans h hba
    rw [nameLt_irrefl] at this
    cases this

/-! ### sorted insertion commutes for different keys -/

theorem insertBy_comm {α : Type} (key : α → Name) (a b : α) (h : key a ≠ key b) (l : List α) :
    insertBy key a (insertBy key b l) = insertBy key b (insertBy key a l) := by
  induction l with
  | nil =>
    simp only [insertBy]
    rcases nameLt_total h with hab | hba
    · simp [hab, nameLt_asymm hab]
    · simp [hba, nameLt_asymm hba]
  | cons y ys ih =>
    simp only [insertBy]
    by_cases hyb : nameLt (key y) (key b) = true
    · by_cases hya : nameLt (key y) (key a) = true
      · simp [hyb, hya, insertBy, ih]
      · -- y < b, ¬ y < a  ⇒  a ≤ y < b ⇒ a < b
        have hab : nameLt (key a) (key b) = true := by
          by_cases hay : key a = key y
          · rw [hay]; exact hyb
          · rcases nameLt_total hay with h1 | h1
            · exact nameLt_trans h1 hyb
            · exact absurd h1 hya
        simp [hyb, hya, insertBy, hab]
    · by_cases hya : nameLt (key y) (key a) = true
      · have hba : nameLt (key b) (key a) = true := by
          by_cases hby : key b = key y
          · rw [hby]; exact hya
          · rcases nameLt_total hby with h1 | h1
            · exact nameLt_trans h1 hya
            · exact absurd h1 hyb
        simp [hyb, hya, insertBy, hba]
      · rcases nameLt_total h with hab | hba
        · simp [hyb, hya, insertBy, hab, nameLt_asymm hab]
        · simp [hyb, hya, insertBy, hba, nameLt_asymm hba]

theorem insertBy_perm {α : Type} (key : α → Name) (a : α) (l : List α) : (insertBy key a l).Perm (a :: l) := by
  induction l with
  | nil => simp [insertBy]
  | cons y ys ih =>
    simp only [insertBy]
    split
    · exact (List.Perm.cons y ih).trans (List.Perm.swap a y ys)
    · exact List.Perm.refl _

theorem inj_of_nodup_map {α β : Type} {f : α → β} {l : List α} (h : (l.map f).Nodup) {x y : α}
    (hx : x ∈ l) (hy : y ∈ l) (hf : f x = f y) : x = y := by
  induction l with
  | nil => cases hx
  | cons a as ih =>
    simp only [List.map_cons, List.nodup_cons, List.mem_map, not_exists, not_and] at h
    rcases List.mem_cons.mp hx with rfl | hx'
    · rcases List.mem_cons.mp hy with rfl | hy'
      · rfl
      · exact absurd hf.symm (h.1 y hy')
    · rcases List.mem_cons.mp hy with rfl | hy'
      · exact absurd hf (h.1 x hx')
      · exact ih h.2 hx' hy'

theorem insertBy_mem {α : Type} (key : α → Name) (a : α) (l : List α) (z : α) :
    z ∈ insertBy key a l ↔ z = a ∨ z ∈ l := by
  rw [(insertBy_perm key a l).mem_iff, List.mem_cons]

/-- `insert_sorted` keeps a strictly sorted list strictly sorted when the new name is not yet present -/
theorem insertBy_sorted {α : Type} (key : α → Name) (a : α) (l : List α)
    (hs : SortedNames (l.map key)) (hnew : ∀ y ∈ l, key y ≠ key a) : SortedNames ((insertBy key a l).map key) := by
  unfold SortedNames at *
  induction l with
  | nil => simp [insertBy]
  | cons y ys ih =>
    simp only [List.map_cons, List.pairwise_cons, List.mem_map, forall_exists_index, and_imp,
      forall_apply_eq_imp_iff₂] at hs
    simp only [insertBy]
    split
    · rename_i hlt
      simp only [List.map_cons, List.pairwise_cons, List.mem_map, forall_exists_index, and_imp,
        forall_apply_eq_imp_iff₂]
      refine ⟨?_, ih hs.2 (fun z hz => hnew z (List.mem_cons_of_mem _ hz))⟩
      intro z hz
      rcases (insertBy_mem key a ys z).mp hz with rfl | hz'
      · exact hlt
      · exact hs.1 z hz'
    · rename_i hnlt
      have hay : nameLt (key a) (key y) = true := by
        rcases nameLt_total (hnew y List.mem_cons_self) with h | h
        · exact absurd h hnlt
        · exact h
      simp only [List.map_cons, List.pairwise_cons, List.mem_cons, List.mem_map, forall_eq_or_imp,
        forall_exists_index, and_imp, forall_apply_eq_imp_iff₂]
      exact ⟨⟨hay, fun z hz => nameLt_trans hay (hs.1 z hz)⟩, hs.1, hs.2⟩

/-- inserting a set of elements with pairwise different keys in any order, into any list, gives the same list -/
theorem foldl_insertBy_perm {α : Type} (key : α → Name) {l₁ l₂ : List α} (hp : l₁.Perm l₂)
    (hnd : (l₁.map key).Nodup) (init : List α) :
    l₁.foldl (fun acc x => insertBy key x acc) init = l₂.foldl (fun acc x => insertBy key x acc) init := by
  apply hp.foldl_eq'
  intro x hx y hy z
  by_cases hxy : x = y
  · rw [hxy]
  · have : key x ≠ key y := fun hk => hxy (inj_of_nodup_map hnd hx hy hk)
    exact insertBy_comm key y x (Ne.symm this) z

theorem foldr_insertBy_perm {α : Type} (key : α → Name) {l₁ l₂ : List α} (hp : l₁.Perm l₂)
    (hnd : (l₁.map key).Nodup) (init : List α) :
    l₁.foldr (insertBy key) init = l₂.foldr (insertBy key) init := by
  apply hp.foldr_eq'
  intro x hx y hy z
  by_cases hxy : x = y
  · rw [hxy]
  · have : key x ≠ key y := fun hk => hxy (inj_of_nodup_map hnd hx hy hk)
    exact insertBy_comm key y x (Ne.symm this) z

theorem sortByName_perm {l₁ l₂ : List HNode} (hp : l₁.Perm l₂) (hnd : (l₁.map HNode.name).Nodup) :
    sortByName l₁ = sortByName l₂ := by
  unfold sortByName
  exact foldr_insertBy_perm HNode.name hp hnd []

theorem sortByName_perm_self (l : List HNode) : (sortByName l).Perm l := by
  induction l with
  | nil => exact List.Perm.refl _
  | cons x xs ih =>
    show (insertBy HNode.name x (sortByName xs)).Perm (x :: xs)
    exact (insertBy_perm _ _ _).trans (List.Perm.cons x ih)

/-! ### the canonical (sorted) enumeration is invariant under `FPerm` -/

theorem canonNode_name (x : HNode) : (canonNode x).name = x.name := by
  cases x; simp [canonNode, HNode.name]

theorem canonList_map_name (l : List HNode) : (canonList l).map HNode.name = l.map HNode.name := by
  induction l with
  | nil => simp [canonList]
  | cons x xs ih => simp [canonList, canonNode_name, ih]

theorem fperm_names {l₁ l₂ : List HNode} (h : FPerm l₁ l₂) : (l₁.map HNode.name).Perm (l₂.map HNode.name) := by
  induction h with
  | nil => exact List.Perm.refl _
  | cons _ _ _ ih => simp only [List.map_cons, HNode.name]; exact List.Perm.cons _ ih
  | swap a b l => simpa using List.Perm.swap _ _ _
  | trans _ _ ih₁ ih₂ => exact ih₁.trans ih₂

theorem wfList_cons (x : HNode) (xs : List HNode) :
    WFList (x :: xs) ↔ (∀ y ∈ xs, y.name ≠ x.name) ∧ WFNode x ∧ WFList xs := by
  simp [WFList]

theorem wfNode_mk (n : Name) (s : Stat) (t : List UInt8) (c : List HNode) : WFNode (.mk n s t c) ↔ WFList c := by
  simp [WFNode]

theorem fperm_wf {l₁ l₂ : List HNode} (h : FPerm l₁ l₂) : WFList l₁ → WFList l₂ := by
  induction h with
  | nil => exact id
  | @cons n s t c c' l l' hc hl ihc ihl =>
    rw [wfList_cons, wfList_cons, wfNode_mk, wfNode_mk]
    rintro ⟨h1, h2, h3⟩
    refine ⟨?_, ihc h2, ihl h3⟩
    intro y hy
    have hy' : y.name ∈ l'.map HNode.name := List.mem_map_of_mem hy
    have hy'' : y.name ∈ l.map HNode.name := (fperm_names hl).mem_iff.mpr hy'
    rcases List.mem_map.mp hy'' with ⟨y0, hy0, hname⟩
    rw [← hname]
    exact h1 y0 hy0
  | swap a b l =>
    rw [wfList_cons, wfList_cons, wfList_cons, wfList_cons]
    rintro ⟨h1, h2, h3, h4, h5⟩
    refine ⟨?_, h4, ?_, h2, h5⟩
    · intro y hy
      rcases List.mem_cons.mp hy with rfl | hy'
      · exact Ne.symm (h1 b (List.mem_cons_self))
      · exact h3 y hy'
    · intro y hy
      exact h1 y (List.mem_cons_of_mem _ hy)
  | trans _ _ ih₁ ih₂ => exact fun h => ih₂ (ih₁ h)

theorem wfList_nodup {l : List HNode} (h : WFList l) : (l.map HNode.name).Nodup := by
  induction l with
  | nil => simp
  | cons x xs ih =>
    rw [wfList_cons] at h
    rw [List.map_cons, List.nodup_cons]
    refine ⟨?_, ih h.2.2⟩
    intro hmem
    rcases List.mem_map.mp hmem with ⟨y, hy, hname⟩
    exact h.1 y hy hname

theorem fperm_canon {l₁ l₂ : List HNode} (h : FPerm l₁ l₂) : WFList l₁ → (canonList l₁).Perm (canonList l₂) := by
  induction h with
  | nil => intro _; exact List.Perm.refl _
  | @cons n s t c c' l l' hc hl ihc ihl =>
    rw [wfList_cons, wfNode_mk]
    rintro ⟨_, h2, h3⟩
    have hs : sortByName (canonList c) = sortByName (canonList c') := by
      apply sortByName_perm (ihc h2)
      rw [canonList_map_name]
      exact wfList_nodup h2
    simp only [canonList, canonNode, hs]
    exact List.Perm.cons _ (ihl h3)
  | swap a b l =>
    intro _
    simp only [canonList]
    exact List.Perm.swap _ _ _
  | trans h₁ _ ih₁ ih₂ => exact fun h => (ih₁ h).trans (ih₂ (fperm_wf h₁ h))

/-- the repaired native iterator hands the same enumeration to the layers above, whatever order readdir used -/
theorem nativeOrder_sorted_fperm {l₁ l₂ : List HNode} (h : FPerm l₁ l₂) (hwf : WFList l₁) :
    nativeOrder true l₁ = nativeOrder true l₂ := by
  simp only [nativeOrder, if_true]
  apply sortByName_perm (fperm_canon h hwf)
  rw [canonList_map_name]
  exact wfList_nodup hwf

mutual
theorem fperm_refl_node : ∀ x : HNode, FPerm x.children x.children
  | .mk _ _ _ c => fperm_refl c
theorem fperm_refl : ∀ l : List HNode, FPerm l l
  | [] => FPerm.nil
  | .mk n s t c :: xs => FPerm.cons (fperm_refl_node (.mk n s t c)) (fperm_refl xs)
end

end Sqfs.C11Pinned
