/-
C11, code as pinned (`sorted = false`): the scan is independent of the enumeration order as long as the hard-link
filter never fires (hard-link detection off, or no file with more than one name).

Structure of the argument:
  A. under that hypothesis the walk with the hard-link filter computes the same tree as the walk without it (`walkListNH`);
  E. the walk without the filter, which re-resolves every path from the root of the tree (`fstree_add_generic`), equals a
     *local* walk on the directory node being filled (`walkLocalList`), grafted back into the tree;
  C. the local walk of one entry only touches the child with that entry's name (`applyChild`), and updates of children
     with different names commute; hence the local walk is invariant under `FPerm`.
-/
import Sqfs.Proofs.C11Pinned.Order

namespace Sqfs.C11Pinned

/-! ### child lists: `childByName`, `replaceChild`, `insertBy` -/

theorem childByName_some_name {cs : List TNode} {n : Name} {c : TNode} (h : childByName cs n = some c) : c.name = n := by
  induction cs with
  | nil => simp [childByName] at h
  | cons x xs ih =>
    simp only [childByName] at h
    split at h
    · cases h; assumption
    · exact ih h

theorem childByName_replaceChild_ne (c' : TNode) (cs : List TNode) (m : Name) (h : m ≠ c'.name) :
    childByName (replaceChild c' cs) m = childByName cs m := by
  induction cs with
  | nil => rfl
  | cons x xs ih =>
    simp only [replaceChild]
    split
    · rename_i hx
      simp only [childByName]
      have h1 : ¬ c'.name = m := fun e => h e.symm
      have h2 : ¬ x.name = m := fun e => h (by rw [← e, hx])
      simp [h1, h2]
    · simp only [childByName, ih]

theorem childByName_insertBy_ne (x : TNode) (cs : List TNode) (m : Name) (h : m ≠ x.name) :
    childByName (insertBy TNode.name x cs) m = childByName cs m := by
  induction cs with
  | nil =>
    have h1 : ¬ x.name = m := fun e => h e.symm
    simp [insertBy, childByName, h1]
  | cons y ys ih =>
    simp only [insertBy]
    split
    · simp only [childByName, ih]
    · have h1 : ¬ x.name = m := fun e => h e.symm
      simp [childByName, h1]

theorem childByName_replaceChild_self (c' : TNode) (cs : List TNode) (c : TNode)
    (h : childByName cs c'.name = some c) : childByName (replaceChild c' cs) c'.name = some c' := by
  induction cs with
  | nil => simp [childByName] at h
  | cons x xs ih =>
    simp only [childByName] at h
    simp only [replaceChild]
    split at h
    · rename_i hx; simp [hx, childByName]
    · rename_i hx; simp [hx, childByName, ih h]

theorem childByName_insertBy_self (x : TNode) (cs : List TNode) (h : childByName cs x.name = none) :
    childByName (insertBy TNode.name x cs) x.name = some x := by
  induction cs with
  | nil => simp [insertBy, childByName]
  | cons y ys ih =>
    simp only [childByName] at h
    split at h
    · cases h
    · rename_i hy
      simp only [insertBy]
      split
      · simp [childByName, hy, ih h]
      · simp [childByName]

theorem replaceChild_self (cs : List TNode) (c : TNode) (h : childByName cs c.name = some c) :
    replaceChild c cs = cs := by
  induction cs with
  | nil => rfl
  | cons x xs ih =>
    simp only [childByName] at h
    simp only [replaceChild]
    split at h
    · cases h; simp
    · rename_i hx; simp [hx, ih h]

theorem replaceChild_comm (a b : TNode) (cs : List TNode) (h : a.name ≠ b.name) :
    replaceChild a (replaceChild b cs) = replaceChild b (replaceChild a cs) := by
  induction cs with
  | nil => rfl
  | cons x xs ih =>
    by_cases hxa : x.name = a.name
    · have hxb : ¬ x.name = b.name := fun e => h (hxa.symm.trans e)
      have hab : ¬ a.name = b.name := h
      simp [replaceChild, hxa, hxb, hab]
    · by_cases hxb : x.name = b.name
      · have hba : ¬ b.name = a.name := fun e => h e.symm
        simp [replaceChild, hxa, hxb, hba]
      · simp [replaceChild, hxa, hxb, ih]

theorem replaceChild_insertBy_comm (a b : TNode) (cs : List TNode) (h : a.name ≠ b.name) :
    replaceChild a (insertBy TNode.name b cs) = insertBy TNode.name b (replaceChild a cs) := by
  induction cs with
  | nil =>
    have : ¬ b.name = a.name := fun e => h e.symm
    simp [insertBy, replaceChild, this]
  | cons x xs ih =>
    by_cases hxa : x.name = a.name
    · have hba : ¬ b.name = a.name := fun e => h e.symm
      simp only [insertBy, replaceChild, hxa, if_true]
      split
      · simp [replaceChild, hxa]
      · simp [replaceChild, hxa, hba]
    · have hba : ¬ b.name = a.name := fun e => h e.symm
      simp only [insertBy, replaceChild, hxa, if_false]
      split
      · simp [replaceChild, hxa, ih]
      · simp [replaceChild, hxa, hba]

/-- replacing the freshly inserted child -/
theorem replaceChild_insertBy_self (x y : TNode) (cs : List TNode) (hn : y.name = x.name)
    (h : childByName cs x.name = none) :
    replaceChild y (insertBy TNode.name x cs) = insertBy TNode.name y cs := by
  induction cs with
  | nil => simp [insertBy, replaceChild, hn]
  | cons z zs ih =>
    simp only [childByName] at h
    split at h
    · cases h
    · rename_i hz
      have hz' : ¬ z.name = y.name := by rw [hn]; exact hz
      simp only [insertBy, hn]
      split
      · simp [replaceChild, hz', ih h]
      · simp [replaceChild, hn]

/-! ### updating one child of a directory node; updates of different children commute -/

/-- Update the child named `n` of directory node `D` with the transformer `T`: `T` sees the existing child (or `none`)
and answers `none` (failure), `some none` (leave `D` alone) or `some (some Y)` (the new child: replaces the existing
one in place, or is linked in with `insert_sorted` + `link_count++` as `mknode` does). -/
def applyChild (n : Name) (T : Option TNode → Option (Option TNode)) (D : TNode) : Option TNode :=
  match T (childByName D.children n) with
  | none => none
  | some none => some D
  | some (some Y) =>
    match childByName D.children n with
    | some _ => some (.mk D.name D.attr (replaceChild Y D.children))
    | none => linkChild D Y

/-- the transformer answers with a node of the right name -/
def NameOK (n : Name) (T : Option TNode → Option (Option TNode)) : Prop :=
  ∀ (c? : Option TNode) (Y : TNode), (∀ c, c? = some c → c.name = n) → T c? = some (some Y) → Y.name = n

theorem childByName_nameok {cs : List TNode} {n : Name} : ∀ c, childByName cs n = some c → c.name = n :=
  fun _ h => childByName_some_name h

@[simp] theorem TNode.name_mk (n : Name) (a : Attr) (c : List TNode) : (TNode.mk n a c).name = n := rfl
@[simp] theorem TNode.attr_mk (n : Name) (a : Attr) (c : List TNode) : (TNode.mk n a c).attr = a := rfl
@[simp] theorem TNode.children_mk (n : Name) (a : Attr) (c : List TNode) : (TNode.mk n a c).children = c := rfl

theorem applyChild_mk (n : Name) (T : Option TNode → Option (Option TNode)) (dn : Name) (da : Attr) (dc : List TNode) :
    applyChild n T (.mk dn da dc) =
      match T (childByName dc n) with
      | none => none
      | some none => some (.mk dn da dc)
      | some (some Y) =>
        match childByName dc n with
        | some _ => some (.mk dn da (replaceChild Y dc))
        | none => if da.linkCount = 0xFFFFFFFF then none
                  else some (.mk dn { da with linkCount := da.linkCount + 1 } (insertBy TNode.name Y dc)) := by
  simp only [applyChild, TNode.children_mk, TNode.name_mk, TNode.attr_mk, linkChild, insertSorted]

theorem applyChild_comm {n₁ n₂ : Name} {T₁ T₂ : Option TNode → Option (Option TNode)} (hne : n₁ ≠ n₂)
    (ok₁ : NameOK n₁ T₁) (ok₂ : NameOK n₂ T₂) (D : TNode) :
    (applyChild n₁ T₁ D).bind (applyChild n₂ T₂) = (applyChild n₂ T₂ D).bind (applyChild n₁ T₁) := by
  obtain ⟨dn, da, dc⟩ := D
  generalize hc1 : childByName dc n₁ = o1
  generalize hc2 : childByName dc n₂ = o2
  have nm1 : ∀ c, o1 = some c → c.name = n₁ := fun c h => childByName_some_name (hc1.trans h)
  have nm2 : ∀ c, o2 = some c → c.name = n₂ := fun c h => childByName_some_name (hc2.trans h)
  have E1 : ∀ Y : TNode, Y.name = n₁ → childByName (replaceChild Y dc) n₂ = o2 ∧
      childByName (insertBy TNode.name Y dc) n₂ = o2 := by
    intro Y hY
    exact ⟨(childByName_replaceChild_ne Y dc n₂ (by rw [hY]; exact hne.symm)).trans hc2,
           (childByName_insertBy_ne Y dc n₂ (by rw [hY]; exact hne.symm)).trans hc2⟩
  have E2 : ∀ Y : TNode, Y.name = n₂ → childByName (replaceChild Y dc) n₁ = o1 ∧
      childByName (insertBy TNode.name Y dc) n₁ = o1 := by
    intro Y hY
    exact ⟨(childByName_replaceChild_ne Y dc n₁ (by rw [hY]; exact hne)).trans hc1,
           (childByName_insertBy_ne Y dc n₁ (by rw [hY]; exact hne)).trans hc1⟩
  cases hx1 : T₁ o1 with
  | none =>
    cases hx2 : T₂ o2 with
    | none => simp [applyChild_mk, hc1, hc2, hx1, hx2]
    | some r2 =>
      cases r2 with
      | none => simp [applyChild_mk, hc1, hc2, hx1, hx2]
      | some Y2 =>
        have hY2 : Y2.name = n₂ := ok₂ _ Y2 nm2 hx2
        cases o2 with
        | some c2 => simp [applyChild_mk, hc1, hc2, hx1, hx2, (E2 Y2 hY2).1]
        | none =>
          by_cases hlc : da.linkCount = 0xFFFFFFFF
          · simp [applyChild_mk, hc1, hc2, hx1, hx2, hlc]
          · simp [applyChild_mk, hc1, hc2, hx1, hx2, hlc, (E2 Y2 hY2).2]
  | some r1 =>
    cases r1 with
    | none =>
      cases hx2 : T₂ o2 with
      | none => simp [applyChild_mk, hc1, hc2, hx1, hx2]
      | some r2 =>
        cases r2 with
        | none => simp [applyChild_mk, hc1, hc2, hx1, hx2]
        | some Y2 =>
          have hY2 : Y2.name = n₂ := ok₂ _ Y2 nm2 hx2
          cases o2 with
          | some c2 => simp [applyChild_mk, hc1, hc2, hx1, hx2, (E2 Y2 hY2).1]
          | none =>
            by_cases hlc : da.linkCount = 0xFFFFFFFF
            · simp [applyChild_mk, hc1, hc2, hx1, hx2, hlc]
            · simp [applyChild_mk, hc1, hc2, hx1, hx2, hlc, (E2 Y2 hY2).2]
    | some Y1 =>
      have hY1 : Y1.name = n₁ := ok₁ _ Y1 nm1 hx1
      cases hx2 : T₂ o2 with
      | none =>
        cases o1 with
        | some c1 => simp [applyChild_mk, hc1, hc2, hx1, hx2, (E1 Y1 hY1).1]
        | none =>
          by_cases hlc : da.linkCount = 0xFFFFFFFF
          · simp [applyChild_mk, hc1, hc2, hx1, hx2, hlc]
          · simp [applyChild_mk, hc1, hc2, hx1, hx2, hlc, (E1 Y1 hY1).2]
      | some r2 =>
        cases r2 with
        | none =>
          cases o1 with
          | some c1 => simp [applyChild_mk, hc1, hc2, hx1, hx2, (E1 Y1 hY1).1]
          | none =>
            by_cases hlc : da.linkCount = 0xFFFFFFFF
            · simp [applyChild_mk, hc1, hc2, hx1, hx2, hlc]
            · simp [applyChild_mk, hc1, hc2, hx1, hx2, hlc, (E1 Y1 hY1).2]
        | some Y2 =>
          have hY2 : Y2.name = n₂ := ok₂ _ Y2 nm2 hx2
          have hYne : Y1.name ≠ Y2.name := by rw [hY1, hY2]; exact hne
          cases o1 with
          | some c1 =>
            cases o2 with
            | some c2 =>
              simp [applyChild_mk, hc1, hc2, hx1, hx2, (E1 Y1 hY1).1, (E2 Y2 hY2).1,
                replaceChild_comm Y2 Y1 dc hYne.symm]
            | none =>
              by_cases hlc : da.linkCount = 0xFFFFFFFF
              · simp [applyChild_mk, hc1, hc2, hx1, hx2, hlc, (E1 Y1 hY1).1]
              · simp [applyChild_mk, hc1, hc2, hx1, hx2, hlc, (E1 Y1 hY1).1, (E2 Y2 hY2).2,
                  replaceChild_insertBy_comm Y1 Y2 dc hYne]
          | none =>
            cases o2 with
            | some c2 =>
              by_cases hlc : da.linkCount = 0xFFFFFFFF
              · simp [applyChild_mk, hc1, hc2, hx1, hx2, hlc, (E2 Y2 hY2).1]
              · simp [applyChild_mk, hc1, hc2, hx1, hx2, hlc, (E2 Y2 hY2).1, (E1 Y1 hY1).2,
                  replaceChild_insertBy_comm Y2 Y1 dc hYne.symm]
            | none =>
              by_cases hlc : da.linkCount = 0xFFFFFFFF
              · simp [applyChild_mk, hc1, hc2, hx1, hx2, hlc]
              · by_cases hlc' : da.linkCount + 1 = 0xFFFFFFFF
                · simp [applyChild_mk, hc1, hc2, hx1, hx2, hlc, hlc', (E1 Y1 hY1).2, (E2 Y2 hY2).2]
                · simp [applyChild_mk, hc1, hc2, hx1, hx2, hlc, hlc', (E1 Y1 hY1).2, (E2 Y2 hY2).2,
                    insertBy_comm TNode.name Y2 Y1 hYne.symm dc]

/-! ### the walk without the hard-link filter, and its local form -/

/-- the entry-level computation of the iterator stack with the hard-link filter bypassed -/
def iterNH (cfg : Cfg) (fnm : Fnm) (rel : Path) (dirDev : Nat) (name : Name) (s : Stat) : Option Ent × Bool :=
  treeIterStep cfg fnm (nativeEntry rel dirDev name s)

/-- body of `scan_directory`'s loop on the tree alone (no hard-link target) -/
def scanStepNH (d : Defaults) (cfg : Cfg) (e : Ent) (symTarget : List UInt8) (t : TNode) : Option (TNode × Bool) :=
  match parentOf t e.path with
  | none => some (t, isDirMode e.mode)
  | some _ =>
    match addPath d e (scanExtra cfg e none symTarget) e.path t with
    | none => none
    | some t' => some (t', false)

mutual
def walkNodeNH (d : Defaults) (cfg : Cfg) (fnm : Fnm) (rel : Path) (dirDev : Nat) (h : HNode) (t : TNode) : Option TNode :=
  match h with
  | .mk name s target children =>
    if name = dotName || name = dotDotName then some t
    else
      let r : Option (TNode × Bool) :=
        match (iterNH cfg fnm rel dirDev name s).1 with
        | none => some (t, false)
        | some e2 => scanStepNH d cfg e2 target t
      match r with
      | none => none
      | some (t', ignored) =>
        if isDirMode s.mode && (iterNH cfg fnm rel dirDev name s).2 && !ignored then
          walkListNH d cfg fnm (rel ++ [name]) s.dev children t'
        else some t'
def walkListNH (d : Defaults) (cfg : Cfg) (fnm : Fnm) (rel : Path) (dirDev : Nat) (l : List HNode) (t : TNode) : Option TNode :=
  match l with
  | [] => some t
  | h :: hs =>
    match walkNodeNH d cfg fnm rel dirDev h t with
    | none => none
    | some t' => walkListNH d cfg fnm rel dirDev hs t'
end

mutual
/-- what scanning the host entry `h` (and everything below it) does to the child of that name of the directory node
being filled: `c?` is the existing child -/
def childT (d : Defaults) (cfg : Cfg) (fnm : Fnm) (rel : Path) (dirDev : Nat) (h : HNode) (c? : Option TNode) :
    Option (Option TNode) :=
  match h with
  | .mk name s target children =>
    if name = dotName || name = dotDotName then some c?
    else
      let c1? : Option (Option TNode) :=
        match (iterNH cfg fnm rel dirDev name s).1 with
        | none => some c?
        | some e2 =>
          match c? with
          | some c => (overwrite c e2).map some
          | none => some (some (.mk name (mknodeAttr e2 (scanExtra cfg e2 none target)) []))
      match c1? with
      | none => none
      | some c1 =>
        if isDirMode s.mode && (iterNH cfg fnm rel dirDev name s).2 then
          match c1 with
          | some C =>
            if C.isDir then (walkLocalList d cfg fnm (rel ++ [name]) s.dev children C).map some else some (some C)
          | none => some none
        else some c1
/-- the scan of the entries `l` of one host directory, acting on the tree node `D` of that directory -/
def walkLocalList (d : Defaults) (cfg : Cfg) (fnm : Fnm) (rel : Path) (dirDev : Nat) (l : List HNode) (D : TNode) :
    Option TNode :=
  match l with
  | [] => some D
  | h :: hs =>
    match applyChild h.name (fun c? => childT d cfg fnm rel dirDev h c?) D with
    | none => none
    | some D' => walkLocalList d cfg fnm rel dirDev hs D'
end

theorem overwrite_name {c c' : TNode} {e : Ent} (h : overwrite c e = some c') : c'.name = c.name := by
  obtain ⟨n, a, cs⟩ := c
  simp only [overwrite] at h
  split at h
  · cases h
  · cases h; rfl

theorem applyChild_name {n : Name} {T : Option TNode → Option (Option TNode)} {D D' : TNode}
    (h : applyChild n T D = some D') : D'.name = D.name := by
  obtain ⟨dn, da, dc⟩ := D
  rw [applyChild_mk] at h
  split at h
  · cases h
  · cases h; rfl
  · split at h
    · cases h; rfl
    · split at h
      · cases h
      · cases h; rfl

theorem walkLocalList_name (d : Defaults) (cfg : Cfg) (fnm : Fnm) :
    ∀ (l : List HNode) (rel : Path) (dirDev : Nat) (D D' : TNode),
      walkLocalList d cfg fnm rel dirDev l D = some D' → D'.name = D.name
  | [], _, _, D, D', h => by
    simp only [walkLocalList] at h; cases h; rfl
  | x :: xs, rel, dirDev, D, D', h => by
    simp only [walkLocalList] at h
    split at h
    · cases h
    · rename_i D1 h1
      rw [walkLocalList_name d cfg fnm xs rel dirDev D1 D' h, applyChild_name h1]

theorem childT_nameOK (d : Defaults) (cfg : Cfg) (fnm : Fnm) (rel : Path) (dirDev : Nat) (h : HNode) :
    NameOK h.name (fun c? => childT d cfg fnm rel dirDev h c?) := by
  obtain ⟨name, s, target, children⟩ := h
  intro c? Y hc hT
  simp only [HNode.name] at hc ⊢
  simp only [childT] at hT
  split at hT
  · -- "." / ".."
    cases hT; exact hc Y rfl
  · split at hT
    · cases hT
    · rename_i c1 hc1
      -- name of the child after the entry phase
      have hname1 : ∀ C, c1 = some C → C.name = name := by
        intro C hC
        subst hC
        split at hc1
        · cases hc1; exact hc C rfl
        · split at hc1
          · rename_i c
            simp only [Option.map_eq_some_iff] at hc1
            obtain ⟨c', hov, hc'⟩ := hc1
            cases hc'
            rw [overwrite_name hov]; exact hc c rfl
          · cases hc1; rfl
      split at hT
      · split at hT
        · rename_i C
          split at hT
          · simp only [Option.map_eq_some_iff] at hT
            obtain ⟨C', hw, hC'⟩ := hT
            cases hC'
            rw [walkLocalList_name d cfg fnm _ _ _ _ _ hw]; exact hname1 C rfl
          · cases hT; exact hname1 Y rfl
        · cases hT
      · cases hT; exact hname1 Y rfl

/-- **C.** the local walk does not depend on the order of the entries -/
theorem walkLocalList_fperm (d : Defaults) (cfg : Cfg) (fnm : Fnm) {l₁ l₂ : List HNode} (h : FPerm l₁ l₂) :
    WFList l₁ → ∀ (rel : Path) (dirDev : Nat) (D : TNode),
      walkLocalList d cfg fnm rel dirDev l₁ D = walkLocalList d cfg fnm rel dirDev l₂ D := by
  induction h with
  | nil => intros; rfl
  | @cons n s t c c' l l' hc hl ihc ihl =>
    rw [wfList_cons, wfNode_mk]
    rintro ⟨_, h2, h3⟩ rel dirDev D
    have hT : (fun c? => childT d cfg fnm rel dirDev (.mk n s t c) c?) =
        (fun c? => childT d cfg fnm rel dirDev (.mk n s t c') c?) := by
      funext c?
      simp only [childT, ihc h2]
    simp only [walkLocalList, HNode.name, hT]
    split
    · rfl
    · exact ihl h3 rel dirDev _
  | swap a b l =>
    rw [wfList_cons]
    rintro ⟨h1, _, _⟩ rel dirDev D
    have hne : a.name ≠ b.name := Ne.symm (h1 b List.mem_cons_self)
    have hcomm := applyChild_comm hne (childT_nameOK d cfg fnm rel dirDev a) (childT_nameOK d cfg fnm rel dirDev b) D
    simp only [walkLocalList]
    cases ha : applyChild a.name (fun c? => childT d cfg fnm rel dirDev a c?) D with
    | none =>
      cases hb : applyChild b.name (fun c? => childT d cfg fnm rel dirDev b c?) D with
      | none => rfl
      | some Db =>
        simp only [ha, hb, Option.bind_none, Option.bind_some] at hcomm
        simp only [← hcomm]
    | some Da =>
      cases hb : applyChild b.name (fun c? => childT d cfg fnm rel dirDev b c?) D with
      | none =>
        simp only [ha, hb, Option.bind_none, Option.bind_some] at hcomm
        simp only [hcomm]
      | some Db =>
        simp only [ha, hb, Option.bind_some] at hcomm
        simp only [hcomm]
  | trans h₁ _ ih₁ ih₂ =>
    intro hwf rel dirDev D
    rw [ih₁ hwf, ih₂ (fperm_wf h₁ hwf)]

/-! ### grafting a subtree; locality of `lookup`, `parentOf`, `addPath` -/

/-- replace the node at path `q` by `X` -/
def graft (t : TNode) (q : Path) (X : TNode) : TNode := modifyAt (fun _ => X) q t

theorem TNode.eta (t : TNode) : TNode.mk t.name t.attr t.children = t := by cases t; rfl

@[simp] theorem graft_nil (t X : TNode) : graft t [] X = X := rfl

theorem graft_cons (t : TNode) (n : Name) (q : Path) (X : TNode) :
    graft t (n :: q) X = match childByName t.children n with
      | some c => .mk t.name t.attr (replaceChild (graft c q X) t.children)
      | none => t := rfl

theorem lookup_cons (t : TNode) (n : Name) (q : Path) :
    lookup t (n :: q) = if !t.isDir then none else match childByName t.children n with
      | some c => lookup c q
      | none => none := rfl

theorem lookup_append (t : TNode) (q r : Path) : lookup t (q ++ r) = (lookup t q).bind (fun D => lookup D r) := by
  induction q generalizing t with
  | nil => simp [lookup]
  | cons n q ih =>
    simp only [List.cons_append, lookup_cons]
    split
    · rfl
    · split
      · exact ih _
      · rfl

theorem lookup_single (D : TNode) (n : Name) :
    lookup D [n] = if !D.isDir then none else childByName D.children n := by
  simp only [lookup_cons]
  split
  · rfl
  · split <;> simp_all [lookup]

theorem graft_name (t : TNode) (n : Name) (q : Path) (X : TNode) : (graft t (n :: q) X).name = t.name := by
  rw [graft_cons]; split <;> rfl

theorem graft_attr (t : TNode) (n : Name) (q : Path) (X : TNode) : (graft t (n :: q) X).attr = t.attr := by
  rw [graft_cons]; split <;> rfl

theorem graft_self {t D : TNode} {q : Path} (h : lookup t q = some D) : graft t q D = t := by
  induction q generalizing t with
  | nil => simp only [lookup] at h; cases h; rfl
  | cons n q ih =>
    rw [lookup_cons] at h
    split at h
    · cases h
    · split at h
      · rename_i c hc
        rw [graft_cons, hc]
        simp only [ih h]
        rw [replaceChild_self _ _ (by rw [childByName_some_name hc]; exact hc)]
        exact TNode.eta t
      · cases h

theorem replaceChild_replaceChild_same (a b : TNode) (cs : List TNode) (h : a.name = b.name) :
    replaceChild a (replaceChild b cs) = replaceChild a cs := by
  induction cs with
  | nil => rfl
  | cons x xs ih =>
    by_cases hx : x.name = b.name
    · simp [replaceChild, hx, h]
    · have hx' : ¬ x.name = a.name := by rw [h]; exact hx
      simp [replaceChild, hx, hx', ih]

/-- name of the grafted node, provided the replacement keeps the name of what it replaces -/
theorem graft_name' {t D X : TNode} {q : Path} (h : lookup t q = some D) (hX : X.name = D.name) :
    (graft t q X).name = t.name := by
  cases q with
  | nil => simp only [lookup] at h; cases h; simpa using hX
  | cons n q => exact graft_name t n q X

theorem lookup_graft {t D X : TNode} {q : Path} (h : lookup t q = some D) (hX : X.name = D.name) :
    lookup (graft t q X) q = some X := by
  induction q generalizing t with
  | nil => rfl
  | cons n q ih =>
    rw [lookup_cons] at h
    split at h
    · cases h
    · rename_i hdir
      split at h
      · rename_i c hc
        have hcn : c.name = n := childByName_some_name hc
        have hg : (graft c q X).name = n := by rw [graft_name' h hX, hcn]
        rw [graft_cons, hc, lookup_cons]
        simp only [TNode.isDir, TNode.attr_mk, TNode.children_mk] at hdir ⊢
        simp only [hdir]
        have := childByName_replaceChild_self (graft c q X) t.children c (by rw [hg]; exact hc)
        rw [hg] at this
        simp only [this]
        exact ih h
      · cases h

theorem graft_graft {t D X : TNode} {q : Path} (r : Path) (Y : TNode) (h : lookup t q = some D) (hX : X.name = D.name)
    (hY : r = [] → Y.name = X.name) :
    graft (graft t q X) (q ++ r) Y = graft t q (graft X r Y) := by
  induction q generalizing t with
  | nil => rfl
  | cons n q ih =>
    rw [lookup_cons] at h
    split at h
    · cases h
    · split at h
      · rename_i c hc
        have hcn : c.name = n := childByName_some_name hc
        have hg : (graft c q X).name = n := by rw [graft_name' h hX, hcn]
        have h1 : childByName (replaceChild (graft c q X) t.children) n = some (graft c q X) := by
          have := childByName_replaceChild_self (graft c q X) t.children c (by rw [hg]; exact hc)
          rwa [hg] at this
        rw [graft_cons t n q X, hc, List.cons_append, graft_cons]
        simp only [TNode.children_mk, TNode.name_mk, TNode.attr_mk, h1]
        rw [ih h, graft_cons, hc]
        congr 1
        apply replaceChild_replaceChild_same
        cases q with
        | nil =>
          simp only [lookup] at h; cases h
          simp only [graft_nil]
          cases r with
          | nil => simpa using hY rfl
          | cons m r => rw [graft_name]
        | cons m q => rw [graft_name, graft_name]
      · cases h

theorem parentOf_snoc (t : TNode) (q : Path) (n : Name) :
    parentOf t (q ++ [n]) = (lookup t q).bind (fun D => if D.isDir then some D else none) := by
  unfold parentOf
  have : q ++ [n] ≠ [] := by simp
  split
  · rename_i heq; exact absurd heq this
  · simp only [List.dropLast_concat]
    cases lookup t q with
    | none => rfl
    | some D => rfl

theorem addPath_local (d : Defaults) (e : Ent) (x : Extra) {t D : TNode} {q : Path} (r : Path) (hr : r ≠ [])
    (h : lookup t q = some D) :
    addPath d e x (q ++ r) t = (addPath d e x r D).map (graft t q) := by
  induction q generalizing t with
  | nil =>
    simp only [lookup] at h; cases h
    simp only [List.nil_append]
    have : graft D [] = id := by funext X; rfl
    rw [this, Option.map_id]; rfl
  | cons n q ih =>
    rw [lookup_cons] at h
    split at h
    · cases h
    · rename_i hdir
      split at h
      · rename_i c hc
        have hne : q ++ r ≠ [] := by simp [hr]
        cases hqr : q ++ r with
        | nil => exact absurd hqr hne
        | cons m rest =>
          simp only [List.cons_append, hqr]
          simp only [addPath, hdir, hc]
          rw [← hqr, ih h]
          cases addPath d e x r D with
          | none => rfl
          | some D' => simp [Option.map_some, graft_cons, hc]
      · cases h

/-! ### E. the walk on the whole tree is the local walk, grafted -/

theorem treeIterStep_out {cfg : Cfg} {fnm : Fnm} {e e2 : Ent} (h : (treeIterStep cfg fnm e).1 = some e2) :
    e2 = applyChanges cfg e := by
  unfold treeIterStep at h
  repeat' split at h
  all_goals (try simp only [apply_ite Prod.fst] at h)
  all_goals (repeat' split at h)
  all_goals (simp at h; try exact h.symm)

theorem iterNH_path {cfg : Cfg} {fnm : Fnm} {rel : Path} {dirDev : Nat} {name : Name} {s : Stat} {e2 : Ent}
    (h : (iterNH cfg fnm rel dirDev name s).1 = some e2) : e2.path = cfg.pfx ++ rel ++ [name] := by
  rw [treeIterStep_out h]
  simp [applyChanges, nativeEntry, List.append_assoc]

theorem applyChild_congr {n : Name} {T T' : Option TNode → Option (Option TNode)} {D : TNode}
    (h : T (childByName D.children n) = T' (childByName D.children n)) : applyChild n T D = applyChild n T' D := by
  simp only [applyChild, h]

theorem applyChild_isDir {n : Name} {T : Option TNode → Option (Option TNode)} {D D' : TNode}
    (h : applyChild n T D = some D') : D'.isDir = D.isDir := by
  obtain ⟨dn, da, dc⟩ := D
  rw [applyChild_mk] at h
  split at h
  · cases h
  · cases h; rfl
  · split at h
    · cases h; rfl
    · split at h
      · cases h
      · cases h; rfl

/-- `fstree_add_generic` for a direct child of a directory node -/
theorem addPath_single (d : Defaults) (e : Ent) (x : Extra) (n : Name) (D : TNode) (hD : D.isDir = true) :
    addPath d e x [n] D = applyChild n (fun c? => match c? with
        | some c => (overwrite c e).map some
        | none => some (some (.mk n (mknodeAttr e x) []))) D := by
  obtain ⟨dn, da, dc⟩ := D
  rw [applyChild_mk]
  simp only [addPath, hD, TNode.children_mk, TNode.name_mk, TNode.attr_mk]
  cases hc : childByName dc n with
  | some c =>
    simp only [Bool.not_true, Bool.false_eq_true, if_false]
    cases overwrite c e <;> rfl
  | none =>
    simp only [Bool.not_true, Bool.false_eq_true, if_false, mknode, linkChild, insertSorted]

/-- constant transformer: the state of `D` after the child named `n` has become `c1` (`none`: leave alone) -/
def setChild (n : Name) (c1 : Option TNode) (D : TNode) : Option TNode := applyChild n (fun _ => some c1) D

theorem setChild_spec {n : Name} {c1 : Option TNode} {D D1 : TNode} (h : setChild n c1 D = some D1)
    (hname : ∀ C, c1 = some C → C.name = n) (hnone : c1 = none → childByName D.children n = none) :
    childByName D1.children n = c1 ∧
      (∀ C C', c1 = some C → C'.name = n → setChild n (some C') D = some (graft D1 [n] C')) := by
  obtain ⟨dn, da, dc⟩ := D
  simp only [setChild, applyChild_mk, TNode.children_mk] at h hnone ⊢
  cases c1 with
  | none =>
    cases h
    exact ⟨hnone rfl, fun C C' hC => by cases hC⟩
  | some C =>
    have hCn : C.name = n := hname C rfl
    simp only at h
    cases hc : childByName dc n with
    | some c =>
      simp only [hc] at h
      cases h
      have h1 : childByName (replaceChild C dc) n = some C := by
        have := childByName_replaceChild_self C dc c (by rw [hCn]; exact hc)
        rwa [hCn] at this
      refine ⟨h1, ?_⟩
      intro C0 C' hC0 hC'
      simp only [graft_cons, TNode.children_mk, h1, graft_nil, TNode.name_mk, TNode.attr_mk]
      rw [replaceChild_replaceChild_same C' C dc (by rw [hC', hCn])]
    | none =>
      simp only [hc] at h
      split at h
      · cases h
      · rename_i hlc
        cases h
        have h1 : childByName (insertBy TNode.name C dc) n = some C := by
          have := childByName_insertBy_self C dc (by rw [hCn]; exact hc)
          rwa [hCn] at this
        refine ⟨h1, ?_⟩
        intro C0 C' hC0 hC'
        simp only [hlc, if_false, graft_cons, TNode.children_mk, h1, graft_nil, TNode.name_mk, TNode.attr_mk]
        rw [replaceChild_insertBy_self C C' dc (by rw [hC', hCn]) (by rw [hCn]; exact hc)]

theorem setChild_keep (n : Name) (D : TNode) : setChild n (childByName D.children n) D = some D := by
  obtain ⟨dn, da, dc⟩ := D
  simp only [setChild, applyChild_mk, TNode.children_mk]
  cases hc : childByName dc n with
  | none => rfl
  | some c =>
    simp only
    rw [replaceChild_self dc c (by rw [childByName_some_name hc]; exact hc)]

theorem applyChild_of_some {n : Name} {T : Option TNode → Option (Option TNode)} {D : TNode} {c1 : Option TNode}
    (h : T (childByName D.children n) = some c1) : applyChild n T D = setChild n c1 D :=
  applyChild_congr (T' := fun _ => some c1) h

theorem applyChild_of_none {n : Name} {T : Option TNode → Option (Option TNode)} {D : TNode}
    (h : T (childByName D.children n) = none) : applyChild n T D = none := by
  simp only [applyChild, h]

theorem setChild_none_indep {n : Name} {C Y : TNode} {D : TNode} (h : setChild n (some C) D = none) :
    setChild n (some Y) D = none := by
  obtain ⟨dn, da, dc⟩ := D
  simp only [setChild, applyChild_mk, TNode.children_mk] at h ⊢
  cases hc : childByName dc n with
  | some c => simp [hc] at h
  | none =>
    simp only [hc] at h ⊢
    split at h
    · rename_i hlc; simp [hlc]
    · cases h

theorem lookup_child {t D : TNode} {q : Path} (n : Name) (hq : lookup t q = some D) (hD : D.isDir = true) :
    lookup t (q ++ [n]) = childByName D.children n := by
  rw [lookup_append, hq]
  simp only [Option.bind_some, lookup_single, hD, Bool.not_true, Bool.false_eq_true, if_false]

theorem lookup_child_none {t : TNode} {q : Path} (n : Name) (hnd : ∀ D, lookup t q = some D → D.isDir = false) :
    lookup t (q ++ [n]) = none := by
  rw [lookup_append]
  cases hq : lookup t q with
  | none => rfl
  | some D =>
    simp only [Option.bind_some, lookup_single, hnd D hq, Bool.not_false, if_true]

mutual
theorem walkNodeNH_local (d : Defaults) (cfg : Cfg) (fnm : Fnm) : ∀ (h : HNode) (rel : Path) (dirDev : Nat) (t : TNode),
    (∀ D, lookup t (cfg.pfx ++ rel) = some D → D.isDir = true →
      walkNodeNH d cfg fnm rel dirDev h t =
        (applyChild h.name (fun c? => childT d cfg fnm rel dirDev h c?) D).map (graft t (cfg.pfx ++ rel))) ∧
    ((∀ D, lookup t (cfg.pfx ++ rel) = some D → D.isDir = false) → walkNodeNH d cfg fnm rel dirDev h t = some t)
  | .mk name s target children, rel, dirDev, t => by
    have IH := walkListNH_local d cfg fnm children (rel ++ [name]) s.dev
    have hassoc : cfg.pfx ++ (rel ++ [name]) = (cfg.pfx ++ rel) ++ [name] := (List.append_assoc _ _ _).symm
    rw [hassoc] at IH
    generalize hqdef : cfg.pfx ++ rel = q at IH ⊢
    constructor
    · intro D hq hD
      simp only [HNode.name]
      by_cases hdot : (name = dotName || name = dotDotName) = true
      · -- "." / ".."
        have hT : (fun c? => childT d cfg fnm rel dirDev (.mk name s target children) c?) = fun c? => some c? := by
          funext c?; simp only [childT, hdot, if_true]
        simp only [walkNodeNH, hdot, if_true, hT]
        rw [applyChild_of_some (c1 := childByName D.children name) rfl, setChild_keep]
        simp only [Option.map_some, graft_self hq]
      · simp only [walkNodeNH, hdot, if_false, Bool.false_eq_true]
        cases hout : (iterNH cfg fnm rel dirDev name s).1 with
        | none =>
          simp only [Bool.not_false, Bool.and_true]
          by_cases hcond : (isDirMode s.mode && (iterNH cfg fnm rel dirDev name s).2) = true
          · simp only [hcond, if_true]
            have hlk := lookup_child name hq hD
            cases ho : childByName D.children name with
            | none =>
              rw [(IH t).2 (by intro D' h'; rw [hlk, ho] at h'; cases h')]
              have hT : childT d cfg fnm rel dirDev (.mk name s target children) (childByName D.children name) = some none := by
                simp only [childT, hdot, if_false, Bool.false_eq_true, hout, ho, hcond, if_true]
              rw [applyChild_of_some hT, ← ho, setChild_keep]
              simp only [Option.map_some, graft_self hq]
            | some C =>
              by_cases hC : C.isDir = true
              · rw [(IH t).1 C (by rw [hlk, ho]) hC]
                have hCn : C.name = name := childByName_some_name ho
                cases hw : walkLocalList d cfg fnm (rel ++ [name]) s.dev children C with
                | none =>
                  have hT : childT d cfg fnm rel dirDev (.mk name s target children) (childByName D.children name) = none := by
                    simp only [childT, hdot, if_false, Bool.false_eq_true, hout, ho, hcond, if_true, hC, hw, Option.map_none]
                  rw [applyChild_of_none hT]; rfl
                | some C' =>
                  have hC'n : C'.name = name := by rw [walkLocalList_name d cfg fnm _ _ _ _ _ hw, hCn]
                  have hT : childT d cfg fnm rel dirDev (.mk name s target children) (childByName D.children name) = some (some C') := by
                    simp only [childT, hdot, if_false, Bool.false_eq_true, hout, ho, hcond, if_true, hC, hw, Option.map_some]
                  have hkeep : setChild name (some C) D = some D := by rw [← ho]; exact setChild_keep name D
                  have hsp := (setChild_spec hkeep (fun C0 h0 => by cases h0; exact hCn) (fun h0 => by cases h0)).2 C C' rfl hC'n
                  rw [applyChild_of_some hT, hsp]
                  simp only [Option.map_some]
                  rw [← graft_graft [name] C' hq rfl (by simp), graft_self hq]
              · have hC' : C.isDir = false := by simpa using hC
                rw [(IH t).2 (by intro D' h'; rw [hlk, ho] at h'; cases h'; exact hC')]
                have hT : childT d cfg fnm rel dirDev (.mk name s target children) (childByName D.children name) = some (some C) := by
                  simp only [childT, hdot, if_false, Bool.false_eq_true, hout, ho, hcond, if_true, hC']
                rw [applyChild_of_some hT, ← ho, setChild_keep]
                simp only [Option.map_some, graft_self hq]
          · simp only [hcond, if_false, Bool.false_eq_true]
            have hT : childT d cfg fnm rel dirDev (.mk name s target children) (childByName D.children name)
                = some (childByName D.children name) := by
              simp only [childT, hdot, if_false, Bool.false_eq_true, hout, hcond]
            rw [applyChild_of_some hT, setChild_keep]
            simp only [Option.map_some, graft_self hq]
        | some e2 =>
          have hpath : e2.path = q ++ [name] := by rw [iterNH_path hout, hqdef]
          have hpar : parentOf t (q ++ [name]) = some D := by
            rw [parentOf_snoc, hq]; simp [hD]
          -- the entry phase as a child transformer
          let Tent : Option TNode → Option (Option TNode) := fun c? => match c? with
            | some c => (overwrite c e2).map some
            | none => some (some (.mk name (mknodeAttr e2 (scanExtra cfg e2 none target)) []))
          have hadd : addPath d e2 (scanExtra cfg e2 none target) (q ++ [name]) t
              = (applyChild name Tent D).map (graft t q) := by
            rw [addPath_local d e2 _ [name] (by simp) hq, addPath_single d e2 _ name D hD]
          simp only [scanStepNH, hpath, hpar, hadd]
          cases hTo : Tent (childByName D.children name) with
          | none =>
            rw [applyChild_of_none hTo]
            have hT : childT d cfg fnm rel dirDev (.mk name s target children) (childByName D.children name) = none := by
              simp only [childT, hdot, if_false, Bool.false_eq_true, hout]
              have : (match childByName D.children name with
                  | some c => (overwrite c e2).map some
                  | none => some (some (.mk name (mknodeAttr e2 (scanExtra cfg e2 none target)) []))) = none := hTo
              rw [this]
            rw [applyChild_of_none hT]; rfl
          | some c1 =>
            -- the entry phase always yields a node of name `name`
            have hc1 : ∃ C, c1 = some C ∧ C.name = name := by
              cases ho : childByName D.children name with
              | none =>
                simp only [Tent, ho] at hTo
                cases hTo; exact ⟨_, rfl, rfl⟩
              | some c =>
                simp only [Tent, ho, Option.map_eq_some_iff] at hTo
                obtain ⟨c', hov, hc'⟩ := hTo
                cases hc'
                exact ⟨c', rfl, by rw [overwrite_name hov, childByName_some_name ho]⟩
            obtain ⟨C, rfl, hCn⟩ := hc1
            have hent : (match childByName D.children name with
                  | some c => (overwrite c e2).map some
                  | none => some (some (.mk name (mknodeAttr e2 (scanExtra cfg e2 none target)) []))) = some (some C) := hTo
            rw [applyChild_of_some hTo]
            cases hS : setChild name (some C) D with
            | none =>
              simp only [Option.map_none]
              -- whatever the recursion makes of `C`, linking it in fails the same way
              cases hT : childT d cfg fnm rel dirDev (.mk name s target children) (childByName D.children name) with
              | none => rw [applyChild_of_none hT]; rfl
              | some r =>
                have hr : ∃ Y, r = some Y := by
                  simp only [childT, hdot, if_false, Bool.false_eq_true, hout, hent] at hT
                  split at hT
                  · split at hT
                    · simp only [Option.map_eq_some_iff] at hT
                      obtain ⟨Y, _, hY⟩ := hT; exact ⟨Y, hY.symm⟩
                    · cases hT; exact ⟨_, rfl⟩
                  · cases hT; exact ⟨_, rfl⟩
                obtain ⟨Y, rfl⟩ := hr
                rw [applyChild_of_some hT, setChild_none_indep hS]; rfl
            | some D1 =>
              have hsp := setChild_spec hS (fun C0 h0 => by cases h0; exact hCn) (fun h0 => by cases h0)
              have hD1n : D1.name = D.name := applyChild_name hS
              have hD1d : D1.isDir = true := by rw [applyChild_isDir hS]; exact hD
              have hq1 : lookup (graft t q D1) q = some D1 := lookup_graft hq hD1n
              have hlk := lookup_child name hq1 hD1d
              simp only [Option.map_some, Bool.not_false, Bool.and_true]
              by_cases hcond : (isDirMode s.mode && (iterNH cfg fnm rel dirDev name s).2) = true
              · simp only [hcond, if_true]
                by_cases hC : C.isDir = true
                · rw [(IH _).1 C (by rw [hlk, hsp.1]) hC]
                  cases hw : walkLocalList d cfg fnm (rel ++ [name]) s.dev children C with
                  | none =>
                    have hT : childT d cfg fnm rel dirDev (.mk name s target children) (childByName D.children name) = none := by
                      simp only [childT, hdot, if_false, Bool.false_eq_true, hout, hent, hcond, if_true, hC, hw, Option.map_none]
                    rw [applyChild_of_none hT]; rfl
                  | some C' =>
                    have hC'n : C'.name = name := by rw [walkLocalList_name d cfg fnm _ _ _ _ _ hw, hCn]
                    have hT : childT d cfg fnm rel dirDev (.mk name s target children) (childByName D.children name) = some (some C') := by
                      simp only [childT, hdot, if_false, Bool.false_eq_true, hout, hent, hcond, if_true, hC, hw, Option.map_some]
                    rw [applyChild_of_some hT, hsp.2 C C' rfl hC'n]
                    simp only [Option.map_some]
                    rw [graft_graft [name] C' hq hD1n (by simp)]
                · have hC' : C.isDir = false := by simpa using hC
                  rw [(IH _).2 (by intro D' h'; rw [hlk, hsp.1] at h'; cases h'; exact hC')]
                  have hT : childT d cfg fnm rel dirDev (.mk name s target children) (childByName D.children name) = some (some C) := by
                    simp only [childT, hdot, if_false, Bool.false_eq_true, hout, hent, hcond, if_true, hC']
                  rw [applyChild_of_some hT, hS]; rfl
              · simp only [hcond, if_false, Bool.false_eq_true]
                have hT : childT d cfg fnm rel dirDev (.mk name s target children) (childByName D.children name) = some (some C) := by
                  simp only [childT, hdot, if_false, Bool.false_eq_true, hout, hent, hcond]
                rw [applyChild_of_some hT, hS]; rfl
    · intro hnd
      have hsub : walkListNH d cfg fnm (rel ++ [name]) s.dev children t = some t :=
        (IH t).2 (by intro D' h'; rw [lookup_child_none name hnd] at h'; cases h')
      by_cases hdot : (name = dotName || name = dotDotName) = true
      · simp only [walkNodeNH, hdot, if_true]
      · simp only [walkNodeNH, hdot, if_false, Bool.false_eq_true]
        cases hout : (iterNH cfg fnm rel dirDev name s).1 with
        | none =>
          simp only
          split
          · exact hsub
          · rfl
        | some e2 =>
          have hpath : e2.path = q ++ [name] := by rw [iterNH_path hout, hqdef]
          have hpar : parentOf t (q ++ [name]) = none := by
            rw [parentOf_snoc]
            cases hq : lookup t q with
            | none => rfl
            | some D => simp [hnd D hq]
          simp only [scanStepNH, hpath, hpar]
          split
          · exact hsub
          · rfl

theorem walkListNH_local (d : Defaults) (cfg : Cfg) (fnm : Fnm) : ∀ (l : List HNode) (rel : Path) (dirDev : Nat) (t : TNode),
    (∀ D, lookup t (cfg.pfx ++ rel) = some D → D.isDir = true →
      walkListNH d cfg fnm rel dirDev l t =
        (walkLocalList d cfg fnm rel dirDev l D).map (graft t (cfg.pfx ++ rel))) ∧
    ((∀ D, lookup t (cfg.pfx ++ rel) = some D → D.isDir = false) → walkListNH d cfg fnm rel dirDev l t = some t)
  | [], rel, dirDev, t => by
    constructor
    · intro D hq _
      simp only [walkListNH, walkLocalList, Option.map_some, graft_self hq]
    · intro _; simp only [walkListNH]
  | h :: hs, rel, dirDev, t => by
    have IHn := walkNodeNH_local d cfg fnm h rel dirDev t
    have IHl := walkListNH_local d cfg fnm hs rel dirDev
    constructor
    · intro D hq hD
      simp only [walkListNH, walkLocalList, IHn.1 D hq hD]
      cases ha : applyChild h.name (fun c? => childT d cfg fnm rel dirDev h c?) D with
      | none => rfl
      | some D1 =>
        have hD1n : D1.name = D.name := applyChild_name ha
        have hD1d : D1.isDir = true := by rw [applyChild_isDir ha]; exact hD
        have hq1 : lookup (graft t (cfg.pfx ++ rel) D1) (cfg.pfx ++ rel) = some D1 := lookup_graft hq hD1n
        simp only [Option.map_some]
        rw [(IHl _).1 D1 hq1 hD1d]
        cases hw : walkLocalList d cfg fnm rel dirDev hs D1 with
        | none => rfl
        | some D2 =>
          simp only [Option.map_some]
          have := graft_graft [] D2 hq hD1n (fun _ => walkLocalList_name d cfg fnm _ _ _ _ _ hw)
          simp only [List.append_nil, graft_nil] at this
          rw [this]
    · intro hnd
      simp only [walkListNH, IHn.2 hnd]
      exact (IHl t).2 hnd
end

/-! ### A. the hard-link filter is transparent when it never fires -/

def SeenFresh (seen : List ((Nat × Nat) × Path)) (ks : List (Nat × Nat)) : Prop := ∀ k ∈ ks, seenLookup seen k = none

def SeenGrow (seen seen' : List ((Nat × Nat) × Path)) (ks : List (Nat × Nat)) : Prop :=
  ∀ k, seenLookup seen' k ≠ none → seenLookup seen k ≠ none ∨ k ∈ ks

/-- hard-link detection is off, or the entries to come have pairwise different (dev, ino) none of which was seen -/
def HlQuiet (cfg : Cfg) (seen : List ((Nat × Nat) × Path)) (ks : List (Nat × Nat)) : Prop :=
  hasFlag cfg.flags Consts.dirScanNoHardlinks = true ∨ (ks.Nodup ∧ SeenFresh seen ks)

theorem keysNode_mk (n : Name) (s : Stat) (t : List UInt8) (c : List HNode) :
    keysNode (.mk n s t c) = if isDirMode s.mode then keysList c else [(s.dev, s.ino)] := by
  simp [keysNode]

theorem keysList_cons (x : HNode) (xs : List HNode) : keysList (x :: xs) = keysNode x ++ keysList xs := by
  simp [keysList]

theorem iterStep_quiet {cfg : Cfg} {fnm : Fnm} {rel : Path} {dirDev : Nat} {seen : List ((Nat × Nat) × Path)}
    {name : Name} {s : Stat}
    (hq : HlQuiet cfg seen (if isDirMode s.mode then [] else [(s.dev, s.ino)])) :
    (iterStep cfg fnm rel dirDev seen name s).out = (iterNH cfg fnm rel dirDev name s).1 ∧
    (iterStep cfg fnm rel dirDev seen name s).recurse = (iterNH cfg fnm rel dirDev name s).2 ∧
    (iterStep cfg fnm rel dirDev seen name s).hlTarget = none ∧
    SeenGrow seen (iterStep cfg fnm rel dirDev seen name s).seen (if isDirMode s.mode then [] else [(s.dev, s.ino)]) ∧
    (isDirMode s.mode = true → (iterStep cfg fnm rel dirDev seen name s).seen = seen) := by
  by_cases hflag : hasFlag cfg.flags Consts.dirScanNoHardlinks = true
  · have e : iterStep cfg fnm rel dirDev seen name s =
        { out := (iterNH cfg fnm rel dirDev name s).1, recurse := (iterNH cfg fnm rel dirDev name s).2,
          hlTarget := none, seen := seen } := by
      simp only [iterStep, hflag, if_true, iterNH]
    rw [e]
    exact ⟨rfl, rfl, rfl, fun k hk => Or.inl hk, fun _ => rfl⟩
  · rcases hq with hq | ⟨_, hfresh⟩
    · exact absurd hq hflag
    · by_cases hdir : isDirMode s.mode = true
      · have : hlNext seen (nativeEntry rel dirDev name s) = (nativeEntry rel dirDev name s, none, seen) := by
          simp [hlNext, nativeEntry, hdir]
        have e : iterStep cfg fnm rel dirDev seen name s =
            { out := (iterNH cfg fnm rel dirDev name s).1, recurse := (iterNH cfg fnm rel dirDev name s).2,
              hlTarget := none, seen := seen } := by
          simp only [iterStep, hflag, if_false, Bool.false_eq_true, this, iterNH]
        rw [e]
        exact ⟨rfl, rfl, rfl, fun k hk => Or.inl hk, fun _ => rfl⟩
      · have hlk : seenLookup seen (s.dev, s.ino) = none := by
          apply hfresh; simp [hdir]
        have : hlNext seen (nativeEntry rel dirDev name s)
            = (nativeEntry rel dirDev name s, none, ((s.dev, s.ino), rel ++ [name]) :: seen) := by
          simp [hlNext, nativeEntry, hdir, hlk]
        have e : iterStep cfg fnm rel dirDev seen name s =
            { out := (iterNH cfg fnm rel dirDev name s).1, recurse := (iterNH cfg fnm rel dirDev name s).2,
              hlTarget := none, seen := ((s.dev, s.ino), rel ++ [name]) :: seen } := by
          simp only [iterStep, hflag, if_false, Bool.false_eq_true, this, iterNH]
        rw [e]
        refine ⟨rfl, rfl, rfl, ?_, fun h => absurd h hdir⟩
        intro k hk
        simp only [hdir, if_false, Bool.false_eq_true, List.mem_singleton]
        simp only [seenLookup] at hk
        split at hk
        · rename_i heq; exact Or.inr heq.symm
        · exact Or.inl hk

theorem iterNH_hard {cfg : Cfg} {fnm : Fnm} {rel : Path} {dirDev : Nat} {name : Name} {s : Stat} {e2 : Ent}
    (h : (iterNH cfg fnm rel dirDev name s).1 = some e2) : e2.hard = false := by
  rw [treeIterStep_out h]
  simp [applyChanges, nativeEntry]

theorem scanStep_nh (d : Defaults) (cfg : Cfg) (e : Ent) (target : List UInt8) (t : TNode) (links : List Path)
    (hh : e.hard = false) :
    scanStep d cfg e none target t links
      = (scanStepNH d cfg e target t).map (fun r : TNode × Bool => (r.1, links, r.2)) := by
  simp only [scanStep, scanStepNH]
  cases hp : parentOf t e.path with
  | none => rfl
  | some P =>
    cases addPath d e (scanExtra cfg e none target) e.path t with
    | none => rfl
    | some t' => simp [hh]

theorem SeenGrow.trans {s₁ s₂ s₃ : List ((Nat × Nat) × Path)} {A B : List (Nat × Nat)}
    (h₁ : SeenGrow s₁ s₂ A) (h₂ : SeenGrow s₂ s₃ B) : SeenGrow s₁ s₃ (A ++ B) := by
  intro k hk
  rcases h₂ k hk with h | h
  · rcases h₁ k h with h' | h'
    · exact Or.inl h'
    · exact Or.inr (List.mem_append_left _ h')
  · exact Or.inr (List.mem_append_right _ h)

theorem SeenGrow.refl (s : List ((Nat × Nat) × Path)) (A : List (Nat × Nat)) : SeenGrow s s A := fun _ hk => Or.inl hk

theorem SeenGrow.mono {s s' : List ((Nat × Nat) × Path)} {A B : List (Nat × Nat)} (h : SeenGrow s s' A)
    (hAB : ∀ k ∈ A, k ∈ B) : SeenGrow s s' B := by
  intro k hk
  rcases h k hk with h' | h'
  · exact Or.inl h'
  · exact Or.inr (hAB k h')

/-- the statement of part A for a walk result -/
def QuietResult (st : St) (r : Option St) (rNH : Option TNode) (ks : List (Nat × Nat)) : Prop :=
  match r with
  | none => rNH = none
  | some st' => rNH = some st'.tree ∧ st'.links = st.links ∧ SeenGrow st.seen st'.seen ks

mutual
theorem walkNode_quiet (d : Defaults) (cfg : Cfg) (fnm : Fnm) :
    ∀ (h : HNode) (rel : Path) (dirDev : Nat) (st : St), HlQuiet cfg st.seen (keysNode h) →
      QuietResult st (walkNode d cfg fnm rel dirDev h st) (walkNodeNH d cfg fnm rel dirDev h st.tree) (keysNode h)
  | .mk name s target children, rel, dirDev, st, hq => by
    have IH := walkList_quiet d cfg fnm children (rel ++ [name]) s.dev
    rw [keysNode_mk] at hq ⊢
    by_cases hdot : (name = dotName || name = dotDotName) = true
    · simp only [walkNode, walkNodeNH, hdot, if_true]
      exact ⟨rfl, rfl, SeenGrow.refl _ _⟩
    · -- the iterator layers behave as without the filter
      have hq0 : HlQuiet cfg st.seen (if isDirMode s.mode then [] else [(s.dev, s.ino)]) := by
        rcases hq with hq | ⟨hnd, hfr⟩
        · exact Or.inl hq
        · refine Or.inr ?_
          by_cases hdir : isDirMode s.mode = true
          · simp [hdir, SeenFresh]
          · simp only [hdir, if_false, Bool.false_eq_true] at hnd hfr ⊢
            exact ⟨hnd, hfr⟩
      obtain ⟨ho, hr, ht, hg, hsd⟩ := iterStep_quiet (fnm := fnm) (rel := rel) (dirDev := dirDev) (name := name) hq0
      -- what follows the scan step
      have tail : ∀ (t' : TNode) (ignored : Bool),
          QuietResult st
            (if (isDirMode s.mode && (iterNH cfg fnm rel dirDev name s).2 && !ignored) = true then
              walkList d cfg fnm (rel ++ [name]) s.dev children
                { seen := (iterStep cfg fnm rel dirDev st.seen name s).seen, tree := t', links := st.links }
             else some { seen := (iterStep cfg fnm rel dirDev st.seen name s).seen, tree := t', links := st.links })
            (if (isDirMode s.mode && (iterNH cfg fnm rel dirDev name s).2 && !ignored) = true then
              walkListNH d cfg fnm (rel ++ [name]) s.dev children t'
             else some t')
            (if isDirMode s.mode = true then keysList children else [(s.dev, s.ino)]) := by
        intro t' ignored
        by_cases hcond : (isDirMode s.mode && (iterNH cfg fnm rel dirDev name s).2 && !ignored) = true
        · simp only [hcond, if_true]
          have hdir : isDirMode s.mode = true := by
            simp only [Bool.and_eq_true] at hcond; exact hcond.1.1
          have hseen := hsd hdir
          have hqc : HlQuiet cfg (iterStep cfg fnm rel dirDev st.seen name s).seen (keysList children) := by
            rw [hseen]
            rcases hq with hq | hq
            · exact Or.inl hq
            · simp only [hdir, if_true] at hq; exact Or.inr hq
          have := IH { seen := (iterStep cfg fnm rel dirDev st.seen name s).seen, tree := t', links := st.links } hqc
          simp only [hdir, if_true]
          revert this
          cases walkList d cfg fnm (rel ++ [name]) s.dev children
              { seen := (iterStep cfg fnm rel dirDev st.seen name s).seen, tree := t', links := st.links } with
          | none => exact id
          | some st' =>
            rintro ⟨h1, h2, h3⟩
            refine ⟨h1, h2, ?_⟩
            rw [hseen] at h3
            exact h3
        · simp only [hcond, if_false, Bool.false_eq_true]
          refine ⟨rfl, rfl, ?_⟩
          by_cases hdir : isDirMode s.mode = true
          · rw [hsd hdir]; exact SeenGrow.refl _ _
          · simp only [hdir, if_false, Bool.false_eq_true] at hg ⊢
            exact hg
      simp only [walkNode, walkNodeNH, hdot, if_false, Bool.false_eq_true, ho, hr, ht]
      cases hout : (iterNH cfg fnm rel dirDev name s).1 with
      | none => exact tail st.tree false
      | some e2 =>
        simp only [scanStep_nh d cfg e2 target st.tree st.links (iterNH_hard hout)]
        cases scanStepNH d cfg e2 target st.tree with
        | none => rfl
        | some r =>
          obtain ⟨t', ignored⟩ := r
          exact tail t' ignored
theorem walkList_quiet (d : Defaults) (cfg : Cfg) (fnm : Fnm) :
    ∀ (l : List HNode) (rel : Path) (dirDev : Nat) (st : St), HlQuiet cfg st.seen (keysList l) →
      QuietResult st (walkList d cfg fnm rel dirDev l st) (walkListNH d cfg fnm rel dirDev l st.tree) (keysList l)
  | [], rel, dirDev, st, _ => by
    simp only [walkList, walkListNH]
    exact ⟨rfl, rfl, SeenGrow.refl _ _⟩
  | h :: hs, rel, dirDev, st, hq => by
    rw [keysList_cons] at hq ⊢
    have hqh : HlQuiet cfg st.seen (keysNode h) := by
      rcases hq with hq | ⟨hnd, hfr⟩
      · exact Or.inl hq
      · exact Or.inr ⟨(List.nodup_append.mp hnd).1, fun k hk => hfr k (List.mem_append_left _ hk)⟩
    have IHn := walkNode_quiet d cfg fnm h rel dirDev st hqh
    simp only [walkList, walkListNH]
    revert IHn
    cases walkNode d cfg fnm rel dirDev h st with
    | none =>
      simp only [QuietResult]
      intro h1; rw [h1]
    | some st1 =>
      simp only [QuietResult]
      rintro ⟨h1, h2, h3⟩
      rw [h1]
      have hqs : HlQuiet cfg st1.seen (keysList hs) := by
        rcases hq with hq | ⟨hnd, hfr⟩
        · exact Or.inl hq
        · refine Or.inr ⟨(List.nodup_append.mp hnd).2.1, ?_⟩
          intro k hk
          cases hlk : seenLookup st1.seen k with
          | none => rfl
          | some v =>
            exfalso
            rcases h3 k (by rw [hlk]; simp) with h' | h'
            · exact h' (hfr k (List.mem_append_right _ hk))
            · exact (List.nodup_append.mp hnd).2.2 k h' k hk rfl
      have IHl := walkList_quiet d cfg fnm hs rel dirDev st1 hqs
      revert IHl
      cases walkList d cfg fnm rel dirDev hs st1 with
      | none => simp only [QuietResult]; exact id
      | some st2 =>
        simp only [QuietResult]
        rintro ⟨g1, g2, g3⟩
        exact ⟨g1, g2.trans h2, h3.trans g3⟩
end

/-! ### assembly -/

theorem fperm_keys {l₁ l₂ : List HNode} (h : FPerm l₁ l₂) : (keysList l₁).Perm (keysList l₂) := by
  induction h with
  | nil => exact List.Perm.refl _
  | @cons n s t c c' l l' _ _ ihc ihl =>
    rw [keysList_cons, keysList_cons, keysNode_mk, keysNode_mk]
    split
    · exact List.Perm.append ihc ihl
    · exact List.Perm.append (List.Perm.refl _) ihl
  | swap a b l =>
    simp only [keysList_cons, ← List.append_assoc]
    exact List.Perm.append_right _ List.perm_append_comm
  | trans _ _ ih₁ ih₂ => exact ih₁.trans ih₂

/-- the walk without the filter does not depend on the order of the entries -/
theorem walkListNH_fperm (d : Defaults) (cfg : Cfg) (fnm : Fnm) {l₁ l₂ : List HNode} (h : FPerm l₁ l₂)
    (hwf : WFList l₁) (dirDev : Nat) (t : TNode) :
    walkListNH d cfg fnm [] dirDev l₁ t = walkListNH d cfg fnm [] dirDev l₂ t := by
  have h1 := walkListNH_local d cfg fnm l₁ [] dirDev t
  have h2 := walkListNH_local d cfg fnm l₂ [] dirDev t
  cases hq : lookup t (cfg.pfx ++ []) with
  | none =>
    rw [h1.2 (by intro D hD; rw [hq] at hD; cases hD), h2.2 (by intro D hD; rw [hq] at hD; cases hD)]
  | some D =>
    by_cases hD : D.isDir = true
    · rw [h1.1 D hq hD, h2.1 D hq hD, walkLocalList_fperm d cfg fnm h hwf]
    · have hD' : D.isDir = false := by simpa using hD
      rw [h1.2 (by intro D' h'; rw [hq] at h'; cases h'; exact hD'),
          h2.2 (by intro D' h'; rw [hq] at h'; cases h'; exact hD')]

theorem scanInto_false_eq (d : Defaults) (cfg : Cfg) (fnm : Fnm) (rootDev : Nat) (e : List HNode) (tree : TNode)
    (links : List Path) (hq : hasFlag cfg.flags Consts.dirScanNoHardlinks = true ∨ NoMultiLink e) :
    scanInto false d cfg fnm rootDev e tree links
      = (walkListNH d cfg fnm [] rootDev e tree).map (fun t => (t, links)) := by
  have hquiet : HlQuiet cfg ([] : List ((Nat × Nat) × Path)) (keysList e) := by
    rcases hq with hq | hq
    · exact Or.inl hq
    · exact Or.inr ⟨hq, fun _ _ => rfl⟩
  have := walkList_quiet d cfg fnm e [] rootDev { seen := [], tree := tree, links := links } hquiet
  simp only [scanInto, nativeOrder, Bool.false_eq_true, if_false]
  revert this
  cases walkList d cfg fnm [] rootDev e { seen := [], tree := tree, links := links } with
  | none => intro h; simp only [QuietResult] at h; rw [h]; rfl
  | some st' =>
    intro h
    simp only [QuietResult] at h
    rw [h.1]
    simp only [Option.map_some, h.2.1]

/-- scan of the code as pinned, when the hard-link filter cannot fire -/
theorem scanInto_false_fperm (d : Defaults) (cfg : Cfg) (fnm : Fnm) (rootDev : Nat) {e₁ e₂ : List HNode}
    (h : FPerm e₁ e₂) (hwf : WFList e₁) (hq : hasFlag cfg.flags Consts.dirScanNoHardlinks = true ∨ NoMultiLink e₁)
    (tree : TNode) (links : List Path) :
    scanInto false d cfg fnm rootDev e₁ tree links = scanInto false d cfg fnm rootDev e₂ tree links := by
  have hq2 : hasFlag cfg.flags Consts.dirScanNoHardlinks = true ∨ NoMultiLink e₂ := by
    rcases hq with hq | hq
    · exact Or.inl hq
    · exact Or.inr ((fperm_keys h).nodup_iff.mp hq)
  rw [scanInto_false_eq d cfg fnm rootDev e₁ tree links hq, scanInto_false_eq d cfg fnm rootDev e₂ tree links hq2,
    walkListNH_fperm d cfg fnm h hwf]

/-! ### the repaired iterator's enumeration is one of the enumerations of the same forest -/

theorem fperm_of_perm {l₁ l₂ : List HNode} (h : l₁.Perm l₂) : FPerm l₁ l₂ := by
  induction h with
  | nil => exact FPerm.nil
  | cons x _ ih =>
    obtain ⟨n, s, t, c⟩ := x
    exact FPerm.cons (fperm_refl c) ih
  | swap x y l => exact FPerm.trans (FPerm.swap y x l) (fperm_refl _)
  | trans _ _ ih₁ ih₂ => exact FPerm.trans ih₁ ih₂

mutual
theorem fperm_canonNode : ∀ x : HNode, FPerm x.children (sortByName (canonList x.children))
  | .mk _ _ _ c => FPerm.trans (fperm_canonList c) (fperm_of_perm (sortByName_perm_self (canonList c)).symm)
theorem fperm_canonList : ∀ l : List HNode, FPerm l (canonList l)
  | [] => FPerm.nil
  | .mk n s t c :: xs => by
    simp only [canonList, canonNode]
    exact FPerm.cons (fperm_canonNode (.mk n s t c)) (fperm_canonList xs)
end

theorem fperm_nativeOrder (l : List HNode) : FPerm l (nativeOrder true l) := by
  simp only [nativeOrder, if_true]
  exact FPerm.trans (fperm_canonList l) (fperm_of_perm (sortByName_perm_self (canonList l)).symm)

end Sqfs.C11Pinned
