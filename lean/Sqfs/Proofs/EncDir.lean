/-
C01 — a directory listing written by `sqfs_dir_writer_end` is read back entry by entry by the `readdir` state machine.
-/
import Sqfs.Model.EncDir
import Sqfs.Proofs.EncBytes
import Sqfs.Proofs.DirWriter
namespace Sqfs.Enc
open Sqfs.Consts
open Sqfs.Writer (le leVal le_length)
open Sqfs.DirWriter (DEnt Run dirEnd dirEndGo encodeRun encodeEnt runBytes entSize dirSizeOf RunOk sdiff32)

/-! ### the byte helpers of `Sqfs.DirWriter` are the general ones -/

theorem dw_le16 (v : Nat) : Sqfs.DirWriter.le16 v = le 2 v := rfl

theorem dw_le32 (v : Nat) : Sqfs.DirWriter.le32 v = le 4 v := by
  simp only [Sqfs.DirWriter.le32, Sqfs.DirWriter.le16, le, List.cons_append, List.nil_append]
  have h1 : v % 65536 % 256 = v % 256 := by omega
  have h2 : v % 65536 / 256 % 256 = v / 256 % 256 := by omega
  have h3 : v / 65536 % 65536 % 256 = v / 256 / 256 % 256 := by omega
  have h4 : v / 65536 % 65536 / 256 % 256 = v / 256 / 256 / 256 % 256 := by omega
  rw [h1, h2, h3, h4]

theorem encodeEnt_eq (first : Nat) (e : DEnt) :
    encodeEnt first e = encFields [(2, e.inodeRef % 65536), (2, (e.inodeNum + 4294967296 - first % 4294967296) % 65536),
      (2, e.typ % 65536), (2, (e.name.length - 1) % 65536)] ++ e.name := by
  simp [encodeEnt, encFields, dw_le16]

theorem encodeRun_eq (r : Run) :
    encodeRun r = encFields [(4, (r.ents.length - 1) % 4294967296), (4, r.startBlock), (4, r.inodeNumber)]
      ++ (r.ents.map (encodeEnt r.inodeNumber)).flatten := by
  simp [encodeRun, encFields, dw_le32]

/-! ### arithmetic of one entry -/

/-- the reader's `inum_base + (s16)diff` undoes the writer's 16-bit truncation inside a run -/
theorem addDiff_roundtrip (num first : Nat) (hn : num < 4294967296) (hf : first < 4294967296)
    (h1 : -32767 ≤ sdiff32 num first) (h2 : sdiff32 num first ≤ 32767) :
    addDiff first ((num + 4294967296 - first % 4294967296) % 65536) = num := by
  unfold sdiff32 at h1 h2
  unfold addDiff
  rw [Nat.mod_eq_of_lt hf] at h1 h2 ⊢
  generalize hx : num + 4294967296 - first = x at h1 h2 ⊢
  have hx' : x + first = num + 4294967296 := by omega
  simp only at h1 h2
  by_cases hc : x % 4294967296 < 2147483648
  · rw [if_pos hc] at h1 h2; split <;> omega
  · rw [if_neg hc] at h1 h2; split <;> omega

/-- `(inode_block << 16) | offset` is the writer's reference when it fits 48 bits -/
theorem ref_roundtrip (x : Nat) : ((x >>> 16) <<< 16) ||| (x % 65536) = x := by
  rw [← Nat.shiftLeft_add_eq_or_of_lt (by omega), Nat.shiftRight_eq_div_pow, Nat.shiftLeft_eq]
  have := Nat.div_add_mod x 65536
  omega

/-! ### reading -/

def prependOk (l : List DirEntry) : Except Status (List DirEntry) → Except Status (List DirEntry)
  | .ok x => .ok (l ++ x)
  | .error e => .error e

theorem prependOk_nil (r : Except Status (List DirEntry)) : prependOk [] r = r := by
  cases r <;> rfl

theorem prependOk_cons (e : DirEntry) (l : List DirEntry) (r : Except Status (List DirEntry)) :
    prependOk (e :: l) r = (match prependOk l r with | .ok x => .ok (e :: x) | .error er => .error er) := by
  cases r <;> rfl

theorem readAllGo_succ (f : Nat) (s : RdState) :
    readAllGo (f + 1) s = (match readdir s with
      | .eof => .ok []
      | .err e => .error e
      | .ent e s' => match readAllGo f s' with | .ok l => .ok (e :: l) | .error e => .error e) := rfl

/-- what `sqfs_dir_writer_end` guarantees for an entry relative to the header of its run -/
def InRun (hblk hnum : Nat) (e : DEnt) : Prop :=
  WfDEnt e ∧ (e.inodeRef >>> 16) % 4294967296 = hblk ∧ -32767 ≤ sdiff32 e.inodeNum hnum ∧ sdiff32 e.inodeNum hnum ≤ 32767

/-- one entry -/
theorem readdirEnt_spec (hblk hnum : Nat) (hh : hnum < 4294967296) (e : DEnt) (he : InRun hblk hnum e) (tail : Bytes)
    (k m : Nat) (hk : 1 ≤ k) :
    readdirEnt ⟨encodeEnt hnum e ++ tail, entSize e + k, m + 1, hnum, hblk⟩
      = .ent (DEnt.toEntry e) ⟨tail, k, m, hnum, hblk⟩ := by
  obtain ⟨⟨hl1, hl2, hn, ht, hr⟩, hb, hd1, hd2⟩ := he
  have hsz : entSize e = 8 + e.name.length := by simp [entSize, sizeofDirNode]
  unfold readdirEnt
  have hgt : ¬ (entSize e + k ≤ sizeofDirNode) := by rw [hsz]; simp [sizeofDirNode]; omega
  simp only [hgt, if_false]
  rw [encodeEnt_eq, List.append_assoc]
  have hf := readFields_encFields_fit [(2, e.inodeRef % 65536), (2, (e.inodeNum + 4294967296 - hnum % 4294967296) % 65536),
      (2, e.typ % 65536), (2, (e.name.length - 1) % 65536)] (e.name ++ tail) (by
    simp only [List.forall_mem_cons, List.not_mem_nil, false_imp_iff, implies_true, and_true]
    refine ⟨?_, ?_, ?_, ?_⟩ <;> simp <;> omega)
  simp only [List.map_cons, List.map_nil] at hf
  rw [hf]
  have hlen : (e.name.length - 1) % 65536 + 1 = e.name.length := by omega
  simp only [hlen, take?_append]
  have hdiff := addDiff_roundtrip e.inodeNum hnum (by simpa using hn) hh hd1 hd2
  have hty : e.typ % 65536 = e.typ := by omega
  have h8 : sizeofDirNode = 8 := rfl
  have hsize : (if e.name.length ≥ entSize e + k - sizeofDirNode then 0 else entSize e + k - sizeofDirNode - e.name.length) = k := by
    have hn : entSize e + k - sizeofDirNode = e.name.length + k := by rw [hsz, h8]; omega
    rw [hn, if_neg (by omega)]; omega
  have href : (hblk <<< 16) ||| (e.inodeRef % 65536) = e.inodeRef := by
    rw [← hb]
    have : e.inodeRef >>> 16 < 4294967296 := by
      rw [Nat.shiftRight_eq_div_pow]; have : e.inodeRef < 2 ^ 48 := hr; omega
    rw [Nat.mod_eq_of_lt this]
    exact ref_roundtrip e.inodeRef
  simp only [hdiff, hty, hsize, href, DEnt.toEntry, Nat.add_sub_cancel]

/-- the entries of one run, once its header has been read -/
theorem readEntries_spec (hblk hnum : Nat) (hh : hnum < 4294967296) :
    ∀ (es : List DEnt), (∀ e ∈ es, InRun hblk hnum e) → ∀ (tail : Bytes) (k f : Nat), 1 ≤ k →
      readAllGo (f + es.length) ⟨(es.map (encodeEnt hnum)).flatten ++ tail, (es.map entSize).sum + k, es.length, hnum, hblk⟩
        = prependOk (es.map DEnt.toEntry) (readAllGo f ⟨tail, k, 0, hnum, hblk⟩) := by
  intro es
  induction es with
  | nil => intro _ tail k f _; simp [prependOk_nil]
  | cons e es ih =>
    intro hall tail k f hk
    have he := hall e (List.mem_cons_self ..)
    have hrest := ih (fun x hx => hall x (List.mem_cons_of_mem _ hx)) tail k f hk
    simp only [List.map_cons, List.flatten_cons, List.sum_cons, List.length_cons, List.append_assoc]
    rw [show f + (es.length + 1) = (f + es.length) + 1 by omega, readAllGo_succ]
    have hne : ¬ ((es.length + 1) = 0) := by omega
    simp only [readdir, hne, if_false]
    rw [show entSize e + (es.map entSize).sum + k = entSize e + ((es.map entSize).sum + k) by omega]
    rw [readdirEnt_spec hblk hnum hh e he _ _ es.length (by omega)]
    simp only [hrest, prependOk_cons]

theorem entSize_sum (es : List DEnt) : runBytes es = sizeofDirHeader + (es.map entSize).sum := rfl

/-- one run: header + entries -/
theorem readRun_spec (r : Run) (hok : RunOk r) (hwf : ∀ e ∈ r.ents, WfDEnt e) (tail : Bytes) (k f : Nat) (hk : 1 ≤ k)
    (b0 n0 : Nat) :
    readAllGo (f + r.ents.length) ⟨encodeRun r ++ tail, runBytes r.ents + k, 0, n0, b0⟩
      = prependOk (r.ents.map DEnt.toEntry) (readAllGo f ⟨tail, k, 0, r.inodeNumber, r.startBlock⟩) := by
  obtain ⟨first, tl, hents, hlen, hsb, hin, hall⟩ := hok
  have hfirst := hwf first (by rw [hents]; exact List.mem_cons_self ..)
  have hnum : r.inodeNumber < 4294967296 := by rw [hin]; have := hfirst.2.2.1; simpa using this
  have hsbl : r.startBlock < 4294967296 := by rw [hsb]; exact Nat.mod_lt _ (by decide)
  have hpos : r.ents.length = tl.length + 1 := by rw [hents]; rfl
  rw [hpos, show f + (tl.length + 1) = (f + tl.length) + 1 by omega, readAllGo_succ]
  simp only [readdir, if_true]
  have hgt : ¬ (runBytes r.ents + k ≤ sizeofDirHeader) := by
    rw [entSize_sum]; simp only [sizeofDirHeader]; omega
  simp only [hgt, if_false]
  rw [encodeRun_eq, List.append_assoc]
  have hmd : maxDirEnt = 256 := rfl
  have hf := readFields_encFields_fit [(4, (r.ents.length - 1) % 4294967296), (4, r.startBlock), (4, r.inodeNumber)]
      ((r.ents.map (encodeEnt r.inodeNumber)).flatten ++ tail) (by
    simp only [List.forall_mem_cons, List.not_mem_nil, false_imp_iff, implies_true, and_true]
    refine ⟨?_, ?_, ?_⟩ <;> simp <;> omega)
  simp only [List.map_cons, List.map_nil] at hf
  rw [hf]
  have hc : (r.ents.length - 1) % 4294967296 = tl.length := by omega
  have hle : ¬ (tl.length > maxDirEnt - 1) := by omega
  simp only [hc, hle, if_false]
  have hin' : ∀ e ∈ r.ents, InRun r.startBlock r.inodeNumber e := by
    intro e he
    obtain ⟨h1, h2, h3⟩ := hall e he
    exact ⟨hwf e he, by rw [h1, hsb], h2, h3⟩
  have := readEntries_spec r.startBlock r.inodeNumber hnum r.ents hin' tail k f hk
  rw [hpos] at this
  have hsz : runBytes r.ents + k - sizeofDirHeader = (r.ents.map entSize).sum + k := by rw [entSize_sum]; omega
  rw [hsz]
  have hgo : readAllGo (f + tl.length + 1)
      ⟨(r.ents.map (encodeEnt r.inodeNumber)).flatten ++ tail, (r.ents.map entSize).sum + k, tl.length + 1, r.inodeNumber, r.startBlock⟩
      = prependOk (r.ents.map DEnt.toEntry) (readAllGo f ⟨tail, k, 0, r.inodeNumber, r.startBlock⟩) := by
    rw [show f + tl.length + 1 = f + (tl.length + 1) by omega]; exact this
  rw [readAllGo_succ] at hgo
  simp only [readdir, show ¬ (tl.length + 1 = 0) by omega, if_false] at hgo
  exact hgo

/-- all runs, then the three bytes of slack the inode's size field carries end the loop -/
theorem readRuns_spec : ∀ (runs : List Run), (∀ r ∈ runs, RunOk r) → (∀ r ∈ runs, ∀ e ∈ r.ents, WfDEnt e) →
    ∀ (rest : Bytes) (f b0 n0 : Nat), 1 ≤ f →
      readAllGo (f + ((runs.map (·.ents)).flatten).length) ⟨(runs.map encodeRun).flatten ++ rest, dirSizeOf runs + 3, 0, n0, b0⟩
        = .ok (((runs.map (·.ents)).flatten).map DEnt.toEntry) := by
  intro runs
  induction runs with
  | nil =>
    intro _ _ rest f b0 n0 hf
    obtain ⟨g, rfl⟩ : ∃ g, f = g + 1 := ⟨f - 1, by omega⟩
    simp [readAllGo, readdir, dirSizeOf, sizeofDirHeader]
  | cons r rs ih =>
    intro hok hwf rest f b0 n0 hf
    have h1 := readRun_spec r (hok r (List.mem_cons_self ..)) (hwf r (List.mem_cons_self ..))
      ((rs.map encodeRun).flatten ++ rest) (dirSizeOf rs + 3) (f + ((rs.map (·.ents)).flatten).length) (by omega) b0 n0
    have h2 := ih (fun x hx => hok x (List.mem_cons_of_mem _ hx)) (fun x hx => hwf x (List.mem_cons_of_mem _ hx))
      rest f r.startBlock r.inodeNumber hf
    simp only [List.map_cons, List.flatten_cons, List.length_append, List.append_assoc, List.map_append]
    have hsz : dirSizeOf (r :: rs) + 3 = runBytes r.ents + (dirSizeOf rs + 3) := by simp [dirSizeOf]; omega
    rw [hsz, show f + (r.ents.length + ((rs.map (·.ents)).flatten).length)
      = (f + ((rs.map (·.ents)).flatten).length) + r.ents.length by omega, h1, h2]
    rfl

/-- more fuel never changes a successful answer -/
theorem readAllGo_mono : ∀ (f : Nat) (s : RdState) (l : List DirEntry), readAllGo f s = .ok l →
    ∀ g, f ≤ g → readAllGo g s = .ok l := by
  intro f
  induction f with
  | zero => intro s l h; simp [readAllGo] at h
  | succ f ih =>
    intro s l h g hg
    obtain ⟨g', rfl⟩ : ∃ g', g = g' + 1 := ⟨g - 1, by omega⟩
    unfold readAllGo at h ⊢
    cases hr : readdir s with
    | eof => rw [hr] at h; exact h
    | err e => rw [hr] at h; cases h
    | ent e s' =>
      rw [hr] at h
      simp only at h ⊢
      cases hgo : readAllGo f s' with
      | error e => rw [hgo] at h; cases h
      | ok l' =>
        rw [hgo] at h
        rw [ih s' l' hgo g' (by omega)]
        exact h

theorem runBytes_ge (es : List DEnt) (h : ∀ e ∈ es, 1 ≤ e.name.length) : 9 * es.length + 12 ≤ runBytes es := by
  rw [entSize_sum]
  simp only [sizeofDirHeader]
  induction es with
  | nil => simp
  | cons e es ih =>
    have := ih (fun x hx => h x (List.mem_cons_of_mem _ hx))
    have he := h e (List.mem_cons_self ..)
    simp only [List.map_cons, List.sum_cons, List.length_cons, entSize, sizeofDirNode]
    omega

theorem dirSizeOf_ge : ∀ (runs : List Run), (∀ r ∈ runs, ∀ e ∈ r.ents, WfDEnt e) →
    ((runs.map (·.ents)).flatten).length ≤ dirSizeOf runs := by
  intro runs
  induction runs with
  | nil => intro _; simp [dirSizeOf]
  | cons r rs ih =>
    intro h
    have h1 := ih (fun x hx => h x (List.mem_cons_of_mem _ hx))
    have h2 := runBytes_ge r.ents (fun e he => (h r (List.mem_cons_self ..) e he).1)
    simp only [List.map_cons, List.flatten_cons, List.length_append, dirSizeOf, List.sum_cons] at h1 ⊢
    omega

/-- **Directory listing round trip.**  Whatever `sqfs_dir_writer_end` appended for the entries `ents` (at any
position `(blk, off)` of the directory meta writer, any block cost), the reader's state machine started with the size
the inode carries (`dir_size + 3`) hands the entries back, in order, with name, inode number, type and reference. -/
theorem readListing_encListing (c blk off : Nat) (ents : List DEnt) (rest : Bytes) (hwf : ∀ e ∈ ents, WfDEnt e) :
    readListing ⟨encListing c blk off ents ++ rest, listingSize c blk off ents + 3, 0, 0, 0⟩
      = .ok (ents.map DEnt.toEntry) := by
  unfold readListing encListing listingSize dirEnd
  have hflat := Sqfs.DirWriter.dirEndGo_flatten c (ents.length + 1) blk off 0 ents (by omega)
  have hok := Sqfs.DirWriter.dirEndGo_runs_ok c (ents.length + 1) blk off 0 ents
  generalize dirEndGo c (ents.length + 1) blk off 0 ents = runs at hflat hok
  have hwf' : ∀ r ∈ runs, ∀ e ∈ r.ents, WfDEnt e := by
    intro r hr e he
    apply hwf
    rw [← hflat]
    exact List.mem_flatten.mpr ⟨r.ents, List.mem_map.mpr ⟨r, hr, rfl⟩, he⟩
  have h := readRuns_spec runs hok hwf' rest 1 0 0 (by omega)
  rw [hflat] at h
  have hge := dirSizeOf_ge runs hwf'
  rw [hflat] at hge
  exact readAllGo_mono _ _ _ h _ (by simp only; omega)

end Sqfs.Enc
