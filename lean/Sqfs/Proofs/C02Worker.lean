/-
C02 helper lemmas: a pool whose workers carry compressor state is, for a history-independent `do_block`, the pure pool.
-/
import Sqfs.Model.C02Worker
namespace Sqfs.BlockProc

theorem StatefulCodec.at_eq_pure {σ : Type} (c : StatefulCodec σ) (hi : c.HistoryIndependent) (s : σ) : c.at s = c.pure := by
  unfold StatefulCodec.at StatefulCodec.pure
  congr 1
  funext x
  exact hi s x

theorem processBlockS_pure {σ : Type} (P : Params) (c : StatefulCodec σ) (hi : c.HistoryIndependent) (s : σ) (b : Blk) :
    (processBlockS P c s b).2 = processBlock { P with codec := c.pure } b := by
  unfold processBlockS
  rw [c.at_eq_pure hi s]

theorem workItems_pure {σ : Type} (P : Params) (c : StatefulCodec σ) (hi : c.HistoryIndependent) (asg : Nat → Nat) :
    ∀ (items : List Blk) (st : Nat → σ) (id : Nat),
      workItems P c asg st id items = items.map (processBlock { P with codec := c.pure }) := by
  intro items
  induction items with
  | nil => intro st id; rfl
  | cons b bs ih =>
    intro st id
    simp only [workItems, List.map_cons]
    rw [processBlockS_pure P c hi, ih]

end Sqfs.BlockProc
