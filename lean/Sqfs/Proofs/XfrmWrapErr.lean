/-
C15 — corrupted input.  The `process_data` loop of gzip.c / xz.c / bzip2.c over a library that follows the error-return
convention `LibDoom` (an error code, or progress inside the buffers, never `STREAM_END` on input that has gone wrong) is a
decoder meeting `Doom` / `DecErrContract`: it reports `XFRM_STREAM_ERROR` or makes progress, and at the end of the input it
reports the error (`total_in > 0`) unless it still has output — it never comes back empty-handed, never spins.
Then the toy instances (non-vacuity) for all three interfaces.
-/
import Sqfs.Proofs.XfrmZstdDec
namespace Sqfs.Xfrm
open Sqfs.Xfrm.Spec

section WrapErr
variable {τ : Type} {L : Lib τ} {b : Backend} {Dec : Bytes → Option Bytes}

/-- what one `process_data` call of a decompressing backend does once the input has gone wrong -/
def DoomPost (hL : LibDecContract L b Dec) (E : LibDoom hL) (s : τ) (rest inp : Bytes) (j room : Nat) (fl : Flush)
    (r : StepOut τ) : Prop :=
  r.res = Res.error ∨
  (r.consumed ≤ inp.length ∧ r.out.length ≤ room ∧ (∃ j', E.B r.st (rest.drop r.consumed) j' ∧ r.out.length + j' ≤ j) ∧
    (r.res = Res.bufferFull → r.out ≠ []) ∧
    (0 < room → inp ≠ [] → 0 < r.consumed ∨ hL.pend r.st < hL.pend s) ∧
    (0 < room → fl = Flush.full → inp = [] → r.out ≠ []))

theorem wrapProcess_doom_spec (hL : LibDecContract L b Dec) (E : LibDoom hL) {s : τ} {rest : Bytes} {j : Nat}
    (hB : E.B s rest j) (inp : Bytes) (room : Nat) (fl : Flush) (hin : IsPre inp rest) (hfull : fl = Flush.full → inp = rest) :
    ∃ r, wrapProcess L b false s inp room fl = some r ∧ DoomPost hL E s rest inp j room fl r := by
  have main := iter_fuel (wrapBody L b false fl)
    (fun a => a.2.2.2.1 ≤ inp.length ∧ a.2.1 = inp.drop a.2.2.2.1 ∧ a.2.2.2.2.length ≤ room ∧
      a.2.2.1 = room - a.2.2.2.2.length ∧ (∃ j1, E.B a.1 (rest.drop a.2.2.2.1) j1 ∧ a.2.2.2.2.length + j1 ≤ j) ∧
      ((a.1 = s ∧ a.2.2.2.1 = 0 ∧ a.2.2.2.2 = []) ∨
        ((inp ≠ [] → 0 < a.2.2.2.1 ∨ hL.pend a.1 < hL.pend s) ∧ (inp = [] → a.2.2.2.2 ≠ []))))
    (DoomPost hL E s rest inp j room fl)
    (fun a => a.2.1.length + a.2.2.1) ?_ (s, inp, room, 0, [])
    ⟨Nat.zero_le _, by simp, by simp, by simp, ⟨j, by simpa using hB, by simp⟩, Or.inl ⟨rfl, rfl, rfl⟩⟩
  · obtain ⟨r, hr, hq⟩ := main
    refine ⟨r, ?_, hq⟩
    simp only [wrapProcess, wrapLoop]
    exact iter_mono _ _ _ _ hr _ (by simp)
  · rintro ⟨st, inp', room', ai, ao⟩ ⟨hai, hinp, hao, hroom, ⟨j1, hB1, hj1⟩, htrack⟩
    simp only at hai hinp hao hroom hB1 hj1 htrack
    have hlen : inp'.length = inp.length - ai := by rw [hinp]; simp
    have hin' : IsPre inp' (rest.drop ai) := by rw [hinp]; exact hin.drop ai
    by_cases hcond : ((decide (0 < inp'.length) || decide (fl = Flush.full)) && decide (0 < room')) = true
    · have hr0 : 0 < room' := by simp only [Bool.and_eq_true, decide_eq_true_eq] at hcond; exact hcond.2
      have hwork : inp' ≠ [] ∨ fl = Flush.full := by
        simp only [Bool.and_eq_true, Bool.or_eq_true, decide_eq_true_eq] at hcond
        rcases hcond.1 with h | h
        · left; intro h0; rw [h0] at h; simp at h
        · right; exact h
      rcases E.call hB1 inp' room' fl hin' hr0 _ rfl with hbad | ⟨hret, hcl, hol, ⟨j', hB', hjj⟩, hbytes, hquiet, hprog⟩
      · -- the library reports an error
        have hnobz : ¬ (b = Backend.bzip2 ∧ (L.call st inp' room' fl).ret = LibRet.bufError) := by
          rintro ⟨_, h2⟩
          rcases hbad with h | h <;> rw [h] at h2 <;> cases h2
        have herr : isLibError b (L.call st inp' room' fl).ret = true := by
          rcases hbad with h | h <;> rw [h] <;> cases b <;> rfl
        simp only [wrapBody, hcond, if_true, hnobz, if_false, herr]
        refine ⟨fun r hr => ?_, fun a' h => (by cases h)⟩
        cases hr
        exact Or.inl rfl
      · have hnobz : ¬ (b = Backend.bzip2 ∧ (L.call st inp' room' fl).ret = LibRet.bufError) := by
          rintro ⟨h1, h2⟩
          rcases hret with h | ⟨_, h⟩
          · rw [h] at h2; cases h2
          · exact h h1
        have hnoerr : isLibError b (L.call st inp' room' fl).ret = false := by
          rcases hret with h | ⟨h, _⟩ <;> rw [h] <;> cases b <;> rfl
        have hE : (L.call st inp' room' fl).ret ≠ LibRet.streamEnd := by
          rcases hret with h | ⟨h, _⟩ <;> rw [h] <;> simp
        have hB'' : E.B (L.call st inp' room' fl).st (rest.drop (ai + (L.call st inp' room' fl).consumed)) j' := by
          rw [← List.drop_drop]; exact hB'
        have hprogN : inp ≠ [] → 0 < ai + (L.call st inp' room' fl).consumed ∨ hL.pend (L.call st inp' room' fl).st < hL.pend s := by
          intro hne
          by_cases hpos : 0 < ai + (L.call st inp' room' fl).consumed
          · exact Or.inl hpos
          · right
            have hai0 : ai = 0 := by omega
            have hinp0 : inp' = inp := by rw [hinp, hai0]; simp
            rcases hprog (by rw [hinp0]; exact hne) with h | h
            · omega
            · rcases htrack with ⟨h1, _, _⟩ | ⟨h1, _⟩
              · rw [← h1]; exact h
              · rcases h1 hne with h1 | h1
                · omega
                · omega
        simp only [wrapBody, hcond, if_true, hnobz, if_false, hnoerr, Bool.false_eq_true, Bool.not_false, Bool.true_and, hE]
        by_cases hrule : (decide ((inp'.drop (L.call st inp' room' fl).consumed).length = 0) &&
            decide ((L.call st inp' room' fl).out.length = 0) && decide (fl = Flush.full)) = true
        · -- "no more input will follow and nothing is left to unpack": total_in > 0, the error
          rw [if_pos hrule]
          simp only [Bool.and_eq_true, decide_eq_true_eq, List.length_drop] at hrule
          obtain ⟨⟨hall, _⟩, hfl⟩ := hrule
          have hrest0 : rest.drop (ai + (L.call st inp' room' fl).consumed) = [] := by
            apply List.eq_nil_of_length_eq_zero
            rw [List.length_drop, ← hfull hfl]; omega
          have hti : 0 < L.totalIn (L.call st inp' room' fl).st := by
            by_cases h0 : L.totalIn (L.call st inp' room' fl).st = 0
            · exact absurd hrest0 (E.total hB'' h0)
            · omega
          rw [if_pos hti]
          refine ⟨fun r hr => ?_, fun a' h => (by cases h)⟩
          cases hr
          exact Or.inl rfl
        · rw [if_neg hrule]
          -- without input the end-of-input rule did not apply, so something was handed out
          have hout_eof : inp' = [] → (L.call st inp' room' fl).out ≠ [] := by
            intro h0 hnil
            apply hrule
            have hfl : fl = Flush.full := by
              rcases hwork with h' | h'
              · exact absurd h0 h'
              · exact h'
            simp only [Bool.and_eq_true, decide_eq_true_eq]
            exact ⟨⟨by rw [List.length_drop, h0]; simp, by rw [hnil]; rfl⟩, hfl⟩
          by_cases hbuf : (L.call st inp' room' fl).ret = LibRet.bufError
          · rw [if_pos hbuf]
            have hbfout : (L.call st inp' room' fl).out ≠ [] := by
              intro hnil
              obtain ⟨q1, q2⟩ := hquiet hbuf hnil
              apply hrule
              have hfl : fl = Flush.full := by
                rcases q2 with h | h
                · exact h
                · rcases hwork with h' | h'
                  · exact absurd h h'
                  · exact h'
              simp only [Bool.and_eq_true, decide_eq_true_eq]
              exact ⟨⟨by rw [List.length_drop, q1]; omega, by rw [hnil]; rfl⟩, hfl⟩
            refine ⟨fun r hr => ?_, fun a' h => (by cases h)⟩
            cases hr
            right
            refine ⟨by simp only; omega, by simp only [List.length_append]; omega, ⟨j', hB'', by simp only [List.length_append]; omega⟩,
              ?_, fun _ hne => hprogN hne, ?_⟩
            · intro _ hnil
              exact hbfout (List.append_eq_nil_iff.1 hnil).2
            · intro _ _ _ hnil
              exact hbfout (List.append_eq_nil_iff.1 hnil).2
          · rw [if_neg hbuf]
            have hok : (L.call st inp' room' fl).ret = LibRet.ok := by
              rcases hret with h | ⟨h, _⟩
              · exact h
              · exact absurd h hbuf
            have hby : 0 < (L.call st inp' room' fl).consumed + (L.call st inp' room' fl).out.length := by
              by_cases h0 : inp' = []
              · have := hout_eof h0
                cases hh : (L.call st inp' room' fl).out with
                | nil => exact absurd hh this
                | cons a t => simp only [List.length_cons]; omega
              · exact hbytes hok h0
            refine ⟨fun r h => (by cases h), ?_⟩
            intro a' ha'; cases ha'
            refine ⟨⟨by simp only; omega, by simp only; rw [hinp, List.drop_drop], by simp only [List.length_append]; omega,
              by simp only [List.length_append]; omega, ⟨j', hB'', by simp only [List.length_append]; omega⟩, Or.inr ⟨hprogN, ?_⟩⟩, ?_⟩
            · intro hnil hh
              have : inp' = [] := by rw [hinp, hnil]; simp
              exact hout_eof this (List.append_eq_nil_iff.1 hh).2
            · simp only [List.length_drop]; omega
    · -- the loop condition is false: leave with XFRM_STREAM_OK
      simp only [wrapBody, hcond, Bool.false_eq_true, if_false]
      refine ⟨?_, fun a' h => (by cases h)⟩
      intro r hr; cases hr
      right
      have hnotstart : ¬ (st = s ∧ ai = 0 ∧ ao = []) ∨ ¬ (0 < room ∧ (inp ≠ [] ∨ fl = Flush.full)) := by
        by_cases hs : st = s ∧ ai = 0 ∧ ao = []
        · right
          rintro ⟨hr0, hw⟩
          apply hcond
          obtain ⟨_, h2, h3⟩ := hs
          have hr' : 0 < room' := by rw [hroom, h3]; simpa using hr0
          have : 0 < inp'.length ∨ fl = Flush.full := by
            rcases hw with h | h
            · left; rw [hinp, h2]
              cases inp with
              | nil => exact absurd rfl h
              | cons a t => simp
            · right; exact h
          rcases this with h | h <;> simp [h, hr']
        · exact Or.inl hs
      refine ⟨hai, hao, ⟨j1, hB1, hj1⟩, fun h => (by cases h), ?_, ?_⟩
      · intro hr0 hne
        rcases htrack with h | ⟨h, _⟩
        · rcases hnotstart with h' | h'
          · exact absurd h h'
          · exact absurd ⟨hr0, Or.inl hne⟩ h'
        · exact h hne
      · intro hr0 hfl hnil
        rcases htrack with h | ⟨_, h⟩
        · rcases hnotstart with h' | h'
          · exact absurd h h'
          · exact absurd ⟨hr0, Or.inr hfl⟩ h'
        · exact h hnil

/-- the decompressing backend object on input that has gone wrong -/
def wrapDoom (hL : LibDecContract L b Dec) (E : LibDoom hL) : Doom (wrapDecContract hL) where
  B := E.B
  budget := E.budget
  step_none := by
    intro s rest j hB n room hn hnr hroom r hr
    obtain ⟨r', hrun, hpost⟩ := wrapProcess_doom_spec hL E hB (rest.take n) room Flush.none (IsPre.take _ _) (fun h => by cases h)
    have hr' : r = r' := by rw [hr]; simp only [wrapCodec, hrun]
    subst hr'
    have hlen : (rest.take n).length = n := by simp [List.length_take]; omega
    have hne : rest.take n ≠ [] := by
      intro h; rw [h] at hlen; simp at hlen; omega
    rcases hpost with he | ⟨h1, h2, h3, h4, h5, _⟩
    · exact Or.inl he
    · right
      refine ⟨h2, by omega, h3, h4, ?_⟩
      rcases h5 hroom hne with h | h
      · exact Or.inl h
      · exact Or.inr (Or.inl h)
  step_full := by
    intro s j hB room hroom r hr
    obtain ⟨r', hrun, hpost⟩ := wrapProcess_doom_spec hL E hB [] room Flush.full (IsPre.nil _) (fun _ => rfl)
    have hr' : r = r' := by rw [hr]; simp only [wrapCodec, hrun]
    subst hr'
    rcases hpost with he | ⟨h1, h2, ⟨j', h3, h3'⟩, _, _, h6⟩
    · exact Or.inl he
    · right
      have hc0 : r.consumed = 0 := by simpa using h1
      refine ⟨hc0, h6 hroom rfl rfl, h2, j', ?_, h3'⟩
      rw [hc0] at h3; simpa using h3

/-- **library error convention ⇒ codec-level contract for input that has gone wrong** (gzip.c, xz.c, bzip2.c) -/
def wrapDecErrContract (hL : LibDecContract L b Dec) (hE : LibDecErrContract hL) : DecErrContract (wrapDecContract hL) where
  toDoom := wrapDoom hL hE.toLibDoom
  enter := by
    intro s c hR hd
    exact hE.enter hR hd

end WrapErr

end Sqfs.Xfrm
