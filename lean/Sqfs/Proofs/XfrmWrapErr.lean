/-
C15 — corrupted input.  The `process_data` loop of gzip.c / xz.c / bzip2.c over a library that follows the error-return
convention `LibDoom` (an error code, or progress inside the buffers, never `STREAM_END` on input that has gone wrong) is a
decoder meeting `Doom` / `DecErrContract`: it reports `XFRM_STREAM_ERROR` or makes progress, and at the end of the input it
reports the error (`total_in > 0`) unless it still has output — it never comes back empty-handed, never spins.
Then the toy instances (non-vacuity) for all three interfaces.
-/
import Sqfs.Proofs.XfrmZstdDec
namespace Sqfs.Xfrm
open Sqfs.Xfrm.Spec

section WrapErr
variable {τ : Type} {L : Lib τ} {b : Backend} {Dec : Bytes → Option Bytes}

/-- what one `process_data` call of a decompressing backend does once the input has gone wrong -/
def DoomPost (hL : LibDecContract L b Dec) (E : LibDoom hL) (s : τ) (rest inp : Bytes) (j room : Nat) (fl : Flush)
    (r : StepOut τ) : Prop :=
  r.res = Res.error ∨
  (r.consumed ≤ inp.length ∧ r.out.length ≤ room ∧ (∃ j', E.B r.st (rest.drop r.consumed) j' ∧ r.out.length + j' ≤ j) ∧
    (r.res = Res.bufferFull → r.out ≠ []) ∧
    (0 < room → inp ≠ [] → 0 < r.consumed ∨ hL.pend r.st < hL.pend s) ∧
    (0 < room → fl = Flush.full → inp = [] → r.out ≠ []))

theorem wrapProcess_doom_spec (hL : LibDecContract L b Dec) (E : LibDoom hL) {s : τ} {rest : Bytes} {j : Nat}
    (hB : E.B s rest j) (inp : Bytes) (room : Nat) (fl : Flush) (hin : IsPre inp rest) (hfull : fl = Flush.full → inp = rest) :
    ∃ r, wrapProcess L b false s inp room fl = some r ∧ DoomPost hL E s rest inp j room fl r := by
  have main := iter_fuel (wrapBody L b false fl)
    (fun a => a.2.2.2.1 ≤ inp.length ∧ a.2.1 = inp.drop a.2.2.2.1 ∧ a.2.2.2.2.length ≤ room ∧
      a.2.2.1 = room - a.2.2.2.2.length ∧ (∃ j1, E.B a.1 (rest.drop a.2.2.2.1) j1 ∧ a.2.2.2.2.length + j1 ≤ j) ∧
      ((a.1 = s ∧ a.2.2.2.1 = 0 ∧ a.2.2.2.2 = []) ∨
        ((inp ≠ [] → 0 < a.2.2.2.1 ∨ hL.pend a.1 < hL.pend s) ∧ (inp = [] → a.2.2.2.2 ≠ []))))
    (DoomPost hL E s rest inp j room fl)
    (fun a => a.2.1.length + a.2.2.1) ?_ (s, inp, room, 0, [])
    ⟨Nat.zero_le _, by simp, by simp, by simp, ⟨j, by simpa using hB, by simp⟩, Or.inl ⟨rfl, rfl, rfl⟩⟩
  · obtain ⟨r, hr, hq⟩ := main
    refine ⟨r, ?_, hq⟩
    simp only [wrapProcess, wrapLoop]
    exact iter_mono _ _ _ _ hr _ (by simp)
  · rintro ⟨st, inp', room', ai, ao⟩ ⟨hai, hinp, hao, hroom, ⟨j1, hB1, hj1⟩, htrack⟩
    simp only at hai hinp hao hroom hB1 hj1 htrack
    have hlen : inp'.length = inp.length - ai := by rw [hinp]; simp
    have hin' : IsPre inp' (rest.drop ai) := by rw [hinp]; exact hin.drop ai
    by_cases hcond : ((decide (0 < inp'.length) || decide (fl = Flush.full)) && decide (0 < room')) = true
    · have hr0 : 0 < room' := by simp only [Bool.and_eq_true, decide_eq_true_eq] at hcond; exact hcond.2
      have hwork : inp' ≠ [] ∨ fl = Flush.full := by
        simp only [Bool.and_eq_true, Bool.or_eq_true, decide_eq_true_eq] at hcond
        rcases hcond.1 with h | h
        · left; intro h0; rw [h0] at h; simp at h
        · right; exact h
      rcases E.call hB1 inp' room' fl hin' hr0 _ rfl with hbad | ⟨hret, hcl, hol, ⟨j', hB', hjj⟩, hbytes, hquiet, hprog⟩
      · -- the library reports an error
        have hnobz : ¬ (b = Backend.bzip2 ∧ (L.call st inp' room' fl).ret = LibRet.bufError) := by
          rintro ⟨_, h2⟩
          rcases hbad with h | h <;> rw [h] at h2 <;> cases h2
        have herr : isLibError b (L.call st inp' room' fl).ret = true := by
          rcases hbad with h | h <;> rw [h] <;> cases b <;> rfl
        simp only [wrapBody, hcond, if_true, hnobz, if_false, herr]
        refine ⟨fun r hr => ?_, fun a' h => (by cases h)⟩
        cases hr
        exact Or.inl rfl
      · have hnobz : ¬ (b = Backend.bzip2 ∧ (L.call st inp' room' fl).ret = LibRet.bufError) := by
          rintro ⟨h1, h2⟩
          rcases hret with h | ⟨_, h⟩
          · rw [h] at h2; cases h2
          · exact h h1
        have hnoerr : isLibError b (L.call st inp' room' fl).ret = false := by
          rcases hret with h | ⟨h, _⟩ <;> rw [h] <;> cases b <;> rfl
        have hE : (L.call st inp' room' fl).ret ≠ LibRet.streamEnd := by
          rcases hret with h | ⟨h, _⟩ <;> rw [h] <;> simp
        have hB'' : E.B (L.call st inp' room' fl).st (rest.drop (ai + (L.call st inp' room' fl).consumed)) j' := by
          rw [← List.drop_drop]; exact hB'
        have hprogN : inp ≠ [] → 0 < ai + (L.call st inp' room' fl).consumed ∨ hL.pend (L.call st inp' room' fl).st < hL.pend s := by
          intro hne
          by_cases hpos : 0 < ai + (L.call st inp' room' fl).consumed
          · exact Or.inl hpos
          · right
            have hai0 : ai = 0 := by omega
            have hinp0 : inp' = inp := by rw [hinp, hai0]; simp
            rcases hprog (by rw [hinp0]; exact hne) with h | h
            · omega
            · rcases htrack with ⟨h1, _, _⟩ | ⟨h1, _⟩
              · rw [← h1]; exact h
              · rcases h1 hne with h1 | h1
                · omega
                · omega
        simp only [wrapBody, hcond, if_true, hnobz, if_false, hnoerr, Bool.false_eq_true, Bool.not_false, Bool.true_and, hE]
        by_cases hrule : (decide ((inp'.drop (L.call st inp' room' fl).consumed).length = 0) &&
            decide ((L.call st inp' room' fl).out.length = 0) && decide (fl = Flush.full)) = true
        · -- "no more input will follow and nothing is left to unpack": total_in > 0, the error
          rw [if_pos hrule]
          simp only [Bool.and_eq_true, decide_eq_true_eq, List.length_drop] at hrule
          obtain ⟨⟨hall, _⟩, hfl⟩ := hrule
          have hrest0 : rest.drop (ai + (L.call st inp' room' fl).consumed) = [] := by
            apply List.eq_nil_of_length_eq_zero
            rw [List.length_drop, ← hfull hfl]; omega
          have hti : 0 < L.totalIn (L.call st inp' room' fl).st := by
            by_cases h0 : L.totalIn (L.call st inp' room' fl).st = 0
            · exact absurd hrest0 (E.total hB'' h0)
            · omega
          rw [if_pos hti]
          refine ⟨fun r hr => ?_, fun a' h => (by cases h)⟩
          cases hr
          exact Or.inl rfl
        · rw [if_neg hrule]
          -- without input the end-of-input rule did not apply, so something was handed out
          have hout_eof : inp' = [] → (L.call st inp' room' fl).out ≠ [] := by
            intro h0 hnil
            apply hrule
            have hfl : fl = Flush.full := by
              rcases hwork with h' | h'
              · exact absurd h0 h'
              · exact h'
            simp only [Bool.and_eq_true, decide_eq_true_eq]
            exact ⟨⟨by rw [List.length_drop, h0]; simp, by rw [hnil]; rfl⟩, hfl⟩
          by_cases hbuf : (L.call st inp' room' fl).ret = LibRet.bufError
          · rw [if_pos hbuf]
            have hbfout : (L.call st inp' room' fl).out ≠ [] := by
              intro hnil
              obtain ⟨q1, q2⟩ := hquiet hbuf hnil
              apply hrule
              have hfl : fl = Flush.full := by
                rcases q2 with h | h
                · exact h
                · rcases hwork with h' | h'
                  · exact absurd h h'
                  · exact h'
              simp only [Bool.and_eq_true, decide_eq_true_eq]
              exact ⟨⟨by rw [List.length_drop, q1]; omega, by rw [hnil]; rfl⟩, hfl⟩
            refine ⟨fun r hr => ?_, fun a' h => (by cases h)⟩
            cases hr
            right
            refine ⟨by simp only; omega, by simp only [List.length_append]; omega, ⟨j', hB'', by simp only [List.length_append]; omega⟩,
              ?_, fun _ hne => hprogN hne, ?_⟩
            · intro _ hnil
              exact hbfout (List.append_eq_nil_iff.1 hnil).2
            · intro _ _ _ hnil
              exact hbfout (List.append_eq_nil_iff.1 hnil).2
          · rw [if_neg hbuf]
            have hok : (L.call st inp' room' fl).ret = LibRet.ok := by
              rcases hret with h | ⟨h, _⟩
              · exact h
              · exact absurd h hbuf
            have hby : 0 < (L.call st inp' room' fl).consumed + (L.call st inp' room' fl).out.length := by
              by_cases h0 : inp' = []
              · have := hout_eof h0
                cases hh : (L.call st inp' room' fl).out with
                | nil => exact absurd hh this
                | cons a t => simp only [List.length_cons]; omega
              · exact hbytes hok h0
            refine ⟨fun r h => (by cases h), ?_⟩
            intro a' ha'; cases ha'
            refine ⟨⟨by simp only; omega, by simp only; rw [hinp, List.drop_drop], by simp only [List.length_append]; omega,
              by simp only [List.length_append]; omega, ⟨j', hB'', by simp only [List.length_append]; omega⟩, Or.inr ⟨hprogN, ?_⟩⟩, ?_⟩
            · intro hnil hh
              have : inp' = [] := by rw [hinp, hnil]; simp
              exact hout_eof this (List.append_eq_nil_iff.1 hh).2
            · simp only [List.length_drop]; omega
    · -- the loop condition is false: leave with XFRM_STREAM_OK
      simp only [wrapBody, hcond, Bool.false_eq_true, if_false]
      refine ⟨?_, fun a' h => (by cases h)⟩
      intro r hr; cases hr
      right
      have hnotstart : ¬ (st = s ∧ ai = 0 ∧ ao = []) ∨ ¬ (0 < room ∧ (inp ≠ [] ∨ fl = Flush.full)) := by
        by_cases hs : st = s ∧ ai = 0 ∧ ao = []
        · right
          rintro ⟨hr0, hw⟩
          apply hcond
          obtain ⟨_, h2, h3⟩ := hs
          have hr' : 0 < room' := by rw [hroom, h3]; simpa using hr0
          have : 0 < inp'.length ∨ fl = Flush.full := by
            rcases hw with h | h
            · left; rw [hinp, h2]
              cases inp with
              | nil => exact absurd rfl h
              | cons a t => simp
            · right; exact h
          rcases this with h | h <;> simp [h, hr']
        · exact Or.inl hs
      refine ⟨hai, hao, ⟨j1, hB1, hj1⟩, fun h => (by cases h), ?_, ?_⟩
      · intro hr0 hne
        rcases htrack with h | ⟨h, _⟩
        · rcases hnotstart with h' | h'
          · exact absurd h h'
          · exact absurd ⟨hr0, Or.inl hne⟩ h'
        · exact h hne
      · intro hr0 hfl hnil
        rcases htrack with h | ⟨_, h⟩
        · rcases hnotstart with h' | h'
          · exact absurd h h'
          · exact absurd ⟨hr0, Or.inr hfl⟩ h'
        · exact h hnil

/-- the decompressing backend object on input that has gone wrong -/
def wrapDoom (hL : LibDecContract L b Dec) (E : LibDoom hL) : Doom (wrapDecContract hL) where
  B := E.B
  budget := E.budget
  step_none := by
    intro s rest j hB n room hn hnr hroom r hr
    obtain ⟨r', hrun, hpost⟩ := wrapProcess_doom_spec hL E hB (rest.take n) room Flush.none (IsPre.take _ _) (fun h => by cases h)
    have hr' : r = r' := by rw [hr]; simp only [wrapCodec, hrun]
    subst hr'
    have hlen : (rest.take n).length = n := by simp [List.length_take]; omega
    have hne : rest.take n ≠ [] := by
      intro h; rw [h] at hlen; simp at hlen; omega
    rcases hpost with he | ⟨h1, h2, h3, h4, h5, _⟩
    · exact Or.inl he
    · right
      refine ⟨h2, by omega, h3, h4, ?_⟩
      rcases h5 hroom hne with h | h
      · exact Or.inl h
      · exact Or.inr (Or.inl h)
  step_full := by
    intro s j hB room hroom r hr
    obtain ⟨r', hrun, hpost⟩ := wrapProcess_doom_spec hL E hB [] room Flush.full (IsPre.nil _) (fun _ => rfl)
    have hr' : r = r' := by rw [hr]; simp only [wrapCodec, hrun]
    subst hr'
    rcases hpost with he | ⟨h1, h2, ⟨j', h3, h3'⟩, _, _, h6⟩
    · exact Or.inl he
    · right
      have hc0 : r.consumed = 0 := by simpa using h1
      refine ⟨hc0, h6 hroom rfl rfl, h2, j', ?_, h3'⟩
      rw [hc0] at h3; simpa using h3

/-- **library error convention ⇒ codec-level contract for input that has gone wrong** (gzip.c, xz.c, bzip2.c) -/
def wrapDecErrContract (hL : LibDecContract L b Dec) (hE : LibDecErrContract hL) : DecErrContract (wrapDecContract hL) where
  toDoom := wrapDoom hL hE.toLibDoom
  enter := by
    intro s c hR hd
    exact hE.enter hR hd

end WrapErr

/-! ### non-vacuity: the toy engine on input that has gone wrong, behind all three interfaces -/
namespace Toy

theorem decode_one_cons (r : Bytes) : decode (1 :: r) = decodeFrom true r := by
  cases r with
  | nil => simp [decode, decodeFrom]
  | cons b r' => rw [decode_cons_cons]; simp [decodeFrom]

/-- input on which the parser finds nothing wrong is a member followed by something, or can be completed to a member -/
theorem parse_viable : ∀ (c : Bytes) (i : Bool), (parse i c).2.2.2.2 = false →
    (∃ k y, decodeFrom i (c.take k) = some y) ∨ (∃ w y, decodeFrom i (c ++ w) = some y) := by
  intro c
  induction c with
  | nil =>
    intro i _
    cases i with
    | false => exact Or.inr ⟨[0], [], by simp [decodeFrom, decode]⟩
    | true => exact Or.inr ⟨[0, 0], [0], by simp [decodeFrom, decode]⟩
  | cons h t ih =>
    intro i hb
    cases i with
    | true =>
      rw [parse_true_cons] at hb
      rcases ih false hb with ⟨k, y, hk⟩ | ⟨w, y, hw⟩
      · left
        refine ⟨k + 1, h :: y, ?_⟩
        simp only [decodeFrom] at hk
        simp [decodeFrom, hk]
      · right
        refine ⟨w, h :: y, ?_⟩
        simp only [decodeFrom] at hw
        simp [decodeFrom, hw]
    | false =>
      rw [parse_false_cons] at hb
      by_cases h0 : h = 0
      · left
        exact ⟨1, [], by simp [decodeFrom, decode, h0]⟩
      · rw [if_neg h0] at hb
        by_cases h1 : h = 1
        · rw [if_pos h1] at hb
          subst h1
          rcases ih true hb with ⟨k, y, hk⟩ | ⟨w, y, hw⟩
          · left
            refine ⟨k + 1, y, ?_⟩
            simp only [decodeFrom, List.take_succ_cons]
            rw [decode_one_cons]; exact hk
          · right
            refine ⟨w, y, ?_⟩
            simp only [decodeFrom, List.cons_append]
            rw [decode_one_cons]; exact hw
        · rw [if_neg h1] at hb; cases hb

/-- on dead bytes the parser meets a malformed marker -/
theorem parse_dead {c : Bytes} (hd : Dead decode c) : (parse false c).2.2.2.2 = true := by
  cases hb : (parse false c).2.2.2.2 with
  | true => rfl
  | false =>
    exfalso
    rcases parse_viable c false hb with ⟨k, y, hk⟩ | ⟨w, y, hw⟩
    · exact (hd.2 _ _ (by simpa [decodeFrom] using hk)).2 (IsPre.take _ _)
    · exact (hd.2 _ _ (by simpa [decodeFrom] using hw)).1 ⟨w, rfl⟩

/-- lengths: consumed and decoded are bounded by the input; a parse that neither ended nor failed consumed everything -/
theorem parse_len : ∀ (a : Bytes) (i : Bool), (parse i a).1 ≤ a.length ∧ (parse i a).2.1.length ≤ a.length ∧
    ((parse i a).2.2.2.1 = false → (parse i a).2.2.2.2 = false → (parse i a).1 = a.length) := by
  intro a
  induction a with
  | nil => intro i; rw [parse_nil]; simp
  | cons h t ih =>
    intro i
    cases i with
    | true =>
      rw [parse_true_cons]
      obtain ⟨h1, h2, h3⟩ := ih false
      refine ⟨by simp only [List.length_cons]; omega, by simp only [List.length_cons]; omega, ?_⟩
      intro hd hb
      simp only [List.length_cons]
      have := h3 hd hb
      omega
    | false =>
      rw [parse_false_cons]
      by_cases h0 : h = 0
      · rw [if_pos h0]; simp
      · rw [if_neg h0]
        by_cases h1 : h = 1
        · rw [if_pos h1]
          obtain ⟨h1', h2, h3⟩ := ih true
          refine ⟨by simp only [List.length_cons]; omega, by simp only [List.length_cons]; omega, ?_⟩
          intro hd hb
          simp only [List.length_cons]
          have := h3 hd hb
          omega
        · rw [if_neg h1]; simp

/-- parsing a concatenation -/
theorem parse_append_gen : ∀ (a : Bytes) (i : Bool) (b : Bytes),
    parse i (a ++ b) =
      if (parse i a).2.2.2.1 = true ∨ (parse i a).2.2.2.2 = true then parse i a
      else ((parse i a).1 + (parse (parse i a).2.2.1 b).1, (parse i a).2.1 ++ (parse (parse i a).2.2.1 b).2.1,
            (parse (parse i a).2.2.1 b).2.2.1, (parse (parse i a).2.2.1 b).2.2.2.1, (parse (parse i a).2.2.1 b).2.2.2.2) := by
  intro a
  induction a with
  | nil => intro i b; simp [parse_nil]
  | cons h t ih =>
    intro i b
    cases i with
    | true =>
      rw [List.cons_append, parse_true_cons, parse_true_cons, ih false b]
      by_cases hc : (parse false t).2.2.2.1 = true ∨ (parse false t).2.2.2.2 = true
      · rw [if_pos hc, if_pos (by simpa using hc)]
      · rw [if_neg hc, if_neg (by simpa using hc)]
        simp only [List.cons_append, Prod.mk.injEq, and_true, true_and]
        omega
    | false =>
      rw [List.cons_append, parse_false_cons, parse_false_cons]
      by_cases h0 : h = 0
      · simp [h0]
      · rw [if_neg h0, if_neg h0]
        by_cases h1 : h = 1
        · rw [if_pos h1, if_pos h1, ih true b]
          by_cases hc : (parse true t).2.2.2.1 = true ∨ (parse true t).2.2.2.2 = true
          · rw [if_pos hc, if_pos (by simpa using hc)]
          · rw [if_neg hc, if_neg (by simpa using hc)]
            simp only [Prod.mk.injEq, and_true, true_and]
            omega
        · simp [h1]

theorem parse_not_both : ∀ (a : Bytes) (i : Bool), ¬ ((parse i a).2.2.2.1 = true ∧ (parse i a).2.2.2.2 = true) := by
  intro a
  induction a with
  | nil => intro i; rw [parse_nil]; simp
  | cons h t ih =>
    intro i
    cases i with
    | true => rw [parse_true_cons]; exact ih false
    | false =>
      rw [parse_false_cons]
      by_cases h0 : h = 0
      · rw [if_pos h0]; simp
      · rw [if_neg h0]
        by_cases h1 : h = 1
        · rw [if_pos h1]; exact ih true
        · rw [if_neg h1]; simp

/-- the engine's state on input that has gone wrong: it has already failed, or a malformed marker lies ahead; `j` bounds
what is queued plus what can still be decoded before that marker -/
def ToyB (s : Dec) (rest : Bytes) (j : Nat) : Prop :=
  s.bad = true ∨
  (s.bad = false ∧ s.done = false ∧ (parse s.inData rest).2.2.2.2 = true ∧ (s.fresh = true → s.q = []) ∧
    s.q.length + (parse s.inData rest).2.1.length ≤ j)

theorem ToyB_nil {s : Dec} {j : Nat} (h : ToyB s [] j) : s.bad = true := by
  rcases h with h | ⟨_, _, h, _⟩
  · exact h
  · rw [parse_nil] at h; cases h

theorem ToyB_enter {s : Dec} {c : Bytes} (hR : DecR s [] []) (hd : Dead decode c) : ToyB s c c.length := by
  obtain ⟨hb, hp, hf⟩ := hR
  rw [parse_nil] at hp
  simp only [Prod.mk.injEq, List.length_nil, List.nil_append, true_and] at hp
  obtain ⟨hq, hi, hdn, _⟩ := hp
  right
  refine ⟨hb, hdn.symm, by rw [← hi]; exact parse_dead hd, fun _ => hq.symm, ?_⟩
  rw [← hq, ← hi]
  have := (parse_len c false).2.1
  simpa using this

/-- one call of the decoding engine on input that has gone wrong -/
theorem toy_doom_core (P : Params) {s : Dec} {rest : Bytes} {j : Nat} (hB : ToyB s rest j) (hb : s.bad = false)
    (inp : Bytes) (hin : IsPre inp rest) {room : Nat} (hr : 0 < room) :
    ∀ c, c = decCore P s inp room →
    c.bad = true ∨
    (c.bad = false ∧ c.done = false ∧ c.n ≤ inp.length ∧ c.m ≤ room ∧ c.m ≤ c.q.length ∧
      (0 < (c.q.drop c.m).length → c.m = room → 0 < c.m) ∧
      ToyB ⟨c.q.drop c.m, c.inData, c.fresh, c.done, false⟩ (rest.drop c.n) (j - c.m) ∧ c.m ≤ j ∧
      (inp ≠ [] → c.fresh = false ∧
        (0 < c.n ∨ (0 < c.m ∧ decPend ⟨c.q.drop c.m, c.inData, c.fresh, c.done, false⟩ < decPend s)))) := by
  intro c hc
  rcases hB with h | ⟨_, hdn, hpb, hfq, hj⟩
  · rw [hb] at h; cases h
  obtain ⟨z, hz⟩ := hin
  by_cases hq : s.q.length ≤ P.thresh
  · -- the engine takes in a chunk
    have hsplit : rest = inp.take (P.absorb + 1) ++ (inp.drop (P.absorb + 1) ++ z) := by
      rw [hz, ← List.append_assoc, List.take_append_drop]
    rcases hpc : parse s.inData (inp.take (P.absorb + 1)) with ⟨n, d, i', dn, bd⟩
    have hcore := decCore_absorb P inp room hdn hq hpc
    have happ := parse_append_gen (inp.take (P.absorb + 1)) s.inData (inp.drop (P.absorb + 1) ++ z)
    rw [← hsplit, hpc] at happ
    simp only at happ
    have hnb := parse_not_both (inp.take (P.absorb + 1)) s.inData
    rw [hpc] at hnb
    simp only at hnb
    have hlen := parse_len (inp.take (P.absorb + 1)) s.inData
    rw [hpc] at hlen
    simp only at hlen
    cases hbd : bd with
    | true => left; rw [hc, hcore]; exact hbd
    | false =>
      have hdnf : dn = false := by
        cases hdd : dn with
        | false => rfl
        | true =>
          exfalso
          rw [if_pos (Or.inl hdd)] at happ
          rw [happ] at hpb
          simp only at hpb
          exact hnb ⟨hdd, hpb⟩
      subst hdnf hbd
      rw [if_neg (by simp)] at happ
      have hn : n = (inp.take (P.absorb + 1)).length := hlen.2.2 rfl rfl
      have hdrop : rest.drop n = inp.drop (P.absorb + 1) ++ z := by
        rw [hsplit, hn, List.drop_left]
      right
      rw [hc, hcore]
      have hm1 : min (min room (P.gran + 1)) (s.q ++ d).length ≤ room := by omega
      have hm2 : min (min room (P.gran + 1)) (s.q ++ d).length ≤ (s.q ++ d).length := by omega
      have hbudget : (s.q ++ d).length + (parse i' (inp.drop (P.absorb + 1) ++ z)).2.1.length ≤ j := by
        rw [happ] at hj
        simp only [List.length_append] at hj ⊢
        omega
      have hmj : min (min room (P.gran + 1)) (s.q ++ d).length ≤ j := by omega
      refine ⟨rfl, rfl, ?_, hm1, hm2, ?_, ?_, hmj, ?_⟩
      · show n ≤ inp.length
        rw [hn, List.length_take]; omega
      · intro _ h; simp only at h ⊢; omega
      · right
        refine ⟨rfl, rfl, ?_, ?_, ?_⟩
        · show (parse i' (rest.drop n)).2.2.2.2 = true
          rw [hdrop]
          rw [happ] at hpb
          exact hpb
        · intro hf
          simp only [Bool.and_eq_true, decide_eq_true_eq] at hf
          obtain ⟨hsf, hn0⟩ := hf
          have hd0 : d = [] := by
            have h0 : (inp.take (P.absorb + 1)).length = 0 := by omega
            have := List.eq_nil_of_length_eq_zero h0
            rw [this, parse_nil] at hpc
            simp only [Prod.mk.injEq] at hpc
            exact hpc.2.1.symm
          show (s.q ++ d).drop _ = []
          rw [hfq hsf, hd0]; simp
        · show ((s.q ++ d).drop (min (min room (P.gran + 1)) (s.q ++ d).length)).length + (parse i' (rest.drop n)).2.1.length ≤
            j - min (min room (P.gran + 1)) (s.q ++ d).length
          rw [hdrop, List.length_drop]
          omega
      · intro hne
        have hpos : 0 < n := by
          rw [hn, List.length_take]
          have : 0 < inp.length := by
            cases inp with
            | nil => exact absurd rfl hne
            | cons a b => simp
          omega
        refine ⟨?_, Or.inl hpos⟩
        show (s.fresh && decide (n = 0)) = false
        have : ¬ n = 0 := by omega
        simp [this]
  · -- the engine only hands out
    have hcore := decCore_blocked P inp room hdn hq
    right
    rw [hc, hcore]
    have hqpos : 0 < s.q.length := by omega
    have hm1 : min (min room (P.gran + 1)) s.q.length ≤ room := by omega
    have hm2 : min (min room (P.gran + 1)) s.q.length ≤ s.q.length := by omega
    have hmpos : 0 < min (min room (P.gran + 1)) s.q.length := by omega
    have hfr : s.fresh = false := by
      cases hf : s.fresh with
      | false => rfl
      | true =>
        have := hfq hf
        rw [this] at hqpos; simp at hqpos
    have hmj : min (min room (P.gran + 1)) s.q.length ≤ j := by omega
    refine ⟨rfl, rfl, Nat.zero_le _, hm1, hm2, fun _ _ => hmpos, ?_, hmj, ?_⟩
    · right
      refine ⟨rfl, rfl, by simpa using hpb, ?_, ?_⟩
      · intro hf; simp only at hf; rw [hfr] at hf; cases hf
      · show (s.q.drop (min (min room (P.gran + 1)) s.q.length)).length + (parse s.inData (rest.drop 0)).2.1.length ≤
          j - min (min room (P.gran + 1)) s.q.length
        rw [List.drop_zero, List.length_drop]
        omega
    · intro _
      refine ⟨hfr, Or.inr ⟨hmpos, ?_⟩⟩
      simp only [decPend, List.length_drop, hfr]
      omega

theorem toy_take_len {q : Bytes} {m : Nat} (h : m ≤ q.length) : (q.take m).length = m := by
  rw [List.length_take]; omega

/-- the toy decoder (codec interface) on input that has gone wrong -/
def decErrContract (P : Params) : DecErrContract (decContract P) where
  B := ToyB
  budget := fun n => n
  enter := by
    intro s c hR hd
    exact ToyB_enter hR hd
  step_none := by
    intro s rest j hB n room hn hnr hroom r hr
    have hne : rest.take n ≠ [] := by
      intro h; have := congrArg List.length h; simp only [List.length_take, List.length_nil] at this; omega
    have hr' : r = decStep P s (rest.take n) room Flush.none := hr
    by_cases hb : s.bad = true
    · left; rw [hr']
      have : ¬ room = 0 := by omega
      simp [decStep, this, hb]
    have hb' : s.bad = false := by cases h : s.bad with | true => exact absurd h hb | false => rfl
    rcases toy_doom_core P hB hb' (rest.take n) (IsPre.take _ _) hroom _ rfl with hcb | ⟨hcb, hcd, hcn, hmr, hmq, hmpos, hB', hmj, hprog⟩
    · left
      rw [hr']
      have : ¬ room = 0 := by omega
      simp [decStep, this, hb', hcb]
    · right
      rw [decStep_eq P (rest.take n) Flush.none hroom hb' hcb] at hr'
      obtain ⟨hfr, hpr⟩ := hprog hne
      generalize decCore P s (rest.take n) room = c at *
      have hlen : (rest.take n).length = n := by simp [List.length_take]; omega
      unfold decFinish at hr'
      have h1 : (c.done && decide ((c.q.drop c.m).length = 0)) = false := by rw [hcd]; rfl
      simp only [h1, Bool.false_and, Bool.false_eq_true, if_false, show decide (Flush.none = Flush.full) = false from rfl] at hr'
      have hres : r.st = ⟨c.q.drop c.m, c.inData, c.fresh, c.done, false⟩ ∧ r.consumed = c.n ∧ r.out = c.q.take c.m ∧
          (r.res = Res.bufferFull → 0 < (c.q.drop c.m).length ∧ c.m = room) ∧ r.res ≠ Res.error := by
        rw [hr']
        split
        · rename_i h
          simp only [Bool.and_eq_true, decide_eq_true_eq] at h
          exact ⟨rfl, rfl, rfl, fun _ => h, by simp⟩
        · exact ⟨rfl, rfl, rfl, (fun h => by cases h), by simp⟩
      obtain ⟨hst, hco, hout, hbf, _⟩ := hres
      rw [hst, hco, hout, toy_take_len hmq]
      refine ⟨hmr, by omega, ⟨j - c.m, hB', by omega⟩, ?_, ?_⟩
      · intro hf h0
        obtain ⟨h1, h2⟩ := hbf hf
        have := hmpos h1 h2
        have := congrArg List.length h0
        rw [toy_take_len hmq] at this
        simp at this; omega
      · rcases hpr with h | ⟨_, h⟩
        · exact Or.inl h
        · right; left
          exact h
  step_full := by
    intro s j hB room hroom r hr
    left
    have hb := ToyB_nil hB
    have hr' : r = decStep P s [] room Flush.full := hr
    rw [hr']
    have : ¬ room = 0 := by omega
    simp [decStep, this, hb]

/-- the toy library behind the zlib / liblzma / libbz2 interface on input that has gone wrong -/
def decLibErrContract (P : Params) (b : Backend) : LibDecErrContract (decLibContract P b) where
  B := fun s rest j => ToyB s.eng rest j ∧ (s.total = 0 → rest ≠ [])
  budget := fun n => n
  total := by
    intro s rest j hB h0
    exact hB.2 h0
  enter := by
    intro s c hR hd
    exact ⟨ToyB_enter hR.1 hd, fun _ => hd.1⟩
  call := by
    intro s rest j hB inp room fl hin hroom r hr
    by_cases hb : s.eng.bad = true
    · left; left; rw [hr]; simp [decLib, hb]
    have hb' : s.eng.bad = false := by cases h : s.eng.bad with | true => exact absurd h hb | false => rfl
    rcases toy_doom_core P hB.1 hb' inp hin hroom _ rfl with hcb | ⟨hcb, hcd, hcn, hmr, hmq, hmpos, hB', hmj, hprog⟩
    · left; left; rw [hr]; simp [decLib, hb', hcb]
    · right
      rw [decLib_call_eq P b s inp room fl hb' hcb] at hr
      generalize decCore P s.eng inp room = c at *
      have h1 : (c.done && decide ((c.q.drop c.m).length = 0)) = false := by rw [hcd]; rfl
      simp only [h1, Bool.false_eq_true, if_false] at hr
      have hst : r.st = ⟨⟨c.q.drop c.m, c.inData, c.fresh, c.done, false⟩, s.total + c.n⟩ := by rw [hr]
      have hco : r.consumed = c.n := by rw [hr]
      have hout : r.out = c.q.take c.m := by rw [hr]
      have hret : r.ret = if c.n = 0 ∧ c.m = 0 then stuckRet b else LibRet.ok := by rw [hr]
      rw [hst, hco, hout, toy_take_len hmq, hret]
      refine ⟨?_, hcn, hmr, ⟨j - c.m, ⟨hB', ?_⟩, by omega⟩, ?_, ?_, ?_⟩
      · split
        · unfold stuckRet
          split
          · exact Or.inl rfl
          · rename_i hbz; exact Or.inr ⟨rfl, hbz⟩
        · exact Or.inl rfl
      · intro h0
        simp only at h0
        have hn0 : c.n = 0 := by omega
        rw [hn0, List.drop_zero]
        exact hB.2 (by omega)
      · intro _ hne
        rcases (hprog hne).2 with h | ⟨h, _⟩ <;> omega
      · intro hbuf hnil
        have hstuck : c.n = 0 ∧ c.m = 0 := by
          by_cases h : c.n = 0 ∧ c.m = 0
          · exact h
          · rw [if_neg h] at hbuf; cases hbuf
        have hinp : inp = [] := by
          by_cases hne : inp = []
          · exact hne
          · rcases (hprog hne).2 with h | ⟨h, _⟩ <;> omega
        exact ⟨by rw [hstuck.1, hinp]; rfl, Or.inr hinp⟩
      · intro hne
        rcases (hprog hne).2 with h | ⟨_, h⟩
        · exact Or.inl h
        · exact Or.inr h

/-- the toy library behind `ZSTD_decompressStream`'s interface on input that has gone wrong -/
def decZLibErrContract (P : Params) : ZDecErrContract (decZLibContract P) where
  B := ToyB
  budget := fun n => n
  enter := by
    intro s c hR hd
    exact ToyB_enter hR.1 hd
  call := by
    intro s rest j hB inp room fl hin hroom hcall r hr
    by_cases hb : s.bad = true
    · left; rw [hr]; simp [decZLib, hb]
    have hb' : s.bad = false := by cases h : s.bad with | true => exact absurd h hb | false => rfl
    have hne : inp ≠ [] := by
      rcases hcall with h | h
      · exact h
      · rw [h] at hB; exact absurd (ToyB_nil hB) hb
    rcases toy_doom_core P hB hb' inp hin hroom _ rfl with hcb | ⟨hcb, hcd, hcn, hmr, hmq, hmpos, hB', hmj, hprog⟩
    · left; rw [hr]; simp [decZLib, hb', hcb]
    · right
      rw [decZLib_call_eq P s inp room fl hb' hcb] at hr
      obtain ⟨hfr, hpr⟩ := hprog hne
      generalize decCore P s inp room = c at *
      have h1 : (c.done && decide ((c.q.drop c.m).length = 0)) = false := by rw [hcd]; rfl
      simp only [h1, Bool.false_eq_true, if_false, hfr, Bool.false_and] at hr
      have hst : r.st = ⟨c.q.drop c.m, c.inData, false, c.done, false⟩ := by rw [hr]
      have hco : r.consumed = c.n := by rw [hr]
      have hout : r.out = c.q.take c.m := by rw [hr]
      have hhint : r.hint = (c.q.drop c.m).length + 1 := by rw [hr]
      rw [hst, hco, hout, toy_take_len hmq, hhint]
      refine ⟨hcn, hmr, by omega, ⟨j - c.m, by rw [hfr] at hB'; exact hB', by omega⟩, fun _ => ?_⟩
      rcases hpr with h | ⟨h, _⟩ <;> omega

end Toy

end Sqfs.Xfrm
