/-
C02 helper lemmas (failing compressor, part 1): the serial pool with failing callbacks (`Pool.Serial.run rc`).
A non-zero status is sticky; as long as the status is 0 the pool is the healthy pool, answer by answer.
-/
import Sqfs.Model.BlockProcFail
namespace Sqfs.BlockProc
open Sqfs.Pool

theorem Serial.call_status_ne (rc : Nat → Int) (s : Serial) (op : Op) (h : s.status ≠ 0) :
    (Serial.call rc s op).status ≠ 0 := by
  cases op with
  | submit d => simp [Serial.call, h]
  | dequeue =>
    unfold Serial.call
    cases s.queue with
    | nil => exact h
    | cons d q => simp [h]
  | getStatus => exact h
  | destroy => exact h

theorem Serial.run_status_ne (rc : Nat → Int) (ops : List Op) (s : Serial) (h : s.status ≠ 0) :
    (Serial.run rc s ops).status ≠ 0 := by
  induction ops generalizing s with
  | nil => exact h
  | cons op r ih => exact ih _ (Serial.call_status_ne rc s op h)

/-- one call: if the status is 0 afterwards, a pool whose callbacks fail less often does the same -/
theorem Serial.call_mono (rc₁ rc₂ : Nat → Int) (hle : ∀ d, rc₁ d ≠ 0 → rc₂ d ≠ 0) (s : Serial) (op : Op)
    (h : (Serial.call rc₂ s op).status = 0) : Serial.call rc₁ s op = Serial.call rc₂ s op := by
  have hs : s.status = 0 := by
    rcases Decidable.em (s.status = 0) with h0 | h0
    · exact h0
    · exact absurd h (Serial.call_status_ne rc₂ s op h0)
  cases op with
  | submit d => rfl
  | dequeue =>
    unfold Serial.call at h ⊢
    cases hq : s.queue with
    | nil => rfl
    | cons d q =>
      rw [hq] at h
      simp only [hs, and_true] at h ⊢
      have h2 : rc₂ d = 0 := by
        rcases Decidable.em (rc₂ d = 0) with h0 | h0
        · exact h0
        · simp [h0] at h
      have h1 : rc₁ d = 0 := by
        rcases Decidable.em (rc₁ d = 0) with h0 | h0
        · exact h0
        · exact absurd h2 (hle d h0)
      simp [h1, h2]
  | getStatus => rfl
  | destroy => rfl

theorem Serial.run_mono (rc₁ rc₂ : Nat → Int) (hle : ∀ d, rc₁ d ≠ 0 → rc₂ d ≠ 0) (ops : List Op) (s : Serial)
    (h : (Serial.run rc₂ s ops).status = 0) : Serial.run rc₁ s ops = Serial.run rc₂ s ops := by
  induction ops generalizing s with
  | nil => rfl
  | cons op r ih =>
    simp only [Serial.run] at h ⊢
    have h1 : (Serial.call rc₂ s op).status = 0 := by
      rcases Decidable.em ((Serial.call rc₂ s op).status = 0) with h0 | h0
      · exact h0
      · exact absurd h (Serial.run_status_ne rc₂ r _ h0)
    rw [Serial.call_mono rc₁ rc₂ hle s op h1]
    exact ih _ h

/-- the healthy pool fails never -/
theorem rc0_le (rc : Nat → Int) : ∀ d, rc0 d ≠ 0 → rc d ≠ 0 := fun _ h => absurd rfl h

/-- status 0 at the end: every callback invocation so far returned 0 -/
theorem Serial.processed_ok (rc : Nat → Int) (ops : List Op) (s : Serial) (hs : ∀ d ∈ s.processed, rc d = 0)
    (h : (Serial.run rc s ops).status = 0) : ∀ d ∈ (Serial.run rc s ops).processed, rc d = 0 := by
  induction ops generalizing s with
  | nil => exact hs
  | cons op r ih =>
    simp only [Serial.run] at h ⊢
    have h1 : (Serial.call rc s op).status = 0 := by
      rcases Decidable.em ((Serial.call rc s op).status = 0) with h0 | h0
      · exact h0
      · exact absurd h (Serial.run_status_ne rc r _ h0)
    have hs0 : s.status = 0 := by
      rcases Decidable.em (s.status = 0) with h0 | h0
      · exact h0
      · exact absurd h1 (Serial.call_status_ne rc s op h0)
    apply ih _ _ h
    cases op with
    | submit d => simpa [Serial.call, hs0] using hs
    | dequeue =>
      unfold Serial.call at h1 ⊢
      cases hq : s.queue with
      | nil => simpa using hs
      | cons d q =>
        rw [hq] at h1
        simp only [hs0, and_true] at h1
        have h2 : rc d = 0 := by
          rcases Decidable.em (rc d = 0) with h0 | h0
          · exact h0
          · simp [h0] at h1
        intro x hx
        simp only [List.mem_append, List.mem_singleton] at hx
        rcases hx with hx | hx
        · exact hs x hx
        · rw [hx]; exact h2
    | getStatus => simpa [Serial.call] using hs
    | destroy => simpa [Serial.call] using hs

/-! ### the pool of a `PoolSt` -/

/-- a larger table can only add failing items -/
theorem rcOfTable_mono (fails : Bytes → Bool) (rc : Int) (t : List Blk) (b : Blk) :
    ∀ d, rcOfTable fails rc t d ≠ 0 → rcOfTable fails rc (t ++ [b]) d ≠ 0 := by
  intro d h
  unfold rcOfTable at h ⊢
  by_cases hd : d < t.length
  · rw [List.getElem?_append_left hd]; exact h
  · rw [List.getElem?_eq_none (by omega)] at h
    exact absurd rfl h

/-- "no callback has failed so far" -/
def Healthy (fails : Bytes → Bool) (rc : Int) (p : PoolSt) : Prop := failStatus fails rc p = 0

theorem Healthy.ser {fails : Bytes → Bool} {rc : Int} {p : PoolSt} (h : Healthy fails rc p) :
    Serial.run (rcOfTable fails rc p.table) Serial.init p.calls = p.ser := by
  rw [p.tracks]
  exact (Serial.run_mono rc0 _ (rc0_le _) p.calls Serial.init h).symm

theorem Healthy.status {fails : Bytes → Bool} {rc : Int} {p : PoolSt} (h : Healthy fails rc p) : p.ser.status = 0 := by
  rw [← h.ser]; exact h

/-- **agreement**: while no callback has failed the failing pool answers what the healthy serial pool answers -/
theorem Healthy.agree {fails : Bytes → Bool} {rc : Int} {p : PoolSt} (h : Healthy fails rc p) (op : Op) :
    failSerialAns fails rc p op = serialAns p op := by
  unfold failSerialAns serialAns
  rw [Serial.run_append, h.ser]
  have hs := h.status
  simp only [Serial.run]
  cases op with
  | submit d => simp [Serial.call, hs]
  | dequeue =>
    unfold Serial.call
    cases p.ser.queue with
    | nil => rfl
    | cons d q => simp
  | getStatus => rfl
  | destroy => rfl

/-- what `get_status` answers is the status -/
theorem failSerialAns_status (fails : Bytes → Bool) (rc : Int) (p : PoolSt) :
    failSerialAns fails rc p .getStatus = .status (failStatus fails rc p) := by
  unfold failSerialAns failStatus
  rw [Serial.run_append]
  simp [Serial.run, Serial.call]

/-- downward closure along the three ways the pool state evolves -/
theorem Healthy.of_record {fails : Bytes → Bool} {rc : Int} {p : PoolSt} (op : Op) (t' : List Blk)
    (ht : ∀ d, rcOfTable fails rc p.table d ≠ 0 → rcOfTable fails rc t' d ≠ 0)
    (h : Healthy fails rc (p.record op t')) : Healthy fails rc p := by
  unfold Healthy failStatus at h ⊢
  simp only [PoolSt.record] at h
  rw [Serial.run_append] at h
  have h1 : (Serial.run (rcOfTable fails rc t') Serial.init p.calls).status = 0 := by
    rcases Decidable.em ((Serial.run (rcOfTable fails rc t') Serial.init p.calls).status = 0) with h0 | h0
    · exact h0
    · exact absurd h (Serial.run_status_ne _ [op] _ h0)
  rw [Serial.run_mono _ _ ht p.calls Serial.init h1]
  exact h1

theorem Healthy.of_submit {fails : Bytes → Bool} {rc : Int} {p : PoolSt} (b : Blk)
    (h : Healthy fails rc (p.record (.submit p.table.length) (p.table ++ [b]))) : Healthy fails rc p :=
  Healthy.of_record _ _ (rcOfTable_mono fails rc p.table b) h

theorem Healthy.of_same {fails : Bytes → Bool} {rc : Int} {p : PoolSt} (op : Op)
    (h : Healthy fails rc (p.record op p.table)) : Healthy fails rc p :=
  Healthy.of_record _ _ (fun _ hd => hd) h

/-- a `get_status` call does not change the status -/
theorem Healthy.record_status {fails : Bytes → Bool} {rc : Int} {p : PoolSt} (h : Healthy fails rc p) :
    Healthy fails rc (p.record .getStatus p.table) := by
  unfold Healthy failStatus at h ⊢
  simp only [PoolSt.record]
  rw [Serial.run_append]
  simpa [Serial.run, Serial.call] using h

/-- while the pool is healthy, no callback invocation was on an item the compressor fails on -/
theorem Healthy.processed {fails : Bytes → Bool} {rc : Int} {p : PoolSt} (h : Healthy fails rc p) :
    ∀ d ∈ p.ser.processed, rcOfTable fails rc p.table d = 0 := by
  rw [← h.ser]
  exact Serial.processed_ok _ p.calls Serial.init (by intro d hd; cases hd) h

end Sqfs.BlockProc
