/-
Helper lemmas for the header writer (C04): `num_digits`, `prefix_digit_len`, decimal strings.
-/
import Sqfs.Model.TarRead
import Mathlib.Tactic.Ring
import Mathlib.Tactic.Linarith
namespace Sqfs.Tar

theorem numDigitsF_spec (f n : Nat) (h : n ≤ f) :
    1 ≤ numDigitsF f n ∧ n < 10 ^ numDigitsF f n ∧ (1 ≤ n → 10 ^ (numDigitsF f n - 1) ≤ n) := by
  induction f generalizing n with
  | zero =>
    have : n = 0 := by omega
    subst this
    simp [numDigitsF]
  | succ f ih =>
    unfold numDigitsF
    by_cases h10 : n ≥ 10
    · rw [if_pos h10]
      obtain ⟨h1, h2, h3⟩ := ih (n / 10) (by omega)
      refine ⟨by omega, ?_, ?_⟩
      · rw [pow_succ]; omega
      · intro _
        have h3' := h3 (by omega)
        have e : numDigitsF f (n / 10) + 1 - 1 = (numDigitsF f (n / 10) - 1) + 1 := by omega
        rw [e, pow_succ]; omega
    · rw [if_neg h10]
      refine ⟨by omega, by omega, ?_⟩
      intro h; simpa using h

theorem numDigits_pos (n : Nat) : 1 ≤ numDigits n := (numDigitsF_spec n n (Nat.le_refl _)).1
theorem numDigits_lt (n : Nat) : n < 10 ^ numDigits n := (numDigitsF_spec n n (Nat.le_refl _)).2.1
theorem numDigits_le (n : Nat) (h : 1 ≤ n) : 10 ^ (numDigits n - 1) ≤ n :=
  (numDigitsF_spec n n (Nat.le_refl _)).2.2 h

theorem numDigits_mono (a b : Nat) (h : a ≤ b) : numDigits a ≤ numDigits b := by
  by_contra hlt
  have hlt : numDigits b < numDigits a := by omega
  have ha0 : 1 ≤ a := by
    by_contra h0
    have : a = 0 := by omega
    subst this
    have h1 := numDigits_pos b
    have : numDigits 0 = 1 := by decide
    omega
  have h1 := numDigits_le a ha0
  have h2 := numDigits_lt b
  have h3 : 10 ^ numDigits b ≤ 10 ^ (numDigits a - 1) := Nat.pow_le_pow_right (by omega) (by omega)
  omega

theorem pow10_gt (d : Nat) : d + 1 < 10 ^ d + 1 + 1 := by
  have := @Nat.lt_pow_self d 10 (by omega)
  omega

/-- adding at most `numDigits len + 1` adds at most one digit -/
theorem numDigits_add_le (len k : Nat) (hk : k ≤ numDigits len + 1) :
    numDigits (len + k) ≤ numDigits len + 1 := by
  by_contra hgt
  have hgt : numDigits len + 2 ≤ numDigits (len + k) := by omega
  have h1 := numDigits_lt len
  have hd := numDigits_pos len
  have hpos : 1 ≤ len + k := by
    by_contra h0
    have : len + k = 0 := by omega
    rw [this] at hgt
    have : numDigits 0 = 1 := by decide
    omega
  have h2 := numDigits_le (len + k) hpos
  have h3 : 10 ^ (numDigits len + 1) ≤ 10 ^ (numDigits (len + k) - 1) := Nat.pow_le_pow_right (by omega) (by omega)
  have h4 : 10 ^ (numDigits len + 1) = 10 * 10 ^ numDigits len := by rw [pow_succ]; ring
  have h5 := @Nat.lt_pow_self (numDigits len) 10 (by omega)
  omega

/-- the loop of `prefix_digit_len` reaches its fixed point within three iterations -/
theorem prefixDigitLen_fix (len : Nat) : numDigits (len + prefixDigitLen len) = prefixDigitLen len := by
  have hd1 := numDigits_pos (len + 0)
  have m12 := numDigits_mono (len + 0) (len + numDigits (len + 0)) (by omega)
  have u2 := numDigits_add_le len (numDigits (len + 0)) (by simp)
  have m23 := numDigits_mono (len + numDigits (len + 0)) (len + numDigits (len + numDigits (len + 0))) (by omega)
  have u3 := numDigits_add_le len (numDigits (len + numDigits (len + 0))) (by simpa using u2)
  simp only [Nat.add_zero] at hd1 m12 u2 m23 u3
  unfold prefixDigitLen
  simp only [prefixDigitLoop, Nat.add_zero]
  have h01 : (0 : Nat) ≠ numDigits len := by omega
  rw [if_pos h01]
  by_cases h12 : numDigits len ≠ numDigits (len + numDigits len)
  · rw [if_pos h12]
    have h23 : ¬ (numDigits (len + numDigits len) ≠ numDigits (len + numDigits (len + numDigits len))) := by omega
    rw [if_neg h23]
    have : numDigits (len + numDigits len) = numDigits (len + numDigits (len + numDigits len)) := by omega
    exact congrArg (fun x => numDigits (len + x)) this.symm
  · rw [if_neg h12]
    have : numDigits len = numDigits (len + numDigits len) := by omega
    rw [← this, ← this]

theorem decDigitsF_length (f n : Nat) : (decDigitsF f n).length = numDigitsF f n := by
  induction f generalizing n with
  | zero => simp [decDigitsF, numDigitsF]
  | succ f ih =>
    unfold decDigitsF numDigitsF
    split
    · simp [ih]
    · simp

theorem decStr_length (n : Nat) : (decStr n).length = numDigits n := decDigitsF_length n n

end Sqfs.Tar
