/-
C02 — **`packRef = specPack`** (DESIGN.md Appendix B): the queue-free reference of the block processor
(`Spec/BlockProcSpec.lean`) computes, on the observables the two share (`PackView`: the output file, the fragment table, the
inode fields of every file), exactly what the functional specification `Sqfs.Pack.specPack` (`Spec/PackSpec.lean`) says.

Together with `Sqfs.C02.run_eq_spec` (the implementation model equals `packRef` for every `max_backlog`, every number of
workers and every schedule) this is the statement "the implementation model computes `specPack`".

Hypotheses: the codec contract (`CodecOk`; `hpos`: a successful `do_block` returns a positive size, which is how the C
interface tells success from "not smaller"), `0 < B < 2^24`, user-settable flag words, and the byte comparison of fragment
candidates switched on (`byteCompare`; without it a fragment whose size, checksum and `DONT_COMPRESS` flag collide with an
earlier one is deduplicated against it, which `specPack` — comparing bytes — does not do).
-/
import Sqfs.Proofs.BPSPAll
namespace Sqfs.BlockProc
open Sqfs.Consts
open Sqfs.BlockWriter (hasFlag)

theorem Sim.init (P : Params) : Sim P {} { wr := BlockWriter.init P.pre } {} := by
  refine ⟨rfl, ⟨⟨[], BlockWriter.Abs_init P.pre, rfl⟩, fun s hs => (by cases hs), rfl, rfl⟩, ?_⟩
  exact ⟨rfl, fun fb h => (by cases h), rfl, fun e he => (by cases he), fun c hc => (by cases hc), fun _ _ _ => rfl⟩

/-- the fragment table: every index is set once, in order -/
theorem applySets_table (n : Nat) (sets : List (Nat × Nat × Nat)) (vals : List (Nat × Nat))
    (h1 : sets.map (·.1) = List.range n) (h2 : sets.map (·.2) = vals) :
    applySets (List.replicate n (0, 0)) sets = vals := by
  have hl1 : sets.length = n := by have := congrArg List.length h1; simpa using this
  have hl2 : vals.length = n := by have := congrArg List.length h2; simp at this; omega
  apply List.ext_getElem?
  intro i
  by_cases hi : i < n
  · have hnd : (sets.map (·.1)).Nodup := by rw [h1]; exact List.nodup_range
    have hs1 : (sets[i]'(by omega)).1 = i := by
      have : (sets.map (·.1))[i]'(by simp; omega) = (List.range n)[i]'(by simp; omega) := by simp only [h1]
      simpa using this
    have hs2 : (sets[i]'(by omega)).2 = vals[i]'(by omega) := by
      have : (sets.map (·.2))[i]'(by simp; omega) = vals[i]'(by omega) := by simp only [h2]
      simpa using this
    have hm : (i, (vals[i]'(by omega)).1, (vals[i]'(by omega)).2) ∈ sets := by
      have := List.getElem_mem (l := sets) (n := i) (by omega)
      rw [← hs2]
      have e : sets[i]'(by omega) = (i, (sets[i]'(by omega)).2.1, (sets[i]'(by omega)).2.2) :=
        Prod.ext hs1 rfl
      rw [← e]; exact this
    rw [applySets_get _ sets hnd i _ _ hm (by simp; exact hi), List.getElem?_eq_getElem (by omega)]
  · have : (applySets (List.replicate n (0, 0)) sets).length = n := by rw [applySets_length]; simp
    rw [List.getElem?_eq_none (by omega), List.getElem?_eq_none (by omega)]

/-- the inodes: entry `i` gets the updates that carry its number -/
theorem applyEffs_table (n : Nat) (xs : List Eff) :
    (applyEffs (List.replicate n {}) xs).map Inode.res = (List.range n).map (fun i => (inoFold i xs {}).res) := by
  apply List.ext_getElem?
  intro i
  rw [List.getElem?_map, applyEffs_getElem?, List.getElem?_map]
  by_cases hi : i < n
  · rw [List.getElem?_replicate, if_pos hi, List.getElem?_range hi]; rfl
  · rw [List.getElem?_replicate, if_neg hi, List.getElem?_eq_none (by simp; omega)]; rfl

/-- **`packRef_eq_specPack`.**  The reference of the block processor and `specPack` agree on the whole output file, the
fragment table and every file's inode fields. -/
theorem packRef_eq_specPack (P : Params) (hc : CodecOk P.codec) (hpos : ∀ x z, P.codec.cmp x = some z → 0 < z.length)
    (hbc : P.byteCompare = true) (hB0 : 0 < P.B) (hB : P.B < 2 ^ 24) (files : List InFile)
    (hfl : ∀ f ∈ files, f.flags &&& Consts.blkUserSettable = f.flags) :
    ∃ out, packRef P files = .ok out ∧
      out.view = specView P.pre (Sqfs.Pack.specPack (toPackParams P) (toPackFiles files)) := by
  obtain ⟨W1, FE, WE, hs1, hf1, hw1, _, _, hres⟩ := files_sim hc hpos hB0 hB hbc files 0 {} _ {} (Sim.init P) hfl
  obtain ⟨W2, hs2, hw2, hf2, hopn⟩ := close_sim hc hpos hB hs1
  unfold packRef
  rw [feFiles_eq P.B hB0 files 0 hfl]
  simp only [hs2.run]
  refine ⟨_, rfl, ?_⟩
  obtain ⟨ps, habs, hh⟩ := hs2.w.abs
  unfold Output.view specView assemble
  simp only [PackView.mk.injEq]
  refine ⟨?_, ?_, ?_⟩
  · rw [habs.file, hh.bytes]; rfl
  · have hn : ((fRun P {} ((allItems P.B 0 files).map (processBlock P))).close P).ntbl =
        (Sqfs.Pack.closeOpen (toPackParams P) (Sqfs.Pack.packFiles (toPackParams P) {} (files.map toPackFile)).1).frags.length := by
      rw [hs2.f.ntbl, hopn]; rfl
    rw [hn]
    exact applySets_table _ _ _ hs2.w.setsIdx hs2.w.setsVal
  · rw [applyEffs_table, hf2, hf1, hw2, hw1]
    simp only [Nat.zero_add] at hres
    exact hres

/-- **`run_eq_specPack`** (the statement announced in `Props/C02.lean`, "towards `specPack`"): the implementation model on
the serial pool — hence, by `Sqfs.C02.schedule_independent`, on every behaviour of the threaded pool — computes `specPack`
for every `max_backlog`, with or without a `sync` before `end_file`. -/
theorem run_eq_specPack (P : Params) (hP : P.ans = serialAns) (hc : CodecOk P.codec)
    (hpos : ∀ x z, P.codec.cmp x = some z → 0 < z.length) (hbc : P.byteCompare = true) (hB0 : 0 < P.B) (hB : P.B < 2 ^ 24)
    (mb : Nat) (files : List InFile) (hfl : ∀ f ∈ files, f.flags &&& Consts.blkUserSettable = f.flags) (sy : Bool) :
    ∃ out, run P mb files sy = .ok out ∧
      out.view = specView P.pre (Sqfs.Pack.specPack (toPackParams P) (toPackFiles files)) := by
  rw [run_eq_packRef hP hc hB0 hB mb files sy]
  exact packRef_eq_specPack P hc hpos hbc hB0 hB files hfl

/-! ### non-vacuity -/

/-- a codec that compresses exactly one block (`7 7 7 7 ↦ 7 4`) -/
def spCodec : Codec :=
  { cmp := fun x => if x = [7, 7, 7, 7] then some [7, 4] else none
    unc := fun z => if z = [7, 4] then some [7, 7, 7, 7] else some z }

theorem spCodec_ok : CodecOk spCodec ∧ ∀ x z, spCodec.cmp x = some z → 0 < z.length := by
  refine ⟨⟨?_, ?_⟩, ?_⟩ <;>
  · intro x z h
    simp only [spCodec] at h ⊢
    split at h
    · simp only [Option.some.injEq] at h; subst h; rename_i hx; simp [hx]
    · cases h

/-- block size 4, a 3-byte prefix (the "super block") in front of the data area -/
def spP : Params := { B := 4, codec := spCodec, h := fun d => d.foldl (fun a b => a * 31 + b.toUInt32) 7, pre := [9, 9, 9] }

/-- 21 files: a tail end packed into a fragment block; `DONT_FRAGMENT`; an empty file; all-zero blocks and an all-zero tail
(holes); `IGNORE_SPARSE`; fragment blocks that overflow (3-byte tails, block size 4); a tail deduplicated against an
earlier fragment; `DONT_COMPRESS` (its own key); whole-file deduplication of data blocks, with truncation; compressed
blocks; `DONT_DEDUPLICATE` twice, then the same tail without it; a `DONT_FRAGMENT` file shorter than a block, also all
zero; `DONT_HASH` -/
def spFiles : List InFile :=
  [⟨0, [1, 2, 3, 4, 5, 6]⟩, ⟨blkDontFragment, [1, 2, 3, 4, 5, 6]⟩, ⟨0, []⟩, ⟨0, [0, 0, 0, 0, 0, 0]⟩, ⟨0, [0, 0]⟩,
   ⟨blkIgnoreSparse, [0, 0, 0, 0, 0, 0]⟩, ⟨0, [1, 2, 3]⟩, ⟨0, [4, 5, 6]⟩, ⟨0, [1, 2, 3]⟩, ⟨blkDontCompress, [1, 2, 3]⟩,
   ⟨blkDontFragment, [1, 2, 3, 4, 5, 6]⟩, ⟨blkDontFragment, [7, 7, 7, 7, 7, 7, 7, 7]⟩, ⟨0, [7, 7, 7, 7, 7, 7, 7, 7]⟩,
   ⟨0, [7, 7, 7, 7, 7, 7, 7, 7, 7, 7, 7, 7]⟩, ⟨0, [7, 7, 7, 7]⟩, ⟨blkDontDeduplicate, [5, 6]⟩, ⟨blkDontDeduplicate, [5, 6]⟩,
   ⟨0, [5, 6]⟩, ⟨blkDontFragment, [1, 2]⟩, ⟨blkDontFragment, [0, 0]⟩, ⟨blkDontHash, [1, 2, 3, 4, 1, 2]⟩]

/-- the hypotheses of `packRef_eq_specPack` hold on the instance -/
example : CodecOk spP.codec ∧ (∀ x z, spP.codec.cmp x = some z → 0 < z.length) ∧ spP.byteCompare = true ∧ 0 < spP.B ∧
    spP.B < 2 ^ 24 ∧ ∀ f ∈ spFiles, f.flags &&& blkUserSettable = f.flags :=
  ⟨spCodec_ok.1, spCodec_ok.2, rfl, by decide, by decide, by decide⟩

/-- the conclusion, evaluated: 6 fragment blocks, a 48-byte output file, starts shared between files 1 and 10 and between
files 11 … 14, holes in files 3, 4 and 19 -/
example :
    (packRef spP spFiles).toOption.map Output.view =
      some (specView spP.pre (Sqfs.Pack.specPack (toPackParams spP) (toPackFiles spFiles))) ∧
    (packRef spP spFiles).toOption.map (fun o => (o.frags.length, o.file.length)) = some (6, 48) ∧
    (packRef spP spFiles).toOption.map (fun o => o.files.map (·.start)) =
      some [3, 7, 0, 0, 0, 13, 0, 0, 0, 0, 7, 27, 27, 27, 27, 0, 0, 0, 36, 0, 38] ∧
    (packRef spP spFiles).toOption.map (fun o => o.files.map (·.sparse)) =
      some [0, 0, 0, 6, 2, 0, 0, 0, 0, 0, 0, 0, 0, 0, 0, 0, 0, 0, 0, 2, 0] := by
  decide +kernel

/-- `byteCompare` is needed: with the byte comparison off (`SQFS_BLOCK_PROCESSOR` created without a file to read back from)
and a checksum that collides, the second tail is deduplicated against the first one; `specPack` compares bytes -/
example :
    let P : Params := { B := 4, codec := spCodec, h := fun _ => 0, byteCompare := false }
    (packRef P [⟨0, [1, 2]⟩, ⟨0, [3, 4]⟩]).toOption.map (fun o => o.files.map (fun r => (r.fragIdx, r.fragOff))) =
      some [(0, 0), (0, 0)] ∧
    (Sqfs.Pack.specPack (toPackParams P) (toPackFiles [⟨0, [1, 2]⟩, ⟨0, [3, 4]⟩])).files.map (·.frag) =
      [some (0, 0), some (0, 2)] := by
  decide +kernel

end Sqfs.BlockProc
