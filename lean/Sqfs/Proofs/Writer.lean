/-
Helper lemmas for C14, part 2: the file under `pwrite`/`ftruncate`, operations that stay clear of the
superblock region, `sqfs_super_read` looks at the first 96 bytes only, shape of a log.
-/
import Sqfs.Proofs.WriterSuper
namespace Sqfs.Writer
open Sqfs.Consts

theorem zeros_length (n : Nat) : (zeros n).length = n := by simp [zeros]

theorem filePwrite_length (f : Bytes) (off : Nat) (d : Bytes) :
    (filePwrite f off d).length = max f.length (off + d.length) := by
  simp [filePwrite, zeros_length, List.length_take, List.length_drop]; omega

theorem fileTrunc_length (f : Bytes) (n : Nat) : (fileTrunc f n).length = n := by
  simp [fileTrunc, zeros_length, List.length_take]; omega

theorem filePwrite_take (f : Bytes) (off : Nat) (d : Bytes) (n : Nat) (h1 : n ≤ off) (h2 : n ≤ f.length) :
    (filePwrite f off d).take n = f.take n := by
  unfold filePwrite
  rw [List.append_assoc, List.append_assoc, List.take_append_of_le_length]
  · rw [List.take_take]; congr 1; omega
  · simp [List.length_take]; omega

theorem fileTrunc_take (f : Bytes) (n m : Nat) (h1 : m ≤ n) (h2 : m ≤ f.length) :
    (fileTrunc f n).take m = f.take m := by
  unfold fileTrunc
  rw [List.take_append_of_le_length]
  · rw [List.take_take]; congr 1; omega
  · simp [List.length_take]; omega

theorem filePwrite_append (f d : Bytes) : filePwrite f f.length d = f ++ d := by
  simp [filePwrite, zeros]

theorem filePwrite_zero (f d : Bytes) (_h : d.length ≤ f.length) : filePwrite f 0 d = d ++ f.drop d.length := by
  simp [filePwrite, zeros]


theorem applyOps_append (f : Bytes) (a b : List Op) : applyOps f (a ++ b) = applyOps (applyOps f a) b := by
  simp [applyOps, List.foldl_append]

theorem applyOps_cons (f : Bytes) (o : Op) (r : List Op) : applyOps f (o :: r) = applyOps (o.apply f) r := rfl

theorem safe_apply (o : Op) (f : Bytes) (ho : o.Safe) (hf : sizeofSuper ≤ f.length) :
    (o.apply f).take sizeofSuper = f.take sizeofSuper ∧ sizeofSuper ≤ (o.apply f).length := by
  cases o with
  | pwrite off d =>
    simp only [Op.Safe] at ho
    exact ⟨filePwrite_take f off d _ ho hf, by simp only [Op.apply, filePwrite_length]; omega⟩
  | ftruncate n =>
    simp only [Op.Safe] at ho
    exact ⟨fileTrunc_take f n _ ho hf, by simp only [Op.apply, fileTrunc_length]; omega⟩

theorem safe_applyOps (ops : List Op) (f : Bytes) (h : ∀ o ∈ ops, o.Safe) (hf : sizeofSuper ≤ f.length) :
    (applyOps f ops).take sizeofSuper = f.take sizeofSuper ∧ sizeofSuper ≤ (applyOps f ops).length := by
  induction ops generalizing f with
  | nil => exact ⟨rfl, hf⟩
  | cons o r ih =>
    have h1 := safe_apply o f (h o (by simp)) hf
    have h2 := ih (o.apply f) (fun x hx => h x (by simp [hx])) h1.2
    rw [applyOps_cons]
    exact ⟨h2.1.trans h1.1, h2.2⟩

theorem splitSafe_spec (l : List Op) :
    l = (splitSafe l).1 ++ (splitSafe l).2 ∧ (∀ o ∈ (splitSafe l).1, o.Safe) ∧
    (∀ o r, (splitSafe l).2 = o :: r → ¬ o.Safe) := by
  induction l with
  | nil => simp [splitSafe]
  | cons o r ih =>
    by_cases ho : o.Safe
    · simp only [splitSafe, ho, if_true]
      refine ⟨by rw [List.cons_append, ← ih.1], ?_, ih.2.2⟩
      intro x hx
      rcases List.mem_cons.mp hx with rfl | hx
      · exact ho
      · exact ih.2.1 x hx
    · simp only [splitSafe, ho, if_false]
      refine ⟨rfl, by simp, ?_⟩
      intro o' r' h
      injection h with h1 h2
      subst h1; exact ho

theorem readAt_super (f : Bytes) (h : sizeofSuper ≤ f.length) : readAt f 0 sizeofSuper = .ok (f.take sizeofSuper) := by
  simp [readAt, sizeofSuper] at *; omega

theorem superRead_congr (f g : Bytes) (hf : sizeofSuper ≤ f.length) (hg : sizeofSuper ≤ g.length)
    (h : f.take sizeofSuper = g.take sizeofSuper) : superRead f = superRead g := by
  simp only [superRead, readAt_super f hf, readAt_super g hg, h]

theorem superRead_short (f : Bytes) (h : f.length < sizeofSuper) : superRead f = .error errOutOfBounds := by
  have : readAt f 0 sizeofSuper = .error errOutOfBounds := by
    simp [readAt, sizeofSuper] at *; omega
  simp only [superRead, this]

theorem superRead_ok_idCount (f : Bytes) (t : Super) (h : superRead f = .ok t) :
    sizeofSuper ≤ f.length ∧ t = Super.decode (f.take sizeofSuper) ∧ t.idCount ≠ 0 := by
  by_cases hl : sizeofSuper ≤ f.length
  · refine ⟨hl, ?_⟩
    simp only [superRead, readAt_super f hl] at h
    split at h <;> try contradiction
    split at h <;> try contradiction
    split at h <;> try contradiction
    split at h <;> try contradiction
    split at h <;> try contradiction
    split at h <;> try contradiction
    split at h <;> try contradiction
    split at h <;> try contradiction
    split at h <;> try contradiction
    injection h with h
    subst h
    exact ⟨rfl, by assumption⟩
  · rw [superRead_short f (by omega)] at h; contradiction

theorem rejected_of_idCount_zero (f : Bytes) (h : (Super.decode (f.take sizeofSuper)).idCount = 0) :
    readerAccepts f = false := by
  cases hs : superRead f with
  | error e => simp [readerAccepts, readerVerdict, hs]
  | ok t =>
    obtain ⟨_, ht, hne⟩ := superRead_ok_idCount f t hs
    rw [ht] at hne; contradiction

theorem rejected_of_short (f : Bytes) (h : f.length < sizeofSuper) : readerAccepts f = false := by
  simp [readerAccepts, readerVerdict, superRead_short f h]


theorem superInit_idCount (bs mt c : Nat) (s : Super) (h : superInit bs mt c = .ok s) : s.idCount = 0 := by
  unfold superInit at h
  split at h; · contradiction
  split at h; · contradiction
  split at h; · contradiction
  injection h with h; subst h; rfl

theorem isProvisional_spec (p : Bytes) (h : isProvisional p = true) :
    p.length = sizeofSuper ∧ (Super.decode p).idCount = 0 := by
  simp only [isProvisional] at h
  split at h
  · contradiction
  · rename_i s hs
    have hp : s.encode = p := by simpa using h
    have h0 := superInit_idCount _ _ _ s hs
    subst hp
    refine ⟨encode_length s, ?_⟩
    rw [decode_encode]; simp [Super.wrap, h0]

/-- structural reading of `shapeCheck` -/
structure Shape (p : Bytes) (mid : List Op) (s : Bytes) (pad : List Op) : Prop where
  prov : isProvisional p = true
  safe : ∀ o ∈ mid, o.Safe
  slen : s.length = sizeofSuper
  used : (Super.decode s).bytesUsed = (image (.pwrite 0 p :: mid)).length
  padOk : pad = [] ∨ ∃ z, pad = [.pwrite (image (.pwrite 0 p :: mid)).length z] ∧ isZeros z = true
  split : splitSafe (mid ++ .pwrite 0 s :: pad) = (mid, .pwrite 0 s :: pad)

theorem shape_of_check (ops : List Op) (h : shapeCheck ops = true) :
    ∃ p mid s pad, ops = .pwrite 0 p :: (mid ++ .pwrite 0 s :: pad) ∧ Shape p mid s pad := by
  unfold shapeCheck at h
  split at h
  case h_2 => contradiction
  case h_1 p rest =>
    simp only [Bool.and_eq_true] at h
    obtain ⟨hp, h⟩ := h
    split at h
    case h_2 => contradiction
    case h_1 mid s pad hsp =>
      simp only [Bool.and_eq_true, beq_iff_eq] at h
      obtain ⟨⟨hs, hu⟩, hpad⟩ := h
      have spec := splitSafe_spec rest
      rw [hsp] at spec
      have hrest : rest = mid ++ .pwrite 0 s :: pad := spec.1
      refine ⟨p, mid, s, pad, by rw [hrest], ⟨hp, spec.2.1, hs, hu, ?_, by rw [← hrest]; exact hsp⟩⟩
      split at hpad
      · exact Or.inl rfl
      · rename_i off z
        simp only [Bool.and_eq_true, beq_iff_eq] at hpad
        exact Or.inr ⟨z, by rw [hpad.1], hpad.2⟩
      · contradiction

theorem kFinalOf_shape {p mid s pad} (sh : Shape p mid s pad) :
    kFinalOf (.pwrite 0 p :: (mid ++ .pwrite 0 s :: pad)) = mid.length + 2 := by
  unfold kFinalOf
  rw [List.tail_cons, sh.split]

theorem image_snoc (ops : List Op) (o : Op) : image (ops ++ [o]) = o.apply (image ops) := by
  simp [image, applyOps, List.foldl_append]

theorem image_prov_mid (p : Bytes) (mid : List Op) (hp : p.length = sizeofSuper) (hs : ∀ o ∈ mid, o.Safe) :
    (image (.pwrite 0 p :: mid)).take sizeofSuper = p ∧ sizeofSuper ≤ (image (.pwrite 0 p :: mid)).length := by
  have h0 : Op.apply (.pwrite 0 p) [] = p := by simp [Op.apply, filePwrite, zeros]
  have := safe_applyOps mid p hs (by omega)
  simp only [image, applyOps_cons, h0]
  refine ⟨?_, this.2⟩
  rw [this.1, ← hp, List.take_length]

/-- every strict prefix of a well-shaped log is rejected by the readers -/
theorem shape_prefix_rejected (ops : List Op) (h : shapeCheck ops = true) (k : Nat) (hk : k < kFinalOf ops) :
    readerAccepts (image (ops.take k)) = false := by
  obtain ⟨p, mid, s, pad, rfl, sh⟩ := shape_of_check ops h
  rw [kFinalOf_shape sh] at hk
  obtain ⟨hpl, hid⟩ := isProvisional_spec p sh.prov
  cases k with
  | zero => exact rejected_of_short _ (by simp [image, applyOps, sizeofSuper])
  | succ j =>
    have hj : j ≤ mid.length := by omega
    rw [List.take_succ_cons, List.take_append_of_le_length hj]
    have := image_prov_mid p (mid.take j) hpl (fun o ho => sh.safe o (List.mem_of_mem_take ho))
    apply rejected_of_idCount_zero
    rw [this.1]; exact hid

theorem isZeros_spec (z : Bytes) (h : isZeros z = true) : ∀ b ∈ z, b = 0 := by
  simpa [isZeros] using h

/-- two 96-byte writes at offset 0 with only safe operations in between, then at most one append: from the
second write on the file is the complete image up to that append -/
theorem core_suffix (p s : Bytes) (mid pad : List Op) (hp : p.length = sizeofSuper) (hs : s.length = sizeofSuper)
    (safe : ∀ o ∈ mid, o.Safe)
    (padOk : pad = [] ∨ ∃ z, pad = [.pwrite (image (.pwrite 0 p :: mid)).length z])
    (k : Nat) (hk : mid.length + 2 ≤ k) :
    ∃ pad', image (.pwrite 0 p :: (mid ++ .pwrite 0 s :: pad)) = image ((Op.pwrite 0 p :: (mid ++ .pwrite 0 s :: pad)).take k) ++ pad' ∧
      (pad' = [] ∨ pad = [.pwrite (image (.pwrite 0 p :: mid)).length pad']) := by
  rcases padOk with hpad | ⟨z, hpad⟩
  · refine ⟨[], ?_, Or.inl rfl⟩
    rw [List.take_of_length_le (by rw [hpad]; simp; omega)]; simp
  · by_cases hk2 : mid.length + 3 ≤ k
    · refine ⟨[], ?_, Or.inl rfl⟩
      rw [List.take_of_length_le (by rw [hpad]; simp; omega)]; simp
    · have hk3 : k = mid.length + 2 := by omega
      refine ⟨z, ?_, Or.inr hpad⟩
      have e1 : Op.pwrite 0 p :: (mid ++ .pwrite 0 s :: pad) = (.pwrite 0 p :: mid ++ [.pwrite 0 s]) ++ pad := by simp
      have e2 : (Op.pwrite 0 p :: (mid ++ .pwrite 0 s :: pad)).take k = .pwrite 0 p :: mid ++ [.pwrite 0 s] := by
        rw [e1, List.take_append_of_le_length (by simp; omega)]
        apply List.take_of_length_le; simp; omega
      rw [e2, e1, hpad]
      have hb := image_prov_mid p mid hp safe
      rw [image_snoc, image_snoc]
      have hl : (Op.apply (.pwrite 0 s) (image (.pwrite 0 p :: mid))).length = (image (.pwrite 0 p :: mid)).length := by
        simp only [Op.apply, filePwrite_length, hs]; omega
      rw [← hl]
      simp only [Op.apply, filePwrite_append]

/-- from the second superblock write on, the file is the complete image up to trailing zero padding -/
theorem shape_suffix_complete (ops : List Op) (h : shapeCheck ops = true) (k : Nat) (hk : kFinalOf ops ≤ k) :
    ∃ pad, image ops = image (ops.take k) ++ pad ∧ ∀ b ∈ pad, b = 0 := by
  obtain ⟨p, mid, s, pad, rfl, sh⟩ := shape_of_check ops h
  rw [kFinalOf_shape sh] at hk
  have hpo : pad = [] ∨ ∃ z, pad = [.pwrite (image (.pwrite 0 p :: mid)).length z] := by
    rcases sh.padOk with h | ⟨z, h, _⟩
    · exact Or.inl h
    · exact Or.inr ⟨z, h⟩
  obtain ⟨pad', h1, h2⟩ := core_suffix p s mid pad (isProvisional_spec p sh.prov).1 sh.slen sh.safe hpo k hk
  refine ⟨pad', h1, ?_⟩
  rcases h2 with h2 | h2
  · rw [h2]; simp
  · rcases sh.padOk with h | ⟨z, h, hz⟩
    · rw [h] at h2; simp at h2
    · rw [h] at h2
      have : z = pad' := by simpa using h2
      rw [← this]; exact isZeros_spec z hz
end Sqfs.Writer
