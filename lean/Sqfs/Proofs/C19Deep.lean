import Sqfs.Proofs.ObjView
/-!
C19: `copy_equiv` for the objects a copy owns through deep references (`sqfs_copy` inside the hook: the two meta readers of a
directory reader / xattr reader, the fragment table of a data reader): each of them is a fresh object that observes through
every field, buffer and internal pointer what the original's sub-object observes.

`sqfsCopy_viewP` is `sqfsCopy_view` for a heap that is balanced up to pending references / buffers (the state inside a hook);
`copyRefs_deep` walks the reference-slot loop; `sqfsCopy_deep` puts the hook together.
-/
namespace Sqfs.Obj

/-- `sqfsCopy_view` inside a hook: the heap is balanced up to pending references `P` and pending buffers `PB` (what a
copy hook holds while it works); same proof -/
theorem sqfsCopy_viewP (D : Kind → CopyDesc) (hD : ∀ k, WfDesc (D k)) (n : Nat) {h : Heap} {U : Nat → Nat} {P PB : List Nat} {x : Nat} {o : Obj}
    (hb : Bal h U P PB []) (hbud : h.budget = none) (hox : h.objs x = some o) (hxn : x < n + 1)
    (hs1 : o.bufs.length ≤ (D o.kind).bufs.length) (hs2 : o.views.length ≤ (D o.kind).views.length)
    (hs3 : ∀ p ∈ o.views.zip (D o.kind).views, ∀ v, p.1 = some v → listGet o.bufs p.2.2 = some v)
    {h' : Heap} {c : Nat} (he : sqfsCopy D (n + 1) h x = (h', some c)) :
    view h' c = view h x ∧ view h' x = view h x := by
  have hxl : (h.objs x).isSome := by simp [hox]
  obtain ⟨_, hres⟩ := sqfsCopy_bal D hD (n + 1) h U P PB x hb hxl hxn h' (some c) he
  obtain ⟨hb', hfresh, hsl⟩ := hres
  obtain ⟨hd, hc, _, _, hrefs, hviews⟩ := hb.live x o hox (by simp)
  obtain ⟨hw1, hw2, hw3, hw4, _, hw6, hw7⟩ := hD o.kind
  have hbl : ∀ b, some b ∈ o.bufs → (h.bufs b).isSome := fun b hbm => hb.buf_live hox (by simp) hbm
  have hbb : ∀ b, some b ∈ o.bufs → b < h.nbuf := fun b hbm => hb.bufBound b (hbl b hbm)
  have hslot : ∀ s, s ∈ o.bufs ++ o.views → ∀ b, s = some b → b < h.nbuf := by
    intro s hs b hsb
    subst hsb
    rcases List.mem_append.mp hs with h1 | h1
    · exact hbb b h1
    · exact hbb b (hviews b h1)
  refine ⟨?_, ?_⟩
  · -- the copy
    obtain ⟨hA, hB, nb, nr, htk, hloops, hfin⟩ := sqfsCopy_anatomy D n h h' x c o hb.ok hox he
    obtain ⟨bud, hta, htb⟩ := takeAlloc_spec h
    have hbud0 : bud = none := (htb hbud).2
    subst hbud0
    have h0eq : (takeAlloc h).1 = h := by rw [hta]; cases h; simp_all
    rw [h0eq] at hloops
    have hrl : ∀ r, some r ∈ o.refs → (h.objs r).isSome ∧ r < n :=
      fun r hr => ⟨hb.ref_live hox (by simp) hr, by have := hrefs r hr; omega⟩
    have ih := sqfsCopy_bal D hD n
    -- the buffer slots of the copy show what the original's show
    have hvals : nb.map (slotVal hB) = o.bufs.map (slotVal h) := by
      rcases hloops with ⟨hr1, hr2⟩ | ⟨hr1, hr2⟩
      · obtain ⟨hb1, hsA, _, _, _⟩ := copyRefs_bal (sqfsCopy D n) n ih o.refs (D o.kind).refs hb hw4 hrl _ _ _ hr1
        obtain ⟨hsA, _⟩ := hsA rfl
        obtain ⟨_, _, hv⟩ := copyBufs_vals o.bufs (D o.kind).bufs hA (fun a ha => ⟨hw2 a ha, hw7 a ha⟩) (fun b hbm => Nat.lt_of_lt_of_le (hbb b hbm) hsA.nbuf) _ _ _ hr2
        rw [hv rfl hs1]
        apply List.map_congr_left
        intro s hs
        exact slotVal_congr s (fun b hsb => hsA.bufsOld b (hbb b (hsb ▸ hs)))
      · obtain ⟨_, hold, hv⟩ := copyBufs_vals o.bufs (D o.kind).bufs h (fun a ha => ⟨hw2 a ha, hw7 a ha⟩) hbb _ _ _ hr1
        obtain ⟨hb1, hsA, hoA, hnA, hfA, _, _⟩ := copyBufs_bal o.bufs (D o.kind).bufs hb hw2 hbl _ _ _ hr1
        obtain ⟨hb2, hsB, _, _, _⟩ := copyRefs_bal (sqfsCopy D n) n ih o.refs (D o.kind).refs hb1 hw4
          (fun r hr => ⟨by rw [hoA]; exact (hrl r hr).1, (hrl r hr).2⟩) _ _ _ hr2
        obtain ⟨hsB, _⟩ := hsB rfl
        rw [← hv rfl hs1]
        apply List.map_congr_left
        intro s hs
        apply slotVal_congr
        intro b hsb
        subst hsb
        -- a fresh buffer of the copy is pending in `hA`, hence live there, hence below `hA.nbuf`
        have hm : b ∈ nb.filterMap id ++ PB := by
          refine List.mem_append_left _ ?_
          simp only [List.mem_filterMap, id]
          exact ⟨some b, hs, rfl⟩
        have hcnt : (nb.filterMap id ++ PB).count b ≠ 0 := by
          have := List.count_pos_iff.mpr hm; omega
        have hlive : (hA.bufs b).isSome := by
          cases hv : hA.bufs b with
          | some _ => rfl
          | none => exact absurd (hb1.bufDead b hv).1 hcnt
        exact hsB.bufsOld b (hb1.bufBound b hlive)
    unfold finishCopy at hfin
    simp only [Prod.mk.injEq, Option.some.injEq] at hfin
    obtain ⟨rfl, rfl⟩ := hfin
    unfold view
    simp only [upd_same, hox, Option.map_some, Option.some.injEq, List.map_append]
    have hsv : ∀ (hh : Heap), hh.bufs = hB.bufs → ∀ s, slotVal hh s = slotVal hB s :=
      fun hh e s => slotVal_congr s (fun b _ => by rw [e])
    have A : ∀ (hh : Heap), hh.bufs = hB.bufs → List.map (slotVal hh) nb = List.map (slotVal h) o.bufs := by
      intro hh e
      rw [← hvals]; exact List.map_congr_left (fun s _ => hsv hh e s)
    have B : ∀ (hh : Heap), hh.bufs = hB.bufs →
        List.map (slotVal hh) (repointViews o.views (D o.kind).views nb) = List.map (slotVal h) o.views := by
      intro hh ehh
      unfold repointViews
      rw [List.map_map]
      have e : List.map (slotVal h) o.views = List.map (slotVal h ∘ Prod.fst) (o.views.zip (D o.kind).views) := by
        rw [← List.map_map, List.map_fst_zip hs2]
      rw [e]
      apply List.map_congr_left
      intro p hp
      obtain ⟨v, act, slot⟩ := p
      have hact : act = .repoint := hw3 (act, slot) (List.of_mem_zip hp).2
      subst hact
      simp only [Function.comp, repointView]
      rw [hsv hh ehh]
      cases v with
      | none => rfl
      | some w =>
        have := hs3 _ hp w rfl
        simp only at this
        show slotVal hB (listGet nb slot) = slotVal h (some w)
        rw [slotVal_listGet, hvals, ← slotVal_listGet, this]
    generalize hgen : ({ hB with objs := upd hB.objs hB.nobj (some _), nobj := hB.nobj + 1 } : Heap) = hh
    have ehh : hh.bufs = hB.bufs := by rw [← hgen]
    rw [A hh ehh, B hh ehh]
  · -- the original
    have hxb : x < h.nobj := hb.bound x hxl
    have hso := hsl.objsOld x hxb
    rw [hox] at hso
    cases hx' : h'.objs x with
    | none => rw [hx'] at hso; simp at hso
    | some o' =>
      rw [hx'] at hso
      simp only [Option.map_some, Option.some.injEq] at hso
      have e1 : o'.bufs = o.bufs := (congrArg Obj.bufs hso : o'.erase.bufs = o.erase.bufs)
      have e2 : o'.views = o.views := (congrArg Obj.views hso : o'.erase.views = o.erase.views)
      unfold view
      simp only [hx', hox, Option.map_some, Option.some.injEq, e1, e2]
      apply List.map_congr_left
      intro s hs
      exact slotVal_congr s (fun b hsb => hsl.bufsOld b (hslot s hs b hsb))

/-- a step that leaves old objects' slots and old buffers alone leaves what an old object observes alone -/
theorem view_of_slotsOk {h h' : Heap} {x : Nat} {o : Obj} (hs : SlotsOk h h') (hx : h.objs x = some o) (hxn : x < h.nobj)
    (hbb : ∀ b, some b ∈ o.bufs ++ o.views → b < h.nbuf) : view h' x = view h x := by
  have hso := hs.objsOld x hxn
  rw [hx] at hso
  cases hx' : h'.objs x with
  | none => rw [hx'] at hso; simp at hso
  | some o' =>
    rw [hx'] at hso
    simp only [Option.map_some, Option.some.injEq] at hso
    have e1 : o'.bufs = o.bufs := (congrArg Obj.bufs hso : o'.erase.bufs = o.erase.bufs)
    have e2 : o'.views = o.views := (congrArg Obj.views hso : o'.erase.views = o.erase.views)
    unfold view
    simp only [hx', hx, Option.map_some, Option.some.injEq, e1, e2]
    apply List.map_congr_left
    intro s hsm
    exact slotVal_congr s (fun b hsb => hs.bufsOld b (hbb b (hsb ▸ hsm)))

theorem Bal.slots_lt {h : Heap} {U : Nat → Nat} {P PB : List Nat} (hb : Bal h U P PB []) {x : Nat} {o : Obj}
    (hx : h.objs x = some o) : ∀ b, some b ∈ o.bufs ++ o.views → b < h.nbuf := by
  intro b hm
  have hv := (hb.live x o hx (by simp)).2.2.2.2.2
  have hbm : some b ∈ o.bufs := by
    rcases List.mem_append.mp hm with h1 | h1
    · exact h1
    · exact hv b h1
  exact hb.bufBound b (hb.buf_live hx (by simp) hbm)

theorem Bal.view_step {h h' : Heap} {U : Nat → Nat} {P PB : List Nat} (hb : Bal h U P PB []) (hs : SlotsOk h h') {x : Nat}
    (hx : (h.objs x).isSome) : view h' x = view h x := by
  obtain ⟨o, ho⟩ := Option.isSome_iff_exists.mp hx
  exact view_of_slotsOk hs ho (hb.bound x hx) (hb.slots_lt ho)

/-- the sub-objects about to be copied: live, below the recursion bound, shaped as their kind's description expects -/
def SubsOk (D : Kind → CopyDesc) (n : Nat) (h : Heap) (rs : List (Option Nat)) : Prop :=
  ∀ r, some r ∈ rs → ∃ o, h.objs r = some o ∧ r < n ∧ ShapeOk (D o.kind) o

theorem SubsOk.step {D : Kind → CopyDesc} {n : Nat} {h h' : Heap} {U : Nat → Nat} {P PB : List Nat} {rs : List (Option Nat)}
    (hg : SubsOk D n h rs) (hb : Bal h U P PB []) (hs : SlotsOk h h') : SubsOk D n h' rs := by
  intro r hm
  obtain ⟨o, ho, hn, hsh⟩ := hg r hm
  have hso := hs.objsOld r (hb.bound r (by simp [ho]))
  rw [ho] at hso
  cases hx' : h'.objs r with
  | none => rw [hx'] at hso; simp at hso
  | some o' =>
    rw [hx'] at hso
    simp only [Option.map_some, Option.some.injEq] at hso
    have e0 : o'.kind = o.kind := (congrArg Obj.kind hso : o'.erase.kind = o.erase.kind)
    have e1 : o'.bufs = o.bufs := (congrArg Obj.bufs hso : o'.erase.bufs = o.erase.bufs)
    have e2 : o'.views = o.views := (congrArg Obj.views hso : o'.erase.views = o.erase.views)
    refine ⟨o', rfl, hn, ?_⟩
    unfold ShapeOk at hsh ⊢
    rw [e0, e1, e2]; exact hsh

/-- the reference-slot loop of a hook: every slot that is deep-copied ends up holding a fresh object that observes what the
original's sub-object observes -/
theorem copyRefs_deep (D : Kind → CopyDesc) (hD : ∀ k, WfDesc (D k)) (n : Nat) :
    ∀ (rs : List (Option Nat)) (as : List RefAct) {h : Heap} {U : Nat → Nat} {P PB : List Nat},
    Bal h U P PB [] → h.budget = none → (∀ a ∈ as, a ≠ .alias) → SubsOk D n h rs →
    ∀ h' nr, copyRefs (sqfsCopy D n) h rs as = (h', nr, true) →
      ∀ (i r : Nat), rs[i]? = some (some r) → as[i]? = some RefAct.deep →
        ∃ y, nr[i]? = some (some y) ∧ h.nobj ≤ y ∧ view h' y = view h r := by
  intro rs
  induction rs with
  | nil => intro as h U P PB _ _ _ _ h' nr _ i r hi; simp at hi
  | cons x rs ih =>
    intro as h U P PB hb hbud hw hg h' nr he i r hi ha
    cases as with
    | nil => simp at ha
    | cons a as =>
      have hw' : ∀ a' ∈ as, a' ≠ .alias := fun a' ha' => hw a' (List.mem_cons_of_mem _ ha')
      have hg' : SubsOk D n h rs := fun r hm => hg r (List.mem_cons_of_mem _ hm)
      have hlive : ∀ (hh : Heap), SubsOk D n hh rs → ∀ r, some r ∈ rs → (hh.objs r).isSome ∧ r < n := by
        intro hh hgg r hm
        obtain ⟨o, ho, hn, _⟩ := hgg r hm
        exact ⟨by simp [ho], hn⟩
      -- the rest of the loop runs in `h1`, which differs from `h` by a `SlotsOk` step and holds `y` pending
      have cont : ∀ (h1 : Heap) (y : Nat), Bal h1 U (y :: P) PB [] → SlotsOk h h1 → ∀ nr1, copyRefs (sqfsCopy D n) h1 rs as = (h', nr1, true) →
          ∀ (j r' : Nat), rs[j]? = some (some r') → as[j]? = some RefAct.deep →
            ∃ y', nr1[j]? = some (some y') ∧ h.nobj ≤ y' ∧ view h' y' = view h r' := by
        intro h1 y hb1 hs1 nr1 hr j r' hj haj
        obtain ⟨y', h1', h2', h3'⟩ := ih as hb1 (hs1.budget hbud) hw' (hg'.step hb hs1) h' nr1 hr j r' hj haj
        have hmem : some r' ∈ rs := List.mem_of_getElem? hj
        refine ⟨y', h1', Nat.le_trans hs1.nobj h2', ?_⟩
        rw [h3']
        exact hb.view_step hs1 (hlive h hg' r' hmem).1
      cases x with
      | none =>
        rcases hr : copyRefs (sqfsCopy D n) h rs as with ⟨h1, nr1, ok1⟩
        simp only [copyRefs, hr, consSlot, Prod.mk.injEq] at he
        obtain ⟨rfl, rfl, rfl⟩ := he
        cases i with
        | zero => simp at hi
        | succ j =>
          simp only [List.getElem?_cons_succ] at hi ha ⊢
          exact ih as hb hbud hw' hg' _ _ hr j r hi ha
      | some x =>
        obtain ⟨ox, hox, hxn, hsh⟩ := hg x List.mem_cons_self
        have hxl : (h.objs x).isSome := by simp [hox]
        cases a with
        | alias => exact absurd rfl (hw _ List.mem_cons_self)
        | grab =>
          simp only [copyRefs] at he
          rcases hr : copyRefs (sqfsCopy D n) (grab h x) rs as with ⟨h2, nr1, ok1⟩
          rw [hr] at he
          simp only [consSlot, Prod.mk.injEq] at he
          obtain ⟨rfl, rfl, rfl⟩ := he
          have hsg : SlotsOk h (grab h x) := by
            rw [grab_eq hb.ok hox]
            refine ⟨Nat.le_refl _, Nat.le_refl _, ?_, fun _ h => h, fun h => h, fun _ _ => rfl, ?_⟩
            · intro z hz
              by_cases hzx : z = x
              · subst hzx; simp
              · simpa [upd, hzx] using hz
            · intro j _
              by_cases hjx : j = x
              · subst hjx; simp [hox, Obj.erase]
              · simp [upd, hjx]
          cases i with
          | zero => simp at ha
          | succ j =>
            simp only [List.getElem?_cons_succ] at hi ha ⊢
            exact cont (grab h x) x (hb.grabbed hox (by simp)) hsg nr1 hr j r hi ha
        | deep =>
          simp only [copyRefs] at he
          cases hcpx : sqfsCopy D n h x with
          | mk h1 r1 =>
            rw [hcpx] at he
            cases r1 with
            | none => simp at he
            | some y =>
              simp only [] at he
              rcases hr : copyRefs (sqfsCopy D n) h1 rs as with ⟨h2, nr1, ok1⟩
              rw [hr] at he
              simp only [consSlot, Prod.mk.injEq] at he
              obtain ⟨rfl, rfl, rfl⟩ := he
              obtain ⟨_, hres⟩ := sqfsCopy_bal D hD n h U P PB x hb hxl hxn h1 (some y) hcpx
              simp only [CpRes] at hres
              obtain ⟨hb1, hfresh, hs1⟩ := hres
              cases i with
              | succ j =>
                simp only [List.getElem?_cons_succ] at hi ha ⊢
                exact cont h1 y hb1 hs1 nr1 hr j r hi ha
              | zero =>
                simp only [List.getElem?_cons_zero, Option.some.injEq] at hi
                subst hi
                refine ⟨y, by simp, hfresh, ?_⟩
                -- the sub-copy observes what the sub-object observes, and the rest of the loop leaves it alone
                obtain ⟨k, hk⟩ : ∃ k, n = k + 1 := ⟨n - 1, by omega⟩
                subst hk
                have hv := (sqfsCopy_viewP D hD k hb hbud hox hxn hsh.1 hsh.2.1 hsh.2.2 hcpx).1
                rw [← hv]
                obtain ⟨hb2, hs2, _⟩ := copyRefs_bal (sqfsCopy D (k + 1)) (k + 1) (sqfsCopy_bal D hD (k + 1)) rs as hb1 hw'
                  (hlive h1 (hg'.step hb hs1)) _ _ _ hr
                obtain ⟨oy, hy, _⟩ := hb1.mem_live List.mem_cons_self
                exact hb1.view_step (hs2 rfl).1 (by simp [hy])

/-- placing the finished copy in the heap changes nothing that an older object observes -/
theorem view_finishCopy (d : CopyDesc) (hB : Heap) (o : Obj) (nb nr : List (Option Nat)) (z : Nat) (hz : z < hB.nobj) :
    view (finishCopy d hB o nb nr).1 z = view hB z := by
  unfold finishCopy view
  simp only [upd, Nat.ne_of_lt hz, if_false]
  cases hB.objs z with
  | none => rfl
  | some oz =>
    simp only [Option.map_some, Option.some.injEq]
    exact List.map_congr_left (fun s _ => slotVal_congr s (fun _ _ => rfl))

/-- **the sub-objects of a copy**: after a successful `sqfs_copy` of `x`, every reference slot that the hook deep-copies holds in
the copy a fresh object `y` (`y ≥ h.nobj`: it did not exist before) that observes through all its slots what the original's
sub-object `r` observes, and `r` observes what it observed -/
theorem sqfsCopy_deep (D : Kind → CopyDesc) (hD : ∀ k, WfDesc (D k)) (n : Nat) {h : Heap} {U : Nat → Nat} {x : Nat} {o : Obj}
    (hb : Bal h U [] [] []) (hbud : h.budget = none) (hox : h.objs x = some o) (hxn : x < n + 1)
    (hsub : ∀ r, some r ∈ o.refs → ∃ or, h.objs r = some or ∧ ShapeOk (D or.kind) or)
    {h' : Heap} {c : Nat} (he : sqfsCopy D (n + 1) h x = (h', some c)) :
    ∀ (i r : Nat), o.refs[i]? = some (some r) → (D o.kind).refs[i]? = some RefAct.deep →
      ∃ oc y, h'.objs c = some oc ∧ oc.refs[i]? = some (some y) ∧ h.nobj ≤ y ∧ view h' y = view h r ∧ view h' r = view h r := by
  intro i r hi ha
  have hxl : (h.objs x).isSome := by simp [hox]
  obtain ⟨_, hres⟩ := sqfsCopy_bal D hD (n + 1) h U [] [] x hb hxl hxn h' (some c) he
  obtain ⟨_, _, hsl⟩ := hres
  obtain ⟨_, _, _, _, hrefs, _⟩ := hb.live x o hox (by simp)
  obtain ⟨_, hw2, _, hw4, _, _, hw7⟩ := hD o.kind
  have hrm : some r ∈ o.refs := List.mem_of_getElem? hi
  have hrl : (h.objs r).isSome := hb.ref_live hox (by simp) hrm
  have hg : SubsOk D n h o.refs := by
    intro r' hm
    obtain ⟨or, h1, h2⟩ := hsub r' hm
    exact ⟨or, h1, by have := hrefs r' hm; omega, h2⟩
  have hbl : ∀ b, some b ∈ o.bufs → (h.bufs b).isSome := fun b hbm => hb.buf_live hox (by simp) hbm
  obtain ⟨hA, hB, nb, nr, _, hloops, hfin⟩ := sqfsCopy_anatomy D n h h' x c o hb.ok hox he
  obtain ⟨bud, hta, htb⟩ := takeAlloc_spec h
  have hbud0 : bud = none := (htb hbud).2
  subst hbud0
  have h0eq : (takeAlloc h).1 = h := by rw [hta]; cases h; simp_all
  rw [h0eq] at hloops
  have ih := sqfsCopy_bal D hD n
  have hrl' : ∀ (hh : Heap), SubsOk D n hh o.refs → ∀ r, some r ∈ o.refs → (hh.objs r).isSome ∧ r < n := by
    intro hh hgg r' hm
    obtain ⟨or, ho, hn, _⟩ := hgg r' hm
    exact ⟨by simp [ho], hn⟩
  -- what the loops leave: `y` in slot `i`, live below `hB.nobj`, observing in `hB` what `r` observes in `h`
  have key : ∃ y, nr[i]? = some (some y) ∧ h.nobj ≤ y ∧ y < hB.nobj ∧ view hB y = view h r := by
    rcases hloops with ⟨hr1, hr2⟩ | ⟨hr1, hr2⟩
    · obtain ⟨y, h1, h2, h3⟩ := copyRefs_deep D hD n o.refs (D o.kind).refs hb hbud hw4 hg hA nr hr1 i r hi ha
      obtain ⟨hb1, hsA, _⟩ := copyRefs_bal (sqfsCopy D n) n ih o.refs (D o.kind).refs hb hw4 (hrl' h hg) _ _ _ hr1
      have hyl : (hA.objs y).isSome := (hsA rfl).2 y (List.mem_of_getElem? h1)
      obtain ⟨_, hsB, _, hnB, _⟩ := copyBufs_bal o.bufs (D o.kind).bufs hb1 hw2
        (fun b hbm => (hsA rfl).1.bufLive b (hbl b hbm)) _ _ _ hr2
      refine ⟨y, h1, h2, by rw [hnB]; exact hb1.bound y hyl, ?_⟩
      rw [← h3]
      exact hb1.view_step hsB hyl
    · obtain ⟨hb1, hsA, hoA, hnA, _⟩ := copyBufs_bal o.bufs (D o.kind).bufs hb hw2 hbl _ _ _ hr1
      have hgA : SubsOk D n hA o.refs := hg.step hb hsA
      obtain ⟨y, h1, h2, h3⟩ := copyRefs_deep D hD n o.refs (D o.kind).refs hb1 (hsA.budget hbud) hw4 hgA hB nr hr2 i r hi ha
      obtain ⟨hb2, hsB, _⟩ := copyRefs_bal (sqfsCopy D n) n ih o.refs (D o.kind).refs hb1 hw4 (hrl' hA hgA) _ _ _ hr2
      have hyl : (hB.objs y).isSome := (hsB rfl).2 y (List.mem_of_getElem? h1)
      refine ⟨y, h1, by rw [← hnA]; exact h2, hb2.bound y hyl, ?_⟩
      rw [h3]
      exact hb.view_step hsA hrl
  obtain ⟨y, h1, h2, h3, h4⟩ := key
  have hv := view_finishCopy (D o.kind) hB o nb nr y h3
  have hfc : (finishCopy (D o.kind) hB o nb nr).1 = h' := congrArg Prod.fst hfin
  rw [hfc] at hv
  obtain ⟨_, _, _, _, oc, hoc, _, _, _, hocr, _⟩ := finishCopy_spec (D o.kind) hB o nb nr h' c hfin
  exact ⟨oc, y, hoc, by rw [hocr]; exact h1, h2, by rw [hv, h4], hb.view_step hsl hrl⟩

end Sqfs.Obj
