/-
C02 helper lemmas, part 7: the primitive steps of the implementation model keep `Back` and `Acct`.
-/
import Sqfs.Proofs.BPLookup
namespace Sqfs.BlockProc
open Sqfs.Consts
open Sqfs.BlockWriter (hasFlag)

/-! ### small list facts -/

theorem storeIo_perm (b : Blk) (q : List Blk) : (storeIo b q).Perm (b :: q) := by
  induction q with
  | nil => exact List.Perm.refl _
  | cons x t ih =>
    unfold storeIo
    split
    · exact (ih.cons x).trans (List.Perm.swap b x t)
    · exact List.Perm.refl _

theorem storeIo_length (b : Blk) (q : List Blk) : (storeIo b q).length = q.length + 1 := by
  simpa using (storeIo_perm b q).length_eq

theorem storeIo_sorted (b : Blk) (q : List Blk) (hs : q.Pairwise (fun a c => a.seq < c.seq)) (hne : ∀ y ∈ q, y.seq ≠ b.seq) :
    (storeIo b q).Pairwise (fun a c => a.seq < c.seq) := by
  induction q with
  | nil => simp [storeIo]
  | cons x t ih =>
    rw [List.pairwise_cons] at hs
    unfold storeIo
    split
    · rename_i hlt
      rw [List.pairwise_cons]
      refine ⟨?_, ih hs.2 (fun y hy => hne y (List.mem_cons_of_mem _ hy))⟩
      intro y hy
      rcases List.mem_cons.mp ((storeIo_perm b t).subset hy) with h | h
      · subst h; exact hlt
      · exact hs.1 y h
    · rename_i hge
      have hxb : b.seq < x.seq := by
        have := hne x List.mem_cons_self
        omega
      rw [List.pairwise_cons]
      refine ⟨?_, List.pairwise_cons.mpr hs⟩
      intro y hy
      rcases List.mem_cons.mp hy with h | h
      · subst h; exact hxb
      · exact Nat.lt_trans hxb (hs.1 y h)

theorem wRun_append (W : WSt) (a b : List Blk) :
    wRun W (a ++ b) = (match wRun W a with
                       | .error e => .error e
                       | .ok W' => wRun W' b) := by
  induction a generalizing W with
  | nil => rfl
  | cons x a ih =>
    simp only [List.cons_append, wRun]
    cases wStep W x with
    | error e => rfl
    | ok W' => exact ih W'

theorem take_succ_of_lt {α : Type} (l : List α) (n : Nat) (h : n < l.length) : l.take (n + 1) = l.take n ++ [l[n]] := by
  rw [List.take_succ, List.getElem?_eq_getElem h]; rfl

theorem drop_eq_cons_of_lt {α : Type} (l : List α) (n : Nat) (h : n < l.length) : l.drop n = l[n] :: l.drop (n + 1) :=
  (List.getElem_cons_drop h).symm

theorem mem_drop_seq {P : Params} {n : Nat} {done : List Blk} {F : FSt} (h : FInv P n done F) {deq : Nat} {b : Blk}
    (hb : b ∈ F.stream.drop deq) : deq ≤ b.seq ∧ b.seq < F.stream.length ∧ F.stream[b.seq]? = some b := by
  obtain ⟨i, hi, rfl⟩ := List.mem_iff_getElem.mp hb
  simp only [List.length_drop] at hi
  rw [List.getElem_drop]
  have := h.seqs (deq + i) (by omega)
  rw [this]
  exact ⟨by omega, by omega, by rw [List.getElem?_eq_getElem (by omega)]⟩

/-- blocks of the stream are determined by their sequence number -/
theorem stream_eq_of_seq {P : Params} {n : Nat} {done : List Blk} {F : FSt} (h : FInv P n done F) {deq : Nat} {a b : Blk}
    (ha : a ∈ F.stream.drop deq) (hb : b ∈ F.stream.drop deq) (hs : a.seq = b.seq) : a = b := by
  have h1 := (mem_drop_seq h ha).2.2
  have h2 := (mem_drop_seq h hb).2.2
  rw [hs, h2] at h1
  exact (Option.some.inj h1).symm

/-! ### `Back` as seen by the lookups -/

theorem Back.look {P : Params} {s : Proc} {g : Ghost} {F : FSt} {W : WSt} (h : Back P s g F W) :
    LookOK P s.w.inodes.length g.done F s.ioDeqSeqNum W s :=
  ⟨h.finv, h.fragBlock, h.winv, h.wr, h.fragTbl, h.inFlSub, h.inFlAll, h.cache⟩

theorem Back.tblLen {P : Params} {s : Proc} {g : Ghost} {F : FSt} {W : WSt} (h : Back P s g F W) : s.w.fragTbl.length = F.ntbl := by
  rw [h.fragTbl, applySets_length]; simp

theorem Back.setCache {P : Params} {s : Proc} {g : Ghost} {F : FSt} {W : WSt} (h : Back P s g F W) (c : Option (Nat × Bytes))
    (hc : CacheOK F c) : Back P { s with cachedFragBlk := c } g F W :=
  { h with cache := hc }

/-- a worked front-end block is well formed -/
theorem Back.itemOK_of_mem {P : Params} (hc : CodecOk P.codec) {s : Proc} {g : Ghost} {F : FSt} {W : WSt} (h : Back P s g F W)
    {x : Blk} (hx : x ∈ g.done ++ g.pend) : ItemOK P.B s.w.inodes.length x := by
  rw [h.worked] at hx
  obtain ⟨y, hy, rfl⟩ := List.mem_map.mp hx
  exact (h.itemsOK y hy).worked hc

/-- the protocol condition for the next block the pool hands back -/
theorem Back.fproto_next {P : Params} {s : Proc} {g : Ghost} {F : FSt} {W : WSt} (h : Back P s g F W) (x : Blk) (rest : List Blk)
    (hp : g.pend = x :: rest) :
    (if isFrag x then !(g.done.foldl fOpen false) else (!isLast x || g.done.foldl fOpen false || isFirst x)) = true := by
  have := h.fprotoOK
  rw [← fproto_worked P, ← h.worked, hp, fproto_append] at this
  simp only [fproto, Bool.and_eq_true] at this
  exact this.2.1

/-! ### `enqueue_block` -/

/-- the front end submits a block -/
theorem Back.enqueueFront {P : Params} (hP : P.ans = serialAns) {s : Proc} {g : Ghost} {F : FSt} {W : WSt}
    (h : Back P s g F W) (x : Blk) (hx : ItemOK P.B s.w.inodes.length x) (hfp : fproto false (g.front ++ [x]) = true) :
    ∃ p', enqueueBlock P s x = .ok { s with pool := p' } ∧
      Back P { s with pool := p' }
        { g with front := g.front ++ [x], pend := g.pend ++ [processBlock P x], items := g.items ++ [processBlock P x] } F W := by
  obtain ⟨hrc, hpool⟩ := poolSubmit_ok P hP s.pool g.items h.pool x
  have hnfb : hasFlag x.flags blkFragmentBlock = false := hx.notFB
  have hwfb : isFB (processBlock P x) = false := by rw [isFB_worked]; exact hnfb
  refine ⟨(poolSubmit P s.pool x).1, ?_, ?_⟩
  · unfold enqueueBlock
    simp only [hnfb, Bool.false_and, Bool.false_eq_true, if_false, hrc, ne_eq, not_true_eq_false]
  · refine { h with pool := hpool, pend := ?_, worked := ?_, queue := ?_, itemsOK := ?_, fprotoOK := hfp }
    · simp only [List.filter_append, List.filter_cons, hwfb, Bool.not_false, if_true, List.filter_nil, h.pend]
    · simp only [List.map_append, List.map_cons, List.map_nil, ← List.append_assoc, h.worked]
    · simp only [List.filter_append, List.filter_cons, hwfb, Bool.false_eq_true, if_false, List.filter_nil, List.append_nil]
      exact h.queue
    · intro y hy
      rcases List.mem_append.mp hy with hy | hy
      · exact h.itemsOK y hy
      · rw [List.mem_singleton] at hy; subst hy; exact hx

theorem Acct.enqueue {s : Proc} {g : Ghost} {k : Nat} (h : Acct s g (k + 1)) (p' : PoolSt) (b : Blk) (front pend : List Blk) :
    Acct { s with pool := p' } { g with front := front, pend := pend, items := g.items ++ [b] } k := by
  unfold Acct at *
  simp only [List.length_append, List.length_singleton]
  omega

/-- the open fragment block is handed to the pool and numbered (`process_completed_fragment` at overflow, `finish`) -/
theorem Back.closeFrag {P : Params} (hP : P.ans = serialAns) {s : Proc} {g : Ghost} {F : FSt} {W : WSt}
    (h : Back P s g F W) (fb : Blk) (hfb : F.opn = some fb) (ho : g.done.foldl fOpen false = false) :
    ∃ s', enqueueBlock P { s with fragBlock := none, ioSeqNum := s.ioSeqNum + 1 } { fb with seq := s.ioSeqNum } = .ok s' ∧
      s'.fe = s.fe ∧ s'.backlog = s.backlog ∧ s'.ioQueue = s.ioQueue ∧ s'.fragBlock = none ∧ s'.maxBacklog = s.maxBacklog ∧
      Back P s' { g with items := g.items ++ [processBlock P (fb.withSeq F.stream.length)] } (F.close P) W := by
  obtain ⟨hraw, hidx, hpos, hle, hfresh⟩ := h.finv.opn fb hfb
  have hfacts := fbRaw_facts hraw
  have hseq : ({ fb with seq := s.ioSeqNum } : Blk) = fb.withSeq F.stream.length := by rw [h.ioSeq]; rfl
  rw [hseq]
  have hfbflag : hasFlag (fb.withSeq F.stream.length).flags blkFragmentBlock = true := hfacts.fb
  obtain ⟨hrc, hpool⟩ := poolSubmit_ok P hP s.pool g.items h.pool (fb.withSeq F.stream.length)
  have hclose : F.close P =
      { F with opn := none, closed := (fb.index, fb.data) :: F.closed,
               stream := F.stream ++ [processBlock P (fb.withSeq F.stream.length)] } := by
    simp [FSt.close, hfb]
  have hw : FBWorked P (processBlock P (fb.withSeq F.stream.length)) fb.data := ⟨fb.withSeq F.stream.length, hraw, rfl, rfl⟩
  have hne : fb.data ≠ [] := fun he => by simp [he] at hpos
  have hwfb : isFB (processBlock P (fb.withSeq F.stream.length)) = true := (hw.facts hne).fb
  have hdeq : s.ioDeqSeqNum ≤ F.stream.length := h.deqLe
  refine ⟨{ s with fragBlock := none, ioSeqNum := s.ioSeqNum + 1, pool := (poolSubmit P s.pool (fb.withSeq F.stream.length)).1, fblkInFlight := if P.byteCompare then (fb.index, fb.data) :: s.fblkInFlight else s.fblkInFlight }, ?_, rfl, rfl, rfl, rfl, rfl, ?_⟩
  · unfold enqueueBlock
    simp only [hrc, ne_eq, not_true_eq_false, if_false, hfbflag, Bool.true_and]
    rfl
  rw [hclose]
  constructor
  · exact h.maxBacklog
  · exact hpool
  · simp only [List.filter_append, List.filter_cons, hwfb, Bool.not_true, Bool.false_eq_true, if_false, List.filter_nil,
      List.append_nil, h.pend]
  · exact h.worked
  · show s.ioDeqSeqNum ≤ _
    simp only [List.length_append, List.length_singleton]; omega
  · show (s.ioQueue ++ _).Perm _
    simp only [List.filter_append, List.filter_cons, hwfb, if_true, List.filter_nil]
    rw [List.drop_append_of_le_length hdeq, ← List.append_assoc]
    exact h.queue.append_right _
  · exact h.sorted
  · exact h.itemsOK
  · exact h.fprotoOK
  · rw [← hclose]; exact h.finv.close ho
  · rfl
  · exact h.fragHt
  · show s.ioSeqNum + 1 = _
    rw [h.ioSeq]; simp
  · show wRun _ (List.take s.ioDeqSeqNum _) = _
    rw [List.take_append_of_le_length hdeq]; exact h.wrun
  · show WInv P (List.take s.ioDeqSeqNum _) W
    rw [List.take_append_of_le_length hdeq]; exact h.winv
  · exact h.wr
  · exact h.calls
  · exact h.fragTbl
  · exact h.inodes
  · exact h.mergeH
  · exact h.mergeM
  · exact h.feIds
  · intro e he
    simp only at he
    split at he
    · rcases List.mem_cons.mp he with he | he
      · subst he; exact List.mem_cons_self
      · exact List.mem_cons_of_mem _ (h.inFlSub e he)
    · exact List.mem_cons_of_mem _ (h.inFlSub e he)
  · simp only
    split
    · simp only [List.map_cons, List.nodup_cons]
      refine ⟨fun hm => ?_, h.inFlNodup⟩
      obtain ⟨e, he, hee⟩ := List.mem_map.mp hm
      exact hfresh e (h.inFlSub e he) hee
    · exact h.inFlNodup
  · intro hbc b hb hbfb
    simp only [hbc, if_true, List.map_cons, List.mem_cons]
    simp only at hb
    rw [List.drop_append_of_le_length hdeq] at hb
    rcases List.mem_append.mp hb with hb | hb
    · exact Or.inr (h.inFlAll hbc b hb hbfb)
    · rw [List.mem_singleton] at hb
      subst hb
      left; rw [processBlock_index]; rfl
  · intro hbc
    simp only [hbc, Bool.false_eq_true, if_false]
    exact h.inFlNone hbc
  · intro ci cd hcc
    exact List.mem_cons_of_mem _ (h.cache ci cd hcc)

theorem Acct.closeFrag {s s' : Proc} {g : Ghost} {k : Nat} (h : Acct s g k) (hfb : s.fragBlock.isSome = true) (b : Blk)
    (h1 : s'.backlog = s.backlog) (h2 : s'.ioQueue = s.ioQueue) (h3 : s'.fragBlock = none) :
    Acct s' { g with items := g.items ++ [b] } k := by
  unfold Acct at *
  simp only [List.length_append, List.length_singleton, h1, h2, h3, hfb, boolNat] at *
  simp only [Option.isSome_none, Bool.false_eq_true, if_false, if_true] at *
  omega

/-! ### `process_completed_block` -/

theorem modInode_eff (w : W) (i : Option Nat) (e : InoEff) :
    modInode w i e.app = { w with inodes := applyEffs w.inodes (mkEff i e) } := by
  cases i with
  | none => rfl
  | some id => rfl

theorem modInode_length (w : W) (i : Option Nat) (f : Inode → Inode) : (modInode w i f).inodes.length = w.inodes.length := by
  cases i with
  | none => rfl
  | some id => simp [modInode]

/-- `process_completed_block` does to `W` what the writer pass does, given that the fragment table is long enough -/
theorem completeBlock_eq (w : W) (Wl Wl' : WSt) (b : Blk) (hwr : w.wr = Wl.wr) (hcalls : w.calls = Wl.calls)
    (hstep : wStep Wl b = .ok Wl') (hidx : isFB b = true → b.index < w.fragTbl.length) :
    ∃ loc, Wl'.effs = Wl.effs ++ blockEffs b loc ∧
      Wl'.sets = (if !hasFlag b.flags blkIsSparse && b.data.length != 0 && hasFlag b.flags blkFragmentBlock
                  then Wl.sets ++ [(b.index, loc, sizeWord b)] else Wl.sets) ∧
      completeBlock w b = .ok
        { wr := Wl'.wr, calls := Wl'.calls,
          fragTbl := if !hasFlag b.flags blkIsSparse && b.data.length != 0 && hasFlag b.flags blkFragmentBlock
                     then w.fragTbl.set b.index (loc, sizeWord b) else w.fragTbl,
          inodes := applyEffs w.inodes (blockEffs b loc) } := by
  unfold wStep at hstep
  unfold completeBlock
  rw [hwr]
  cases hw : BlockWriter.writeDataBlock Wl.wr b.chk (clearFlag b.flags blkFlagInternal) b.data with
  | error e => rw [hw] at hstep; cases hstep
  | ok r =>
    obtain ⟨wr', loc⟩ := r
    rw [hw] at hstep
    simp only [Except.ok.injEq] at hstep
    subst hstep
    refine ⟨loc, rfl, rfl, ?_⟩
    simp only [hcalls]
    have e2 : (fun (i : Inode) => ({ i with start := loc } : Inode)) = (InoEff.start loc).app := rfl
    unfold blockEffs recordBlock
    by_cases hsp : hasFlag b.flags blkIsSparse = true
    · simp only [hsp, if_true, Bool.not_true, Bool.false_and, Bool.false_eq_true, if_false]
      have e1 : (fun (i : Inode) => ({ i with extended := true, sparse := i.sparse + b.data.length } : Inode).setBlockSize b.index 0)
          = (InoEff.sparse b.index b.data.length).app := rfl
      rw [e1, modInode_eff]
      by_cases hl : hasFlag b.flags blkLastBlock = true
      · simp only [hl, if_true]
        rw [e2, modInode_eff, applyEffs_append]
      · simp only [hl, Bool.false_eq_true, if_false, List.append_nil]
    · simp only [hsp, Bool.false_eq_true, if_false, Bool.not_false, Bool.true_and]
      by_cases hne : (b.data.length != 0) = true
      · simp only [hne, if_true, Bool.true_and]
        by_cases hfb : hasFlag b.flags blkFragmentBlock = true
        · simp only [hfb, if_true, Bool.not_true, Bool.false_eq_true, if_false, List.nil_append]
          have hlt := hidx hfb
          rw [if_pos hlt]
          by_cases hl : hasFlag b.flags blkLastBlock = true
          · simp only [hl, if_true]
            rw [e2, modInode_eff]
          · simp only [hl, Bool.false_eq_true, if_false, applyEffs_nil]
        · simp only [hfb, Bool.false_eq_true, if_false, Bool.not_false]
          have e1 : (fun (i : Inode) => i.setBlockSize b.index (sizeWord b)) = (InoEff.word b.index (sizeWord b)).app := rfl
          rw [e1, modInode_eff]
          by_cases hl : hasFlag b.flags blkLastBlock = true
          · simp only [hl, if_true]
            rw [e2, modInode_eff, applyEffs_append]
          · simp only [hl, Bool.false_eq_true, if_false, List.append_nil, if_true]
      · simp only [hne, Bool.false_eq_true, if_false, Bool.false_and, List.nil_append]
        by_cases hl : hasFlag b.flags blkLastBlock = true
        · simp only [hl, if_true]
          rw [e2, modInode_eff]
        · simp only [hl, Bool.false_eq_true, if_false, applyEffs_nil]

theorem eq_of_map_nodup {α β : Type} {f : α → β} {l : List α} (h : (l.map f).Nodup) {a b : α} (ha : a ∈ l) (hb : b ∈ l)
    (hf : f a = f b) : a = b := by
  induction l with
  | nil => cases ha
  | cons x t ih =>
    rw [List.map_cons, List.nodup_cons] at h
    rcases List.mem_cons.mp ha with ha | ha <;> rcases List.mem_cons.mp hb with hb | hb
    · rw [ha, hb]
    · rw [ha] at hf; exact absurd (hf ▸ List.mem_map_of_mem hb) h.1
    · rw [hb] at hf; exact absurd (hf.symm ▸ List.mem_map_of_mem ha) h.1
    · exact ih h.2 ha hb

/-- every block of the numbered stream fits a block -/
theorem Back.stream_size {P : Params} (hc : CodecOk P.codec) {s : Proc} {g : Ghost} {F : FSt} {W : WSt} (h : Back P s g F W)
    {b : Blk} (hb : b ∈ F.stream) : b.data.length ≤ P.B := by
  by_cases hfb : isFB b = true
  · obtain ⟨d, hd, hw⟩ := h.finv.fbs b hb hfb
    obtain ⟨_, hpos, hle⟩ := h.finv.closedOK _ hd
    have hne : d ≠ [] := fun he => by simp [he] at hpos
    rcases hw.payload hc hne with ⟨_, h2⟩ | ⟨_, _, h3, _⟩
    · rw [h2]; exact hle
    · exact Nat.le_trans (Nat.le_of_lt h3) hle
  · obtain ⟨x, hx, _, hbx⟩ := h.finv.datas b hb (by simpa using hfb)
    rw [hbx]
    exact (h.itemOK_of_mem hc (List.mem_append_left _ hx)).size

theorem Back.fb_facts {P : Params} {s : Proc} {g : Ghost} {F : FSt} {W : WSt} (h : Back P s g F W)
    {b : Blk} (hb : b ∈ F.stream) (hfb : isFB b = true) : FBFlagFacts b.flags ∧ b.data ≠ [] ∧ b.index < F.ntbl := by
  obtain ⟨d, hd, hw⟩ := h.finv.fbs b hb hfb
  obtain ⟨hidx, hpos, _⟩ := h.finv.closedOK _ hd
  have hne : d ≠ [] := fun he => by simp [he] at hpos
  refine ⟨hw.facts hne, ?_, hidx⟩
  obtain ⟨fb, hf, hdd, rfl⟩ := hw
  intro he
  exact hne (hdd ▸ (processBlock_data_nil P fb).mp he)

/-- the head of `io_queue` carries the next sequence number: it goes through `process_completed_block` -/
theorem Back.releaseOne {P : Params} (hc : CodecOk P.codec) (hB : P.B < 2 ^ 24) {s : Proc} {g : Ghost} {F : FSt} {W : WSt}
    (h : Back P s g F W) (b : Blk) (rest : List Blk) (hq : s.ioQueue = b :: rest) (hseq : b.seq = s.ioDeqSeqNum) :
    ∃ s' W' effs, processCompletedBlock { s with ioQueue := rest, ioDeqSeqNum := s.ioDeqSeqNum + 1 } b = .ok s' ∧
      s'.fe = s.fe ∧ s'.backlog = s.backlog - 1 ∧ s'.ioQueue = rest ∧ s'.fragBlock = s.fragBlock ∧ s'.maxBacklog = s.maxBacklog ∧
      s'.ioDeqSeqNum = s.ioDeqSeqNum + 1 ∧
      Back P s' { g with h := g.h ++ effs, m := g.m ++ effs } F W' := by
  have hbq : b ∈ s.ioQueue ++ g.items.filter isFB := by rw [hq]; simp
  have hbd : b ∈ F.stream.drop s.ioDeqSeqNum := h.queue.subset hbq
  obtain ⟨_, hlt, hget⟩ := mem_drop_seq h.finv hbd
  rw [hseq] at hlt hget
  have hbs : b ∈ F.stream := List.mem_of_mem_drop hbd
  have hbeq : F.stream[s.ioDeqSeqNum] = b := by
    rw [List.getElem?_eq_getElem hlt] at hget; exact Option.some.inj hget
  have htake : F.stream.take (s.ioDeqSeqNum + 1) = F.stream.take s.ioDeqSeqNum ++ [b] := by
    rw [take_succ_of_lt _ _ hlt, hbeq]
  have hdrop : F.stream.drop s.ioDeqSeqNum = b :: F.stream.drop (s.ioDeqSeqNum + 1) := by
    rw [drop_eq_cons_of_lt _ _ hlt, hbeq]
  have hsz : b.data.length < 2 ^ 24 := Nat.lt_of_le_of_lt (h.stream_size hc hbs) hB
  have hp : (if isFB b then !((F.stream.take s.ioDeqSeqNum).foldl bOpen false)
      else (!isLast b || (F.stream.take s.ioDeqSeqNum).foldl bOpen false || isFirst b)) = true := by
    have := h.finv.proto
    rw [← List.take_append_drop s.ioDeqSeqNum F.stream, hdrop, sproto_append] at this
    simp only [sproto, Bool.and_eq_true] at this
    exact this.2.1
  obtain ⟨W', hstep, hwinv'⟩ := h.winv.step b hsz hp (fun hfb => ⟨(h.fb_facts hbs hfb).1, (h.fb_facts hbs hfb).2.1⟩)
  have hidx : isFB b = true → b.index < s.w.fragTbl.length := by
    intro hfb; rw [h.tblLen]; exact (h.fb_facts hbs hfb).2.2
  obtain ⟨loc, heffs, hsets, hcb⟩ := completeBlock_eq s.w W W' b h.wr h.calls hstep hidx
  have hpcb : processCompletedBlock { s with ioQueue := rest, ioDeqSeqNum := s.ioDeqSeqNum + 1 } b = .ok
      (releaseOldBlock { s with ioQueue := rest, ioDeqSeqNum := s.ioDeqSeqNum + 1, fblkInFlight := if hasFlag b.flags blkFragmentBlock then s.fblkInFlight.eraseP (fun e => e.1 == b.index) else s.fblkInFlight, w := { wr := W'.wr, fragTbl := (if !hasFlag b.flags blkIsSparse && b.data.length != 0 && hasFlag b.flags blkFragmentBlock then s.w.fragTbl.set b.index (loc, sizeWord b) else s.w.fragTbl), inodes := applyEffs s.w.inodes (blockEffs b loc), calls := W'.calls } }) := by
    unfold processCompletedBlock
    simp only [hcb]
  refine ⟨_, W', blockEffs b loc, hpcb, rfl, rfl, rfl, rfl, rfl, rfl, ?_⟩
  · have f11 : (if hasFlag b.flags blkFragmentBlock then s.fblkInFlight.eraseP (fun e => e.1 == b.index) else s.fblkInFlight)
        = (if isFB b then s.fblkInFlight.eraseP (fun e => e.1 == b.index) else s.fblkInFlight) := rfl
    have hlen : (applyEffs s.w.inodes (blockEffs b loc)).length = s.w.inodes.length := applyEffs_length _ _
    have hsub : ∀ e ∈ (if isFB b then s.fblkInFlight.eraseP (fun e => e.1 == b.index) else s.fblkInFlight), e ∈ s.fblkInFlight := by
      intro e he
      split at he
      · exact List.mem_of_mem_eraseP he
      · exact he
    constructor
    · exact h.maxBacklog
    · exact h.pool
    · exact h.pend
    · exact h.worked
    · show s.ioDeqSeqNum + 1 ≤ _
      omega
    · show (rest ++ _).Perm (F.stream.drop (s.ioDeqSeqNum + 1))
      have := h.queue
      rw [hq, hdrop, List.cons_append] at this
      exact this.cons_inv
    · show rest.Pairwise _
      have := h.sorted
      rw [hq, List.pairwise_cons] at this
      exact this.2
    · simp only [releaseOldBlock, hlen]; exact h.itemsOK
    · exact h.fprotoOK
    · simp only [releaseOldBlock, hlen]; exact h.finv
    · exact h.fragBlock
    · exact h.fragHt
    · exact h.ioSeq
    · show wRun _ (F.stream.take (s.ioDeqSeqNum + 1)) = _
      rw [htake, wRun_append, h.wrun]
      simp only [wRun, hstep]
    · show WInv P (F.stream.take (s.ioDeqSeqNum + 1)) W'
      rw [htake]; exact hwinv'
    · rfl
    · rfl
    · simp only [releaseOldBlock, hsets]
      split
      · rw [applySets_append, ← h.fragTbl]; rfl
      · exact h.fragTbl
    · simp only [releaseOldBlock, hlen]
      rw [applyEffs_append, ← h.inodes]
    · exact h.mergeH.append_right _
    · rw [heffs]; exact h.mergeM.append_right _
    · simp only [releaseOldBlock, hlen]; exact h.feIds
    · simp only [releaseOldBlock, f11]
      intro e he
      exact h.inFlSub e (hsub e he)
    · simp only [releaseOldBlock, f11]
      split
      · exact ((List.eraseP_sublist).map _).nodup h.inFlNodup
      · exact h.inFlNodup
    · intro hbc b' hb' hbfb'
      simp only [releaseOldBlock, f11] at hb' ⊢
      have hb'd : b' ∈ F.stream.drop s.ioDeqSeqNum := by rw [hdrop]; exact List.mem_cons_of_mem _ hb'
      have hold := h.inFlAll hbc b' hb'd hbfb'
      split
      · rename_i hbfb
        obtain ⟨e, he, hek⟩ := List.mem_map.mp hold
        have hne : b'.index ≠ b.index := by
          intro heq
          have hb's : b' ∈ F.stream := List.mem_of_mem_drop hb'd
          have : b' = b := eq_of_map_nodup (stream_fb_indices_nodup h.finv)
            (List.mem_filter.mpr ⟨hb's, hbfb'⟩) (List.mem_filter.mpr ⟨hbs, hbfb⟩) heq
          have hs' := (mem_drop_seq h.finv hb').1
          rw [this, hseq] at hs'
          omega
        exact List.mem_map.mpr ⟨e, (List.mem_eraseP_of_neg (by simp [hek, hne])).mpr he, hek⟩
      · exact hold
    · intro hbc
      simp only [releaseOldBlock, f11, h.inFlNone hbc]
      split <;> rfl
    · exact h.cache

end Sqfs.BlockProc
