/-
`directives_preserve_content`, part 2: fragment blocks, the invariant over `packFiles`, and the final statement.
-/
import Sqfs.Proofs.PackContent
namespace Sqfs.Pack

/-! ## fragment blocks as a reader sees them -/

/-- data of fragment block `k`: decoded from the data area if its table entry is filled, the bytes held in memory
if it is the open block -/
def fragData (P : Params) (σ : State) (k : Nat) : Option Bytes :=
  match σ.frags[k]? with
  | some e => some (decodeBlock P.codec e.raw (readAt P.base (areaOf σ.hist) e.start e.size))
  | none => if k = σ.frags.length then σ.openFrag.map (·.data) else none

/-- the bytes `t` are found at offset `o` of fragment block `k` -/
def TailOK (P : Params) (σ : State) (k o : Nat) (t : Bytes) : Prop :=
  ∃ blk, fragData P σ k = some blk ∧ o + t.length ≤ blk.length ∧ (blk.drop o).take t.length = t

def EntriesIn (P : Params) (σ : State) : Prop := ∀ e ∈ σ.frags, e.start - P.base + e.size ≤ bytesOf σ.hist

def CInv (P : Params) (σ : State) : Prop := EntriesIn P σ ∧ ∀ c ∈ σ.chunks, TailOK P σ c.index c.offset c.data

/-- `σ'` extends `σ`: the data area grows at the end, every fragment block keeps its bytes (the open one may grow) -/
def Ext (P : Params) (σ σ' : State) : Prop :=
  σ.hist <+: σ'.hist ∧ ∀ k blk, fragData P σ k = some blk → ∃ blk', fragData P σ' k = some blk' ∧ blk <+: blk'

theorem Ext.refl (P : Params) (σ : State) : Ext P σ σ :=
  ⟨List.prefix_refl _, fun _ blk h => ⟨blk, h, List.prefix_refl _⟩⟩

theorem Ext.trans {P : Params} {a b c : State} (h1 : Ext P a b) (h2 : Ext P b c) : Ext P a c := by
  refine ⟨h1.1.trans h2.1, ?_⟩
  intro k blk h
  obtain ⟨b1, hb1, p1⟩ := h1.2 k blk h
  obtain ⟨b2, hb2, p2⟩ := h2.2 k b1 hb1
  exact ⟨b2, hb2, p1.trans p2⟩

theorem drop_take_prefix {blk blk' : Bytes} (hp : blk <+: blk') (o n : Nat) (h : o + n ≤ blk.length) :
    (blk'.drop o).take n = (blk.drop o).take n := by
  obtain ⟨ext, rfl⟩ := hp
  rw [List.drop_append_of_le_length (by omega), List.take_append_of_le_length (by simp; omega)]

theorem TailOK.ext {P : Params} {σ σ' : State} (he : Ext P σ σ') {k o : Nat} {t : Bytes} (h : TailOK P σ k o t) :
    TailOK P σ' k o t := by
  obtain ⟨blk, hb, hle, ht⟩ := h
  obtain ⟨blk', hb', hp⟩ := he.2 k blk hb
  refine ⟨blk', hb', ?_, ?_⟩
  · have := hp.length_le; omega
  · rw [drop_take_prefix hp o _ hle]; exact ht

theorem areaOf_prefix {a b : List Stored} (h : a <+: b) : ∃ ext, areaOf b = areaOf a ++ ext := by
  obtain ⟨t, rfl⟩ := h
  exact ⟨areaOf t, areaOf_append a t⟩

/-- growing only the history keeps every fragment block -/
theorem ext_hist (P : Params) (σ : State) (h' : List Stored) (hp : σ.hist <+: h') (hin : EntriesIn P σ) :
    Ext P σ { σ with hist := h' } := by
  refine ⟨hp, ?_⟩
  intro k blk hb
  refine ⟨blk, ?_, List.prefix_refl _⟩
  unfold fragData at hb ⊢
  simp only
  cases he : σ.frags[k]? with
  | none => simpa [he] using hb
  | some e =>
    simp only [he] at hb ⊢
    obtain ⟨ext, hext⟩ := areaOf_prefix hp
    rw [hext, readAt_ext _ _ _ _ _ (by
      rw [areaOf_length]; exact hin e (List.mem_of_getElem? he))]
    exact hb

theorem entriesIn_hist (P : Params) (σ : State) (h' : List Stored) (hp : σ.hist <+: h') (hin : EntriesIn P σ) :
    EntriesIn P { σ with hist := h' } := by
  intro e he
  have := hin e he
  have := prefix_bytesOf_le hp
  simp only
  omega

theorem getElem?_none_of_length {α : Type} (l : List α) : l[l.length]? = none := by simp

theorem tailStep_ext {P : Params} (hc : P.codec.Ok) {F : Flags} {t : Bytes} {σ σ' : State} {i o : Nat}
    (h : TailStep P F t σ σ' i o) (hin : EntriesIn P σ) : Ext P σ σ' ∧ EntriesIn P σ' := by
  cases h with
  | hit => exact ⟨Ext.refl P σ, hin⟩
  | append fb ho hfit =>
    refine ⟨⟨List.prefix_refl _, ?_⟩, hin⟩
    intro k blk hb
    unfold fragData at hb ⊢
    simp only at hb ⊢
    cases he : σ.frags[k]? with
    | some e => simp only [he] at hb ⊢; exact ⟨blk, hb, List.prefix_refl _⟩
    | none =>
      simp only [he, ho, Option.map_some] at hb ⊢
      by_cases hk : k = σ.frags.length
      · simp only [hk, if_true, Option.some.injEq] at hb ⊢
        subst hb
        exact ⟨_, rfl, List.prefix_append _ _⟩
      · simp [hk] at hb
  | closeNew fb ho hfit =>
    refine ⟨⟨List.prefix_append _ _, ?_⟩, ?_⟩
    rotate_left
    · intro e he
      simp only at he ⊢
      rw [bytesOf_append]
      rcases List.mem_append.1 he with he | he
      · have := hin e he; omega
      · simp only [List.mem_singleton] at he
        subst he
        simp [bytesOf_cons, bytesOf_nil]
    intro k blk hb
    unfold fragData at hb ⊢
    simp only at hb ⊢
    cases he : σ.frags[k]? with
    | some e =>
      have hlt : k < σ.frags.length := by
        rcases Nat.lt_or_ge k σ.frags.length with h | h
        · exact h
        · rw [List.getElem?_eq_none_iff.2 h] at he; cases he
      simp only [he] at hb
      rw [List.getElem?_append_left hlt, he]
      simp only
      refine ⟨blk, ?_, List.prefix_refl _⟩
      rw [areaOf_append, readAt_ext _ _ _ _ _ (by rw [areaOf_length]; exact hin e (List.mem_of_getElem? he))]
      exact hb
    | none =>
      simp only [he, ho, Option.map_some] at hb
      by_cases hk : k = σ.frags.length
      · simp only [hk, if_true, Option.some.injEq] at hb
        subst hb
        subst hk
        rw [List.getElem?_append_right (Nat.le_refl _)]
        simp only [Nat.sub_self, List.getElem?_cons_zero]
        refine ⟨fb.data, ?_, List.prefix_refl _⟩
        congr 1
        have hr : readAt P.base (areaOf (σ.hist ++ [workFragBlock P fb])) (P.base + bytesOf σ.hist)
            (workFragBlock P fb).data.length = (workFragBlock P fb).data := by
          have := readAt_mid P.base (areaOf σ.hist) (workFragBlock P fb).data []
          rw [areaOf_length] at this
          simpa [areaOf_append, areaOf_cons, areaOf_nil] using this
        rw [hr]
        exact decode_encode P hc _ _ _
      · simp [hk] at hb
  | fresh ho =>
    refine ⟨⟨List.prefix_refl _, ?_⟩, hin⟩
    intro k blk hb
    unfold fragData at hb ⊢
    simp only at hb ⊢
    cases he : σ.frags[k]? with
    | some e => simp only [he] at hb ⊢; exact ⟨blk, hb, List.prefix_refl _⟩
    | none =>
      simp only [he, ho, Option.map_none] at hb
      split at hb <;> cases hb

/-- the new fragment is where the step says it is -/
theorem tailStep_tailOK_new {P : Params} {F : Flags} {t : Bytes} {σ σ' : State} {i o : Nat}
    (h : TailStep P F t σ σ' i o) (hinv : CInv P σ) : TailOK P σ' i o t := by
  cases h with
  | hit c hm hdc hdata hdd => exact hdata ▸ hinv.2 c hm
  | append fb ho hfit => exact ⟨fb.data ++ t, by simp [fragData], by simp, by simp⟩
  | closeNew fb ho hfit => exact ⟨t, by simp [fragData], by simp, by simp⟩
  | fresh ho => exact ⟨t, by simp [fragData], by simp, by simp⟩

theorem tailStep_tailOK {P : Params} (hc : P.codec.Ok) {F : Flags} {t : Bytes} {σ σ' : State} {i o : Nat}
    (h : TailStep P F t σ σ' i o) (hinv : CInv P σ) : TailOK P σ' i o t ∧ CInv P σ' := by
  have hext := tailStep_ext hc h hinv.1
  have hnew := tailStep_tailOK_new h hinv
  have hold : ∀ c ∈ σ.chunks, TailOK P σ' c.index c.offset c.data := fun c hcm => (hinv.2 c hcm).ext hext.1
  refine ⟨hnew, hext.2, ?_⟩
  cases h with
  | hit c hm hdc hdata hdd => exact hold
  | append fb ho hfit =>
    intro c hcm
    rcases List.mem_cons.1 hcm with rfl | hcm
    · exact hnew
    · exact hold c hcm
  | closeNew fb ho hfit =>
    intro c hcm
    rcases List.mem_cons.1 hcm with rfl | hcm
    · exact hnew
    · exact hold c hcm
  | fresh ho =>
    intro c hcm
    rcases List.mem_cons.1 hcm with rfl | hcm
    · exact hnew
    · exact hold c hcm

/-! ## the per-file statement carried through `packFiles` -/

structure CGood (P : Params) (σ : State) (f : InFile) (r : FileResult) : Prop where
  size : r.size = f.data.length
  blocks : readBlocks P.codec P.B P.base (areaOf σ.hist) r.start r.size r.words = f.data.take (r.words.length * P.B)
  inside : r.start - P.base + diskBytes r.words ≤ bytesOf σ.hist
  frag : match r.frag with
    | none => f.data.length ≤ r.words.length * P.B
    | some (k, o) => TailOK P σ k o (f.data.drop (r.words.length * P.B))
        ∧ (f.data.drop (r.words.length * P.B)).length = f.data.length % P.B

theorem CGood.ext {P : Params} {σ σ' : State} (he : Ext P σ σ') {f : InFile} {r : FileResult} (h : CGood P σ f r) :
    CGood P σ' f r := by
  obtain ⟨ext, hext⟩ := areaOf_prefix he.1
  refine ⟨h.size, ?_, ?_, ?_⟩
  · rw [hext, readBlocks_ext _ _ _ _ _ _ _ _ (by rw [areaOf_length]; exact h.inside)]
    exact h.blocks
  · have := prefix_bytesOf_le he.1
    have := h.inside
    omega
  · have hf := h.frag
    cases hr : r.frag with
    | none => simpa [hr] using hf
    | some p =>
      obtain ⟨k, o⟩ := p
      simp only [hr] at hf ⊢
      exact ⟨hf.1.ext he, hf.2⟩

/-- the history after the file's blocks have been placed, cut at the file's blocks -/
theorem afterBlocks_split (P : Params) (σ : State) (f : InFile) :
    ∃ A Z : Bytes, areaOf (afterBlocks P σ f).hist = A ++ areaOf (mineOf P f) ++ Z
      ∧ (mineOf P f ≠ [] → (placeBlocks P.base f.flags.dontDedup σ.hist (mineOf P f)).2.1 = P.base + A.length)
      ∧ (placeBlocks P.base f.flags.dontDedup σ.hist (mineOf P f)).2.1 - P.base + bytesOf (mineOf P f)
          ≤ bytesOf (afterBlocks P σ f).hist := by
  by_cases hm : mineOf P f = []
  · refine ⟨[], areaOf (afterBlocks P σ f).hist, by simp [hm, areaOf_nil], fun h => absurd hm h, ?_⟩
    simp [hm, placeBlocks_nil, bytesOf_nil]
  · obtain ⟨i, hs, hd, _, _, _⟩ := placeBlocks_spec P.base f.flags.dontDedup σ.hist (mineOf P f) hm
    let h' := (placeBlocks P.base f.flags.dontDedup σ.hist (mineOf P f)).1
    have hsplit : h' = h'.take i ++ (mineOf P f ++ (h'.drop i).drop (mineOf P f).length) := by
      conv => lhs; rw [← List.take_append_drop i h', ← List.take_append_drop (mineOf P f).length (h'.drop i)]
      rw [hd]
    refine ⟨areaOf (h'.take i), areaOf ((h'.drop i).drop (mineOf P f).length), ?_, ?_, ?_⟩
    · show areaOf h' = _
      conv => lhs; rw [hsplit]
      rw [areaOf_append, areaOf_append, List.append_assoc]
    · intro _; rw [hs, areaOf_length]
    · rw [hs, Nat.add_sub_cancel_left]
      have := bytesOf_take_add_le h' i (mineOf P f).length
      rw [hd] at this
      exact this

/-- blocks of the file as (data, worker result) pairs; `sp` = the tail end is a hole -/
def pairsOf (P : Params) (f : InFile) (sp : Bool) : List (Bytes × Worked) :=
  (dataBlocksOf P.B f).map (fun d => (d, workData P f.flags d))
    ++ (if sp then [(tailOf P.B f.data, Worked.sparse (tailOf P.B f.data).length)] else [])

theorem pairsOf_words (P : Params) (f : InFile) (sp : Bool) :
    (pairsOf P f sp).map (fun p => p.2.word) = dataWords P f ++ (if sp then [Word.sparse] else []) := by
  unfold pairsOf dataWords
  cases sp <;> simp [List.map_map, Function.comp_def, Worked.word]

theorem pairsOf_mine (P : Params) (f : InFile) (sp : Bool) :
    (pairsOf P f sp).filterMap (fun p => p.2.stored?) = mineOf P f := by
  unfold pairsOf mineOf
  cases sp <;> simp [List.filterMap_append, List.filterMap_map, Function.comp_def, Worked.stored?]

theorem pairsOf_fst (P : Params) (f : InFile) (sp : Bool) :
    (pairsOf P f sp).map (·.1) = dataBlocksOf P.B f ++ (if sp then [tailOf P.B f.data] else []) := by
  unfold pairsOf
  cases sp <;> simp [List.map_map, Function.comp_def]

theorem pairsOf_WOK (P : Params) (hc : P.codec.Ok) (f : InFile) (sp : Bool) (hsp : sp = true → allZero (tailOf P.B f.data) = true) :
    ∀ p ∈ pairsOf P f sp, WOK P.codec p.1 p.2 := by
  intro p hp
  unfold pairsOf at hp
  rcases List.mem_append.1 hp with hp | hp
  · obtain ⟨d, _, rfl⟩ := List.mem_map.1 hp
    exact workData_WOK P hc f.flags d
  · cases sp with
    | false => simp at hp
    | true =>
      simp only [if_true, List.mem_singleton] at hp
      subst hp
      exact ⟨rfl, hsp rfl⟩

/-- reading the blocks of a freshly packed file from the history after block placement -/
theorem read_after_blocks (P : Params) (hc : P.codec.Ok) (σ : State) (f : InFile) (sp : Bool)
    (hsp : sp = true → allZero (tailOf P.B f.data) = true)
    (hfit : Fit P.B f.data.length ((pairsOf P f sp).map (·.1))) :
    readBlocks P.codec P.B P.base (areaOf (afterBlocks P σ f).hist)
        (placeBlocks P.base f.flags.dontDedup σ.hist (mineOf P f)).2.1 f.data.length
        (dataWords P f ++ (if sp then [Word.sparse] else []))
      = ((pairsOf P f sp).map (·.1)).flatten := by
  obtain ⟨A, Z, harea, hstart, _⟩ := afterBlocks_split P σ f
  have := readBlocks_pairs P.codec P.B P.base (pairsOf P f sp) A Z
    (placeBlocks P.base f.flags.dontDedup σ.hist (mineOf P f)).2.1 f.data.length (pairsOf_WOK P hc f sp hsp) hfit
    (by rw [pairsOf_mine]; exact hstart)
  rw [pairsOf_mine, pairsOf_words, ← harea] at this
  exact this

theorem length_lt_succ_mul (B : Nat) (hB : 0 < B) (n : Nat) : n ≤ (n / B + 1) * B := by
  have h1 := Nat.div_add_mod n B
  have h2 := Nat.mod_lt n hB
  have h3 : (n / B + 1) * B = B * (n / B) + B := by rw [Nat.succ_mul, Nat.mul_comm]
  omega

theorem take_all {α : Type} (l : List α) (n : Nat) (h : l.length ≤ n) : l.take n = l := List.take_of_length_le h

/-- the block part and the bound of `CGood`, in the state right after block placement -/
theorem blocks_good (P : Params) (hB : 0 < P.B) (hc : P.codec.Ok) (σ : State) (f : InFile) (hne : f.data ≠ []) :
    readBlocks P.codec P.B P.base (areaOf (afterBlocks P σ f).hist) (packFile P σ f).2.start (packFile P σ f).2.size
        (packFile P σ f).2.words = f.data.take ((packFile P σ f).2.words.length * P.B)
    ∧ (packFile P σ f).2.start - P.base + diskBytes (packFile P σ f).2.words ≤ bytesOf (afterBlocks P σ f).hist
    ∧ (match (packFile P σ f).2.frag with
       | none => f.data.length ≤ (packFile P σ f).2.words.length * P.B
       | some _ => f.data.drop ((packFile P σ f).2.words.length * P.B) = tailOf P.B f.data) := by
  obtain ⟨hsize, hshape⟩ := packFile_shape P σ f hne _ rfl
  obtain ⟨hstart, _, _⟩ := packFile_cases P σ f hne
  obtain ⟨_, _, _, _, hbound⟩ := afterBlocks_split P σ f
  have hdisk := packFile_diskBytes P σ f
  rw [hsize, hstart, hdisk]
  refine ⟨?_, hbound, ?_⟩
  · rcases hshape with ⟨ht, hw, _, _⟩ | ⟨ht, _, hz, hw, _, _⟩ | ⟨ht, hw, _, _⟩
    · -- no fragment: either no tail, or the tail is block k
      have hfit : Fit P.B f.data.length ((pairsOf P f false).map (·.1)) := by
        rw [pairsOf_fst]; simp only [Bool.false_eq_true, if_false, List.append_nil]
        unfold dataBlocksOf
        split
        · exact fit_with_tail P.B hB f.data
        · simpa using fullBlocks_fit P.B f.data
      have hr := read_after_blocks P hc σ f false (by simp) hfit
      simp only [Bool.false_eq_true, if_false, List.append_nil] at hr
      rw [hw, hr, pairsOf_fst]
      simp only [Bool.false_eq_true, if_false, List.append_nil]
      simp only [dataWords, List.length_map, dataBlocksOf_length]
      unfold dataBlocksOf
      split
      · rename_i hcond
        rw [List.flatten_append, fullBlocks_tail_single, take_all _ _ (by simpa [hcond] using length_lt_succ_mul P.B hB f.data.length)]
      · rename_i hcond
        have hr0 : f.data.length % P.B = 0 := by
          simp only [hasTailFrag, Bool.and_eq_false_iff] at ht
          simp only [Bool.and_eq_true, not_and] at hcond
          rcases ht with ht | ht
          · simpa using ht
          · simp only [Bool.not_eq_false'] at ht
            by_cases h0 : f.data.length % P.B > 0
            · exact absurd ht (by simpa using hcond (by simpa using h0))
            · omega
        simp only [hcond, if_false, List.append_nil, Nat.add_zero]
        rw [fullBlocks_flatten]
    · -- sparse tail
      have hfit : Fit P.B f.data.length ((pairsOf P f true).map (·.1)) := by
        rw [pairsOf_fst]; simp only [if_true]
        have hdf : f.flags.dontFragment = false := by
          simp only [hasTailFrag, Bool.and_eq_true, Bool.not_eq_true'] at ht; exact ht.2
        have : dataBlocksOf P.B f = fullBlocks P.B f.data := by simp [dataBlocksOf, hdf]
        rw [this]; exact fit_with_tail P.B hB f.data
      have hr := read_after_blocks P hc σ f true (fun _ => hz) hfit
      simp only [if_true] at hr
      have hdf : f.flags.dontFragment = false := by
        simp only [hasTailFrag, Bool.and_eq_true, Bool.not_eq_true'] at ht; exact ht.2
      have hdb : dataBlocksOf P.B f = fullBlocks P.B f.data := by simp [dataBlocksOf, hdf]
      rw [hw, hr, pairsOf_fst]
      simp only [if_true, hdb, List.length_append, dataWords, List.length_map, fullBlocks_length, List.length_singleton]
      rw [List.flatten_append, fullBlocks_tail_single, take_all _ _ (length_lt_succ_mul P.B hB f.data.length)]
    · -- tail in a fragment: the words cover the full blocks
      have hdf : f.flags.dontFragment = false := by
        simp only [hasTailFrag, Bool.and_eq_true, Bool.not_eq_true'] at ht; exact ht.2
      have hdb : dataBlocksOf P.B f = fullBlocks P.B f.data := by simp [dataBlocksOf, hdf]
      have hfit : Fit P.B f.data.length ((pairsOf P f false).map (·.1)) := by
        rw [pairsOf_fst, hdb]; simpa using fullBlocks_fit P.B f.data
      have hr := read_after_blocks P hc σ f false (by simp) hfit
      simp only [Bool.false_eq_true, if_false, List.append_nil] at hr
      rw [hw, hr, pairsOf_fst, hdb]
      simp only [Bool.false_eq_true, if_false, List.append_nil, dataWords, List.length_map, hdb, fullBlocks_length]
      rw [fullBlocks_flatten]
  · rcases hshape with ⟨ht, hw, hfr, _⟩ | ⟨ht, _, hz, hw, hfr, _⟩ | ⟨ht, hw, ⟨i, o, hfr⟩, _⟩
    · rw [hfr, hw]
      simp only [dataWords, List.length_map, dataBlocksOf_length]
      split
      · exact length_lt_succ_mul P.B hB f.data.length
      · rename_i hcond
        have hr0 : f.data.length % P.B = 0 := by
          simp only [hasTailFrag, Bool.and_eq_false_iff] at ht
          simp only [Bool.and_eq_true, not_and] at hcond
          rcases ht with ht | ht
          · simpa using ht
          · simp only [Bool.not_eq_false'] at ht
            by_cases h0 : f.data.length % P.B > 0
            · exact absurd ht (by simpa using hcond (by simpa using h0))
            · omega
        have := Nat.div_add_mod f.data.length P.B
        have h2 : f.data.length / P.B * P.B = P.B * (f.data.length / P.B) := Nat.mul_comm _ _
        simp only [Nat.add_zero]
        omega
    · have hdf : f.flags.dontFragment = false := by
        simp only [hasTailFrag, Bool.and_eq_true, Bool.not_eq_true'] at ht; exact ht.2
      have hdb : dataBlocksOf P.B f = fullBlocks P.B f.data := by simp [dataBlocksOf, hdf]
      rw [hfr, hw]
      simp only [List.length_append, dataWords, List.length_map, hdb, fullBlocks_length, List.length_singleton]
      exact length_lt_succ_mul P.B hB f.data.length
    · have hdf : f.flags.dontFragment = false := by
        simp only [hasTailFrag, Bool.and_eq_true, Bool.not_eq_true'] at ht; exact ht.2
      have hdb : dataBlocksOf P.B f = fullBlocks P.B f.data := by simp [dataBlocksOf, hdf]
      rw [hfr, hw]
      simp only [dataWords, List.length_map, hdb, fullBlocks_length]
      rfl

/-! ## assembling the invariant -/

theorem cinv_afterBlocks (P : Params) (σ : State) (f : InFile) (hinv : CInv P σ) :
    Ext P σ (afterBlocks P σ f) ∧ CInv P (afterBlocks P σ f) := by
  have he := ext_hist P σ _ (afterBlocks_hist_prefix P σ f) hinv.1
  exact ⟨he, entriesIn_hist P σ _ (afterBlocks_hist_prefix P σ f) hinv.1, fun c hcm => (hinv.2 c hcm).ext he⟩

theorem packFile_ext (P : Params) (hc : P.codec.Ok) (σ : State) (f : InFile) (hinv : CInv P σ) :
    Ext P σ (packFile P σ f).1 := by
  by_cases hne : f.data = []
  · rw [packFile_empty P σ f hne]; exact Ext.refl P σ
  · have h1 := cinv_afterBlocks P σ f hinv
    rcases (packFile_cases P σ f hne).2.2 with ⟨h, _⟩ | ⟨i, o, _, _, hts⟩
    · rw [h]; exact h1.1
    · exact h1.1.trans (tailStep_ext hc hts h1.2.1).1

theorem content_step (P : Params) (hB : 0 < P.B) (hc : P.codec.Ok) (σ : State) (f : InFile) (hinv : CInv P σ) :
    CInv P (packFile P σ f).1 ∧ CGood P (packFile P σ f).1 f (packFile P σ f).2 := by
  by_cases hne : f.data = []
  · rw [packFile_empty P σ f hne]
    exact ⟨hinv, ⟨by simp [hne], by simp [readBlocks], by simp [diskBytes], by simp [hne]⟩⟩
  · have h1 := cinv_afterBlocks P σ f hinv
    obtain ⟨hblocks, hinside, hfrag⟩ := blocks_good P hB hc σ f hne
    have hsize := (packFile_shape P σ f hne _ rfl).1
    rcases (packFile_cases P σ f hne).2.2 with ⟨h, hfr⟩ | ⟨i, o, _, hfr, hts⟩
    · rw [h]
      refine ⟨h1.2, ⟨hsize, ?_, ?_, ?_⟩⟩
      · exact hblocks
      · exact hinside
      · rw [hfr] at hfrag ⊢; exact hfrag
    · have h2 := tailStep_tailOK hc hts h1.2
      have he := (tailStep_ext hc hts h1.2.1).1
      obtain ⟨ext, hext⟩ := areaOf_prefix he.1
      refine ⟨h2.2, ⟨hsize, ?_, ?_, ?_⟩⟩
      · rw [hext, readBlocks_ext _ _ _ _ _ _ _ _ (by rw [areaOf_length]; exact hinside)]
        exact hblocks
      · have := prefix_bytesOf_le he.1
        omega
      · rw [hfr] at hfrag ⊢
        simp only at hfrag ⊢
        rw [hfrag]
        exact ⟨h2.1, tailOf_length P.B f.data⟩

theorem content_mono (P : Params) (hc : P.codec.Ok) (σ : State) (f g : InFile) (r : FileResult) (hinv : CInv P σ)
    (hg : CGood P σ g r) : CGood P (packFile P σ f).1 g r :=
  hg.ext (packFile_ext P hc σ f hinv)

/-- closing the last open fragment block keeps every fragment block's bytes -/
theorem closeOpen_ext (P : Params) (hc : P.codec.Ok) (σ : State) (hin : EntriesIn P σ) : Ext P σ (closeOpen P σ) := by
  unfold closeOpen
  cases ho : σ.openFrag with
  | none => exact Ext.refl P σ
  | some fb =>
    refine ⟨List.prefix_append _ _, ?_⟩
    intro k blk hb
    unfold fragData at hb ⊢
    simp only at hb ⊢
    cases he : σ.frags[k]? with
    | some e =>
      have hlt : k < σ.frags.length := by
        rcases Nat.lt_or_ge k σ.frags.length with h | h
        · exact h
        · rw [List.getElem?_eq_none_iff.2 h] at he; cases he
      simp only [he] at hb
      rw [List.getElem?_append_left hlt, he]
      simp only
      refine ⟨blk, ?_, List.prefix_refl _⟩
      rw [areaOf_append, readAt_ext _ _ _ _ _ (by rw [areaOf_length]; exact hin e (List.mem_of_getElem? he))]
      exact hb
    | none =>
      simp only [he, ho, Option.map_some] at hb
      by_cases hk : k = σ.frags.length
      · simp only [hk, if_true, Option.some.injEq] at hb
        subst hb
        subst hk
        rw [List.getElem?_append_right (Nat.le_refl _)]
        simp only [Nat.sub_self, List.getElem?_cons_zero]
        refine ⟨fb.data, ?_, List.prefix_refl _⟩
        congr 1
        have hr : readAt P.base (areaOf (σ.hist ++ [workFragBlock P fb])) (P.base + bytesOf σ.hist)
            (workFragBlock P fb).data.length = (workFragBlock P fb).data := by
          have := readAt_mid P.base (areaOf σ.hist) (workFragBlock P fb).data []
          rw [areaOf_length] at this
          simpa [areaOf_append, areaOf_cons, areaOf_nil] using this
        rw [hr]
        exact decode_encode P hc _ _ _
      · simp [hk] at hb

theorem closeOpen_openFrag (P : Params) (σ : State) : (closeOpen P σ).openFrag = none := by
  unfold closeOpen
  cases ho : σ.openFrag <;> simp [ho]

/-- in a state without open block, `TailOK` is what `readFrag` computes -/
theorem readFrag_of_tailOK (P : Params) (σ : State) (hno : σ.openFrag = none) (k o : Nat) (t : Bytes)
    (h : TailOK P σ k o t) :
    readFrag P.codec P.base (areaOf σ.hist) σ.frags t.length (some (k, o)) = t := by
  obtain ⟨blk, hb, _, ht⟩ := h
  unfold fragData at hb
  unfold readFrag
  cases he : σ.frags[k]? with
  | some e =>
    simp only [he, Option.some.injEq] at hb ⊢
    rw [hb]; exact ht
  | none =>
    simp only [he, hno, Option.map_none] at hb
    split at hb <;> cases hb

/-- **Reading back.** -/
theorem readFile_specPack (P : Params) (hB : 0 < P.B) (hc : P.codec.Ok) (files : List InFile) (i : Nat) (h : i < files.length) :
    ∃ r, (specPack P files).files[i]? = some r ∧ readFile P (specPack P files) r = files[i].data := by
  have hinv0 : CInv P {} := ⟨fun e he => by simp at he, fun c hcm => by simp at hcm⟩
  have := packFiles_inv P (CInv P) (CGood P) (fun σ f hi => content_step P hB hc σ f hi)
    (fun σ f g r hi hg => content_mono P hc σ f g r hi hg) files {} hinv0
  obtain ⟨r, hr, hg⟩ := this.2 i h
  refine ⟨r, by rw [specPack_files]; exact hr, ?_⟩
  have hext := closeOpen_ext P hc _ this.1.1
  have hg' := hg.ext hext
  have hno := closeOpen_openFrag P (packFiles P {} files).1
  show readBlocks P.codec P.B P.base (areaOf (closeOpen P (packFiles P {} files).1).hist) r.start r.size r.words
      ++ readFrag P.codec P.base (areaOf (closeOpen P (packFiles P {} files).1).hist)
          (closeOpen P (packFiles P {} files).1).frags (r.size % P.B) r.frag = files[i].data
  rw [hg'.blocks]
  have hf := hg'.frag
  cases hfr : r.frag with
  | none =>
    simp only [hfr] at hf
    simp only [readFrag, List.append_nil]
    exact List.take_of_length_le hf
  | some p =>
    obtain ⟨k, o⟩ := p
    simp only [hfr] at hf
    have := readFrag_of_tailOK P _ hno k o _ hf.1
    rw [hf.2, ← hg'.size] at this
    rw [this]
    exact List.take_append_drop _ _

end Sqfs.Pack
