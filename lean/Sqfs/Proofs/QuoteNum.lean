/-
Helper lemmas for C16: `printf("%o"/"%u")` vs. `parse_uint(_oct)`, and glibc `makedev` vs. `major`/`minor`.
-/
import Sqfs.Model.Quote
import Mathlib.Tactic.IntervalCases
namespace Sqfs.Quote
open Sqfs.Path (Bytes)

/-! ### digits -/

theorem digit_ok : ∀ x, x < 10 →
    isDigit (UInt8.ofNat (48 + x)) = true ∧ (UInt8.ofNat (48 + x)).toNat - 48 = x := by decide

def AllDigit (s : Bytes) : Prop := ∀ c ∈ s, isDigit c = true

theorem digitsAux_form (base : Nat) (hb0 : 0 < base) (hb : base ≤ 10) :
    ∀ fuel n acc, 0 < fuel → ∃ ds, ds ≠ [] ∧ AllDigit ds ∧ digitsAux base fuel n acc = ds ++ acc := by
  intro fuel
  induction fuel with
  | zero => intro _ _ h; omega
  | succ f ih =>
    intro n acc _
    have hd : isDigit (UInt8.ofNat (48 + n % base)) = true :=
      (digit_ok (n % base) (by have := Nat.mod_lt n hb0; omega)).1
    simp only [digitsAux]
    split
    · exact ⟨[UInt8.ofNat (48 + n % base)], by simp, by intro c hc; rw [List.mem_singleton.1 hc]; exact hd, by simp⟩
    · cases f with
      | zero => exact ⟨[UInt8.ofNat (48 + n % base)], by simp, by intro c hc; rw [List.mem_singleton.1 hc]; exact hd, by simp [digitsAux]⟩
      | succ f' =>
        obtain ⟨ds, h1, h2, h3⟩ := ih (n / base) (UInt8.ofNat (48 + n % base) :: acc) (by omega)
        refine ⟨ds ++ [UInt8.ofNat (48 + n % base)], by simp, ?_, by rw [h3]; simp⟩
        intro c hc
        simp only [List.mem_append, List.mem_singleton] at hc
        rcases hc with hc | hc
        · exact h2 c hc
        · rw [hc]; exact hd

theorem printNat_form (base : Nat) (hb0 : 0 < base) (hb : base ≤ 10) (n : Nat) :
    printNat base n ≠ [] ∧ AllDigit (printNat base n) := by
  obtain ⟨ds, h1, h2, h3⟩ := digitsAux_form base hb0 hb (n + 1) n [] (by omega)
  unfold printNat
  rw [h3]
  simp only [List.append_nil]
  exact ⟨h1, h2⟩

/-- one step of `parse`'s digit loop on a digit below the base, far from overflow -/
theorem parseDigits_step (base : Nat) (hb : base = 8 ∨ base = 10) (x out : Nat) (hx : x < base)
    (ho : out < 2 ^ 40) (rest : Bytes) :
    parseDigits base (UInt8.ofNat (48 + x) :: rest) out = parseDigits base rest (out * base + x) := by
  have hx10 : x < 10 := by rcases hb with rfl | rfl <;> omega
  obtain ⟨h1, h2⟩ := digit_ok x hx10
  simp only [parseDigits, h1, if_true, h2]
  have a : ¬ (x ≥ base) := by omega
  have b : ¬ (out ≥ u64Max / base) := by rcases hb with rfl | rfl <;> simp [u64Max] <;> omega
  have c : ¬ (out * base > u64Max - x) := by rcases hb with rfl | rfl <;> simp [u64Max] <;> omega
  simp only [a, b, c, if_false]

theorem parseDigits_digitsAux (base : Nat) (hb : base = 8 ∨ base = 10) :
    ∀ n, n < 2 ^ 40 → ∀ fuel acc, n < fuel →
      parseDigits base (digitsAux base fuel n acc) 0 = parseDigits base acc n := by
  have hb2 : 2 ≤ base := by rcases hb with rfl | rfl <;> omega
  intro n
  induction n using Nat.strongRecOn with
  | _ n ih =>
    intro hn fuel acc hf
    obtain ⟨f, rfl⟩ : ∃ f, fuel = f + 1 := ⟨fuel - 1, by omega⟩
    simp only [digitsAux]
    have hmod : n % base < base := Nat.mod_lt n (by omega)
    split
    · rename_i h0
      have hlt : n < base := by
        rcases Nat.lt_or_ge n base with h | h
        · exact h
        · have : 0 < n / base := Nat.div_pos h (by omega)
          omega
      rw [Nat.mod_eq_of_lt hlt, parseDigits_step base hb n 0 hlt (by omega)]
      simp
    · rename_i h0
      have hpos : 0 < n := by
        rcases Nat.eq_zero_or_pos n with h | h
        · subst h; simp at h0
        · exact h
      have hdiv : n / base < n := Nat.div_lt_self hpos (by omega)
      rw [ih (n / base) hdiv (by omega) f _ (by omega)]
      rw [parseDigits_step base hb (n % base) (n / base) hmod (by omega)]
      have : n / base * base + n % base = n := by
        have := Nat.div_add_mod n base
        rw [Nat.mul_comm] at this
        exact this
      rw [this]

/-- `parse_uint`/`parse_uint_oct` read back what `%u`/`%o` printed, for values within the field's range -/
theorem parseNum_printNat (base : Nat) (hb : base = 8 ∨ base = 10) (vmax n : Nat) (hv : 0 < vmax) (hn : n ≤ vmax)
    (hsmall : n < 2 ^ 40) : parseNum base 0 vmax (printNat base n) = .ok n := by
  have hb0 : 0 < base := by rcases hb with rfl | rfl <;> omega
  have hb10 : base ≤ 10 := by rcases hb with rfl | rfl <;> omega
  obtain ⟨hne, hall⟩ := printNat_form base hb0 hb10 n
  unfold parseNum
  cases hp : printNat base n with
  | nil => exact absurd hp hne
  | cons c r =>
    have hc : isDigit c = true := hall c (by rw [hp]; simp)
    simp only [hc, Bool.not_true, Bool.false_eq_true, if_false]
    have := parseDigits_digitsAux base hb n hsmall (n + 1) [] (by omega)
    unfold printNat at hp
    rw [hp] at this
    rw [this]
    simp only [parseDigits]
    have h1 : ¬ (n > vmax) := by omega
    simp [hv, h1]

/-- the mode field: a literal `0` in front of the octal digits (`" 0%o"`) -/
theorem parseNum_zero_printNat (n : Nat) (hn : n ≤ 0o7777) :
    parseNum 8 0 0o7777 (48 :: printNat 8 n) = .ok n := by
  unfold parseNum
  have h48 : isDigit 48 = true := by decide
  simp only [h48, Bool.not_true, Bool.false_eq_true, if_false]
  have hs := parseDigits_step 8 (Or.inl rfl) 0 0 (by omega) (by omega) (printNat 8 n)
  have e : UInt8.ofNat (48 + 0) = (48 : UInt8) := by decide
  rw [e] at hs
  rw [hs]
  have := parseDigits_digitsAux 8 (Or.inl rfl) n (by omega) (n + 1) [] (by omega)
  unfold printNat
  simp only [Nat.zero_mul, Nat.add_zero]
  rw [this]
  simp only [parseDigits]
  have h1 : ¬ (n > 0o7777) := by omega
  simp [h1]

/-! ### device numbers -/

theorem m1 : (0x00000000000fff00 : Nat) = (2^12 - 1) <<< 8 := by decide
theorem m2 : (0xfffff00000000000 : Nat) = (2^20 - 1) <<< 44 := by decide
theorem m3 : (0x00000000000000ff : Nat) = 2^8 - 1 := by decide
theorem m4 : (0x00000ffffff00000 : Nat) = (2^24 - 1) <<< 20 := by decide
theorem m5 : (0x00000fff : Nat) = 2^12 - 1 := by decide
theorem m6 : (0xfffff000 : Nat) = (2^20 - 1) <<< 12 := by decide
theorem m7 : (0xffffff00 : Nat) = (2^24 - 1) <<< 8 := by decide

theorem testBit_hi {d : Nat} (h : d < 2 ^ 32) (j : Nat) (hj : 32 ≤ j) : d.testBit j = false :=
  Nat.testBit_lt_two_pow (Nat.lt_of_lt_of_le h (Nat.pow_le_pow_right (by omega) hj))

/-- glibc: `makedev(major(d), minor(d)) = d` for every 32-bit device number (bit-field by bit-field) -/
theorem makedev_major_minor (d : Nat) (h : d < 2 ^ 32) : makedev (devMajor d) (devMinor d) = d := by
  apply Nat.eq_of_testBit_eq
  intro i
  have hi := testBit_hi h
  unfold makedev devMajor devMinor
  rw [m1, m2, m3, m4, m5, m6, m7]
  simp only [Nat.testBit_or, Nat.testBit_and, Nat.testBit_shiftLeft, Nat.testBit_shiftRight,
    Nat.testBit_two_pow_sub_one]
  rcases Nat.lt_or_ge i 64 with h64 | h64
  · interval_cases i <;> simp [hi]
  · have a1 := hi (8 + (i - 8)) (by omega)
    have a2 := hi (32 + (i - 8)) (by omega)
    have a3 := hi (8 + (i - 32)) (by omega)
    have a4 := hi (32 + (i - 32)) (by omega)
    have a5 := hi i (by omega)
    have a6 := hi (12 + i) (by omega)
    have a7 := hi (i - 12) (by omega)
    have a8 := hi (12 + (i - 12)) (by omega)
    simp [a1, a2, a3, a4, a5, a6, a7, a8]

theorem devMajor_lt (d : Nat) (h : d < 2 ^ 32) : devMajor d < 2 ^ 32 := by
  apply Nat.lt_pow_two_of_testBit
  intro i hi32
  have hi := testBit_hi h
  unfold devMajor
  rw [m1, m2]
  simp only [Nat.testBit_or, Nat.testBit_and, Nat.testBit_shiftLeft, Nat.testBit_shiftRight,
    Nat.testBit_two_pow_sub_one]
  have a1 := hi (8 + i) (by omega)
  have a2 := hi (32 + i) (by omega)
  simp [a1, a2]

theorem devMinor_lt (d : Nat) (h : d < 2 ^ 32) : devMinor d < 2 ^ 32 := by
  apply Nat.lt_pow_two_of_testBit
  intro i hi32
  have hi := testBit_hi h
  unfold devMinor
  rw [m3, m4]
  simp only [Nat.testBit_or, Nat.testBit_and, Nat.testBit_shiftLeft, Nat.testBit_shiftRight,
    Nat.testBit_two_pow_sub_one]
  have a1 := hi i (by omega)
  have a2 := hi (12 + i) (by omega)
  simp [a1, a2]

end Sqfs.Quote
