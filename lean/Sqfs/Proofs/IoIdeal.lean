/-
Helper lemmas for C12: closed forms of the generic stream clients over the ideal window stream
(`sqfs_istream_read/skip/splice`, `record_to_memory`, `istream_get_line`): what they return is a function of the
file content and the position only — no buffer size, no chunking.
-/
import Sqfs.Proofs.IoStream
namespace Sqfs.IoLoops
open Sqfs.IoLoops.Spec

/-- the ideal window lies inside the file -/
def Iv (data : Bytes) (t : Ideal) : Prop := t.pos + t.avail ≤ data.length

theorem slice_length (data : Bytes) (pos n : Nat) (h : pos + n ≤ data.length) : (slice data pos n).length = n := by
  simp [slice]; omega

theorem slice_take (data : Bytes) (pos n k : Nat) (h : k ≤ n) : (slice data pos n).take k = slice data pos k := by
  simp [slice, List.take_take, Nat.min_eq_left h]

theorem slice_append (data : Bytes) (pos k n : Nat) (hk : k ≤ n) :
    slice data pos k ++ slice data (pos + k) (n - k) = slice data pos n := by
  simp only [slice]; exact take_drop_step data pos k n hk

/-- one `get` on the ideal stream, in closed form -/
theorem idealGet_facts (B : Nat) (hB : 0 < B) (data : Bytes) (t : Ideal) (want : Nat) (os : OS) (hi : Iv data t) :
    ∃ a, idealGet B data t want os = (if a = 0 then .eof else .ok, slice data t.pos a, ⟨t.pos, a⟩, os) ∧
      t.pos + a ≤ data.length ∧ (a = 0 → t.pos = data.length) ∧ (0 < want → a = 0 ∨ 0 < a) ∧
      (a ≤ B ∨ a = t.avail) := by
  unfold Iv at hi
  unfold idealGet
  simp only []
  generalize (if want > B then B else want) = w
  by_cases hc : t.avail = 0 ∨ t.avail < w
  · simp only [hc, if_true]
    exact ⟨min B (data.length - t.pos), rfl, by omega, fun h => by omega, fun _ => by omega, Or.inl (Nat.min_le_left _ _)⟩
  · simp only [hc, if_false]
    exact ⟨t.avail, rfl, hi, fun h0 => by omega, fun _ => by omega, Or.inr rfl⟩

theorem idealRead_closed (B : Nat) (hB : 0 < B) (data : Bytes) : ∀ (fuel : Nat) (t : Ideal) (size : Nat) (acc : Bytes) (os : OS),
    Iv data t → size < fuel →
    ∃ t', istreamReadLoop (idealStream B data) fuel t size acc os = (.n (acc ++ slice data t.pos size), t', os) ∧
      t'.pos = t.pos + min size (data.length - t.pos) ∧ Iv data t' := by
  intro fuel
  induction fuel with
  | zero => intro t size acc os _ h; omega
  | succ fuel ih =>
    intro t size acc os hi hf
    unfold istreamReadLoop
    by_cases h0 : size = 0
    · subst h0; exact ⟨t, by simp [slice], by simp, hi⟩
    · simp only [h0, if_false]
      obtain ⟨a, hg, ha1, ha2, ha3, _⟩ := idealGet_facts B hB data t size os hi
      have hg' : (idealStream B data).get t size os = idealGet B data t size os := rfl
      rw [hg', hg]
      by_cases hz : a = 0
      · subst hz
        simp only [if_true]
        have hp := ha2 rfl
        refine ⟨⟨t.pos, 0⟩, ?_, by simp; omega, by simp [Iv]; omega⟩
        have : slice data t.pos size = [] := by
          simp [slice, hp]
        rw [this]; simp
      · simp only [hz, if_false]
        have hl : (slice data t.pos a).length = a := slice_length data t.pos a ha1
        simp only [hl]
        generalize hd : (if a > size then size else a) = diff
        have hd1 : 0 < diff ∧ diff ≤ a ∧ diff ≤ size := by
          rw [← hd]; split <;> omega
        have hadv : (idealStream B data).adv ⟨t.pos, a⟩ diff = idealAdv ⟨t.pos, a⟩ diff := rfl
        have hpos : (idealAdv ⟨t.pos, a⟩ diff).pos = t.pos + diff ∧ Iv data (idealAdv ⟨t.pos, a⟩ diff) := by
          unfold idealAdv Iv
          dsimp only
          have := hl
          split
          · dsimp only; omega
          · dsimp only; omega
        obtain ⟨t', h', hp', hi'⟩ := ih (idealAdv ⟨t.pos, a⟩ diff) (size - diff) (acc ++ (slice data t.pos a).take diff) os
          hpos.2 (by omega)
        refine ⟨t', ?_, ?_, hi'⟩
        · rw [hadv, h', hpos.1, slice_take _ _ _ _ hd1.2.1, List.append_assoc, slice_append _ _ _ _ hd1.2.2]
        · rw [hp', hpos.1]; omega
/-- status of skipping `size` bytes when `left` bytes are left: running into the end of the data is an error -/
def skipRc (size left : Nat) : Err := if size ≤ left then .ok else .oob

theorem idealSkip_closed (B : Nat) (hB : 0 < B) (data : Bytes) : ∀ (fuel : Nat) (t : Ideal) (size : Nat) (os : OS),
    Iv data t → size < fuel →
    ∃ t', istreamSkipLoop (idealStream B data) fuel t size os = (skipRc size (data.length - t.pos), t', os) ∧
      t'.pos = t.pos + min size (data.length - t.pos) ∧ Iv data t' := by
  intro fuel
  induction fuel with
  | zero => intro t size os _ h; omega
  | succ fuel ih =>
    intro t size os hi hf
    unfold istreamSkipLoop
    by_cases h0 : size = 0
    · subst h0; exact ⟨t, by simp [skipRc], by simp, hi⟩
    · simp only [h0, if_false]
      obtain ⟨a, hg, ha1, ha2, ha3, _⟩ := idealGet_facts B hB data t size os hi
      have hg' : (idealStream B data).get t size os = idealGet B data t size os := rfl
      rw [hg', hg]
      by_cases hz : a = 0
      · subst hz
        simp only [if_true]
        have hp := ha2 rfl
        have hrc : skipRc size (data.length - t.pos) = .oob := by
          simp only [skipRc]; rw [if_neg]; omega
        exact ⟨⟨t.pos, 0⟩, by rw [hrc], by simp; omega, by simp [Iv]; omega⟩
      · simp only [hz, if_false]
        have hl : (slice data t.pos a).length = a := slice_length data t.pos a ha1
        simp only [hl]
        generalize hd : (if a > size then size else a) = diff
        have hd1 : 0 < diff ∧ diff ≤ a ∧ diff ≤ size := by
          rw [← hd]; split <;> omega
        have hadv : (idealStream B data).adv ⟨t.pos, a⟩ diff = idealAdv ⟨t.pos, a⟩ diff := rfl
        have hpos : (idealAdv ⟨t.pos, a⟩ diff).pos = t.pos + diff ∧ Iv data (idealAdv ⟨t.pos, a⟩ diff) := by
          unfold idealAdv Iv
          dsimp only
          split
          · dsimp only; omega
          · dsimp only; omega
        obtain ⟨t', h', hp', hi'⟩ := ih (idealAdv ⟨t.pos, a⟩ diff) (size - diff) os hpos.2 (by omega)
        refine ⟨t', ?_, ?_, hi'⟩
        · rw [hadv, h', hpos.1]
          have : skipRc (size - diff) (data.length - (t.pos + diff)) = skipRc size (data.length - t.pos) := by
            simp only [skipRc]
            have : (size - diff ≤ data.length - (t.pos + diff)) ↔ (size ≤ data.length - t.pos) := by omega
            simp only [this]
          rw [this]
        · rw [hp', hpos.1]; omega

theorem appendRes_nosparse (o : OStream) (d : Bytes) (ho : o.sparse = 0) (hk : o.skew = 0) (hd : d.length ≠ 0) :
    appendRes o d = { o with out := o.out ++ d, size := o.size + d.length } := by
  have hr : realizeRes o = o := by simp [realizeRes, ho]
  simp only [appendRes, stepRes, hd, if_false, hr]
  exact wrRes_skew0 o d hk

theorem idealSplice_closed (B : Nat) (hB : 0 < B) (data : Bytes) : ∀ (fuel : Nat) (t : Ideal) (o : OStream) (size total : Nat)
    (os : OS), Iv data t → size < fuel → o.sparse = 0 → o.skew = 0 → noHard os.sc = true →
    ∃ t' o' os', istreamSpliceLoop (idealStream B data) fuel t o size total os =
        ((.ok, total + min size (data.length - t.pos)), t', o', os') ∧
      o'.out = o.out ++ slice data t.pos size ∧ (o'.sparse = 0 ∧ o'.skew = 0) ∧
      t'.pos = t.pos + min size (data.length - t.pos) ∧ Iv data t' ∧ noHard os'.sc = true := by
  intro fuel
  induction fuel with
  | zero => intro t o size total os _ h; omega
  | succ fuel ih =>
    intro t o size total os hi hf ho hk hn
    unfold istreamSpliceLoop
    by_cases h0 : size = 0
    · subst h0; exact ⟨t, o, os, by simp, by simp [slice], ⟨ho, hk⟩, by simp, hi, hn⟩
    · simp only [h0, if_false]
      obtain ⟨a, hg, ha1, ha2, ha3, _⟩ := idealGet_facts B hB data t size os hi
      have hg' : (idealStream B data).get t size os = idealGet B data t size os := rfl
      rw [hg', hg]
      by_cases hz : a = 0
      · subst hz
        simp only [if_true]
        have hp := ha2 rfl
        refine ⟨⟨t.pos, 0⟩, o, os, ?_, ?_, ⟨ho, hk⟩, by simp; omega, by simp [Iv]; omega, hn⟩
        · have : min size (data.length - t.pos) = 0 := by omega
          rw [this]; rfl
        · simp [slice, hp]
      · simp only [hz, if_false]
        have hl : (slice data t.pos a).length = a := slice_length data t.pos a ha1
        simp only [hl]
        generalize hd : (if a > size then size else a) = diff
        have hd1 : 0 < diff ∧ diff ≤ a ∧ diff ≤ size := by
          rw [← hd]; split <;> omega
        have hadv : (idealStream B data).adv ⟨t.pos, a⟩ diff = idealAdv ⟨t.pos, a⟩ diff := rfl
        have hpos : (idealAdv ⟨t.pos, a⟩ diff).pos = t.pos + diff ∧ Iv data (idealAdv ⟨t.pos, a⟩ diff) := by
          unfold idealAdv Iv
          dsimp only
          split
          · dsimp only; omega
          · dsimp only; omega
        have htk : (slice data t.pos a).take diff = slice data t.pos diff := slice_take _ _ _ _ hd1.2.1
        have hlen : (slice data t.pos diff).length = diff := slice_length _ _ _ (by omega)
        rw [htk]
        obtain ⟨os1, ha, hn1⟩ := fileAppend_det o (slice data t.pos diff) diff hlen.symm os hn
        rw [ha, appendRes_nosparse o _ ho hk (by omega)]
        simp only []
        obtain ⟨t', o', os', h', ho1, ho2, hp', hi', hn'⟩ := ih (idealAdv ⟨t.pos, a⟩ diff)
          { o with out := o.out ++ slice data t.pos diff, size := o.size + (slice data t.pos diff).length }
          (size - diff) (total + diff) os1 hpos.2 (by omega) ho hk hn1
        refine ⟨t', o', os', ?_, ?_, ho2, ?_, hi', hn'⟩
        · rw [hadv, h', hpos.1]
          have : total + diff + min (size - diff) (data.length - (t.pos + diff)) = total + min size (data.length - t.pos) := by
            omega
          rw [this]
        · rw [ho1, hpos.1]
          simp only [List.append_assoc, slice_append _ _ _ _ hd1.2.2]
        · rw [hp', hpos.1]; omega

/-- the position of the stream after `record_to_memory(size)`: behind the record and its padding to a multiple of
512 (as far as the data reaches); when the record is cut short, behind what `sqfs_istream_read` consumed -/
def recordEnd (len pos size : Nat) : Nat :=
  if pos + size ≤ len ∧ size ≤ 0x7FFFFFFF then
    (if size % 512 ≠ 0 then pos + size + min (512 - size % 512) (len - (pos + size)) else pos + size)
  else pos + min (min size 0x7FFFFFFF) (len - pos)

theorem idealRecord_closed (B : Nat) (hB : 0 < B) (data : Bytes) (t : Ideal) (size : Nat) (os : OS) (hi : Iv data t) :
    (recordToMemory (idealStream B data) t size os).1 =
      (if t.pos + size ≤ data.length ∧ size ≤ 0x7FFFFFFF ∧
          (size % 512 = 0 ∨ t.pos + size + (512 - size % 512) ≤ data.length)
        then some (slice data t.pos size) else none) ∧
    (recordToMemory (idealStream B data) t size os).2.2 = os ∧
    Iv data (recordToMemory (idealStream B data) t size os).2.1 ∧
    (recordToMemory (idealStream B data) t size os).2.1.pos = recordEnd data.length t.pos size := by
  unfold recordToMemory istreamRead
  simp only []
  generalize hsz : (if size > 0x7FFFFFFF then 0x7FFFFFFF else size) = sz
  have hszm : sz = min size 0x7FFFFFFF := by rw [← hsz]; split <;> omega
  obtain ⟨t1, h1, hp1, hi1⟩ := idealRead_closed B hB data (sz + 1) t sz [] os hi (by omega)
  rw [h1]
  simp only [List.nil_append]
  have hi0 := hi
  unfold Iv at hi
  have hlen : (slice data t.pos sz).length = min sz (data.length - t.pos) := by
    simp [slice]
  by_cases hd : (slice data t.pos sz).length < size
  · simp only [hd, if_true]
    have hneg : ¬ (t.pos + size ≤ data.length ∧ size ≤ 0x7FFFFFFF) := by
      intro ⟨h1, h2⟩
      omega
    have hneg' : ¬ (t.pos + size ≤ data.length ∧ size ≤ 0x7FFFFFFF ∧
        (size % 512 = 0 ∨ t.pos + size + (512 - size % 512) ≤ data.length)) := fun h => hneg ⟨h.1, h.2.1⟩
    refine ⟨by rw [if_neg hneg'], trivial, hi1, ?_⟩
    simp only [recordEnd, if_neg hneg, hp1, hszm]
  · simp only [hd, if_false]
    have hsz' : sz = size := by
      by_cases h : size > 0x7FFFFFFF
      · rw [if_pos h] at hsz; omega
      · rw [if_neg h] at hsz; exact hsz.symm
    subst hsz'
    have hcond : t.pos + sz ≤ data.length ∧ sz ≤ 0x7FFFFFFF := by
      constructor
      · omega
      · by_cases h : sz > 0x7FFFFFFF
        · simp only [h, if_true] at hsz; omega
        · omega
    have hp1' : t1.pos = t.pos + sz := by rw [hp1]; omega
    by_cases hp : sz % 512 ≠ 0
    · simp only [if_pos hp]
      unfold istreamSkip
      obtain ⟨t2, h2, hp2, hi2⟩ := idealSkip_closed B hB data (512 - sz % 512 + 1) t1 (512 - sz % 512) os hi1 (by omega)
      rw [h2]
      by_cases hfit : t.pos + sz + (512 - sz % 512) ≤ data.length
      · have hrc : skipRc (512 - sz % 512) (data.length - t1.pos) = .ok := by
          simp only [skipRc]; rw [if_pos]; omega
        rw [hrc]
        refine ⟨by rw [if_pos ⟨hcond.1, hcond.2, Or.inr hfit⟩], rfl, hi2, ?_⟩
        simp only [recordEnd, if_pos hcond, if_pos hp, hp2, hp1']
      · have hrc : skipRc (512 - sz % 512) (data.length - t1.pos) = .oob := by
          simp only [skipRc]; rw [if_neg]; omega
        rw [hrc]
        have hneg : ¬ (t.pos + sz ≤ data.length ∧ sz ≤ 0x7FFFFFFF ∧
            (sz % 512 = 0 ∨ t.pos + sz + (512 - sz % 512) ≤ data.length)) := by
          intro ⟨_, _, h3⟩
          rcases h3 with h3 | h3
          · exact hp h3
          · exact hfit h3
        refine ⟨by rw [if_neg hneg], rfl, hi2, ?_⟩
        simp only [recordEnd, if_pos hcond, if_pos hp, hp2, hp1']
    · simp only [if_neg hp]
      have hp' : sz % 512 = 0 := by omega
      refine ⟨by rw [if_pos ⟨hcond.1, hcond.2, Or.inl hp'⟩], trivial, hi1, ?_⟩
      simp only [recordEnd, if_pos hcond, if_neg hp, hp1']

theorem findNl_le (w : Bytes) : findNl w ≤ w.length := by
  induction w with
  | nil => simp [findNl]
  | cons c t ih => unfold findNl; split <;> simp <;> omega

/-- scanning a newline-free prefix only extends the collected line -/
theorem nextLineAux_prefix (flags : Nat) : ∀ (pre cur r : Bytes) (ln : Nat), (∀ c ∈ pre, c ≠ 10) →
    nextLineAux flags cur (pre ++ r) ln = nextLineAux flags (cur ++ pre) r ln := by
  intro pre
  induction pre with
  | nil => intro cur r ln _; simp
  | cons c t ih =>
    intro cur r ln h
    have hc : c ≠ 10 := h c (by simp)
    simp only [List.cons_append, nextLineAux, hc, if_false]
    rw [ih (cur ++ [c]) r ln (fun x hx => h x (by simp [hx]))]
    simp

theorem findNl_spec : ∀ (w : Bytes), (∀ c ∈ w.take (findNl w), c ≠ 10) ∧
    (findNl w < w.length → w = w.take (findNl w) ++ 10 :: w.drop (findNl w + 1)) := by
  intro w
  induction w with
  | nil => simp [findNl]
  | cons c t ih =>
    unfold findNl
    by_cases hc : c = 10
    · simp [hc]
    · simp only [hc, if_false]
      obtain ⟨h1, h2⟩ := ih
      constructor
      · intro x hx
        simp only [List.take_succ_cons, List.mem_cons] at hx
        rcases hx with rfl | hx
        · exact hc
        · exact h1 x hx
      · intro hlt
        simp only [List.length_cons] at hlt
        have := h2 (by omega)
        simp only [List.take_succ_cons, List.drop_succ_cons, List.cons_append]
        congr 1

def lineRetOf : Option Bytes → LineRet
  | none => .eof
  | some l => .line l

theorem slice_drop (data : Bytes) (pos a : Nat) : data.drop pos = slice data pos a ++ data.drop (pos + a) := by
  simp only [slice]
  rw [← List.drop_drop, List.take_append_drop]

theorem idealGetLine_closed (B : Nat) (hB : 0 < B) (data : Bytes) (flags : Nat) :
    ∀ (fuel : Nat) (t : Ideal) (acc : Bytes) (ln : Nat) (os : OS), Iv data t → data.length - t.pos + 1 < fuel →
    ∃ t', getLineLoop (idealStream B data) flags fuel t acc ln os =
        (lineRetOf (nextLineAux flags acc (data.drop t.pos) ln).1, t', (nextLineAux flags acc (data.drop t.pos) ln).2.2, os) ∧
      data.drop t'.pos = (nextLineAux flags acc (data.drop t.pos) ln).2.1 ∧ Iv data t' := by
  intro fuel
  induction fuel with
  | zero => intro t acc ln os _ h; omega
  | succ fuel ih =>
    intro t acc ln os hi hf
    unfold getLineLoop
    obtain ⟨a, hg, ha1, ha2, _, _⟩ := idealGet_facts B hB data t 0 os hi
    have hg' : (idealStream B data).get t 0 os = idealGet B data t 0 os := rfl
    rw [hg', hg]
    by_cases hz : a = 0
    · subst hz
      have hp := ha2 rfl
      have hrest : data.drop t.pos = [] := by rw [hp]; simp
      simp only [if_true, hrest, nextLineAux]
      refine ⟨⟨t.pos, 0⟩, ?_, by simp only [hp, List.drop_length]; split <;> (try split) <;> rfl, by simp [Iv]; omega⟩
      by_cases hacc : acc.length = 0
      · simp [hacc, lineRetOf]
      · simp only [hacc, if_false]
        split <;> simp [lineRetOf]
    · simp only [hz, if_false]
      have hl : (slice data t.pos a).length = a := slice_length data t.pos a ha1
      have hsplit := slice_drop data t.pos a
      obtain ⟨hn1, hn2⟩ := findNl_spec (slice data t.pos a)
      have hle := findNl_le (slice data t.pos a)
      generalize hw : slice data t.pos a = w at *
      generalize hi0 : findNl w = i at *
      have hadv : ∀ n, (idealStream B data).adv ⟨t.pos, a⟩ n = idealAdv ⟨t.pos, a⟩ n := fun _ => rfl
      by_cases hlt : i < w.length
      · simp only [hlt, if_true]
        have hwd := hn2 hlt
        have hpos : (idealAdv ⟨t.pos, a⟩ (i + 1)).pos = t.pos + (i + 1) ∧ Iv data (idealAdv ⟨t.pos, a⟩ (i + 1)) := by
          unfold idealAdv Iv
          dsimp only
          split
          · dsimp only; omega
          · dsimp only; omega
        have hrest : data.drop t.pos = w.take i ++ 10 :: data.drop (t.pos + (i + 1)) := by
          rw [hsplit]
          conv => lhs; rw [hwd]
          simp only [List.append_assoc, List.cons_append]
          congr 2
          have : data.drop (t.pos + (i + 1)) = (w ++ data.drop (t.pos + a)).drop (i + 1) := by
            rw [← hsplit, List.drop_drop]
          rw [this, List.drop_append_of_le_length (by omega)]
        rw [hrest, nextLineAux_prefix flags _ acc _ ln hn1]
        simp only [nextLineAux, if_true]
        by_cases hacc : (trimFlags flags (stripCr (acc ++ w.take i))).length > 0 ∨ (!skipEmpty flags) = true
        · simp only [hacc, if_true]
          exact ⟨_, by rw [hadv]; rfl, by rw [hpos.1], hpos.2⟩
        · simp only [hacc, if_false]
          obtain ⟨t', h', hd', hi'⟩ := ih (idealAdv ⟨t.pos, a⟩ (i + 1)) [] (ln + 1) os hpos.2 (by rw [hpos.1]; omega)
          rw [hpos.1] at h' hd'
          exact ⟨t', by rw [hadv]; exact h', hd', hi'⟩
      · simp only [hlt, if_false]
        have hia : i = w.length := by omega
        have hpos : (idealAdv ⟨t.pos, a⟩ i).pos = t.pos + a ∧ Iv data (idealAdv ⟨t.pos, a⟩ i) := by
          unfold idealAdv Iv
          dsimp only
          split
          · omega
          · dsimp only; omega
        have htk : w.take i = w := by rw [hia]; exact List.take_length
        rw [htk] at hn1 ⊢
        rw [hsplit, nextLineAux_prefix flags w acc _ ln hn1]
        obtain ⟨t', h', hd', hi'⟩ := ih (idealAdv ⟨t.pos, a⟩ i) (acc ++ w) ln os hpos.2 (by rw [hpos.1]; omega)
        rw [hpos.1] at h' hd'
        exact ⟨t', by rw [hadv]; exact h', hd', hi'⟩

end Sqfs.IoLoops
