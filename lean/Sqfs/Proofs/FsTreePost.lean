/-
C11, post-processing: the result of `fstree_resolve_hard_links` (and therefore inode numbering and file list) does not
depend on the order of the `links_unresolved` list, for the links a directory scan produces (every pending link points to
an existing node that is neither a directory nor itself a hard link: the hard-link filter only hands out primary names).
-/
import Sqfs.Proofs.FsTreeLemmas

namespace Sqfs.FsTree

/-! ### `modifyAt` on diverging paths -/

/-- the two paths part ways at some component -/
inductive Diverge : Path → Path → Prop
  | here {a b : Name} {p q : Path} : a ≠ b → Diverge (a :: p) (b :: q)
  | there {a : Name} {p q : Path} : Diverge p q → Diverge (a :: p) (a :: q)

theorem Diverge.symm {p q : Path} (h : Diverge p q) : Diverge q p := by
  induction h with
  | here h => exact Diverge.here (Ne.symm h)
  | there _ ih => exact Diverge.there ih

def NamePres (f : TNode → TNode) : Prop := ∀ x, (f x).name = x.name

theorem modifyAt_nil (f : TNode → TNode) (t : TNode) : modifyAt f [] t = f t := rfl

theorem modifyAt_cons (f : TNode → TNode) (n : Name) (p : Path) (t : TNode) :
    modifyAt f (n :: p) t = match childByName t.children n with
      | some c => .mk t.name t.attr (replaceChild (modifyAt f p c) t.children)
      | none => t := rfl

theorem modifyAt_name {f : TNode → TNode} (hf : NamePres f) (p : Path) (t : TNode) : (modifyAt f p t).name = t.name := by
  cases p with
  | nil => exact hf t
  | cons n p => rw [modifyAt_cons]; split <;> rfl

theorem lookup_modifyAt_diverge {f : TNode → TNode} (hf : NamePres f) {p q : Path} (h : Diverge p q) (t : TNode) :
    lookup (modifyAt f p t) q = lookup t q := by
  induction h generalizing t with
  | @here a b p q hab =>
    rw [modifyAt_cons]
    cases hc : childByName t.children a with
    | none => rfl
    | some ca =>
      have hX : (modifyAt f p ca).name = a := by rw [modifyAt_name hf, childByName_some_name hc]
      simp only [lookup_cons, TNode.isDir, TNode.attr_mk, TNode.children_mk,
        childByName_replaceChild_ne _ _ b (show b ≠ (modifyAt f p ca).name by rw [hX]; exact Ne.symm hab)]
      rfl
  | @there a p q _ ih =>
    rw [modifyAt_cons]
    cases hc : childByName t.children a with
    | none => rfl
    | some ca =>
      have hX : (modifyAt f p ca).name = a := by rw [modifyAt_name hf, childByName_some_name hc]
      have h1 : childByName (replaceChild (modifyAt f p ca) t.children) a = some (modifyAt f p ca) := by
        have := childByName_replaceChild_self (modifyAt f p ca) t.children ca (by rw [hX]; exact hc)
        rwa [hX] at this
      simp only [lookup_cons, TNode.isDir, TNode.attr_mk, TNode.children_mk, h1, hc, ih ca]

theorem lookup_modifyAt_self {f : TNode → TNode} (hf : NamePres f) {p : Path} {t x : TNode} (h : lookup t p = some x) :
    lookup (modifyAt f p t) p = some (f x) := by
  induction p generalizing t with
  | nil => simp only [lookup] at h; cases h; rfl
  | cons n p ih =>
    rw [lookup_cons] at h
    split at h
    · cases h
    · rename_i hdir
      split at h
      · rename_i c hc
        have hX : (modifyAt f p c).name = n := by rw [modifyAt_name hf, childByName_some_name hc]
        have h1 : childByName (replaceChild (modifyAt f p c) t.children) n = some (modifyAt f p c) := by
          have := childByName_replaceChild_self (modifyAt f p c) t.children c (by rw [hX]; exact hc)
          rwa [hX] at this
        rw [modifyAt_cons, hc, lookup_cons]
        simp only [TNode.isDir, TNode.attr_mk, TNode.children_mk] at hdir ⊢
        simp only [hdir, h1]
        exact ih h
      · cases h

theorem modifyAt_comm_diverge {f g : TNode → TNode} (hf : NamePres f) (hg : NamePres g) {p q : Path} (h : Diverge p q)
    (t : TNode) : modifyAt f p (modifyAt g q t) = modifyAt g q (modifyAt f p t) := by
  induction h generalizing t with
  | @here a b p q hab =>
    cases hcb : childByName t.children b with
    | none =>
      have e1 : modifyAt g (b :: q) t = t := by rw [modifyAt_cons, hcb]
      rw [e1]
      cases hca : childByName t.children a with
      | none =>
        have e2 : modifyAt f (a :: p) t = t := by rw [modifyAt_cons, hca]
        rw [e2, e1]
      | some ca =>
        have hX : (modifyAt f p ca).name = a := by rw [modifyAt_name hf, childByName_some_name hca]
        rw [modifyAt_cons f, hca]
        rw [modifyAt_cons g]
        simp only [TNode.children_mk]
        rw [childByName_replaceChild_ne _ _ b (by rw [hX]; exact Ne.symm hab), hcb]
    | some cb =>
      have hY : (modifyAt g q cb).name = b := by rw [modifyAt_name hg, childByName_some_name hcb]
      cases hca : childByName t.children a with
      | none =>
        have e2 : modifyAt f (a :: p) t = t := by rw [modifyAt_cons, hca]
        rw [e2, modifyAt_cons g, hcb, modifyAt_cons f]
        simp only [TNode.children_mk]
        rw [childByName_replaceChild_ne _ _ a (by rw [hY]; exact hab), hca]
      | some ca =>
        have hX : (modifyAt f p ca).name = a := by rw [modifyAt_name hf, childByName_some_name hca]
        rw [modifyAt_cons g (b) q t, hcb, modifyAt_cons f a p t, hca, modifyAt_cons f, modifyAt_cons g]
        simp only [TNode.children_mk, TNode.name_mk, TNode.attr_mk]
        rw [childByName_replaceChild_ne _ _ a (by rw [hY]; exact hab), hca,
            childByName_replaceChild_ne _ _ b (by rw [hX]; exact Ne.symm hab), hcb]
        simp only
        rw [replaceChild_comm _ _ _ (by rw [hX, hY]; exact hab)]
  | @there a p q _ ih =>
    cases hca : childByName t.children a with
    | none =>
      have e1 : modifyAt g (a :: q) t = t := by rw [modifyAt_cons, hca]
      have e2 : modifyAt f (a :: p) t = t := by rw [modifyAt_cons, hca]
      rw [e1, e2, e1]
    | some ca =>
      have hX : (modifyAt f p ca).name = a := by rw [modifyAt_name hf, childByName_some_name hca]
      have hY : (modifyAt g q ca).name = a := by rw [modifyAt_name hg, childByName_some_name hca]
      have h1 : childByName (replaceChild (modifyAt g q ca) t.children) a = some (modifyAt g q ca) := by
        have := childByName_replaceChild_self (modifyAt g q ca) t.children ca (by rw [hY]; exact hca)
        rwa [hY] at this
      have h2 : childByName (replaceChild (modifyAt f p ca) t.children) a = some (modifyAt f p ca) := by
        have := childByName_replaceChild_self (modifyAt f p ca) t.children ca (by rw [hX]; exact hca)
        rwa [hX] at this
      rw [modifyAt_cons g a q t, hca, modifyAt_cons f a p t, hca, modifyAt_cons f, modifyAt_cons g]
      simp only [TNode.children_mk, TNode.name_mk, TNode.attr_mk, h1, h2]
      rw [replaceChild_replaceChild_same _ _ _ (by rw [modifyAt_name hf, hY]),
          replaceChild_replaceChild_same _ _ _ (by rw [modifyAt_name hg, hX]), ih ca]

/-- two different paths that both lead to non-directories part ways somewhere -/
theorem diverge_of_leaves {t x y : TNode} {p q : Path} (hp : lookup t p = some x) (hq : lookup t q = some y)
    (hx : x.isDir = false) (hy : y.isDir = false) (hne : p ≠ q) : Diverge p q := by
  induction p generalizing t q with
  | nil =>
    simp only [lookup] at hp; cases hp
    cases q with
    | nil => exact absurd rfl hne
    | cons b q => rw [lookup_cons] at hq; simp [hx] at hq
  | cons a p ih =>
    cases q with
    | nil =>
      simp only [lookup] at hq; cases hq
      rw [lookup_cons] at hp; simp [hy] at hp
    | cons b q =>
      by_cases hab : a = b
      · subst hab
        rw [lookup_cons] at hp hq
        split at hp
        · cases hp
        · split at hp
          · rename_i c hc
            simp only [hc] at hq
            split at hq
            · cases hq
            · exact Diverge.there (ih hp hq (fun e => hne (by rw [e])))
          · cases hp
      · exact Diverge.here hab

/-! ### resolving flat links -/

/-- where a hard-link node points, before or after it has been resolved -/
def linkTargetOf (n : TNode) : Option Path :=
  match n.attr.extra with
  | .link t none => some t
  | .link _ (some r) => some r
  | _ => none

/-- the pending link at `p` points to `tp`, an existing node that is neither a directory nor a hard link -/
def FlatAt (root : TNode) (p tp : Path) : Prop :=
  ∃ n tn, lookup root p = some n ∧ n.isHardLink = true ∧ linkTargetOf n = some tp ∧
    lookup root tp = some tn ∧ tn.isHardLink = false ∧ tn.isDir = false

/-- what the hard-link filter produces: every pending link names a primary entry -/
def FlatLinks (root : TNode) (links : List Path) : Prop := ∀ p ∈ links, ∃ tp, FlatAt root p tp

theorem isHardLink_not_dir {n : TNode} (h : n.isHardLink = true) : n.isDir = false := by
  simp only [TNode.isHardLink, Bool.and_eq_true, isType, beq_iff_eq] at h
  simp only [TNode.isDir, isDirMode, isType, h.1]
  decide

theorem namePres_bump : NamePres bumpLinkCount := by intro x; cases x; rfl

theorem namePres_setResolved (tp : Path) : NamePres (setResolved tp) := by
  intro x; obtain ⟨n, a, cs⟩ := x
  simp only [setResolved]
  split <;> rfl

theorem bump_props (x : TNode) : (bumpLinkCount x).isHardLink = x.isHardLink ∧ (bumpLinkCount x).isDir = x.isDir ∧
    (bumpLinkCount x).attr.linkCount = x.attr.linkCount + 1 := by
  cases x; exact ⟨rfl, rfl, rfl⟩

theorem setResolved_props (tp : Path) (x : TNode) (t : Path) (ht : linkTargetOf x = some t) :
    (setResolved tp x).isHardLink = x.isHardLink ∧ linkTargetOf (setResolved tp x) = some tp := by
  obtain ⟨n, a, cs⟩ := x
  simp only [linkTargetOf, TNode.attr_mk] at ht
  simp only [setResolved]
  split
  · exact ⟨rfl, rfl⟩
  · rename_i hne
    exfalso
    cases he : a.extra with
    | none => simp [he] at ht
    | str s => simp [he] at ht
    | link a b => exact hne a b he

/-- the effect of resolving the link at `p` to `tp` -/
def resolveEffect (root : TNode) (p tp : Path) : TNode :=
  modifyAt bumpLinkCount tp (modifyAt (setResolved tp) p root)

def lcAt (root : TNode) (tp : Path) : Option Nat := (lookup root tp).map (fun n => n.attr.linkCount)

theorem flat_ne {root : TNode} {p tp : Path} (h : FlatAt root p tp) : p ≠ tp := by
  obtain ⟨n, tn, hp, hn, _, htp, hnh, _⟩ := h
  intro e; subst e
  rw [hp] at htp; cases htp
  rw [hn] at hnh; cases hnh

theorem resolveLink_flat {root : TNode} {p tp : Path} (h : FlatAt root p tp) (fuel : Nat) :
    resolveLink root (fuel + 1) p =
      if lcAt root tp = some 0xFFFFFFFF then none else some (resolveEffect root p tp) := by
  have hne := flat_ne h
  obtain ⟨n, tn, hp, hn, ht, htp, hnh, hnd⟩ := h
  have hfollow : followLink root p (fuel + 1) p = some tp := by
    have hne' : ¬ tp = p := fun e => hne e.symm
    simp only [linkTargetOf] at ht
    cases he : n.attr.extra with
    | none => simp [he] at ht
    | str s => simp [he] at ht
    | link t r =>
      cases r with
      | none =>
        simp only [he] at ht; cases ht
        simp [followLink, hp, hn, he, htp, hne', hnh]
      | some r =>
        simp only [he] at ht; cases ht
        simp [followLink, hp, hn, he, htp, hne', hnh]
  simp only [resolveLink, hfollow, htp, hnd, Bool.false_eq_true, if_false, lcAt, Option.map_some, Option.some.injEq,
    resolveEffect]

/-- all paths involved are pairwise diverging unless equal -/
theorem flat_diverge {root : TNode} {p tp q tq : Path} (hp : FlatAt root p tp) (hq : FlatAt root q tq) :
    Diverge p tp ∧ Diverge p tq ∧ Diverge q tp ∧ (p ≠ q → Diverge p q) ∧ (tp ≠ tq → Diverge tp tq) := by
  obtain ⟨n, tn, h1, h2, _, h4, h5, h6⟩ := hp
  obtain ⟨m, tm, g1, g2, _, g4, g5, g6⟩ := hq
  have hn := isHardLink_not_dir h2
  have hm := isHardLink_not_dir g2
  refine ⟨diverge_of_leaves h1 h4 hn h6 ?_, diverge_of_leaves h1 g4 hn g6 ?_, diverge_of_leaves g1 h4 hm h6 ?_,
    fun hne => diverge_of_leaves h1 g1 hn hm hne, fun hne => diverge_of_leaves h4 g4 h6 g6 hne⟩
  · intro e; subst e; rw [h1] at h4; cases h4; rw [h2] at h5; cases h5
  · intro e; subst e; rw [h1] at g4; cases g4; rw [h2] at g5; cases g5
  · intro e; subst e; rw [g1] at h4; cases h4; rw [g2] at h5; cases h5

/-- resolving `p` leaves every other pending link flat, and bumps the link count of its own target only -/
theorem flat_step {root : TNode} {p tp q tq : Path} (hp : FlatAt root p tp) (hq : FlatAt root q tq) :
    FlatAt (resolveEffect root p tp) q tq ∧
    lcAt (resolveEffect root p tp) tq = if tq = tp then (lcAt root tq).map (· + 1) else lcAt root tq := by
  obtain ⟨d1, d2, d3, d4, d5⟩ := flat_diverge hp hq
  obtain ⟨n, tn, h1, h2, h3, h4, h5, h6⟩ := hp
  obtain ⟨m, tm, g1, g2, g3, g4, g5, g6⟩ := hq
  have hb := namePres_bump
  have hs := namePres_setResolved tp
  -- the node at q after the step
  have lq : ∃ m', lookup (resolveEffect root p tp) q = some m' ∧ m'.isHardLink = true ∧ linkTargetOf m' = some tq := by
    by_cases hpq : p = q
    · subst hpq
      rw [h1] at g1; cases g1
      refine ⟨setResolved tp n, ?_, ?_, ?_⟩
      · simp only [resolveEffect]
        rw [lookup_modifyAt_diverge hb d1.symm, lookup_modifyAt_self hs h1]
      · rw [(setResolved_props tp n tp h3).1]; exact h2
      · rw [(setResolved_props tp n tp h3).2]
        rw [h3] at g3; exact g3
    · refine ⟨m, ?_, g2, g3⟩
      simp only [resolveEffect]
      rw [lookup_modifyAt_diverge hb d3.symm, lookup_modifyAt_diverge hs (d4 hpq), g1]
  -- the node at tq after the step
  have ltq : ∃ tm', lookup (resolveEffect root p tp) tq = some tm' ∧ tm'.isHardLink = false ∧ tm'.isDir = false ∧
      tm'.attr.linkCount = if tq = tp then tm.attr.linkCount + 1 else tm.attr.linkCount := by
    have e1 : lookup (modifyAt (setResolved tp) p root) tq = some tm := by
      rw [lookup_modifyAt_diverge hs d2, g4]
    by_cases htt : tq = tp
    · subst htt
      refine ⟨bumpLinkCount tm, ?_, ?_, ?_, ?_⟩
      · simp only [resolveEffect]; rw [lookup_modifyAt_self hb e1]
      · rw [(bump_props tm).1]; exact g5
      · rw [(bump_props tm).2.1]; exact g6
      · simp [(bump_props tm).2.2]
    · refine ⟨tm, ?_, g5, g6, by simp [htt]⟩
      simp only [resolveEffect]
      rw [lookup_modifyAt_diverge hb (d5 (Ne.symm htt)), e1]
  obtain ⟨m', lq1, lq2, lq3⟩ := lq
  obtain ⟨tm', lt1, lt2, lt3, lt4⟩ := ltq
  refine ⟨⟨m', tm', lq1, lq2, lq3, lt1, lt2, lt3⟩, ?_⟩
  simp only [lcAt, lt1, g4, Option.map_some, lt4]
  split <;> rfl

theorem resolveEffect_comm {root : TNode} {p tp q tq : Path} (hp : FlatAt root p tp) (hq : FlatAt root q tq) (hpq : p ≠ q) :
    resolveEffect (resolveEffect root p tp) q tq = resolveEffect (resolveEffect root q tq) p tp := by
  obtain ⟨_, d2, d3, d4, d5⟩ := flat_diverge hp hq
  obtain ⟨e1, _, _, _, _⟩ := flat_diverge hq hp
  have d1 := (flat_diverge hp hp).1
  have dpq := d4 hpq
  have hb := namePres_bump
  have hsp := namePres_setResolved tp
  have hsq := namePres_setResolved tq
  simp only [resolveEffect]
  -- push `setResolved tq @ q` to the right on the left-hand side
  rw [modifyAt_comm_diverge hsq hb d3, modifyAt_comm_diverge hsq hsp dpq.symm]
  -- push `setResolved tp @ p` to the right of `bump @ tq` on the right-hand side
  rw [modifyAt_comm_diverge hsp hb d2]
  by_cases htt : tp = tq
  · subst htt; rfl
  · rw [modifyAt_comm_diverge hb hb (d5 htt).symm]

theorem resolveLink_comm {root : TNode} {p tp q tq : Path} (hp : FlatAt root p tp) (hq : FlatAt root q tq) (hpq : p ≠ q)
    (fuel : Nat) :
    (resolveLink root (fuel + 1) p).bind (fun r => resolveLink r (fuel + 1) q)
      = (resolveLink root (fuel + 1) q).bind (fun r => resolveLink r (fuel + 1) p) := by
  have sp := flat_step hp hq
  have sq := flat_step hq hp
  rw [resolveLink_flat hp, resolveLink_flat hq]
  obtain ⟨_, tn, _, _, _, h4, _, _⟩ := hp
  obtain ⟨_, tm, _, _, _, g4, _, _⟩ := hq
  have lp : lcAt root tp = some tn.attr.linkCount := by simp [lcAt, h4]
  have lq : lcAt root tq = some tm.attr.linkCount := by simp [lcAt, g4]
  by_cases c1 : lcAt root tp = some 0xFFFFFFFF
  · by_cases c2 : lcAt root tq = some 0xFFFFFFFF
    · simp [c1, c2]
    · simp only [c1, c2, if_true, if_false, Option.bind_none, Option.bind_some]
      rw [resolveLink_flat sq.1, sq.2]
      by_cases htt : tp = tq
      · subst htt; exact absurd c1 c2
      · simp [htt, c1]
  · by_cases c2 : lcAt root tq = some 0xFFFFFFFF
    · simp only [c1, c2, if_true, if_false, Option.bind_none, Option.bind_some]
      rw [resolveLink_flat sp.1, sp.2]
      by_cases htt : tq = tp
      · subst htt; exact absurd c2 c1
      · simp [htt, c2]
    · simp only [c1, c2, if_false, Option.bind_some]
      rw [resolveLink_flat sp.1, resolveLink_flat sq.1, sp.2, sq.2]
      by_cases htt : tq = tp
      · subst htt
        rw [h4] at g4; cases g4
        simp only [if_true, lp, Option.map_some]
        rw [resolveEffect_comm ⟨_, tn, ‹_›, ‹_›, ‹_›, h4, ‹_›, ‹_›⟩ ⟨_, tn, ‹_›, ‹_›, ‹_›, h4, ‹_›, ‹_›⟩ hpq]
      · have htt' : ¬ tp = tq := fun e => htt e.symm
        simp only [htt, htt', if_false, c1, c2]
        rw [resolveEffect_comm ⟨_, tn, ‹_›, ‹_›, ‹_›, h4, ‹_›, ‹_›⟩ ⟨_, tm, ‹_›, ‹_›, ‹_›, g4, ‹_›, ‹_›⟩ hpq]

theorem flatLinks_step {root : TNode} {x : Path} {l : List Path} (h : FlatLinks root (x :: l)) {root' : TNode} (fuel : Nat)
    (hr : resolveLink root (fuel + 1) x = some root') : FlatLinks root' l := by
  obtain ⟨tx, hx⟩ := h x List.mem_cons_self
  rw [resolveLink_flat hx] at hr
  split at hr
  · cases hr
  · cases hr
    intro q hq
    obtain ⟨tq, hq'⟩ := h q (List.mem_cons_of_mem _ hq)
    exact ⟨tq, (flat_step hx hq').1⟩

theorem flatAt_target_unique {root : TNode} {p t₁ t₂ : Path} (h₁ : FlatAt root p t₁) (h₂ : FlatAt root p t₂) : t₁ = t₂ := by
  obtain ⟨n, _, a1, _, a3, _⟩ := h₁
  obtain ⟨m, _, b1, _, b3, _⟩ := h₂
  rw [a1] at b1; cases b1
  rw [a3] at b3; cases b3; rfl

theorem resolveHardLinks_perm {l₁ l₂ : List Path} (hp : l₁.Perm l₂) (fuel : Nat) :
    ∀ root : TNode, FlatLinks root l₁ → resolveHardLinks (fuel + 1) l₁ root = resolveHardLinks (fuel + 1) l₂ root := by
  induction hp with
  | nil => intros; rfl
  | cons x _ ih =>
    intro root hf
    simp only [resolveHardLinks]
    cases hr : resolveLink root (fuel + 1) x with
    | none => rfl
    | some root' => exact ih root' (flatLinks_step hf fuel hr)
  | swap x y l =>
    intro root hf
    by_cases hxy : x = y
    · subst hxy; rfl
    · obtain ⟨tx, hx⟩ := hf x (List.mem_cons_of_mem _ List.mem_cons_self)
      obtain ⟨ty, hy⟩ := hf y List.mem_cons_self
      have hc := resolveLink_comm hy hx (Ne.symm hxy) fuel
      simp only [resolveHardLinks]
      cases h1 : resolveLink root (fuel + 1) y with
      | none =>
        cases h2 : resolveLink root (fuel + 1) x with
        | none => rfl
        | some r2 =>
          simp only [h1, h2, Option.bind_none, Option.bind_some] at hc
          simp only [← hc]
      | some r1 =>
        cases h2 : resolveLink root (fuel + 1) x with
        | none =>
          simp only [h1, h2, Option.bind_none, Option.bind_some] at hc
          simp only [hc]
        | some r2 =>
          simp only [h1, h2, Option.bind_some] at hc
          simp only [hc]
  | trans h₁ _ ih₁ ih₂ =>
    intro root hf
    rw [ih₁ root hf]
    exact ih₂ root (fun p hp => hf p (h₁.mem_iff.mpr hp))

/-- `fstree_post_process` does not depend on the order in which the pending hard links were queued -/
theorem postProcess_perm {l₁ l₂ : List Path} (hp : l₁.Perm l₂) (tree : TNode) (hf : FlatLinks tree l₁) :
    postProcess tree l₁ = postProcess tree l₂ := by
  cases l₁ with
  | nil => rw [List.Perm.nil_eq hp]
  | cons x xs =>
    have hlen : (x :: xs).length = xs.length + 1 := rfl
    simp only [postProcess, ← hp.length_eq]
    rw [hlen, resolveHardLinks_perm hp xs.length tree hf]

/-- executable form of `FlatAt` (for concrete instances) -/
def flatAtB (root : TNode) (p tp : Path) : Bool :=
  match lookup root p, lookup root tp with
  | some n, some tn => n.isHardLink && (linkTargetOf n == some tp) && !tn.isHardLink && !tn.isDir
  | _, _ => false

theorem flatAt_of_flatAtB {root : TNode} {p tp : Path} (h : flatAtB root p tp = true) : FlatAt root p tp := by
  simp only [flatAtB] at h
  split at h
  · rename_i n tn h1 h2
    simp only [Bool.and_eq_true, Bool.not_eq_true', beq_iff_eq] at h
    exact ⟨n, tn, h1, h.1.1.1, h.1.1.2, h2, h.1.2, h.2⟩
  · cases h

end Sqfs.FsTree
