/-
C04 — `decode_header` meets its field-by-field specification for header blocks of every dialect.
-/
import Sqfs.Proofs.TarNumber
import Sqfs.Spec.TarHeader
import Mathlib.Tactic.SplitIfs
namespace Sqfs.Tar

theorem obind_congr {α β : Type} (x : Option α) (f g : α → Option β) (h : ∀ a, f a = g a) : (x >>= f) = (x >>= g) := by
  cases x with
  | none => rfl
  | some a => exact h a

section steps
variable (b : Bool) (x : Option Nat) (o : Decoded) (k : Decoded → Option Decoded)

/-! one `if (!(set_by_pax & FLAG)) …` step of `decode_header` = "the field's value (PAX wins), then the update" -/
theorem step_size : ((if b = true then some o else x.map fun v => { o with recordSize := v }) >>= k) =
    ((if b = true then some o.recordSize else x.map id) >>= fun v => k { o with recordSize := v }) := by
  cases b <;> cases x <;> rfl
theorem step_uid : ((if b = true then some o else x.map fun v => { o with uid := v }) >>= k) =
    ((if b = true then some o.uid else x.map id) >>= fun v => k { o with uid := v }) := by
  cases b <;> cases x <;> rfl
theorem step_gid : ((if b = true then some o else x.map fun v => { o with gid := v }) >>= k) =
    ((if b = true then some o.gid else x.map id) >>= fun v => k { o with gid := v }) := by
  cases b <;> cases x <;> rfl
theorem step_maj : ((if b = true then some o else x.map fun v => { o with devMajor := v % 4294967296 }) >>= k) =
    ((if b = true then some o.devMajor else x.map (· % 4294967296)) >>= fun v => k { o with devMajor := v }) := by
  cases b <;> cases x <;> rfl
theorem step_min : ((if b = true then some o else x.map fun v => { o with devMinor := v % 4294967296 }) >>= k) =
    ((if b = true then some o.devMinor else x.map (· % 4294967296)) >>= fun v => k { o with devMinor := v }) := by
  cases b <;> cases x <;> rfl
theorem step_mtime : ((if b = true then some o else x.map fun v => { o with mtime := toSigned v }) >>= k) =
    ((if b = true then some o.mtime else x.map toSigned) >>= fun v => k { o with mtime := v }) := by
  cases b <;> cases x <;> rfl
end steps

attribute [local irreducible] hasFlag in
theorem decodeHeader_eq_spec (h : Bytes) (mask : Nat) (out : Decoded) (v : Version) :
    decodeHeader h mask out v = specDecode h mask out v := by
  unfold decodeHeader specDecode specField specName
  simp only [readNumber_spec]
  generalize specNumber (slice h 124 12) = x1
  generalize specNumber (slice h 108 8) = x2
  generalize specNumber (slice h 116 8) = x3
  generalize specNumber (slice h 329 8) = x4
  generalize specNumber (slice h 337 8) = x5
  generalize specNumber (slice h 136 12) = x6
  generalize specNumber (slice h 100 8) = x7
  generalize hasFlag mask PAX_SIZE = b1
  generalize hasFlag mask PAX_UID = b2
  generalize hasFlag mask PAX_GID = b3
  generalize hasFlag mask PAX_DEV_MAJ = b4
  generalize hasFlag mask PAX_DEV_MIN = b5
  generalize hasFlag mask PAX_MTIME = b6
  generalize hasFlag mask PAX_NAME = bn
  generalize hasFlag mask PAX_SLINK_TARGET = bl
  generalize (slice h 156 1).headD 0 = tf
  have hname : (if bn = true then out
      else if (slice h 345 155).headD 0 ≠ 0 ∧ v = Version.posix then
        { out with name := some (strn (slice h 345 155) ++ [47] ++ strn (slice h 0 100)) }
      else { out with name := some (strn (slice h 0 100)) }) =
      { out with name := (if bn = true then out.name else
          (some (if (slice h 345 155).headD 0 ≠ 0 ∧ v = Version.posix then strn (slice h 345 155) ++ [47] ++ strn (slice h 0 100)
                 else strn (slice h 0 100)))) } := by
    cases bn
    · simp only [Bool.false_eq_true, if_false]
      by_cases hp : (slice h 345 155).headD 0 ≠ 0 ∧ v = Version.posix
      · rw [if_pos hp, if_pos hp]
      · rw [if_neg hp, if_neg hp]
    · rfl
  rw [hname]
  generalize (if bn = true then out.name else
      (some (if (slice h 345 155).headD 0 ≠ 0 ∧ v = Version.posix then strn (slice h 345 155) ++ [47] ++ strn (slice h 0 100)
             else strn (slice h 0 100)))) = nm
  simp only [step_size, step_uid, step_gid, step_maj, step_min, step_mtime]
  apply obind_congr; intro size
  apply obind_congr; intro uid
  apply obind_congr; intro gid
  apply obind_congr; intro maj
  apply obind_congr; intro min
  apply obind_congr; intro mt
  apply obind_congr; intro md
  simp only [Option.pure_def, Option.some.injEq]
  clear hname
  by_cases hl : (tf = 49 ∨ tf = 50) ∧ ¬ bl = true <;> simp only [hl, if_true, if_false] <;> split_ifs <;> simp_all <;>
    (try intros) <;> simp_all

end Sqfs.Tar
