/-
Helper lemmas for C07, parser totality and bounds (`Sqfs/Model/ParseTotal*.lean`, `TextParse.lean`).
`R.safe r` = the modelled C function neither left its buffer (`.oob`) nor is still running (`.spin`).
-/
import Sqfs.Model.TextParse
namespace Sqfs.ParseTotal

/-- neither an out-of-bounds access nor a loop that has not ended -/
def R.safe {α : Type} : R α → Prop
  | .oob => False
  | .spin => False
  | _ => True

@[simp] theorem R.safe_ok {α : Type} (a : α) : (R.ok a).safe := trivial
@[simp] theorem R.safe_fail {α : Type} (c : Nat) : (R.fail c : R α).safe := trivial
@[simp] theorem R.not_safe_oob {α : Type} : ¬ (R.oob : R α).safe := fun h => h
@[simp] theorem R.not_safe_spin {α : Type} : ¬ (R.spin : R α).safe := fun h => h

theorem safe_ite {α : Type} {c : Prop} [Decidable c] {a b : R α} (ha : c → a.safe) (hb : ¬ c → b.safe) :
    (if c then a else b).safe := by
  by_cases h : c
  · simp only [h, if_true]; exact ha h
  · simp only [h, if_false]; exact hb h

theorem get_some {buf : Bytes} {i : Nat} (h : i < buf.length) : ∃ c, buf[i]? = some c :=
  ⟨buf[i], List.getElem?_eq_getElem h⟩

/-! ### read_number -/

theorem skipSpaces_spec (buf : Bytes) : ∀ d i, i + d ≤ buf.length →
    ∃ j d', skipSpaces buf i d = .ok (j, d') ∧ j + d' = i + d := by
  intro d
  induction d with
  | zero => intro i _; exact ⟨i, 0, rfl, rfl⟩
  | succ d ih =>
    intro i h
    obtain ⟨c, hc⟩ := get_some (buf := buf) (i := i) (by omega)
    simp only [skipSpaces, hc]
    split
    · obtain ⟨j, d', h1, h2⟩ := ih (i + 1) (by omega)
      exact ⟨j, d', h1, by omega⟩
    · exact ⟨i, d + 1, rfl, rfl⟩

theorem octLoop_safe (buf : Bytes) : ∀ d i acc, i + d ≤ buf.length → (octLoop buf i d acc).safe := by
  intro d
  induction d with
  | zero => intro i acc _; simp [octLoop]
  | succ d ih =>
    intro i acc h
    obtain ⟨c, hc⟩ := get_some (buf := buf) (i := i) (by omega)
    simp only [octLoop, hc]
    split
    · split
      · simp
      · exact ih _ _ (by omega)
    · simp

/-- the overflow guard of `read_octal` is sound: an accepted value fits 64 bits (nothing was shifted out) -/
theorem octLoop_fits (buf : Bytes) : ∀ d i acc v, acc < U64 → octLoop buf i d acc = .ok v → v < U64 := by
  intro d
  induction d with
  | zero => intro i acc v ha h; simp only [octLoop, R.ok.injEq] at h; omega
  | succ d ih =>
    intro i acc v ha h
    simp only [octLoop] at h
    split at h
    · cases h
    · rename_i c hc
      split at h
      · rename_i hoct
        split at h
        · cases h
        · rename_i hle
          refine ih _ _ v ?_ h
          simp only [isOct, Bool.and_eq_true, decide_eq_true_eq] at hoct
          have : c.toNat - 48 ≤ 7 := by omega
          simp only [U64] at *
          omega
      · simp only [R.ok.injEq] at h; omega

theorem binLoop_safe (neg : Bool) (buf : Bytes) : ∀ d i r, i + d ≤ buf.length → (binLoop neg buf i d r).safe := by
  intro d
  induction d with
  | zero => intro i r _; simp [binLoop]
  | succ d ih =>
    intro i r h
    obtain ⟨c, hc⟩ := get_some (buf := buf) (i := i) (by omega)
    simp only [binLoop, hc]
    exact safe_ite (fun _ => trivial) (fun _ => ih _ _ (by omega))

theorem readOctal_safe (buf : Bytes) (i d : Nat) (h : i + d ≤ buf.length) : (readOctal buf i d).safe := by
  obtain ⟨j, d', h1, h2⟩ := skipSpaces_spec buf d i h
  simp only [readOctal, h1]
  exact octLoop_safe buf d' j 0 (by omega)

theorem readBinary_safe (buf : Bytes) (i d : Nat) (h : i + d ≤ buf.length) : (readBinary buf i d).safe := by
  cases d with
  | zero => simp [readBinary]
  | succ d =>
    obtain ⟨c, hc⟩ := get_some (buf := buf) (i := i) (by omega)
    simp only [readBinary, hc]
    split
    · have := binLoop_safe true buf d (i + 1) (U64 - 1) (by omega)
      cases hb : binLoop true buf (i + 1) d (U64 - 1) with
      | ok r => simp only []; split <;> simp
      | fail c => simp
      | oob => rw [hb] at this; exact this.elim
      | spin => rw [hb] at this; exact this.elim
    · split
      · simp
      · exact binLoop_safe false buf d (i + 1) _ (by omega)

theorem readNumber_safe (buf : Bytes) (i d : Nat) (hd : 0 < d) (h : i + d ≤ buf.length) :
    (readNumber buf i d).safe := by
  obtain ⟨c, hc⟩ := get_some (buf := buf) (i := i) (by omega)
  simp only [readNumber, hc]
  split
  · exact readBinary_safe buf i d h
  · exact readOctal_safe buf i d h

/-! ### hex / base64 -/

theorem hexDecode_safe (buf : Bytes) : ∀ outSz i inSz acc, i + inSz ≤ buf.length → (hexDecode buf i inSz outSz acc).safe := by
  intro outSz
  induction outSz with
  | zero => intro i inSz acc _; simp only [hexDecode]; exact safe_ite (fun _ => trivial) (fun _ => trivial)
  | succ o ih =>
    intro i inSz acc h
    simp only [hexDecode]
    apply safe_ite
    · intro _; exact safe_ite (fun _ => trivial) (fun _ => trivial)
    · intro hlt
      obtain ⟨a, ha⟩ := get_some (buf := buf) (i := i) (by omega)
      obtain ⟨b, hb⟩ := get_some (buf := buf) (i := i + 1) (by omega)
      simp only [ha, hb]
      exact safe_ite (fun _ => ih _ _ _ (by omega)) (fun _ => trivial)

theorem hexDecode_len (buf : Bytes) : ∀ outSz i inSz acc out, hexDecode buf i inSz outSz acc = .ok out →
    out.length ≤ acc.length + outSz := by
  intro outSz
  induction outSz with
  | zero =>
    intro i inSz acc out h
    simp only [hexDecode] at h
    by_cases h0 : inSz > 0
    · simp [h0] at h
    · simp only [h0, if_false, R.ok.injEq] at h; subst h; simp
  | succ o ih =>
    intro i inSz acc out h
    simp only [hexDecode] at h
    by_cases h2 : inSz < 2
    · simp only [h2, if_true] at h
      by_cases h0 : inSz > 0
      · simp [h0] at h
      · simp only [h0, if_false, R.ok.injEq] at h; subst h; simp
    · simp only [h2, if_false] at h
      cases ha : buf[i]? with
      | none => simp [ha] at h
      | some a =>
        cases hb : buf[i + 1]? with
        | none => simp [ha, hb] at h
        | some b =>
          simp only [ha, hb] at h
          by_cases hx : (isXDigit a && isXDigit b) = true
          · simp only [hx, if_true] at h
            have := ih _ _ _ _ h; simp at this; omega
          · simp [hx] at h

theorem push_len {cap : Nat} {acc acc' : Bytes} {b : Nat} (h : push cap acc b = some acc') :
    acc'.length = acc.length + 1 ∧ acc'.length ≤ cap := by
  unfold push at h
  split at h
  · cases h
  · cases h; simp; omega

theorem b64Tail_safe (buf : Bytes) (i inLen cap : Nat) (acc : Bytes) (h : i + inLen ≤ buf.length) (h3 : inLen ≤ 3) :
    (b64Tail buf i inLen cap acc).safe := by
  unfold b64Tail
  refine safe_ite (fun _ => by trivial) (fun h0 => ?_)
  refine safe_ite (fun _ => by trivial) (fun h1 => ?_)
  obtain ⟨c1, hc1⟩ := get_some (buf := buf) (i := i) (by omega)
  obtain ⟨c2, hc2⟩ := get_some (buf := buf) (i := i + 1) (by omega)
  simp only [hc1, hc2]
  cases b64digit c1 <;> cases b64digit c2 <;> simp only [] <;> try trivial
  rename_i i1 i2
  cases push cap acc (i1 * 4 + i2 / 16) <;> simp only [] <;> try trivial
  rename_i acc1
  refine safe_ite (fun h2 => ?_) (fun _ => by trivial)
  obtain ⟨c3, hc3⟩ := get_some (buf := buf) (i := i + 2) (by omega)
  simp only [hc3]
  refine safe_ite (fun _ => by trivial) (fun _ => ?_)
  cases b64digit c3 <;> simp only [] <;> try trivial
  rename_i i3
  cases push cap acc1 (i2 % 16 * 16 + i3 / 4) <;> simp only [] <;> trivial

theorem b64Loop_safe (buf : Bytes) (cap : Nat) : ∀ g i inLen acc, i + inLen ≤ buf.length → inLen / 4 ≤ g →
    (b64Loop buf cap g i inLen acc).safe := by
  intro g
  induction g with
  | zero =>
    intro i inLen acc h hg
    simp only [b64Loop]
    exact b64Tail_safe buf i inLen cap acc h (by omega)
  | succ g ih =>
    intro i inLen acc h hg
    simp only [b64Loop]
    apply safe_ite
    · intro h4; exact b64Tail_safe buf i inLen cap acc h (by omega)
    · intro h4
      obtain ⟨c1, hc1⟩ := get_some (buf := buf) (i := i) (by omega)
      obtain ⟨c2, hc2⟩ := get_some (buf := buf) (i := i + 1) (by omega)
      obtain ⟨c3, hc3⟩ := get_some (buf := buf) (i := i + 2) (by omega)
      obtain ⟨c4, hc4⟩ := get_some (buf := buf) (i := i + 3) (by omega)
      simp only [hc1, hc2, hc3, hc4]
      cases b64digit c1 <;> cases b64digit c2 <;> simp only [] <;> try trivial
      rename_i i1 i2
      cases push cap acc (i1 * 4 + i2 / 16) <;> simp only [] <;> try trivial
      rename_i acc1
      apply safe_ite
      · intro _
        refine safe_ite (fun _ => by trivial) (fun hr => ?_)
        have : inLen - 4 = 0 := by
          simp only [Bool.or_eq_true, Bool.not_eq_true', decide_eq_true_eq, not_or, Nat.not_lt] at hr; omega
        rw [this]; simp [b64Tail]
      · intro _
        cases b64digit c3 <;> simp only [] <;> try trivial
        rename_i i3
        cases push cap acc1 (i2 % 16 * 16 + i3 / 4) <;> simp only [] <;> try trivial
        rename_i acc2
        apply safe_ite
        · intro _
          refine safe_ite (fun _ => by trivial) (fun hr => ?_)
          have : inLen - 4 = 0 := by omega
          rw [this]; simp [b64Tail]
        · intro _
          cases b64digit c4 <;> simp only [] <;> try trivial
          rename_i i4
          cases push cap acc2 (i3 % 4 * 64 + i4) <;> simp only [] <;> try trivial
          rename_i acc3
          exact ih _ _ _ (by omega) (by omega)

theorem base64Decode_safe (buf : Bytes) (i inLen cap : Nat) (h : i + inLen ≤ buf.length) :
    (base64Decode buf i inLen cap).safe :=
  b64Loop_safe buf cap (inLen / 4) i inLen [] h (Nat.le_refl _)

theorem b64Tail_len (buf : Bytes) (i inLen cap : Nat) (acc out : Bytes) (ha : acc.length ≤ cap)
    (h : b64Tail buf i inLen cap acc = .ok out) : out.length ≤ cap := by
  unfold b64Tail at h
  by_cases h0 : inLen = 0
  · simp only [h0, if_true, R.ok.injEq] at h; subst h; simpa using ha
  · simp only [h0, if_false] at h
    by_cases h1 : inLen = 1
    · simp [h1] at h
    · simp only [h1, if_false] at h
      cases hc1 : buf[i]? with
      | none => simp [hc1] at h
      | some c1 =>
        cases hc2 : buf[i + 1]? with
        | none => simp [hc1, hc2] at h
        | some c2 =>
          simp only [hc1, hc2] at h
          cases hd1 : b64digit c1 with
          | none => simp [hd1] at h
          | some i1 =>
            cases hd2 : b64digit c2 with
            | none => simp [hd1, hd2] at h
            | some i2 =>
              simp only [hd1, hd2] at h
              cases hp : push cap acc (i1 * 4 + i2 / 16) with
              | none => simp [hp] at h
              | some acc1 =>
                have hl1 := push_len hp
                simp only [hp] at h
                by_cases h2 : inLen > 2
                · simp only [h2, if_true] at h
                  cases hc3 : buf[i + 2]? with
                  | none => simp [hc3] at h
                  | some c3 =>
                    simp only [hc3] at h
                    by_cases hpad : isPad c3 = true
                    · simp only [hpad, if_true, R.ok.injEq] at h; subst h; simpa using hl1.2
                    · simp only [hpad, Bool.false_eq_true, if_false] at h
                      cases hd3 : b64digit c3 with
                      | none => simp [hd3] at h
                      | some i3 =>
                        simp only [hd3] at h
                        cases hp2 : push cap acc1 (i2 % 16 * 16 + i3 / 4) with
                        | none => simp [hp2] at h
                        | some acc2 =>
                          have hl2 := push_len hp2
                          simp only [hp2, R.ok.injEq] at h; subst h; simpa using hl2.2
                · simp only [h2, if_false, R.ok.injEq] at h; subst h; simpa using hl1.2

theorem b64Loop_len (buf : Bytes) (cap : Nat) : ∀ g i inLen acc out, acc.length ≤ cap →
    b64Loop buf cap g i inLen acc = .ok out → out.length ≤ cap := by
  intro g
  induction g with
  | zero => intro i inLen acc out ha h; simp only [b64Loop] at h; exact b64Tail_len buf i inLen cap acc out ha h
  | succ g ih =>
    intro i inLen acc out ha h
    simp only [b64Loop] at h
    by_cases h4 : inLen < 4
    · simp only [h4, if_true] at h; exact b64Tail_len buf i inLen cap acc out ha h
    · simp only [h4, if_false] at h
      cases hc1 : buf[i]? with
      | none => simp [hc1] at h
      | some c1 =>
      cases hc2 : buf[i + 1]? with
      | none => simp [hc1, hc2] at h
      | some c2 =>
      cases hc3 : buf[i + 2]? with
      | none => simp [hc1, hc2, hc3] at h
      | some c3 =>
      cases hc4 : buf[i + 3]? with
      | none => simp [hc1, hc2, hc3, hc4] at h
      | some c4 =>
        simp only [hc1, hc2, hc3, hc4] at h
        cases hd1 : b64digit c1 with
        | none => simp [hd1] at h
        | some i1 =>
        cases hd2 : b64digit c2 with
        | none => simp [hd1, hd2] at h
        | some i2 =>
          simp only [hd1, hd2] at h
          cases hp : push cap acc (i1 * 4 + i2 / 16) with
          | none => simp [hp] at h
          | some acc1 =>
            have hl1 := push_len hp
            simp only [hp] at h
            by_cases hpad3 : isPad c3 = true
            · simp only [hpad3, if_true] at h
              by_cases hr : (!isPad c4 || decide (inLen - 4 > 0)) = true
              · simp [hr] at h
              · simp only [hr] at h
                exact b64Tail_len buf (i + 4) (inLen - 4) cap acc1 out hl1.2 h
            · simp only [hpad3, Bool.false_eq_true, if_false] at h
              cases hd3 : b64digit c3 with
              | none => simp [hd3] at h
              | some i3 =>
                simp only [hd3] at h
                cases hp2 : push cap acc1 (i2 % 16 * 16 + i3 / 4) with
                | none => simp [hp2] at h
                | some acc2 =>
                  have hl2 := push_len hp2
                  simp only [hp2] at h
                  by_cases hpad4 : isPad c4 = true
                  · simp only [hpad4, if_true] at h
                    by_cases hr : inLen - 4 > 0
                    · simp [hr] at h
                    · simp only [hr, if_false] at h
                      exact b64Tail_len buf (i + 4) (inLen - 4) cap acc2 out hl2.2 h
                  · simp only [hpad4, Bool.false_eq_true, if_false] at h
                    cases hd4 : b64digit c4 with
                    | none => simp [hd4] at h
                    | some i4 =>
                      simp only [hd4] at h
                      cases hp3 : push cap acc2 (i3 % 4 * 64 + i4) with
                      | none => simp [hp3] at h
                      | some acc3 =>
                        have hl3 := push_len hp3
                        simp only [hp3] at h
                        exact ih _ _ _ _ hl3.2 h

theorem base64Decode_len (buf : Bytes) (i inLen cap : Nat) (out : Bytes) (h : base64Decode buf i inLen cap = .ok out) :
    out.length ≤ cap :=
  b64Loop_len buf cap (inLen / 4) i inLen [] out (Nat.zero_le _) h

/-! ### parse_uint / parse_int -/

/-- bounded form: `len` bytes are available from `i` on -/
theorem parseLoop_len (base : Nat) (buf : Bytes) : ∀ fuel i n acc, i + n ≤ buf.length → n + 1 ≤ fuel → acc < U64 →
    (parseLoop base buf fuel i (some n) acc).safe ∧
    ∀ v j l, parseLoop base buf fuel i (some n) acc = .ok (v, j, l) → v < U64 ∧ ∃ m, l = some m ∧ j + m = i + n := by
  intro fuel
  induction fuel with
  | zero => intro i n acc _ hf; omega
  | succ f ih =>
    intro i n acc h hf ha
    simp only [parseLoop]
    cases n with
    | zero =>
      simp only [lenPos, Nat.lt_irrefl, decide_false, Bool.not_false, if_true]
      exact ⟨trivial, fun v j l hr => by cases hr; exact ⟨ha, 0, rfl, rfl⟩⟩
    | succ n =>
      obtain ⟨c, hc⟩ := get_some (buf := buf) (i := i) (by omega)
      simp only [lenPos, Nat.zero_lt_succ, decide_true, Bool.not_true, Bool.false_eq_true, if_false, hc, lenDec, Nat.add_sub_cancel]
      by_cases hd : isDigit c = true
      · simp only [hd, Bool.not_true, Bool.false_eq_true, if_false]
        by_cases hb : c.toNat - 48 ≥ base
        · simp only [hb, if_true]
          exact ⟨trivial, fun v j l hr => by cases hr; exact ⟨ha, n + 1, rfl, rfl⟩⟩
        · simp only [hb, if_false]
          by_cases h1 : acc ≥ (U64 - 1) / base
          · simp only [h1, if_true]; exact ⟨trivial, fun v j l hr => by cases hr⟩
          · simp only [h1, if_false]
            by_cases h2 : acc * base > U64 - 1 - (c.toNat - 48)
            · simp only [h2, if_true]; exact ⟨trivial, fun v j l hr => by cases hr⟩
            · simp only [h2, if_false]
              have hlt : acc * base + (c.toNat - 48) < U64 := by
                have := c.toNat_lt
                simp only [U64] at *; omega
              obtain ⟨s1, s2⟩ := ih (i + 1) n (acc * base + (c.toNat - 48)) (by omega) (by omega) hlt
              refine ⟨s1, fun v j l hr => ?_⟩
              obtain ⟨hv, m, hm, hj⟩ := s2 v j l hr
              exact ⟨hv, m, hm, by omega⟩
      · simp only [hd, Bool.not_false, if_true]
        exact ⟨trivial, fun v j l hr => by cases hr; exact ⟨ha, n + 1, rfl, rfl⟩⟩

/-- NUL-terminated form (`len = (size_t)-1`): a terminator at index `k ≥ i` bounds the scan -/
theorem parseLoop_nul (base : Nat) (buf : Bytes) (k : Nat) (hk : buf[k]? = some 0) : ∀ fuel i acc, i ≤ k → k - i + 1 ≤ fuel → acc < U64 →
    (parseLoop base buf fuel i none acc).safe ∧
    ∀ v j l, parseLoop base buf fuel i none acc = .ok (v, j, l) → v < U64 ∧ l = none ∧ i ≤ j ∧ j ≤ k := by
  have hklt : k < buf.length := by
    cases hlt : decide (k < buf.length) with
    | true => simpa using hlt
    | false =>
      have : buf.length ≤ k := by simpa using hlt
      rw [List.getElem?_eq_none this] at hk; cases hk
  intro fuel
  induction fuel with
  | zero => intro i acc _ hf; omega
  | succ f ih =>
    intro i acc hi hf ha
    simp only [parseLoop, lenPos, Bool.not_true, Bool.false_eq_true, if_false, lenDec]
    obtain ⟨c, hc⟩ := get_some (buf := buf) (i := i) (by omega)
    simp only [hc]
    by_cases hd : isDigit c = true
    · simp only [hd, Bool.not_true, Bool.false_eq_true, if_false]
      have hne : i ≠ k := by
        intro e; subst e; rw [hk] at hc; cases hc
        simp [isDigit] at hd
      by_cases hb : c.toNat - 48 ≥ base
      · simp only [hb, if_true]
        exact ⟨trivial, fun v j l hr => by cases hr; exact ⟨ha, rfl, Nat.le_refl _, hi⟩⟩
      · simp only [hb, if_false]
        by_cases h1 : acc ≥ (U64 - 1) / base
        · simp only [h1, if_true]; exact ⟨trivial, fun v j l hr => by cases hr⟩
        · simp only [h1, if_false]
          by_cases h2 : acc * base > U64 - 1 - (c.toNat - 48)
          · simp only [h2, if_true]; exact ⟨trivial, fun v j l hr => by cases hr⟩
          · simp only [h2, if_false]
            have hlt : acc * base + (c.toNat - 48) < U64 := by
                have := c.toNat_lt
                simp only [U64] at *; omega
            obtain ⟨s1, s2⟩ := ih (i + 1) (acc * base + (c.toNat - 48)) (by omega) (by omega) hlt
            refine ⟨s1, fun v j l hr => ?_⟩
            obtain ⟨hv, hl, h3, h4⟩ := s2 v j l hr
            exact ⟨hv, hl, by omega, h4⟩
    · simp only [hd, Bool.not_false, if_true]
      exact ⟨trivial, fun v j l hr => by cases hr; exact ⟨ha, rfl, Nat.le_refl _, hi⟩⟩

theorem getElem?_lt {buf : Bytes} {k : Nat} {c : UInt8} (hk : buf[k]? = some c) : k < buf.length := by
  cases hlt : decide (k < buf.length) with
  | true => simpa using hlt
  | false =>
    have : buf.length ≤ k := by simpa using hlt
    rw [List.getElem?_eq_none this] at hk; cases hk

theorem parseU_safe_len (base : Nat) (buf : Bytes) (i n : Nat) (wd : Bool) (vmin vmax : Nat) (h : i + n ≤ buf.length) :
    (parseU base buf i (some n) wd vmin vmax).safe ∧
    ∀ v d, parseU base buf i (some n) wd vmin vmax = .ok (v, d) → v < U64 ∧ d ≤ n := by
  unfold parseU
  cases n with
  | zero => simp [lenPos]
  | succ n =>
    obtain ⟨c, hc⟩ := get_some (buf := buf) (i := i) (by omega)
    simp only [lenPos, Nat.zero_lt_succ, decide_true, Bool.not_true, Bool.false_eq_true, if_false, hc]
    by_cases hd : isDigit c = true
    · simp only [hd, Bool.not_true, Bool.false_eq_true, if_false]
      obtain ⟨s1, s2⟩ := parseLoop_len base buf (buf.length + 1) i (n + 1) 0 h (by omega) (by simp [U64])
      cases hl : parseLoop base buf (buf.length + 1) i (some (n + 1)) 0 with
      | oob => rw [hl] at s1; exact s1.elim
      | spin => rw [hl] at s1; exact s1.elim
      | fail c => simp
      | ok r =>
        obtain ⟨v, j, l⟩ := r
        obtain ⟨hv, m, hm, hj⟩ := s2 v j l hl
        subst hm
        simp only []
        by_cases hr : vmin < vmax ∧ (v < vmin ∨ v > vmax)
        · simp [hr]
        · simp only [hr, if_false]
          cases wd with
          | true =>
            simp only [Bool.not_true, Bool.false_and, Bool.false_eq_true, if_false]
            exact ⟨trivial, fun v' d' he => by cases he; exact ⟨hv, by omega⟩⟩
          | false =>
            cases m with
            | zero =>
              simp only [lenPos, Nat.lt_irrefl, decide_false, Bool.and_false, Bool.false_eq_true, if_false]
              exact ⟨trivial, fun v' d' he => by cases he; exact ⟨hv, by omega⟩⟩
            | succ m =>
              simp only [lenPos, Bool.not_false, Bool.true_and, Nat.zero_lt_succ, decide_true, if_true]
              obtain ⟨c2, hc2⟩ := get_some (buf := buf) (i := j) (by omega)
              simp only [hc2]
              by_cases hz : c2.toNat ≠ 0
              · simp [hz]
              · simp only [hz, if_false]
                exact ⟨trivial, fun v' d' he => by cases he; exact ⟨hv, by omega⟩⟩
    · simp [hd]

theorem parseU_safe_nul (base : Nat) (buf : Bytes) (i k : Nat) (wd : Bool) (vmin vmax : Nat) (hik : i ≤ k)
    (hk : buf[k]? = some 0) :
    (parseU base buf i none wd vmin vmax).safe ∧
    ∀ v d, parseU base buf i none wd vmin vmax = .ok (v, d) → v < U64 ∧ i + d ≤ k := by
  have hklt := getElem?_lt hk
  unfold parseU
  obtain ⟨c, hc⟩ := get_some (buf := buf) (i := i) (by omega)
  simp only [lenPos, Bool.not_true, Bool.false_eq_true, if_false, hc]
  by_cases hd : isDigit c = true
  · simp only [hd, Bool.not_true, Bool.false_eq_true, if_false]
    obtain ⟨s1, s2⟩ := parseLoop_nul base buf k hk (buf.length + 1) i 0 hik (by omega) (by simp [U64])
    cases hl : parseLoop base buf (buf.length + 1) i none 0 with
    | oob => rw [hl] at s1; exact s1.elim
    | spin => rw [hl] at s1; exact s1.elim
    | fail c => simp
    | ok r =>
      obtain ⟨v, j, l⟩ := r
      obtain ⟨hv, hln, hij, hjk⟩ := s2 v j l hl
      subst hln
      simp only []
      by_cases hr : vmin < vmax ∧ (v < vmin ∨ v > vmax)
      · simp [hr]
      · simp only [hr, if_false]
        cases wd with
        | true =>
          simp only [Bool.not_true, Bool.false_and, Bool.false_eq_true, if_false]
          exact ⟨trivial, fun v' d' he => by cases he; exact ⟨hv, by omega⟩⟩
        | false =>
          simp only [lenPos, Bool.not_false, Bool.true_and, if_true]
          obtain ⟨c2, hc2⟩ := get_some (buf := buf) (i := j) (by omega)
          simp only [hc2]
          by_cases hz : c2.toNat ≠ 0
          · simp [hz]
          · simp only [hz, if_false]
            exact ⟨trivial, fun v' d' he => by cases he; exact ⟨hv, by omega⟩⟩
  · simp [hd]

theorem safe_map {α β : Type} {r : R α} (f : α → R β) (hr : r.safe) (hf : ∀ a, (f a).safe) :
    (match r with | .ok a => f a | .fail c => .fail c | .oob => .oob | .spin => .spin : R β).safe := by
  cases r with
  | ok a => exact hf a
  | fail c => trivial
  | oob => exact hr.elim
  | spin => exact hr.elim

theorem parseI_safe_len (buf : Bytes) (i n : Nat) (wd : Bool) (h : i + n ≤ buf.length) :
    (parseI buf i (some n) wd).safe := by
  unfold parseI
  cases n with
  | zero =>
    simp only [lenPos, Nat.lt_irrefl, decide_false, Bool.not_false, if_true]
    have := (parseU_safe_len 10 buf i 0 wd 0 0 h).1
    cases hp : parseU 10 buf i (some 0) wd 0 0 with
    | ok r => obtain ⟨v, d⟩ := r; trivial
    | fail c => trivial
    | oob => rw [hp] at this; exact this.elim
    | spin => rw [hp] at this; exact this.elim
  | succ n =>
    obtain ⟨c, hc⟩ := get_some (buf := buf) (i := i) (by omega)
    simp only [lenPos, Nat.zero_lt_succ, decide_true, Bool.not_true, Bool.false_eq_true, if_false, hc, lenDec, Nat.add_sub_cancel]
    by_cases hneg : c.toNat = 45
    · simp only [hneg, if_true]
      have := (parseU_safe_len 10 buf (i + 1) n wd 0 0 (by omega)).1
      cases hp : parseU 10 buf (i + 1) (some n) wd 0 0 with
      | ok r => obtain ⟨v, d⟩ := r; simp only []; exact safe_ite (fun _ => trivial) (fun _ => trivial)
      | fail c => trivial
      | oob => rw [hp] at this; exact this.elim
      | spin => rw [hp] at this; exact this.elim
    · simp only [hneg, if_false]
      have := (parseU_safe_len 10 buf i (n + 1) wd 0 0 h).1
      cases hp : parseU 10 buf i (some (n + 1)) wd 0 0 with
      | ok r => obtain ⟨v, d⟩ := r; simp only []; exact safe_ite (fun _ => trivial) (fun _ => by simp)
      | fail c => trivial
      | oob => rw [hp] at this; exact this.elim
      | spin => rw [hp] at this; exact this.elim

theorem parseI_safe_nul (buf : Bytes) (i k : Nat) (wd : Bool) (hik : i ≤ k) (hk : buf[k]? = some 0) :
    (parseI buf i none wd).safe := by
  have hklt := getElem?_lt hk
  unfold parseI
  obtain ⟨c, hc⟩ := get_some (buf := buf) (i := i) (by omega)
  simp only [lenPos, Bool.not_true, Bool.false_eq_true, if_false, hc, lenDec]
  by_cases hneg : c.toNat = 45
  · have hne : i ≠ k := by
      intro e; subst e; rw [hk] at hc; cases hc; simp at hneg
    simp only [hneg, if_true]
    have := (parseU_safe_nul 10 buf (i + 1) k wd 0 0 (by omega) hk).1
    cases hp : parseU 10 buf (i + 1) none wd 0 0 with
    | ok r => obtain ⟨v, d⟩ := r; simp only []; exact safe_ite (fun _ => trivial) (fun _ => trivial)
    | fail c => trivial
    | oob => rw [hp] at this; exact this.elim
    | spin => rw [hp] at this; exact this.elim
  · simp only [hneg, if_false]
    have := (parseU_safe_nul 10 buf i k wd 0 0 hik hk).1
    cases hp : parseU 10 buf i none wd 0 0 with
    | ok r => obtain ⟨v, d⟩ := r; simp only []; exact safe_ite (fun _ => trivial) (fun _ => by simp)
    | fail c => trivial
    | oob => rw [hp] at this; exact this.elim
    | spin => rw [hp] at this; exact this.elim

end Sqfs.ParseTotal
