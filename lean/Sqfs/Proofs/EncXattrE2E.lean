/-
C01 — the xattr clause from the input strings to the read-back: record every set (`recordAll`), flush (key/value
blocks, out-of-line rule, descriptor table with its location array), read each handed-out index back with the
reader's algorithm through that location array: the result is the input set as `canonSet` defines it.
-/
import Sqfs.Proofs.EncXattrRecAll
import Sqfs.Proofs.EncXattrFlush
namespace Sqfs.Enc
open Sqfs.Consts
open Sqfs.MetaWriter (Block Codec run)

theorem insertPair_perm (p : Nat × Nat) : ∀ l, (insertPair p l).Perm (p :: l) := by
  intro l
  induction l with
  | nil => exact List.Perm.refl _
  | cons e r ih =>
    simp only [insertPair]
    split
    · exact List.Perm.refl _
    · exact (List.Perm.cons e ih).trans (List.Perm.swap p e r)

theorem sortPairs_perm : ∀ l, (sortPairs l).Perm l := by
  intro l
  induction l with
  | nil => exact List.Perm.refl _
  | cons e r ih => exact (insertPair_perm e _).trans (List.Perm.cons e ih)

/-- the invariant gives the flush/read theorem its per-pair and per-block hypotheses -/
theorem XInv.pairOk {w : XWriter} (hi : XInv w) : ∀ b ∈ w.blocks, ∀ p ∈ blockPairs w.pairs b, PairOk w p := by
  intro b _ p hp
  have hmem : p ∈ w.pairs := List.mem_of_mem_drop (List.mem_of_mem_take hp)
  have hr := hi.rng p (by simpa [beginSet] using hmem)
  simp only [beginSet] at hr
  have hk : keyOf w p.1 ∈ w.keys := by
    simp only [keyOf, List.getD_eq_getElem?_getD, List.getElem?_eq_getElem hr.1, Option.getD_some]; exact List.getElem_mem hr.1
  have hv : w.values.getD p.2 ([], 0) ∈ w.values := by
    simp only [List.getD_eq_getElem?_getD, List.getElem?_eq_getElem hr.2, Option.getD_some]; exact List.getElem_mem hr.2
  have a := hi.keyOk (keyOf w p.1) (by simpa [beginSet] using hk)
  have b := hi.valOk _ (by simpa [beginSet] using hv)
  exact ⟨a.1, a.2, b⟩

theorem XInv.count {w : XWriter} (hi : XInv w) : ∀ b ∈ w.blocks, (blockPairs w.pairs b).length = b.2 := by
  intro b hb
  have := hi.bl b (by simpa [beginSet] using hb)
  simp only [beginSet] at this
  simp only [blockPairs, List.length_take, List.length_drop]
  omega

/-- what a stored set reads back as: the strings of its sorted index pairs; a permutation of the set -/
theorem stored_strings_perm (w : XWriter) (hi : XInv w) (l : List (Bytes × Bytes))
    (hm : ∀ kv ∈ l, kv.1 ∈ w.keys ∧ kv.2 ∈ w.values.map (·.1)) :
    ((sortPairs (l.map (idxPair w))).map (strPair w)).Perm l := by
  have h1 : ((sortPairs (l.map (idxPair w))).map (strPair w)).Perm ((l.map (idxPair w)).map (strPair w)) :=
    (sortPairs_perm _).map _
  have h2 : (l.map (idxPair w)).map (strPair w) = l := by
    rw [List.map_map]
    conv => rhs; rw [← List.map_id l]
    apply List.map_congr_left
    intro kv hkv
    obtain ⟨a, b⟩ := hm kv hkv
    simp only [Function.comp, strPair, idxPair, keyOf, valOf, id]
    rw [getD_idxOf _ _ _ a, getD_fst, getD_idxOf _ _ _ b]
  rw [h2] at h1; exact h1

/-- **the xattr clause, input to read-back.**  For every list of input sets whose keys and values the format can hold,
the writer accepts all of them; and if the finished key/value stream, the pair array and the block count stay within
their 32-bit fields, then after the flush the reader's algorithm — descriptor through the location array, seek, pairs,
out-of-line values — returns for the k-th handed-out index exactly the k-th input set with later duplicates of a key
replacing earlier ones (`canonSet`), in the writer's sorted order; empty sets get the "no xattrs" index. -/
theorem recordAll_flush_read {cmp : Codec} {unc : Unc} (hc : CodecOk cmp unc) (refOf : Nat → Nat) (posOf : Nat → Option Nat)
    (bound : Nat) (hr : RefOk refOf posOf bound) (sets : List (List (Bytes × Bytes)))
    (hs : ∀ s ∈ sets, ∀ kv ∈ s, KvOk kv) :
    ∃ wF idxs, recordAll {} sets = .ok (wF, idxs) ∧ idxs.length = sets.length ∧
      ((flushKv refOf wF).1.length ≤ bound → (flushKv refOf wF).1.length < 2 ^ 32 → wF.pairs.length < 2 ^ 32 →
        wF.blocks.length ≤ NONE32 →
        ∀ k, k < sets.length →
          (canonSet (sets.getD k []) = [] ∧ idxs.getD k 0 = NONE32) ∨
          (canonSet (sets.getD k []) ≠ [] ∧ idxs.getD k 0 ≠ NONE32 ∧
            ∃ out, readSet ((xattrFlush cmp refOf wF).reader unc posOf) (idxs.getD k 0) = .ok out
              ∧ out = (sortPairs ((canonSet (sets.getD k [])).map (idxPair wF))).map (strPair wF)
              ∧ out.Perm (canonSet (sets.getD k [])))) := by
  obtain ⟨wF, idxs, h1, hi, _, hl, hst⟩ := recordAll_spec sets {} xinv_empty hs
  refine ⟨wF, idxs, h1, hl, ?_⟩
  intro hb h32 hp32 hbl k hk
  rcases hst k hk with h | ⟨h0, hlt, hbp, hm⟩
  · exact Or.inl h
  · have hne : idxs.getD k 0 ≠ NONE32 := by omega
    have hread := readSet_xattrFlush hc refOf posOf bound hr wF hb h32 hp32 hi.pairOk hi.count (idxs.getD k 0) hlt hne
    refine Or.inr ⟨h0, hne, _, hread, ?_, ?_⟩
    · simp only [XWriter.setOf, hbp]; rfl
    · have : wF.setOf (idxs.getD k 0) = (sortPairs ((canonSet (sets.getD k [])).map (idxPair wF))).map (strPair wF) := by
        simp only [XWriter.setOf, hbp]; rfl
      rw [this]
      exact stored_strings_perm wF hi _ hm

end Sqfs.Enc
