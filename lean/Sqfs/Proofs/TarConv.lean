/-
Helper lemmas for the conversion model (C04): implicit parents, prefix strip.
-/
import Sqfs.Model.TarConv
namespace Sqfs.Tar

theorem lookup_some (t : List TNode) (p : List Bytes) (n : TNode) (h : lookup t p = some n) :
    n ∈ t ∧ n.path = p := by
  unfold lookup at h
  refine ⟨List.mem_of_find?_eq_some h, ?_⟩
  have := List.find?_some h
  simpa using this

theorem isDirMode_default (x : Nat) : isDirMode (S_IFDIR + x % 4096) = true := by
  unfold isDirMode fmt
  have : x % 4096 < 4096 := Nat.mod_lt _ (by omega)
  simp only [S_IFDIR, decide_eq_true_eq]
  omega

/-- `fstree_get_node_by_path(…, create_implicitly = true, stop_at_parent = true)` keeps every node and leaves a
    directory at every proper prefix of the path -/
theorem ensureParents_spec (o : ConvOpts) (cs : List Bytes) :
    ∀ (t : List TNode) (pre : List Bytes) (t' : List TNode), ensureParents o t pre cs = some t' →
      (∀ n ∈ t, n ∈ t') ∧
      ∀ k, 0 < k → k < cs.length → ∃ n ∈ t', n.path = pre ++ cs.take k ∧ isDirMode n.mode = true := by
  induction cs with
  | nil =>
    intro t pre t' h
    simp only [ensureParents, Option.some.injEq] at h
    subst h
    exact ⟨fun n hn => hn, fun k _ hk => by simp at hk⟩
  | cons c rest ih =>
    intro t pre t' h
    cases rest with
    | nil =>
      simp only [ensureParents, Option.some.injEq] at h
      subst h
      exact ⟨fun n hn => hn, fun k h0 hk => by simp at hk; omega⟩
    | cons d rest =>
      simp only [ensureParents] at h
      cases hl : lookup t (pre ++ [c]) with
      | some n =>
        rw [hl] at h
        simp only at h
        by_cases hd : isDirMode n.mode = true
        · rw [if_pos hd] at h
          obtain ⟨hkeep, hpre⟩ := ih t (pre ++ [c]) t' h
          obtain ⟨hn, hp⟩ := lookup_some _ _ _ hl
          refine ⟨hkeep, ?_⟩
          intro k h0 hk
          by_cases h1 : k = 1
          · subst h1
            exact ⟨n, hkeep n hn, by simpa using hp, hd⟩
          · obtain ⟨m, hm, hmp, hmd⟩ := hpre (k - 1) (by omega) (by simp at hk ⊢; omega)
            refine ⟨m, hm, ?_, hmd⟩
            rw [hmp]
            obtain ⟨j, rfl⟩ : ∃ j, k = j + 1 := ⟨k - 1, by omega⟩
            simp
        · rw [if_neg hd] at h; cases h
      | none =>
        rw [hl] at h
        simp only at h
        obtain ⟨hkeep, hpre⟩ := ih _ (pre ++ [c]) t' h
        refine ⟨fun n hn => hkeep n (List.mem_append_left _ hn), ?_⟩
        intro k h0 hk
        by_cases h1 : k = 1
        · subst h1
          refine ⟨_, hkeep _ (List.mem_append_right _ (List.mem_singleton.2 rfl)), by simp, ?_⟩
          exact isDirMode_default _
        · obtain ⟨m, hm, hmp, hmd⟩ := hpre (k - 1) (by omega) (by simp at hk ⊢; omega)
          refine ⟨m, hm, ?_, hmd⟩
          rw [hmp]
          obtain ⟨j, rfl⟩ : ∃ j, k = j + 1 := ⟨k - 1, by omega⟩
          simp

theorem take_eq_split (l r : Bytes) (h : l.take r.length = r) : l = r ++ l.drop r.length := by
  have := List.take_append_drop r.length l
  rw [h] at this
  exact this.symm

end Sqfs.Tar
