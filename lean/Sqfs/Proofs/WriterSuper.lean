/-
Helper lemmas for C14, part 1: little-endian fields and `decode ∘ encode` of the superblock
(kept in its own module because the 96-byte unfolding takes ~25 s to check).
-/
import Sqfs.Model.Writer
namespace Sqfs.Writer
open Sqfs.Consts

theorem le_length (n v : Nat) : (le n v).length = n := by
  induction n generalizing v with
  | zero => rfl
  | succ n ih => simp [le, ih]

theorem leVal_le2 (v : Nat) : leVal (le 2 v) = v % 2 ^ 16 := by
  simp [le, leVal]; omega
theorem leVal_le4 (v : Nat) : leVal (le 4 v) = v % 2 ^ 32 := by
  simp [le, leVal]; omega
theorem leVal_le8 (v : Nat) : leVal (le 8 v) = v % 2 ^ 64 := by
  simp [le, leVal]; omega

theorem encode_length (s : Super) : s.encode.length = sizeofSuper := by
  simp [Super.encode, le_length, sizeofSuper]

/-- a field cut out of a concatenation `a ++ x ++ b` -/
theorem field_mid (a x b : Bytes) (off n : Nat) (ha : a.length = off) (hx : x.length = n) :
    field (a ++ x ++ b) off n = leVal x := by
  subst ha; subst hx
  simp [field]

/-- the superblock with every field reduced to its on-disk width -/
def Super.wrap (s : Super) : Super where
  magic := s.magic % 2 ^ 32
  inodeCount := s.inodeCount % 2 ^ 32
  mtime := s.mtime % 2 ^ 32
  blockSize := s.blockSize % 2 ^ 32
  fragCount := s.fragCount % 2 ^ 32
  compId := s.compId % 2 ^ 16
  blockLog := s.blockLog % 2 ^ 16
  flags := s.flags % 2 ^ 16
  idCount := s.idCount % 2 ^ 16
  vMajor := s.vMajor % 2 ^ 16
  vMinor := s.vMinor % 2 ^ 16
  rootRef := s.rootRef % 2 ^ 64
  bytesUsed := s.bytesUsed % 2 ^ 64
  idStart := s.idStart % 2 ^ 64
  xattrStart := s.xattrStart % 2 ^ 64
  inodeStart := s.inodeStart % 2 ^ 64
  dirStart := s.dirStart % 2 ^ 64
  fragStart := s.fragStart % 2 ^ 64
  exportStart := s.exportStart % 2 ^ 64

set_option maxRecDepth 4000 in
theorem decode_encode (s : Super) : Super.decode s.encode = s.wrap := by
  simp only [Super.decode, Super.encode, Super.wrap, field, le, List.cons_append, List.nil_append,
    offSuperMagic, offSuperInodeCount, offSuperMtime, offSuperBlockSize, offSuperFragCount, offSuperCompId,
    offSuperBlockLog, offSuperFlags, offSuperIdCount, offSuperVersionMajor, offSuperVersionMinor,
    offSuperRootInode, offSuperBytesUsed, offSuperIdTable, offSuperXattrTable, offSuperInodeTable,
    offSuperDirTable, offSuperFragTable, offSuperExportTable,
    List.drop_succ_cons, List.drop_zero, List.take_succ_cons, List.take_zero, leVal, UInt8.toNat_ofNat']
  congr 1 <;> omega

end Sqfs.Writer
