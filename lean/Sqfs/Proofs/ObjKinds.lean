import Sqfs.Model.ObjKinds
/-! Lemmas about the table state machines: answers and successor contents depend on the used part only. -/
namespace Sqfs.Obj.Kinds

theorem Arr.append_data {α : Type} (a : Arr α) (x : α) : (a.append x).data = a.data ++ [x] := by
  unfold Arr.append; split <;> rfl

theorem idStep_data (t u : IdTable) (h : t.data = u.data) (op : IdOp) :
    (idStep t op).2 = (idStep u op).2 ∧ (idStep t op).1.data = (idStep u op).1.data := by
  cases op with
  | add id =>
    simp only [idStep, h]
    split
    · exact ⟨rfl, h⟩
    · split
      · exact ⟨rfl, h⟩
      · exact ⟨rfl, by simp [Arr.append_data, h]⟩
  | get idx =>
    simp only [idStep, h]
    split <;> exact ⟨rfl, h⟩

theorem idRun_data (ops : List IdOp) : ∀ (t u : IdTable), t.data = u.data → idRun t ops = idRun u ops := by
  induction ops with
  | nil => intros; rfl
  | cons op ops ih =>
    intro t u h
    have := idStep_data t u h op
    simp only [idRun]
    rw [this.1, ih _ _ this.2]

theorem Arr.set_data {α : Type} (a b : Arr α) (h : a.data = b.data) (i : Nat) (x : α) :
    (a.set i x).map (·.data) = (b.set i x).map (·.data) := by
  unfold Arr.set; rw [h]; split <;> simp [h]

theorem fragStep_data (t u : FragTable) (h : t.data = u.data) (op : FragOp) :
    (fragStep t op).2 = (fragStep u op).2 ∧ (fragStep t op).1.data = (fragStep u op).1.data := by
  cases op with
  | append l s => simp [fragStep, Arr.append_data, h]
  | lookup idx =>
    simp only [fragStep, h]
    split <;> exact ⟨rfl, h⟩
  | set idx l s =>
    have hs := Arr.set_data t u h idx (l, s)
    simp only [fragStep]
    cases ht : t.set idx (l, s) <;> cases hu : u.set idx (l, s) <;> simp_all
  | size => simp [fragStep, h]

theorem fragRun_data (ops : List FragOp) : ∀ (t u : FragTable), t.data = u.data → fragRun t ops = fragRun u ops := by
  induction ops with
  | nil => intros; rfl
  | cons op ops ih =>
    intro t u h
    have := fragStep_data t u h op
    simp only [fragRun]
    rw [this.1, ih _ _ this.2]

end Sqfs.Obj.Kinds
