import Sqfs.Model.ObjKinds
/-! Lemmas about the table state machines: answers and successor contents depend on the used part only. -/
namespace Sqfs.Obj.Kinds

theorem Arr.append_data {α : Type} (a : Arr α) (x : α) : (a.append x).data = a.data ++ [x] := by
  unfold Arr.append; split <;> rfl

theorem idStep_data (t u : IdTable) (h : t.data = u.data) (op : IdOp) :
    (idStep t op).2 = (idStep u op).2 ∧ (idStep t op).1.data = (idStep u op).1.data := by
  cases op with
  | add id =>
    simp only [idStep, h]
    split
    · exact ⟨rfl, h⟩
    · split
      · exact ⟨rfl, h⟩
      · exact ⟨rfl, by simp [Arr.append_data, h]⟩
  | get idx =>
    simp only [idStep, h]
    split <;> exact ⟨rfl, h⟩

theorem idRun_data (ops : List IdOp) : ∀ (t u : IdTable), t.data = u.data → idRun t ops = idRun u ops := by
  induction ops with
  | nil => intros; rfl
  | cons op ops ih =>
    intro t u h
    have := idStep_data t u h op
    simp only [idRun]
    rw [this.1, ih _ _ this.2]

theorem Arr.set_data {α : Type} (a b : Arr α) (h : a.data = b.data) (i : Nat) (x : α) :
    (a.set i x).map (·.data) = (b.set i x).map (·.data) := by
  unfold Arr.set; rw [h]; split <;> simp [h]

theorem fragStep_data (t u : FragTable) (h : t.data = u.data) (op : FragOp) :
    (fragStep t op).2 = (fragStep u op).2 ∧ (fragStep t op).1.data = (fragStep u op).1.data := by
  cases op with
  | append l s => simp [fragStep, Arr.append_data, h]
  | lookup idx =>
    simp only [fragStep, h]
    split <;> exact ⟨rfl, h⟩
  | set idx l s =>
    have hs := Arr.set_data t u h idx (l, s)
    simp only [fragStep]
    cases ht : t.set idx (l, s) <;> cases hu : u.set idx (l, s) <;> simp_all
  | size => simp [fragStep, h]

theorem fragRun_data (ops : List FragOp) : ∀ (t u : FragTable), t.data = u.data → fragRun t ops = fragRun u ops := by
  induction ops with
  | nil => intros; rfl
  | cons op ops ih =>
    intro t u h
    have := fragStep_data t u h op
    simp only [fragRun]
    rw [this.1, ih _ _ this.2]

/-! ### `fill`: the one-step set-up of a large id table is what the adds would have built -/

theorem Arr.appendAll_cons {α : Type} (a : Arr α) (x : α) (xs : List α) : a.appendAll (x :: xs) = (a.append x).appendAll xs := by
  unfold Arr.appendAll Arr.append
  simp only [List.length_cons, capAfter]
  split <;> simp

theorem Arr.appendAll_eq_foldl {α : Type} (xs : List α) : ∀ a : Arr α, xs.foldl Arr.append a = a.appendAll xs := by
  induction xs with
  | nil => intro a; simp [Arr.appendAll, capAfter]
  | cons x xs ih => intro a; rw [List.foldl_cons, ih, Arr.appendAll_cons]

theorem Arr.appendAll_snoc {α : Type} (a : Arr α) (xs : List α) (x : α) : a.appendAll (xs ++ [x]) = (a.appendAll xs).append x := by
  rw [← Arr.appendAll_eq_foldl, List.foldl_append, List.foldl_cons, List.foldl_nil, Arr.appendAll_eq_foldl]

/-- the ids added one by one -/
def idAdds (t : IdTable) (ids : List Nat) : IdTable := ids.foldl (fun t id => (idStep t (.add id)).1) t

theorem idFill_data (n : Nat) : (idFill n).data = List.range n := by simp [idFill, Arr.appendAll, Arr.empty]

/-- `fill n` (n ≤ 0xFFFF) leaves exactly the table that `n` calls of `sqfs_id_table_id_to_index` with the ids
`0 … n-1` leave (contents and capacity) -/
theorem idFill_eq_adds (n : Nat) (hn : n ≤ idLimit) : idAdds Arr.empty (List.range n) = idFill n := by
  induction n with
  | zero => simp [idAdds, idFill, Arr.appendAll, capAfter]
  | succ n ih =>
    have ih := ih (by omega)
    unfold idAdds at ih ⊢
    rw [List.range_succ, List.foldl_append, ih]
    simp only [List.foldl_cons, List.foldl_nil, idStep]
    have hno : (idFill n).data.idxOf? n = none := by
      rw [idFill_data]; simp
    rw [hno]
    have hlen : ¬ (idFill n).data.length ≥ idLimit := by rw [idFill_data]; simp; omega
    simp only [hlen, if_false]
    unfold idFill
    rw [List.range_succ, Arr.appendAll_snoc]

end Sqfs.Obj.Kinds
