/-
Termination lemmas of the directory walks (C05).  Uses one Mathlib module for the pigeonhole step.
-/
import Sqfs.Model.ReaderWalk
import Mathlib.Data.List.Perm.Subperm
namespace Sqfs.ReaderWalk
open Sqfs.ReaderBounds (Err)

theorem sumEntries_ne_fuel (sub : Nat → Except Err Nat) (isDir : Nat → Bool) (l : List Nat)
    (h : ∀ c ∈ l, isDir c = true → sub c ≠ .error .fuel) : sumEntries sub isDir l ≠ .error .fuel := by
  induction l with
  | nil => simp [sumEntries]
  | cons c t ih =>
    unfold sumEntries
    have ht := ih (fun c hc => h c (List.mem_cons_of_mem _ hc))
    by_cases hd : isDir c = true
    · have hc := h c List.mem_cons_self hd
      simp only [hd, if_true]
      cases hs : sub c with
      | error e => simp; intro he; apply hc; rw [hs, he]
      | ok k =>
        simp only []
        cases ht' : sumEntries sub isDir t with
        | error e => simp; intro he; apply ht; rw [ht', he]
        | ok n => simp
    · simp only [hd]
      cases ht' : sumEntries sub isDir t with
      | error e => simp; intro he; apply ht; rw [ht', he]
      | ok n => simp

theorem nodup_subset_length {α : Type} (l S : List α) (h : l.Nodup) (hs : ∀ x ∈ l, x ∈ S) : l.length ≤ S.length :=
  (List.Nodup.subperm h hs).length_le

theorem fillDir_ne_fuel (g : DirGraph) (S : List UInt32)
    (hS : ∀ r c, c ∈ g.entries r → g.isDir c = true → g.inum c ∈ S) :
    ∀ (fuel : Nat) (anc : List UInt32) (ref : Nat), anc.Nodup → (∀ x ∈ anc, x ∈ S) →
      S.length < fuel + anc.length → fillDir g fuel anc ref ≠ .error .fuel := by
  intro fuel
  induction fuel with
  | zero =>
    intro anc ref hn hs hlt
    have := nodup_subset_length anc S hn hs
    omega
  | succ fuel ih =>
    intro anc ref hn hs hlt
    unfold fillDir
    split
    · simp
    · rename_i hany
      apply sumEntries_ne_fuel
      intro c hc hd
      have hnot : g.inum c ∉ anc := by
        intro hmem
        apply hany
        rw [List.any_eq_true]
        exact ⟨c, hc, by simpa using hmem⟩
      apply ih
      · exact List.nodup_cons.2 ⟨hnot, hn⟩
      · intro x hx
        rcases List.mem_cons.1 hx with rfl | hx
        · exact hS ref c hc hd
        · exact hs x hx
      · simp only [List.length_cons]; omega

theorem dirRec_ne_fuel (g : DirGraph) (R : List Nat) (hR : ∀ r c, c ∈ g.entries r → g.isDir c = true → c ∈ R) :
    ∀ (fuel : Nat) (stack : List Nat) (ref : Nat), stack.Nodup → (∀ x ∈ stack, x ∈ R) →
      R.length < fuel + stack.length → dirRec true g fuel stack ref ≠ .error .fuel := by
  intro fuel
  induction fuel with
  | zero =>
    intro st ref hn hs hlt
    have := nodup_subset_length st R hn hs
    omega
  | succ fuel ih =>
    intro st ref hn hs hlt
    unfold dirRec
    apply sumEntries_ne_fuel
    intro c hc hd
    simp only [Bool.true_and]
    split
    · simp
    · rename_i hnc
      have hnot : c ∉ st := by simpa using hnc
      apply ih
      · exact List.nodup_cons.2 ⟨hnot, hn⟩
      · intro x hx
        rcases List.mem_cons.1 hx with rfl | hx
        · exact hR ref _ hc hd
        · exact hs x hx
      · simp only [List.length_cons]; omega

end Sqfs.ReaderWalk
