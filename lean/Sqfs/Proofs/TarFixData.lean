/-
C04 — reading an ordinary (non-sparse) file through the tar file stream: the empty map.
-/
import Sqfs.Proofs.TarSparseChunk
namespace Sqfs.Tar

theorem isSparseRegion_nil (F off : Nat) : isSparseRegion [] F off = (false, F - off) := rfl

theorem expandLoopC_nil_step (F want f offset rsz : Nat) (s acc : Bytes) :
    expandLoopC [] F want (f + 1) offset rsz s acc =
      if offset ≥ F then ⟨acc, s, rsz, .eof⟩
      else
        if F - offset = 0 then ⟨acc, s, rsz, .eof⟩
        else
          let n := if F - offset > want - offset % want then want - offset % want else F - offset
          if s.isEmpty then ⟨acc, s, rsz, .corrupted⟩
          else
            expandLoopC [] F want f (offset + (s.take n).length)
              ((rsz + U64 - (s.take n).length % U64) % U64) (s.drop (s.take n).length) (acc ++ s.take n) := by
  rfl

/-- the request-granular walk over a file without a sparse map hands out exactly the `F` bytes of the record, whatever the
    request size -/
theorem expandLoopC_plain (want : Nat) (hw : 1 ≤ want) (F : Nat) (hF : F < U64) :
    ∀ (f off : Nat) (d tail acc : Bytes), off + d.length = F → F - off + 1 ≤ f →
      expandLoopC [] F want f off d.length (d ++ tail) acc = ⟨acc ++ d, tail, 0, .eof⟩ := by
  intro f
  induction f with
  | zero => intro off d tail acc _ hf; omega
  | succ f ih =>
    intro off d tail acc hlen hf
    rw [expandLoopC_nil_step]
    by_cases hoff : off ≥ F
    · have : d = [] := by
        have : d.length = 0 := by omega
        exact List.eq_nil_of_length_eq_zero this
      subst this
      simp [hoff]
    · rw [if_neg hoff]
      have hne : ¬ (F - off = 0) := by omega
      simp only [hne, if_false]
      have hdne : (d ++ tail).isEmpty = false := by
        cases d with
        | nil => simp at hlen; omega
        | cons _ _ => rfl
      rw [hdne]
      simp only [Bool.false_eq_true, if_false]
      -- the request
      have hmod : off % want < want := Nat.mod_lt _ (by omega)
      generalize hn : (if F - off > want - off % want then want - off % want else F - off) = n
      have hn1 : 1 ≤ n := by rw [← hn]; split <;> omega
      have hn2 : n ≤ d.length := by rw [← hn]; split <;> omega
      have htk : (d ++ tail).take n = d.take n := by
        rw [List.take_append_of_le_length hn2]
      have htl : (d.take n).length = n := by rw [List.length_take]; omega
      rw [htk, htl]
      have hdrop : (d ++ tail).drop n = d.drop n ++ tail := List.drop_append_of_le_length hn2
      rw [hdrop]
      have hrs : (d.length + U64 - n % U64) % U64 = (d.drop n).length := by
        rw [List.length_drop]
        have : n % U64 = n := Nat.mod_eq_of_lt (by omega)
        rw [this]
        have : d.length + U64 - n = (d.length - n) + U64 := by omega
        rw [this, Nat.add_mod_right]
        exact Nat.mod_eq_of_lt (by omega)
      rw [hrs]
      rw [ih (off + n) (d.drop n) tail (acc ++ d.take n) (by rw [List.length_drop]; omega) (by omega)]
      simp [List.append_assoc]

theorem expandC_plain (want : Nat) (hw : 1 ≤ want) (d tail : Bytes) (hF : d.length < U64) :
    expandC want [] d.length d.length (d ++ tail) = ⟨d, tail, 0, .eof⟩ := by
  unfold expandC
  have := expandLoopC_plain want hw d.length hF (d.length + 4) 0 d tail [] (by omega) (by omega)
  simpa using this

end Sqfs.Tar
