/-
C01 — xattr flush → read through the location array: `sqfs_xattr_reader_get_desc` finds descriptor `j` via
`id_block_starts[]`, `read_all` then reads the set.
-/
import Sqfs.Proofs.EncXattrLoc
namespace Sqfs.Enc
open Sqfs.Consts
open Sqfs.MetaWriter (Block Codec run)

theorem encDescs_drop : ∀ (l : List XDesc) (j : Nat) (d : XDesc), l[j]? = some d →
    ∃ tail, (encDescs l).drop (j * sizeofXattrId) = encDesc d ++ tail := by
  intro l
  induction l with
  | nil => intro j d h; simp at h
  | cons x l ih =>
    intro j d h
    cases j with
    | zero =>
      simp only [List.getElem?_cons_zero, Option.some.injEq] at h
      subst h
      exact ⟨encDescs l, by simp [encDescs]⟩
    | succ j =>
      simp only [List.getElem?_cons_succ] at h
      obtain ⟨tail, ht⟩ := ih j d h
      refine ⟨tail, ?_⟩
      have : (j + 1) * sizeofXattrId = (encDesc x).length + j * sizeofXattrId := by
        rw [encDesc_length]; simp only [sizeofXattrId]; omega
      simp only [encDescs, List.map_cons, List.flatten_cons] at ht ⊢
      rw [this, ← List.drop_drop, List.drop_left]
      exact ht

/-- `get_desc` through the location array returns descriptor `j` -/
theorem getDesc_flush {cmp : Codec} {unc : Unc} (hc : CodecOk cmp unc) (refOf : Nat → Nat) (posOf : Nat → Option Nat)
    (w : XWriter) (j : Nat) (d : XDesc) (hj : (flushKv refOf w).2[j]? = some d)
    (h1 : d.ref < 2 ^ 64) (h2 : d.count < 2 ^ 32) (h3 : d.size < 2 ^ 32) :
    getDesc ((xattrFlush cmp refOf w).reader unc posOf) j = .ok d := by
  have h8 : metaBlockSize = 8192 := rfl
  obtain ⟨hjl, _⟩ := List.getElem?_eq_some_iff.mp hj
  have hn : 0 < (flushKv refOf w).2.length := by omega
  obtain ⟨hlocs, hlen⟩ := xattrFlush_locs cmp refOf w hn
  unfold getDesc XFlush.reader
  simp only
  have hdescs : (xattrFlush cmp refOf w).descs = (flushKv refOf w).2 := rfl
  have hblocks : (xattrFlush cmp refOf w).idBlocks = (run cmp ((flushKv refOf w).2.map encDesc)).out := rfl
  rw [hdescs, if_neg (by omega)]
  generalize hdd : (flushKv refOf w).2 = descs at *
  obtain ⟨hok, hraw⟩ := run_blocksOk cmp (descs.map encDesc)
  have hfull := run_full cmp (descs.map encDesc)
  have hrawd : rawOf (run cmp (descs.map encDesc)).out = encDescs descs := by rw [hraw]; rfl
  have hflat : (encDescs descs).length = descs.length * 16 := by
    have := flatten_take_descs descs descs.length (Nat.le_refl _)
    rw [show (descs.map encDesc).take descs.length = descs.map encDesc from List.take_of_length_le (by simp)] at this
    exact this
  -- the block the descriptor lies in has a slot
  have hq : j * sizeofXattrId / metaBlockSize < (xattrFlush cmp refOf w).idBlocks.length := by
    rw [hlen, hdescs]; unfold locCount; simp only [sizeofXattrId, h8]
    split <;> omega
  rw [hlocs, List.getElem?_map, List.getElem?_range hq]
  simp only [Option.map_some]
  rw [hblocks]
  have hp : j * sizeofXattrId < (rawOf (run cmp (descs.map encDesc)).out).length := by
    rw [hrawd, hflat]; simp only [sizeofXattrId]; omega
  have hrd := metaReadAt_refOfPos hc _ hok hfull (j * sizeofXattrId) sizeofXattrId hp
    (by rw [hrawd, hflat]; simp only [sizeofXattrId]; omega)
  simp only [refOfPos] at hrd
  rw [hrd, hrawd]
  obtain ⟨tail, ht⟩ := encDescs_drop descs j d hj
  rw [ht, ← encDesc_length d, List.take_left]
  simp only
  have hf := readFields_encFields_fit [(8, d.ref), (4, d.count), (4, d.size)] [] (by
    simp only [List.forall_mem_cons, List.not_mem_nil, false_imp_iff, implies_true, and_true]
    refine ⟨?_, ?_, ?_⟩ <;> simp <;> omega)
  simp only [List.map_cons, List.map_nil, List.append_nil] at hf
  simp only [encDesc, hf]

/-- **xattr flush → read, for a writer state.**  `w`: any state of the xattr writer whose recorded pairs are
representable; `(refOf, posOf)`: any reference encoding meeting `RefOk` up to the length of the key/value stream
(`refOk_raw`, `refOk_blocks`); `(cmp, unc)`: any codec pair meeting `CodecOk` for the id table.  Reading set index `j`
— descriptor through `id_block_starts[]`, seek to its reference, `count` pairs, out-of-line values followed — yields
the pairs of block `j` with the interned strings put back. -/
theorem readSet_xattrFlush {cmp : Codec} {unc : Unc} (hc : CodecOk cmp unc) (refOf : Nat → Nat) (posOf : Nat → Option Nat)
    (bound : Nat) (hr : RefOk refOf posOf bound) (w : XWriter)
    (hbound : (flushKv refOf w).1.length ≤ bound) (hkv32 : (flushKv refOf w).1.length < 2 ^ 32)
    (hpairs32 : w.pairs.length < 2 ^ 32)
    (hp : ∀ b ∈ w.blocks, ∀ p ∈ blockPairs w.pairs b, PairOk w p)
    (hcount : ∀ b ∈ w.blocks, (blockPairs w.pairs b).length = b.2)
    (j : Nat) (hj : j < w.blocks.length) (hj32 : j ≠ NONE32) :
    readSet ((xattrFlush cmp refOf w).reader unc posOf) j = .ok (w.setOf j) := by
  obtain ⟨d, e, l, rd⟩ := writeBlocks_spec refOf posOf bound hr w w.blocks { out := [], ool := List.replicate w.values.length NONE64 }
    (oolInv_init refOf w _) hp
  simp only [List.nil_append] at e rd
  have hfk1 : (flushKv refOf w).1 = d := by simp only [flushKv]; exact e
  have hfk2 : (flushKv refOf w).2 = (writeBlocks refOf w { out := [], ool := List.replicate w.values.length NONE64 } w.blocks).2 := rfl
  obtain ⟨b, hb⟩ : ∃ b, w.blocks[j]? = some b := ⟨w.blocks[j], by simp [hj]⟩
  obtain ⟨ds, hds⟩ : ∃ ds, (flushKv refOf w).2[j]? = some ds := by
    rw [hfk2]
    exact ⟨_, List.getElem?_eq_getElem (by rw [l]; exact hj)⟩
  obtain ⟨r, hrdef⟩ : ∃ r : XReader, r = (xattrFlush cmp refOf w).reader unc posOf := ⟨_, rfl⟩
  have hkv : r.kv = (flushKv refOf w).1 := by rw [hrdef]; rfl
  have hpo : r.posOf = posOf := by rw [hrdef]; rfl
  obtain ⟨hcnt, hsize, pos, hposle, hpos, hread⟩ := rd r hpo (by rw [hkv]; exact hbound) ⟨[], by rw [hkv, hfk1]; simp⟩ j b ds hb
    (by rw [← hfk2]; exact hds)
  have hbm : b ∈ w.blocks := List.mem_of_getElem? hb
  have hb2 : b.2 ≤ w.pairs.length := by
    rw [← hcount b hbm]; unfold blockPairs; simp only [List.length_take, List.length_drop]; omega
  have hg := getDesc_flush hc refOf posOf w j ds hds (by rw [hpos]; exact hr.lt _ (by rw [hkv] at hposle; omega))
    (by omega) (by rw [hfk1] at hkv32; omega)
  rw [← hrdef] at hg ⊢
  unfold readSet
  simp only [hj32, if_false, hg, hpo, hpos, hr.inv pos (by rw [hkv] at hposle; omega)]
  rw [hcnt, ← hcount b hbm, hread]
  simp [XWriter.setOf, hb, keyOf, valOf]

end Sqfs.Enc
