/-
Helper lemmas for C06, part 4: confinement from a weaker hypothesis than freshness.  The unpack root may hold anything
(files, directories, devices left by an earlier run, …) as long as no *symbolic link* sits strictly below it: the
invariant is then "every symbolic link below R is the object of a visited symlink node", which is all the proof of
confinement ever needed.  Property theorems live in `Sqfs/Props/C06.lean`.
-/
import Sqfs.Proofs.UnpackRun
namespace Sqfs.Unpack
open Sqfs.Path

/-- `R` is a directory and no symbolic link exists strictly below it (anything else may) -/
def NoLinkBelow (fs : Fs) (R : PathC) : Prop :=
  (∃ a, fs R = some ⟨.dir, a⟩) ∧ ∀ p, underB R p = true → ∀ t a, fs p ≠ some ⟨.symlink t, a⟩

theorem Fresh.noLinkBelow {fs : Fs} {R : PathC} (h : Fresh fs R) : NoLinkBelow fs R :=
  ⟨h.1, fun p hp t a e => by rw [h.2 p hp] at e; cases e⟩

/-- every proper, non-empty prefix of `comps` (below `cur`) is not a symbolic link -/
def PrefNoLink (fs : Fs) (cur : PathC) (comps : List Bytes) : Prop :=
  ∀ pre, pre <+: comps → pre ≠ [] → pre ≠ comps → NotSymlink (fs (cur ++ pre))

theorem PrefNoLink.tail {fs : Fs} {cur : PathC} {c : Bytes} {rest : List Bytes}
    (h : PrefNoLink fs cur (c :: rest)) : PrefNoLink fs (cur ++ [c]) rest := by
  intro pre hp hne hne2
  have := h (c :: pre) (by simpa using hp) (by simp) (by simpa using hne2)
  simpa using this

/-- like `walkL_clean`, the prefixes being anything but symbolic links: a non-directory on the way is `ENOTDIR` -/
theorem walkL_cleanW (k : PathC → List Bytes → Bool → Res) (fs : Fs) :
    ∀ (comps : List Bytes) (cur : PathC) (fl : Bool), AllGood comps → comps ≠ [] → PrefNoLink fs cur comps →
      (fl = false ∨ NotSymlink (fs (cur ++ comps))) →
      (∃ e, walkL k fs cur comps fl = .error e) ∨ walkL k fs cur comps fl = .ok (cur ++ comps, fs (cur ++ comps)) := by
  intro comps
  induction comps with
  | nil => intro _ _ _ h; exact absurd rfl h
  | cons c rest ih =>
    intro cur fl hg _ hp hfin
    obtain ⟨h1, _, h3, h4⟩ := hg c (by simp)
    unfold walkL
    rw [if_neg (by simp [h1, h3]), if_neg h4]
    split
    · exact Or.inl ⟨_, rfl⟩
    · cases rest with
      | nil =>
        simp only [List.isEmpty_nil, if_true, Bool.true_and]
        cases hfs : fs (cur ++ [c]) with
        | none => exact Or.inr rfl
        | some n =>
          obtain ⟨kd, a⟩ := n
          cases kd with
          | dir => exact Or.inr rfl
          | file _ => exact Or.inr rfl
          | special _ _ => exact Or.inr rfl
          | symlink t =>
            rcases hfin with hf | hf
            · subst hf; exact Or.inr rfl
            · exact absurd hfs (hf t a)
      | cons d rest' =>
        have hpre := hp [c] (by simp) (by simp) (by simp)
        simp only [List.isEmpty_cons, Bool.false_and, Bool.false_eq_true, if_false]
        cases hfs : fs (cur ++ [c]) with
        | none => exact Or.inl ⟨_, rfl⟩
        | some n =>
          obtain ⟨kd, a⟩ := n
          cases kd with
          | dir =>
            have hrec := ih (cur ++ [c]) fl (fun x hx => hg x (by simp [hx])) (by simp) hp.tail (by simpa using hfin)
            simpa using hrec
          | file _ => exact Or.inl ⟨_, rfl⟩
          | special _ _ => exact Or.inl ⟨_, rfl⟩
          | symlink t => exact absurd hfs (hpre t a)

theorem resolve_goodW (fs : Fs) (R : PathC) (comps : List Bytes) (fl : Bool) (hg : AllGood comps)
    (hp : PrefNoLink fs R comps) (hfin : fl = false ∨ NotSymlink (fs (R ++ comps))) :
    (∃ e, resolve fs R (joinSlash comps) fl = .error e) ∨
      (comps ≠ [] ∧ resolve fs R (joinSlash comps) fl = .ok (R ++ comps, fs (R ++ comps))) := by
  by_cases hne : comps = []
  · subst hne; left; exact ⟨.ENOENT, by simp [resolve, joinSlash]⟩
  · obtain ⟨hj1, hj2⟩ := joinSlash_good_ne_nil hg hne
    unfold resolve
    rw [if_neg (by cases hj : joinSlash comps <;> simp_all)]
    split
    · exact Or.inl ⟨_, rfl⟩
    · rw [splitSlash_joinSlash_good hg hne]
      have hw : (∃ e, walk MAXSYMLINKS fs R comps fl = .error e) ∨
          walk MAXSYMLINKS fs R comps fl = .ok (R ++ comps, fs (R ++ comps)) := by
        unfold MAXSYMLINKS walk
        exact walkL_cleanW _ fs comps R fl hg hne hp hfin
      rcases hw with h | h
      · exact Or.inl h
      · exact Or.inr ⟨hne, h⟩

/-- the weak invariant: nothing outside R has changed, and every symbolic link below R is at the path of a visited
    symlink node -/
structure InvW (V : VSet) (R : PathC) (fs₀ fs : Fs) : Prop where
  out : ∀ p, underB R p = false → fs p = fs₀ p
  lnk : ∀ comps, comps ≠ [] → ∀ t a, fs (R ++ comps) = some ⟨.symlink t, a⟩ → (comps, Kind.lnk) ∈ V

theorem InvW.start {V : VSet} {R : PathC} {fs₀ : Fs} (h : NoLinkBelow fs₀ R) : InvW V R fs₀ fs₀ :=
  ⟨fun _ _ => rfl, fun comps hne t a e => absurd e (h.2 _ (underB_append R hne) t a)⟩

/-- where a symbolic link in the file system after a call comes from: it was there (same target), or the call is the
    `symlink` that made it at a name where nothing was -/
theorem step_symlink_origin {fs fs' : Fs} {R : PathC} {sc : Syscall} (h : step fs R sc = .ok fs') (q : PathC) (t : Bytes)
    (a : FAttr) (hq : fs' q = some ⟨.symlink t, a⟩) :
    (∃ a', fs q = some ⟨.symlink t, a'⟩) ∨ (∃ p, sc = .symlink t p ∧ resolve fs R p false = .ok (q, none)) := by
  have keep : ∀ (key : PathC) (n : Node), fs' = fs.set key n → (q = key → ∀ t', n.kind ≠ .symlink t') →
      ∃ a', fs q = some ⟨.symlink t, a'⟩ := by
    intro key n e hk
    subst e
    by_cases hqk : q = key
    · simp only [Fs.set, if_pos hqk] at hq
      cases hq
      exact absurd rfl (hk hqk t)
    · simp only [Fs.set, if_neg hqk] at hq
      exact ⟨a, hq⟩
  have same : ∀ (key : PathC) (n₀ n : Node), fs key = some n₀ → fs' = fs.set key n → n.kind = n₀.kind →
      ∃ a', fs q = some ⟨.symlink t, a'⟩ := by
    intro key n₀ n h0 e hk
    subst e
    by_cases hqk : q = key
    · simp only [Fs.set, if_pos hqk] at hq
      subst hqk
      obtain ⟨k0, a0⟩ := n₀
      cases hq
      simp only at hk
      exact ⟨a0, by rw [h0, ← hk]⟩
    · simp only [Fs.set, if_neg hqk] at hq
      exact ⟨a, hq⟩
  cases sc with
  | mkdir p m =>
    simp only [step] at h
    split at h
    · cases h
    · cases h
    · rename_i key hr
      cases h
      exact Or.inl (keep key _ rfl (fun _ t' e => by cases e))
  | symlink tg p =>
    simp only [step] at h
    split at h
    · cases h
    · split at h
      · cases h
      · split at h
        · cases h
        · cases h
        · rename_i key hr
          cases h
          by_cases hqk : q = key
          · simp only [Fs.set, if_pos hqk] at hq
            cases hq
            exact Or.inr ⟨p, rfl, by rw [hqk]; exact hr⟩
          · simp only [Fs.set, if_neg hqk] at hq
            exact Or.inl ⟨a, hq⟩
  | mknod p kd m d =>
    simp only [step] at h
    split at h
    · cases h
    · cases h
    · rename_i key hr
      cases h
      exact Or.inl (keep key _ rfl (fun _ t' e => by cases e))
  | openExcl p m =>
    simp only [step] at h
    split at h
    · cases h
    · cases h
    · rename_i key hr
      cases h
      exact Or.inl (keep key _ rfl (fun _ t' e => by cases e))
  | openTrunc p data =>
    simp only [step] at h
    split at h
    · cases h
    · rename_i key hr
      cases h
      exact Or.inl (keep key _ rfl (fun _ t' e => by cases e))
    · rename_i key c a0 hr
      cases h
      exact Or.inl (keep key _ rfl (fun _ t' e => by cases e))
    · cases h
    · cases h
    · cases h
    · cases h; exact Or.inl ⟨a, hq⟩
  | setxattr p k v nf =>
    simp only [step] at h
    split at h
    · cases h
    · cases h
    · rename_i key n hr
      split at h
      · cases h
      · split at h
        · cases h
        · cases h
          exact Or.inl (same key n _ (resolve_snd hr).symm rfl rfl)
  | utimens p tm nf =>
    simp only [step] at h
    split at h
    · cases h
    · cases h
    · rename_i key n hr
      cases h
      exact Or.inl (same key n _ (resolve_snd hr).symm rfl rfl)
  | chown p u g nf =>
    simp only [step] at h
    split at h
    · cases h
    · cases h
    · rename_i key n hr
      cases h
      exact Or.inl (same key n _ (resolve_snd hr).symm rfl rfl)
  | chmod p m =>
    simp only [step] at h
    split at h
    · cases h
    · cases h
    · rename_i key n hr
      cases h
      exact Or.inl (same key n _ (resolve_snd hr).symm rfl rfl)

/-- under the weak invariant a call made for a member of `V` resolves to that member's place or fails -/
theorem InvW.resolves {V : VSet} {R : PathC} {fs₀ fs : Fs} (hi : InvW V R fs₀ fs) (hf : VFun V) (hp : VPrefix V)
    {comps : List Bytes} {k : Kind} (hm : (comps, k) ∈ V) (hg : AllGood comps) (fl : Bool) (hfl : fl = false ∨ k ≠ .lnk) :
    (∃ e, resolve fs R (joinSlash comps) fl = .error e) ∨
      (comps ≠ [] ∧ resolve fs R (joinSlash comps) fl = .ok (R ++ comps, fs (R ++ comps))) := by
  by_cases hne : comps = []
  · subst hne; left; exact ⟨.ENOENT, by simp [resolve, joinSlash]⟩
  · apply resolve_goodW fs R comps fl hg
    · intro pre hpre hne1 hne2 t a hfs
      have hd := hp comps k pre hm hpre hne1 hne2
      have hl := hi.lnk pre hne1 t a hfs
      have := hf pre .dir .lnk hd hl
      cases this
    · rcases hfl with h | h
      · exact Or.inl h
      · right
        intro t a hfs
        exact h (hf comps k .lnk hm (hi.lnk comps hne t a hfs))

/-- **one call** keeps the weak invariant -/
theorem InvW.step {V : VSet} {R : PathC} {fs₀ fs fs' : Fs} {sc : Syscall} (hi : InvW V R fs₀ fs) (hf : VFun V)
    (hp : VPrefix V) (ho : OpFor V sc) (hs : step fs R sc = .ok fs') : InvW V R fs₀ fs' := by
  obtain ⟨comps, k, hm, hg, hpath, hc⟩ := ho
  have hres := fun fl hfl => hi.resolves hf hp hm hg fl hfl
  constructor
  · -- nothing outside R is written
    rcases step_shape hs with rfl | ⟨key, cur, n, hr, rfl, _⟩
    · exact hi.out
    · rcases hres sc.follows (Syscall.follows_compat hc) with ⟨e, he⟩ | ⟨hne, hok⟩
      · rw [hpath, he] at hr; cases hr
      · rw [hpath, hok] at hr
        cases hr
        intro q hq
        have : q ≠ R ++ comps := by
          intro e; subst e; rw [underB_append R hne] at hq; cases hq
        simp only [Fs.set, if_neg this]
        exact hi.out q hq
  · -- every symbolic link below R belongs to a symlink node
    intro comps' hne' t a hq
    rcases step_symlink_origin hs (R ++ comps') t a hq with ⟨a', h0⟩ | ⟨p, rfl, hr⟩
    · exact hi.lnk comps' hne' t a' h0
    · simp only [Compat] at hc
      subst hc
      simp only [Syscall.path] at hpath
      rcases hres false (Or.inl rfl) with ⟨e, he⟩ | ⟨_, hok⟩
      · rw [hpath, he] at hr; cases hr
      · rw [hpath, hok] at hr
        have heq : R ++ comps = R ++ comps' := by
          have := congrArg (fun x => match x with | Except.ok (k, _) => k | Except.error _ => []) hr
          simpa using this
        have : comps = comps' := List.append_cancel_left heq
        subst this
        exact hm

/-- **a run, whatever fails**, keeps the weak invariant -/
theorem InvW.run {V : VSet} {R : PathC} {fs₀ : Fs} (hf : VFun V) (hp : VPrefix V) (flt : Faults) :
    ∀ (scs : List Syscall) (i : Nat) (fs : Fs), InvW V R fs₀ fs → (∀ sc ∈ scs, OpFor V sc) →
      InvW V R fs₀ (run flt R i fs scs).fs := by
  intro scs
  induction scs with
  | nil => intro i fs hi _; exact hi
  | cons sc r ih =>
    intro i fs hi ho
    unfold Unpack.run
    split
    · rename_i fs' hs
      exact ih (i + 1) fs' (hi.step hf hp (ho sc (by simp)) (stepF_ok hs).2) (fun x hx => ho x (by simp [hx]))
    · split
      · exact ih (i + 1) fs hi (fun x hx => ho x (by simp [hx]))
      · exact hi

theorem InvW.outside_eq {V : VSet} {R : PathC} {fs₀ fs : Fs} (hi : InvW V R fs₀ fs) : outside R fs = outside R fs₀ := by
  funext p
  unfold outside
  cases h : underB R p with
  | true => rfl
  | false => simpa using hi.out p h

end Sqfs.Unpack
