/-
C01 — `sqfs_inode_set_file_size` / `sqfs_inode_set_file_block_start` never truncate: a value that does not fit the
basic layout's 32-bit field makes the inode extended, everything else a reader sees stays, and a basic file inode
always has both fields within 32 bits (the premise `selection_minimal_and_safe` takes for basic inodes).
-/
import Sqfs.Model.EncInode
namespace Sqfs.Enc
open Sqfs.Consts

/-- both 64-bit fields of a basic file inode fit its 32-bit slots -/
def FileFits (i : Inode) : Prop := ∀ b st fi fo sz blks, i = .file b st fi fo sz blks → st ≤ 0xFFFFFFFF ∧ sz ≤ 0xFFFFFFFF

theorem setFileSize_spec (size : Nat) (i i' : Inode) (h : setFileSize size i = some i') :
    i'.view.nums = i.view.nums.set 1 size
    ∧ i'.view.typeBits = i.view.typeBits ∧ i'.view.base = i.view.base ∧ i'.view.xattr = i.view.xattr
    ∧ i'.view.words = i.view.words ∧ i'.view.bytes = i.view.bytes
    ∧ (1 ≤ i.view.nlink → i'.view.nlink = i.view.nlink)
    ∧ (size > 0xFFFFFFFF → i'.isExt = true)
    ∧ (FileFits i → FileFits i') := by
  cases i with
  | fileExt b st sz sp nl fi fo x blks =>
    simp only [setFileSize, putFileSize, Option.some.injEq] at h
    subst h
    by_cases hs : size < 0xFFFFFFFF
    · rw [if_pos hs]
      simp only [makeBasic]
      by_cases hx : x ≠ NONE32
      · rw [if_pos hx]
        simp [Inode.view, Inode.isExt, FileFits]
      · rw [if_neg hx]
        by_cases hf : st > 0xFFFFFFFF ∨ size > 0xFFFFFFFF ∨ sp > 0 ∨ nl > 1
        · rw [if_pos hf]
          simp [Inode.view, Inode.isExt, FileFits]
        · rw [if_neg hf]
          simp only [not_or, Nat.not_lt, Decidable.not_not, ne_eq] at hf hx
          obtain ⟨f1, f2, f3, f4⟩ := hf
          have hsp : sp = 0 := by omega
          subst hsp; subst hx
          refine ⟨rfl, rfl, rfl, rfl, rfl, rfl, ?_, ?_, ?_⟩
          · intro h1; simp only [Inode.view] at h1 ⊢; omega
          · intro h1; omega
          · intro _ b' st' fi' fo' sz' blks' he; cases he; exact ⟨f1, f2⟩
    · rw [if_neg hs]
      simp [Inode.view, Inode.isExt, FileFits]
  | file b st fi fo sz blks =>
    simp only [setFileSize] at h
    by_cases hs : size > 0xFFFFFFFF
    · rw [if_pos hs] at h
      simp only [makeExtended, putFileSize, Option.some.injEq] at h
      subst h
      simp [Inode.view, Inode.isExt, FileFits]
    · rw [if_neg hs] at h
      simp only [putFileSize, Option.some.injEq] at h
      subst h
      refine ⟨rfl, rfl, rfl, rfl, rfl, rfl, fun _ => rfl, fun h1 => absurd h1 hs, ?_⟩
      intro hf b' st' fi' fo' sz' blks' he
      cases he
      have := hf _ _ _ _ _ _ rfl
      exact ⟨by omega, by omega⟩
  | _ => simp [setFileSize] at h

theorem setFileBlockStart_spec (loc : Nat) (i i' : Inode) (h : setFileBlockStart loc i = some i') :
    i'.view.nums = i.view.nums.set 0 loc
    ∧ i'.view.typeBits = i.view.typeBits ∧ i'.view.base = i.view.base ∧ i'.view.xattr = i.view.xattr
    ∧ i'.view.words = i.view.words ∧ i'.view.bytes = i.view.bytes
    ∧ (1 ≤ i.view.nlink → i'.view.nlink = i.view.nlink)
    ∧ (loc > 0xFFFFFFFF → i'.isExt = true)
    ∧ (FileFits i → FileFits i') := by
  cases i with
  | fileExt b st sz sp nl fi fo x blks =>
    simp only [setFileBlockStart, putBlockStart, Option.some.injEq] at h
    subst h
    by_cases hs : loc < 0xFFFFFFFF
    · rw [if_pos hs]
      simp only [makeBasic]
      by_cases hx : x ≠ NONE32
      · rw [if_pos hx]
        simp [Inode.view, Inode.isExt, FileFits]
      · rw [if_neg hx]
        by_cases hf : loc > 0xFFFFFFFF ∨ sz > 0xFFFFFFFF ∨ sp > 0 ∨ nl > 1
        · rw [if_pos hf]
          simp [Inode.view, Inode.isExt, FileFits]
        · rw [if_neg hf]
          simp only [not_or, Nat.not_lt, Decidable.not_not, ne_eq] at hf hx
          obtain ⟨f1, f2, f3, f4⟩ := hf
          have hsp : sp = 0 := by omega
          subst hsp; subst hx
          refine ⟨rfl, rfl, rfl, rfl, rfl, rfl, ?_, ?_, ?_⟩
          · intro h1; simp only [Inode.view] at h1 ⊢; omega
          · intro h1; omega
          · intro _ b' st' fi' fo' sz' blks' he; cases he; exact ⟨f1, f2⟩
    · rw [if_neg hs]
      simp [Inode.view, Inode.isExt, FileFits]
  | file b st fi fo sz blks =>
    simp only [setFileBlockStart] at h
    by_cases hs : loc > 0xFFFFFFFF
    · rw [if_pos hs] at h
      simp only [makeExtended, putBlockStart, Option.some.injEq] at h
      subst h
      simp [Inode.view, Inode.isExt, FileFits]
    · rw [if_neg hs] at h
      simp only [putBlockStart, Option.some.injEq] at h
      subst h
      refine ⟨rfl, rfl, rfl, rfl, rfl, rfl, fun _ => rfl, fun h1 => absurd h1 hs, ?_⟩
      intro hf b' st' fi' fo' sz' blks' he
      cases he
      have := hf _ _ _ _ _ _ rfl
      exact ⟨by omega, by omega⟩
  | _ => simp [setFileBlockStart] at h

end Sqfs.Enc
