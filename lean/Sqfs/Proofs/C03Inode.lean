/-
The thresholds of inode.c never let a value be narrowed: every operation changes exactly the field it is meant to.
-/
import Sqfs.Model.C03Inode
namespace Sqfs.C03Inode

/-- what holds of every file inode the writer builds: an extended inode has at least one link (`make_extended`
writes 1, the serializer only ever stores `link_count ≥ 1`) -/
def WF : FileInode → Prop
  | .basic _ _ _ _ => True
  | .ext _ _ _ nl _ _ _ => 1 ≤ nl

theorem wf_fresh : WF fresh := trivial

theorem makeExtended_spec (i : FileInode) (h : WF i) : WF (makeExtended i) ∧ view (makeExtended i) = view i := by
  cases i with
  | basic => exact ⟨Nat.le_refl 1, rfl⟩
  | ext => exact ⟨h, rfl⟩

theorem makeBasic_spec (i : FileInode) (h : WF i) : WF (makeBasic i) ∧ view (makeBasic i) = view i := by
  cases i with
  | basic => exact ⟨trivial, rfl⟩
  | ext st sz sp nl fi fo x =>
    unfold makeBasic
    simp only
    by_cases h1 : x ≠ noXattr
    · rw [if_pos h1]; exact ⟨h, rfl⟩
    · rw [if_neg h1]
      by_cases h2 : st > u32max
      · rw [if_pos h2]; exact ⟨h, rfl⟩
      · rw [if_neg h2]
        by_cases h3 : sz > u32max
        · rw [if_pos h3]; exact ⟨h, rfl⟩
        · rw [if_neg h3]
          by_cases h4 : sp > 0
          · rw [if_pos h4]; exact ⟨h, rfl⟩
          · rw [if_neg h4]
            by_cases h5 : nl > 1
            · rw [if_pos h5]; exact ⟨h, rfl⟩
            · rw [if_neg h5]
              refine ⟨trivial, ?_⟩
              have e1 : st % 4294967296 = st := Nat.mod_eq_of_lt (by simp only [u32max] at h2; omega)
              have e2 : sz % 4294967296 = sz := Nat.mod_eq_of_lt (by simp only [u32max] at h3; omega)
              have e3 : sp = 0 := by omega
              have e4 : nl = 1 := by simp only [WF] at h; omega
              have e5 : x = noXattr := by simpa using h1
              simp only [view, e1, e2, e3, e4, e5]

theorem setFileSize_spec (i : FileInode) (size : Nat) (h : WF i) :
    WF (setFileSize i size) ∧
    view (setFileSize i size) = ((view i).1, size, (view i).2.2) := by
  cases i with
  | ext st sz sp nl fi fo x =>
    unfold setFileSize
    simp only
    split
    · obtain ⟨a, b⟩ := makeBasic_spec (.ext st size sp nl fi fo x) h
      exact ⟨a, by rw [b]; rfl⟩
    · exact ⟨h, rfl⟩
  | basic st fi fo sz =>
    unfold setFileSize
    simp only
    split
    · exact ⟨Nat.le_refl 1, rfl⟩
    · rename_i hs
      refine ⟨trivial, ?_⟩
      have : size % 4294967296 = size := Nat.mod_eq_of_lt (by simp only [u32max] at hs; omega)
      simp only [view, this]

theorem setBlockStart_spec (i : FileInode) (loc : Nat) (h : WF i) :
    WF (setBlockStart i loc) ∧ view (setBlockStart i loc) = (loc, (view i).2) := by
  cases i with
  | ext st sz sp nl fi fo x =>
    unfold setBlockStart
    simp only
    split
    · obtain ⟨a, b⟩ := makeBasic_spec (.ext loc sz sp nl fi fo x) h
      exact ⟨a, by rw [b]; rfl⟩
    · exact ⟨h, rfl⟩
  | basic st fi fo sz =>
    unfold setBlockStart
    simp only
    split
    · exact ⟨Nat.le_refl 1, rfl⟩
    · rename_i hs
      refine ⟨trivial, ?_⟩
      have : loc % 4294967296 = loc := Nat.mod_eq_of_lt (by simp only [u32max] at hs; omega)
      simp only [view, this]

theorem setFragLocation_spec (i : FileInode) (idx off : Nat) (h : WF i) :
    WF (setFragLocation i idx off) ∧
    view (setFragLocation i idx off) =
      ((view i).1, (view i).2.1, (view i).2.2.1, (view i).2.2.2.1, idx, off, (view i).2.2.2.2.2.2) := by
  cases i with
  | ext => exact ⟨h, rfl⟩
  | basic => exact ⟨trivial, rfl⟩

theorem setXattr_spec (i : FileInode) (x : Nat) (h : WF i) :
    WF (setXattr i x) ∧
    view (setXattr i x) =
      ((view i).1, (view i).2.1, (view i).2.2.1, (view i).2.2.2.1, (view i).2.2.2.2.1, (view i).2.2.2.2.2.1, x) := by
  cases i with
  | ext st sz sp nl fi fo x0 =>
    have : setXattr (.ext st sz sp nl fi fo x0) x = .ext st sz sp nl fi fo x := by
      unfold setXattr
      have e : (if x ≠ noXattr then makeExtended (.ext st sz sp nl fi fo x0) else .ext st sz sp nl fi fo x0)
          = FileInode.ext st sz sp nl fi fo x0 := by split <;> rfl
      rw [e]
    rw [this]; exact ⟨h, rfl⟩
  | basic st fi fo sz =>
    by_cases hx : x ≠ noXattr
    · have : setXattr (.basic st fi fo sz) x = .ext st sz 0 1 fi fo x := by
        unfold setXattr; rw [if_pos hx]; rfl
      rw [this]; exact ⟨Nat.le_refl 1, rfl⟩
    · have : setXattr (.basic st fi fo sz) x = .basic st fi fo sz := by
        unfold setXattr; rw [if_neg hx]
      rw [this]
      have hx' : x = noXattr := by simpa using hx
      exact ⟨trivial, by simp only [view, hx']⟩

theorem addSparse_spec (i : FileInode) (n : Nat) (h : WF i) :
    WF (addSparse i n) ∧
    view (addSparse i n) =
      ((view i).1, (view i).2.1, ((view i).2.2.1 + n) % 18446744073709551616, (view i).2.2.2) := by
  cases i with
  | ext => exact ⟨h, rfl⟩
  | basic => exact ⟨Nat.le_refl 1, rfl⟩

end Sqfs.C03Inode
