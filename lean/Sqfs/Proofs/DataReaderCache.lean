/-
Helper lemmas for C10 (data reader): the cached reader computes what the cacheless reference computes.
-/
import Sqfs.Spec.DataReaderCache
import Sqfs.Proofs.MetaReader
namespace Sqfs.DataReader
open Sqfs.Consts Sqfs.MetaReader

local macro "triv" : tactic => `(tactic| first | rfl | trivial)

theorem getBlock_err {f : File} {unc : Codec} (hc : CodecOK unc) {off w n : Nat} {e : Status}
    (h : getBlock f unc off w n = .error e) : e ≠ 0 := by
  unfold getBlock at h
  split at h
  · cases h
  · simp only at h
    split at h
    · cases h; decide
    · split at h
      · split at h
        · rename_i e' he; cases h; exact readAt_err he
        · split at h
          · rename_i e' he; cases h; exact Nat.ne_of_gt (hc.2 _ _ _ he).1
          · split at h
            · cases h; decide
            · cases h
      · split at h
        · rename_i e' he; cases h; exact readAt_err he
        · cases h

/-- what `precache_data_block` does, in terms of `get_block`: same status; on success the block `get_block`
yields is the cached one; coherence is kept -/
theorem precacheData_spec {kw : Bool} {f : File} {unc : Codec} {sw : Nat → Nat} (hc : CodecOK unc) {d : DR}
    (hd : DCoh kw f unc sw d) (loc w : Nat) (hcons : Cons kw sw (loc, w)) :
    DCoh kw f unc sw (precacheData kw f unc d loc w).2 ∧
    (precacheData kw f unc d loc w).2.blockSize = d.blockSize ∧ (precacheData kw f unc d loc w).2.tbl = d.tbl ∧
    (match getBlock f unc loc w d.blockSize with
      | .error e => (precacheData kw f unc d loc w).1 = e
      | .ok b => (precacheData kw f unc d loc w).1 = 0 ∧ (precacheData kw f unc d loc w).2.dataBlock = some b) := by
  unfold precacheData
  by_cases hhit : d.dataBlock.isSome ∧ d.currentBlock = loc ∧ (kw = false ∨ d.currentWord = w)
  · simp only [hhit, and_self, if_true]
    obtain ⟨hs, hl, hk⟩ := hhit
    obtain ⟨b, hb⟩ := Option.isSome_iff_exists.1 hs
    have hg := hd.1 b hb
    have hw : wordOf kw sw d = w := by
      unfold wordOf
      cases kw with
      | false => simp only [Bool.false_eq_true, if_false]; cases hcons with
        | inl h => cases h
        | inr h => rw [hl]; exact h
      | true => simp only [if_true]; cases hk with
        | inl h => cases h
        | inr h => exact h
    rw [hw, hl] at hg
    rw [hg]
    exact ⟨hd, trivial, trivial, trivial, hb⟩
  · simp only [hhit, if_false]
    cases hg : getBlock f unc loc w d.blockSize with
    | error e =>
      refine ⟨⟨?_, hd.2⟩, rfl, rfl, rfl⟩
      intro b hb; cases hb
    | ok r =>
      refine ⟨⟨?_, hd.2⟩, rfl, rfl, rfl, rfl⟩
      intro b hb
      simp only [Option.some.injEq] at hb
      subst hb
      have hw : wordOf kw sw { d with dataBlock := some r, currentBlock := loc, currentWord := w } = w := by
        unfold wordOf
        cases kw with
        | false => simp only [Bool.false_eq_true, if_false]; cases hcons with
          | inl h => cases h
          | inr h => exact h
        | true => simp only [if_true]
      rw [hw]
      exact hg

theorem precacheFrag_spec {kw : Bool} {f : File} {unc : Codec} {sw : Nat → Nat} {d : DR}
    (hd : DCoh kw f unc sw d) (idx : Nat) :
    DCoh kw f unc sw (precacheFrag f unc d idx).2 ∧
    (precacheFrag f unc d idx).2.blockSize = d.blockSize ∧ (precacheFrag f unc d idx).2.tbl = d.tbl ∧
    (match d.tbl[idx]? with
      | none => (precacheFrag f unc d idx).1 = errOutOfBounds
      | some ent =>
        match getBlock f unc ent.1 ent.2 d.blockSize with
        | .error e => (precacheFrag f unc d idx).1 = e
        | .ok b => (precacheFrag f unc d idx).1 = 0 ∧ (precacheFrag f unc d idx).2.fragBlock = some b) := by
  unfold precacheFrag
  by_cases hhit : d.fragBlock.isSome ∧ idx = d.currentFrag
  · simp only [hhit, and_self, if_true]
    obtain ⟨hs, hi⟩ := hhit
    obtain ⟨b, hb⟩ := Option.isSome_iff_exists.1 hs
    obtain ⟨ent, he, hg⟩ := hd.2 b hb
    rw [he]
    simp only [hg]
    exact ⟨hd, trivial, trivial, trivial, hb⟩
  · simp only [hhit, if_false]
    cases he : d.tbl[idx]? with
    | none => exact ⟨hd, rfl, rfl, rfl⟩
    | some ent =>
      simp only
      cases hg : getBlock f unc ent.1 ent.2 d.blockSize with
      | error e =>
        refine ⟨⟨?_, ?_⟩, rfl, rfl, rfl⟩
        · intro b hb; exact hd.1 b hb
        · intro b hb; cases hb
      | ok r =>
        refine ⟨⟨?_, ?_⟩, rfl, rfl, rfl, rfl⟩
        · intro b hb; exact hd.1 b hb
        · intro b hb
          simp only [Option.some.injEq] at hb
          subst hb
          exact ⟨ent, he, hg⟩


/-- outcome of the cached block loop vs outcome of the cacheless one -/
def CopyMatch (kw : Bool) (f : File) (unc : Codec) (sw : Nat → Nat) (bs : Nat) (tbl : List (Nat × Nat)) :
    CopyR → Except Status (Nat × Nat × Bytes) → Prop
  | .fail e d', .error e' => e = e' ∧ DCoh kw f unc sw d' ∧ d'.blockSize = bs ∧ d'.tbl = tbl
  | .cont d' o s a, .ok r => o = r.1 ∧ s = r.2.1 ∧ a = r.2.2 ∧ DCoh kw f unc sw d' ∧ d'.blockSize = bs ∧ d'.tbl = tbl
  | _, _ => False

theorem copyBlocks_spec {kw : Bool} {f : File} {unc : Codec} {sw : Nat → Nat} (hc : CodecOK unc) :
    ∀ (ws : List Nat) (d : DR) (off offset size : Nat) (acc : Bytes), DCoh kw f unc sw d →
      (∀ p ∈ accesses ws off, Cons kw sw p) →
      CopyMatch kw f unc sw d.blockSize d.tbl (copyBlocks kw f unc d ws off offset size acc)
        (copyBlocksSpec f unc d.blockSize ws off offset size acc) := by
  intro ws
  induction ws with
  | nil =>
    intro d off offset size acc hd _
    rw [copyBlocks, copyBlocksSpec]
    exact ⟨rfl, rfl, rfl, hd, rfl, rfl⟩
  | cons w rest ih =>
    intro d off offset size acc hd hcons
    rw [copyBlocks, copyBlocksSpec]
    by_cases hsz : size = 0
    · simp only [hsz, if_true]
      exact ⟨rfl, rfl, rfl, hd, rfl, rfl⟩
    · simp only [hsz, if_false]
      by_cases hsp : isSparse w = true
      · simp only [hsp, if_true]
        apply ih d _ _ _ _ hd
        intro p hp
        apply hcons
        unfold accesses
        simp only [hsp, if_true]
        exact hp
      · simp only [hsp, Bool.false_eq_true, if_false]
        have hmem : (off, w) ∈ accesses (w :: rest) off := by
          unfold accesses
          simp only [hsp, Bool.false_eq_true, if_false]
          exact List.mem_cons_self
        have hrest : ∀ p ∈ accesses rest (off + onDisk w), Cons kw sw p := by
          intro p hp
          apply hcons
          unfold accesses
          simp only [hsp, Bool.false_eq_true, if_false]
          exact List.mem_cons_of_mem _ hp
        obtain ⟨hd', hbs, htb, hres⟩ := precacheData_spec hc hd off w (hcons _ hmem)
        cases hg : getBlock f unc off w d.blockSize with
        | error e =>
          rw [hg] at hres
          simp only at hres
          have hne := getBlock_err hc hg
          simp only [hres, ne_eq, hne, not_false_eq_true, if_true]
          exact ⟨rfl, hd', hbs, htb⟩
        | ok b =>
          rw [hg] at hres
          simp only at hres
          simp only [hres.1, ne_eq, not_true_eq_false, if_false, hres.2]
          have := ih (precacheData kw f unc d off w).2 (off + onDisk w) 0
            (size - (if size < d.blockSize - offset then size else d.blockSize - offset))
            (acc ++ (b.1.drop offset).take (if size < d.blockSize - offset then size else d.blockSize - offset)) hd' hrest
          rw [hbs, htb] at this
          exact this


theorem skipBlocks_accesses (bs : Nat) : ∀ (ws : List Nat) (off offset : Nat) (p : Nat × Nat),
    p ∈ accesses (skipBlocks bs ws off offset).1 (skipBlocks bs ws off offset).2.1 → p ∈ accesses ws off := by
  intro ws
  induction ws with
  | nil => intro off offset p hp; simpa [skipBlocks] using hp
  | cons w rest ih =>
    intro off offset p hp
    rw [skipBlocks] at hp
    by_cases hgt : offset > bs
    · simp only [hgt, if_true] at hp
      have := ih _ _ p hp
      rw [accesses]
      by_cases hsp : isSparse w = true
      · simp only [hsp, if_true]
        have h0 : onDisk w = 0 := by simpa [isSparse] using hsp
        rw [h0, Nat.add_zero] at this
        exact this
      · simp only [hsp, Bool.false_eq_true, if_false]
        exact List.mem_cons_of_mem _ this
    · simp only [hgt, if_false] at hp
      exact hp

/-- **the cached reader computes the cacheless reference** (and stays coherent) -/
theorem read_spec {kw : Bool} {f : File} {unc : Codec} {sw : Nat → Nat} (hc : CodecOK unc) {d : DR}
    (hd : DCoh kw f unc sw d) (ino : Inode) (hcons : ConsIno kw sw ino) (o n : Nat) :
    (read kw f unc d ino o n).1 = readSpec f unc d.blockSize d.tbl ino o n ∧
    DCoh kw f unc sw (read kw f unc d ino o n).2 ∧
    (read kw f unc d ino o n).2.blockSize = d.blockSize ∧ (read kw f unc d ino o n).2.tbl = d.tbl := by
  unfold read readSpec
  simp only
  generalize (if n ≥ 2147483647 then 2147483646 else n) = n1
  by_cases h1 : o ≥ ino.fileSize
  · simp only [h1, if_true]
    exact ⟨by triv, hd, by triv, by triv⟩
  · simp only [h1, if_false]
    generalize (if ino.fileSize - o < n1 then ino.fileSize - o else n1) = n2
    by_cases h2 : n2 = 0
    · simp only [h2, if_true]
      exact ⟨by triv, hd, by triv, by triv⟩
    · simp only [h2, if_false]
      have hacc : ∀ p ∈ accesses (skipBlocks d.blockSize ino.blocks ino.blocksStart o).1
          (skipBlocks d.blockSize ino.blocks ino.blocksStart o).2.1, Cons kw sw p :=
        fun p hp => hcons p (skipBlocks_accesses _ _ _ _ p hp)
      have hm := copyBlocks_spec hc (skipBlocks d.blockSize ino.blocks ino.blocksStart o).1 d
        (skipBlocks d.blockSize ino.blocks ino.blocksStart o).2.1
        (skipBlocks d.blockSize ino.blocks ino.blocksStart o).2.2 n2 [] hd hacc
      generalize copyBlocks kw f unc d (skipBlocks d.blockSize ino.blocks ino.blocksStart o).1
        (skipBlocks d.blockSize ino.blocks ino.blocksStart o).2.1
        (skipBlocks d.blockSize ino.blocks ino.blocksStart o).2.2 n2 [] = cr at hm ⊢
      generalize copyBlocksSpec f unc d.blockSize (skipBlocks d.blockSize ino.blocks ino.blocksStart o).1
        (skipBlocks d.blockSize ino.blocks ino.blocksStart o).2.1
        (skipBlocks d.blockSize ino.blocks ino.blocksStart o).2.2 n2 [] = sr at hm ⊢
      cases cr with
      | fail e d' =>
        cases sr with
        | error e' =>
          obtain ⟨he, hd', hb, ht⟩ := hm
          subst he
          exact ⟨by triv, hd', hb, ht⟩
        | ok r => exact hm.elim
      | cont d' o' s' a' =>
        cases sr with
        | error e' => exact hm.elim
        | ok r =>
          obtain ⟨ro, rs, ra⟩ := r
          obtain ⟨ho, hs, ha, hd', hb, ht⟩ := hm
          simp only at ho hs ha
          subst ho hs ha
          simp only
          by_cases h3 : s' = 0
          · simp only [h3, if_true]
            exact ⟨by triv, hd', hb, ht⟩
          · simp only [h3, if_false]
            obtain ⟨hd'', hb'', ht'', hres⟩ := precacheFrag_spec (kw := kw) (sw := sw) hd' ino.fragIdx
            rw [ht] at hres
            cases hl : d.tbl[ino.fragIdx]? with
            | none =>
              rw [hl] at hres
              simp only at hres
              have hne : errOutOfBounds ≠ 0 := by decide
              simp only [hres, ne_eq, hne, not_false_eq_true, if_true]
              exact ⟨by triv, hd'', hb''.trans hb, ht''.trans ht⟩
            | some ent =>
              rw [hl] at hres
              simp only at hres
              rw [hb] at hres
              cases hg : getBlock f unc ent.1 ent.2 d.blockSize with
              | error e =>
                rw [hg] at hres
                simp only at hres
                have hne := getBlock_err hc hg
                simp only [hres, ne_eq, hne, not_false_eq_true, if_true, hg]
                exact ⟨by triv, hd'', hb''.trans hb, ht''.trans ht⟩
              | ok fb =>
                rw [hg] at hres
                simp only at hres
                simp only [hres.1, ne_eq, not_true_eq_false, if_false, hres.2, hg]
                generalize wrap64 (ino.fragOff + o') = fo
                by_cases h4 : fo ≥ fb.2
                · simp only [h4, if_true]
                  exact ⟨by triv, hd'', hb''.trans hb, ht''.trans ht⟩
                · simp only [h4, if_false]
                  by_cases h5 : fb.2 - fo < s'
                  · simp only [h5, if_true]
                    exact ⟨by triv, hd'', hb''.trans hb, ht''.trans ht⟩
                  · simp only [h5, if_false]
                    exact ⟨by triv, hd'', hb''.trans hb, ht''.trans ht⟩

/-! ### `get_fragment`, the stream, `load_fragment_table` -/

theorem getFragment_spec {kw : Bool} {f : File} {unc : Codec} {sw : Nat → Nat} (hc : CodecOK unc) {d : DR}
    (hd : DCoh kw f unc sw d) (ino : Inode) :
    (getFragment f unc d ino).1 = getFragmentSpec f unc d.blockSize d.tbl ino ∧
    DCoh kw f unc sw (getFragment f unc d ino).2 ∧
    (getFragment f unc d ino).2.blockSize = d.blockSize ∧ (getFragment f unc d ino).2.tbl = d.tbl := by
  unfold getFragment getFragmentSpec
  by_cases h1 : ino.blocks.length > (U64 - 1) / d.blockSize
  · simp only [h1, if_true]
    exact ⟨by triv, hd, by triv, by triv⟩
  · simp only [h1, if_false]
    by_cases h2 : ino.blocks.length * d.blockSize ≥ ino.fileSize
    · simp only [h2, if_true]
      exact ⟨by triv, hd, by triv, by triv⟩
    · simp only [h2, if_false]
      obtain ⟨hd', hb, ht, hres⟩ := precacheFrag_spec (kw := kw) (sw := sw) hd ino.fragIdx
      cases hl : d.tbl[ino.fragIdx]? with
      | none =>
        rw [hl] at hres
        simp only at hres
        have hne : errOutOfBounds ≠ 0 := by decide
        simp only [hres, ne_eq, hne, not_false_eq_true, if_true]
        exact ⟨by triv, hd', hb, ht⟩
      | some ent =>
        rw [hl] at hres
        simp only at hres
        cases hg : getBlock f unc ent.1 ent.2 d.blockSize with
        | error e =>
          rw [hg] at hres
          simp only at hres
          have hne := getBlock_err hc hg
          simp only [hres, ne_eq, hne, not_false_eq_true, if_true, hg]
          exact ⟨by triv, hd', hb, ht⟩
        | ok fb =>
          rw [hg] at hres
          simp only at hres
          simp only [hres.1, ne_eq, not_true_eq_false, if_false, hres.2, hg]
          by_cases h3 : ino.fragOff + ino.fileSize % d.blockSize > d.blockSize
          · simp only [h3, if_true]
            exact ⟨by triv, hd', hb, ht⟩
          · simp only [h3, if_false]
            exact ⟨by triv, hd', hb, ht⟩

/-- the reader object a cacheless reference is computed on: nothing cached -/
def bare (bs : Nat) (tbl : List (Nat × Nat)) : DR :=
  { blockSize := bs, tbl := tbl, dataBlock := none, currentBlock := 0, currentWord := 0, fragBlock := none, currentFrag := tbl.length }

theorem bare_dcoh (kw : Bool) (f : File) (unc : Codec) (sw : Nat → Nat) (bs : Nat) (tbl : List (Nat × Nat)) :
    DCoh kw f unc sw (bare bs tbl) := by
  constructor <;> intro b hb <;> cases hb

/-- status, and on success the cached block, of `precache_fragment_block` do not depend on the object -/
theorem precacheFrag_indep {kw : Bool} {f : File} {unc : Codec} {sw : Nat → Nat} (hc : CodecOK unc) {d₁ d₂ : DR}
    (h₁ : DCoh kw f unc sw d₁) (h₂ : DCoh kw f unc sw d₂) (hb : d₁.blockSize = d₂.blockSize) (ht : d₁.tbl = d₂.tbl) (idx : Nat) :
    (precacheFrag f unc d₁ idx).1 = (precacheFrag f unc d₂ idx).1 ∧
    ((precacheFrag f unc d₁ idx).1 = 0 → (precacheFrag f unc d₁ idx).2.fragBlock = (precacheFrag f unc d₂ idx).2.fragBlock ∧
      (precacheFrag f unc d₁ idx).2.fragBlock.isSome) := by
  obtain ⟨_, _, _, r₁⟩ := precacheFrag_spec (kw := kw) (sw := sw) h₁ idx
  obtain ⟨_, _, _, r₂⟩ := precacheFrag_spec (kw := kw) (sw := sw) h₂ idx
  rw [ht, hb] at r₁
  cases hl : d₂.tbl[idx]? with
  | none =>
    rw [hl] at r₁ r₂
    simp only at r₁ r₂
    refine ⟨r₁.trans r₂.symm, fun h0 => ?_⟩
    rw [r₁] at h0
    exact absurd h0 (by decide)
  | some ent =>
    rw [hl] at r₁ r₂
    simp only at r₁ r₂
    cases hg : getBlock f unc ent.1 ent.2 d₂.blockSize with
    | error e =>
      rw [hg] at r₁ r₂
      simp only at r₁ r₂
      refine ⟨r₁.trans r₂.symm, fun h0 => ?_⟩
      rw [r₁] at h0
      exact absurd h0 (getBlock_err hc hg)
    | ok fb =>
      rw [hg] at r₁ r₂
      simp only at r₁ r₂
      refine ⟨r₁.1.trans r₂.1.symm, fun _ => ⟨r₁.2.trans r₂.2.symm, ?_⟩⟩
      rw [r₁.2]
      rfl

/-- relation between the fill step on a coherent reader and on the bare one: same outcome, reader stays coherent -/
theorem streamFill_spec {kw : Bool} {f : File} {unc : Codec} {sw : Nat → Nat} (hc : CodecOK unc) {d : DR}
    (hd : DCoh kw f unc sw d) (s : Stream) (used : Nat) :
    (streamFill f unc d s used).1 = (streamFill f unc (bare d.blockSize d.tbl) s used).1 ∧
    DCoh kw f unc sw (streamFill f unc d s used).2 ∧
    (streamFill f unc d s used).2.blockSize = d.blockSize ∧ (streamFill f unc d s used).2.tbl = d.tbl := by
  have hbare := bare_dcoh kw f unc sw d.blockSize d.tbl
  obtain ⟨hd', hb', ht', _⟩ := precacheFrag_spec (kw := kw) (sw := sw) hd s.fragIdx
  obtain ⟨e1, e2⟩ := precacheFrag_indep hc hd hbare (d₂ := bare d.blockSize d.tbl) rfl rfl s.fragIdx
  unfold streamFill
  have hbs : (bare d.blockSize d.tbl).blockSize = d.blockSize := rfl
  rw [hbs]
  cases hblk : s.blocks with
  | cons w rest =>
    simp only
    refine ⟨?_, ?_⟩
    · split
      · triv
      · split
        · triv
        · split
          · split
            · triv
            · split
              · triv
              · split <;> triv
          · split <;> triv
    · split
      · exact ⟨hd, by triv, by triv⟩
      · split
        · exact ⟨hd, by triv, by triv⟩
        · split
          · split
            · exact ⟨hd, by triv, by triv⟩
            · split
              · exact ⟨hd, by triv, by triv⟩
              · split <;> exact ⟨hd, by triv, by triv⟩
          · split <;> exact ⟨hd, by triv, by triv⟩
  | nil =>
    simp only
    by_cases h0 : (precacheFrag f unc d s.fragIdx).1 = 0
    · have h0' : (precacheFrag f unc (bare d.blockSize d.tbl) s.fragIdx).1 = 0 := e1 ▸ h0
      obtain ⟨e3, e4⟩ := e2 h0
      simp only [h0, h0', ne_eq, not_true_eq_false, if_false]
      rw [← e3]
      obtain ⟨fb, hfb⟩ := Option.isSome_iff_exists.1 e4
      rw [hfb]
      simp only
      by_cases h5 : fb.2 < s.fragOff ∨ fb.2 - s.fragOff < used
      · simp only [h5, if_true]
        exact ⟨by triv, hd', hb', ht'⟩
      · simp only [h5, if_false]
        exact ⟨by triv, hd', hb', ht'⟩
    · have h0' : ¬ (precacheFrag f unc (bare d.blockSize d.tbl) s.fragIdx).1 = 0 := e1 ▸ h0
      simp only [h0, h0', ne_eq, not_false_eq_true, if_true]
      rw [e1]
      exact ⟨by triv, hd', hb', ht'⟩

theorem streamGet_spec {kw : Bool} {f : File} {unc : Codec} {sw : Nat → Nat} (hc : CodecOK unc) (sfix : Bool) {d : DR}
    (hd : DCoh kw f unc sw d) (s : Stream) :
    ((streamGet sfix f unc d s).1, (streamGet sfix f unc d s).2.1) = streamGetSpec sfix f unc d.blockSize d.tbl s ∧
    DCoh kw f unc sw (streamGet sfix f unc d s).2.2 ∧
    (streamGet sfix f unc d s).2.2.blockSize = d.blockSize ∧ (streamGet sfix f unc d s).2.2.tbl = d.tbl := by
  unfold streamGetSpec
  change _ = ((streamGet sfix f unc (bare d.blockSize d.tbl) s).1, (streamGet sfix f unc (bare d.blockSize d.tbl) s).2.1) ∧ _
  unfold streamGet
  by_cases h1 : s.bufOff < s.bufUsed
  · simp only [h1, if_true]
    exact ⟨by triv, hd, by triv, by triv⟩
  · simp only [h1, if_false]
    by_cases h2 : s.filesz = 0
    · simp only [h2, if_true]
      exact ⟨by triv, hd, by triv, by triv⟩
    · simp only [h2, if_false]
      have hbs : (bare d.blockSize d.tbl).blockSize = d.blockSize := rfl
      rw [hbs]
      generalize (if s.filesz < d.blockSize then s.filesz else d.blockSize) = used
      generalize hs1 : ({ s with bufOff := 0, bufUsed := used } : Stream) = s1
      obtain ⟨q1, q2, q3, q4⟩ := streamFill_spec (kw := kw) (sw := sw) hc hd s1 used
      generalize streamFill f unc (bare d.blockSize d.tbl) s1 used = rb at q1
      generalize streamFill f unc d s1 used = rd at q1 q2 q3 q4
      obtain ⟨fd, dd⟩ := rd
      obtain ⟨fb, db⟩ := rb
      simp only at q1 q2 q3 q4
      subst q1
      cases fd with
      | ok mem s' => exact ⟨by triv, q2, q3, q4⟩
      | fail e => exact ⟨by triv, q2, q3, q4⟩
      | early e => exact ⟨by triv, q2, q3, q4⟩

theorem reload_dcoh {kw : Bool} {f : File} {unc : Codec} {sw : Nat → Nat} {d : DR} (hd : DCoh kw f unc sw d)
    (t : Except Status (List (Nat × Nat))) :
    DCoh kw f unc sw (reload d t) ∧ (reload d t).blockSize = d.blockSize := by
  unfold reload
  cases t with
  | ok t => exact ⟨⟨hd.1, fun fb h => nomatch h⟩, rfl⟩
  | error e => exact ⟨⟨hd.1, fun fb h => nomatch h⟩, rfl⟩

theorem fresh_dcoh (kw : Bool) (f : File) (unc : Codec) (sw : Nat → Nat) (bs : Nat) (tbl : List (Nat × Nat)) :
    DCoh kw f unc sw (fresh bs tbl) := by
  constructor <;> intro b hb <;> cases hb

/-- the histories whose `read`s use inodes consistent with `sw` (no condition when `kw = true`) -/
def OpsCons (kw : Bool) (sw : Nat → Nat) (h : List OpX) : Prop :=
  ∀ op ∈ h, match op with | .read ino _ _ => ConsIno kw sw ino | _ => True

theorem run_dcoh {kw : Bool} {f : File} {unc : Codec} {sw : Nat → Nat} (hc : CodecOK unc) (sfix : Bool) (h : List OpX) :
    ∀ d : DR, DCoh kw f unc sw d → OpsCons kw sw h →
      DCoh kw f unc sw (runX kw sfix f unc d h) ∧ (runX kw sfix f unc d h).blockSize = d.blockSize := by
  induction h with
  | nil => intro d hd _; exact ⟨hd, rfl⟩
  | cons op rest ih =>
    intro d hd hall
    have hrest : OpsCons kw sw rest := fun op hop => hall op (List.mem_cons_of_mem _ hop)
    have hstep : DCoh kw f unc sw (stepX kw sfix f unc d op) ∧ (stepX kw sfix f unc d op).blockSize = d.blockSize := by
      cases op with
      | read ino o n =>
        have hi : ConsIno kw sw ino := hall (.read ino o n) List.mem_cons_self
        obtain ⟨_, h2, h3, _⟩ := read_spec hc hd ino hi o n
        exact ⟨h2, h3⟩
      | frag ino =>
        obtain ⟨_, h2, h3, _⟩ := getFragment_spec hc hd ino
        exact ⟨h2, h3⟩
      | sget s c =>
        obtain ⟨_, h2, h3, _⟩ := streamGet_spec hc sfix hd s
        exact ⟨h2, h3⟩
      | reload t => exact reload_dcoh hd t
    have := ih _ hstep.1 hrest
    unfold runX at this ⊢
    simp only [List.foldl_cons]
    exact ⟨this.1, this.2.trans hstep.2⟩

/-- the read-only histories (`run`) are the extended ones restricted to `read` ops -/
theorem runX_embed (kw sfix : Bool) (f : File) (unc : Codec) (h : List Op) :
    ∀ d : DR, runX kw sfix f unc d (h.map Op.toX) = run kw f unc d h := by
  induction h with
  | nil => intro d; rfl
  | cons op rest ih =>
    intro d
    cases op with
    | read ino o n =>
      unfold runX run at ih ⊢
      simp only [List.map_cons, List.foldl_cons, Op.toX, stepX, step]
      exact ih _

end Sqfs.DataReader
