/-
C18: the in-place model (`Sqfs/Model/C18InPlace.lean`, C statements over one byte
array with read and write cursors) computes the functional model
(`Sqfs/Model/Path.lean`, "read the original, emit the output").  Helper lemmas;
the property theorems are in `Sqfs/Props/C18.lean`.
-/
import Sqfs.Model.C18InPlace
import Sqfs.Proofs.Path
namespace Sqfs.PathIP
open Sqfs.Path
set_option linter.unusedSimpArgs false
set_option linter.unusedVariables false

/-- the bytes of a C string: no NUL inside -/
def NulFree (u : Bytes) : Prop := (0 : UInt8) ∉ u

theorem NulFree.tail {c : UInt8} {t : Bytes} (h : NulFree (c :: t)) : NulFree t :=
  fun m => h (List.mem_cons_of_mem _ m)
theorem NulFree.head {c : UInt8} {t : Bytes} (h : NulFree (c :: t)) : c ≠ 0 :=
  fun e => h (by simp [e])

/-! ### memory -/

theorem rd_of_drop {m : Mem} {i : Nat} {c : UInt8} {r : Mem} (h : m.drop i = c :: r) : rd m i = some c := by
  unfold rd
  rw [← List.head?_drop, h]; rfl

theorem drop_succ_of_drop {m : Mem} {i : Nat} {c : UInt8} {r : Mem} (h : m.drop i = c :: r) :
    m.drop (i + 1) = r := by
  have := List.drop_drop (i := 1) (j := i) (l := m)
  rw [h] at this
  simpa using this.symm

theorem drop_add_of_drop {m : Mem} {i : Nat} {a b : Mem} (h : m.drop i = a ++ b) :
    m.drop (i + a.length) = b := by
  have := List.drop_drop (i := a.length) (j := i) (l := m)
  rw [h] at this
  simpa using this.symm

theorem lt_length_of_drop {m : Mem} {i : Nat} {c : UInt8} {r : Mem} (h : m.drop i = c :: r) : i < m.length := by
  apply Nat.lt_of_not_le
  intro hn
  rw [List.drop_eq_nil_of_le hn] at h
  cases h

theorem wr_of_lt {m : Mem} {i : Nat} (c : UInt8) (h : i < m.length) : wr m i c = some (m.set i c) := by
  simp [wr, h]

theorem take_set_succ {m : Mem} {i : Nat} (c : UInt8) (h : i < m.length) :
    (m.set i c).take (i + 1) = m.take i ++ [c] := by
  rw [List.take_add_one, List.take_set_of_le (Nat.le_refl i)]
  simp [h]

/-! ### `while (*src == '/') ++src;` -/

theorem sl_ne_zero : (SL : UInt8) ≠ 0 := by decide
theorem zero_ne_sl : (0 : UInt8) ≠ SL := by decide

theorem skipSl_spec (k : Nat) : ∀ (m : Mem) (src fuel : Nat) (c : UInt8) (r : Mem),
    m.drop src = List.replicate k SL ++ c :: r → c ≠ SL → k < fuel →
    skipSl fuel m src = some (src + k) := by
  induction k with
  | zero =>
    intro m src fuel c r h hc hf
    cases fuel with
    | zero => omega
    | succ f =>
      simp only [List.replicate, List.nil_append] at h
      simp [skipSl, rd_of_drop h, hc]
  | succ k ih =>
    intro m src fuel c r h hc hf
    cases fuel with
    | zero => omega
    | succ f =>
      have h' : m.drop src = SL :: (List.replicate k SL ++ c :: r) := by
        simpa [List.replicate_succ] using h
      have := ih m (src + 1) f c r (drop_succ_of_drop h') hc (by omega)
      simp only [skipSl, rd_of_drop h', if_true, this]
      congr 1; omega

/-- a string is a run of slashes followed by nothing or by a non-slash byte -/
theorem slash_run (u : Bytes) :
    ∃ k rest, u = List.replicate k SL ++ rest ∧ (rest = [] ∨ ∃ c t, rest = c :: t ∧ c ≠ SL) := by
  induction u with
  | nil => exact ⟨0, [], rfl, Or.inl rfl⟩
  | cons x t ih =>
    by_cases hx : x = SL
    · obtain ⟨k, rest, h1, h2⟩ := ih
      exact ⟨k + 1, rest, by simp [List.replicate_succ, hx, h1], h2⟩
    · exact ⟨0, x :: t, rfl, Or.inr ⟨x, t, rfl, hx⟩⟩

/-! ### `normGo` facts used below -/

theorem normGo_run (st p : Bool) (k : Nat) (rest : Bytes) :
    normGo st p (List.replicate (k + 1) SL ++ rest) = normGo st true rest := by
  induction k generalizing p with
  | zero => simp [normGo]
  | succ k ih =>
    have : List.replicate (k + 1 + 1) SL ++ rest = SL :: (List.replicate (k + 1) SL ++ rest) := by
      simp [List.replicate_succ]
    rw [this, normGo_slash, ih]

theorem normGo_tf_cons {c : UInt8} (hc : c ≠ SL) (t : Bytes) :
    normGo true false (c :: t) = c :: normGo true false t := by
  simp [normGo, hc]

theorem normGo_tt_cons {c : UInt8} (hc : c ≠ SL) (t : Bytes) :
    normGo true true (c :: t) = SL :: c :: normGo true false t := by
  simp [normGo, hc]

theorem normGo_ff_cons {c : UInt8} (hc : c ≠ SL) (p : Bool) (t : Bytes) :
    normGo false p (c :: t) = c :: normGo true false t := by
  simp [normGo, hc]

/-- `normalize_slashes` invents no byte other than '/' (so a NUL-free input gives a NUL-free output) -/
theorem normGo_mem (st p : Bool) (u : Bytes) : ∀ x ∈ normGo st p u, x = SL ∨ x ∈ u := by
  induction u generalizing st p with
  | nil => simp [normGo]
  | cons c t ih =>
    intro x hx
    unfold normGo at hx
    split at hx
    · rcases ih st true x hx with h | h
      · exact Or.inl h
      · exact Or.inr (List.mem_cons_of_mem _ h)
    · split at hx
      · simp only [List.mem_cons] at hx
        rcases hx with rfl | rfl | hx
        · exact Or.inl rfl
        · exact Or.inr (by simp)
        · rcases ih true false x hx with h | h
          · exact Or.inl h
          · exact Or.inr (List.mem_cons_of_mem _ h)
      · simp only [List.mem_cons] at hx
        rcases hx with rfl | hx
        · exact Or.inr (by simp)
        · rcases ih true false x hx with h | h
          · exact Or.inl h
          · exact Or.inr (List.mem_cons_of_mem _ h)

theorem normGo_nulFree {u : Bytes} (h : NulFree u) (st p : Bool) : NulFree (normGo st p u) := by
  intro m
  rcases normGo_mem st p u 0 m with e | e
  · exact zero_ne_sl e
  · exact h e


/-! ### the main loop of `normalize_slashes`, in place -/

/--
Loop invariant, as a Hoare triple.  Before: the unread part of the array (from
`src`) is `u`, a NUL and `tl`; the write cursor is not ahead of the read cursor.
After: the loop has appended `normGo true false u` at the write cursor, has
touched nothing from the original NUL onwards, and the write cursor is still not
beyond the NUL.
-/
theorem normLoop_spec : ∀ (n : Nat) (u : Bytes), u.length ≤ n → NulFree u →
    ∀ (m : Mem) (src dst fuel : Nat) (tl : Mem),
    m.drop src = u ++ 0 :: tl → dst ≤ src → u.length < fuel →
    ∃ m' d', normLoop fuel m src dst = some (m', d') ∧
      d' = dst + (normGo true false u).length ∧
      m'.take d' = m.take dst ++ normGo true false u ∧
      m'.drop (src + u.length) = 0 :: tl ∧ m'.length = m.length ∧ d' ≤ src + u.length := by
  intro n
  induction n with
  | zero =>
    intro u hn hu m src dst fuel tl h hds hf
    have : u = [] := List.eq_nil_of_length_eq_zero (by omega)
    subst this
    cases fuel with
    | zero => simp at hf
    | succ f =>
      simp only [List.nil_append] at h
      refine ⟨m, dst, ?_, ?_, ?_, ?_, rfl, ?_⟩
      · simp [normLoop, rd_of_drop h]
      · simp [normGo]
      · simp [normGo]
      · simpa using h
      · simpa using hds
  | succ n ih =>
    intro u hn hu m src dst fuel tl h hds hf
    cases fuel with
    | zero => omega
    | succ f =>
    cases u with
    | nil =>
      simp only [List.nil_append] at h
      refine ⟨m, dst, ?_, ?_, ?_, ?_, rfl, ?_⟩
      · simp [normLoop, rd_of_drop h]
      · simp [normGo]
      · simp [normGo]
      · simpa using h
      · simpa using hds
    | cons c t =>
      have hc0 : c ≠ 0 := hu.head
      have h' : m.drop src = c :: (t ++ 0 :: tl) := by simpa using h
      have hsrc : src < m.length := lt_length_of_drop h'
      have hdst : dst < m.length := by omega
      by_cases hcs : c = SL
      · -- a run of slashes
        obtain ⟨k, rest, hk, hrest⟩ := slash_run (c :: t)
        cases k with
        | zero =>
          simp only [List.replicate, List.nil_append] at hk
          rcases hrest with rfl | ⟨c', t', rfl, hc'⟩
          · cases hk
          · simp only [List.cons.injEq] at hk
            exact absurd (hk.1 ▸ hcs) hc'
        | succ k =>
          have hlen : t.length + 1 = k + 1 + rest.length := by
            have : (c :: t).length = (List.replicate (k + 1) SL ++ rest).length := by rw [hk]
            simpa using this
          simp only [List.length_cons] at hf hn
          have hrun : m.drop src = List.replicate (k + 1) SL ++ (rest ++ 0 :: tl) := by
            rw [h, hk]; simp
          have hdrop2 : m.drop (src + (k + 1)) = rest ++ 0 :: tl := by
            have := drop_add_of_drop hrun
            simpa using this
          have hN : normGo true false (c :: t) = normGo true true rest := by
            rw [hk, normGo_run]
          rcases hrest with rfl | ⟨c', t', rfl, hc'⟩
          · -- only slashes up to the NUL: `break`
            simp only [List.length_nil] at hlen
            have hskip := skipSl_spec (k + 1) m src (f + 1) 0 tl (by simpa using hrun) zero_ne_sl (by omega)
            have hd0 : m.drop (src + (k + 1)) = 0 :: tl := by simpa using hdrop2
            refine ⟨m, dst, ?_, ?_, ?_, ?_, rfl, ?_⟩
            · simp [normLoop, rd_of_drop h', hc0, hcs, hskip, rd_of_drop hd0, sl_ne_zero]
            · rw [hN]; simp [normGo]
            · rw [hN]; simp [normGo]
            · have : src + (c :: t).length = src + (k + 1) := by simp only [List.length_cons]; omega
              rw [this]; exact hd0
            · simp only [List.length_cons]; omega
          · -- a slash run followed by a byte: emit one slash, continue at that byte
            have hc'0 : c' ≠ 0 := by
              intro e; apply hu; rw [hk]; simp [e]
            have hrun' : m.drop src = List.replicate (k + 1) SL ++ c' :: (t' ++ 0 :: tl) := by
              simpa using hrun
            simp only [List.length_cons] at hlen
            have hskip := skipSl_spec (k + 1) m src (f + 1) c' _ hrun' hc' (by omega)
            have hd2 : m.drop (src + (k + 1)) = c' :: (t' ++ 0 :: tl) := by simpa using hdrop2
            have hm1 : (m.set dst SL).drop (src + (k + 1)) = (c' :: t') ++ 0 :: tl := by
              rw [List.drop_set_of_lt (by omega)]; simpa using hd2
            have hu' : NulFree (c' :: t') := by
              intro e; apply hu; rw [hk]; simp only [List.mem_append]; exact Or.inr e
            obtain ⟨m'', d'', hrun2, hd'', htake, hdrop, hlen2, hle⟩ :=
              ih (c' :: t') (by simp only [List.length_cons]; omega) hu' (m.set dst SL) (src + (k + 1)) (dst + 1) f tl hm1
                (by omega) (by simp only [List.length_cons]; omega)
            refine ⟨m'', d'', ?_, ?_, ?_, ?_, ?_, ?_⟩
            · simp [normLoop, rd_of_drop h', hc0, hcs, hskip, rd_of_drop hd2, hc'0, wr_of_lt SL hdst, hrun2, sl_ne_zero]
            · rw [hd'', hN, normGo_tt_cons hc', normGo_tf_cons hc']; simp; omega
            · rw [htake, take_set_succ SL hdst, hN, normGo_tt_cons hc', normGo_tf_cons hc']; simp
            · have : src + (c :: t).length = src + (k + 1) + (c' :: t').length := by
                simp only [List.length_cons]; omega
              rw [this]; exact hdrop
            · rw [hlen2]; simp
            · simp only [List.length_cons] at hle ⊢; omega
      · -- an ordinary byte: `*(dst++) = *(src++)`
        have hm1 : (m.set dst c).drop (src + 1) = t ++ 0 :: tl := by
          rw [List.drop_set_of_lt (by omega)]; exact drop_succ_of_drop h'
        obtain ⟨m'', d'', hrun2, hd'', htake, hdrop, hlen2, hle⟩ :=
          ih t (by simp at hn ⊢; omega) hu.tail (m.set dst c) (src + 1) (dst + 1) f tl hm1 (by omega)
            (by simp at hf ⊢; omega)
        refine ⟨m'', d'', ?_, ?_, ?_, ?_, ?_, ?_⟩
        · simp [normLoop, rd_of_drop h', hc0, hcs, wr_of_lt c hdst, hrun2]
        · rw [hd'', normGo_tf_cons hcs]; simp; omega
        · rw [htake, take_set_succ c hdst, normGo_tf_cons hcs]; simp
        · simpa [Nat.add_assoc, Nat.add_comm 1] using hdrop
        · rw [hlen2]; simp
        · simp at hle ⊢; omega


/-- `normalize_slashes` = skip the leading run of slashes, then the main loop -/
theorem normalizeSlashes_lead (k : Nat) (rest : Bytes) (h : rest = [] ∨ ∃ c t, rest = c :: t ∧ c ≠ SL) :
    normalizeSlashes (List.replicate k SL ++ rest) = normGo true false rest := by
  unfold normalizeSlashes
  cases k with
  | zero =>
    rcases h with rfl | ⟨c, t, rfl, hc⟩
    · simp [normGo]
    · simp only [List.replicate, List.nil_append]
      rw [normGo_ff_cons hc, normGo_tf_cons hc]
  | succ k =>
    rw [normGo_run]
    rcases h with rfl | ⟨c, t, rfl, hc⟩
    · simp [normGo]
    · rw [normGo_ff_cons hc, normGo_tf_cons hc]

/-- a memory that holds `r` then a NUL at `r.length` -/
def Holds (m : Mem) (r : Bytes) : Prop := ∃ x, m = r ++ 0 :: x

theorem holds_of_take_drop {m : Mem} {r : Bytes} {x : Mem} (h1 : m.take r.length = r)
    (h2 : m.drop r.length = 0 :: x) : Holds m r :=
  ⟨x, by rw [← List.take_append_drop r.length m, h1, h2]⟩

/--
`normalize_slashes`, in place, on an array that holds the C string `s`: it
terminates inside the array, the array then holds `normalizeSlashes s` (bytes, then
a NUL), keeps its length, and nothing behind the original NUL has been written.
-/
theorem normalizeIP_spec (s : Bytes) (hs : NulFree s) (tl : Mem) (fuel : Nat) (hf : s.length + 1 < fuel) :
    ∃ m', normalizeIP fuel (s ++ 0 :: tl) = some m' ∧ m'.length = (s ++ 0 :: tl).length ∧
      Holds m' (normalizeSlashes s) ∧ (normalizeSlashes s).length ≤ s.length ∧
      m'.drop (s.length + 1) = tl := by
  obtain ⟨k, rest, hk, hrest⟩ := slash_run s
  have hlen : s.length = k + rest.length := by rw [hk]; simp
  have hN : normalizeSlashes s = normGo true false rest := by rw [hk]; exact normalizeSlashes_lead k rest hrest
  have hrun : (s ++ 0 :: tl).drop 0 = List.replicate k SL ++ (rest ++ 0 :: tl) := by rw [hk]; simp
  have hskip : skipSl fuel (s ++ 0 :: tl) 0 = some (0 + k) := by
    rcases hrest with rfl | ⟨c, t, rfl, hc⟩
    · exact skipSl_spec k _ 0 fuel 0 tl (by simpa using hrun) zero_ne_sl (by omega)
    · exact skipSl_spec k _ 0 fuel c (t ++ 0 :: tl) (by simpa using hrun) hc (by omega)
  have hdk : (s ++ 0 :: tl).drop k = rest ++ 0 :: tl := by
    have := drop_add_of_drop hrun
    simpa using this
  have hrestnf : NulFree rest := by
    intro e; apply hs; rw [hk]; exact List.mem_append_right _ e
  obtain ⟨m1, d1, hloop, hd1, htake, hdrop, hlen1, hle⟩ :=
    normLoop_spec rest.length rest (Nat.le_refl _) hrestnf (s ++ 0 :: tl) k 0 fuel tl hdk (Nat.zero_le _) (by omega)
  have hd1' : d1 = (normalizeSlashes s).length := by rw [hd1, hN]; simp
  have hd1lt : d1 < m1.length := by rw [hlen1]; simp; omega
  refine ⟨m1.set d1 0, ?_, ?_, ?_, ?_, ?_⟩
  · simp only [normalizeIP, hskip, Nat.zero_add, hloop, wr_of_lt 0 hd1lt]
  · rw [List.length_set, hlen1]
  · apply holds_of_take_drop (x := (m1.set d1 0).drop (d1 + 1))
    · rw [← hd1', List.take_set_of_le (Nat.le_refl _), htake, hN]; simp
    · rw [← hd1', List.drop_eq_getElem_cons (by rw [List.length_set]; exact hd1lt)]
      simp
  · rw [← hd1']; omega
  · rw [List.drop_set_of_lt (by omega)]
    have : k + rest.length = s.length := hlen.symm
    rw [this] at hdrop
    exact drop_succ_of_drop hdrop


/-! ### the main loop of `canonicalize_name`, in place -/

/-- lines 50-51 on a run of bytes that are neither NUL nor '/', followed by a NUL or a '/' -/
theorem copyComp_spec (comp : Bytes) : ∀ (m : Mem) (src dst fuel : Nat) (x : UInt8) (r : Mem),
    (∀ b ∈ comp, b ≠ 0 ∧ b ≠ SL) → (x = 0 ∨ x = SL) →
    m.drop src = comp ++ x :: r → dst ≤ src → comp.length < fuel →
    ∃ m' s' d', copyComp fuel m src dst = some (m', s', d') ∧ s' = src + comp.length ∧ d' = dst + comp.length ∧
      m'.take d' = m.take dst ++ comp ∧ m'.drop s' = x :: r ∧ m'.length = m.length := by
  induction comp with
  | nil =>
    intro m src dst fuel x r hb hx h hds hf
    cases fuel with
    | zero => simp at hf
    | succ f =>
      simp only [List.nil_append] at h
      refine ⟨m, src, dst, ?_, rfl, rfl, by simp, h, rfl⟩
      simp [copyComp, rd_of_drop h, hx]
  | cons b t ih =>
    intro m src dst fuel x r hb hx h hds hf
    cases fuel with
    | zero => simp at hf
    | succ f =>
      have h' : m.drop src = b :: (t ++ x :: r) := by simpa using h
      obtain ⟨hb0, hbs⟩ := hb b (by simp)
      have hdst : dst < m.length := by have := lt_length_of_drop h'; omega
      have hm1 : (m.set dst b).drop (src + 1) = t ++ x :: r := by
        rw [List.drop_set_of_lt (by omega)]; exact drop_succ_of_drop h'
      obtain ⟨m', s', d', hrun, hs', hd', htake, hdrop, hlen⟩ :=
        ih (m.set dst b) (src + 1) (dst + 1) f x r (fun y hy => hb y (List.mem_cons_of_mem _ hy)) hx hm1 (by omega)
          (by simp at hf; omega)
      refine ⟨m', s', d', ?_, ?_, ?_, ?_, hdrop, ?_⟩
      · simp [copyComp, rd_of_drop h', hb0, hbs, wr_of_lt b hdst, hrun]
      · rw [hs']; simp; omega
      · rw [hd']; simp; omega
      · rw [htake, take_set_succ b hdst]; simp
      · rw [hlen]; simp

/-- post-condition of the outer loop started with unread part `u`, against the functional result `g` -/
def LoopPost (res : Option (Option (Mem × Nat))) (m : Mem) (src dst : Nat) (u : Bytes) (tl : Mem) :
    Option Bytes → Prop
  | none => res = some none
  | some r => ∃ m' d', res = some (some (m', d')) ∧ d' = dst + r.length ∧ m'.take d' = m.take dst ++ r ∧
      m'.drop (src + u.length) = 0 :: tl ∧ m'.length = m.length ∧ d' ≤ src + u.length

/-- a string is a slash-free run followed by nothing or by a slash -/
theorem comp_run (u : Bytes) :
    ∃ comp rest, u = comp ++ rest ∧ SlashFree comp ∧ (rest = [] ∨ ∃ r, rest = SL :: r) := by
  induction u with
  | nil => exact ⟨[], [], rfl, by simp [SlashFree], Or.inl rfl⟩
  | cons x t ih =>
    by_cases hx : x = SL
    · exact ⟨[], x :: t, rfl, by simp [SlashFree], Or.inr ⟨t, by rw [hx]⟩⟩
    · obtain ⟨comp, rest, h1, h2, h3⟩ := ih
      refine ⟨x :: comp, rest, by simp [h1], ?_, h3⟩
      intro hm
      rcases List.mem_cons.1 hm with e | e
      · exact hx e.symm
      · exact h2 e

/-- lines 50-54 followed by the rest of the loop, given the loop's contract on every shorter string -/
theorem copyThen_spec (next : Mem → Nat → Nat → Option (Option (Mem × Nat))) (u : Bytes) (hne : u ≠ [])
    (hu : NulFree u)
    (hnext : ∀ u' : Bytes, u'.length < u.length → NulFree u' → ∀ (m : Mem) (src dst : Nat) (tl : Mem),
      m.drop src = u' ++ 0 :: tl → dst ≤ src → LoopPost (next m src dst) m src dst u' tl (canonGo true u'))
    (m : Mem) (src dst fuel : Nat) (tl : Mem)
    (h : m.drop src = u ++ 0 :: tl) (hds : dst ≤ src) (hf : u.length < fuel) :
    LoopPost (copyThen next fuel m src dst) m src dst u tl (canonGo false u) := by
  obtain ⟨comp, rest, hk, hsf, hrest⟩ := comp_run u
  have hcb : ∀ b ∈ comp, b ≠ 0 ∧ b ≠ SL := by
    intro b hb
    constructor
    · intro e; apply hu; rw [hk]; exact List.mem_append_left _ (e ▸ hb)
    · intro e; exact hsf (e ▸ hb)
  have hlen : u.length = comp.length + rest.length := by rw [hk]; simp
  rcases hrest with rfl | ⟨r, rfl⟩
  · -- the component runs up to the NUL
    have hk' : u = comp := by simpa using hk
    have hcne : comp ≠ [] := by rw [← hk']; exact hne
    have hdrop0 : m.drop src = comp ++ 0 :: tl := by rw [h, hk']
    obtain ⟨m1, s1, d1, hrun, hs1, hd1, htake, hdrop, hlen1⟩ :=
      copyComp_spec comp m src dst fuel 0 tl hcb (Or.inl rfl) hdrop0 hds (by simp at hlen; omega)
    have hpost := hnext [] (by simp; exact List.length_pos_iff.2 hne) (by simp [NulFree]) m1 s1 d1 tl
      (by simpa using hdrop) (by omega)
    rw [hk', (canonGo_copy hsf []).2]
    simp only [canonGo, LoopPost] at hpost
    obtain ⟨m', d', hn, hd', ht', hdr', hl', hle'⟩ := hpost
    refine ⟨m', d', ?_, ?_, ?_, ?_, ?_, ?_⟩
    · simp [copyThen, hrun, rd_of_drop hdrop, zero_ne_sl, hn]
    · rw [hd', hd1]; simp
    · rw [ht', htake]; simp
    · rw [← hs1]; simpa using hdr'
    · rw [hl', hlen1]
    · rw [← hs1]; simpa using hle'
  · -- the component is followed by a slash, which is copied as well
    have hdrop0 : m.drop src = comp ++ SL :: (r ++ 0 :: tl) := by rw [h, hk]; simp
    obtain ⟨m1, s1, d1, hrun, hs1, hd1, htake, hdrop, hlen1⟩ :=
      copyComp_spec comp m src dst fuel SL (r ++ 0 :: tl) hcb (Or.inr rfl) hdrop0 hds (by simp at hlen; omega)
    have hs1lt : s1 < m1.length := lt_length_of_drop hdrop
    have hd1lt : d1 < m1.length := by omega
    have hm2 : (m1.set d1 SL).drop (s1 + 1) = r ++ 0 :: tl := by
      rw [List.drop_set_of_lt (by omega)]; exact drop_succ_of_drop hdrop
    have hrnf : NulFree r := by
      intro e; apply hu; rw [hk]
      exact List.mem_append_right _ (List.mem_cons_of_mem _ e)
    have hpost := hnext r (by simp at hlen; omega) hrnf (m1.set d1 SL) (s1 + 1) (d1 + 1) tl hm2 (by omega)
    rw [hk, (canonGo_copy hsf r).1]
    cases hg : canonGo true r with
    | none =>
      rw [hg] at hpost
      simp only [LoopPost, Option.map_none] at hpost ⊢
      simp [copyThen, hrun, rd_of_drop hdrop, wr_of_lt SL hd1lt, hpost]
    | some r' =>
      rw [hg] at hpost
      simp only [LoopPost, Option.map_some] at hpost ⊢
      obtain ⟨m', d', hn, hd', ht', hdr', hl', hle'⟩ := hpost
      refine ⟨m', d', ?_, ?_, ?_, ?_, ?_, ?_⟩
      · simp [copyThen, hrun, rd_of_drop hdrop, wr_of_lt SL hd1lt, hn]
      · rw [hd', hd1]; simp; omega
      · rw [ht', take_set_succ SL hd1lt, htake]; simp
      · have : src + (comp ++ SL :: r).length = s1 + 1 + r.length := by rw [hs1]; simp; omega
        rw [this]; exact hdr'
      · rw [hl', List.length_set, hlen1]
      · have : src + (comp ++ SL :: r).length = s1 + 1 + r.length := by rw [hs1]; simp; omega
        rw [this]; exact hle'


theorem dot_ne_zero : (DOT : UInt8) ≠ 0 := by decide
theorem dot_ne_sl : (DOT : UInt8) ≠ SL := by decide

/-- at a component start, anything that does not begin with '.' goes to the copy loop -/
theorem canonGo_true_plain1 {c0 : UInt8} (h : c0 ≠ DOT) (t : Bytes) :
    canonGo true (c0 :: t) = canonGo false (c0 :: t) := by
  match t with
  | [] => simp [canonGo, h]
  | [d] => simp [canonGo, h]
  | d :: e :: t' => simp [canonGo, h]

/-- ".x…" with x neither '/' nor '.' goes to the copy loop -/
theorem canonGo_true_plain2 {c1 : UInt8} (h1 : c1 ≠ SL) (h2 : c1 ≠ DOT) (t : Bytes) :
    canonGo true (DOT :: c1 :: t) = canonGo false (DOT :: c1 :: t) := by
  have h46 : ((46 : UInt8) = SL) = False := by decide
  match t with
  | [] => simp [canonGo, h1, h2, h46]
  | d :: t' => simp [canonGo, h1, h2, h46]

/-- "..x…" with x not '/' goes to the copy loop -/
theorem canonGo_true_plain3 {c2 : UInt8} (h : c2 ≠ SL) (t : Bytes) :
    canonGo true (DOT :: DOT :: c2 :: t) = canonGo false (DOT :: DOT :: c2 :: t) := by
  have h46 : ((46 : UInt8) = SL) = False := by decide
  simp [canonGo, h, h46]

theorem LoopPost_shift {res : Option (Option (Mem × Nat))} {m : Mem} {s1 s0 dst : Nat} {u1 u0 : Bytes} {tl : Mem}
    {g : Option Bytes} (h : LoopPost res m s1 dst u1 tl g) (he : s1 + u1.length = s0 + u0.length) :
    LoopPost res m s0 dst u0 tl g := by
  cases g with
  | none => exact h
  | some r =>
    simp only [LoopPost] at h ⊢
    rw [← he]; exact h

/--
Loop invariant of the outer loop of `canonicalize_name` as a Hoare triple: started
at a component boundary with unread part `u`, write cursor not ahead of the read
cursor, the in-place loop returns -1 exactly when `canonGo true u` fails, and
otherwise appends `canonGo true u` at the write cursor, writes nothing from the
NUL onwards and leaves the write cursor at or before the NUL.
-/
theorem canonLoop_spec : ∀ (n : Nat) (u : Bytes), u.length ≤ n → NulFree u →
    ∀ (m : Mem) (src dst fuel : Nat) (tl : Mem),
    m.drop src = u ++ 0 :: tl → dst ≤ src → u.length < fuel →
    LoopPost (canonLoop fuel m src dst) m src dst u tl (canonGo true u) := by
  intro n
  induction n with
  | zero =>
    intro u hn hu m src dst fuel tl h hds hf
    have : u = [] := List.eq_nil_of_length_eq_zero (by omega)
    subst this
    cases fuel with
    | zero => simp at hf
    | succ f =>
      simp only [List.nil_append] at h
      simp only [canonGo, LoopPost]
      exact ⟨m, dst, by simp [canonLoop, rd_of_drop h], by simp, by simp, by simpa using h, rfl, by simpa using hds⟩
  | succ n ih =>
    intro u hn hu m src dst fuel tl h hds hf
    cases fuel with
    | zero => omega
    | succ f =>
    cases u with
    | nil =>
      simp only [List.nil_append] at h
      simp only [canonGo, LoopPost]
      exact ⟨m, dst, by simp [canonLoop, rd_of_drop h], by simp, by simp, by simpa using h, rfl, by simpa using hds⟩
    | cons c0 t =>
      have hc00 : c0 ≠ 0 := hu.head
      have h0 : m.drop src = c0 :: (t ++ 0 :: tl) := by simpa using h
      have hnext : ∀ u' : Bytes, u'.length < (c0 :: t).length → NulFree u' → ∀ (m : Mem) (src dst : Nat) (tl : Mem),
          m.drop src = u' ++ 0 :: tl → dst ≤ src →
          LoopPost (canonLoop f m src dst) m src dst u' tl (canonGo true u') :=
        fun u' hlt hnf m src dst tl h hds => ih u' (by omega) hnf m src dst f tl h hds (by omega)
      have hcopy := copyThen_spec (canonLoop f) (c0 :: t) (by simp) hu hnext m src dst (f + 1) tl h hds hf
      by_cases hd0 : c0 = DOT
      · subst hd0
        cases t with
        | nil =>
          -- "." then NUL: break
          have h1 : m.drop (src + 1) = 0 :: tl := by simpa using drop_succ_of_drop h0
          simp only [canonGo, LoopPost, if_true]
          refine ⟨m, dst, ?_, by simp, by simp, ?_, rfl, ?_⟩
          · simp [canonLoop, rd_of_drop h0, dot_ne_zero, rd_of_drop h1]
          · simpa using h1
          · simp; omega
        | cons c1 t2 =>
          have hc10 : c1 ≠ 0 := hu.tail.head
          have h1 : m.drop (src + 1) = c1 :: (t2 ++ 0 :: tl) := by simpa using drop_succ_of_drop h0
          have h2 : m.drop (src + 2) = t2 ++ 0 :: tl := drop_succ_of_drop h1
          by_cases hs1 : c1 = SL
          · -- "./": skip two bytes
            subst hs1
            rw [canonGo_dotslash]
            have := ih t2 (by simp at hn; omega) hu.tail.tail m (src + 2) dst f tl h2 (by omega) (by simp at hf; omega)
            have hrun : canonLoop (f + 1) m src dst = canonLoop f m (src + 2) dst := by
              simp [canonLoop, rd_of_drop h0, dot_ne_zero, rd_of_drop h1, sl_ne_zero]
            rw [hrun]
            exact LoopPost_shift this (by simp; omega)
          · by_cases hd1 : c1 = DOT
            · subst hd1
              cases t2 with
              | nil =>
                -- ".." then NUL: return -1
                have h2' : m.drop (src + 2) = 0 :: tl := by simpa using h2
                have hg : canonGo true [DOT, DOT] = none := by decide
                rw [hg]
                simp [LoopPost, canonLoop, rd_of_drop h0, dot_ne_zero, rd_of_drop h1, dot_ne_sl, rd_of_drop h2']
              | cons c2 t3 =>
                have h2' : m.drop (src + 2) = c2 :: (t3 ++ 0 :: tl) := by simpa using h2
                have hc20 : c2 ≠ 0 := hu.tail.tail.head
                by_cases hs2 : c2 = SL
                · -- "../": return -1
                  subst hs2
                  rw [canonGo_dotdotslash]
                  simp [LoopPost, canonLoop, rd_of_drop h0, dot_ne_zero, rd_of_drop h1, dot_ne_sl, rd_of_drop h2']
                · -- "..x": an ordinary component
                  rw [canonGo_true_plain3 hs2]
                  have hrun : canonLoop (f + 1) m src dst = copyThen (canonLoop f) (f + 1) m src dst := by
                    simp [canonLoop, rd_of_drop h0, dot_ne_zero, rd_of_drop h1, dot_ne_sl, rd_of_drop h2', hs2, hc20]
                  rw [hrun]; exact hcopy
            · -- ".x": an ordinary component
              rw [canonGo_true_plain2 hs1 hd1]
              have hrun : canonLoop (f + 1) m src dst = copyThen (canonLoop f) (f + 1) m src dst := by
                simp [canonLoop, rd_of_drop h0, dot_ne_zero, rd_of_drop h1, hs1, hd1, hc10]
              rw [hrun]; exact hcopy
      · -- does not start with '.': an ordinary component
        rw [canonGo_true_plain1 hd0]
        have hrun : canonLoop (f + 1) m src dst = copyThen (canonLoop f) (f + 1) m src dst := by
          simp [canonLoop, rd_of_drop h0, hc00, hd0]
        rw [hrun]; exact hcopy


/-! ### the main loop invents no byte (so its output on a NUL-free string is NUL-free) -/

theorem map_cons_some {o : Option Bytes} {c : UInt8} {r : Bytes} (h : o.map (c :: ·) = some r) :
    ∃ r', o = some r' ∧ r = c :: r' := by
  cases o with
  | none => simp at h
  | some r' => simp at h; exact ⟨r', rfl, h.symm⟩

theorem canonGo_mem : ∀ (n : Nat) (u : Bytes), u.length ≤ n →
    (∀ r, canonGo false u = some r → ∀ x ∈ r, x ∈ u) ∧ (∀ r, canonGo true u = some r → ∀ x ∈ r, x ∈ u) := by
  intro n
  induction n with
  | zero =>
    intro u hn
    have : u = [] := List.eq_nil_of_length_eq_zero (by omega)
    subst this
    constructor <;> (intro r h x hx; simp [canonGo] at h; subst h; simp at hx)
  | succ n ih =>
    intro u hn
    cases u with
    | nil => constructor <;> (intro r h x hx; simp [canonGo] at h; subst h; simp at hx)
    | cons c0 t =>
      have iht := ih t (by simp at hn; omega)
      have hfalse : ∀ r, canonGo false (c0 :: t) = some r → ∀ x ∈ r, x ∈ c0 :: t := by
        intro r h x hx
        unfold canonGo at h
        split at h
        · rename_i hc
          obtain ⟨r', h1, rfl⟩ := map_cons_some h
          rcases List.mem_cons.1 hx with e | e
          · simp [e, hc]
          · exact List.mem_cons_of_mem _ (iht.2 r' h1 x e)
        · obtain ⟨r', h1, rfl⟩ := map_cons_some h
          rcases List.mem_cons.1 hx with e | e
          · simp [e]
          · exact List.mem_cons_of_mem _ (iht.1 r' h1 x e)
      refine ⟨hfalse, ?_⟩
      intro r h x hx
      by_cases hd0 : c0 = DOT
      · subst hd0
        cases t with
        | nil => simp [canonGo] at h; subst h; simp at hx
        | cons c1 t2 =>
          by_cases hs1 : c1 = SL
          · subst hs1
            rw [canonGo_dotslash] at h
            have := (ih t2 (by simp at hn; omega)).2 r h x hx
            exact List.mem_cons_of_mem _ (List.mem_cons_of_mem _ this)
          · by_cases hd1 : c1 = DOT
            · subst hd1
              cases t2 with
              | nil => have hg : canonGo true [DOT, DOT] = none := by decide
                       rw [hg] at h; cases h
              | cons c2 t3 =>
                by_cases hs2 : c2 = SL
                · subst hs2; rw [canonGo_dotdotslash] at h; cases h
                · rw [canonGo_true_plain3 hs2] at h; exact hfalse r h x hx
            · rw [canonGo_true_plain2 hs1 hd1] at h; exact hfalse r h x hx
      · rw [canonGo_true_plain1 hd0] at h; exact hfalse r h x hx

theorem canonGo_nulFree {u r : Bytes} (hu : NulFree u) (b : Bool) (h : canonGo b u = some r) : NulFree r := by
  intro m
  cases b with
  | false => exact hu ((canonGo_mem u.length u (Nat.le_refl _)).1 r h 0 m)
  | true => exact hu ((canonGo_mem u.length u (Nat.le_refl _)).2 r h 0 m)

/-! ### the whole function -/

/-- explicit shape of an array that holds `r`, has the old length, and whose part behind the old NUL is `tl` -/
theorem explicit_of_holds {m' : Mem} {r : Bytes} {n : Nat} {tl : Mem} (hh : Holds m' r)
    (hlen : m'.length = n + 1 + tl.length) (hdrop : m'.drop (n + 1) = tl) (hrl : r.length ≤ n) :
    ∃ junk : Mem, m' = r ++ 0 :: (junk ++ tl) ∧ r.length + junk.length = n := by
  obtain ⟨x, hx⟩ := hh
  have hxl : x.length = (n - r.length) + tl.length := by
    have := hlen; rw [hx] at this; simp at this; omega
  have hxd : x.drop (n - r.length) = tl := by
    have e : m'.drop (n + 1) = x.drop (n - r.length) := by
      rw [hx]
      have : n + 1 = (r ++ [0]).length + (n - r.length) := by simp; omega
      rw [this, ← List.drop_drop]
      have : r ++ 0 :: x = (r ++ [0]) ++ x := by simp
      rw [this, List.drop_left]
    rw [← e, hdrop]
  refine ⟨x.take (n - r.length), ?_, ?_⟩
  · rw [hx]
    congr 2
    rw [← hxd, List.take_append_drop]
  · rw [List.length_take]; omega

theorem cstr_holds {m : Mem} {r : Bytes} (h : Holds m r) (hr : NulFree r) : cstr m = some r := by
  obtain ⟨x, rfl⟩ := h
  induction r with
  | nil => simp [cstr]
  | cons c t ih =>
    have hc : c ≠ 0 := hr.head
    simp [cstr, hc, ih hr.tail]

theorem drop_eq_of_drop_eq {a b : Mem} {k j : Nat} (h : a.drop k = b.drop k) (hkj : k ≤ j) :
    a.drop j = b.drop j := by
  have e : j = k + (j - k) := by omega
  rw [e, ← List.drop_drop, ← List.drop_drop, h]

/--
`canonicalize_name`, in place, on an array that holds the C string `s` followed by
arbitrary bytes `tl`: the run stays inside the array; it returns -1 exactly when the
functional model fails; otherwise the array then holds the functional model's
result, keeps its length, and the bytes behind the original NUL are untouched.
-/
theorem canonicalizeIP_spec (s : Bytes) (hs : NulFree s) (tl : Mem) (fuel : Nat) (hf : s.length + 1 < fuel) :
    match canonicalize s with
    | none => canonicalizeIP fuel (s ++ 0 :: tl) = some Result.fail
    | some r => ∃ m', canonicalizeIP fuel (s ++ 0 :: tl) = some (Result.ok m') ∧ Holds m' r ∧
        m'.length = (s ++ 0 :: tl).length ∧ m'.drop (s.length + 1) = tl := by
  obtain ⟨m1, hrun1, hlen1, ⟨x1, hm1⟩, hle1, htl1⟩ := normalizeIP_spec s hs tl fuel hf
  have hN1 : NulFree (normalizeSlashes s) := normGo_nulFree hs false false
  have hloop := canonLoop_spec _ (normalizeSlashes s) (Nat.le_refl _) hN1 m1 0 0 fuel x1
    (by rw [hm1]; simp) (Nat.le_refl _) (by omega)
  unfold canonicalize
  cases hg : canonGo true (normalizeSlashes s) with
  | none =>
    rw [hg] at hloop
    simp only [LoopPost] at hloop
    simp [canonicalizeIP, hrun1, hloop]
  | some r2 =>
    rw [hg] at hloop
    simp only [LoopPost, Nat.zero_add, List.take_zero, List.nil_append] at hloop
    obtain ⟨m2, d2, hrun2, hd2, htake2, hdrop2, hlen2, hle2⟩ := hloop
    have hr2 : NulFree r2 := canonGo_nulFree hN1 true hg
    have hd2lt : d2 < m2.length := by rw [hlen2, hlen1]; simp; omega
    -- line 57: `*dst = '\0'`
    have hm3 : Holds (m2.set d2 0) r2 := by
      apply holds_of_take_drop (x := (m2.set d2 0).drop (d2 + 1))
      · rw [← hd2, List.take_set_of_le (Nat.le_refl _), htake2]
      · rw [← hd2, List.drop_eq_getElem_cons (by rw [List.length_set]; exact hd2lt)]
        simp
    obtain ⟨x3, hm3e⟩ := hm3
    have hlen3 : (m2.set d2 0).length = (s ++ 0 :: tl).length := by rw [List.length_set, hlen2, hlen1]
    have hr2len : r2.length + 1 < fuel := by omega
    obtain ⟨m4, hrun4, hlen4, hhold4, hle4, htl4⟩ := normalizeIP_spec r2 hr2 x3 fuel hr2len
    refine ⟨m4, ?_, hhold4, ?_, ?_⟩
    · simp [canonicalizeIP, hrun1, hrun2, wr_of_lt 0 hd2lt, hm3e, hrun4]
    · rw [hlen4, ← hm3e, hlen3]
    · -- nothing behind the original NUL was written by any of the three passes
      have e4 : m4.drop (r2.length + 1) = (m2.set d2 0).drop (r2.length + 1) := by
        rw [htl4, hm3e]; simp
      have e4' := drop_eq_of_drop_eq e4 (j := s.length + 1) (by omega)
      have e3 : (m2.set d2 0).drop (s.length + 1) = m2.drop (s.length + 1) :=
        List.drop_set_of_lt (by omega)
      have e2 : m2.drop ((normalizeSlashes s).length + 1) = m1.drop ((normalizeSlashes s).length + 1) := by
        have a := drop_succ_of_drop hdrop2
        rw [a, hm1]; simp
      have e2' := drop_eq_of_drop_eq e2 (j := s.length + 1) (by omega)
      rw [e4', e3, e2', htl1]

end Sqfs.PathIP
