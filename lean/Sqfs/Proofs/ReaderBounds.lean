/-
Helper lemmas and the routine-level safety proofs for C05 (`Sqfs/Props/C05.lean` restates the headline ones).
Core Lean only (`omega`, `simp`, `split`); no Mathlib needed here.
-/
import Sqfs.Model.ReaderBounds
namespace Sqfs.ReaderBounds

/-! ## meta reader -/

/-- the codec contract as far as the meta reader needs it: never more than `outsize` bytes -/
def MetaCodecOk (c : MetaCfg) : Prop := ∀ b n, (c.src b).dec = some n → n.toNat ≤ metaCap

theorem metaCap_eq : metaCap = 8192 := by decide

theorem hdr_size_le (h : UInt16) : ((h &&& 0x7FFF).toUInt32).toNat ≤ 32767 := by
  have : (h &&& 0x7FFF).toNat ≤ 32767 := by
    rw [UInt16.toNat_and]; exact Nat.and_le_right
  simpa using this

theorem cleared_le : MetaSt.cleared.dataUsed.toNat ≤ metaCap := by decide

theorem seekG_spec (fixed : Bool) (c : MetaCfg) (hc : MetaCodecOk c) (m : MetaSt) (b o : UInt64)
    (hm : m.dataUsed.toNat ≤ metaCap) :
    (∀ a ∈ (seekG fixed c m b o).acc, a.inBounds) ∧ (seekG fixed c m b o).st.dataUsed.toNat ≤ metaCap ∧
    ((seekG fixed c m b o).r = .ok () → (seekG fixed c m b o).st.offset.toNat < (seekG fixed c m b o).st.dataUsed.toNat ∧ (seekG fixed c m b o).st.offset = o) := by
  have hcl := cleared_le
  cases fixed <;>
  · unfold seekG
    split
    · simp [hm]
    split
    · split
      · simp [hm]
      · rename_i h; simp [hm]; rw [UInt64.not_le, UInt64.lt_iff_toNat_lt] at h; exact h
    simp only [↓reduceIte, Bool.false_eq_true]
    generalize ((c.src b).header &&& 0x7FFF).toUInt32 = S
    split
    · simp [hm, hcl]
    split
    · simp [hm, hcl]
    split
    · simp [hm, hcl]
    rename_i hsz _
    have hsz' : S.toNat ≤ metaCap := by
      rw [UInt64.not_lt, UInt64.le_iff_toNat_le] at hsz
      simpa [metaCap_eq] using hsz
    split
    · simp [hm, hcl, Access.inBounds]; exact hsz'
    split
    · split
      · simp [hm, hcl, Access.inBounds]; exact hsz'
      · rename_i ret hdec
        have hret := hc b ret hdec
        split
        · simp [Access.inBounds, hsz', hret, hcl]
        · rename_i hlt
          rw [UInt64.not_le, UInt64.lt_iff_toNat_lt] at hlt
          simp [Access.inBounds, hsz', hret]
          simpa using hlt
    · split
      · simp [Access.inBounds, hsz', hcl]
      · rename_i hlt
        rw [UInt64.not_le, UInt64.lt_iff_toNat_lt] at hlt
        simp [Access.inBounds, hsz']
        simpa using hlt

theorem seek_spec (c : MetaCfg) (hc : MetaCodecOk c) (m : MetaSt) (b o : UInt64)
    (hm : m.dataUsed.toNat ≤ metaCap) :
    (∀ a ∈ (seek c m b o).acc, a.inBounds) ∧ (seek c m b o).st.dataUsed.toNat ≤ metaCap ∧
    ((seek c m b o).r = .ok () → (seek c m b o).st.offset.toNat < (seek c m b o).st.dataUsed.toNat ∧ (seek c m b o).st.offset = o) :=
  seekG_spec true c hc m b o hm

theorem refill_spec (fixed : Bool) (c : MetaCfg) (hc : MetaCodecOk c) (m : MetaSt)
    (hm : m.dataUsed.toNat ≤ metaCap) (hoff : m.offset.toNat ≤ m.dataUsed.toNat) :
    (∀ a ∈ (refill fixed c m).1.acc, a.inBounds) ∧ (refill fixed c m).1.st.dataUsed.toNat ≤ metaCap ∧
    ((refill fixed c m).1.r = .ok () →
      (refill fixed c m).2.toNat ≠ 0 ∧
      (refill fixed c m).1.st.offset.toNat + (refill fixed c m).2.toNat ≤ (refill fixed c m).1.st.dataUsed.toNat) := by
  unfold refill
  simp only []
  split
  · have hs := seekG_spec fixed c hc m m.nextBlock 0 hm
    refine ⟨hs.1, hs.2.1, ?_⟩
    intro hok
    obtain ⟨hlt, heq⟩ := hs.2.2 hok
    have h0 : (seekG fixed c m m.nextBlock 0).st.offset.toNat = 0 := by rw [heq]; rfl
    simp only []
    omega
  · rename_i hd
    simp [hm]
    have hle : m.offset ≤ m.dataUsed := UInt64.le_iff_toNat_le.2 hoff
    have hsub : (m.dataUsed - m.offset).toNat = m.dataUsed.toNat - m.offset.toNat :=
      UInt64.toNat_sub_of_le _ _ hle
    constructor
    · intro h0
      apply hd
      simp
      exact UInt64.toNat_inj.1 (by simpa using h0)
    · rw [hsub]; omega

theorem readLoop_safe (c : MetaCfg) (hc : MetaCodecOk c) (total : Nat) :
    ∀ (fuel : Nat) (m : MetaSt) (size : UInt64) (done : Nat) (acc : List Access),
      m.dataUsed.toNat ≤ metaCap → done + size.toNat = total → (∀ a ∈ acc, a.inBounds) →
      (∀ a ∈ (readLoop true c total fuel m size done acc).acc, a.inBounds) ∧
      (readLoop true c total fuel m size done acc).st.dataUsed.toNat ≤ metaCap := by
  intro fuel
  induction fuel with
  | zero => intro m size done acc hm _ hacc; simp [readLoop, hm]; exact hacc
  | succ fuel ih =>
    intro m size done acc hm hds hacc
    unfold readLoop
    split
    · simp [hm]; exact hacc
    split
    · simp [hm]; exact hacc
    rename_i hsz hguard
    have hoff : m.offset.toNat ≤ m.dataUsed.toNat := by
      simp at hguard
      exact UInt64.le_iff_toNat_le.1 hguard
    have hr := refill_spec true c hc m hm hoff
    simp only []
    split
    · rename_i e he
      simp only [List.mem_append]
      refine ⟨?_, hr.2.1⟩
      intro a ha
      rcases ha with ha | ha
      · exact hacc a ha
      · exact hr.1 a ha
    · rename_i hok
      obtain ⟨hne, hle⟩ := hr.2.2 hok
      have hmin : (if (refill true c m).2 > size then size else (refill true c m).2).toNat ≤ (refill true c m).2.toNat ∧
          (if (refill true c m).2 > size then size else (refill true c m).2).toNat ≤ size.toNat := by
        split
        · rename_i hgt
          have := UInt64.lt_iff_toNat_lt.1 hgt
          omega
        · rename_i hgt
          rw [UInt64.not_lt, UInt64.le_iff_toNat_le] at hgt
          omega
      generalize (if (refill true c m).2 > size then size else (refill true c m).2) = diff at hmin
      apply ih
      · exact hr.2.1
      · have hle' : diff ≤ size := UInt64.le_iff_toNat_le.2 hmin.2
        rw [UInt64.toNat_sub_of_le _ _ hle']
        omega
      · intro a ha
        simp only [List.mem_append, List.mem_cons, List.mem_nil_iff, or_false] at ha
        rcases ha with (ha | ha) | ha | ha
        · exact hacc a ha
        · exact hr.1 a ha
        · subst ha; simp only [Access.inBounds]; have := hr.2.1; omega
        · subst ha; simp only [Access.inBounds]; omega

theorem seekG_ok (fixed : Bool) (c : MetaCfg) (m : MetaSt) (b o : UInt64) (h : (seekG fixed c m b o).r = .ok ()) :
    o.toNat < (seekG fixed c m b o).st.dataUsed.toNat ∧ (seekG fixed c m b o).st.offset = o := by
  revert h
  unfold seekG
  split
  · simp
  split
  · split
    · simp
    · rename_i h; intro _; simp; rw [UInt64.not_le, UInt64.lt_iff_toNat_lt] at h; exact h
  simp only []
  split
  · simp
  split
  · simp
  split
  · simp
  split
  · simp
  split
  · split
    · simp
    · split
      · simp
      · rename_i hlt; intro _
        rw [UInt64.not_le, UInt64.lt_iff_toNat_lt] at hlt
        simpa using hlt
  · split
    · simp
    · rename_i hlt; intro _
      rw [UInt64.not_le, UInt64.lt_iff_toNat_lt] at hlt
      simpa using hlt

theorem seekG_ne_fuel (fixed : Bool) (c : MetaCfg) (m : MetaSt) (b o : UInt64) : (seekG fixed c m b o).r ≠ .error .fuel := by
  unfold seekG
  split
  · simp
  split
  · split <;> simp
  simp only []
  split
  · simp
  split
  · simp
  split
  · simp
  split
  · simp
  split
  · split
    · simp
    · split <;> simp
  · split <;> simp

theorem seek_ok (c : MetaCfg) (m : MetaSt) (b o : UInt64) (h : (seek c m b o).r = .ok ()) :
    o.toNat < (seek c m b o).st.dataUsed.toNat ∧ (seek c m b o).st.offset = o := seekG_ok true c m b o h

theorem seek_ne_fuel (c : MetaCfg) (m : MetaSt) (b o : UInt64) : (seek c m b o).r ≠ .error .fuel :=
  seekG_ne_fuel true c m b o

theorem refill_ok_ne_zero (fixed : Bool) (c : MetaCfg) (m : MetaSt) (h : (refill fixed c m).1.r = .ok ()) : (refill fixed c m).2 ≠ 0 := by
  revert h
  unfold refill
  simp only []
  split
  · intro h
    have := (seekG_ok fixed c m m.nextBlock 0 h).1
    intro h0
    simp only [] at h0
    rw [h0] at this
    simp at this
  · rename_i hd
    intro _ h0
    apply hd
    simp only [] at h0
    simp [h0]

theorem refill_ne_fuel (fixed : Bool) (c : MetaCfg) (m : MetaSt) : (refill fixed c m).1.r ≠ .error .fuel := by
  unfold refill
  simp only []
  split
  · exact seekG_ne_fuel _ _ _ _ _
  · simp

theorem readLoop_no_fuel (fixed : Bool) (c : MetaCfg) (total : Nat) :
    ∀ (fuel : Nat) (m : MetaSt) (size : UInt64) (done : Nat) (acc : List Access),
      size.toNat < fuel → (readLoop fixed c total fuel m size done acc).r ≠ .error .fuel := by
  intro fuel
  induction fuel with
  | zero => intro m size done acc h; omega
  | succ fuel ih =>
    intro m size done acc hlt
    unfold readLoop
    split
    · simp
    split
    · simp
    rename_i hsz _
    simp only []
    split
    · rename_i e he
      intro h
      simp at h
      subst h
      exact refill_ne_fuel fixed c m he
    · rename_i hok
      have hne := refill_ok_ne_zero fixed c m hok
      have hsz0 : size.toNat ≠ 0 := by
        intro h0; apply hsz; simp; exact UInt64.toNat_inj.1 (by simpa using h0)
      have hp0 : (refill fixed c m).2.toNat ≠ 0 := by
        intro h0; apply hne; exact UInt64.toNat_inj.1 (by simpa using h0)
      have hmin : (if (refill fixed c m).2 > size then size else (refill fixed c m).2).toNat ≠ 0 ∧
          (if (refill fixed c m).2 > size then size else (refill fixed c m).2).toNat ≤ size.toNat := by
        split
        · exact ⟨hsz0, Nat.le_refl _⟩
        · rename_i hgt
          rw [UInt64.not_lt, UInt64.le_iff_toNat_le] at hgt
          exact ⟨hp0, hgt⟩
      generalize (if (refill fixed c m).2 > size then size else (refill fixed c m).2) = diff at hmin
      apply ih
      have hle' : diff ≤ size := UInt64.le_iff_toNat_le.2 hmin.2
      rw [UInt64.toNat_sub_of_le _ _ hle']
      omega

/-! ## data reader -/

theorem mod_lt_u64 (a b : UInt64) (h : b ≠ 0) : (a % b).toNat < b.toNat := by
  rw [UInt64.toNat_mod]
  apply Nat.mod_lt
  have : b.toNat ≠ 0 := by
    intro h0; apply h; exact UInt64.toNat_inj.1 (by simpa using h0)
  omega

theorem getFragment_inBounds (bs : UInt32) (filesz blockCount : UInt64) (fragOff : UInt32)
    (pre : Except Err Unit) (hbs : bs ≠ 0) (as : List Access)
    (h : getFragment true bs filesz blockCount fragOff pre = .ok as) : ∀ a ∈ as, a.inBounds := by
  unfold getFragment at h
  split at h
  · cases h
  split at h
  · cases h; simp
  cases pre with
  | error e => simp at h
  | ok u =>
    simp only [if_true] at h
    split at h
    · cases h
    · rename_i hnb
      cases h
      have hb0 : bs.toUInt64 ≠ 0 := by
        intro h0; apply hbs
        have := congrArg UInt64.toNat h0
        simp at this
        exact UInt32.toNat_inj.1 (by simpa using this)
      have hlt := mod_lt_u64 filesz bs.toUInt64 hb0
      simp only [UInt32.toNat_toUInt64] at hlt
      have hfs : ((filesz % bs.toUInt64).toUInt32).toNat = (filesz % bs.toUInt64).toNat := by
        rw [UInt64.toNat_toUInt32]
        apply Nat.mod_eq_of_lt
        have := UInt32.toNat_lt bs
        omega
      intro a ha
      simp only [List.mem_cons, List.mem_nil_iff, or_false] at ha
      rcases ha with rfl | rfl
      · simp [Access.inBounds]
      · simp only [Access.inBounds]
        rw [UInt64.not_lt, UInt64.le_iff_toNat_le, UInt64.toNat_add] at hnb
        simp only [UInt32.toNat_toUInt64] at hnb
        rw [hfs] at hnb ⊢
        have := UInt32.toNat_lt bs
        have := UInt32.toNat_lt fragOff
        omega

theorem onDiskSize_lt (w : UInt32) : (onDiskSize w).toNat < 16777216 := by
  unfold onDiskSize
  rw [UInt32.toNat_and]
  have : w.toNat &&& (0xFFFFFF : UInt32).toNat ≤ (0xFFFFFF : UInt32).toNat := Nat.and_le_right
  have h2 : (0xFFFFFF : UInt32).toNat = 16777215 := by decide
  omega

/-- `get_block`: with `max_size ≤ block_size` and a codec that respects `outsize`, every access is in bounds and
the reported size does not exceed the allocation. -/
theorem getBlock_safe (bs : UInt32) (out : Buf) (w maxSize : UInt32) (l : BlkLoad)
    (hmax : maxSize.toNat ≤ bs.toNat) (hcodec : ∀ n, l.dec = some n → n.toNat ≤ maxSize.toNat) :
    (∀ a ∈ (getBlock bs out w maxSize l).2, a.inBounds) ∧
    (∀ sz, (getBlock bs out w maxSize l).1 = .ok sz → sz.toNat ≤ maxSize.toNat) := by
  unfold getBlock
  split
  · simp
  split
  · simp
  rename_i _ hods
  have hods' : (onDiskSize w).toNat ≤ maxSize.toNat := by
    rw [UInt32.not_lt, UInt32.le_iff_toNat_le] at hods; exact hods
  split
  · split
    · simp [Access.inBounds]; omega
    · split
      · simp [Access.inBounds]; omega
      · rename_i ret hdec
        have := hcodec ret hdec
        split
        · simp [Access.inBounds]; omega
        · simp [Access.inBounds]
          omega
  · split
    · simp [Access.inBounds]; omega
    · simp [Access.inBounds]
      omega

/-- the `outsize` the stream reader hands to the codec -/
def streamWant (bs : UInt32) (s : StreamSt) : UInt64 := if s.filesz < bs.toUInt64 then s.filesz else bs.toUInt64

theorem streamWant_le (bs : UInt32) (s : StreamSt) : (streamWant bs s).toNat ≤ bs.toNat := by
  unfold streamWant
  split
  · rename_i h; have := UInt64.lt_iff_toNat_lt.1 h; simp at this; omega
  · simp

theorem streamFill_safe (bs : UInt32) (s : StreamSt) (w : UInt32) (l : BlkLoad) (fragPre : Except Err UInt64)
    (fragOff : UInt32) (hs : s.bufUsed.toNat ≤ bs.toNat)
    (hcodec : ∀ n, l.dec = some n → n.toNat ≤ (streamWant bs s).toNat) :
    (∀ a ∈ (streamFill true bs s w l fragPre fragOff).2.2, a.inBounds) ∧
    (streamFill true bs s w l fragPre fragOff).1.bufUsed.toNat ≤ bs.toNat := by
  have hw := streamWant_le bs s
  unfold streamFill
  split
  · rename_i h
    have := UInt64.lt_iff_toNat_lt.1 h
    have hle : s.bufOff ≤ s.bufUsed := UInt64.le_iff_toNat_le.2 (by omega)
    simp [Access.inBounds, hs, UInt64.toNat_sub_of_le _ _ hle]
    omega
  split
  · simp
  simp only []
  change _ ∧ _
  rw [show (if s.filesz < bs.toUInt64 then s.filesz else bs.toUInt64) = streamWant bs s from rfl]
  generalize streamWant bs s = want at *
  split
  · rename_i hidx
    have hidx' := UInt32.lt_iff_toNat_lt.1 hidx
    split
    · simp [Access.inBounds]; omega
    split
    · simp [Access.inBounds]; omega
    rename_i hbig
    have hd : (onDiskSize w).toNat ≤ bs.toNat := by
      simp at hbig
      exact UInt32.le_iff_toNat_le.1 hbig
    split
    · split
      · simp [Access.inBounds]; omega
      · split
        · simp [Access.inBounds]; omega
        · rename_i ret hdec
          have hret := hcodec ret hdec
          split
          · simp [Access.inBounds]; omega
          · split
            · rename_i hlt
              have hlt' := UInt64.lt_iff_toNat_lt.1 hlt
              simp at hlt'
              have hle : ret.toUInt64 ≤ want := UInt64.le_iff_toNat_le.2 (by simp; omega)
              simp [Access.inBounds, UInt64.toNat_sub_of_le _ _ hle]
              omega
            · simp [Access.inBounds]; omega
    · split
      · simp [Access.inBounds]; omega
      · split
        · rename_i hlt
          have hlt' := UInt64.lt_iff_toNat_lt.1 hlt
          simp at hlt'
          have hle : (onDiskSize w).toUInt64 ≤ want := UInt64.le_iff_toNat_le.2 (by simp; omega)
          simp [Access.inBounds, UInt64.toNat_sub_of_le _ _ hle]
          omega
        · simp [Access.inBounds]; omega
  · split
    · simp
    · rename_i fsz
      split
      · simp
      · rename_i hchk
        simp at hchk
        obtain ⟨h1, h2⟩ := hchk
        have h1' := UInt64.le_iff_toNat_le.1 h1
        have h2' := UInt64.le_iff_toNat_le.1 h2
        rw [UInt64.toNat_sub_of_le _ _ h1] at h2'
        simp at h1' h2'
        simp [Access.inBounds]
        omega

/-! ## sqfs_data_reader_read -/

theorem dataReadSkip_spec (bs : UInt64) : ∀ (rem i : Nat) (offset : UInt64),
    (dataReadSkip bs rem i offset).1 ≤ i + rem ∧ i ≤ (dataReadSkip bs rem i offset).1 ∧
    ((dataReadSkip bs rem i offset).2.toNat ≤ bs.toNat ∨ (dataReadSkip bs rem i offset).1 = i + rem) ∧
    (dataReadSkip bs rem i offset).2.toNat ≤ offset.toNat := by
  intro rem
  induction rem with
  | zero => intro i o; simp [dataReadSkip]
  | succ rem ih =>
    intro i o
    unfold dataReadSkip
    split
    · rename_i h
      have hlt := UInt64.lt_iff_toNat_lt.1 h
      have hle : bs ≤ o := UInt64.le_iff_toNat_le.2 (by omega)
      have hs := UInt64.toNat_sub_of_le _ _ hle
      have := ih (i + 1) (o - bs)
      omega
    · rename_i h
      rw [UInt64.not_lt, UInt64.le_iff_toNat_le] at h
      simp; omega

theorem dataReadBlocks_safe (bs : UInt32) (words : Nat → UInt32) (blkOk : Nat → Bool) (blockCount cap : Nat)
    (hcap : cap < 2 ^ 32) :
    ∀ (rem i : Nat) (offset : UInt64) (size total : UInt32) (acc : List Access),
      i + rem ≤ blockCount → (rem = 0 ∨ offset.toNat ≤ bs.toNat) → total.toNat + size.toNat ≤ cap →
      (∀ a ∈ acc, a.inBounds) →
      (∀ a ∈ (dataReadBlocks bs words blkOk blockCount cap rem i offset size total acc).2, a.inBounds) ∧
      (∀ o s t, (dataReadBlocks bs words blkOk blockCount cap rem i offset size total acc).1 = .ok (o, s, t) →
        t.toNat + s.toNat ≤ cap ∧ o.toNat ≤ offset.toNat) := by
  intro rem
  induction rem with
  | zero =>
    intro i o sz t acc _ _ hts hacc
    simp only [dataReadBlocks]
    refine ⟨hacc, ?_⟩
    intro o' s' t' h
    simp at h
    obtain ⟨rfl, rfl, rfl⟩ := h
    exact ⟨hts, Nat.le_refl _⟩
  | succ rem ih =>
    intro i o sz t acc hi hoff hts hacc
    have ho : o.toNat ≤ bs.toNat := by rcases hoff with h | h; omega; exact h
    unfold dataReadBlocks
    split
    · refine ⟨hacc, ?_⟩
      intro o' s' t' h
      simp at h
      obtain ⟨rfl, rfl, rfl⟩ := h
      exact ⟨hts, Nat.le_refl _⟩
    · simp only []
      have hle : o ≤ bs.toUInt64 := UInt64.le_iff_toNat_le.2 (by simpa using ho)
      have hd0 : ((bs.toUInt64 - o).toUInt32).toNat = bs.toNat - o.toNat := by
        rw [UInt64.toNat_toUInt32, UInt64.toNat_sub_of_le _ _ hle, UInt32.toNat_toUInt64]
        apply Nat.mod_eq_of_lt
        have := UInt32.toNat_lt bs
        omega
      have hmin : (if sz < (bs.toUInt64 - o).toUInt32 then sz else (bs.toUInt64 - o).toUInt32).toNat ≤ sz.toNat ∧
          (if sz < (bs.toUInt64 - o).toUInt32 then sz else (bs.toUInt64 - o).toUInt32).toNat ≤ bs.toNat - o.toNat := by
        split
        · rename_i h; have := UInt32.lt_iff_toNat_lt.1 h; rw [hd0] at this; omega
        · rename_i h; rw [UInt32.not_lt, UInt32.le_iff_toNat_le, hd0] at h; rw [hd0]; omega
      generalize (if sz < (bs.toUInt64 - o).toUInt32 then sz else (bs.toUInt64 - o).toUInt32) = diff at hmin
      have hdle : diff ≤ sz := UInt32.le_iff_toNat_le.2 hmin.1
      have hsub : (sz - diff).toNat = sz.toNat - diff.toNat := UInt32.toNat_sub_of_le _ _ hdle
      have hadd : (t + diff).toNat = t.toNat + diff.toNat := by
        rw [UInt32.toNat_add]; apply Nat.mod_eq_of_lt; omega
      have hino : (Access.mk .inoData (i * 4) 4 (blockCount * 4)).inBounds := by
        simp only [Access.inBounds]; omega
      have hz : (0 : UInt64).toNat = 0 := rfl
      split
      · have := ih (i + 1) 0 (sz - diff) (t + diff)
          (acc ++ [Access.mk .inoData (i * 4) 4 (blockCount * 4)] ++ [Access.mk .dst t.toNat diff.toNat cap])
          (by omega) (Or.inr (by rw [hz]; omega)) (by rw [hsub, hadd]; omega) (by
            intro a ha
            simp only [List.mem_append, List.mem_cons, List.mem_nil_iff, or_false] at ha
            rcases ha with (ha | ha) | ha
            · exact hacc a ha
            · subst ha; exact hino
            · subst ha; simp only [Access.inBounds]; omega)
        refine ⟨this.1, ?_⟩
        intro o' s' t' h
        have := this.2 o' s' t' h
        rw [hz] at this
        omega
      · split
        · refine ⟨?_, by intro o' s' t' h; simp at h⟩
          intro a ha
          simp only [List.mem_append, List.mem_cons, List.mem_nil_iff, or_false] at ha
          rcases ha with ha | ha
          · exact hacc a ha
          · subst ha; exact hino
        · have := ih (i + 1) 0 (sz - diff) (t + diff)
            (acc ++ [Access.mk .inoData (i * 4) 4 (blockCount * 4)] ++
              [Access.mk .dataBlock o.toNat diff.toNat bs.toNat, Access.mk .dst t.toNat diff.toNat cap])
            (by omega) (Or.inr (by rw [hz]; omega)) (by rw [hsub, hadd]; omega) (by
              intro a ha
              simp only [List.mem_append, List.mem_cons, List.mem_nil_iff, or_false] at ha
              rcases ha with (ha | ha) | ha | ha
              · exact hacc a ha
              · subst ha; exact hino
              · subst ha; simp only [Access.inBounds]; omega
              · subst ha; simp only [Access.inBounds]; omega)
          refine ⟨this.1, ?_⟩
          intro o' s' t' h
          have := this.2 o' s' t' h
          rw [hz] at this
          omega

theorem dataRead_safe (bs : UInt32) (words : Nat → UInt32) (blkOk : Nat → Bool) (blockCount : Nat)
    (filesz offset : UInt64) (size0 : UInt32) (fragOff : UInt32) (fragPre : Except Err UInt64)
    (hfs : filesz.toNat + 2 ^ 32 ≤ 2 ^ 64) :
    ∀ a ∈ (dataRead bs words blkOk blockCount filesz offset size0 fragOff fragPre).2, a.inBounds := by
  unfold dataRead
  simp only []
  split
  · simp
  rename_i hoff
  rw [UInt64.not_le, UInt64.lt_iff_toNat_lt] at hoff
  have hclamp : (if size0 ≥ 0x7FFFFFFF then (0x7FFFFFFE : UInt32) else size0).toNat ≤ size0.toNat := by
    split
    · rename_i h; have := UInt32.le_iff_toNat_le.1 h
      have e1 : (0x7FFFFFFF : UInt32).toNat = 2147483647 := rfl
      have e2 : (0x7FFFFFFE : UInt32).toNat = 2147483646 := rfl
      omega
    · exact Nat.le_refl _
  generalize (if size0 ≥ 0x7FFFFFFF then (0x7FFFFFFE : UInt32) else size0) = sz1 at hclamp
  have hle : offset ≤ filesz := UInt64.le_iff_toNat_le.2 (by omega)
  have hsz2 : (if filesz - offset < sz1.toUInt64 then (filesz - offset).toUInt32 else sz1).toNat ≤ sz1.toNat := by
    split
    · rename_i h
      have := UInt64.lt_iff_toNat_lt.1 h
      rw [UInt32.toNat_toUInt64] at this
      rw [UInt64.toNat_toUInt32]
      have h2 := Nat.mod_le (filesz - offset).toNat (2 ^ 32)
      omega
    · exact Nat.le_refl _
  generalize (if filesz - offset < sz1.toUInt64 then (filesz - offset).toUInt32 else sz1) = sz at hsz2
  split
  · simp
  have hskip := dataReadSkip_spec bs.toUInt64 blockCount 0 offset
  generalize hq : dataReadSkip bs.toUInt64 blockCount 0 offset = q at hskip
  obtain ⟨i, off1⟩ := q
  simp only [] at hskip ⊢
  obtain ⟨h1, _, h3, h4⟩ := hskip
  have hcap := UInt32.toNat_lt size0
  have hz : (0 : UInt32).toNat = 0 := rfl
  have hb := dataReadBlocks_safe bs words blkOk blockCount size0.toNat hcap (blockCount - i) i off1 sz 0 []
    (by omega) (by rcases h3 with h | h; right; simpa using h; left; omega) (by rw [hz]; omega) (by simp)
  generalize hr : dataReadBlocks bs words blkOk blockCount size0.toNat (blockCount - i) i off1 sz 0 [] = r at hb
  obtain ⟨res, acc⟩ := r
  simp only [] at hb ⊢
  cases res with
  | error e => exact hb.1
  | ok v =>
    obtain ⟨o2, s2, t2⟩ := v
    obtain ⟨hts, ho2⟩ := hb.2 o2 s2 t2 rfl
    simp only []
    split
    · exact hb.1
    · cases fragPre with
      | error e => exact hb.1
      | ok fbs =>
        simp only []
        have hsum : (fragOff.toUInt64 + o2).toNat = fragOff.toNat + o2.toNat := by
          rw [UInt64.toNat_add, UInt32.toNat_toUInt64]
          apply Nat.mod_eq_of_lt
          have := UInt32.toNat_lt fragOff
          omega
        split
        · exact hb.1
        · rename_i hc1
          rw [UInt64.not_le, UInt64.lt_iff_toNat_lt, hsum] at hc1
          split
          · exact hb.1
          · rename_i hc2
            have hle2 : fragOff.toUInt64 + o2 ≤ fbs := UInt64.le_iff_toNat_le.2 (by rw [hsum]; omega)
            rw [UInt64.not_lt, UInt64.le_iff_toNat_le, UInt64.toNat_sub_of_le _ _ hle2, hsum, UInt32.toNat_toUInt64] at hc2
            intro a ha
            simp only [List.mem_append, List.mem_cons, List.mem_nil_iff, or_false] at ha
            rcases ha with ha | ha | ha
            · exact hb.1 a ha
            · subst ha; simp only [Access.inBounds]; omega
            · subst ha; simp only [Access.inBounds]; omega

/-! ## read_table -/

theorem readTableLoop_safe (total blockCount : Nat) (stepOk : Nat → Bool) :
    ∀ (fuel : Nat) (tableSize : UInt64) (blkIdx done : Nat) (acc : List Access),
      done + tableSize.toNat = total → blkIdx + (tableSize.toNat + 8191) / 8192 ≤ blockCount →
      (∀ a ∈ acc, a.inBounds) →
      ∀ a ∈ (readTableLoop total blockCount stepOk fuel tableSize blkIdx done acc).2, a.inBounds := by
  intro fuel
  induction fuel with
  | zero => intro ts bi dn acc _ _ hacc; simpa [readTableLoop] using hacc
  | succ fuel ih =>
    intro ts bi dn acc hd hb hacc
    unfold readTableLoop
    split
    · simpa using hacc
    rename_i hts
    have hts0 : ts.toNat ≠ 0 := by
      intro h0; apply hts; simp; exact UInt64.toNat_inj.1 (by simpa using h0)
    have hloc : (Access.mk .locations (bi * 8) 8 (blockCount * 8)).inBounds := by
      simp only [Access.inBounds]; omega
    simp only []
    split
    · intro a ha
      simp only [List.mem_append, List.mem_cons, List.mem_nil_iff, or_false] at ha
      rcases ha with ha | ha
      · exact hacc a ha
      · subst ha; exact hloc
    · have e8 : (8192 : UInt64).toNat = 8192 := by rfl
      have hmin : (if (8192 : UInt64) > ts then ts else 8192).toNat ≤ ts.toNat ∧
          ((if (8192 : UInt64) > ts then ts else 8192).toNat = ts.toNat ∧ ts.toNat ≤ 8192 ∨
           (if (8192 : UInt64) > ts then ts else 8192).toNat = 8192) := by
        split
        · rename_i h; have := UInt64.lt_iff_toNat_lt.1 h; rw [e8] at this; omega
        · rename_i h; rw [UInt64.not_lt, UInt64.le_iff_toNat_le, e8] at h; rw [e8]; omega
      generalize (if (8192 : UInt64) > ts then ts else 8192) = diff at hmin
      have hle : diff ≤ ts := UInt64.le_iff_toNat_le.2 hmin.1
      apply ih
      · rw [UInt64.toNat_sub_of_le _ _ hle]; omega
      · rw [UInt64.toNat_sub_of_le _ _ hle]; omega
      · intro a ha
        simp only [List.mem_append, List.mem_cons, List.mem_nil_iff, or_false] at ha
        rcases ha with (ha | ha) | ha
        · exact hacc a ha
        · subst ha; exact hloc
        · subst ha; simp only [Access.inBounds]; omega

theorem tableBlockCount_ge (ts : UInt64) : (ts.toNat + 8191) / 8192 ≤ (tableBlockCount ts).toNat := by
  unfold tableBlockCount
  simp only []
  have h1 : (ts / 8192).toNat = ts.toNat / 8192 := by rw [UInt64.toNat_div]; rfl
  split
  · have h2 : (ts / 8192 + 1).toNat = ts.toNat / 8192 + 1 := by
      rw [UInt64.toNat_add, h1]
      have := UInt64.toNat_lt ts
      have : (1 : UInt64).toNat = 1 := rfl
      omega
    rw [h2]; omega
  · rename_i h
    have h3 : ts.toNat % 8192 = 0 := by
      simp at h
      have := congrArg UInt64.toNat h
      rw [UInt64.toNat_mod] at this
      simpa using this
    rw [h1]; omega

theorem readTable_safe (ts : UInt64) (stepOk : Nat → Bool) : ∀ a ∈ (readTable ts stepOk).2, a.inBounds := by
  unfold readTable
  simp only []
  apply readTableLoop_safe
  · simp
  · have := tableBlockCount_ge ts; omega
  · simp

theorem readTableLoop_no_fuel (total blockCount : Nat) (stepOk : Nat → Bool) :
    ∀ (fuel : Nat) (tableSize : UInt64) (blkIdx done : Nat) (acc : List Access),
      (tableSize.toNat + 8191) / 8192 < fuel →
      (readTableLoop total blockCount stepOk fuel tableSize blkIdx done acc).1 ≠ .error .fuel := by
  intro fuel
  induction fuel with
  | zero => intro ts bi dn acc h; omega
  | succ fuel ih =>
    intro ts bi dn acc h
    unfold readTableLoop
    split
    · simp
    rename_i hts
    have hts0 : ts.toNat ≠ 0 := by
      intro h0; apply hts; simp; exact UInt64.toNat_inj.1 (by simpa using h0)
    simp only []
    split
    · simp
    · have e8 : (8192 : UInt64).toNat = 8192 := by rfl
      have hmin : (if (8192 : UInt64) > ts then ts else 8192).toNat ≤ ts.toNat ∧
          ((if (8192 : UInt64) > ts then ts else 8192).toNat = ts.toNat ∧ ts.toNat ≤ 8192 ∨
           (if (8192 : UInt64) > ts then ts else 8192).toNat = 8192) := by
        split
        · rename_i h; have := UInt64.lt_iff_toNat_lt.1 h; rw [e8] at this; omega
        · rename_i h; rw [UInt64.not_lt, UInt64.le_iff_toNat_le, e8] at h; rw [e8]; omega
      generalize (if (8192 : UInt64) > ts then ts else 8192) = diff at hmin
      have hle : diff ≤ ts := UInt64.le_iff_toNat_le.2 hmin.1
      apply ih
      rw [UInt64.toNat_sub_of_le _ _ hle]; omega

theorem readTable_no_fuel (ts : UInt64) (stepOk : Nat → Bool) : (readTable ts stepOk).1 ≠ .error .fuel := by
  unfold readTable
  simp only []
  apply readTableLoop_no_fuel
  have := tableBlockCount_ge ts
  omega

/-! ## read_inode -/

theorem allocFlex_some (base item n alloc : UInt64) (h : allocFlex base item n = some alloc) :
    alloc.toNat = base.toNat + n.toNat * item.toNat := by
  unfold allocFlex mulOv addOv at h
  simp only [Option.bind_eq_bind] at h
  split at h
  · rename_i h1
    simp only [Option.bind_some] at h
    split at h
    · rename_i h2
      cases h
      rw [UInt64.toNat_add, UInt64.toNat_mul] at *
      rw [Nat.mod_eq_of_lt h1] at h2 ⊢
      exact Nat.mod_eq_of_lt h2
    · cases h
  · simp at h

theorem szInodeGeneric_eq : szInodeGeneric = 64 := by decide
theorem szDirIndex_eq : szDirIndex = 12 := by decide

theorem readInodeFile_safe (fileSize blockSize : UInt64) (fragIdx fragOff : UInt32) (as : List Access)
    (h : readInodeFile fileSize blockSize fragIdx fragOff = .ok as) : ∀ a ∈ as, a.inBounds := by
  unfold readInodeFile at h
  simp only [] at h
  split at h
  · cases h
  · rename_i alloc ha
    cases h
    have := allocFlex_some _ _ _ _ ha
    have e4 : (4 : UInt64).toNat = 4 := rfl
    have e64 : szInodeGeneric.toUInt64.toNat = 64 := by rfl
    rw [e4, e64] at this
    intro a ha'
    simp only [List.mem_cons, List.mem_nil_iff, or_false] at ha'
    subst ha'
    simp only [Access.inBounds, UInt64.toNat_mul, e4, szInodeGeneric_eq]
    have := UInt64.toNat_lt alloc
    omega

theorem readInodeSlink_safe (targetSize : UInt32) (as : List Access)
    (h : readInodeSlink targetSize = .ok as) : ∀ a ∈ as, a.inBounds := by
  unfold readInodeSlink addOv at h
  split at h
  · cases h
  · rename_i s1 hs1
    split at hs1
    · cases hs1
      split at h
      · cases h
      · rename_i size hsize
        split at hsize
        · rename_i hlt
          cases hsize
          cases h
          intro a ha
          simp only [List.mem_cons, List.mem_nil_iff, or_false] at ha
          subst ha
          have e64 : szInodeGeneric.toUInt64.toNat = 64 := by rfl
          have e1 : (1 : UInt64).toNat = 1 := rfl
          have e64' : (Nat.toUInt64 64).toNat = 64 := rfl
          simp only [Access.inBounds, UInt64.toNat_add, e64, e1, szInodeGeneric_eq, e64', UInt32.toNat_toUInt64] at hlt ⊢
          have := UInt32.toNat_lt targetSize
          omega
        · cases hsize
    · cases hs1

theorem growLoop_spec (need used : UInt64) : ∀ (fuel : Nat) (start n : UInt64),
    used.toNat ≤ start.toNat → growLoop need used fuel start = some n →
    start.toNat ≤ n.toNat ∧ need.toNat ≤ n.toNat - used.toNat := by
  intro fuel
  induction fuel with
  | zero => intro start n _ h; simp [growLoop] at h
  | succ fuel ih =>
    intro start n hle h
    unfold growLoop at h
    split at h
    · split at h
      · cases h
      · rename_i n' heq
        unfold mulOv at heq
        split at heq
        · rename_i hov
          cases heq
          have e2 : (2 : UInt64).toNat = 2 := rfl
          have hm : (start * 2).toNat = start.toNat * 2 := by
            rw [UInt64.toNat_mul, e2]; rw [e2] at hov; exact Nat.mod_eq_of_lt hov
          have := ih (start * 2) n (by omega) h
          omega
        · cases heq
    · rename_i hn
      cases h
      have hle' : used ≤ start := UInt64.le_iff_toNat_le.2 hle
      rw [UInt64.not_lt, UInt64.le_iff_toNat_le, UInt64.toNat_sub_of_le _ _ hle'] at hn
      exact ⟨Nat.le_refl _, hn⟩

theorem dirExtLoop_safe : ∀ (szs : List UInt32) (indexMax indexUsed : UInt64) (acc : List Access)
    (im iu : UInt64) (as : List Access),
    indexUsed.toNat ≤ indexMax.toNat → (∀ a ∈ acc, a.inBounds) →
    dirExtLoop szs indexMax indexUsed acc = .ok (im, iu, as) →
    (∀ a ∈ as, a.inBounds) ∧ iu.toNat ≤ im.toNat := by
  intro szs
  induction szs with
  | nil =>
    intro indexMax indexUsed acc im iu as hle hacc h
    simp [dirExtLoop] at h
    obtain ⟨rfl, rfl, rfl⟩ := h
    exact ⟨hacc, hle⟩
  | cons sz rest ih =>
    intro indexMax indexUsed acc im iu as hle hacc h
    unfold dirExtLoop at h
    simp only [] at h
    split at h
    · cases h
    · rename_i newSz hg
      have e12 : szDirIndex.toUInt64.toNat = 12 := rfl
      have e1 : (1 : UInt64).toNat = 1 := rfl
      have hsz := UInt32.toNat_lt sz
      have hneed : (szDirIndex.toUInt64 + sz.toUInt64 + 1).toNat = 12 + sz.toNat + 1 := by
        rw [UInt64.toNat_add, UInt64.toNat_add, e12, e1, UInt32.toNat_toUInt64]; omega
      obtain ⟨h1, h2⟩ := growLoop_spec _ _ _ _ _ hle hg
      rw [hneed] at h2
      have hmax : (if newSz > indexMax then newSz else indexMax).toNat = newSz.toNat := by
        split
        · rfl
        · rename_i hn; rw [UInt64.not_lt, UInt64.le_iff_toNat_le] at hn; omega
      have hn1 : (sz + 1).toNat ≤ sz.toNat + 1 := by
        rw [UInt32.toNat_add]; have : (1 : UInt32).toNat = 1 := rfl; rw [this]; omega
      have hnew := UInt64.toNat_lt newSz
      have hu12 : (indexUsed + szDirIndex.toUInt64).toNat = indexUsed.toNat + 12 := by
        rw [UInt64.toNat_add, e12]; omega
      have hu2 : (indexUsed + szDirIndex.toUInt64 + (sz + 1).toUInt64).toNat = indexUsed.toNat + 12 + (sz + 1).toNat := by
        rw [UInt64.toNat_add, hu12, UInt32.toNat_toUInt64]; omega
      apply ih _ _ _ _ _ _ _ _ h
      · rw [hmax, hu2]; omega
      · intro a ha
        simp only [List.mem_append, List.mem_cons, List.mem_nil_iff, or_false] at ha
        rcases ha with ha | ha | ha
        · exact hacc a ha
        · subst ha; simp only [Access.inBounds, hmax, show szDirIndex = 12 from rfl]; omega
        · subst ha; simp only [Access.inBounds, hmax, hu12]; omega

/-! ## inode.c -/

theorem unpackIdx_safe (used : UInt32) (szAt : UInt64 → UInt32) :
    ∀ (fuel : Nat) (offset index : UInt64) (acc : List Access), (∀ a ∈ acc, a.inBounds) →
      ∀ a ∈ (unpackIdx true used szAt fuel offset index acc).2, a.inBounds := by
  intro fuel
  induction fuel with
  | zero => intro o i acc hacc; simpa [unpackIdx] using hacc
  | succ fuel ih =>
    intro o i acc hacc
    unfold unpackIdx
    split
    · simpa using hacc
    rename_i hlt
    rw [UInt64.not_le, UInt64.lt_iff_toNat_lt, UInt32.toNat_toUInt64] at hlt
    have hle : o ≤ used.toUInt64 := UInt64.le_iff_toNat_le.2 (by simp; omega)
    have e12 : szDirIndex.toUInt64.toNat = 12 := rfl
    have e12' : szDirIndex = 12 := rfl
    split
    · simpa using hacc
    rename_i h12
    simp only [Bool.true_and, decide_eq_true_eq] at h12
    rw [UInt64.not_lt, UInt64.le_iff_toNat_le, UInt64.toNat_sub_of_le _ _ hle, e12, UInt32.toNat_toUInt64] at h12
    have hacc' : ∀ a ∈ acc ++ [Access.mk .idxSrc o.toNat szDirIndex used.toNat], a.inBounds := by
      intro a ha
      simp only [List.mem_append, List.mem_cons, List.mem_nil_iff, or_false] at ha
      rcases ha with ha | ha
      · exact hacc a ha
      · subst ha; simp only [Access.inBounds, e12']; omega
    simp only []
    split
    · split
      · exact hacc'
      · rename_i hname
        simp only [Bool.true_and, decide_eq_true_eq] at hname
        have hle2 : szDirIndex.toUInt64 ≤ used.toUInt64 - o := by
          rw [UInt64.le_iff_toNat_le, UInt64.toNat_sub_of_le _ _ hle, e12, UInt32.toNat_toUInt64]; exact h12
        have e1 : (1 : UInt64).toNat = 1 := rfl
        have e2 : (2 : UInt64).toNat = 2 := rfl
        have hs := UInt32.toNat_lt (szAt o)
        have hn1 : ((szAt o).toUInt64 + 1).toNat = (szAt o).toNat + 1 := by
          rw [UInt64.toNat_add, e1, UInt32.toNat_toUInt64]; omega
        have hn2 : ((szAt o).toUInt64 + 2).toNat = (szAt o).toNat + 2 := by
          rw [UInt64.toNat_add, e2, UInt32.toNat_toUInt64]; omega
        rw [UInt64.not_lt, UInt64.le_iff_toNat_le, hn1, UInt64.toNat_sub_of_le _ _ hle2,
          UInt64.toNat_sub_of_le _ _ hle, e12, UInt32.toNat_toUInt64] at hname
        simp only [if_true]
        split
        · exact hacc'
        · rename_i alloc hal
          unfold allocFlex mulOv addOv at hal
          simp only [Option.bind_eq_bind] at hal
          have e1' : (1 : UInt64).toNat = 1 := rfl
          rw [hn2, e1', e12] at hal
          have hc1 : ((szAt o).toNat + 2) * 1 < 2 ^ 64 := by omega
          simp only [hc1, if_true, Option.bind_some, UInt64.toNat_mul, hn2, e1'] at hal
          have hc2 : 12 + ((szAt o).toNat + 2) * 1 % 2 ^ 64 < 2 ^ 64 := by omega
          simp only [hc2, if_true, Option.some.injEq] at hal
          have hav : alloc.toNat = 12 + (szAt o).toNat + 2 := by
            rw [← hal, UInt64.toNat_add, e12, UInt64.toNat_mul, hn2, e1']; omega
          intro a ha
          simp only [List.mem_append, List.mem_cons, List.mem_nil_iff, or_false] at ha
          rcases ha with ha | ha | ha | ha
          · exact hacc' a (by simpa using ha)
          · subst ha; simp only [Access.inBounds, e12']; omega
          · subst ha; simp only [Access.inBounds, e12', hn1]; omega
          · subst ha; simp only [Access.inBounds, e12', hn1]; omega
    · exact ih _ _ _ hacc'

/-! ## dir_reader / readdir -/

theorem strncmpEq_examined (b : List UInt8) (hb : (0 : UInt8) ∉ b) :
    ∀ (n : Nat) (a : List UInt8), (strncmpEq a b n).2 ≤ b.length + 1 := by
  induction b with
  | nil =>
    intro n a
    cases n with
    | zero => simp [strncmpEq]
    | succ n =>
      unfold strncmpEq
      simp only [List.headD_nil]
      split
      · simp
      · rename_i h
        simp at h
        simp [h]
  | cons c t ih =>
    intro n a
    have hc : c ≠ 0 := by intro h; apply hb; simp [h]
    have ht : (0 : UInt8) ∉ t := by intro h; apply hb; simp [h]
    cases n with
    | zero => simp [strncmpEq]
    | succ n =>
      unfold strncmpEq
      generalize a.headD 0 = ca
      generalize (c :: t).headD 0 = cb
      by_cases h1 : (ca != cb) = true
      · rw [if_pos h1]; simp
      · rw [if_neg h1]
        by_cases h2 : (ca == 0) = true
        · rw [if_pos h2]; simp
        · rw [if_neg h2]
          have := ih ht n a.tail
          simp only [List.length_cons, List.tail_cons]
          omega

theorem strncmpEq_len (a : List UInt8) (ha : (0 : UInt8) ∉ a) :
    ∀ (b : List UInt8), (strncmpEq a b a.length).1 = true → a.length ≤ b.length := by
  induction a with
  | nil => intro b _; simp
  | cons x xs ih =>
    intro b h
    have hx : x ≠ 0 := by intro h; apply ha; simp [h]
    have hxs : (0 : UInt8) ∉ xs := by intro h; apply ha; simp [h]
    simp only [List.length_cons] at h ⊢
    unfold strncmpEq at h
    have e1 : (x :: xs).headD 0 = x := rfl
    generalize hca : (x :: xs).headD 0 = ca at h
    rw [e1] at hca; subst hca
    generalize hcb : b.headD 0 = cb at h
    by_cases h1 : (x != cb) = true
    · rw [if_pos h1] at h; simp at h
    · have h2 : ¬ (x == 0) = true := by simpa using hx
      rw [if_neg h1, if_neg h2] at h
      cases b with
      | nil => simp at hcb; subst hcb; simp at h1; exact absurd h1 hx
      | cons y ys =>
        simp only [List.tail_cons] at h
        have := ih hxs ys h
        simp only [List.length_cons]
        omega

theorem cstr_no_nul (s : List UInt8) : (0 : UInt8) ∉ cstr s := by
  unfold cstr
  induction s with
  | nil => simp
  | cons x xs ih =>
    rw [List.takeWhile_cons]
    split
    · rename_i hx
      simp at hx
      intro h
      simp only [List.mem_cons] at h
      rcases h with h | h
      · exact hx h.symm
      · exact ih h
    · simp

/-- `sqfs_dir_reader_resolve_path`, repaired comparison: every access to the caller's path string stays inside
`strlen(path) + 1` bytes, for every entry name (embedded NULs included). -/
theorem resolveCompare_safe (name path : List UInt8) (hp : (0 : UInt8) ∉ path) :
    ∀ a ∈ (resolveCompare true name path).2, a.inBounds := by
  unfold resolveCompare
  simp only []
  have hk := strncmpEq_examined path hp name.length (cstr name)
  generalize hq : strncmpEq (cstr name) path name.length = q at hk
  obtain ⟨eq, k⟩ := q
  simp only [if_true]
  split
  · rename_i hm
    simp only [Bool.and_eq_true, beq_iff_eq] at hm
    obtain ⟨he, hl⟩ := hm
    subst he
    have h1 : (strncmpEq (cstr name) path (cstr name).length).1 = true := by rw [hl, hq]
    have := strncmpEq_len (cstr name) (cstr_no_nul name) path h1
    intro a ha
    simp only [List.mem_append, List.mem_cons, List.mem_nil_iff, or_false] at ha
    rcases ha with ha | ha
    · subst ha; simp only [Access.inBounds]; omega
    · subst ha; simp only [Access.inBounds]; omega
  · intro a ha
    simp only [List.mem_cons, List.mem_nil_iff, or_false] at ha
    subst ha; simp only [Access.inBounds]; simp only [] at hk; omega

theorem readdirStep_progress (s s' : RdState) (hdrCount : UInt32) (nameSize : UInt16)
    (h : readdirStep s hdrCount nameSize = some s') : s'.size.toNat + 8 < s.size.toNat := by
  unfold readdirStep at h
  have e12 : szDirHeader.toUInt64.toNat = 12 := rfl
  have e8 : szDirNode.toUInt64.toNat = 8 := rfl
  have key : ∀ s1 : RdState, s1.size.toNat ≤ s.size.toNat →
      (if s1.size ≤ szDirNode.toUInt64 then none
       else some (⟨if nameSize.toUInt64 + 1 ≥ s1.size - szDirNode.toUInt64 then 0
                   else s1.size - szDirNode.toUInt64 - (nameSize.toUInt64 + 1), s1.entries - 1⟩ : RdState)) = some s' →
      s'.size.toNat + 8 < s.size.toNat := by
    intro s1 hs1 h
    split at h
    · cases h
    · rename_i hgt
      rw [UInt64.not_le, UInt64.lt_iff_toNat_lt, e8] at hgt
      cases h
      have hle : szDirNode.toUInt64 ≤ s1.size := UInt64.le_iff_toNat_le.2 (by rw [e8]; omega)
      have hsub := UInt64.toNat_sub_of_le _ _ hle
      rw [e8] at hsub
      have hns : (nameSize.toUInt64 + 1).toNat = nameSize.toNat + 1 := by
        rw [UInt64.toNat_add]; have : (1 : UInt64).toNat = 1 := rfl
        rw [this, UInt16.toNat_toUInt64]; have := UInt16.toNat_lt nameSize; omega
      simp only []
      split
      · have : (0 : UInt64).toNat = 0 := rfl
        omega
      · rename_i hlt
        rw [UInt64.not_le, UInt64.lt_iff_toNat_lt, hns, hsub] at hlt
        have hle2 : nameSize.toUInt64 + 1 ≤ s1.size - szDirNode.toUInt64 :=
          UInt64.le_iff_toNat_le.2 (by rw [hns, hsub]; omega)
        rw [UInt64.toNat_sub_of_le _ _ hle2, hns, hsub]
        omega
  simp only [] at h
  split at h
  · cases h
  · rename_i s1 heq
    refine key s1 ?_ h
    split at heq
    · split at heq
      · cases heq
      · rename_i hgt
        rw [UInt64.not_le, UInt64.lt_iff_toNat_lt, e12] at hgt
        have hle : szDirHeader.toUInt64 ≤ s.size := UInt64.le_iff_toNat_le.2 (by rw [e12]; omega)
        cases heq
        simp only []
        rw [UInt64.toNat_sub_of_le _ _ hle]; omega
    · cases heq; exact Nat.le_refl _

end Sqfs.ReaderBounds
