/-
C02, `packRef = specPack`, part 3: one step of the writer pass (`wStep`) against `specPack`'s history.  A block of a file
appends its stored form to the history (`FIRST` marks the file start); the block that carries `LAST` — a data block or
the size-0 sentinel — runs `deduplicate_blocks` = `Pack.placeBlocks`; a closed fragment block appends
`Pack.workFragBlock` and sets its table entry.
-/
import Sqfs.Proofs.BPSPHist
namespace Sqfs.BlockProc
open Sqfs.Consts
open Sqfs.BlockWriter (hasFlag PE Abs)

/-- the part of `write_data_block` before `deduplicate_blocks` -/
def storePart (s : BlockWriter.State) (chk : UInt32) (flags : Nat) (data : Bytes) : BlockWriter.State :=
  let s1 := if hasFlag flags blkFirstBlock then { s with fileStart := s.blocks.length } else s
  if data.length != 0 && !hasFlag flags blkIsSparse then
    { s1 with blocks := s1.blocks ++ [⟨s1.file.length, BlockWriter.mkWord data.length flags, chk⟩],
              file := BlockWriter.writeAt s1.file s1.file.length data }
  else s1

theorem writeDataBlock_split (s : BlockWriter.State) (chk : UInt32) (flags : Nat) (data : Bytes) :
    BlockWriter.writeDataBlock s chk flags data =
      if hasFlag flags blkLastBlock then BlockWriter.deduplicateBlocks (storePart s chk flags data) flags
      else .ok (storePart s chk flags data, s.file.length) := by
  unfold BlockWriter.writeDataBlock storePart
  cases hasFlag flags blkFirstBlock <;> rfl

theorem storePart_first {pre : Bytes} {s : BlockWriter.State} {ps : List PE} (habs : Abs pre s ps) (flags : Nat) :
    Abs pre (if hasFlag flags blkFirstBlock then { s with fileStart := s.blocks.length } else s) ps ∧
    (if hasFlag flags blkFirstBlock then { s with fileStart := s.blocks.length } else s).fileStart =
      (if hasFlag flags blkFirstBlock then ps.length else s.fileStart) := by
  by_cases hf : hasFlag flags blkFirstBlock = true
  · simp only [hf, if_true]
    exact ⟨⟨habs.blocks, habs.file, habs.offs, by show s.blocks.length ≤ ps.length; rw [habs.len]; exact Nat.le_refl _, habs.ho⟩,
      habs.len⟩
  · simp only [hf, Bool.false_eq_true, if_false]
    exact ⟨habs, trivial⟩

theorem storePart_none {pre : Bytes} {s : BlockWriter.State} {ps : List PE} (habs : Abs pre s ps) (chk : UInt32) (flags : Nat)
    (data : Bytes) (h : (data.length != 0 && !hasFlag flags blkIsSparse) = false) :
    Abs pre (storePart s chk flags data) ps ∧
    (storePart s chk flags data).fileStart = (if hasFlag flags blkFirstBlock then ps.length else s.fileStart) := by
  unfold storePart
  simp only [h, Bool.false_eq_true, if_false]
  exact storePart_first habs flags

theorem storePart_some {pre : Bytes} {s : BlockWriter.State} {ps : List PE} (habs : Abs pre s ps) (chk : UInt32) (flags : Nat)
    (data : Bytes) (h : (data.length != 0 && !hasFlag flags blkIsSparse) = true) (hsz : data.length < 2 ^ 24) :
    ∃ e : BlockWriter.Entry, e.word = BlockWriter.mkWord data.length flags ∧ e.chk = chk ∧
    Abs pre (storePart s chk flags data) (ps ++ [(e, data)]) ∧
    (storePart s chk flags data).fileStart = (if hasFlag flags blkFirstBlock then ps.length else s.fileStart) := by
  unfold storePart
  simp only [h, if_true]
  obtain ⟨ha, hfs⟩ := storePart_first habs flags
  generalize (if hasFlag flags blkFirstBlock then { s with fileStart := s.blocks.length } else s) = s1 at ha hfs ⊢
  let e : BlockWriter.Entry := ⟨s1.file.length, BlockWriter.mkWord data.length flags, chk⟩
  refine ⟨e, rfl, rfl, ⟨?_, ?_, ?_, ?_, ha.ho⟩, hfs⟩
  · show s1.blocks ++ [e] = (ps ++ [(e, data)]).map (·.1)
    rw [List.map_append, ha.blocks]; rfl
  · show BlockWriter.writeAt s1.file s1.file.length data = pre ++ BlockWriter.bytesOf (ps ++ [(e, data)])
    rw [BlockWriter.writeAt_end, ha.file, BlockWriter.bytesOf_append]; simp [List.append_assoc]
  · rw [BlockWriter.Offs_append]
    refine ⟨ha.offs, ?_, ?_, trivial⟩
    · show s1.file.length = _; rw [ha.fileLen]
    · show BlockWriter.mkWord data.length flags % 2 ^ 24 = data.length
      exact BlockWriter.mkWord_size _ _ hsz
  · show s1.fileStart ≤ (ps ++ [(e, data)]).length
    have := ha.fs; simp; omega

/-! ### the writer pass and `specPack`'s state -/

def fragView (e : Sqfs.Pack.FragEntry) : Nat × Nat := (e.start, (Sqfs.Pack.Word.stored e.size e.raw).toNat)

structure WSim (P : Params) (W : WSt) (H : List Sqfs.Pack.Stored) (frags : List Sqfs.Pack.FragEntry) : Prop where
  abs : ∃ ps, Abs P.pre W.wr ps ∧ Hist ps H
  hok : HOK H
  setsIdx : W.sets.map (·.1) = List.range frags.length
  setsVal : W.sets.map (·.2) = frags.map fragView

/-- what the writer sees of a worked block of a file; `none`: the sentinel -/
def BlkRel (b : Blk) : Option Sqfs.Pack.Worked → Prop
  | none => b.data = [] ∧ hasFlag b.flags blkIsSparse = false
  | some (.sparse n) => b.data ≠ [] ∧ hasFlag b.flags blkIsSparse = true ∧ n = b.data.length
  | some (.stored st) => b.data ≠ [] ∧ hasFlag b.flags blkIsSparse = false ∧ b.data = st.data ∧ b.chk = st.cksum ∧
      hasFlag b.flags blkIsCompressed = !st.raw ∧ st.data.length < 2 ^ 24

def storedOf : Option Sqfs.Pack.Worked → List Sqfs.Pack.Stored
  | some (.stored st) => [st]
  | _ => []

def effOf (id j : Nat) : Option Sqfs.Pack.Worked → List Eff
  | none => []
  | some (.sparse n) => [⟨id, .sparse j n⟩]
  | some (.stored st) => [⟨id, .word j (wordOf st)⟩]

theorem mkWord_wordOf (flags : Nat) (st : Sqfs.Pack.Stored) (h : hasFlag flags blkIsCompressed = !st.raw) :
    BlockWriter.mkWord st.data.length flags = wordOf st := by
  unfold BlockWriter.mkWord wordOf
  rw [h]
  cases st.raw <;> simp

theorem sizeWord_wordOf (b : Blk) (st : Sqfs.Pack.Stored) (hd : b.data = st.data) (h : hasFlag b.flags blkIsCompressed = !st.raw) :
    sizeWord b = wordOf st := by
  unfold sizeWord wordOf
  rw [h, hd]
  cases st.raw <;> simp

theorem placeBlocks_hok (base : Nat) (dd : Bool) (hs mine : List Sqfs.Pack.Stored) (h : HOK (hs ++ mine)) :
    HOK (Sqfs.Pack.placeBlocks base dd hs mine).1 := by
  unfold Sqfs.Pack.placeBlocks
  split
  · rename_i hm; subst hm; simpa using h
  · split
    · exact h
    · split
      · exact h.take _
      · exact h

/-- the store part of `write_data_block` on a block of a file -/
theorem store_rel {pre : Bytes} {s : BlockWriter.State} {ps : List PE} (habs : Abs pre s ps) {H : List Sqfs.Pack.Stored}
    (hh : Hist ps H) (b : Blk) (ow : Option Sqfs.Pack.Worked) (hrel : BlkRel b ow) :
    ∃ ps2, Abs pre (storePart s b.chk (clearFlag b.flags blkFlagInternal) b.data) ps2 ∧ Hist ps2 (H ++ storedOf ow) ∧
      (storePart s b.chk (clearFlag b.flags blkFlagInternal) b.data).fileStart = (if isFirst b then H.length else s.fileStart) ∧
      HOK (storedOf ow) := by
  have hfirst : hasFlag (clearFlag b.flags blkFlagInternal) blkFirstBlock = isFirst b := clearInternal_first b.flags
  have hsp := clearInternal_sparse b.flags
  have hl := hh.length
  match ow, hrel with
  | none, hrel =>
    have hrel : b.data = [] := hrel.1
    obtain ⟨h1, h2⟩ := storePart_none habs b.chk (clearFlag b.flags blkFlagInternal) b.data (by simp [hrel])
    exact ⟨ps, h1, by simpa [storedOf] using hh, by rw [h2, hfirst, hl], fun s hs => by cases hs⟩
  | some (.sparse n), hrel =>
    obtain ⟨_, hs, _⟩ : b.data ≠ [] ∧ hasFlag b.flags blkIsSparse = true ∧ n = b.data.length := hrel
    obtain ⟨h1, h2⟩ := storePart_none habs b.chk (clearFlag b.flags blkFlagInternal) b.data (by simp [hsp, hs])
    exact ⟨ps, h1, by simpa [storedOf] using hh, by rw [h2, hfirst, hl], fun s hs => by cases hs⟩
  | some (.stored st), hrel =>
    obtain ⟨hne, hs, hd, hck, hcomp, hsz⟩ : b.data ≠ [] ∧ hasFlag b.flags blkIsSparse = false ∧ b.data = st.data ∧
      b.chk = st.cksum ∧ hasFlag b.flags blkIsCompressed = !st.raw ∧ st.data.length < 2 ^ 24 := hrel
    obtain ⟨e, he1, he2, h1, h2⟩ := storePart_some habs b.chk (clearFlag b.flags blkFlagInternal) b.data
      (by simp [hsp, hs, hne]) (by rw [hd]; exact hsz)
    refine ⟨_, h1, ?_, by rw [h2, hfirst, hl], ?_⟩
    · apply hh.append
      show [pview (e, b.data)] = [sview st]
      simp only [pview, sview, he1, he2, hck, hd, List.cons.injEq, Prod.mk.injEq, and_true]
      exact mkWord_wordOf (clearFlag b.flags blkFlagInternal) st (by rw [clearInternal_compressed]; exact hcomp)
    · intro s hs
      simp only [storedOf, List.mem_singleton] at hs
      subst hs; exact hsz

theorem blockEffs_rel (b : Blk) (ow : Option Sqfs.Pack.Worked) (hrel : BlkRel b ow)
    (hnfb : hasFlag b.flags blkFragmentBlock = false) (id j : Nat) (hino : b.inode = some id) (hidx : b.index = j) (loc : Nat) :
    blockEffs b loc = effOf id j ow ++ (if isLast b then [⟨id, .start loc⟩] else []) := by
  unfold blockEffs
  rw [hino, hidx, hnfb]
  congr 1
  match ow, hrel with
  | none, hrel =>
    obtain ⟨hd, hs⟩ : b.data = [] ∧ hasFlag b.flags blkIsSparse = false := hrel
    simp [hs, hd, effOf]
  | some (.sparse n), hrel =>
    obtain ⟨_, hs, hn⟩ : b.data ≠ [] ∧ hasFlag b.flags blkIsSparse = true ∧ n = b.data.length := hrel
    simp [hs, hn, mkEff, effOf]
  | some (.stored st), hrel =>
    obtain ⟨hne, hs, hd, hck, hcomp, hsz⟩ : b.data ≠ [] ∧ hasFlag b.flags blkIsSparse = false ∧ b.data = st.data ∧
      b.chk = st.cksum ∧ hasFlag b.flags blkIsCompressed = !st.raw ∧ st.data.length < 2 ^ 24 := hrel
    simp [hs, hne, mkEff, effOf, sizeWord_wordOf b st hd hcomp]

/-- **one block of a file through the writer** -/
theorem wStep_gen {P : Params} {W : WSt} {hs mine : List Sqfs.Pack.Stored} {frags : List Sqfs.Pack.FragEntry}
    (hsim : WSim P W (hs ++ mine) frags) (b : Blk) (ow : Option Sqfs.Pack.Worked) (hrel : BlkRel b ow)
    (hnfb : hasFlag b.flags blkFragmentBlock = false) (id j : Nat) (hino : b.inode = some id) (hidx : b.index = j)
    (hfs : isFirst b = false → W.wr.fileStart = hs.length) (hfirst : isFirst b = true → mine = []) :
    ∃ W', wStep W b = .ok W' ∧
      (isLast b = false → WSim P W' (hs ++ (mine ++ storedOf ow)) frags ∧ W'.wr.fileStart = hs.length ∧
         W'.effs = W.effs ++ effOf id j ow) ∧
      (isLast b = true →
         WSim P W' (Sqfs.Pack.placeBlocks P.pre.length (hasFlag b.flags blkDontDeduplicate) hs (mine ++ storedOf ow)).1 frags ∧
         W'.effs = W.effs ++ (effOf id j ow ++
           [⟨id, .start (Sqfs.Pack.placeBlocks P.pre.length (hasFlag b.flags blkDontDeduplicate) hs (mine ++ storedOf ow)).2.1⟩])) := by
  obtain ⟨ps, habs, hh⟩ := hsim.abs
  obtain ⟨ps2, habs2, hh2, hfs2, hok2⟩ := store_rel habs hh b ow hrel
  have hfs2' : (storePart W.wr b.chk (clearFlag b.flags blkFlagInternal) b.data).fileStart = hs.length := by
    rw [hfs2]
    by_cases hf : isFirst b = true
    · rw [if_pos hf, hfirst hf]; simp
    · rw [if_neg hf]; exact hfs (by simpa using hf)
  have hlast : hasFlag (clearFlag b.flags blkFlagInternal) blkLastBlock = isLast b := clearInternal_last b.flags
  have hokall : HOK (hs ++ (mine ++ storedOf ow)) := by
    rw [← List.append_assoc]; exact hsim.hok.append hok2
  rw [List.append_assoc] at hh2
  unfold wStep
  rw [writeDataBlock_split, hlast]
  by_cases hl : isLast b = true
  · rw [if_pos hl]
    obtain ⟨s', ps', hd, habs', hh'⟩ := dedup_place habs2 hh2 hokall hfs2' (clearFlag b.flags blkFlagInternal)
    rw [hd]
    rw [clearInternal_dontDedup] at hd hh' ⊢
    simp only [hnfb, Bool.and_false, Bool.false_eq_true, if_false]
    refine ⟨_, rfl, fun h => (by rw [hl] at h; cases h), fun _ => ⟨⟨⟨ps', habs', hh'⟩, placeBlocks_hok _ _ _ _ hokall, hsim.setsIdx, hsim.setsVal⟩, ?_⟩⟩
    show W.effs ++ blockEffs b _ = _
    rw [blockEffs_rel b ow hrel hnfb id j hino hidx, if_pos hl]
  · rw [if_neg hl]
    simp only [hnfb, Bool.and_false, Bool.false_eq_true, if_false]
    refine ⟨_, rfl, fun _ => ⟨⟨⟨ps2, habs2, hh2⟩, hokall, hsim.setsIdx, hsim.setsVal⟩, hfs2', ?_⟩, fun h => absurd h hl⟩
    show W.effs ++ blockEffs b _ = _
    rw [blockEffs_rel b ow hrel hnfb id j hino hidx, if_neg hl, List.append_nil]

/-! ### a closed fragment block -/

/-- `process_block` on a closed fragment block is `Pack.workFragBlock` -/
theorem fb_rel (P : Params) (hc : CodecOk P.codec) (hpos : ∀ x z, P.codec.cmp x = some z → 0 < z.length) (hB : P.B < 2 ^ 24)
    (fb : Blk) (hf : FBRawFlags fb.flags) (hne : fb.data ≠ []) (hsz : fb.data.length ≤ P.B) :
    BlkRel (processBlock P fb)
      (some (.stored (Sqfs.Pack.workFragBlock (toPackParams P) ⟨fb.data, hasFlag fb.flags blkDontCompress⟩))) ∧
    FBFlagFacts (processBlock P fb).flags ∧ (processBlock P fb).index = fb.index := by
  have h0 : ¬ fb.data.length = 0 := fun h => hne (by simpa using h)
  refine ⟨?_, ?_, processBlock_index P fb⟩
  · unfold processBlock
    rw [if_neg h0]
    rcases hf with h | h
    · have e1 : hasFlag fb.flags (blkIgnoreSparse ||| blkFragmentBlock) = true := by rw [h]; decide
      have e2 : hasFlag fb.flags blkDontHash = false := by rw [h]; decide
      have e3 : hasFlag fb.flags (blkIsFragment ||| blkDontCompress) = false := by rw [h]; decide
      have e4 : hasFlag fb.flags blkDontCompress = false := by rw [h]; decide
      simp only [e1, e2, e3, e4, Bool.not_true, Bool.false_and, Bool.false_eq_true, if_false, Sqfs.Pack.workFragBlock,
        Sqfs.Pack.encode, toPackParams]
      cases hcmp : P.codec.cmp fb.data with
      | none =>
        simp only
        refine ⟨hne, by rw [h]; decide, rfl, rfl, by rw [h]; dsimp only; decide, by simp only; omega⟩
      | some z =>
        have hz := hpos _ _ hcmp
        simp only [hz, if_true]
        refine ⟨fun hh => ?_, by rw [h]; dsimp only; decide, rfl, rfl, by rw [h]; dsimp only; decide, ?_⟩
        · have hh' : z = [] := hh
          rw [hh'] at hz; simp at hz
        have := hc.smaller _ _ hcmp
        simp only; omega
    · have e1 : hasFlag fb.flags (blkIgnoreSparse ||| blkFragmentBlock) = true := by rw [h]; decide
      have e2 : hasFlag fb.flags blkDontHash = false := by rw [h]; decide
      have e3 : hasFlag fb.flags (blkIsFragment ||| blkDontCompress) = true := by rw [h]; decide
      have e4 : hasFlag fb.flags blkDontCompress = true := by rw [h]; decide
      simp only [e1, e2, e3, e4, Bool.not_true, Bool.false_and, Bool.false_eq_true, if_false, if_true,
        Sqfs.Pack.workFragBlock, Sqfs.Pack.encode, toPackParams]
      refine ⟨hne, by rw [h]; decide, rfl, rfl, by rw [h]; dsimp only; decide, by simp only; omega⟩
  · rcases processBlock_fb P fb hf hne with h | ⟨z, _, _, h⟩ <;> rw [h]
    · exact fbRaw_facts hf
    · exact fbRaw_comp_facts hf

theorem wStep_fb {P : Params} (hc : CodecOk P.codec) (hpos : ∀ x z, P.codec.cmp x = some z → 0 < z.length) (hB : P.B < 2 ^ 24)
    {W : WSt} {H : List Sqfs.Pack.Stored} {frags : List Sqfs.Pack.FragEntry} (hsim : WSim P W H frags)
    (fb : Blk) (hf : FBRawFlags fb.flags) (hne : fb.data ≠ []) (hsz : fb.data.length ≤ P.B) (hidx : fb.index = frags.length) :
    ∃ W', wStep W (processBlock P fb) = .ok W' ∧
      WSim P W' (H ++ [Sqfs.Pack.workFragBlock (toPackParams P) ⟨fb.data, hasFlag fb.flags blkDontCompress⟩])
        (frags ++ [⟨P.pre.length + Sqfs.Pack.bytesOf H,
          (Sqfs.Pack.workFragBlock (toPackParams P) ⟨fb.data, hasFlag fb.flags blkDontCompress⟩).data.length,
          (Sqfs.Pack.workFragBlock (toPackParams P) ⟨fb.data, hasFlag fb.flags blkDontCompress⟩).raw⟩]) ∧
      W'.effs = W.effs := by
  obtain ⟨hrel, hfacts, hindex⟩ := fb_rel P hc hpos hB fb hf hne hsz
  generalize Sqfs.Pack.workFragBlock (toPackParams P) ⟨fb.data, hasFlag fb.flags blkDontCompress⟩ = st at hrel ⊢
  generalize processBlock P fb = b at hrel hfacts hindex ⊢
  obtain ⟨ps, habs, hh⟩ := hsim.abs
  obtain ⟨ps2, habs2, hh2, _, hok2⟩ := store_rel habs hh b _ hrel
  obtain ⟨hbne, hs, hd, hck, hcomp, hsz'⟩ : b.data ≠ [] ∧ hasFlag b.flags blkIsSparse = false ∧ b.data = st.data ∧
      b.chk = st.cksum ∧ hasFlag b.flags blkIsCompressed = !st.raw ∧ st.data.length < 2 ^ 24 := hrel
  have hlast : hasFlag (clearFlag b.flags blkFlagInternal) blkLastBlock = false := by
    rw [clearInternal_last]; exact hfacts.notLast
  have hb0 : (b.data.length != 0) = true := by simpa using hbne
  unfold wStep
  rw [writeDataBlock_split, hlast]
  simp only [Bool.false_eq_true, if_false, hs, hfacts.fb, hb0, Bool.not_false, Bool.and_self, if_true]
  refine ⟨_, rfl, ⟨⟨ps2, habs2, hh2⟩, hsim.hok.append hok2, ?_, ?_⟩, ?_⟩
  · show List.map (fun x : Nat × Nat × Nat => x.1) (W.sets ++ [_]) = _
    rw [List.map_append, hsim.setsIdx, List.length_append, List.length_singleton, List.range_succ, hindex, hidx]; rfl
  · show List.map (fun x : Nat × Nat × Nat => x.2) (W.sets ++ [_]) = _
    rw [List.map_append, hsim.setsVal, List.map_append]
    congr 1
    simp only [List.map_cons, List.map_nil, fragView, stored_toNat, sizeWord_wordOf b st hd hcomp, wordOf, habs.fileLen,
      hh.bytesLen]
  · show W.effs ++ blockEffs b _ = W.effs
    unfold blockEffs
    simp [hs, hfacts.fb, hfacts.notLast]

end Sqfs.BlockProc
