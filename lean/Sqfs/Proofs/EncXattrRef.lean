/-
C01 — the contract `RefOk` between the kv writer's `get_position` and the kv reader's `seek` is met by the real
reference arithmetic: by `rawRef`/`rawPos` (metadata never compressed) and by `refOfPos` for the blocks of any finished
meta writer run (any codec).
-/
import Sqfs.Proofs.EncXattr
import Sqfs.Proofs.EncRaw
import Sqfs.Proofs.EncTable
namespace Sqfs.Enc
open Sqfs.Consts
open Sqfs.MetaWriter (Block Codec)

/-- uncompressed metadata: every position of a stream shorter than 2⁴⁷ bytes has a 64-bit reference a seek undoes -/
theorem refOk_raw (bound : Nat) (hb : bound < 2 ^ 47) : RefOk rawRef rawPos bound := by
  refine ⟨fun p _ => rawPos_rawRef p, ?_, ?_⟩
  · intro p _; rw [rawRef_eq]; simp only [metaBlockSize]; omega
  · intro p hp; rw [rawRef_eq]
    have : p / 8192 < 2 ^ 34 := by omega
    omega

/-! ### any block list -/

/-- the packed reference the writer reports at stream position `p` -/
def refOfBlocks (blocks : List Block) (p : Nat) : Nat := packRef (refOfPos blocks p)

/-- where a seek to `ref` lands: the stream position whose reference it is (`meta_ref_roundtrip`: seeking to
`refOfPos blocks p` and reading delivers the stream from `p` on) -/
def posOfBlocks (blocks : List Block) (total : Nat) (ref : Nat) : Option Nat :=
  (List.range (total + 1)).find? (fun p => refOfBlocks blocks p == ref)

theorem packRef_eq (b o : Nat) (ho : o < 65536) : packRef (b, o) = b * 65536 + o := by
  unfold packRef
  simp only
  rw [← Nat.shiftLeft_add_eq_or_of_lt (by simpa using ho), Nat.shiftLeft_eq]

theorem startOf_succ (bs : List Block) (k : Nat) (hk : k < bs.length) :
    startOf bs (k + 1) = startOf bs k + Block.diskSize bs[k] := by
  simp only [startOf]
  rw [List.take_succ_eq_append_getElem hk, List.map_append, List.sum_append]
  simp

theorem startOf_strictMono (bs : List Block) : ∀ a b, a < b → b ≤ bs.length → startOf bs a < startOf bs b := by
  intro a b hab hb
  induction b with
  | zero => omega
  | succ b ih =>
    have hs := startOf_succ bs b (by omega)
    have hd : 0 < Block.diskSize bs[b] := by simp [Block.diskSize]
    by_cases h : a = b
    · subst h; omega
    · have := ih (by omega) (by omega); omega

theorem find_range (P : Nat → Bool) (n p : Nat) (hp : p < n) (h : P p = true) (hmin : ∀ q, q < p → P q = false) :
    (List.range n).find? P = some p := by
  induction n with
  | zero => omega
  | succ n ih =>
    rw [List.range_succ, List.find?_append]
    by_cases hpn : p < n
    · rw [ih hpn]; rfl
    · have : p = n := by omega
      subst this
      have hnone : (List.range p).find? P = none := by
        rw [List.find?_eq_none]
        intro x hx
        simp only [List.mem_range] at hx
        simp [hmin x hx]
      rw [hnone]
      simp [h]

/-- **The real reference arithmetic meets the contract.**  For the blocks of a meta writer run (all full but the last)
whose on-disk size stays below 2⁴⁸: at every stream position `p ≤` the stream length the packed `refOfPos` reference
has an offset below 8 KiB, fits 64 bits, and is the reference of no other position — so a seek to it (`posOfBlocks`)
lands at `p`. -/
theorem refOk_blocks (cmp : Codec) (blocks : List Block) (hok : BlocksOk cmp blocks)
    (hsz : startOf blocks blocks.length < 2 ^ 48) :
    RefOk (refOfBlocks blocks) (posOfBlocks blocks (rawOf blocks).length) (rawOf blocks).length := by
  have h8 : metaBlockSize = 8192 := rfl
  have hlen := rawOf_length_le cmp blocks hok
  have hform : ∀ p, refOfBlocks blocks p = startOf blocks (p / 8192) * 65536 + p % 8192 := by
    intro p
    unfold refOfBlocks refOfPos
    rw [packRef_eq _ _ (by rw [h8]; omega), h8]
  have hkle : ∀ p, p ≤ (rawOf blocks).length → p / 8192 ≤ blocks.length := by
    intro p hp; rw [h8] at hlen; omega
  have hinj : ∀ p q, p ≤ (rawOf blocks).length → q ≤ (rawOf blocks).length → refOfBlocks blocks p = refOfBlocks blocks q → p = q := by
    intro p q hp hq he
    rw [hform, hform] at he
    have h1 : startOf blocks (p / 8192) = startOf blocks (q / 8192) := by omega
    have h2 : p % 8192 = q % 8192 := by omega
    have h3 : p / 8192 = q / 8192 := by
      rcases Nat.lt_trichotomy (p / 8192) (q / 8192) with h | h | h
      · have := startOf_strictMono blocks _ _ h (hkle q hq); omega
      · exact h
      · have := startOf_strictMono blocks _ _ h (hkle p hp); omega
    omega
  refine ⟨?_, ?_, ?_⟩
  · intro p hp
    unfold posOfBlocks
    apply find_range _ _ p (by omega) (by simp)
    intro q hq
    simp only [beq_eq_false_iff_ne, ne_eq]
    intro he
    have := hinj q p (by omega) hp he
    omega
  · intro p _; rw [hform, h8]; omega
  · intro p hp
    rw [hform]
    have hk := hkle p hp
    have hmono : startOf blocks (p / 8192) ≤ startOf blocks blocks.length := by
      rcases Nat.lt_or_ge (p / 8192) blocks.length with h | h
      · exact Nat.le_of_lt (startOf_strictMono blocks _ _ h (Nat.le_refl _))
      · have : p / 8192 = blocks.length := by omega
        rw [this]; exact Nat.le_refl _
    omega

end Sqfs.Enc
