/-
C01 — basic ↔ extended conversion (`inode.c`) and the selection in `serialize_tree_node`.
-/
import Sqfs.Model.EncInode
namespace Sqfs.Enc
open Sqfs.Consts

theorem makeExtended_isExt (i : Inode) : (makeExtended i).isExt = true := by
  cases i <;> rfl

theorem makeExtended_view (i : Inode) : (makeExtended i).view = i.view := by
  cases i <;> rfl

theorem makeExtended_xattr (i : Inode) (h : i.isExt = false) : (makeExtended i).xattr = NONE32 := by
  cases i <;> first | rfl | cases h

/-- `make_basic` never changes what a reader sees (for an inode that has a link: a basic file counts as one) -/
theorem makeBasic_view (i : Inode) (h : 1 ≤ i.nlink) : (makeBasic i).view = i.view := by
  cases i with
  | dirExt b nl sz sb par ic off x idx =>
    simp only [makeBasic]; split
    · rfl
    · split
      · rfl
      · simp_all [Inode.view]
  | fileExt b st sz sp nl fi fo x blks =>
    simp only [makeBasic]; split
    · rfl
    · split
      · rfl
      · rename_i h1 h2
        simp only [Inode.nlink] at h
        simp only [not_or, Nat.not_lt, Nat.le_zero_eq] at h2
        simp only [ne_eq, Decidable.not_not] at h1
        obtain ⟨_, _, h3, h4⟩ := h2
        have : nl = 1 := by omega
        simp [Inode.view, h3, this, h1]
  | slinkExt b nl ts t x => simp only [makeBasic]; split <;> simp_all [Inode.view]
  | devExt b c nl d x => simp only [makeBasic]; split <;> simp_all [Inode.view]
  | ipcExt b c nl x => simp only [makeBasic]; split <;> simp_all [Inode.view]
  | _ => rfl

/-- `make_basic` produces a basic inode exactly when every field fits the basic layout -/
theorem makeBasic_isExt (i : Inode) (h : i.isExt = true) : (makeBasic i).isExt = !i.fitsBasic := by
  cases i with
  | dirExt b nl sz sb par ic off x idx =>
    simp only [makeBasic, Inode.fitsBasic]
    split
    · simp_all [Inode.isExt]
    · split
      · simp_all [Inode.isExt]
      · simp_all [Inode.isExt]
  | fileExt b st sz sp nl fi fo x blks =>
    simp only [makeBasic, Inode.fitsBasic]
    split
    · simp_all [Inode.isExt]
    · split
      · rename_i h1 h2
        simp only [ne_eq, Decidable.not_not] at h1
        simp only [Inode.isExt, h1, beq_self_eq_true, Bool.true_and, Bool.true_eq, Bool.not_eq_eq_eq_not, Bool.not_true,
          Bool.and_eq_false_iff, decide_eq_false_iff_not, beq_eq_false_iff_ne]
        omega
      · rename_i h1 h2
        simp only [ne_eq, Decidable.not_not] at h1
        simp only [Inode.isExt, h1, beq_self_eq_true, Bool.true_and, Bool.false_eq, Bool.not_eq_eq_eq_not, Bool.not_false,
          Bool.and_eq_true, decide_eq_true_eq, beq_iff_eq]
        omega
  | slinkExt b nl ts t x => simp only [makeBasic, Inode.fitsBasic]; split <;> simp_all [Inode.isExt]
  | devExt b c nl d x => simp only [makeBasic, Inode.fitsBasic]; split <;> simp_all [Inode.isExt]
  | ipcExt b c nl x => simp only [makeBasic, Inode.fitsBasic]; split <;> simp_all [Inode.isExt]
  | _ => cases h

/-- basic → extended → basic is the identity on basic inodes whose fields fit their on-disk widths -/
theorem makeBasic_makeExtended (bs : Nat) (i : Inode) (hb : i.isExt = false) (hw : WfInode bs i) :
    makeBasic (makeExtended i) = i := by
  obtain ⟨_, hw⟩ := hw
  cases i with
  | dir b sb nl sz off par =>
    obtain ⟨_, _, h3, _⟩ := hw
    have : ¬ sz > 0xFFFF := by omega
    simp [makeExtended, makeBasic, this]
  | file b st fi fo sz blks =>
    obtain ⟨h1, _, _, h4, _⟩ := hw
    have : ¬ (st > 0xFFFFFFFF ∨ sz > 0xFFFFFFFF ∨ 0 > 0 ∨ 1 > 1) := by omega
    simp only [makeExtended, makeBasic, ne_eq, not_true_eq_false, if_false, this]
  | slink => simp [makeExtended, makeBasic]
  | dev => simp [makeExtended, makeBasic]
  | ipc => simp [makeExtended, makeBasic]
  | _ => cases hb

/-- extended → basic → extended is the identity whenever `make_basic` did produce a basic inode and the extended
inode carried nothing but the basic fields (no directory index, one link) -/
theorem makeExtended_makeBasic (i : Inode) (hext : i.isExt = true) (hfit : i.fitsBasic = true)
    (hidx : ∀ b nl sz sb par ic off x idx, i = .dirExt b nl sz sb par ic off x idx → ic = 0 ∧ idx = [])
    (hnl : ∀ b st sz sp nl fi fo x blks, i = .fileExt b st sz sp nl fi fo x blks → nl = 1) :
    makeExtended (makeBasic i) = i := by
  cases i with
  | dirExt b nl sz sb par ic off x idx =>
    obtain ⟨rfl, rfl⟩ := hidx _ _ _ _ _ _ _ _ _ rfl
    simp only [Inode.fitsBasic, Bool.and_eq_true, beq_iff_eq, decide_eq_true_eq] at hfit
    obtain ⟨rfl, h2⟩ := hfit
    have : ¬ sz > 0xFFFF := by omega
    simp [makeBasic, makeExtended, this]
  | fileExt b st sz sp nl fi fo x blks =>
    have := hnl _ _ _ _ _ _ _ _ _ rfl
    subst this
    simp only [Inode.fitsBasic, Bool.and_eq_true, beq_iff_eq, decide_eq_true_eq] at hfit
    obtain ⟨⟨⟨⟨rfl, h1⟩, h2⟩, rfl⟩, _⟩ := hfit
    have : ¬ (st > 0xFFFFFFFF ∨ sz > 0xFFFFFFFF ∨ 0 > 0 ∨ 1 > 1) := by omega
    simp only [makeBasic, ne_eq, not_true_eq_false, if_false, this, makeExtended]
  | slinkExt b nl ts t x =>
    simp only [Inode.fitsBasic, beq_iff_eq] at hfit; subst hfit; simp [makeBasic, makeExtended]
  | devExt b c nl d x =>
    simp only [Inode.fitsBasic, beq_iff_eq] at hfit; subst hfit; simp [makeBasic, makeExtended]
  | ipcExt b c nl x =>
    simp only [Inode.fitsBasic, beq_iff_eq] at hfit; subst hfit; simp [makeBasic, makeExtended]
  | _ => cases hext

/-- through `sqfs_inode_set_xattr_index` the misplaced store of the unrepaired `make_extended` is invisible -/
theorem setXattrIndexCur_eq (stale x : Nat) (i : Inode) : setXattrIndexCur stale x i = setXattrIndex x i := by
  unfold setXattrIndexCur setXattrIndex
  split
  · cases i <;> first | rfl | (simp only [makeExtendedCur, makeExtended, putXattr])
  · rfl

/-! ### `serialize_tree_node` -/

/-- the view `serialize_tree_node` is asked to store: the node's mode, time stamp, inode number, link count and
xattr index on top of whatever payload the inode already carries -/
def wanted (a : NodeAttr) (v : View) : View :=
  { v with base := { v.base with mode := a.mode, mtime := a.mtime, inum := a.inum }, nlink := a.linkCount, xattr := a.xattrIdx }

/-- does the wanted result fit a basic inode? (`x` = xattr index, file fields as in the extended layout) -/
def fitsWanted (a : NodeAttr) (v : View) : Bool :=
  a.xattrIdx == NONE32 &&
    (v.typeBits != sIFREG ||
      (v.nums.getD 0 0 ≤ 0xFFFFFFFF && v.nums.getD 1 0 ≤ 0xFFFFFFFF && v.nums.getD 2 0 == 0 && a.linkCount ≤ 1))

theorem withBase_view (f : Base → Base) (i : Inode) : (i.withBase f).view = { i.view with base := f i.view.base } := by
  cases i <;> rfl

/-- regular files: whatever the block processor left (basic, or extended because of size/start/sparse), the inode
written carries exactly the wanted attributes — nothing is truncated by choosing the basic layout — -/
theorem serialize_file_view (a : NodeAttr) (i0 : Inode) (hlc : 1 ≤ a.linkCount)
    (hf : i0.view.typeBits = sIFREG) :
    (serializeInode false true a i0).view = wanted a i0.view := by
  cases i0 with
  | file b st fi fo sz blks =>
    by_cases h1 : a.linkCount > 1 <;> by_cases hx : a.xattrIdx = NONE32
    · have : ¬ (st > 0xFFFFFFFF ∨ sz > 0xFFFFFFFF ∨ 0 > 0 ∨ a.linkCount > 1) → False := fun h => h (by omega)
      simp [serializeInode, setFileNlink, h1, hx, makeExtended, Inode.withBase, setXattrIndex, putXattr, makeBasic,
        Inode.view, wanted]
    · simp [serializeInode, setFileNlink, h1, hx, makeExtended, Inode.withBase, setXattrIndex, putXattr, Inode.view, wanted]
    · have : a.linkCount = 1 := by omega
      simp [serializeInode, setFileNlink, h1, hx, Inode.withBase, setXattrIndex, putXattr, makeBasic, Inode.view, wanted, this]
    · have : a.linkCount = 1 := by omega
      simp [serializeInode, setFileNlink, h1, hx, makeExtended, Inode.withBase, setXattrIndex, putXattr, Inode.view, wanted,
        this]
  | fileExt b st sz sp nl fi fo x blks =>
    by_cases hx : a.xattrIdx = NONE32
    · simp only [serializeInode, setFileNlink, if_true, Inode.withBase, setXattrIndex, hx, ne_eq, not_true_eq_false,
        if_false, putXattr]
      rw [if_pos (by simp), makeBasic_view _ (by simpa [Inode.nlink] using hlc)]
      simp [Inode.view, wanted, hx]
    · simp [serializeInode, setFileNlink, hx, makeExtended, Inode.withBase, setXattrIndex, putXattr, Inode.view, wanted]
  | dir => simp [Inode.view, sIFDIR, sIFREG] at hf
  | dirExt => simp [Inode.view, sIFDIR, sIFREG] at hf
  | slink => simp [Inode.view, sIFLNK, sIFREG] at hf
  | slinkExt => simp [Inode.view, sIFLNK, sIFREG] at hf
  | dev b c => cases c <;> simp [Inode.view, sIFCHR, sIFBLK, sIFREG] at hf
  | devExt b c => cases c <;> simp [Inode.view, sIFCHR, sIFBLK, sIFREG] at hf
  | ipc b c => cases c <;> simp [Inode.view, sIFIFO, sIFSOCK, sIFREG] at hf
  | ipcExt b c => cases c <;> simp [Inode.view, sIFIFO, sIFSOCK, sIFREG] at hf

/-- … and the basic layout is chosen exactly when everything wanted fits it (`selection is minimal`) -/
theorem serialize_file_isExt (a : NodeAttr) (i0 : Inode) (hf : i0.view.typeBits = sIFREG)
    (hu32 : ∀ b st fi fo sz blks, i0 = .file b st fi fo sz blks → st ≤ 0xFFFFFFFF ∧ sz ≤ 0xFFFFFFFF) :
    (serializeInode false true a i0).isExt = !fitsWanted a i0.view := by
  cases i0 with
  | file b st fi fo sz blks =>
    by_cases h1 : a.linkCount > 1 <;> by_cases hx : a.xattrIdx = NONE32
    · have h2 : (st > 0xFFFFFFFF ∨ sz > 0xFFFFFFFF ∨ 0 > 0 ∨ a.linkCount > 1) := by omega
      have h3 : ¬ a.linkCount ≤ 1 := by omega
      simp [serializeInode, setFileNlink, h1, hx, makeExtended, Inode.withBase, setXattrIndex, putXattr, makeBasic,
        Inode.view, fitsWanted, h2, h3, Inode.isExt]
    · simp [serializeInode, setFileNlink, h1, hx, makeExtended, Inode.withBase, setXattrIndex, putXattr, Inode.view,
        fitsWanted, Inode.isExt]
    · have : a.linkCount ≤ 1 := by omega
      simp [serializeInode, setFileNlink, h1, hx, Inode.withBase, setXattrIndex, putXattr, makeBasic, Inode.view,
        fitsWanted, this, Inode.isExt]
      exact hu32 _ _ _ _ _ _ rfl
    · simp [serializeInode, setFileNlink, h1, hx, makeExtended, Inode.withBase, setXattrIndex, putXattr, Inode.view,
        fitsWanted, Inode.isExt]
  | fileExt b st sz sp nl fi fo x blks =>
    by_cases hx : a.xattrIdx = NONE32
    · simp only [serializeInode, setFileNlink, if_true, Inode.withBase, setXattrIndex, hx, ne_eq, not_true_eq_false,
        if_false, putXattr]
      rw [if_pos (by simp), makeBasic_isExt _ rfl]
      simp [Inode.fitsBasic, fitsWanted, Inode.view, hx]
    · simp [serializeInode, setFileNlink, hx, makeExtended, Inode.withBase, setXattrIndex, putXattr, Inode.view,
        fitsWanted, Inode.isExt]
  | dir => simp [Inode.view, sIFDIR, sIFREG] at hf
  | dirExt => simp [Inode.view, sIFDIR, sIFREG] at hf
  | slink => simp [Inode.view, sIFLNK, sIFREG] at hf
  | slinkExt => simp [Inode.view, sIFLNK, sIFREG] at hf
  | dev b c => cases c <;> simp [Inode.view, sIFCHR, sIFBLK, sIFREG] at hf
  | devExt b c => cases c <;> simp [Inode.view, sIFCHR, sIFBLK, sIFREG] at hf
  | ipc b c => cases c <;> simp [Inode.view, sIFIFO, sIFSOCK, sIFREG] at hf
  | ipcExt b c => cases c <;> simp [Inode.view, sIFIFO, sIFSOCK, sIFREG] at hf

/-- symlinks, devices, fifos, sockets (`tree_node_to_inode`): the inode written carries the wanted attributes and is
basic exactly when there is no xattr index -/
theorem serialize_other (a : NodeAttr) (devno : Nat) (target : Bytes) (i0 : Inode)
    (h0 : treeNodeToInode a.mode a.linkCount devno target = some i0) :
    (serializeInode false false a i0).view = wanted a i0.view
    ∧ (serializeInode false false a i0).isExt = !(a.xattrIdx == NONE32) := by
  unfold treeNodeToInode at h0
  by_cases hx : a.xattrIdx = NONE32 <;>
  · simp only [] at h0
    split at h0
    · cases h0; simp [serializeInode, Inode.withBase, setXattrIndex, hx, putXattr, makeBasic, makeExtended, Inode.view,
        wanted, Inode.isExt]
    · split at h0
      · cases h0; simp [serializeInode, Inode.withBase, setXattrIndex, hx, putXattr, makeBasic, makeExtended, Inode.view,
          wanted, Inode.isExt]
      · split at h0
        · cases h0; simp [serializeInode, Inode.withBase, setXattrIndex, hx, putXattr, makeBasic, makeExtended,
            Inode.view, wanted, Inode.isExt]
        · split at h0
          · cases h0; simp [serializeInode, Inode.withBase, setXattrIndex, hx, putXattr, makeBasic, makeExtended,
              Inode.view, wanted, Inode.isExt]
          · split at h0
            · cases h0; simp [serializeInode, Inode.withBase, setXattrIndex, hx, putXattr, makeBasic, makeExtended,
                Inode.view, wanted, Inode.isExt]
            · cases h0

/-- directories: `sqfs_dir_writer_create_inode` has already chosen the layout (extended iff xattr index, listing
size, start block or entry count ask for it — `Sqfs.DirWriter.createInode`); `serialize_tree_node` only stores the
link count, base fields and the xattr index, and never converts back -/
theorem serialize_dir_view (a : NodeAttr) (i0 : Inode) (hd : i0.view.typeBits = sIFDIR)
    (hx : i0.isExt = false → a.xattrIdx = NONE32) :
    (serializeInode true false a (setDirNlink a.linkCount i0)).view = wanted a i0.view
    ∧ (serializeInode true false a (setDirNlink a.linkCount i0)).isExt = i0.isExt := by
  cases i0 with
  | dir b sb nl sz off par =>
    have := hx rfl
    simp [serializeInode, setDirNlink, Inode.withBase, setXattrIndex, this, putXattr, Inode.view, wanted, Inode.isExt]
  | dirExt b nl sz sb par ic off x idx =>
    by_cases h : a.xattrIdx = NONE32 <;>
      simp [serializeInode, setDirNlink, Inode.withBase, setXattrIndex, h, putXattr, makeExtended, Inode.view, wanted,
        Inode.isExt]
  | file => simp [Inode.view, sIFDIR, sIFREG] at hd
  | fileExt => simp [Inode.view, sIFDIR, sIFREG] at hd
  | slink => simp [Inode.view, sIFLNK, sIFDIR] at hd
  | slinkExt => simp [Inode.view, sIFLNK, sIFDIR] at hd
  | dev b c => cases c <;> simp [Inode.view, sIFCHR, sIFBLK, sIFDIR] at hd
  | devExt b c => cases c <;> simp [Inode.view, sIFCHR, sIFBLK, sIFDIR] at hd
  | ipc b c => cases c <;> simp [Inode.view, sIFIFO, sIFSOCK, sIFDIR] at hd
  | ipcExt b c => cases c <;> simp [Inode.view, sIFIFO, sIFSOCK, sIFDIR] at hd

end Sqfs.Enc
