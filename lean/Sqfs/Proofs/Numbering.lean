import Sqfs.Model.Numbering
namespace Sqfs.Numbering

theorem range'_split (a k m : Nat) : List.range' a k ++ List.range' (a + k) m = List.range' a (k + m) := by
  rw [List.range'_append_1]

theorem step2_perm : ∀ (ps : List PTree) (n : Nat),
    n ≤ (step2 ps n).2 ∧ (numsL (step2 ps n).1).Perm (pnumsL ps ++ List.range' (n + 1) ((step2 ps n).2 - n)) := by
  intro ps
  induction ps with
  | nil => intro n; simp [step2, numsL, pnumsL]
  | cons p rest ih =>
    intro n
    cases p with
    | hlink k =>
      obtain ⟨h1, h2⟩ := ih n
      simp only [step2, numsL, numsT, pnumsL, pnumsT, List.nil_append]
      exact ⟨h1, h2⟩
    | file =>
      obtain ⟨h1, h2⟩ := ih (n + 1)
      simp only [step2, numsL, numsT, pnumsL, pnumsT, List.nil_append, List.singleton_append]
      refine ⟨by omega, ?_⟩
      have hk : (step2 rest (n + 1)).2 - n = ((step2 rest (n + 1)).2 - (n + 1)) + 1 := by omega
      rw [hk, List.range'_succ]
      exact (List.Perm.cons _ h2).trans List.perm_middle.symm
    | dir cs =>
      obtain ⟨h1, h2⟩ := ih (n + 1)
      simp only [step2, numsL, numsT, pnumsL, pnumsT]
      refine ⟨by omega, ?_⟩
      have hk : (step2 rest (n + 1)).2 - n = ((step2 rest (n + 1)).2 - (n + 1)) + 1 := by omega
      rw [hk, List.range'_succ, List.append_assoc, List.append_assoc]
      apply List.Perm.append_left
      simp only [List.singleton_append]
      exact (List.Perm.cons _ h2).trans List.perm_middle.symm


def SpecT (t : Tree) : Prop := ∀ n, n ≤ (allocT t n).2 ∧
  (pnumsT (allocT t n).1).Perm (List.range' (n + 1) ((allocT t n).2 - n))
def SpecL (l : List Tree) : Prop := ∀ n, n ≤ (allocL l n).2 ∧
  (pnumsL (allocL l n).1).Perm (List.range' (n + 1) ((allocL l n).2 - n))

theorem range'_join (n a b : Nat) (h1 : n ≤ a) (h2 : a ≤ b) :
    List.range' (n + 1) (a - n) ++ List.range' (a + 1) (b - a) = List.range' (n + 1) (b - n) := by
  have e1 : a + 1 = (n + 1) + (a - n) := by omega
  have e2 : b - n = (a - n) + (b - a) := by omega
  rw [e1, e2, List.range'_append_1]

theorem alloc_spec : (∀ t, SpecT t) ∧ (∀ l, SpecL l) := by
  have key : ∀ t, SpecT t := by
    intro t
    refine Tree.rec (motive_1 := SpecT) (motive_2 := SpecL) ?_ ?_ ?_ ?_ ?_ t
    · intro n; simp [allocT, pnumsT]
    · intro k n; simp [allocT, pnumsT]
    · intro cs ih n
      obtain ⟨a1, a2⟩ := ih n
      obtain ⟨b1, b2⟩ := step2_perm (allocL cs n).1 (allocL cs n).2
      simp only [allocT, pnumsT]
      refine ⟨by omega, ?_⟩
      rw [← range'_join n (allocL cs n).2 _ a1 b1]
      exact b2.trans (List.Perm.append_right _ a2)
    · intro n; simp [allocL, pnumsL]
    · intro t rest iht ihl n
      obtain ⟨a1, a2⟩ := iht n
      obtain ⟨r1, r2⟩ := ihl (allocT t n).2
      simp only [allocL, pnumsL]
      refine ⟨by omega, ?_⟩
      rw [← range'_join n (allocT t n).2 _ a1 r1]
      exact List.Perm.append a2 r2
  refine ⟨key, ?_⟩
  intro l
  induction l with
  | nil => intro n; simp [allocL, pnumsL]
  | cons t rest ihl =>
    intro n
    obtain ⟨a1, a2⟩ := key t n
    obtain ⟨r1, r2⟩ := ihl (allocT t n).2
    simp only [allocL, pnumsL]
    refine ⟨by omega, ?_⟩
    rw [← range'_join n (allocT t n).2 _ a1 r1]
    exact List.Perm.append a2 r2

/-- **inode numbers are exactly 1..N**: the numbers assigned by `alloc_inode_num_dfs` + the root's number are a
permutation of `[1, …, N]` where `N` is the count the function returns (`fs->unique_inode_count`). -/
theorem numberRoot_perm (cs : List Tree) :
    (numsT (numberRoot cs).1).Perm (List.range' 1 (numberRoot cs).2) := by
  obtain ⟨a1, a2⟩ := alloc_spec.2 cs 0
  obtain ⟨b1, b2⟩ := step2_perm (allocL cs 0).1 (allocL cs 0).2
  simp only [numberRoot, numsT]
  have h := b2.trans (List.Perm.append_right _ a2)
  rw [range'_join 0 _ _ a1 b1] at h
  simp only [Nat.zero_add, Nat.sub_zero] at h
  rw [List.range'_concat]
  have e : 1 + 1 * (step2 (allocL cs 0).fst (allocL cs 0).snd).snd = (step2 (allocL cs 0).fst (allocL cs 0).snd).snd + 1 := by omega
  rw [e]
  exact List.Perm.append_right _ h


mutual
def OrdT : NTree → Prop
  | .file _ => True
  | .hlink _ => True
  | .dir n cs => (∀ k ∈ numsL cs, k < n) ∧ OrdL cs
def OrdL : List NTree → Prop
  | [] => True
  | t :: r => OrdT t ∧ OrdL r
end

def POrdT : PTree → Prop
  | .dir cs => OrdL cs
  | _ => True

def POrdL : List PTree → Prop
  | [] => True
  | t :: r => POrdT t ∧ POrdL r

theorem step2_ord : ∀ (ps : List PTree) (n : Nat), POrdL ps → (∀ k ∈ pnumsL ps, k ≤ n) → OrdL (step2 ps n).1 := by
  intro ps
  induction ps with
  | nil => intro n _ _; simp [step2, OrdL]
  | cons p rest ih =>
    intro n ho hb
    simp only [POrdL] at ho
    simp only [pnumsL, List.mem_append] at hb
    cases p with
    | hlink k =>
      simp only [step2, OrdL, OrdT, true_and]
      exact ih n ho.2 (fun k hk => hb k (Or.inr hk))
    | file =>
      simp only [step2, OrdL, OrdT, true_and]
      exact ih (n + 1) ho.2 (fun k hk => Nat.le_succ_of_le (hb k (Or.inr hk)))
    | dir cs =>
      simp only [step2, OrdL, OrdT]
      refine ⟨⟨?_, ho.1⟩, ih (n + 1) ho.2 (fun k hk => Nat.le_succ_of_le (hb k (Or.inr hk)))⟩
      intro k hk
      exact Nat.lt_succ_of_le (hb k (Or.inl hk))

theorem pnums_le (l : List Tree) (n : Nat) : ∀ k ∈ pnumsL (allocL l n).1, k ≤ (allocL l n).2 := by
  intro k hk
  obtain ⟨a1, a2⟩ := alloc_spec.2 l n
  have := (a2.mem_iff).mp hk
  simp only [List.mem_range'_1] at this
  omega

theorem alloc_ord : (∀ t n, POrdT (allocT t n).1) ∧ (∀ l n, POrdL (allocL l n).1) := by
  have key : ∀ t, ∀ n, POrdT (allocT t n).1 := by
    intro t
    refine Tree.rec (motive_1 := fun t => ∀ n, POrdT (allocT t n).1) (motive_2 := fun l => ∀ n, POrdL (allocL l n).1)
      ?_ ?_ ?_ ?_ ?_ t
    · intro n; simp [allocT, POrdT]
    · intro k n; simp [allocT, POrdT]
    · intro cs ih n
      simp only [allocT, POrdT]
      exact step2_ord _ _ (ih n) (pnums_le cs n)
    · intro n; simp [allocL, POrdL]
    · intro t rest iht ihl n
      simp only [allocL, POrdL]
      exact ⟨iht n, ihl _⟩
  refine ⟨key, ?_⟩
  intro l
  induction l with
  | nil => intro n; simp [allocL, POrdL]
  | cons t rest ihl => intro n; simp only [allocL, POrdL]; exact ⟨key t n, ihl _⟩

/-- **children before parent**: in the numbered tree every directory's number is larger than every number in its
subtree (so `serialize_fstree`, which writes inodes in number order, has written all children — and knows their
inode references — when it writes the directory's listing). -/
theorem numberRoot_ordered (cs : List Tree) : OrdT (numberRoot cs).1 := by
  simp only [numberRoot, OrdT]
  refine ⟨?_, step2_ord _ _ (alloc_ord.2 cs 0) (pnums_le cs 0)⟩
  intro k hk
  obtain ⟨a1, a2⟩ := alloc_spec.2 cs 0
  obtain ⟨b1, b2⟩ := step2_perm (allocL cs 0).1 (allocL cs 0).2
  have h := b2.trans (List.Perm.append_right _ a2)
  rw [range'_join 0 _ _ a1 b1] at h
  have := (h.mem_iff).mp hk
  simp only [List.mem_range'_1] at this
  omega


mutual
def eraseT : NTree → Tree
  | .file _ => .file
  | .hlink k => .hlink k
  | .dir _ cs => .dir (eraseL cs)
def eraseL : List NTree → List Tree
  | [] => []
  | t :: r => eraseT t :: eraseL r
end

def peraseT : PTree → Tree
  | .file => .file
  | .hlink k => .hlink k
  | .dir cs => .dir (eraseL cs)

def peraseL : List PTree → List Tree
  | [] => []
  | t :: r => peraseT t :: peraseL r

theorem step2_erase : ∀ (ps : List PTree) (n : Nat), eraseL (step2 ps n).1 = peraseL ps := by
  intro ps
  induction ps with
  | nil => intro n; simp [step2, eraseL, peraseL]
  | cons p rest ih =>
    intro n
    cases p <;> simp [step2, eraseL, eraseT, peraseL, peraseT, ih]

theorem alloc_erase : (∀ t n, peraseT (allocT t n).1 = t) ∧ (∀ l n, peraseL (allocL l n).1 = l) := by
  have key : ∀ t, ∀ n, peraseT (allocT t n).1 = t := by
    intro t
    refine Tree.rec (motive_1 := fun t => ∀ n, peraseT (allocT t n).1 = t) (motive_2 := fun l => ∀ n, peraseL (allocL l n).1 = l)
      ?_ ?_ ?_ ?_ ?_ t
    · intro n; simp [allocT, peraseT]
    · intro k n; simp [allocT, peraseT]
    · intro cs ih n
      simp only [allocT, peraseT, step2_erase, ih]
    · intro n; simp [allocL, peraseL]
    · intro t rest iht ihl n
      simp only [allocL, peraseL, iht, ihl]
  refine ⟨key, ?_⟩
  intro l
  induction l with
  | nil => intro n; simp [allocL, peraseL]
  | cons t rest ihl => intro n; simp only [allocL, peraseL, key, ihl]

/-- numbering changes nothing but the numbers: forgetting them gives back the input tree -/
theorem numberRoot_shape (cs : List Tree) : eraseT (numberRoot cs).1 = .dir cs := by
  simp only [numberRoot, eraseT, step2_erase, alloc_erase.2]

/-! ### `reorder_hard_links` keeps the numbering dense -/

/-- `inodes[k]->inode_num == k + 1` -/
def Dense (arr : List Slot) : Prop := ∀ k s, arr[k]? = some s → s.num = k + 1

theorem rotate_ids (arr : List Slot) (i t : Nat) (hi : i ≤ t) :
    ((rotate arr i t).map (·.id)).Perm (arr.map (·.id)) := by
  unfold rotate
  cases h : arr[t]? with
  | none => exact List.Perm.refl _
  | some tgt =>
    simp only
    have hlt : t < arr.length := by
      rcases Nat.lt_or_ge t arr.length with h' | h'
      · exact h'
      · rw [List.getElem?_eq_none h'] at h; cases h
    -- arr = take i ++ (drop i).take (t - i) ++ [tgt] ++ drop (t+1)
    have hsplit : arr = arr.take i ++ ((arr.drop i).take (t - i) ++ tgt :: arr.drop (t + 1)) := by
      have h1 : arr.drop i = (arr.drop i).take (t - i) ++ (arr.drop i).drop (t - i) := (List.take_append_drop _ _).symm
      have h2 : (arr.drop i).drop (t - i) = arr.drop t := by rw [List.drop_drop]; congr 1; omega
      have h3 : arr.drop t = tgt :: arr.drop (t + 1) := by
        rw [List.drop_eq_getElem_cons hlt]
        have : arr[t] = tgt := by
          have := List.getElem?_eq_getElem hlt
          rw [this] at h; exact Option.some.inj h
        rw [this]
      have h0 : arr = arr.take i ++ arr.drop i := (List.take_append_drop i arr).symm
      rw [h1, h2, h3] at h0
      exact h0
    conv => rhs; rw [hsplit]
    simp only [List.map_append, List.map_cons, List.map_map]
    have hid : (List.map ((fun x => x.id) ∘ fun s => ({ id := s.id, num := s.num + 1 } : Slot)) (List.take (t - i) (List.drop i arr)))
        = List.map (fun x => x.id) (List.take (t - i) (List.drop i arr)) := by
      apply List.map_congr_left; intro a _; rfl
    rw [hid]
    apply List.Perm.append_left
    exact (List.perm_middle).symm

theorem rotate_dense (arr : List Slot) (i t : Nat) (hi : i ≤ t) (hd : Dense arr) : Dense (rotate arr i t) := by
  unfold rotate
  cases h : arr[t]? with
  | none => exact hd
  | some tgt =>
    simp only
    have hlt : t < arr.length := by
      rcases Nat.lt_or_ge t arr.length with h' | h'
      · exact h'
      · rw [List.getElem?_eq_none h'] at h; cases h
    intro k s hk
    have hli : (arr.take i).length = i := by rw [List.length_take]; omega
    by_cases h1 : k < i
    · rw [List.getElem?_append_left (by omega)] at hk
      rw [List.getElem?_take_of_lt h1] at hk
      exact hd k s hk
    · rw [List.getElem?_append_right (by omega), hli] at hk
      by_cases h2 : k = i
      · subst h2
        simp only [Nat.sub_self, List.getElem?_cons_zero, Option.some.injEq] at hk
        rw [← hk]
      · obtain ⟨m, hm⟩ : ∃ m, k - i = m + 1 := ⟨k - i - 1, by omega⟩
        rw [hm] at hk
        simp only [List.getElem?_cons_succ] at hk
        have hlm : (((arr.drop i).take (t - i)).map (fun s => ({ id := s.id, num := s.num + 1 } : Slot))).length = t - i := by
          rw [List.length_map, List.length_take, List.length_drop]; omega
        by_cases h3 : m < t - i
        · rw [List.getElem?_append_left (by omega), List.getElem?_map, List.getElem?_take_of_lt h3, List.getElem?_drop] at hk
          cases hx : arr[i + m]? with
          | none => rw [hx] at hk; simp at hk
          | some x =>
            rw [hx] at hk
            simp only [Option.map_some, Option.some.injEq] at hk
            have := hd (i + m) x hx
            rw [← hk]; simp only; omega
        · rw [List.getElem?_append_right (by omega), hlm, List.getElem?_drop] at hk
          have := hd _ s hk
          omega

theorem reorderDir_spec : ∀ (links : List Nat) (arr : List Slot) (i : Nat), Dense arr →
    Dense (reorderDir links arr i).1 ∧ ((reorderDir links arr i).1.map (·.id)).Perm (arr.map (·.id)) ∧ i ≤ (reorderDir links arr i).2 := by
  intro links
  induction links with
  | nil => intro arr i hd; exact ⟨hd, List.Perm.refl _, Nat.le_refl _⟩
  | cons t rest ih =>
    intro arr i hd
    unfold reorderDir
    cases hf : arr.find? (·.id == t) with
    | none => exact ih arr i hd
    | some s =>
      simp only
      by_cases hle : s.num - 1 ≤ i
      · rw [if_pos hle]; exact ih arr i hd
      · rw [if_neg hle]
        obtain ⟨a, b, c⟩ := ih (rotate arr i (s.num - 1)) (i + 1) (rotate_dense arr i _ (by omega) hd)
        exact ⟨a, b.trans (rotate_ids arr i _ (by omega)), by omega⟩

theorem reorderGo_spec (linksOf : Nat → Option (List Nat)) : ∀ (f : Nat) (arr : List Slot) (i : Nat), Dense arr →
    Dense (reorderGo linksOf f arr i) ∧ ((reorderGo linksOf f arr i).map (·.id)).Perm (arr.map (·.id)) := by
  intro f
  induction f with
  | zero => intro arr i hd; exact ⟨hd, List.Perm.refl _⟩
  | succ f ih =>
    intro arr i hd
    unfold reorderGo
    cases h : arr[i]? with
    | none => exact ⟨hd, List.Perm.refl _⟩
    | some s =>
      simp only
      cases hl : linksOf s.id with
      | none => exact ih arr (i + 1) hd
      | some links =>
        simp only
        obtain ⟨a, b, _⟩ := reorderDir_spec links arr i hd
        obtain ⟨c, d⟩ := ih (reorderDir links arr i).1 ((reorderDir links arr i).2 + 1) a
        exact ⟨c, d.trans b⟩

theorem initialSlots_dense (n : Nat) : Dense (initialSlots n) := by
  intro k s hk
  unfold initialSlots at hk
  rw [List.getElem?_map] at hk
  cases h : (List.range' 1 n)[k]? with
  | none => rw [h] at hk; simp at hk
  | some v =>
    rw [h] at hk
    simp only [Option.map_some, Option.some.injEq] at hk
    have hv : v = 1 + k := by
      have hlt : k < (List.range' 1 n).length := by
        rcases Nat.lt_or_ge k (List.range' 1 n).length with h' | h'
        · exact h'
        · rw [List.getElem?_eq_none h'] at h; cases h
      rw [List.getElem?_eq_getElem hlt, List.getElem_range'] at h
      simp only [Option.some.injEq] at h; omega
    rw [← hk]; simp only; omega

theorem dense_nums : ∀ (arr : List Slot) (a : Nat), (∀ k s, arr[k]? = some s → s.num = a + k) →
    arr.map (·.num) = List.range' a arr.length := by
  intro arr
  induction arr with
  | nil => intro a _; rfl
  | cons x xs ih =>
    intro a h
    simp only [List.map_cons, List.length_cons, List.range'_succ]
    have h0 := h 0 x (by simp)
    rw [ih (a + 1) (fun k s hk => by have := h (k + 1) s (by simpa using hk); omega)]
    simp only [Nat.add_zero] at h0
    rw [h0]

/-- after `reorder_hard_links`: slot `k` carries inode number `k + 1`, and the slots hold exactly the nodes the DFS
numbered (each once) -/
theorem postProcess_spec (cs : List Tree) :
    (postProcess cs).map (·.num) = List.range' 1 (numberRoot cs).2 ∧
    ((postProcess cs).map (·.id)).Perm (numsT (numberRoot cs).1) := by
  unfold postProcess
  simp only
  obtain ⟨hd, hp⟩ := reorderGo_spec
    (fun id => ((dirsT (filesT (numberRoot cs).1) (numberRoot cs).1).find? (·.1 == id)).map (·.2))
    ((numberRoot cs).2 + 1) (initialSlots (numberRoot cs).2) 0 (initialSlots_dense _)
  have hids : (initialSlots (numberRoot cs).2).map (·.id) = List.range' 1 (numberRoot cs).2 := by
    unfold initialSlots
    rw [List.map_map]
    have : ((fun (x : Slot) => x.id) ∘ fun n => ({ id := n, num := n } : Slot)) = id := rfl
    rw [this, List.map_id]
  have hlen := hp.length_eq
  rw [hids] at hp
  simp only [List.length_map, hids, List.length_range'] at hlen
  refine ⟨?_, hp.trans (numberRoot_perm cs).symm⟩
  have := dense_nums _ 1 (fun k s hk => by have := hd k s hk; omega)
  rw [this, hlen]

/-! ### `reorder_hard_links` keeps children and link targets in front of the directories that name them -/

/-- node `a` sits in an earlier slot than node `b` -/
def Before (arr : List Slot) (a b : Nat) : Prop :=
  ∃ (i j : Nat) (sa sb : Slot), i < j ∧ arr[i]? = some sa ∧ arr[j]? = some sb ∧ sa.id = a ∧ sb.id = b

/-- where the slot at `p` ends up when the slot at `t` is rotated to `i` -/
def newPos (i t p : Nat) : Nat := if p < i then p else if p < t then p + 1 else if p = t then i else p

theorem rotate_get (arr : List Slot) (i t : Nat) (hi : i ≤ t) (ht : t < arr.length) (p : Nat) (s : Slot)
    (hp : arr[p]? = some s) : ∃ s', (rotate arr i t)[newPos i t p]? = some s' ∧ s'.id = s.id := by
  have hpl : p < arr.length := by
    rcases Nat.lt_or_ge p arr.length with h | h
    · exact h
    · rw [List.getElem?_eq_none h] at hp; cases hp
  unfold rotate
  have htg : arr[t]? = some arr[t] := List.getElem?_eq_getElem ht
  rw [htg]
  simp only
  have hli : (arr.take i).length = i := by rw [List.length_take]; omega
  have hlm : (((arr.drop i).take (t - i)).map (fun s => ({ id := s.id, num := s.num + 1 } : Slot))).length = t - i := by
    rw [List.length_map, List.length_take, List.length_drop]; omega
  unfold newPos
  by_cases h1 : p < i
  · rw [if_pos h1, List.getElem?_append_left (by omega), List.getElem?_take_of_lt h1]
    exact ⟨s, hp, rfl⟩
  · rw [if_neg h1]
    by_cases h2 : p < t
    · rw [if_pos h2, List.getElem?_append_right (by omega), hli]
      obtain ⟨m, hm⟩ : ∃ m, p + 1 - i = m + 1 := ⟨p - i, by omega⟩
      rw [hm, List.getElem?_cons_succ, List.getElem?_append_left (by omega), List.getElem?_map,
        List.getElem?_take_of_lt (by omega), List.getElem?_drop]
      have : i + m = p := by omega
      rw [this, hp]
      exact ⟨_, rfl, rfl⟩
    · rw [if_neg h2]
      by_cases h3 : p = t
      · rw [if_pos h3, List.getElem?_append_right (by omega), hli, Nat.sub_self, List.getElem?_cons_zero]
        subst h3
        rw [htg] at hp
        exact ⟨_, rfl, by rw [← Option.some.inj hp]⟩
      · rw [if_neg h3, List.getElem?_append_right (by omega), hli]
        obtain ⟨m, hm⟩ : ∃ m, p - i = m + 1 := ⟨p - i - 1, by omega⟩
        rw [hm, List.getElem?_cons_succ, List.getElem?_append_right (by omega), hlm, List.getElem?_drop]
        have : t + 1 + (m - (t - i)) = p := by omega
        rw [this]
        exact ⟨s, hp, rfl⟩

/-- a rotation keeps every "a before b" whose `b` is not the slot that is moved to the front -/
theorem rotate_before (arr : List Slot) (i t : Nat) (hi : i ≤ t) (ht : t < arr.length) (a b : Nat)
    (hb : ∀ s, arr[t]? = some s → s.id ≠ b) (h : Before arr a b) : Before (rotate arr i t) a b := by
  obtain ⟨p, q, sa, sb, hpq, hpa, hqb, ha, hbb⟩ := h
  have hqt : q ≠ t := by
    intro he; subst he; exact hb sb hqb hbb
  obtain ⟨sa', h1, h1'⟩ := rotate_get arr i t hi ht p sa hpa
  obtain ⟨sb', h2, h2'⟩ := rotate_get arr i t hi ht q sb hqb
  refine ⟨newPos i t p, newPos i t q, sa', sb', ?_, h1, h2, by rw [h1', ha], by rw [h2', hbb]⟩
  unfold newPos
  repeat' split
  all_goals omega

theorem newPos_self (i t : Nat) (h : i ≤ t) : newPos i t t = i := by
  unfold newPos
  rw [if_neg (by omega), if_neg (by omega), if_pos rfl]

theorem newPos_front (i t : Nat) (h : i < t) : newPos i t i = i + 1 := by
  unfold newPos
  rw [if_neg (Nat.lt_irrefl i), if_pos h]

theorem rotate_prefix (arr : List Slot) (i t p : Nat) (hi : i ≤ t) (hp : p < i) : (rotate arr i t)[p]? = arr[p]? := by
  unfold rotate
  cases h : arr[t]? with
  | none => rfl
  | some tgt =>
    simp only
    have hlt : t < arr.length := by
      rcases Nat.lt_or_ge t arr.length with h' | h'
      · exact h'
      · rw [List.getElem?_eq_none h'] at h; cases h
    rw [List.getElem?_append_left (by rw [List.length_take]; omega), List.getElem?_take_of_lt hp]

theorem find_dense (arr : List Slot) (hd : Dense arr) (t : Nat) (s : Slot) (h : arr.find? (·.id == t) = some s) :
    arr[s.num - 1]? = some s ∧ s.id = t := by
  have hm := List.mem_of_find?_eq_some h
  have hp := List.find?_some h
  obtain ⟨k, hk⟩ := List.getElem?_of_mem hm
  have := hd k s hk
  have hk' : k = s.num - 1 := by omega
  subst hk'
  exact ⟨hk, by simpa using hp⟩

theorem find_present (arr : List Slot) (t : Nat) (h : ∃ s ∈ arr, s.id = t) : ∃ s, arr.find? (·.id == t) = some s := by
  obtain ⟨s, hs, hid⟩ := h
  cases hf : arr.find? (·.id == t) with
  | some x => exact ⟨x, rfl⟩
  | none =>
    have := List.find?_eq_none.mp hf s hs
    simp [hid] at this

theorem rotate_present (arr : List Slot) (i k : Nat) (hi : i ≤ k) (t : Nat) (h : ∃ s ∈ arr, s.id = t) :
    ∃ s ∈ rotate arr i k, s.id = t := by
  obtain ⟨s, hs, hid⟩ := h
  have hm : t ∈ arr.map (·.id) := List.mem_map.mpr ⟨s, hs, hid⟩
  have := (rotate_ids arr i k hi).symm.subset hm
  obtain ⟨s', hs', hid'⟩ := List.mem_map.mp this
  exact ⟨s', hs', hid'⟩

/-- `arr'` keeps every "a before b" of `arr` whose `b` is not movable -/
def Keeps (mov : Nat → Prop) (arr arr' : List Slot) : Prop := ∀ a b, ¬ mov b → Before arr a b → Before arr' a b

theorem Keeps.refl (mov : Nat → Prop) (arr : List Slot) : Keeps mov arr arr := fun _ _ _ h => h

theorem Keeps.trans {mov : Nat → Prop} {a b c : List Slot} (h1 : Keeps mov a b) (h2 : Keeps mov b c) : Keeps mov a c :=
  fun x y hy h => h2 x y hy (h1 x y hy h)

theorem rotate_keeps (mov : Nat → Prop) (arr : List Slot) (i k : Nat) (s : Slot) (hi : i ≤ k) (hs : arr[k]? = some s)
    (hm : mov s.id) : Keeps mov arr (rotate arr i k) := by
  intro a b hb h
  have hlt : k < arr.length := by
    rcases Nat.lt_or_ge k arr.length with h' | h'
    · exact h'
    · rw [List.getElem?_eq_none h'] at hs; cases hs
  apply rotate_before arr i k hi hlt a b _ h
  intro s' hs' he
  rw [hs] at hs'
  have : s' = s := (Option.some.inj hs').symm
  subst this
  exact hb (he ▸ hm)

theorem reorderDir_links (mov : Nat → Prop) : ∀ (links : List Nat) (arr : List Slot) (i : Nat) (sd : Slot) (done : List Nat),
    Dense arr → arr[i]? = some sd → ¬ mov sd.id → (∀ t ∈ links, mov t ∧ ∃ s ∈ arr, s.id = t) →
    (∀ t ∈ done, Before arr t sd.id) →
    (∃ sd', (reorderDir links arr i).1[(reorderDir links arr i).2]? = some sd' ∧ sd'.id = sd.id) ∧
    (∀ t ∈ done ++ links, Before (reorderDir links arr i).1 t sd.id) ∧
    (∀ p, p < i → (reorderDir links arr i).1[p]? = arr[p]?) ∧
    (∀ p s, i ≤ p → p < (reorderDir links arr i).2 → (reorderDir links arr i).1[p]? = some s → mov s.id) ∧
    Keeps mov arr (reorderDir links arr i).1 := by
  intro links
  induction links with
  | nil =>
    intro arr i sd done _ hsd _ _ hdone
    exact ⟨⟨sd, hsd, rfl⟩, fun x hx => hdone x (by simpa using hx), fun _ _ => rfl,
      fun p s h1 h2 _ => by have : p < i := h2; omega, Keeps.refl _ _⟩
  | cons t rest ih =>
    intro arr i sd done hd hsd hnm hl hdone
    obtain ⟨hmt, hpt⟩ := hl t List.mem_cons_self
    obtain ⟨s, hf⟩ := find_present arr t hpt
    obtain ⟨hsk, hst⟩ := find_dense arr hd t s hf
    have hrest : ∀ x ∈ rest, mov x ∧ ∃ s ∈ arr, s.id = x := fun x hx => hl x (List.mem_cons_of_mem _ hx)
    unfold reorderDir
    rw [hf]
    simp only
    by_cases hle : s.num - 1 ≤ i
    · rw [if_pos hle]
      have hne : s.num - 1 ≠ i := by
        intro he
        rw [he, hsd] at hsk
        have : sd = s := Option.some.inj hsk
        rw [this, hst] at hnm
        exact hnm hmt
      have hbef : Before arr t sd.id := ⟨s.num - 1, i, s, sd, by omega, hsk, hsd, hst, rfl⟩
      obtain ⟨a1, a2, a3, a4, a5⟩ := ih arr i sd (done ++ [t]) hd hsd hnm hrest (by
        intro x hx
        rcases List.mem_append.mp hx with h | h
        · exact hdone x h
        · simp only [List.mem_singleton] at h; subst h; exact hbef)
      have e : done ++ [t] ++ rest = done ++ t :: rest := by simp
      rw [e] at a2
      exact ⟨a1, a2, a3, a4, a5⟩
    · rw [if_neg hle]
      have hik : i ≤ s.num - 1 := by omega
      have hklt : s.num - 1 < arr.length := by
        rcases Nat.lt_or_ge (s.num - 1) arr.length with h' | h'
        · exact h'
        · rw [List.getElem?_eq_none h'] at hsk; cases hsk
      -- after the rotation: target in slot i, the directory in slot i + 1
      obtain ⟨st', hst1, hst2⟩ := rotate_get arr i (s.num - 1) hik hklt (s.num - 1) s hsk
      obtain ⟨sd', hsd1, hsd2⟩ := rotate_get arr i (s.num - 1) hik hklt i sd hsd
      have np1 : newPos i (s.num - 1) (s.num - 1) = i := newPos_self _ _ hik
      have np2 : newPos i (s.num - 1) i = i + 1 := newPos_front _ _ (by omega)
      rw [np1] at hst1
      rw [np2] at hsd1
      have hkeep := rotate_keeps mov arr i (s.num - 1) s hik hsk (hst ▸ hmt)
      have hbef : Before (rotate arr i (s.num - 1)) t sd.id :=
        ⟨i, i + 1, st', sd', by omega, hst1, hsd1, by rw [hst2, hst], hsd2⟩
      have hnm' : ¬ mov sd'.id := by rw [hsd2]; exact hnm
      obtain ⟨a1, a2, a3, a4, a5⟩ := ih (rotate arr i (s.num - 1)) (i + 1) sd' (done ++ [t])
        (rotate_dense arr i _ hik hd) hsd1 hnm'
        (fun x hx => ⟨(hrest x hx).1, rotate_present arr i _ hik x (hrest x hx).2⟩) (by
          intro x hx
          rw [hsd2]
          rcases List.mem_append.mp hx with h | h
          · exact hkeep x sd.id hnm (hdone x h)
          · simp only [List.mem_singleton] at h; subst h; exact hbef)
      rw [hsd2] at a1 a2
      have e : done ++ [t] ++ rest = done ++ t :: rest := by simp
      rw [e] at a2
      refine ⟨a1, a2, ?_, ?_, Keeps.trans hkeep a5⟩
      · intro p hp
        rw [a3 p (by omega), rotate_prefix arr i _ p hik hp]
      · intro p x h1 h2 hx
        by_cases hpi : p = i
        · subst hpi
          rw [a3 p (by omega), hst1] at hx
          rw [← Option.some.inj hx, hst2, hst]; exact hmt
        · exact a4 p x (by omega) h2 hx

/-- every directory in a slot below `i` comes after the targets of all its hard-link entries -/
def LinksDone (linksOf : Nat → Option (List Nat)) (arr : List Slot) (i : Nat) : Prop :=
  ∀ p s, p < i → arr[p]? = some s → ∀ links, linksOf s.id = some links → ∀ t ∈ links, Before arr t s.id

theorem reorderGo_links (linksOf : Nat → Option (List Nat))
    (htg : ∀ id links, linksOf id = some links → ∀ t ∈ links, linksOf t = none) :
    ∀ (f : Nat) (arr : List Slot) (i : Nat), Dense arr → arr.length ≤ i + f →
      (∀ id links, linksOf id = some links → ∀ t ∈ links, ∃ s ∈ arr, s.id = t) →
      LinksDone linksOf arr i →
      Keeps (fun id => linksOf id = none) arr (reorderGo linksOf f arr i) ∧
      LinksDone linksOf (reorderGo linksOf f arr i) (reorderGo linksOf f arr i).length := by
  intro f
  induction f with
  | zero =>
    intro arr i _ hlen _ hq
    refine ⟨Keeps.refl _ _, ?_⟩
    intro p s hp hs
    have : p < arr.length := hp
    exact hq p s (by omega) hs
  | succ f ih =>
    intro arr i hd hlen hpres hq
    unfold reorderGo
    cases hsi : arr[i]? with
    | none =>
      simp only
      refine ⟨Keeps.refl _ _, ?_⟩
      intro p s hp hs
      have hge : arr.length ≤ i := by
        rcases Nat.lt_or_ge i arr.length with h | h
        · rw [List.getElem?_eq_getElem h] at hsi; cases hsi
        · exact h
      exact hq p s (by omega) hs
    | some s =>
      simp only
      cases hl : linksOf s.id with
      | none =>
        simp only
        apply ih arr (i + 1) hd (by omega) hpres
        intro p s' hp hs' links hl'
        by_cases hpi : p = i
        · subst hpi
          rw [hsi] at hs'
          rw [← Option.some.inj hs', hl] at hl'
          cases hl'
        · exact hq p s' (by omega) hs' links hl'
      | some links =>
        simp only
        have hnm : ¬ (fun id => linksOf id = none) s.id := by simp [hl]
        obtain ⟨⟨sd', b1, b1'⟩, b2, b3, b4, b5⟩ := reorderDir_links (fun id => linksOf id = none) links arr i s [] hd hsi hnm
          (fun t ht => ⟨htg s.id links hl t ht, hpres s.id links hl t ht⟩) (by simp)
        obtain ⟨c1, c2, c3⟩ := reorderDir_spec links arr i hd
        have hlen' : (reorderDir links arr i).1.length = arr.length := by
          have := c2.length_eq; simpa using this
        have hq' : LinksDone linksOf (reorderDir links arr i).1 ((reorderDir links arr i).2 + 1) := by
          intro p s' hp hs' links' hl' t ht
          by_cases hp1 : p < i
          · rw [b3 p hp1] at hs'
            exact b5 t s'.id (by simp [hl']) (hq p s' hp1 hs' links' hl' t ht)
          · by_cases hp2 : p < (reorderDir links arr i).2
            · have hmv : linksOf s'.id = none := b4 p s' (by omega) hp2 hs'
              rw [hmv] at hl'; cases hl'
            · have hpe : p = (reorderDir links arr i).2 := by omega
              subst hpe
              rw [b1] at hs'
              have hid : s'.id = s.id := by rw [← Option.some.inj hs']; exact b1'
              rw [hid] at hl' ⊢
              rw [hl] at hl'
              have : links' = links := (Option.some.inj hl').symm
              subst this
              exact b2 t (by simpa using ht)
        have hpres' : ∀ id ls, linksOf id = some ls → ∀ t ∈ ls, ∃ s ∈ (reorderDir links arr i).1, s.id = t := by
          intro id ls hls t ht
          obtain ⟨s0, hs0, hid0⟩ := hpres id ls hls t ht
          have hm : t ∈ arr.map (·.id) := List.mem_map.mpr ⟨s0, hs0, hid0⟩
          obtain ⟨s1, hs1, hid1⟩ := List.mem_map.mp (c2.symm.subset hm)
          exact ⟨s1, hs1, hid1⟩
        obtain ⟨d1, d2⟩ := ih (reorderDir links arr i).1 ((reorderDir links arr i).2 + 1) c1 (by omega) hpres' hq'
        exact ⟨Keeps.trans b5 d1, d2⟩

/--
`reorder_hard_links` on a dense `fs->inodes` in which hard links point at non-directories that are in the array:
whatever came before a directory still comes before it, and afterwards every directory comes after the targets of all
its hard-link entries.
-/
theorem reorder_links_before (linksOf : Nat → Option (List Nat)) (arr : List Slot) (hd : Dense arr)
    (htg : ∀ id links, linksOf id = some links → ∀ t ∈ links, linksOf t = none)
    (hpres : ∀ id links, linksOf id = some links → ∀ t ∈ links, ∃ s ∈ arr, s.id = t) :
    (∀ a b, linksOf b ≠ none → Before arr a b → Before (reorderGo linksOf (arr.length + 1) arr 0) a b) ∧
    (∀ s ∈ reorderGo linksOf (arr.length + 1) arr 0, ∀ links, linksOf s.id = some links →
      ∀ t ∈ links, Before (reorderGo linksOf (arr.length + 1) arr 0) t s.id) := by
  obtain ⟨k, q⟩ := reorderGo_links linksOf htg (arr.length + 1) arr 0 hd (by omega) hpres (by intro p s hp; omega)
  refine ⟨fun a b hb h => k a b hb h, ?_⟩
  intro s hs links hl t ht
  obtain ⟨p, hp⟩ := List.getElem?_of_mem hs
  have hlt : p < (reorderGo linksOf (arr.length + 1) arr 0).length := by
    rcases Nat.lt_or_ge p (reorderGo linksOf (arr.length + 1) arr 0).length with h | h
    · exact h
    · rw [List.getElem?_eq_none h] at hp; cases hp
  exact q p s hlt hp links hl t ht

mutual
/-- every hard link of the tree names an existing file (`k <` number of files) -/
def ValidT (nf : Nat) : NTree → Prop
  | .file _ => True
  | .hlink k => k < nf
  | .dir _ cs => ValidL nf cs
def ValidL (nf : Nat) : List NTree → Prop
  | [] => True
  | t :: r => ValidT nf t ∧ ValidL nf r
end

mutual
def dirNumsT : NTree → List Nat
  | .file _ => []
  | .hlink _ => []
  | .dir n cs => n :: dirNumsL cs
def dirNumsL : List NTree → List Nat
  | [] => []
  | t :: r => dirNumsT t ++ dirNumsL r
end

theorem dirs_fst (files : List Nat) : (∀ t, (dirsT files t).map (·.1) = dirNumsT t) ∧ (∀ l, (dirsL files l).map (·.1) = dirNumsL l) := by
  have key : ∀ t, (dirsT files t).map (·.1) = dirNumsT t := by
    intro t
    refine NTree.rec (motive_1 := fun t => (dirsT files t).map (·.1) = dirNumsT t)
      (motive_2 := fun l => (dirsL files l).map (·.1) = dirNumsL l) ?_ ?_ ?_ ?_ ?_ t
    · intro n; rfl
    · intro k; rfl
    · intro n cs ih; simp only [dirsT, dirNumsT, List.map_cons, ih]
    · rfl
    · intro t r iht ihr; simp only [dirsL, dirNumsL, List.map_append, iht, ihr]
  refine ⟨key, ?_⟩
  intro l
  induction l with
  | nil => rfl
  | cons t r ih => simp only [dirsL, dirNumsL, List.map_append, key, ih]

theorem nums_split : (∀ t, (numsT t).Perm (filesT t ++ dirNumsT t)) ∧ (∀ l, (numsL l).Perm (filesL l ++ dirNumsL l)) := by
  have key : ∀ t, (numsT t).Perm (filesT t ++ dirNumsT t) := by
    intro t
    refine NTree.rec (motive_1 := fun t => (numsT t).Perm (filesT t ++ dirNumsT t))
      (motive_2 := fun l => (numsL l).Perm (filesL l ++ dirNumsL l)) ?_ ?_ ?_ ?_ ?_ t
    · intro n; simp [numsT, filesT, dirNumsT]
    · intro k; simp [numsT, filesT, dirNumsT]
    · intro n cs ih
      simp only [numsT, filesT, dirNumsT]
      exact (List.Perm.append_right [n] ih).trans (by
        rw [List.append_assoc]
        exact List.Perm.append_left _ (List.perm_append_comm))
    · simp [numsL, filesL, dirNumsL]
    · intro t r iht ihr
      simp only [numsL, filesL, dirNumsL]
      have := List.Perm.append iht ihr
      refine this.trans ?_
      -- (ft ++ dt) ++ (fr ++ dr) ~ (ft ++ fr) ++ (dt ++ dr)
      rw [List.append_assoc, List.append_assoc]
      apply List.Perm.append_left
      rw [← List.append_assoc, ← List.append_assoc]
      exact List.Perm.append_right _ List.perm_append_comm
  refine ⟨key, ?_⟩
  intro l
  induction l with
  | nil => simp [numsL, filesL, dirNumsL]
  | cons t r ih =>
    simp only [numsL, filesL, dirNumsL]
    refine (List.Perm.append (key t) ih).trans ?_
    rw [List.append_assoc, List.append_assoc]
    apply List.Perm.append_left
    rw [← List.append_assoc, ← List.append_assoc]
    exact List.Perm.append_right _ List.perm_append_comm

theorem linkTargets_mem (files : List Nat) : ∀ (cs : List NTree), ValidL files.length cs → ∀ x ∈ linkTargets files cs, x ∈ files := by
  intro cs
  induction cs with
  | nil => intro _ x hx; simp [linkTargets] at hx
  | cons c r ih =>
    intro hv x hx
    simp only [ValidL] at hv
    cases c with
    | file n => exact ih hv.2 x (by simpa [linkTargets] using hx)
    | dir n cs' => exact ih hv.2 x (by simpa [linkTargets] using hx)
    | hlink k =>
      simp only [linkTargets, List.mem_cons] at hx
      rcases hx with h | h
      · subst h
        have hk : k < files.length := hv.1
        rw [List.getD_eq_getElem?_getD, List.getElem?_eq_getElem hk]
        exact List.getElem_mem hk
      · exact ih hv.2 x h

theorem dirs_targets (files : List Nat) :
    (∀ t, ValidT files.length t → ∀ d ∈ dirsT files t, ∀ x ∈ d.2, x ∈ files) ∧
    (∀ l, ValidL files.length l → ∀ d ∈ dirsL files l, ∀ x ∈ d.2, x ∈ files) := by
  have key : ∀ t, ValidT files.length t → ∀ d ∈ dirsT files t, ∀ x ∈ d.2, x ∈ files := by
    intro t
    refine NTree.rec (motive_1 := fun t => ValidT files.length t → ∀ d ∈ dirsT files t, ∀ x ∈ d.2, x ∈ files)
      (motive_2 := fun l => ValidL files.length l → ∀ d ∈ dirsL files l, ∀ x ∈ d.2, x ∈ files) ?_ ?_ ?_ ?_ ?_ t
    · intro n _ d hd; simp [dirsT] at hd
    · intro k _ d hd; simp [dirsT] at hd
    · intro n cs ih hv d hd x hx
      simp only [dirsT, List.mem_cons] at hd
      simp only [ValidT] at hv
      rcases hd with h | h
      · subst h; exact linkTargets_mem files cs hv x hx
      · exact ih hv d h x hx
    · intro _ d hd; simp [dirsL] at hd
    · intro t r iht ihr hv d hd x hx
      simp only [dirsL, List.mem_append] at hd
      simp only [ValidL] at hv
      rcases hd with h | h
      · exact iht hv.1 d h x hx
      · exact ihr hv.2 d h x hx
  refine ⟨key, ?_⟩
  intro l
  induction l with
  | nil => intro _ d hd; simp [dirsL] at hd
  | cons t r ih =>
    intro hv d hd x hx
    simp only [dirsL, List.mem_append] at hd
    simp only [ValidL] at hv
    rcases hd with h | h
    · exact key t hv.1 d h x hx
    · exact ih hv.2 d h x hx

theorem eq_of_nodup_map_fst : ∀ (l : List (Nat × List Nat)), (l.map (·.1)).Nodup →
    ∀ a ∈ l, ∀ b ∈ l, a.1 = b.1 → a = b := by
  intro l
  induction l with
  | nil => intro _ a ha; simp at ha
  | cons x xs ih =>
    intro hn a ha b hb hab
    simp only [List.map_cons, List.nodup_cons] at hn
    rcases List.mem_cons.mp ha with h1 | h1 <;> rcases List.mem_cons.mp hb with h2 | h2
    · rw [h1, h2]
    · exfalso; apply hn.1; rw [← h1, hab]; exact List.mem_map.mpr ⟨b, h2, rfl⟩
    · exfalso; apply hn.1; rw [← h2, ← hab]; exact List.mem_map.mpr ⟨a, h1, rfl⟩
    · exact ih hn.2 a h1 b h2 hab

theorem initialSlots_get (n k : Nat) (h : k < n) : (initialSlots n)[k]? = some ⟨k + 1, k + 1⟩ := by
  unfold initialSlots
  rw [List.getElem?_map, List.getElem?_eq_getElem (by simpa using h), List.getElem_range']
  simp only [Option.map_some, Nat.one_mul]
  congr 1
  rw [Nat.add_comm]

theorem initialSlots_before (n a b : Nat) (ha : 1 ≤ a) (hab : a < b) (hb : b ≤ n) : Before (initialSlots n) a b :=
  ⟨a - 1, b - 1, ⟨a, a⟩, ⟨b, b⟩, by omega,
    by have := initialSlots_get n (a - 1) (by omega); rw [this]; congr <;> omega,
    by have := initialSlots_get n (b - 1) (by omega); rw [this]; congr <;> omega, rfl, rfl⟩

/--
`fstree_post_process` for a tree whose hard links all name existing files: in the final order of `fs->inodes`
(= order of serialisation) whatever the DFS numbered below a directory still comes before that directory, and every
directory comes after the target of each of its hard-link entries.
-/
theorem postProcess_order (cs : List Tree)
    (hv : ValidT (filesT (numberRoot cs).1).length (numberRoot cs).1) :
    (∀ a b, 1 ≤ a → a < b → b ∈ dirNumsT (numberRoot cs).1 → Before (postProcess cs) a b) ∧
    (∀ d ∈ dirsT (filesT (numberRoot cs).1) (numberRoot cs).1, ∀ x ∈ d.2, Before (postProcess cs) x d.1) := by
  -- notation
  generalize ht : (numberRoot cs).1 = t at hv ⊢
  generalize hN : (numberRoot cs).2 = N
  have hperm : (numsT t).Perm (List.range' 1 N) := by rw [← ht, ← hN]; exact numberRoot_perm cs
  have hnodup : (filesT t ++ dirNumsT t).Nodup := ((nums_split.1 t).symm.trans hperm).nodup_iff.mpr List.nodup_range'
  have hrange : ∀ x, x ∈ filesT t ++ dirNumsT t → 1 ≤ x ∧ x ≤ N := by
    intro x hx
    have := ((nums_split.1 t).symm.trans hperm).subset hx
    rw [List.mem_range'_1] at this; omega
  have hdisj : ∀ x, x ∈ filesT t → x ∉ dirNumsT t := by
    intro x hf hdn
    exact (List.nodup_append.mp hnodup).2.2 x hf x hdn rfl
  let linksOf : Nat → Option (List Nat) := fun id => ((dirsT (filesT t) t).find? (·.1 == id)).map (·.2)
  have hpp : postProcess cs = reorderGo linksOf ((initialSlots N).length + 1) (initialSlots N) 0 := by
    unfold postProcess
    simp only [ht, hN]
    have : (initialSlots N).length = N := by simp [initialSlots]
    rw [this]
  -- facts about linksOf
  have hsome : ∀ id links, linksOf id = some links → (id, links) ∈ dirsT (filesT t) t := by
    intro id links h
    simp only [linksOf] at h
    cases hf : (dirsT (filesT t) t).find? (·.1 == id) with
    | none => rw [hf] at h; cases h
    | some d =>
      rw [hf] at h
      simp only [Option.map_some, Option.some.injEq] at h
      have hm := List.mem_of_find?_eq_some hf
      have hp := List.find?_some hf
      have : d.1 = id := by simpa using hp
      rw [← this, ← h]; exact hm
  have hnone : ∀ x, x ∉ dirNumsT t → linksOf x = none := by
    intro x hx
    simp only [linksOf]
    cases hf : (dirsT (filesT t) t).find? (·.1 == x) with
    | none => rfl
    | some d =>
      exfalso
      have hm := List.mem_of_find?_eq_some hf
      have hp := List.find?_some hf
      have : d.1 = x := by simpa using hp
      apply hx
      rw [← (dirs_fst (filesT t)).1 t, ← this]
      exact List.mem_map.mpr ⟨d, hm, rfl⟩
  have hisdir : ∀ b, b ∈ dirNumsT t → linksOf b ≠ none := by
    intro b hb
    rw [← (dirs_fst (filesT t)).1 t] at hb
    obtain ⟨d, hd, hd1⟩ := List.mem_map.mp hb
    simp only [linksOf]
    cases hf : (dirsT (filesT t) t).find? (·.1 == b) with
    | some d' => simp
    | none =>
      have := List.find?_eq_none.mp hf d hd
      simp [hd1] at this
  have htg : ∀ id links, linksOf id = some links → ∀ x ∈ links, linksOf x = none := by
    intro id links h x hx
    exact hnone x (hdisj x ((dirs_targets (filesT t)).1 t hv (id, links) (hsome id links h) x hx))
  have hpres : ∀ id links, linksOf id = some links → ∀ x ∈ links, ∃ s ∈ initialSlots N, s.id = x := by
    intro id links h x hx
    have hxf := (dirs_targets (filesT t)).1 t hv (id, links) (hsome id links h) x hx
    obtain ⟨h1, h2⟩ := hrange x (List.mem_append_left _ hxf)
    exact ⟨⟨x, x⟩, List.mem_of_getElem? (by have := initialSlots_get N (x - 1) (by omega); rw [this]; congr <;> omega), rfl⟩
  obtain ⟨r1, r2⟩ := reorder_links_before linksOf (initialSlots N) (initialSlots_dense N) htg hpres
  rw [hpp]
  refine ⟨?_, ?_⟩
  · intro a b ha hab hb
    have hbN := (hrange b (List.mem_append_right _ hb)).2
    exact r1 a b (hisdir b hb) (initialSlots_before N a b ha hab hbN)
  · intro d hd x hx
    -- the directory `d.1` is in the final array (ids are a permutation of 1..N)
    have hb : d.1 ∈ dirNumsT t := by
      rw [← (dirs_fst (filesT t)).1 t]; exact List.mem_map.mpr ⟨d, hd, rfl⟩
    obtain ⟨h1, h2⟩ := hrange d.1 (List.mem_append_right _ hb)
    have hperm2 := (reorderGo_spec linksOf ((initialSlots N).length + 1) (initialSlots N) 0 (initialSlots_dense N)).2
    have hin : d.1 ∈ (initialSlots N).map (·.id) :=
      List.mem_map.mpr ⟨⟨d.1, d.1⟩, List.mem_of_getElem? (by have := initialSlots_get N (d.1 - 1) (by omega); rw [this]; congr <;> omega), rfl⟩
    obtain ⟨s, hs, hsid⟩ := List.mem_map.mp (hperm2.symm.subset hin)
    -- its links, as `linksOf` sees them: the first entry of `dirs` with this number — which is `d` itself
    cases hl : linksOf d.1 with
    | none => exact absurd hl (hisdir d.1 hb)
    | some links =>
      have hmem := hsome d.1 links hl
      -- directory numbers are unique, so (d.1, links) = d
      have huniq : links = d.2 := by
        have hnd : (dirNumsT t).Nodup := (List.nodup_append.mp hnodup).2.1
        rw [← (dirs_fst (filesT t)).1 t] at hnd
        have := eq_of_nodup_map_fst _ hnd _ hmem _ hd rfl
        exact congrArg Prod.snd this
      subst huniq
      have := r2 s hs d.2 (by rw [hsid]; exact hl) x hx
      rw [hsid] at this
      exact this

end Sqfs.Numbering
