import Sqfs.Model.Numbering
namespace Sqfs.Numbering

theorem range'_split (a k m : Nat) : List.range' a k ++ List.range' (a + k) m = List.range' a (k + m) := by
  rw [List.range'_append_1]

theorem step2_perm : ∀ (ps : List PTree) (n : Nat),
    n ≤ (step2 ps n).2 ∧ (numsL (step2 ps n).1).Perm (pnumsL ps ++ List.range' (n + 1) ((step2 ps n).2 - n)) := by
  intro ps
  induction ps with
  | nil => intro n; simp [step2, numsL, pnumsL]
  | cons p rest ih =>
    intro n
    cases p with
    | hlink k =>
      obtain ⟨h1, h2⟩ := ih n
      simp only [step2, numsL, numsT, pnumsL, pnumsT, List.nil_append]
      exact ⟨h1, h2⟩
    | file =>
      obtain ⟨h1, h2⟩ := ih (n + 1)
      simp only [step2, numsL, numsT, pnumsL, pnumsT, List.nil_append, List.singleton_append]
      refine ⟨by omega, ?_⟩
      have hk : (step2 rest (n + 1)).2 - n = ((step2 rest (n + 1)).2 - (n + 1)) + 1 := by omega
      rw [hk, List.range'_succ]
      exact (List.Perm.cons _ h2).trans List.perm_middle.symm
    | dir cs =>
      obtain ⟨h1, h2⟩ := ih (n + 1)
      simp only [step2, numsL, numsT, pnumsL, pnumsT]
      refine ⟨by omega, ?_⟩
      have hk : (step2 rest (n + 1)).2 - n = ((step2 rest (n + 1)).2 - (n + 1)) + 1 := by omega
      rw [hk, List.range'_succ, List.append_assoc, List.append_assoc]
      apply List.Perm.append_left
      simp only [List.singleton_append]
      exact (List.Perm.cons _ h2).trans List.perm_middle.symm


def SpecT (t : Tree) : Prop := ∀ n, n ≤ (allocT t n).2 ∧
  (pnumsT (allocT t n).1).Perm (List.range' (n + 1) ((allocT t n).2 - n))
def SpecL (l : List Tree) : Prop := ∀ n, n ≤ (allocL l n).2 ∧
  (pnumsL (allocL l n).1).Perm (List.range' (n + 1) ((allocL l n).2 - n))

theorem range'_join (n a b : Nat) (h1 : n ≤ a) (h2 : a ≤ b) :
    List.range' (n + 1) (a - n) ++ List.range' (a + 1) (b - a) = List.range' (n + 1) (b - n) := by
  have e1 : a + 1 = (n + 1) + (a - n) := by omega
  have e2 : b - n = (a - n) + (b - a) := by omega
  rw [e1, e2, List.range'_append_1]

theorem alloc_spec : (∀ t, SpecT t) ∧ (∀ l, SpecL l) := by
  have key : ∀ t, SpecT t := by
    intro t
    refine Tree.rec (motive_1 := SpecT) (motive_2 := SpecL) ?_ ?_ ?_ ?_ ?_ t
    · intro n; simp [allocT, pnumsT]
    · intro k n; simp [allocT, pnumsT]
    · intro cs ih n
      obtain ⟨a1, a2⟩ := ih n
      obtain ⟨b1, b2⟩ := step2_perm (allocL cs n).1 (allocL cs n).2
      simp only [allocT, pnumsT]
      refine ⟨by omega, ?_⟩
      rw [← range'_join n (allocL cs n).2 _ a1 b1]
      exact b2.trans (List.Perm.append_right _ a2)
    · intro n; simp [allocL, pnumsL]
    · intro t rest iht ihl n
      obtain ⟨a1, a2⟩ := iht n
      obtain ⟨r1, r2⟩ := ihl (allocT t n).2
      simp only [allocL, pnumsL]
      refine ⟨by omega, ?_⟩
      rw [← range'_join n (allocT t n).2 _ a1 r1]
      exact List.Perm.append a2 r2
  refine ⟨key, ?_⟩
  intro l
  induction l with
  | nil => intro n; simp [allocL, pnumsL]
  | cons t rest ihl =>
    intro n
    obtain ⟨a1, a2⟩ := key t n
    obtain ⟨r1, r2⟩ := ihl (allocT t n).2
    simp only [allocL, pnumsL]
    refine ⟨by omega, ?_⟩
    rw [← range'_join n (allocT t n).2 _ a1 r1]
    exact List.Perm.append a2 r2

/-- **inode numbers are exactly 1..N**: the numbers assigned by `alloc_inode_num_dfs` + the root's number are a
permutation of `[1, …, N]` where `N` is the count the function returns (`fs->unique_inode_count`). -/
theorem numberRoot_perm (cs : List Tree) :
    (numsT (numberRoot cs).1).Perm (List.range' 1 (numberRoot cs).2) := by
  obtain ⟨a1, a2⟩ := alloc_spec.2 cs 0
  obtain ⟨b1, b2⟩ := step2_perm (allocL cs 0).1 (allocL cs 0).2
  simp only [numberRoot, numsT]
  have h := b2.trans (List.Perm.append_right _ a2)
  rw [range'_join 0 _ _ a1 b1] at h
  simp only [Nat.zero_add, Nat.sub_zero] at h
  rw [List.range'_concat]
  have e : 1 + 1 * (step2 (allocL cs 0).fst (allocL cs 0).snd).snd = (step2 (allocL cs 0).fst (allocL cs 0).snd).snd + 1 := by omega
  rw [e]
  exact List.Perm.append_right _ h


mutual
def OrdT : NTree → Prop
  | .file _ => True
  | .hlink _ => True
  | .dir n cs => (∀ k ∈ numsL cs, k < n) ∧ OrdL cs
def OrdL : List NTree → Prop
  | [] => True
  | t :: r => OrdT t ∧ OrdL r
end

def POrdT : PTree → Prop
  | .dir cs => OrdL cs
  | _ => True

def POrdL : List PTree → Prop
  | [] => True
  | t :: r => POrdT t ∧ POrdL r

theorem step2_ord : ∀ (ps : List PTree) (n : Nat), POrdL ps → (∀ k ∈ pnumsL ps, k ≤ n) → OrdL (step2 ps n).1 := by
  intro ps
  induction ps with
  | nil => intro n _ _; simp [step2, OrdL]
  | cons p rest ih =>
    intro n ho hb
    simp only [POrdL] at ho
    simp only [pnumsL, List.mem_append] at hb
    cases p with
    | hlink k =>
      simp only [step2, OrdL, OrdT, true_and]
      exact ih n ho.2 (fun k hk => hb k (Or.inr hk))
    | file =>
      simp only [step2, OrdL, OrdT, true_and]
      exact ih (n + 1) ho.2 (fun k hk => Nat.le_succ_of_le (hb k (Or.inr hk)))
    | dir cs =>
      simp only [step2, OrdL, OrdT]
      refine ⟨⟨?_, ho.1⟩, ih (n + 1) ho.2 (fun k hk => Nat.le_succ_of_le (hb k (Or.inr hk)))⟩
      intro k hk
      exact Nat.lt_succ_of_le (hb k (Or.inl hk))

theorem pnums_le (l : List Tree) (n : Nat) : ∀ k ∈ pnumsL (allocL l n).1, k ≤ (allocL l n).2 := by
  intro k hk
  obtain ⟨a1, a2⟩ := alloc_spec.2 l n
  have := (a2.mem_iff).mp hk
  simp only [List.mem_range'_1] at this
  omega

theorem alloc_ord : (∀ t n, POrdT (allocT t n).1) ∧ (∀ l n, POrdL (allocL l n).1) := by
  have key : ∀ t, ∀ n, POrdT (allocT t n).1 := by
    intro t
    refine Tree.rec (motive_1 := fun t => ∀ n, POrdT (allocT t n).1) (motive_2 := fun l => ∀ n, POrdL (allocL l n).1)
      ?_ ?_ ?_ ?_ ?_ t
    · intro n; simp [allocT, POrdT]
    · intro k n; simp [allocT, POrdT]
    · intro cs ih n
      simp only [allocT, POrdT]
      exact step2_ord _ _ (ih n) (pnums_le cs n)
    · intro n; simp [allocL, POrdL]
    · intro t rest iht ihl n
      simp only [allocL, POrdL]
      exact ⟨iht n, ihl _⟩
  refine ⟨key, ?_⟩
  intro l
  induction l with
  | nil => intro n; simp [allocL, POrdL]
  | cons t rest ihl => intro n; simp only [allocL, POrdL]; exact ⟨key t n, ihl _⟩

/-- **children before parent**: in the numbered tree every directory's number is larger than every number in its
subtree (so `serialize_fstree`, which writes inodes in number order, has written all children — and knows their
inode references — when it writes the directory's listing). -/
theorem numberRoot_ordered (cs : List Tree) : OrdT (numberRoot cs).1 := by
  simp only [numberRoot, OrdT]
  refine ⟨?_, step2_ord _ _ (alloc_ord.2 cs 0) (pnums_le cs 0)⟩
  intro k hk
  obtain ⟨a1, a2⟩ := alloc_spec.2 cs 0
  obtain ⟨b1, b2⟩ := step2_perm (allocL cs 0).1 (allocL cs 0).2
  have h := b2.trans (List.Perm.append_right _ a2)
  rw [range'_join 0 _ _ a1 b1] at h
  have := (h.mem_iff).mp hk
  simp only [List.mem_range'_1] at this
  omega


mutual
def eraseT : NTree → Tree
  | .file _ => .file
  | .hlink k => .hlink k
  | .dir _ cs => .dir (eraseL cs)
def eraseL : List NTree → List Tree
  | [] => []
  | t :: r => eraseT t :: eraseL r
end

def peraseT : PTree → Tree
  | .file => .file
  | .hlink k => .hlink k
  | .dir cs => .dir (eraseL cs)

def peraseL : List PTree → List Tree
  | [] => []
  | t :: r => peraseT t :: peraseL r

theorem step2_erase : ∀ (ps : List PTree) (n : Nat), eraseL (step2 ps n).1 = peraseL ps := by
  intro ps
  induction ps with
  | nil => intro n; simp [step2, eraseL, peraseL]
  | cons p rest ih =>
    intro n
    cases p <;> simp [step2, eraseL, eraseT, peraseL, peraseT, ih]

theorem alloc_erase : (∀ t n, peraseT (allocT t n).1 = t) ∧ (∀ l n, peraseL (allocL l n).1 = l) := by
  have key : ∀ t, ∀ n, peraseT (allocT t n).1 = t := by
    intro t
    refine Tree.rec (motive_1 := fun t => ∀ n, peraseT (allocT t n).1 = t) (motive_2 := fun l => ∀ n, peraseL (allocL l n).1 = l)
      ?_ ?_ ?_ ?_ ?_ t
    · intro n; simp [allocT, peraseT]
    · intro k n; simp [allocT, peraseT]
    · intro cs ih n
      simp only [allocT, peraseT, step2_erase, ih]
    · intro n; simp [allocL, peraseL]
    · intro t rest iht ihl n
      simp only [allocL, peraseL, iht, ihl]
  refine ⟨key, ?_⟩
  intro l
  induction l with
  | nil => intro n; simp [allocL, peraseL]
  | cons t rest ihl => intro n; simp only [allocL, peraseL, key, ihl]

/-- numbering changes nothing but the numbers: forgetting them gives back the input tree -/
theorem numberRoot_shape (cs : List Tree) : eraseT (numberRoot cs).1 = .dir cs := by
  simp only [numberRoot, eraseT, step2_erase, alloc_erase.2]

/-! ### `reorder_hard_links` keeps the numbering dense -/

/-- `inodes[k]->inode_num == k + 1` -/
def Dense (arr : List Slot) : Prop := ∀ k s, arr[k]? = some s → s.num = k + 1

theorem rotate_ids (arr : List Slot) (i t : Nat) (hi : i ≤ t) :
    ((rotate arr i t).map (·.id)).Perm (arr.map (·.id)) := by
  unfold rotate
  cases h : arr[t]? with
  | none => exact List.Perm.refl _
  | some tgt =>
    simp only
    have hlt : t < arr.length := by
      rcases Nat.lt_or_ge t arr.length with h' | h'
      · exact h'
      · rw [List.getElem?_eq_none h'] at h; cases h
    -- arr = take i ++ (drop i).take (t - i) ++ [tgt] ++ drop (t+1)
    have hsplit : arr = arr.take i ++ ((arr.drop i).take (t - i) ++ tgt :: arr.drop (t + 1)) := by
      have h1 : arr.drop i = (arr.drop i).take (t - i) ++ (arr.drop i).drop (t - i) := (List.take_append_drop _ _).symm
      have h2 : (arr.drop i).drop (t - i) = arr.drop t := by rw [List.drop_drop]; congr 1; omega
      have h3 : arr.drop t = tgt :: arr.drop (t + 1) := by
        rw [List.drop_eq_getElem_cons hlt]
        have : arr[t] = tgt := by
          have := List.getElem?_eq_getElem hlt
          rw [this] at h; exact Option.some.inj h
        rw [this]
      have h0 : arr = arr.take i ++ arr.drop i := (List.take_append_drop i arr).symm
      rw [h1, h2, h3] at h0
      exact h0
    conv => rhs; rw [hsplit]
    simp only [List.map_append, List.map_cons, List.map_map]
    have hid : (List.map ((fun x => x.id) ∘ fun s => ({ id := s.id, num := s.num + 1 } : Slot)) (List.take (t - i) (List.drop i arr)))
        = List.map (fun x => x.id) (List.take (t - i) (List.drop i arr)) := by
      apply List.map_congr_left; intro a _; rfl
    rw [hid]
    apply List.Perm.append_left
    exact (List.perm_middle).symm

theorem rotate_dense (arr : List Slot) (i t : Nat) (hi : i ≤ t) (hd : Dense arr) : Dense (rotate arr i t) := by
  unfold rotate
  cases h : arr[t]? with
  | none => exact hd
  | some tgt =>
    simp only
    have hlt : t < arr.length := by
      rcases Nat.lt_or_ge t arr.length with h' | h'
      · exact h'
      · rw [List.getElem?_eq_none h'] at h; cases h
    intro k s hk
    have hli : (arr.take i).length = i := by rw [List.length_take]; omega
    by_cases h1 : k < i
    · rw [List.getElem?_append_left (by omega)] at hk
      rw [List.getElem?_take_of_lt h1] at hk
      exact hd k s hk
    · rw [List.getElem?_append_right (by omega), hli] at hk
      by_cases h2 : k = i
      · subst h2
        simp only [Nat.sub_self, List.getElem?_cons_zero, Option.some.injEq] at hk
        rw [← hk]
      · obtain ⟨m, hm⟩ : ∃ m, k - i = m + 1 := ⟨k - i - 1, by omega⟩
        rw [hm] at hk
        simp only [List.getElem?_cons_succ] at hk
        have hlm : (((arr.drop i).take (t - i)).map (fun s => ({ id := s.id, num := s.num + 1 } : Slot))).length = t - i := by
          rw [List.length_map, List.length_take, List.length_drop]; omega
        by_cases h3 : m < t - i
        · rw [List.getElem?_append_left (by omega), List.getElem?_map, List.getElem?_take_of_lt h3, List.getElem?_drop] at hk
          cases hx : arr[i + m]? with
          | none => rw [hx] at hk; simp at hk
          | some x =>
            rw [hx] at hk
            simp only [Option.map_some, Option.some.injEq] at hk
            have := hd (i + m) x hx
            rw [← hk]; simp only; omega
        · rw [List.getElem?_append_right (by omega), hlm, List.getElem?_drop] at hk
          have := hd _ s hk
          omega

theorem reorderDir_spec : ∀ (links : List Nat) (arr : List Slot) (i : Nat), Dense arr →
    Dense (reorderDir links arr i).1 ∧ ((reorderDir links arr i).1.map (·.id)).Perm (arr.map (·.id)) ∧ i ≤ (reorderDir links arr i).2 := by
  intro links
  induction links with
  | nil => intro arr i hd; exact ⟨hd, List.Perm.refl _, Nat.le_refl _⟩
  | cons t rest ih =>
    intro arr i hd
    unfold reorderDir
    cases hf : arr.find? (·.id == t) with
    | none => exact ih arr i hd
    | some s =>
      simp only
      by_cases hle : s.num - 1 ≤ i
      · rw [if_pos hle]; exact ih arr i hd
      · rw [if_neg hle]
        obtain ⟨a, b, c⟩ := ih (rotate arr i (s.num - 1)) (i + 1) (rotate_dense arr i _ (by omega) hd)
        exact ⟨a, b.trans (rotate_ids arr i _ (by omega)), by omega⟩

theorem reorderGo_spec (linksOf : Nat → Option (List Nat)) : ∀ (f : Nat) (arr : List Slot) (i : Nat), Dense arr →
    Dense (reorderGo linksOf f arr i) ∧ ((reorderGo linksOf f arr i).map (·.id)).Perm (arr.map (·.id)) := by
  intro f
  induction f with
  | zero => intro arr i hd; exact ⟨hd, List.Perm.refl _⟩
  | succ f ih =>
    intro arr i hd
    unfold reorderGo
    cases h : arr[i]? with
    | none => exact ⟨hd, List.Perm.refl _⟩
    | some s =>
      simp only
      cases hl : linksOf s.id with
      | none => exact ih arr (i + 1) hd
      | some links =>
        simp only
        obtain ⟨a, b, _⟩ := reorderDir_spec links arr i hd
        obtain ⟨c, d⟩ := ih (reorderDir links arr i).1 ((reorderDir links arr i).2 + 1) a
        exact ⟨c, d.trans b⟩

theorem initialSlots_dense (n : Nat) : Dense (initialSlots n) := by
  intro k s hk
  unfold initialSlots at hk
  rw [List.getElem?_map] at hk
  cases h : (List.range' 1 n)[k]? with
  | none => rw [h] at hk; simp at hk
  | some v =>
    rw [h] at hk
    simp only [Option.map_some, Option.some.injEq] at hk
    have hv : v = 1 + k := by
      have hlt : k < (List.range' 1 n).length := by
        rcases Nat.lt_or_ge k (List.range' 1 n).length with h' | h'
        · exact h'
        · rw [List.getElem?_eq_none h'] at h; cases h
      rw [List.getElem?_eq_getElem hlt, List.getElem_range'] at h
      simp only [Option.some.injEq] at h; omega
    rw [← hk]; simp only; omega

theorem dense_nums : ∀ (arr : List Slot) (a : Nat), (∀ k s, arr[k]? = some s → s.num = a + k) →
    arr.map (·.num) = List.range' a arr.length := by
  intro arr
  induction arr with
  | nil => intro a _; rfl
  | cons x xs ih =>
    intro a h
    simp only [List.map_cons, List.length_cons, List.range'_succ]
    have h0 := h 0 x (by simp)
    rw [ih (a + 1) (fun k s hk => by have := h (k + 1) s (by simpa using hk); omega)]
    simp only [Nat.add_zero] at h0
    rw [h0]

/-- after `reorder_hard_links`: slot `k` carries inode number `k + 1`, and the slots hold exactly the nodes the DFS
numbered (each once) -/
theorem postProcess_spec (cs : List Tree) :
    (postProcess cs).map (·.num) = List.range' 1 (numberRoot cs).2 ∧
    ((postProcess cs).map (·.id)).Perm (numsT (numberRoot cs).1) := by
  unfold postProcess
  simp only
  obtain ⟨hd, hp⟩ := reorderGo_spec
    (fun id => ((dirsT (filesT (numberRoot cs).1) (numberRoot cs).1).find? (·.1 == id)).map (·.2))
    ((numberRoot cs).2 + 1) (initialSlots (numberRoot cs).2) 0 (initialSlots_dense _)
  have hids : (initialSlots (numberRoot cs).2).map (·.id) = List.range' 1 (numberRoot cs).2 := by
    unfold initialSlots
    rw [List.map_map]
    have : ((fun (x : Slot) => x.id) ∘ fun n => ({ id := n, num := n } : Slot)) = id := rfl
    rw [this, List.map_id]
  have hlen := hp.length_eq
  rw [hids] at hp
  simp only [List.length_map, hids, List.length_range'] at hlen
  refine ⟨?_, hp.trans (numberRoot_perm cs).symm⟩
  have := dense_nums _ 1 (fun k s hk => by have := hd k s hk; omega)
  rw [this, hlen]

end Sqfs.Numbering
