/-
Stored blocks are never empty (needs `0 < B` and the codec contract), so a file that owns stored blocks occupies a
non-empty range of the data area.
-/
import Sqfs.Proofs.PackContent2
namespace Sqfs.Pack

theorem encode_data_pos (P : Params) (hc : P.codec.Ok) (dc : Bool) (ck : UInt32) (d : Bytes) (hd : 0 < d.length) :
    0 < (encode P dc ck d).data.length := by
  unfold encode
  by_cases h : dc = true
  · simpa [h] using hd
  · simp only [h, Bool.false_eq_true, if_false]
    cases hz : P.codec.cmp d with
    | none => simpa using hd
    | some z => exact (hc.smaller d z hz).1

theorem dataBlocksOf_pos (B : Nat) (hB : 0 < B) (f : InFile) : ∀ d ∈ dataBlocksOf B f, 0 < d.length := by
  intro d hd
  unfold dataBlocksOf at hd
  rcases List.mem_append.1 hd with hd | hd
  · unfold fullBlocks at hd
    obtain ⟨i, hi, rfl⟩ := List.mem_map.1 hd
    have hi' : i < f.data.length / B := by simpa using hi
    have : (i + 1) * B ≤ f.data.length :=
      Nat.le_trans (Nat.mul_le_mul_right B hi') (Nat.div_mul_le_self _ _)
    rw [blockAt_length B f.data i this]; exact hB
  · split at hd
    · rename_i hcond
      simp only [List.mem_singleton] at hd
      subst hd
      rw [tailOf_length]
      simp only [Bool.and_eq_true, decide_eq_true_eq] at hcond
      exact hcond.1
    · simp at hd

theorem dataWords_pos (P : Params) (hB : 0 < P.B) (hc : P.codec.Ok) (f : InFile) :
    ∀ n raw, Word.stored n raw ∈ dataWords P f → 0 < n := by
  intro n raw hw
  unfold dataWords at hw
  obtain ⟨d, hd, he⟩ := List.mem_map.1 hw
  have hpos := dataBlocksOf_pos P.B hB f d hd
  unfold workData at he
  split at he
  · cases he
  · simp only [Worked.word, Stored.word, Word.stored.injEq] at he
    rw [← he.1]
    exact encode_data_pos P hc _ _ d hpos

theorem words_pos (P : Params) (hB : 0 < P.B) (hc : P.codec.Ok) (σ : State) (f : InFile) :
    ∀ n raw, Word.stored n raw ∈ (packFile P σ f).2.words → 0 < n := by
  intro n raw hw
  by_cases hne : f.data = []
  · rw [packFile_empty P σ f hne] at hw; simp at hw
  · rcases (packFile_shape P σ f hne _ rfl).2 with ⟨_, h, _⟩ | ⟨_, _, _, h, _⟩ | ⟨_, h, _⟩
    · rw [h] at hw; exact dataWords_pos P hB hc f n raw hw
    · rw [h] at hw
      rcases List.mem_append.1 hw with hw | hw
      · exact dataWords_pos P hB hc f n raw hw
      · simp at hw
    · rw [h] at hw; exact dataWords_pos P hB hc f n raw hw

theorem diskBytes_pos (ws : List Word) (hpos : ∀ n raw, Word.stored n raw ∈ ws → 0 < n) (n : Nat) (raw : Bool)
    (hm : Word.stored n raw ∈ ws) : 0 < diskBytes ws := by
  induction ws with
  | nil => simp at hm
  | cons w t ih =>
    simp only [diskBytes, List.map_cons, List.sum_cons]
    rcases List.mem_cons.1 hm with rfl | hm
    · have := hpos n raw (by simp)
      simp only [Word.diskSize]; omega
    · have := ih (fun n raw h => hpos n raw (List.mem_cons_of_mem _ h)) hm
      simp only [diskBytes] at this
      omega

end Sqfs.Pack
