import Sqfs.Proofs.ObjView
/-! `sqfs_copy` followed by the release of the copy restores the heap exactly (objects with their reference counts,
buffers with their contents). -/
namespace Sqfs.Obj

/-- what `sqfs_drop` can do to a heap: objects disappear or change their reference count, buffers disappear -/
structure Shrinks (h h' : Heap) : Prop where
  objs : ∀ j, h'.objs j = none ∨ (h'.objs j).map Obj.erase = (h.objs j).map Obj.erase
  bufs : ∀ b, h'.bufs b = none ∨ h'.bufs b = h.bufs b
  nobj : h'.nobj = h.nobj
  nbuf : h'.nbuf = h.nbuf

theorem Shrinks.refl (h : Heap) : Shrinks h h := ⟨fun _ => Or.inr rfl, fun _ => Or.inr rfl, rfl, rfl⟩

theorem Shrinks.trans {h h1 h2 : Heap} (a : Shrinks h h1) (b : Shrinks h1 h2) : Shrinks h h2 := by
  refine ⟨?_, ?_, by rw [b.nobj, a.nobj], by rw [b.nbuf, a.nbuf]⟩
  · intro j
    rcases b.objs j with h2n | h2e
    · exact Or.inl h2n
    · rcases a.objs j with h1n | h1e
      · left
        rw [h1n] at h2e
        cases hv : h2.objs j with
        | none => rfl
        | some _ => rw [hv] at h2e; simp at h2e
      · right; rw [h2e, h1e]
  · intro bb
    rcases b.bufs bb with h2n | h2e
    · exact Or.inl h2n
    · rcases a.bufs bb with h1n | h1e
      · left; rw [h2e, h1n]
      · right; rw [h2e, h1e]

theorem Shrinks.fail (h : Heap) (c : Crash) : Shrinks h (h.fail c) := by
  unfold Heap.fail; split
  · exact Shrinks.refl _
  · exact ⟨fun _ => Or.inr rfl, fun _ => Or.inr rfl, rfl, rfl⟩

theorem Shrinks.freeBuf (h : Heap) (b : Nat) : Shrinks h (Sqfs.Obj.freeBuf h b) := by
  unfold Sqfs.Obj.freeBuf
  split
  · exact Shrinks.refl _
  · split
    · exact Shrinks.fail _ _
    · refine ⟨fun _ => Or.inr rfl, ?_, rfl, rfl⟩
      intro b'
      by_cases hb : b' = b
      · left; subst hb; simp
      · right; simp [upd, hb]

theorem Shrinks.freeObj (h : Heap) (x : Nat) : Shrinks h (Sqfs.Obj.freeObj h x) := by
  unfold Sqfs.Obj.freeObj
  split
  · exact Shrinks.refl _
  · refine ⟨?_, fun _ => Or.inr rfl, rfl, rfl⟩
    intro j
    by_cases hj : j = x
    · left; subst hj; simp
    · right; simp [upd, hj]

theorem Shrinks.foldl {α : Type} (f : Heap → α → Heap) (hf : ∀ h a, Shrinks h (f h a)) : ∀ (l : List α) (h : Heap), Shrinks h (l.foldl f h) := by
  intro l
  induction l with
  | nil => intro h; exact Shrinks.refl _
  | cons a t ih => intro h; exact (hf h a).trans (ih (f h a))

theorem Shrinks.drop : ∀ (n : Nat) (h : Heap) (x : Nat), Shrinks h (Sqfs.Obj.drop n h x) := by
  intro n
  induction n with
  | zero => intro h x; exact Shrinks.fail _ _
  | succ n ih =>
    intro h x
    rw [Sqfs.Obj.drop]
    split
    · exact Shrinks.refl _
    · split
      · exact Shrinks.fail _ _
      · rename_i o ho
        split
        · split
          · refine ((Shrinks.foldl _ ?_ o.refs h).trans (Shrinks.foldl _ ?_ o.bufs _)).trans (Shrinks.freeObj _ _)
            · intro h' r
              cases r with
              | none => exact Shrinks.refl _
              | some r => exact ih h' r
            · intro h' s
              cases s with
              | none => exact Shrinks.refl _
              | some b => exact Shrinks.freeBuf h' b
          · exact Shrinks.fail _ _
        · refine ⟨?_, fun _ => Or.inr rfl, rfl, rfl⟩
          intro j
          by_cases hj : j = x
          · right; subst hj; simp [ho, Obj.erase]
          · right; simp [upd, hj]

theorem sumTo_pos_exists {n : Nat} {f : Nat → Nat} (h : sumTo n f ≠ 0) : ∃ i, i < n ∧ f i ≠ 0 := by
  by_cases hex : ∃ i, i < n ∧ f i ≠ 0
  · exact hex
  · exfalso
    apply h
    apply sumTo_zero
    intro i hi
    by_cases hfi : f i = 0
    · exact hfi
    · exact absurd ⟨i, hi, hfi⟩ hex

/-- a positive slot count has a witness: a live object outside `Z` holding the id in one of its slots -/
theorem slotCount_pos_exists (sel : Obj → List (Option Nat)) {h : Heap} {Z : List Nat} {x : Nat} (hp : slotCount sel h Z x ≠ 0) :
    ∃ y oy, y < h.nobj ∧ y ∉ Z ∧ h.objs y = some oy ∧ some x ∈ sel oy := by
  obtain ⟨y, hy, hne⟩ := sumTo_pos_exists hp
  unfold slotAt at hne
  by_cases hz : y ∈ Z
  · simp [hz] at hne
  · simp only [hz, if_false] at hne
    cases hv : h.objs y with
    | none => simp [hv] at hne
    | some oy =>
      simp only [hv] at hne
      exact ⟨y, oy, hy, hz, hv, List.count_pos_iff.mp (Nat.pos_of_ne_zero hne)⟩

theorem erase_rc_eq {a b : Obj} (he : a.erase = b.erase) (hr : a.rc = b.rc) : a = b := by
  cases a; cases b
  simp only [Obj.erase, Obj.mk.injEq] at he
  simp only at hr
  simp [he, hr]

theorem map_erase_some {a : Option Obj} {b : Obj} (h : a.map Obj.erase = (some b).map Obj.erase) :
    ∃ a', a = some a' ∧ a'.erase = b.erase := by
  cases a with
  | none => simp at h
  | some a' => exact ⟨a', rfl, by simpa using h⟩

/-- what any mixture of allocations, grabs, copies, drops and frees can do to the cells that existed before: an old object
is gone or is what it was up to its reference count, an old buffer is gone or is what it was; ids only grow -/
structure Frame (h h' : Heap) : Prop where
  nobj : h.nobj ≤ h'.nobj
  nbuf : h.nbuf ≤ h'.nbuf
  objs : ∀ j, j < h.nobj → h'.objs j = none ∨ (h'.objs j).map Obj.erase = (h.objs j).map Obj.erase
  bufs : ∀ b, b < h.nbuf → h'.bufs b = none ∨ h'.bufs b = h.bufs b

theorem Frame.refl (h : Heap) : Frame h h := ⟨Nat.le_refl _, Nat.le_refl _, fun _ _ => Or.inr rfl, fun _ _ => Or.inr rfl⟩

theorem Frame.trans {h h1 h2 : Heap} (a : Frame h h1) (b : Frame h1 h2) : Frame h h2 := by
  refine ⟨Nat.le_trans a.nobj b.nobj, Nat.le_trans a.nbuf b.nbuf, ?_, ?_⟩
  · intro j hj
    rcases b.objs j (Nat.lt_of_lt_of_le hj a.nobj) with h2n | h2e
    · exact Or.inl h2n
    · rcases a.objs j hj with h1n | h1e
      · left
        rw [h1n] at h2e
        cases hv : h2.objs j with
        | none => rfl
        | some _ => rw [hv] at h2e; simp at h2e
      · right; rw [h2e, h1e]
  · intro bb hbb
    rcases b.bufs bb (Nat.lt_of_lt_of_le hbb a.nbuf) with h2n | h2e
    · exact Or.inl h2n
    · rcases a.bufs bb hbb with h1n | h1e
      · left; rw [h2e, h1n]
      · right; rw [h2e, h1e]

theorem Frame.of_shrinks {h h' : Heap} (hk : Shrinks h h') : Frame h h' :=
  ⟨Nat.le_of_eq hk.nobj.symm, Nat.le_of_eq hk.nbuf.symm, fun j _ => hk.objs j, fun b _ => hk.bufs b⟩

theorem Frame.of_slotsOk {h h' : Heap} (hs : SlotsOk h h') : Frame h h' :=
  ⟨hs.nobj, hs.nbuf, fun j hj => Or.inr (hs.objsOld j hj), fun b hb => Or.inr (hs.bufsOld b hb)⟩

/-- a heap reached through allocations, grabs, copies, drops and frees (`Frame`) that is balanced for the same user
references as before is the heap it was -/
theorem restore_of_frame {h h'' : Heap} {U : Nat → Nat} (hb : Bal h U [] [] []) (hb'' : Bal h'' U [] [] [])
    (hf : Frame h h'') : h''.objs = h.objs ∧ h''.bufs = h.bufs := by
  have hnn : h.nobj ≤ h''.nobj := hf.nobj
  -- (0) old cells: gone, or as they were up to the reference count
  have fr : ∀ j, j < h.nobj → h''.objs j = none ∨ (h''.objs j).map Obj.erase = (h.objs j).map Obj.erase := hf.objs
  have frb : ∀ b, b < h.nbuf → h''.bufs b = none ∨ h''.bufs b = h.bufs b := hf.bufs
  have hdeadU : ∀ z, h.nobj ≤ z → U z = 0 := by
    intro z hz
    have : h.objs z = none := by
      cases hv : h.objs z with
      | none => rfl
      | some _ => have := hb.bound z (by simp [hv]); omega
    exact (hb.dead z (Or.inl this)).1
  -- (1) every object made by the copy is gone
  have newDead : ∀ k z, h.nobj ≤ z → h''.nobj ≤ z + k → h''.objs z = none := by
    intro k
    induction k with
    | zero =>
      intro z _ hz
      cases hv : h''.objs z with
      | none => rfl
      | some _ => have := hb''.bound z (by simp [hv]); omega
    | succ k ih =>
      intro z hz1 hz2
      cases hv : h''.objs z with
      | none => rfl
      | some oz =>
        exfalso
        obtain ⟨_, _, h3, h4, _, _⟩ := hb''.live z oz hv (by simp)
        rw [hdeadU z hz1] at h3
        simp only [List.count_nil, Nat.zero_add] at h3
        have hne : refCount h'' [] z ≠ 0 := by omega
        obtain ⟨y, oy, _, _, hoy, hmem⟩ := slotCount_pos_exists _ hne
        have hlt := (hb''.live y oy hoy (by simp)).2.2.2.2.1 z hmem
        have := ih y (by omega) (by omega)
        rw [hoy] at this; cases this
  -- (2) every object that was live is still live
  have oldLive : ∀ k x, h.nobj ≤ x + k → (h.objs x).isSome → (h''.objs x).isSome := by
    intro k
    induction k with
    | zero =>
      intro x hx hl
      have := hb.bound x hl; omega
    | succ k ih =>
      intro x hx hl
      obtain ⟨ox, hox⟩ := Option.isSome_iff_exists.mp hl
      cases hv : h''.objs x with
      | some _ => rfl
      | none =>
        exfalso
        have hU := (hb''.dead x (Or.inl hv)).1
        obtain ⟨_, _, h3, h4, _, _⟩ := hb.live x ox hox (by simp)
        rw [hU] at h3
        simp only [List.count_nil, Nat.zero_add] at h3
        have hne : refCount h [] x ≠ 0 := by omega
        obtain ⟨y, oy, hyn, _, hoy, hmem⟩ := slotCount_pos_exists _ hne
        have hlt := (hb.live y oy hoy (by simp)).2.2.2.2.1 x hmem
        have hyl := ih y (by omega) (by simp [hoy])
        obtain ⟨oy'', hoy''⟩ := Option.isSome_iff_exists.mp hyl
        rcases fr y hyn with hn | he
        · rw [hoy''] at hn; cases hn
        · rw [hoy'', hoy] at he
          simp only [Option.map_some, Option.some.injEq] at he
          have hr : oy''.refs = oy.refs := (congrArg Obj.refs he : oy''.erase.refs = oy.erase.refs)
          have := hb''.ref_live hoy'' (by simp) (hr ▸ hmem)
          rw [hv] at this; cases this
  have oldLive' : ∀ x, (h.objs x).isSome → (h''.objs x).isSome := fun x hl => oldLive h.nobj x (by omega) hl
  have newDead' : ∀ z, h.nobj ≤ z → h''.objs z = none := fun z hz => newDead h''.nobj z hz (by omega)
  -- old live objects keep all fields but the count
  have oldErase : ∀ x ox, h.objs x = some ox → ∃ ox'', h''.objs x = some ox'' ∧ ox''.erase = ox.erase := by
    intro x ox hox
    have hxn := hb.bound x (by simp [hox])
    obtain ⟨ox'', hox''⟩ := Option.isSome_iff_exists.mp (oldLive' x (by simp [hox]))
    rcases fr x hxn with hn | he
    · rw [hox''] at hn; cases hn
    · rw [hox'', hox] at he
      exact ⟨ox'', hox'', by simpa using he⟩
  have oldNone : ∀ x, h.objs x = none → h''.objs x = none := by
    intro x hx
    by_cases hxn : x < h.nobj
    · rcases fr x hxn with hn | he
      · exact hn
      · rw [hx] at he
        cases hv : h''.objs x with
        | none => rfl
        | some _ => rw [hv] at he; simp at he
    · exact newDead' x (by omega)
  -- slot counts agree
  have cnt : ∀ (sel : Obj → List (Option Nat)), (∀ a b : Obj, a.erase = b.erase → sel a = sel b) → ∀ x,
      slotCount sel h'' [] x = slotCount sel h [] x := by
    intro sel hsel x
    unfold slotCount
    rw [sumTo_extend hnn (fun j hj1 _ => by simp [slotAt, newDead' j hj1])]
    apply sumTo_congr
    intro j _
    unfold slotAt
    simp only [List.not_mem_nil, if_false]
    cases hv : h.objs j with
    | none => simp [oldNone j hv]
    | some oj =>
      obtain ⟨oj'', h1, h2⟩ := oldErase j oj hv
      simp [h1, hsel _ _ h2]
  have hrefs : ∀ x, refCount h'' [] x = refCount h [] x :=
    cnt _ (fun a b e => (congrArg Obj.refs e : a.erase.refs = b.erase.refs))
  have hbufs : ∀ x, bufCount h'' [] x = bufCount h [] x :=
    cnt _ (fun a b e => (congrArg Obj.bufs e : a.erase.bufs = b.erase.bufs))
  constructor
  · funext x
    cases hv : h.objs x with
    | none => exact oldNone x hv
    | some ox =>
      obtain ⟨ox'', h1, h2⟩ := oldErase x ox hv
      rw [h1]
      congr 1
      apply erase_rc_eq h2
      have r1 := (hb.live x ox hv (by simp)).2.2.1
      have r2 := (hb''.live x ox'' h1 (by simp)).2.2.1
      rw [r1, r2, hrefs x]
  · funext b
    cases hv : h.bufs b with
    | none =>
      cases hv'' : h''.bufs b with
      | none => rfl
      | some bf =>
        exfalso
        have := hb''.bufLive b (by simp [hv''])
        rw [hbufs b] at this
        have := (hb.bufDead b hv).2
        simp only [List.count_nil, Nat.zero_add] at *
        omega
    | some bf =>
      have hbn := hb.bufBound b (by simp [hv])
      have hlive'' : (h''.bufs b).isSome := by
        cases hv'' : h''.bufs b with
        | some _ => rfl
        | none =>
          exfalso
          have := (hb''.bufDead b hv'').2
          rw [hbufs b] at this
          have := hb.bufLive b (by simp [hv])
          simp only [List.count_nil, Nat.zero_add] at *
          omega
      rcases frb b hbn with hn | he
      · rw [hn] at hlive''; cases hlive''
      · rw [he, hv]

/-- a heap that was extended by a copy (`SlotsOk`) and then shrunk by drops (`Shrinks`), and is balanced for the same
user references as before, is the heap it was -/
theorem restore_of_frames {h h' h'' : Heap} {U : Nat → Nat} (hb : Bal h U [] [] []) (hb'' : Bal h'' U [] [] [])
    (hs : SlotsOk h h') (hk : Shrinks h' h'') : h''.objs = h.objs ∧ h''.bufs = h.bufs :=
  restore_of_frame hb hb'' ((Frame.of_slotsOk hs).trans (Frame.of_shrinks hk))

end Sqfs.Obj
