/-
Helper lemmas about the skeleton walk `runSites` (C13).
-/
import Sqfs.Model.FailStop
import Sqfs.Spec.FailStop
namespace Sqfs.FailStop

/-- trace extension by a site that succeeds -/
def okStep (c : Cfg) (t : Trace) (s : Site) : Trace :=
  effect c s { t with msgs := t.msgs ++ says c.quiet s, ran := t.ran ++ [s], ops := t.ops ++ emits s }

def okAll (c : Cfg) (sites : List Site) (t : Trace) : Trace := sites.foldl (okStep c) t

/-- trace extension by a site whose failure is reported -/
def failAt (c : Cfg) (t : Trace) (s : Site) : Trace :=
  { t with msgs := t.msgs ++ says c.quiet s, ran := t.ran ++ [s], failed := some s }

/-! `effect` touches only the working directory and the remembered name -/
@[simp] theorem effect_ops (c : Cfg) (s : Site) (t : Trace) : (effect c s t).ops = t.ops := by
  unfold effect; split <;> rfl
@[simp] theorem effect_ran (c : Cfg) (s : Site) (t : Trace) : (effect c s t).ran = t.ran := by
  unfold effect; split <;> rfl
@[simp] theorem effect_msgs (c : Cfg) (s : Site) (t : Trace) : (effect c s t).msgs = t.msgs := by
  unfold effect; split <;> rfl
@[simp] theorem effect_failed (c : Cfg) (s : Site) (t : Trace) : (effect c s t).failed = t.failed := by
  unfold effect; split <;> rfl
@[simp] theorem effect_swallowed (c : Cfg) (s : Site) (t : Trace) : (effect c s t).swallowed = t.swallowed := by
  unfold effect; split <;> rfl

/-- no fault among the first `n` script entries -/
def allFalse (n : Nat) (fs : List Bool) : Prop := ∀ i, i < n → fs.getD i false = false

/-- index of the first fault among the first `n` script entries -/
def firstTrue : Nat → List Bool → Option Nat
  | 0, _ => none
  | _ + 1, [] => none
  | _ + 1, true :: _ => some 0
  | n + 1, false :: fs => (firstTrue n fs).map (· + 1)

theorem allFalse_nil (n : Nat) : allFalse n [] := by
  intro i _; simp

theorem firstTrue_none_iff (n : Nat) (fs : List Bool) : firstTrue n fs = none ↔ allFalse n fs := by
  induction n generalizing fs with
  | zero => simp [firstTrue, allFalse]
  | succ n ih =>
    cases fs with
    | nil => simp [firstTrue, allFalse]
    | cons b fs =>
      cases b with
      | true =>
        simp only [firstTrue, allFalse]
        constructor
        · intro h; cases h
        · intro h; have := h 0 (Nat.succ_pos n); simp at this
      | false =>
        simp only [firstTrue, Option.map_eq_none_iff, ih, allFalse]
        constructor
        · intro h i hi
          cases i with
          | zero => simp
          | succ i => simpa using h i (Nat.lt_of_succ_lt_succ hi)
        · intro h i hi
          simpa using h (i + 1) (Nat.succ_lt_succ hi)

theorem firstTrue_some (n : Nat) (fs : List Bool) (k : Nat) :
    firstTrue n fs = some k ↔ (k < n ∧ allFalse k fs ∧ fs.getD k false = true) := by
  induction n generalizing fs k with
  | zero => simp [firstTrue]
  | succ n ih =>
    cases fs with
    | nil => simp [firstTrue]
    | cons b fs =>
      cases b with
      | true =>
        simp only [firstTrue, Option.some.injEq]
        constructor
        · intro h; subst h; exact ⟨Nat.succ_pos n, fun i hi => absurd hi (Nat.not_lt_zero i), by simp⟩
        · intro ⟨_, h2, _⟩
          cases k with
          | zero => rfl
          | succ k => have := h2 0 (Nat.succ_pos k); simp at this
      | false =>
        simp only [firstTrue, Option.map_eq_some_iff]
        constructor
        · intro ⟨a, ha, hk⟩
          subst hk
          obtain ⟨h1, h2, h3⟩ := (ih fs a).1 ha
          refine ⟨Nat.succ_lt_succ h1, ?_, by simpa using h3⟩
          intro i hi
          cases i with
          | zero => simp
          | succ i => simpa using h2 i (Nat.lt_of_succ_lt_succ hi)
        · intro ⟨h1, h2, h3⟩
          cases k with
          | zero => simp at h3
          | succ k =>
            refine ⟨k, (ih fs k).2 ⟨Nat.lt_of_succ_lt_succ h1, ?_, by simpa using h3⟩, rfl⟩
            intro i hi
            simpa using h2 (i + 1) (Nat.succ_lt_succ hi)

/-! ### facts that hold for every variant -/

/-- A phase that succeeds reported no failure. -/
theorem runSites_true_failed (v : Variant) (c : Cfg) :
    ∀ (sites : List Site) (skip : Nat) (fs : List Bool) (t : Trace) (fs' : List Bool) (t' : Trace),
      runSites v c skip sites fs t = (true, fs', t') → t'.failed = t.failed := by
  intro sites
  induction sites with
  | nil => intro skip fs t fs' t' h; cases skip <;> simp [runSites] at h <;> rw [← h.2]
  | cons s rest ih =>
    intro skip fs t fs' t' h
    cases skip with
    | succ k => simp only [runSites] at h; exact ih k fs t fs' t' h
    | zero =>
      simp only [runSites] at h
      split at h
      · split at h
        · simp at h
        · have := ih _ _ _ _ _ h; simpa using this
      · have := ih _ _ _ _ _ h; simpa using this

/-- A phase that fails reports one of its own sites. -/
theorem runSites_false_failed (v : Variant) (c : Cfg) :
    ∀ (sites : List Site) (skip : Nat) (fs : List Bool) (t : Trace) (fs' : List Bool) (t' : Trace),
      runSites v c skip sites fs t = (false, fs', t') → ∃ s, s ∈ sites ∧ t'.failed = some s := by
  intro sites
  induction sites with
  | nil => intro skip fs t fs' t' h; cases skip <;> simp [runSites] at h
  | cons s rest ih =>
    intro skip fs t fs' t' h
    cases skip with
    | succ k =>
      simp only [runSites] at h
      obtain ⟨x, hx, hf⟩ := ih k fs t fs' t' h
      exact ⟨x, List.mem_cons_of_mem _ hx, hf⟩
    | zero =>
      simp only [runSites] at h
      split at h
      · split at h
        · simp only [Prod.mk.injEq, true_and] at h
          exact ⟨s, List.mem_cons_self, by rw [← h.2]⟩
        · obtain ⟨x, hx, hf⟩ := ih _ _ _ _ _ h
          exact ⟨x, List.mem_cons_of_mem _ hx, hf⟩
      · obtain ⟨x, hx, hf⟩ := ih _ _ _ _ _ h
        exact ⟨x, List.mem_cons_of_mem _ hx, hf⟩

/-- A phase that fails reports one of its own sites, and that site is the last one the run executed. -/
theorem runSites_false_failed_last (v : Variant) (c : Cfg) :
    ∀ (sites : List Site) (skip : Nat) (fs : List Bool) (t : Trace) (fs' : List Bool) (t' : Trace),
      runSites v c skip sites fs t = (false, fs', t') →
        ∃ s, s ∈ sites ∧ t'.failed = some s ∧ t'.ran.getLast? = some s := by
  intro sites
  induction sites with
  | nil => intro skip fs t fs' t' h; cases skip <;> simp [runSites] at h
  | cons s rest ih =>
    intro skip fs t fs' t' h
    cases skip with
    | succ k =>
      simp only [runSites] at h
      obtain ⟨x, hx, hf⟩ := ih k fs t fs' t' h
      exact ⟨x, List.mem_cons_of_mem _ hx, hf⟩
    | zero =>
      simp only [runSites] at h
      split at h
      · split at h
        · simp only [Prod.mk.injEq, true_and] at h
          exact ⟨s, List.mem_cons_self, by rw [← h.2], by rw [← h.2]; simp⟩
        · obtain ⟨x, hx, hf⟩ := ih _ _ _ _ _ h
          exact ⟨x, List.mem_cons_of_mem _ hx, hf⟩
      · obtain ⟨x, hx, hf⟩ := ih _ _ _ _ _ h
        exact ⟨x, List.mem_cons_of_mem _ hx, hf⟩

/-- Without a fault in reach the walk is the fault-free walk (every variant). -/
theorem runSites_clean (v : Variant) (c : Cfg) :
    ∀ (sites : List Site) (fs : List Bool) (t : Trace), allFalse sites.length fs →
      runSites v c 0 sites fs t = (true, fs.drop sites.length, okAll c sites t) := by
  intro sites
  induction sites with
  | nil => intro fs t _; simp [runSites, okAll]
  | cons s rest ih =>
    intro fs t h
    cases fs with
    | nil =>
      simp only [runSites, List.headD_nil, Bool.false_eq_true, if_false, List.tail_nil]
      rw [ih [] _ (allFalse_nil _)]
      simp [okAll, okStep]
    | cons b fs =>
      have hb : b = false := by simpa using h 0 (Nat.succ_pos _)
      subst hb
      simp only [runSites, List.headD_cons, Bool.false_eq_true, if_false, List.tail_cons]
      rw [ih fs _ (fun i hi => by simpa using h (i + 1) (Nat.succ_lt_succ hi))]
      simp [okAll, okStep]

/-! ### variants in which every result is checked -/

def AllChecked (v : Variant) : Prop := ∀ s, reaction v s = .abort

theorem beforeRealpath_allChecked : AllChecked Variant.beforeRealpath := by
  intro s; cases s <;> simp [reaction, Variant.beforeRealpath]

theorem fixed_allChecked : AllChecked Variant.fixed := by
  intro s; cases s <;> simp [reaction, Variant.fixed]

/-- /repo as it is: every result of the skeleton is tested. -/
theorem current_allChecked : AllChecked Variant.current := by
  intro s; cases s <;> simp [reaction, Variant.current]

/-- Complete description of a walk when every result is checked. -/
theorem runSites_checked {v : Variant} (hA : AllChecked v) (c : Cfg) :
    ∀ (sites : List Site) (fs : List Bool) (t : Trace),
      runSites v c 0 sites fs t =
        match firstTrue sites.length fs with
        | none => (true, fs.drop sites.length, okAll c sites t)
        | some k => (false, fs.drop (k + 1), failAt c (okAll c (sites.take k) t) (sites.getD k default)) := by
  intro sites
  induction sites with
  | nil => intro fs t; simp [runSites, firstTrue, okAll]
  | cons s rest ih =>
    intro fs t
    cases fs with
    | nil =>
      simp only [runSites, List.headD_nil, Bool.false_eq_true, if_false, List.tail_nil, List.length_cons, firstTrue]
      rw [ih [] _]
      have : firstTrue rest.length [] = none := (firstTrue_none_iff _ _).2 (allFalse_nil _)
      rw [this]
      simp [okAll, okStep]
    | cons b fs =>
      cases b with
      | true =>
        simp only [runSites, List.headD_cons, if_true, hA s, List.tail_cons, List.length_cons, firstTrue]
        simp [okAll, failAt]
      | false =>
        simp only [runSites, List.headD_cons, Bool.false_eq_true, if_false, List.tail_cons, List.length_cons, firstTrue]
        rw [ih fs _]
        cases firstTrue rest.length fs with
        | none => simp [okAll, okStep]
        | some k => simp [okAll, okStep]

/-- Sequential composition of phases when every result is checked. -/
theorem runSites_checked_append {v : Variant} (hA : AllChecked v) (c : Cfg) :
    ∀ (a b : List Site) (fs : List Bool) (t : Trace),
      runSites v c 0 (a ++ b) fs t =
        match runSites v c 0 a fs t with
        | (true, fs', t') => runSites v c 0 b fs' t'
        | r => r := by
  intro a
  induction a with
  | nil => intro b fs t; simp [runSites]
  | cons s rest ih =>
    intro b fs t
    simp only [List.cons_append, runSites, hA s]
    split
    · rfl
    · exact ih b _ _

theorem okAll_ops (c : Cfg) (sites : List Site) (t : Trace) :
    (okAll c sites t).ops = t.ops ++ sites.flatMap emits := by
  induction sites generalizing t with
  | nil => simp [okAll]
  | cons s rest ih =>
    simp only [okAll, List.foldl_cons, List.flatMap_cons] at *
    rw [ih]; simp [okStep, List.append_assoc]

theorem okAll_ran (c : Cfg) (sites : List Site) (t : Trace) :
    (okAll c sites t).ran = t.ran ++ sites := by
  induction sites generalizing t with
  | nil => simp [okAll]
  | cons s rest ih =>
    simp only [okAll, List.foldl_cons] at *
    rw [ih]; simp [okStep]

theorem okAll_failed (c : Cfg) (sites : List Site) (t : Trace) :
    (okAll c sites t).failed = t.failed := by
  induction sites generalizing t with
  | nil => simp [okAll]
  | cons s rest ih =>
    simp only [okAll, List.foldl_cons] at *
    rw [ih]; simp [okStep]

theorem take_succ_getD {α : Type} (P : List α) (k : Nat) (d : α) (hk : k < P.length) :
    P.take (k + 1) = P.take k ++ [P.getD k d] := by
  rw [List.take_add_one]
  simp [List.getD_eq_getElem?_getD, List.getElem?_eq_getElem hk]

/-! ### the working directory and the remembered output name -/

theorem effect_absName (c : Cfg) (s : Site) (t : Trace) : t.absName = true → (effect c s t).absName = true := by
  intro h; unfold effect; split <;> simp [h]

theorem effect_cwd (c : Cfg) (s : Site) (t : Trace) : s ≠ .chdirPack → (effect c s t).cwd = t.cwd := by
  intro h; unfold effect; split <;> simp_all

/-- Once `main` holds the absolute output name it keeps it (every variant, every phase, every script). -/
theorem runSites_absName (v : Variant) (c : Cfg) :
    ∀ (sites : List Site) (skip : Nat) (fs : List Bool) (t : Trace) (ok : Bool) (fs' : List Bool) (t' : Trace),
      runSites v c skip sites fs t = (ok, fs', t') → t.absName = true → t'.absName = true := by
  intro sites
  induction sites with
  | nil => intro skip fs t ok fs' t' h ha; cases skip <;> simp [runSites] at h <;> rw [← h.2.2] <;> exact ha
  | cons s rest ih =>
    intro skip fs t ok fs' t' h ha
    cases skip with
    | succ k => simp only [runSites] at h; exact ih k fs t ok fs' t' h ha
    | zero =>
      simp only [runSites] at h
      split at h
      · split at h
        · simp only [Prod.mk.injEq] at h
          rw [← h.2.2]; exact ha
        · exact ih _ _ _ _ _ _ h ha
      · exact ih _ _ _ _ _ _ h (effect_absName _ _ _ ha)

/-- A phase that does not contain `chdir(opt->packdir)` leaves the process where it is. -/
theorem runSites_cwd (v : Variant) (c : Cfg) :
    ∀ (sites : List Site) (skip : Nat) (fs : List Bool) (t : Trace) (ok : Bool) (fs' : List Bool) (t' : Trace),
      Site.chdirPack ∉ sites → runSites v c skip sites fs t = (ok, fs', t') → t'.cwd = t.cwd := by
  intro sites
  induction sites with
  | nil => intro skip fs t ok fs' t' _ h; cases skip <;> simp [runSites] at h <;> rw [← h.2.2]
  | cons s rest ih =>
    intro skip fs t ok fs' t' hm h
    have hs : s ≠ .chdirPack := fun e => hm (by simp [e])
    have hr : Site.chdirPack ∉ rest := fun e => hm (List.mem_cons_of_mem _ e)
    cases skip with
    | succ k => simp only [runSites] at h; exact ih k fs t ok fs' t' hr h
    | zero =>
      simp only [runSites] at h
      split at h
      · split at h
        · simp only [Prod.mk.injEq] at h
          rw [← h.2.2]
        · have := ih _ _ _ _ _ _ hr h; simpa using this
      · have := ih _ _ _ _ _ _ hr h
        rw [this, effect_cwd _ _ _ hs]

theorem chdirPack_not_mem_packSites (b : Bool) : ∀ (n i : Nat), Site.chdirPack ∉ packSites b n i := by
  intro n
  induction n with
  | zero => intro i; simp [packSites]
  | succ n ih => intro i; cases b <;> simp [packSites, ih]

theorem chdirPack_not_mem_tarSites : ∀ (es : List TarEnt) (i : Nat), Site.chdirPack ∉ tarSites es i := by
  intro es
  induction es with
  | nil => intro i; simp [tarSites]
  | cons e rest ih =>
    intro i
    have := ih (i + 1)
    cases e.link <;> cases e.skipped <;> simp [tarSites, this]

theorem chdirPack_not_mem_pre (c : Cfg) : Site.chdirPack ∉ preSites c := by
  unfold preSites; split <;> simp

theorem chdirPack_not_mem_init (c : Cfg) : Site.chdirPack ∉ initSites c := by
  unfold initSites; cases c.noXattr <;> simp

theorem chdirPack_not_mem_finish (c : Cfg) : Site.chdirPack ∉ finishSites c := by
  unfold finishSites; cases c.noXattr <;> cases c.exportable <;> simp

/-- Without a pack directory `pack_files` does not change directory at all. -/
theorem chdirPack_not_mem_body (v : Variant) (c : Cfg) : c.packDir = false → Site.chdirPack ∉ bodySites v c := by
  intro h
  unfold bodySites
  split
  · have h1 := chdirPack_not_mem_packSites true c.nfiles 0
    have h2 := chdirPack_not_mem_packSites false c.nfiles 0
    cases c.selinux <;> cases c.xattrFile <;> cases c.sortFile <;> cases c.packFile <;> simp_all
  · have := chdirPack_not_mem_tarSites c.entries 0
    simp_all

/-- the name handed to `unlink` designates the output file: it is absolute, or was made absolute, or the process
    never left the directory it started in -/
def Safe (t : Trace) : Prop := t.absName = true ∨ t.cwd = .start

theorem nameResolves_of_safe (c : Cfg) (t : Trace) : Safe t → nameResolves c t = true := by
  intro h
  unfold nameResolves
  rcases h with h | h <;> simp [h]

/-- a phase without `chdir` keeps the name valid -/
theorem safe_phase (v : Variant) (c : Cfg) (sites : List Site) (fs : List Bool) (t : Trace) (ok : Bool) (fs' : List Bool)
    (t' : Trace) (hm : Site.chdirPack ∉ sites) (h : runSites v c 0 sites fs t = (ok, fs', t')) : Safe t → Safe t' := by
  intro hs
  rcases hs with hs | hs
  · exact Or.inl (runSites_absName v c _ _ _ _ _ _ _ h hs)
  · exact Or.inr (by rw [runSites_cwd v c _ _ _ _ _ _ _ hm h]; exact hs)

/-- the body of `main` once it resolves the output name (b5ce20d): the name is made absolute before `pack_files`
    changes directory -/
theorem safe_body_abs (v : Variant) (ha : v.outPathAbsolute = true) (c : Cfg) (fs : List Bool) (t : Trace) (ok : Bool)
    (fs' : List Bool) (t' : Trace)
    (h : runSites v c 0 (bodySites v c) fs t = (ok, fs', t')) : Safe t → Safe t' := by
  intro hs
  cases hp : c.packDir with
  | false => exact safe_phase _ _ _ _ _ _ _ _ (chdirPack_not_mem_body _ _ hp) h hs
  | true =>
    cases ht : c.tool with
    | tar2sqfs =>
      refine safe_phase _ _ _ _ _ _ _ _ ?_ h hs
      have := chdirPack_not_mem_tarSites c.entries 0
      simp [bodySites, ht, this]
    | gensquashfs =>
      simp only [bodySites, ht, hp, ha, Bool.and_self, if_true, List.cons_append,
        List.nil_append] at h
      simp only [runSites] at h
      split at h
      · -- realpath failed: `goto out` from where the process started
        simp only [reaction] at h
        simp only [Prod.mk.injEq] at h
        rw [← h.2.2]
        rcases hs with hs | hs
        · exact Or.inl hs
        · exact Or.inr hs
      · exact Or.inl (runSites_absName _ _ _ _ _ _ _ _ _ h (by simp [effect]))


/-- the script `single k` (one fault, at position `k`) has no fault before `k` … -/
theorem allFalse_single (k : Nat) : allFalse k (single k) := by
  intro i hi; simp [single, List.getD_eq_getElem?_getD, List.getElem?_append, hi]

/-- … and one at `k` -/
theorem single_getD (k : Nat) : (single k).getD k false = true := by
  simp [single, List.getD_eq_getElem?_getD]

/-! ### what the specification's oracle would observe of a model run -/

/-- The observation `Spec.Observed` of a packer run of the model: it cannot crash, exit status 0 or 1, a diagnostic
    iff the reported site prints one (`diagOnFail`), the output file is there or not, and "same output as the
    fault-free run" is equality of the whole result (step sequence). -/
def observed (v : Variant) (c : Cfg) (fs : List Bool) : Spec.Observed :=
  { crashed := false
    exit0 := (run v c fs).status == 0
    diagnostic := match (run v c fs).trace.failed with | some s => diagOnFail v s | none => false
    packer := true
    outputLeft := (run v c fs).out == .present
    sameAsFaultFree := run v c fs == faultFree v c }

/-- … and of a reader run: the results are "the same as fault-free" when the same sites ran and nothing handed to
    stdio was lost. -/
def observedReader (v : Variant) (c : RCfg) (fs : List Bool) : Spec.Observed :=
  { crashed := false
    exit0 := (runReader v c fs).status == 0
    diagnostic := (runReader v c fs).trace.failed.isSome     -- every reader site prints (`diagOnFail _ s = true`)
    packer := false
    outputLeft := false
    sameAsFaultFree := (runReader v c fs).trace == (runReader v c []).trace && !(runReader v c fs).stdoutLost }

end Sqfs.FailStop
