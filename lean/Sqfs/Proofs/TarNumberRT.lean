/-
C04 — `read_number ∘ write_number = id` (proof bodies of `Sqfs.C04.number_roundtrip{,_signed}`; here so that the header
round trip can use them).
-/
import Sqfs.Proofs.TarNumber
namespace Sqfs.Tar

theorem readNumber_writeNumber (v w : Nat) (hw : 2 ≤ w ∧ w ≤ 21) (hv : v < U64)
    (hfit : v < 8 ^ w ∨ 9 ≤ w ∨ (w = 8 ∧ v < 127 * 2 ^ 56)) :
    readNumber (writeNumber v w) = some v := by
  obtain ⟨n, rfl⟩ : ∃ n, w = n + 2 := ⟨w - 2, by omega⟩
  unfold writeNumber
  have hpos1 : 1 ≤ 8 ^ (n + 1) := Nat.one_le_pow _ _ (by omega)
  have hpos2 : 1 ≤ 8 ^ (n + 2) := Nat.one_le_pow _ _ (by omega)
  simp only [show n + 2 - 1 = n + 1 by omega]
  by_cases h1 : v ≤ 8 ^ (n + 1) - 1
  · rw [if_pos h1]
    exact readNumber_octDigits n v [32] (Or.inr ⟨32, [], rfl, by decide⟩) (by omega) hv
  · rw [if_neg h1]
    by_cases h2 : v ≤ 8 ^ (n + 2) - 1
    · rw [if_pos h2]
      have := readNumber_octDigits (n + 1) v [] (Or.inl rfl) (by show v < 8 ^ (n + 2); omega) hv
      simpa using this
    · rw [if_neg h2]
      have hbig : ¬ v < 8 ^ (n + 2) := by omega
      simp only [U64] at hv
      rcases hfit with h | h | ⟨h, h56⟩
      · exact absurd h hbig
      · have hp : 256 ^ 8 ≤ 256 ^ (n + 1) := Nat.pow_le_pow_right (by omega) (by omega)
        have hp' : 256 ^ (n + 1) ≤ 256 ^ (n + 2) := Nat.pow_le_pow_right (by omega) (by omega)
        norm_num at hp
        have hlt : v < 256 ^ (n + 1) := by omega
        apply readNumber_writeBinary (n + 1) v
        · rw [Nat.div_eq_of_lt hlt]; omega
        · omega
        · simp only [U64]; omega
      · have hn : n = 6 := by omega
        subst hn
        apply readNumber_writeBinary 7 v
        · norm_num at h56 ⊢; omega
        · norm_num; omega
        · simp only [U64]; omega

theorem readNumber_writeNumberSigned (m : Int) (w : Nat) (hw : 9 ≤ w ∧ w ≤ 21)
    (hm : -9223372036854775808 ≤ m ∧ m < 9223372036854775808) :
    (readNumber (writeNumberSigned m w)).map toSigned = some m := by
  unfold writeNumberSigned
  by_cases hneg : m < 0
  · rw [if_pos hneg]
    obtain ⟨n, rfl⟩ : ∃ n, w = n + 1 := ⟨w - 1, by omega⟩
    have hv : (m + (U64 : Int)).toNat % U64 = (m + (U64 : Int)).toNat := by
      apply Nat.mod_eq_of_lt; simp only [U64]; omega
    rw [hv]
    have hp : 256 ^ 8 ≤ 256 ^ n := Nat.pow_le_pow_right (by omega) (by omega)
    have hp' : 256 ^ n ≤ 256 ^ (n + 1) := Nat.pow_le_pow_right (by omega) (by omega)
    norm_num at hp
    have hlt : (m + (U64 : Int)).toNat < 256 ^ n := by simp only [U64]; omega
    rw [readNumber_writeBinary n _ (by rw [Nat.div_eq_of_lt hlt]; omega) (by omega) (by simp only [U64]; omega)]
    simp only [Option.map_some, toSigned, U64, Option.some.injEq]
    split <;> omega
  · rw [if_neg hneg]
    rw [readNumber_writeNumber m.toNat w (by omega) (by simp only [U64]; omega) (Or.inr (Or.inl hw.1))]
    simp only [Option.map_some, toSigned, Option.some.injEq]
    split <;> omega

/-- 8-byte fields (mode, uid, gid, devmajor, devminor) -/
theorem readNumber_writeNumber8 (v : Nat) (hv : v < 127 * 2 ^ 56) : readNumber (writeNumber v 8) = some v :=
  readNumber_writeNumber v 8 (by omega) (by simp only [U64]; omega) (Or.inr (Or.inr ⟨rfl, hv⟩))

/-- 12-byte fields (size) -/
theorem readNumber_writeNumber12 (v : Nat) (hv : v < U64) : readNumber (writeNumber v 12) = some v :=
  readNumber_writeNumber v 12 (by omega) hv (Or.inr (Or.inl (by omega)))

end Sqfs.Tar
