/-
Characterisation of one `packFile` step as a small set of cases (`TailStep`, `placeBlocks_spec`), and list/area
lemmas.  The global theorems about `specPack` (`Sqfs/Proofs/PackInv.lean`) do their case analysis on these.
-/
import Sqfs.Proofs.PackLocal
namespace Sqfs.Pack

/-! ## areas and byte counts -/

def areaOf (h : List Stored) : Bytes := h.flatMap (·.data)

theorem areaOf_nil : areaOf [] = [] := rfl

theorem areaOf_append (a b : List Stored) : areaOf (a ++ b) = areaOf a ++ areaOf b := by
  simp [areaOf]

theorem areaOf_cons (s : Stored) (t : List Stored) : areaOf (s :: t) = s.data ++ areaOf t := by
  simp [areaOf]

theorem bytesOf_nil : bytesOf [] = 0 := rfl

theorem bytesOf_cons (s : Stored) (t : List Stored) : bytesOf (s :: t) = s.data.length + bytesOf t := by
  simp [bytesOf]

theorem bytesOf_append (a b : List Stored) : bytesOf (a ++ b) = bytesOf a + bytesOf b := by
  simp [bytesOf]

theorem areaOf_length (h : List Stored) : (areaOf h).length = bytesOf h := by
  induction h with
  | nil => rfl
  | cons s t ih => rw [areaOf_cons, bytesOf_cons, List.length_append, ih]

theorem Out.area_eq (o : Out) : o.area = areaOf o.blocks := rfl

/-- reading exactly the middle part -/
theorem readAt_mid (base : Nat) (A X Z : Bytes) : readAt base (A ++ X ++ Z) (base + A.length) X.length = X := by
  unfold readAt
  rw [Nat.add_sub_cancel_left, List.append_assoc, List.drop_left, List.take_left]

theorem readAt_mid' (base : Nat) (A X Z : Bytes) (off n : Nat) (ho : off = base + A.length) (hn : n = X.length) :
    readAt base (A ++ X ++ Z) off n = X := by
  subst ho hn; exact readAt_mid base A X Z

/-- a read that lies inside `area` is unchanged when the area is extended -/
theorem readAt_ext (base : Nat) (area ext : Bytes) (off n : Nat) (h : off - base + n ≤ area.length) :
    readAt base (area ++ ext) off n = readAt base area off n := by
  unfold readAt
  rw [List.drop_append_of_le_length (by omega), List.take_append_of_le_length (by simp; omega)]

theorem take_take_drop {α : Type} (l : List α) (i c m : Nat) (h : i + c ≤ m) :
    ((l.take m).drop i).take c = (l.drop i).take c := by
  rw [List.drop_take, List.take_take]
  congr 1
  omega

/-! ## `placeBlocks` -/

theorem findMatch_some (hist mine : List Stored) (i : Nat) (h : findMatch hist mine = some i) :
    i < hist.length ∧ ((hist ++ mine).drop i).take mine.length = mine := by
  unfold findMatch at h
  have h1 := List.find?_some h
  have h2 := List.mem_of_find?_eq_some h
  simp at h1 h2
  exact ⟨h2, h1⟩

/-- where the file's stored blocks end up: at entries `[i, i + |mine|)` of the new history, which extends the
old one; `start` is the offset of entry `i`; `shared = false` means they are the file's own, appended blocks -/
theorem placeBlocks_spec (base : Nat) (dd : Bool) (hist mine : List Stored) (hne : mine ≠ []) :
    ∃ i, (placeBlocks base dd hist mine).2.1 = base + bytesOf ((placeBlocks base dd hist mine).1.take i)
      ∧ ((placeBlocks base dd hist mine).1.drop i).take mine.length = mine
      ∧ hist <+: (placeBlocks base dd hist mine).1
      ∧ ((placeBlocks base dd hist mine).2.2 = false →
            i = hist.length ∧ (placeBlocks base dd hist mine).1 = hist ++ mine)
      ∧ (dd = true → (placeBlocks base dd hist mine).2.2 = false) := by
  unfold placeBlocks
  rw [if_neg hne]
  by_cases hdd : dd = true
  · rw [if_pos hdd]
    exact ⟨hist.length, by simp, by simp, by simp, fun _ => ⟨rfl, rfl⟩, fun _ => rfl⟩
  · rw [if_neg hdd]
    cases hm : findMatch hist mine with
    | none => exact ⟨hist.length, by simp, by simp, by simp, fun _ => ⟨rfl, rfl⟩, fun h => absurd h hdd⟩
    | some i =>
      obtain ⟨hi, hmatch⟩ := findMatch_some hist mine i hm
      refine ⟨i, ?_, ?_, ?_, ?_, fun h => absurd h hdd⟩
      · simp only
        congr 2
        rw [List.take_take, Nat.min_eq_left (by omega), List.take_append_of_le_length (by omega)]
      · simp only
        rw [take_take_drop _ _ _ _ (by omega)]
        exact hmatch
      · simp only
        refine ⟨((hist ++ mine).take (max (i + mine.length) hist.length)).drop hist.length, ?_⟩
        have : hist = ((hist ++ mine).take (max (i + mine.length) hist.length)).take hist.length := by
          rw [List.take_take, Nat.min_eq_left (by omega), List.take_left]
        conv => lhs; lhs; rw [this]
        exact List.take_append_drop _ _
      · intro h; simp at h

theorem placeBlocks_nil (base : Nat) (dd : Bool) (hist : List Stored) : placeBlocks base dd hist [] = (hist, 0, false) := by
  simp [placeBlocks]

/-- in every case the old history is a prefix of the new one -/
theorem placeBlocks_prefix (base : Nat) (dd : Bool) (hist mine : List Stored) :
    hist <+: (placeBlocks base dd hist mine).1 := by
  by_cases hne : mine = []
  · subst hne; rw [placeBlocks_nil]; exact List.prefix_refl _
  · obtain ⟨i, _, _, h, _⟩ := placeBlocks_spec base dd hist mine hne; exact h

/-! ## the tail end -/

/-- the cases of `placeTail` that yield a fragment reference -/
inductive TailStep (P : Params) (F : Flags) (t : Bytes) : State → State → Nat → Nat → Prop where
  /-- deduplicated against a recorded fragment of the same `DONT_COMPRESS` setting -/
  | hit (σ : State) (c : Chunk) : c ∈ σ.chunks → c.dontCompress = F.dontCompress → c.data = t → F.dontDedup = false →
      TailStep P F t σ σ c.index c.offset
  /-- appended to the open fragment block -/
  | append (σ : State) (fb : FragBlock) : σ.openFrag = some fb → fb.data.length + t.length ≤ P.B →
      TailStep P F t σ
        { σ with openFrag := some ⟨fb.data ++ t, fb.dontCompress || F.dontCompress⟩
                 chunks := ⟨σ.frags.length, fb.data.length, F.dontCompress, cksumOf P F t, t⟩ :: σ.chunks }
        σ.frags.length fb.data.length
  /-- the open block is full: it is closed (stored, table entry filled) and a new one opened -/
  | closeNew (σ : State) (fb : FragBlock) : σ.openFrag = some fb → fb.data.length + t.length > P.B →
      TailStep P F t σ
        { hist := σ.hist ++ [workFragBlock P fb]
          frags := σ.frags ++ [⟨P.base + bytesOf σ.hist, (workFragBlock P fb).data.length, (workFragBlock P fb).raw⟩]
          openFrag := some ⟨t, F.dontCompress⟩
          chunks := ⟨σ.frags.length + 1, 0, F.dontCompress, cksumOf P F t, t⟩ :: σ.chunks }
        (σ.frags.length + 1) 0
  /-- no open block -/
  | fresh (σ : State) : σ.openFrag = none →
      TailStep P F t σ
        { σ with openFrag := some ⟨t, F.dontCompress⟩
                 chunks := ⟨σ.frags.length, 0, F.dontCompress, cksumOf P F t, t⟩ :: σ.chunks }
        σ.frags.length 0

theorem lookupChunk_some (chunks : List Chunk) (dc : Bool) (ck : UInt32) (t : Bytes) (c : Chunk)
    (h : lookupChunk chunks dc ck t = some c) : c ∈ chunks ∧ c.dontCompress = dc ∧ c.data = t := by
  unfold lookupChunk at h
  have h1 := List.find?_some h
  have h2 := List.mem_of_find?_eq_some h
  simp at h1
  exact ⟨h2, h1.1.1, h1.2⟩

theorem addFragment_step (P : Params) (σ : State) (F : Flags) (t : Bytes) :
    TailStep P F t σ (addFragment P σ F (cksumOf P F t) t).1 (addFragment P σ F (cksumOf P F t) t).2.1
      (addFragment P σ F (cksumOf P F t) t).2.2 := by
  unfold addFragment
  cases ho : σ.openFrag with
  | none =>
    simp only [ho]
    have := TailStep.fresh (P := P) (F := F) (t := t) σ ho
    simpa [ho] using this
  | some fb =>
    simp only
    by_cases hfit : fb.data.length + t.length > P.B
    · simp only [hfit, if_true]
      have := TailStep.closeNew (P := P) (F := F) (t := t) σ fb ho hfit
      simpa [closeOpen, ho] using this
    · simp only [hfit, if_false, ho]
      have := TailStep.append (P := P) (F := F) (t := t) σ fb ho (by omega)
      simpa using this

theorem placeTail_frag (P : Params) (σ σ' : State) (F : Flags) (t : Bytes) (i o : Nat)
    (h : placeTail P σ F t = (σ', .frag i o)) : TailStep P F t σ σ' i o := by
  unfold placeTail at h
  by_cases hc : (!F.ignoreSparse && allZero t) = true
  · rw [if_pos hc] at h; simp at h
  · rw [if_neg hc] at h
    by_cases hd : F.dontDedup = true
    · simp only [hd, if_true] at h
      simp only [Prod.mk.injEq, TailResult.frag.injEq] at h
      obtain ⟨h1, h2, h3⟩ := h
      subst h1 h2 h3
      exact addFragment_step P σ F t
    · simp only [hd] at h
      cases hl : lookupChunk σ.chunks F.dontCompress (cksumOf P F t) t with
      | some c =>
        simp only [hl, Bool.false_eq_true, if_false, Prod.mk.injEq, TailResult.frag.injEq] at h
        obtain ⟨h1, h2, h3⟩ := h
        subst h1 h2 h3
        obtain ⟨hm, hdc, hdata⟩ := lookupChunk_some _ _ _ _ _ hl
        exact TailStep.hit σ c hm hdc hdata (by simpa using hd)
      | none =>
        simp only [hl, Bool.false_eq_true, if_false, Prod.mk.injEq, TailResult.frag.injEq] at h
        obtain ⟨h1, h2, h3⟩ := h
        subst h1 h2 h3
        exact addFragment_step P σ F t

theorem placeTail_sparse_state (P : Params) (σ σ' : State) (F : Flags) (t : Bytes)
    (h : placeTail P σ F t = (σ', .sparse)) : σ' = σ := by
  unfold placeTail at h
  by_cases hc : (!F.ignoreSparse && allZero t) = true
  · rw [if_pos hc] at h; simp at h; exact h.symm
  · rw [if_neg hc] at h
    exfalso
    by_cases hd : F.dontDedup = true
    · simp [hd] at h
    · simp only [hd] at h
      cases hl : lookupChunk σ.chunks F.dontCompress (cksumOf P F t) t <;> simp [hl] at h

/-! ## one file -/

/-- the stored blocks of the file's data blocks -/
def mineOf (P : Params) (f : InFile) : List Stored := ((dataBlocksOf P.B f).map (workData P f.flags)).filterMap Worked.stored?

/-- the state after the file's data blocks have been placed -/
def afterBlocks (P : Params) (σ : State) (f : InFile) : State :=
  { σ with hist := (placeBlocks P.base f.flags.dontDedup σ.hist (mineOf P f)).1 }

/-- `packFile` in three cases: no fragment step; sparse tail; a `TailStep` from the state after block placement -/
theorem packFile_cases (P : Params) (σ : State) (f : InFile) (hne : f.data ≠ []) :
    (packFile P σ f).2.start = (placeBlocks P.base f.flags.dontDedup σ.hist (mineOf P f)).2.1
    ∧ (packFile P σ f).2.shared = (placeBlocks P.base f.flags.dontDedup σ.hist (mineOf P f)).2.2
    ∧ (((packFile P σ f).1 = afterBlocks P σ f ∧ (packFile P σ f).2.frag = none)
       ∨ ∃ i o, hasTailFrag P.B f = true ∧ (packFile P σ f).2.frag = some (i, o)
            ∧ TailStep P f.flags (tailOf P.B f.data) (afterBlocks P σ f) (packFile P σ f).1 i o) := by
  unfold packFile
  rw [if_neg hne]
  cases ht : hasTailFrag P.B f
  · simp only [Bool.false_eq_true, if_false]
    exact ⟨rfl, rfl, Or.inl ⟨rfl, by first | trivial | rfl⟩⟩
  · simp only [if_true]
    split
    · rename_i σ2 hpt
      have := placeTail_sparse_state _ _ _ _ _ hpt
      subst this
      exact ⟨rfl, rfl, Or.inl ⟨rfl, by first | trivial | rfl⟩⟩
    · rename_i σ2 i o hpt
      exact ⟨rfl, rfl, Or.inr ⟨i, o, trivial, rfl, placeTail_frag _ _ _ _ _ _ _ hpt⟩⟩

end Sqfs.Pack
