/-
C01 — references of uncompressed metadata (`rawRef` / `rawPos`) are inverse.
-/
import Sqfs.Model.EncTree
namespace Sqfs.Enc
open Sqfs.Consts

theorem rawRef_eq (p : Nat) : rawRef p = p / 8192 * 8194 * 65536 + p % 8192 := by
  have ho : p % 8192 < 2 ^ 16 := by omega
  unfold rawRef
  simp only [metaBlockSize]
  rw [← Nat.shiftLeft_add_eq_or_of_lt ho, Nat.shiftLeft_eq]

theorem rawPos_rawRef (p : Nat) : rawPos (rawRef p) = some p := by
  unfold rawPos
  rw [rawRef_eq, Nat.shiftRight_eq_div_pow]
  have h1 : (p / 8192 * 8194 * 65536 + p % 8192) / 2 ^ 16 = p / 8192 * 8194 := by omega
  have h2 : (p / 8192 * 8194 * 65536 + p % 8192) % 65536 = p % 8192 := by omega
  simp only [h1, h2, metaBlockSize]
  have h3 : p / 8192 * 8194 % (8192 + 2) = 0 := Nat.mul_mod_left _ _
  have h5 : p % 8192 < 8192 := by omega
  have h6 : p / 8192 * 8194 / (8192 + 2) = p / 8192 := Nat.mul_div_cancel _ (by decide)
  rw [if_pos ⟨h3, h5⟩, h6]
  congr 1
  have := Nat.div_add_mod p 8192
  omega

end Sqfs.Enc
