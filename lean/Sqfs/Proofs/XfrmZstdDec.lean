/-
C15 — the **decompressing** side of `zstd.c: process_data`: libzstd's streaming convention (`ZSTD_decompressStream`: the
return value is 0 exactly when the current frame is completely decoded and handed out; `ZDecContract`) ⇒ the loop with its
`pending` flag — which keeps decoding across frame boundaries inside one call and answers `END` only at the end of the
input — is a decoder meeting the stream-level contract (`StreamDecContract`) under which `istream_xfrm` is transparent.
With `ZDecErrContract` (error returns of the library on input that has gone wrong) also its corrupted-input part.
-/
import Sqfs.Proofs.XfrmZstd
namespace Sqfs.Xfrm
open Sqfs.Xfrm.Spec

section ZDec
variable {τ : Type} {L : ZLib τ} {Dec : Bytes → Option Bytes}

/-- no statement about input that has gone wrong -/
def ZDoom.none (hZ : ZDecContract L Dec) : ZDoom hZ where
  B := fun _ _ _ => False
  budget := fun _ => 0
  call := by intro s rest j h; exact h.elim

def ZEnter {hZ : ZDecContract L Dec} (E : ZDoom hZ) : Prop :=
  ∀ (s : τ) (c : Bytes), hZ.R s [] [] → Dead Dec c → E.B s c (E.budget c.length)

/--
Ghost invariant of the decompressing zstd object: like `G`, plus the meaning of the `pending` flag (set whenever part of the
current frame has been consumed; clear at a clean end) and "the library has not yet said 0 for this frame" (`w = [] → v ≠ x`).
-/
def ZG (hZ : ZDecContract L Dec) (E : ZDoom hZ) (K : Kind) (zs : ZState τ) (rest rem : Bytes) (j : Nat) : Prop :=
  (∃ u v w x ms xs t xT, hZ.R zs.lib u v ∧ Dec (u ++ w) = some x ∧ IsPre v x ∧ Members Dec ms xs ∧ Tail Dec K t xT ∧
      rest = w ++ (ms.flatten ++ t) ∧ rem = x.drop v.length ++ (xs.flatten ++ xT) ∧
      (u ≠ [] → zs.pending = true) ∧ (w = [] → v ≠ x) ∧
      (K ≠ Kind.corrupt → j = 0) ∧ (K = Kind.corrupt → j = E.budget t.length)) ∨
  (∃ u v w' w'' x, K = Kind.truncated ∧ hZ.R zs.lib u v ∧ Dec (u ++ (w' ++ w'')) = some x ∧ IsPre v x ∧ w'' ≠ [] ∧
      (u ≠ [] ∨ w' ≠ []) ∧ rest = w' ∧ rem = x.drop v.length ∧ (u ≠ [] → zs.pending = true) ∧ j = 0) ∨
  (K = Kind.valid ∧ hZ.R zs.lib [] [] ∧ zs.pending = false ∧ rest = [] ∧ rem = [] ∧ j = 0) ∨
  (K = Kind.corrupt ∧ rem = [] ∧ E.B zs.lib rest j ∧ (zs.pending = false → rest ≠ []))

/-- at a frame boundary -/
theorem ZG_boundary (hZ : ZDecContract L Dec) (E : ZDoom hZ) {K : Kind} (hen : K = Kind.corrupt → ZEnter E) {zs : ZState τ}
    (hR : hZ.R zs.lib [] []) (hp : zs.pending = false) {ms xs : List Bytes} {t xT : Bytes} {j : Nat}
    (hms : Members Dec ms xs) (htail : Tail Dec K t xT) (hj0 : K ≠ Kind.corrupt → j = 0)
    (hjc : K = Kind.corrupt → j = E.budget t.length) :
    ZG hZ E K zs (ms.flatten ++ t) (xs.flatten ++ xT) j := by
  cases hms with
  | cons hm hrest =>
    rename_i m x ms' xs'
    left
    refine ⟨[], [], m, x, ms', xs', t, xT, hR, by simpa using hm, IsPre.nil _, hrest, htail, by simp, by simp,
      fun h => absurd rfl h, ?_, hj0, hjc⟩
    intro hm0 hx
    rw [hm0, hZ.dec_nil] at hm; cases hm
  | nil =>
    cases K with
    | valid =>
      obtain ⟨ht, hx⟩ := htail
      subst ht hx
      right; right; left
      exact ⟨rfl, hR, hp, by simp, by simp, hj0 (by decide)⟩
    | truncated =>
      obtain ⟨ht, t', ht', hd⟩ := htail
      right; left
      exact ⟨[], [], t, t', xT, rfl, hR, by simpa using hd, IsPre.nil _, ht', Or.inr ht, by simp, by simp,
        fun h => absurd rfl h, hj0 (by decide)⟩
    | corrupt =>
      obtain ⟨hdead, hx⟩ := htail
      subst hx
      right; right; right
      refine ⟨rfl, by simp, ?_, fun _ => by simpa using hdead.1⟩
      rw [hjc rfl]
      simpa using hen rfl zs.lib t hR hdead

theorem drop_take_pre (rest : Bytes) (n ai : Nat) : IsPre ((rest.take n).drop ai) (rest.drop ai) := by
  rw [List.drop_take]; exact IsPre.take _ _

/-- result of the loop of `zstd.c` on a decompressing stream object: (final loop state, error flag) -/
def ZDecPost (hZ : ZDecContract L Dec) (E : ZDoom hZ) (K : Kind) (rest rem : Bytes) (j n room : Nat) (fl : Flush)
    (r : ZWrapSt τ × Bool) : Prop :=
  (r.2 = true ∧ K ≠ Kind.valid ∧ (fl ≠ Flush.full → K = Kind.corrupt)) ∨
  (r.2 = false ∧ r.1.2.2.2.1 ≤ n ∧ r.1.2.1 = (rest.take n).drop r.1.2.2.2.1 ∧ r.1.2.2.2.2.length ≤ room ∧
    r.1.2.2.1 = room - r.1.2.2.2.2.length ∧
    ((r.1.2.1 = [] ∧ ¬ (r.1.1.pending = true ∧ fl = Flush.full)) ∨ r.1.2.2.1 = 0) ∧
    ∃ rem' j', ZG hZ E K r.1.1 (rest.drop r.1.2.2.2.1) rem' j' ∧ Link rem j r.1.2.2.2.2 rem' j')

theorem zstdLoop_dec_spec (hZ : ZDecContract L Dec) (E : ZDoom hZ) {K : Kind} (hen : K = Kind.corrupt → ZEnter E)
    {zs : ZState τ} {rest rem : Bytes} {j : Nat} (hG : ZG hZ E K zs rest rem j) (n room : Nat) (fl : Flush)
    (hn : n ≤ rest.length) (hfull : fl = Flush.full → n = rest.length) :
    ∃ r, zstdLoop L false fl ((rest.take n).length + room + 2) zs (rest.take n) room 0 [] = some r ∧
      ZDecPost hZ E K rest rem j n room fl r := by
  have main := iter_fuel (zstdBody L false fl)
    (fun a => a.2.2.2.1 ≤ n ∧ a.2.1 = (rest.take n).drop a.2.2.2.1 ∧ a.2.2.2.2.length ≤ room ∧ a.2.2.1 = room - a.2.2.2.2.length ∧
      ∃ rem1 j1, ZG hZ E K a.1 (rest.drop a.2.2.2.1) rem1 j1 ∧ Link rem j a.2.2.2.2 rem1 j1)
    (ZDecPost hZ E K rest rem j n room fl)
    (fun a => a.2.1.length + a.2.2.1) ?_ (zs, rest.take n, room, 0, [])
    ⟨Nat.zero_le _, by simp, by simp, by simp, rem, j, by simpa using hG, Link.refl _ _⟩
  · obtain ⟨r, hr, hq⟩ := main
    refine ⟨r, ?_, hq⟩
    simp only [zstdLoop]
    exact iter_mono _ _ _ _ hr _ (by simp)
  · rintro ⟨st, inp', room', ai, ao⟩ ⟨hai, hinp, hao, hroom, rem1, j1, hG1, hL1⟩
    simp only at hai hinp hao hroom hG1 hL1
    have hpre1 : IsPre inp' (rest.drop ai) := by rw [hinp]; exact drop_take_pre _ _ _
    have hlen1 : inp'.length = n - ai := by rw [hinp]; simp [List.length_take]; omega
    by_cases hcond : ((decide (0 < inp'.length) || (st.pending && decide (fl = Flush.full))) && decide (0 < room')) = true
    · have hr0 : 0 < room' := by simp only [Bool.and_eq_true, decide_eq_true_eq] at hcond; exact hcond.2
      -- with no input in this round, the loop runs because of `pending` under `FLUSH_FULL`, and the stream is at its end
      have hempty : inp' = [] → st.pending = true ∧ fl = Flush.full ∧ rest.drop ai = [] := by
        intro h0
        simp only [Bool.and_eq_true, Bool.or_eq_true, decide_eq_true_eq, h0, List.length_nil, Nat.lt_irrefl, false_or] at hcond
        refine ⟨hcond.1.1, hcond.1.2, ?_⟩
        have hnn := hfull hcond.1.2
        rw [h0] at hlen1
        simp only [List.length_nil] at hlen1
        apply List.eq_nil_of_length_eq_zero
        rw [List.length_drop]; omega
      -- the shape of a further round
      have hnext : ∀ (lib' : τ) (pend' : Bool) (c : Nat) (o rem2 : Bytes) (j2 : Nat),
          ZG hZ E K ⟨lib', pend'⟩ (rest.drop (ai + c)) rem2 j2 → Link rem1 j1 o rem2 j2 → c ≤ inp'.length → o.length ≤ room' →
          0 < c + o.length →
          (ai + c ≤ n ∧ inp'.drop c = (rest.take n).drop (ai + c) ∧ (ao ++ o).length ≤ room ∧
            room' - o.length = room - (ao ++ o).length ∧
            ∃ rem1' j1', ZG hZ E K ⟨lib', pend'⟩ (rest.drop (ai + c)) rem1' j1' ∧ Link rem j (ao ++ o) rem1' j1') ∧
          (inp'.drop c).length + (room' - o.length) < inp'.length + room' := by
        intro lib' pend' c o rem2 j2 hG2 hL2 hc ho hpos
        refine ⟨⟨by omega, by rw [hinp, List.drop_drop], by rw [List.length_append]; omega, by rw [List.length_append]; omega,
          rem2, j2, hG2, hL1.trans hL2⟩, ?_⟩
        rw [List.length_drop]; omega
      simp only [zstdBody, hcond, if_true]
      rcases hG1 with ⟨u, v, w, x, ms, xs, t, xT, hR, hdec, hpv, hms, htail, hrest, hrem, hpend, hopen, hj0, hjc⟩ |
          ⟨u, v, w', w'', x, hK, hR, hdec, hpv, hw'', hne, hrest, hrem, hpend, hj⟩ | ⟨_, _, hpf, hrest, _⟩ | ⟨hK, hrem, hB, hpr⟩
      · -- inside (or at the start of) a complete frame
        have hip : IsPre inp' (w ++ (ms.flatten ++ t)) := by rw [← hrest]; exact hpre1
        have hnz : u ≠ [] ∨ inp' ≠ [] := by
          by_cases h0 : inp' = []
          · left
            obtain ⟨_, _, hr0'⟩ := hempty h0
            rw [hrest] at hr0'
            have hw : w = [] := (List.append_eq_nil_iff.1 hr0').1
            intro hu
            rw [hu, hw] at hdec
            simp only [List.append_nil] at hdec
            rw [hZ.dec_nil] at hdec; cases hdec
          · exact Or.inr h0
        obtain ⟨h1, h2, h3, h4, h5, h6, h7, h8⟩ := hZ.valid w x (ms.flatten ++ t) inp' room' fl hR hdec hip hr0 hnz
        have hbytes : 0 < (L.call st.lib inp' room' fl).consumed + (L.call st.lib inp' room' fl).out.length := by
          by_cases h0 : inp' = []
          · obtain ⟨_, _, hr0'⟩ := hempty h0
            rw [hrest] at hr0'
            have hw : w = [] := (List.append_eq_nil_iff.1 hr0').1
            have hc0 : (L.call st.lib inp' room' fl).consumed = w.length := by rw [hw]; rw [hw] at h3; simpa using h3
            rcases hZ.drain w x (ms.flatten ++ t) inp' room' fl hR hdec hip hr0 hnz hc0 with hd | hd
            · have : 0 < (L.call st.lib inp' room' fl).out.length := by
                cases ho : (L.call st.lib inp' room' fl).out with
                | nil => exact absurd ho hd
                | cons a b => simp
              omega
            · have hx := (h6.1 hd).2
              have : (L.call st.lib inp' room' fl).out ≠ [] := by
                intro ho; rw [ho, List.append_nil] at hx; exact hopen hw hx
              have : 0 < (L.call st.lib inp' room' fl).out.length := by
                cases ho : (L.call st.lib inp' room' fl).out with
                | nil => exact absurd ho this
                | cons a b => simp
              omega
          · exact hZ.bytes w x (ms.flatten ++ t) inp' room' fl hR hdec hip hr0 h0
        have hnostuck : (decide (inp'.length = 0) && decide ((L.call st.lib inp' room' fl).consumed = 0) &&
            decide ((L.call st.lib inp' room' fl).out.length = 0)) = false := by
          cases h : (decide (inp'.length = 0) && decide ((L.call st.lib inp' room' fl).consumed = 0) &&
            decide ((L.call st.lib inp' room' fl).out.length = 0)) with
          | false => rfl
          | true =>
            simp only [Bool.and_eq_true, decide_eq_true_eq] at h
            omega
        simp only [h1, Bool.false_eq_true, if_false, hnostuck]
        refine ⟨fun r h => (by cases h), ?_⟩
        intro a' ha'; cases ha'
        by_cases hend : (L.call st.lib inp' room' fl).hint = 0
        · -- the frame is finished by this call
          obtain ⟨hc, hx⟩ := h6.1 hend
          have hR' := h7 hend
          have hpf : (decide ((L.call st.lib inp' room' fl).hint ≠ 0) || (false && decide (fl ≠ Flush.full))) = false := by
            simp [hend]
          rw [hpf]
          refine hnext _ false _ _ (xs.flatten ++ xT) j1 ?_ (Link.of_eq j1 ?_) h2 h4 hbytes
          · have : rest.drop (ai + (L.call st.lib inp' room' fl).consumed) = ms.flatten ++ t := by
              rw [← List.drop_drop, hrest, hc]; simp
            rw [this]
            exact ZG_boundary hZ E hen hR' rfl hms htail hj0 hjc
          · rw [hrem, ← hx]; simp
        · have hR' := h8 hend
          have hpt : (decide ((L.call st.lib inp' room' fl).hint ≠ 0) || (false && decide (fl ≠ Flush.full))) = true := by
            simp [hend]
          rw [hpt]
          have htake : inp'.take (L.call st.lib inp' room' fl).consumed = w.take (L.call st.lib inp' room' fl).consumed := by
            obtain ⟨z, hz⟩ := hip
            have := congrArg (List.take (L.call st.lib inp' room' fl).consumed) hz
            rw [List.take_append_of_le_length h3, List.take_append_of_le_length h2] at this
            exact this.symm
          refine hnext _ true _ _ (x.drop (v ++ (L.call st.lib inp' room' fl).out).length ++ (xs.flatten ++ xT)) j1 ?_
            (Link.of_eq j1 ?_) h2 h4 hbytes
          · left
            refine ⟨u ++ w.take (L.call st.lib inp' room' fl).consumed, v ++ (L.call st.lib inp' room' fl).out,
              w.drop (L.call st.lib inp' room' fl).consumed, x, ms, xs, t, xT, ?_, ?_, h5, hms, htail, ?_, rfl, fun _ => rfl, ?_, hj0, hjc⟩
            · rw [← htake]; exact hR'
            · rw [List.append_assoc, List.take_append_drop]; exact hdec
            · rw [← List.drop_drop, hrest, List.drop_append_of_le_length h3]
            · intro hw0 hx
              apply hend
              apply h6.2
              refine ⟨?_, hx⟩
              have := congrArg List.length hw0
              simp only [List.length_drop, List.length_nil] at this
              omega
          · rw [hrem, IsPre.drop_eq h5]; simp [List.append_assoc]
      · -- inside the cut-off frame
        have hip : IsPre inp' ((w' ++ w'') ++ []) := by
          rw [← hrest]; exact (hpre1.append_right _).append_right _
        have hnz : u ≠ [] ∨ inp' ≠ [] := by
          by_cases h0 : inp' = []
          · obtain ⟨_, _, hr0'⟩ := hempty h0
            rcases hne with h | h
            · exact Or.inl h
            · rw [hrest] at hr0'; exact absurd hr0' h
          · exact Or.inr h0
        obtain ⟨h1, h2, h3, h4, h5, h6, h7, h8⟩ := hZ.valid (w' ++ w'') x [] inp' room' fl hR hdec hip hr0 hnz
        have hw''l : 0 < w''.length := by
          cases w'' with
          | nil => exact absurd rfl hw''
          | cons a b => simp
        have hcw : (L.call st.lib inp' room' fl).consumed ≤ w'.length := by
          have := hpre1.length_le
          rw [hrest] at this
          omega
        have hend : (L.call st.lib inp' room' fl).hint ≠ 0 := by
          intro he
          have := (h6.1 he).1
          simp only [List.length_append] at this
          omega
        have hR' := h8 hend
        simp only [h1, Bool.false_eq_true, if_false]
        by_cases hstuck : (decide (inp'.length = 0) && decide ((L.call st.lib inp' room' fl).consumed = 0) &&
            decide ((L.call st.lib inp' room' fl).out.length = 0)) = true
        · -- end of the input inside the frame, nothing left to hand out: the error
          simp only [hstuck, if_true]
          refine ⟨fun r h => ?_, fun a' h => (by cases h)⟩
          cases h
          left
          refine ⟨rfl, by rw [hK]; decide, ?_⟩
          intro hfl
          simp only [Bool.and_eq_true, decide_eq_true_eq] at hstuck
          have h0 : inp' = [] := List.eq_nil_of_length_eq_zero hstuck.1.1
          exact absurd (hempty h0).2.1 hfl
        · simp only [hstuck, Bool.false_eq_true, if_false]
          refine ⟨fun r h => (by cases h), ?_⟩
          intro a' ha'; cases ha'
          have hbytes : 0 < (L.call st.lib inp' room' fl).consumed + (L.call st.lib inp' room' fl).out.length := by
            by_cases h0 : inp' = []
            · simp only [Bool.and_eq_true, decide_eq_true_eq] at hstuck
              have hl : inp'.length = 0 := by rw [h0]; rfl
              omega
            · exact hZ.bytes (w' ++ w'') x [] inp' room' fl hR hdec hip hr0 h0
          have hpt : (decide ((L.call st.lib inp' room' fl).hint ≠ 0) || (false && decide (fl ≠ Flush.full))) = true := by
            simp [hend]
          rw [hpt]
          have htake : inp'.take (L.call st.lib inp' room' fl).consumed = w'.take (L.call st.lib inp' room' fl).consumed := by
            obtain ⟨z, hz⟩ := hpre1
            rw [hrest] at hz
            have := congrArg (List.take (L.call st.lib inp' room' fl).consumed) hz
            rw [List.take_append_of_le_length h2] at this
            rw [this]
          refine hnext _ true _ _ (x.drop (v ++ (L.call st.lib inp' room' fl).out).length) j1 ?_ (Link.of_eq j1 ?_) h2 h4 hbytes
          · right; left
            refine ⟨u ++ w'.take (L.call st.lib inp' room' fl).consumed, v ++ (L.call st.lib inp' room' fl).out,
              w'.drop (L.call st.lib inp' room' fl).consumed, w'', x, hK, ?_, ?_, h5, hw'', ?_, ?_, rfl, fun _ => rfl, hj⟩
            · rw [← htake]; exact hR'
            · rw [List.append_assoc, ← List.append_assoc (w'.take _), List.take_append_drop]; exact hdec
            · rcases hne with h | h
              · left; intro h'; exact h (List.append_eq_nil_iff.1 h').1
              · by_cases hc0 : (L.call st.lib inp' room' fl).consumed = 0
                · right; rw [hc0]; simpa using h
                · left; intro h'
                  have := (List.append_eq_nil_iff.1 h').2
                  have hl := congrArg List.length this
                  simp only [List.length_take, List.length_nil] at hl
                  omega
            · rw [← List.drop_drop, hrest]
          · rw [hrem, IsPre.drop_eq h5]
      · -- clean end of the stream: the loop condition is false
        exfalso
        have h0 : inp' = [] := by
          have := hpre1.length_le
          rw [hrest] at this
          exact List.eq_nil_of_length_eq_zero (by simpa using this)
        have := (hempty h0).1
        rw [hpf] at this; cases this
      · -- the input has gone wrong
        have hKn : K ≠ Kind.valid := by rw [hK]; decide
        have hcall : inp' ≠ [] ∨ rest.drop ai = [] := by
          by_cases h0 : inp' = []
          · exact Or.inr (hempty h0).2.2
          · exact Or.inl h0
        rcases E.call hB inp' room' fl hpre1 hr0 hcall _ rfl with he | ⟨hc, hol, hhint, ⟨j', hB', hjj⟩, hby⟩
        · simp only [he, if_true]
          refine ⟨fun r h => ?_, fun a' h => (by cases h)⟩
          cases h
          exact Or.inl ⟨rfl, hKn, fun _ => hK⟩
        · by_cases herr : (L.call st.lib inp' room' fl).isError = true
          · simp only [herr, if_true]
            refine ⟨fun r h => ?_, fun a' h => (by cases h)⟩
            cases h
            exact Or.inl ⟨rfl, hKn, fun _ => hK⟩
          · have herr' : (L.call st.lib inp' room' fl).isError = false := by
              cases h : (L.call st.lib inp' room' fl).isError with
              | true => exact absurd h herr
              | false => rfl
            simp only [herr', Bool.false_eq_true, if_false]
            by_cases hstuck : (decide (inp'.length = 0) && decide ((L.call st.lib inp' room' fl).consumed = 0) &&
                decide ((L.call st.lib inp' room' fl).out.length = 0)) = true
            · simp only [hstuck, if_true]
              refine ⟨fun r h => ?_, fun a' h => (by cases h)⟩
              cases h
              exact Or.inl ⟨rfl, hKn, fun _ => hK⟩
            · simp only [hstuck, Bool.false_eq_true, if_false]
              refine ⟨fun r h => (by cases h), ?_⟩
              intro a' ha'; cases ha'
              have hbytes : 0 < (L.call st.lib inp' room' fl).consumed + (L.call st.lib inp' room' fl).out.length := by
                by_cases h0 : inp' = []
                · simp only [Bool.and_eq_true, decide_eq_true_eq] at hstuck
                  have hl : inp'.length = 0 := by rw [h0]; rfl
                  omega
                · exact hby h0
              have hpt : (decide ((L.call st.lib inp' room' fl).hint ≠ 0) || (false && decide (fl ≠ Flush.full))) = true := by
                simp [hhint]
              rw [hpt]
              refine hnext _ true _ _ [] j' (Or.inr (Or.inr (Or.inr ⟨hK, rfl, ?_, fun h => by cases h⟩))) ?_ hc hol hbytes
              · rw [← List.drop_drop]; exact hB'
              · rw [hrem]; exact Link.junk hjj
    · -- the loop condition is false
      simp only [zstdBody, hcond, Bool.false_eq_true, if_false]
      refine ⟨?_, fun a' h => (by cases h)⟩
      intro r hr; cases hr
      right
      have hreason : (inp' = [] ∧ ¬ (st.pending = true ∧ fl = Flush.full)) ∨ room' = 0 := by
        by_cases hr0 : room' = 0
        · exact Or.inr hr0
        · left
          have hr1 : 0 < room' := by omega
          simp only [Bool.and_eq_true, Bool.or_eq_true, decide_eq_true_eq, hr1, and_true, not_or, Nat.not_lt] at hcond
          refine ⟨List.eq_nil_of_length_eq_zero (by omega), ?_⟩
          rintro ⟨h1, h2⟩
          exact hcond.2 ⟨h1, h2⟩
      exact ⟨rfl, hai, hinp, hao, hroom, hreason, rem1, j1, hG1, hL1⟩

/-- what `zstdProcess` returns, read off the final loop state -/
theorem zstdProcess_of_loop {st : ZState τ} {inp : Bytes} {room : Nat} {fl : Flush} {r : ZWrapSt τ × Bool}
    (h : zstdLoop L false fl (inp.length + room + 2) st inp room 0 [] = some r) :
    zstdProcess L false st inp room fl = some
      (if r.2 = true then ⟨r.1.1, r.1.2.2.2.1, r.1.2.2.2.2, Res.error⟩
       else if fl ≠ Flush.none ∧ r.1.2.1.length = 0 ∧ (!r.1.1.pending) = true then ⟨r.1.1, r.1.2.2.2.1, r.1.2.2.2.2, Res.streamEnd⟩
       else if 0 < r.1.2.1.length ∧ r.1.2.2.1 = 0 then ⟨r.1.1, r.1.2.2.2.1, r.1.2.2.2.2, Res.bufferFull⟩
       else ⟨r.1.1, r.1.2.2.2.1, r.1.2.2.2.2, Res.ok⟩) := by
  obtain ⟨⟨st', inp', room', ai, ao⟩, err⟩ := r
  simp only [zstdProcess, h]
  cases err with
  | true => simp
  | false =>
    simp only [Bool.false_eq_true, if_false]
    by_cases h1 : fl ≠ Flush.none ∧ inp'.length = 0 ∧ (!st'.pending) = true
    · simp only [if_pos h1]
    · simp only [if_neg h1]
      by_cases h2 : 0 < inp'.length ∧ room' = 0
      · simp only [if_pos h2]
      · simp only [if_neg h2]

/-- the decompressing zstd object as a stream-level decoder; `P` says which kinds of input the statement covers -/
def zstdStreamOfDoom (hZ : ZDecContract L Dec) (E : ZDoom hZ) (P : Kind → Prop) (hen : ∀ K, P K → K = Kind.corrupt → ZEnter E)
    (hPv : P Kind.valid) (hPt : P Kind.truncated) : StreamDecContract (zstdCodec L false) Dec where
  G K zs rest rem j := P K ∧ ZG hZ E K zs rest rem j
  pend := fun _ => 0
  start_valid := by
    intro ms xs hms
    refine ⟨hPv, ?_⟩
    have := ZG_boundary hZ E (K := Kind.valid) (fun h => by cases h) (zs := ⟨L.init, false⟩) hZ.init rfl hms (t := []) (xT := [])
      (j := 0) ⟨rfl, rfl⟩ (fun _ => rfl) (fun h => by cases h)
    simpa [zstdCodec] using this
  start_truncated := by
    intro ms xs t t' xT hms ht ht' hd
    exact ⟨hPt, ZG_boundary hZ E (K := Kind.truncated) (fun h => by cases h) (zs := ⟨L.init, false⟩) hZ.init rfl hms
      ⟨ht, t', ht', hd⟩ (fun _ => rfl) (fun h => by cases h)⟩
  no_junk := by
    intro K s rest rem j hG hK
    rcases hG.2 with ⟨_, _, _, _, _, _, _, _, _, _, _, _, _, _, _, _, _, hj0, _⟩ | ⟨_, _, _, _, _, _, _, _, _, _, _, _, _, _, hj⟩ |
        ⟨_, _, _, _, _, hj⟩ | ⟨hc, _, _⟩
    · exact hj0 hK
    · exact hj
    · exact hj
    · exact absurd hc hK
  step_none := by
    intro K s rest rem j hG n room hn hnr hroom r hr
    obtain ⟨lr, hrun, hpost⟩ := zstdLoop_dec_spec hZ E (hen K hG.1) hG.2 n room Flush.none hnr (fun h => by cases h)
    have hproc := zstdProcess_of_loop hrun
    replace hr : r = (match zstdProcess L false s (rest.take n) room Flush.none with
      | some r => r
      | none => ⟨s, 0, [], Res.error⟩) := hr
    rw [hproc] at hr
    simp only at hr
    obtain ⟨⟨st', inp', room', ai, ao⟩, err⟩ := lr
    have hlen : (rest.take n).length = n := by simp [List.length_take]; omega
    rcases hpost with ⟨he, _, hK⟩ | ⟨he, hai, hinp, hao, hroom', hreason, rem', j', hG', hL'⟩
    · simp only at he
      subst he
      simp only [if_true] at hr
      left
      exact ⟨by rw [hr], hK (by decide)⟩
    · simp only at he hai hinp hao hroom' hreason hG' hL'
      subst he
      simp only [Bool.false_eq_true, if_false, ne_eq, not_true_eq_false, false_and] at hr
      right
      have hinl : inp'.length = n - ai := by rw [hinp, List.length_drop, hlen]
      by_cases hB : 0 < inp'.length ∧ room' = 0
      · rw [if_pos hB] at hr
        subst hr
        refine ⟨by simp, hao, hai, ⟨rem', j', ⟨hG.1, hG'⟩, hL'⟩, ?_, Or.inr (Or.inr rfl)⟩
        intro _ ho
        simp only at ho
        rw [ho] at hroom'
        simp only [List.length_nil] at hroom'
        omega
      · rw [if_neg hB] at hr
        subst hr
        refine ⟨by simp, hao, hai, ⟨rem', j', ⟨hG.1, hG'⟩, hL'⟩, (by intro h; cases h), ?_⟩
        left
        show 0 < ai
        rcases hreason with ⟨h0, _⟩ | h0
        · rw [h0] at hinl; simp only [List.length_nil] at hinl; omega
        · by_cases hi : 0 < inp'.length
          · exact absurd ⟨hi, h0⟩ hB
          · omega
  step_full := by
    intro K s rem j hG room hroom r hr
    obtain ⟨lr, hrun, hpost⟩ := zstdLoop_dec_spec hZ E (hen K hG.1) hG.2 0 room Flush.full (Nat.zero_le _) (fun _ => rfl)
    simp only [List.take_zero] at hrun
    have hproc := zstdProcess_of_loop hrun
    replace hr : r = (match zstdProcess L false s [] room Flush.full with
      | some r => r
      | none => ⟨s, 0, [], Res.error⟩) := hr
    rw [hproc] at hr
    simp only at hr
    obtain ⟨⟨st', inp', room', ai, ao⟩, err⟩ := lr
    rcases hpost with ⟨he, hK, _⟩ | ⟨he, hai, hinp, hao, hroom', hreason, rem', j', hG', hL'⟩
    · simp only at he
      subst he
      simp only [if_true] at hr
      left
      exact ⟨by rw [hr], hK⟩
    · simp only at he hai hinp hao hroom' hreason hG' hL'
      subst he
      have hai0 : ai = 0 := by omega
      subst hai0
      have hin0 : inp' = [] := by rw [hinp]; simp
      subst hin0
      simp only [List.drop_zero] at hG'
      simp only [Bool.false_eq_true, if_false, List.length_nil, Nat.lt_irrefl, false_and] at hr
      right
      have hres : r.res ≠ Res.error ∧ r.consumed = 0 ∧ r.out = ao ∧ r.st = st' := by
        rw [hr]; split <;> simp
      obtain ⟨hre, hrc, hro, hrs⟩ := hres
      rw [hro, hrs]
      -- when nothing was handed out, the loop was left with `pending` clear
      have hnp : ao = [] → st'.pending = false := by
        intro h0
        rw [h0] at hroom'
        simp only [List.length_nil, Nat.sub_zero] at hroom'
        rcases hreason with ⟨_, h⟩ | h
        · cases hp : st'.pending with
          | false => rfl
          | true => exact absurd ⟨hp, trivial⟩ h
        · omega
      refine ⟨hre, hrc, hao, ⟨rem', j', ⟨hG.1, hG'⟩, hL'⟩, ?_, ?_⟩
      · intro hK ho
        have hp := hnp ho
        rw [ho] at hL'
        rw [hL'.nil_out]
        rcases hG' with ⟨u, v, w, x, ms, xs, t, xT, hR, hdec, _, _, _, hrest, _, hpend, _⟩ |
            ⟨_, _, _, _, _, hK', _⟩ | ⟨_, _, _, _, hrem', _⟩ | ⟨hK', _⟩
        · exfalso
          have hw : w = [] := (List.append_eq_nil_iff.1 hrest.symm).1
          have hu : u ≠ [] := by
            intro hu
            rw [hu, hw] at hdec
            simp only [List.append_nil] at hdec
            rw [hZ.dec_nil] at hdec; cases hdec
          rw [hpend hu] at hp; cases hp
        · rw [hK] at hK'; cases hK'
        · exact hrem'
        · rw [hK] at hK'; cases hK'
      · intro hK ho
        have hp := hnp ho
        rcases hG' with ⟨u, v, w, x, ms, xs, t, xT, hR, hdec, _, hms, htail, hrest, _, hpend, _⟩ |
            ⟨u, _, w', _, _, _, _, _, _, _, hne, hrest, _, hpend, _⟩ | ⟨hK', _⟩ | ⟨_, _, _, hpr⟩
        · have hmt := (List.append_eq_nil_iff.1 hrest.symm).2
          have ht : t = [] := (List.append_eq_nil_iff.1 hmt).2
          cases K with
          | valid => exact hK rfl
          | truncated => exact htail.1 ht
          | corrupt => exact htail.1.1 ht
        · have hu : u ≠ [] := by
            rcases hne with h | h
            · exact h
            · exact absurd hrest.symm h
          rw [hpend hu] at hp; cases hp
        · exact hK hK'
        · exact hpr hp rfl

/-- **the decompressing zstd object meets the stream-level decoder contract** (valid and truncated input) -/
def zstdDecStream (hZ : ZDecContract L Dec) : StreamDecContract (zstdCodec L false) Dec :=
  zstdStreamOfDoom hZ (ZDoom.none hZ) (fun K => K ≠ Kind.corrupt) (fun _ h1 h2 => absurd h2 h1) (by decide) (by decide)

/-- … and, with the library's error convention, also for corrupted input -/
def zstdDecErrStream (hZ : ZDecContract L Dec) (hE : ZDecErrContract hZ) : StreamDecErrContract (zstdCodec L false) Dec where
  toStreamDecContract := zstdStreamOfDoom hZ hE.toZDoom (fun _ => True) (fun _ _ _ s c hR hd => hE.enter hR hd) trivial trivial
  budget := hE.budget
  start_corrupt := by
    intro ms xs c hms hdead
    refine ⟨trivial, ?_⟩
    have := ZG_boundary hZ hE.toZDoom (K := Kind.corrupt) (fun _ s c hR hd => hE.enter hR hd) (zs := ⟨L.init, false⟩) hZ.init rfl hms
      (t := c) (xT := []) (j := hE.budget c.length) ⟨hdead, rfl⟩ (fun h => absurd rfl h) (fun _ => rfl)
    simpa [zstdCodec] using this

/-- the decompressing `process_data` of zstd.c always returns (it never spins), whatever the input -/
theorem zstdProcess_dec_total (hZ : ZDecContract L Dec) (E : ZDoom hZ) {K : Kind} (hen : K = Kind.corrupt → ZEnter E)
    {zs : ZState τ} {rest rem : Bytes} {j : Nat} (hG : ZG hZ E K zs rest rem j) (n room : Nat) (fl : Flush)
    (hn : n ≤ rest.length) (hfull : fl = Flush.full → n = rest.length) :
    (zstdProcess L false zs (rest.take n) room fl).isSome = true := by
  obtain ⟨lr, hrun, _⟩ := zstdLoop_dec_spec hZ E hen hG n room fl hn hfull
  rw [zstdProcess_of_loop hrun]; rfl

end ZDec

/-! ### non-vacuity: the toy library behind `ZSTD_decompressStream`'s interface meets the convention -/
namespace Toy

theorem decZLib_call_eq (P : Params) (s : Dec) (inp : Bytes) (room : Nat) (fl : Flush)
    (hb : s.bad = false) (hcb : (decCore P s inp room).bad = false) :
    (decZLib P).call s inp room fl =
      if (decCore P s inp room).done && decide (((decCore P s inp room).q.drop (decCore P s inp room).m).length = 0) then
        { st := decFresh, consumed := (decCore P s inp room).n,
          out := (decCore P s inp room).q.take (decCore P s inp room).m, isError := false, hint := 0 }
      else
        { st := ⟨(decCore P s inp room).q.drop (decCore P s inp room).m, (decCore P s inp room).inData,
                  (decCore P s inp room).fresh, (decCore P s inp room).done, false⟩,
          consumed := (decCore P s inp room).n, out := (decCore P s inp room).q.take (decCore P s inp room).m, isError := false,
          hint := if (decCore P s inp room).fresh && decide (((decCore P s inp room).q.drop (decCore P s inp room).m).length = 0) then 0
                  else ((decCore P s inp room).q.drop (decCore P s inp room).m).length + 1 } := by
  simp only [decZLib, hb, hcb, Bool.false_eq_true, if_false]

/-- the library's relation: the engine's, and "a frame whose end has been read still has something to hand out" (otherwise
the call that read the end would have answered 0) -/
def DecRz (s : Dec) (u v : Bytes) : Prop := DecR s u v ∧ (s.done = true → s.q ≠ [])

theorem take_pos_of {q : Bytes} {room g : Nat} (hr : 0 < room) (hq : q ≠ []) : q.take (min (min room (g + 1)) q.length) ≠ [] := by
  intro h
  have := congrArg List.length h
  rw [List.length_take, List.length_nil] at this
  have : 0 < q.length := by
    cases q with
    | nil => exact absurd rfl hq
    | cons a b => simp
  omega

def decZLibContract (P : Params) : ZDecContract (decZLib P) decode where
  R := DecRz
  init := ⟨DecR_fresh, fun h => by simp [decZLib, decFresh] at h⟩
  dec_nil := by simp [decode]
  valid := by
    intro s u v w x tail inp room fl hR hd hin hr hnz
    obtain ⟨c1, c2, c3, c4, c5, c6, c7, c8, c9, c10, c11, c12⟩ := decCore_spec P hR.1 hd inp tail hin room
    rw [decZLib_call_eq P s inp room fl hR.1.1 c1]
    generalize decCore P s inp room = c at *
    have htl : (c.q.take c.m).length ≤ room := by rw [List.length_take, c9]; omega
    have hpre : IsPre (v ++ c.q.take c.m) x := pre_take c.m c5
    by_cases h1 : (c.done && decide ((c.q.drop c.m).length = 0)) = true
    · rw [if_pos h1]
      simp only [Bool.and_eq_true, decide_eq_true_eq] at h1
      have hx : v ++ c.q.take c.m = x := by rw [drop_take_len h1.2]; exact c7 h1.1
      exact ⟨rfl, c2, c3, htl, hpre, ⟨fun _ => ⟨c6.1 h1.1, hx⟩, fun _ => rfl⟩, fun _ => ⟨DecR_fresh, fun h => by simp [decFresh] at h⟩,
        fun h => absurd rfl h⟩
    · rw [if_neg h1]
      -- the hint is not 0 here
      have hhint : (if c.fresh && decide ((c.q.drop c.m).length = 0) then 0 else (c.q.drop c.m).length + 1) ≠ 0 := by
        intro h0
        split at h0
        · rename_i hf
          simp only [Bool.and_eq_true, decide_eq_true_eq] at hf
          rw [c8] at hf
          simp only [Bool.and_eq_true, decide_eq_true_eq] at hf
          obtain ⟨⟨hsf, hn0⟩, _⟩ := hf
          have hu : u = [] := by
            have := hR.1.2.2
            rw [hsf] at this
            simpa using this.symm
          have hinp : inp ≠ [] := by
            rcases hnz with h | h
            · exact absurd hu h
            · exact h
          have hp := hR.1.2.1
          rw [hu, parse_nil] at hp
          simp only [Prod.mk.injEq, List.length_nil] at hp
          obtain ⟨_, hvq, _, hdn, _⟩ := hp
          have hq0 : s.q.length ≤ P.thresh := by
            have := congrArg List.length hvq
            simp only [List.length_nil, List.length_append] at this
            omega
          have := c11 hdn.symm hq0 hinp
          omega
        · omega
      refine ⟨rfl, c2, c3, htl, hpre, ⟨fun h => absurd h hhint, ?_⟩, fun h => absurd h hhint, fun _ => ⟨⟨rfl, ?_, ?_⟩, ?_⟩⟩
      · rintro ⟨hcn, hx⟩
        exfalso
        apply h1
        have hdone : c.done = true := c6.2 hcn
        have hfull := c7 hdone
        have : c.q.take c.m = c.q := List.append_cancel_left (hx.trans hfull.symm)
        have hl := congrArg List.length this
        simp only [Bool.and_eq_true, decide_eq_true_eq]
        refine ⟨hdone, ?_⟩
        rw [List.length_drop]
        rw [List.length_take] at hl
        omega
      · simp only [List.length_append, List.length_take, Nat.min_eq_left c2, List.append_assoc, List.take_append_drop]
        exact c4
      · simp only [c8, hR.1.2.2]
        by_cases hu : u = []
        · by_cases hn : c.n = 0
          · simp [hu, hn]
          · have : inp.take c.n ≠ [] := by
              intro h; have := congrArg List.length h; simp only [List.length_take, List.length_nil] at this; omega
            simp [hu, hn, this]
        · simp [hu]
      · intro hdone hq
        apply h1
        simp only at hdone hq
        simp [hdone, hq]
  bytes := by
    intro s u v w x tail inp room fl hR hd hin hr hne
    obtain ⟨c1, c2, c3, c4, c5, c6, c7, c8, c9, c10, c11, c12⟩ := decCore_spec P hR.1 hd inp tail hin room
    obtain ⟨_, hf2, hf3⟩ := DecR_facts hR.1 hd
    rw [decZLib_call_eq P s inp room fl hR.1.1 c1]
    by_cases h1 : ((decCore P s inp room).done && decide (((decCore P s inp room).q.drop (decCore P s inp room).m).length = 0)) = true
    · rw [if_pos h1]
      show 0 < (decCore P s inp room).n + ((decCore P s inp room).q.take (decCore P s inp room).m).length
      simp only [Bool.and_eq_true, decide_eq_true_eq] at h1
      cases hdn : s.done with
      | true =>
        have hq := hR.2 hdn
        have hn0 : (decCore P s inp room).n = 0 := by
          have := (hf2 hdn).1
          rw [this] at c3; simpa using c3
        have := take_pos_of (g := P.gran) hr hq
        rw [← c10 hn0, ← c9] at this
        have : 0 < ((decCore P s inp room).q.take (decCore P s inp room).m).length := by
          cases hh : (decCore P s inp room).q.take (decCore P s inp room).m with
          | nil => exact absurd hh this
          | cons a b => simp
        omega
      | false =>
        have hw := hf3 hdn
        have := c6.1 h1.1
        have : 0 < w.length := by
          cases w with
          | nil => exact absurd rfl hw
          | cons a b => simp
        omega
    · rw [if_neg h1]
      have hns := dec_not_stuck P hR.1 hd inp tail hin hr hne (by
        intro h; apply h1; simp [h.1, h.2])
      show 0 < (decCore P s inp room).n + ((decCore P s inp room).q.take (decCore P s inp room).m).length
      rw [List.length_take]
      have : (decCore P s inp room).m ≤ (decCore P s inp room).q.length := by rw [c9]; omega
      omega
  drain := by
    intro s u v w x tail inp room fl hR hd hin hr _ hcw
    obtain ⟨c1, c2, c3, c4, c5, c6, c7, c8, c9, _⟩ := decCore_spec P hR.1 hd inp tail hin room
    rw [decZLib_call_eq P s inp room fl hR.1.1 c1] at hcw ⊢
    by_cases h1 : ((decCore P s inp room).done && decide (((decCore P s inp room).q.drop (decCore P s inp room).m).length = 0)) = true
    · rw [if_pos h1]; exact Or.inr rfl
    · rw [if_neg h1] at hcw ⊢
      left
      have hdone : (decCore P s inp room).done = true := c6.2 hcw
      have hq : 0 < ((decCore P s inp room).q.drop (decCore P s inp room).m).length := by
        by_cases h : ((decCore P s inp room).q.drop (decCore P s inp room).m).length = 0
        · exfalso; apply h1; simp [hdone, h]
        · omega
      show (decCore P s inp room).q.take (decCore P s inp room).m ≠ []
      intro h
      have := congrArg List.length h
      rw [List.length_take, List.length_nil] at this
      rw [List.length_drop] at hq
      rw [c9] at this hq
      omega

end Toy

end Sqfs.Xfrm
