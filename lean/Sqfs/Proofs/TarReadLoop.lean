/-
C04 — one iteration of the `for (;;)` loop of `read_header` on a record whose header block the reader accepts:
GNU 'K' / 'L' records, the PAX 'x' record, and the final (real) header.
-/
import Sqfs.Proofs.TarHeaderBlock
import Sqfs.Proofs.TarPaxRT
import Sqfs.Proofs.TarNumberRT
namespace Sqfs.Tar

/-- what `read_header` needs to know about a 512-byte header block -/
structure IsHdr (H : Bytes) (tf : UInt8) (sz : Nat) : Prop where
  len : H.length = 512
  nz : isZeroBlock H = false
  ver : (checkVersion H).isSome = true            -- any of the three dialects: v7, pre-POSIX/GNU, POSIX ustar
  ck : isChecksumValid H = true
  tfl : (slice H 156 1).headD 0 = tf
  size : readNumber (slice H 124 12) = some sz

theorem hdrBlock_isHdr (name : Bytes) (mode uid gid size : Nat) (mtime : Int) (tf : UInt8) (linkname : Bytes) (maj min : Nat)
    (hn : name.length = 100) (hl : linkname.length = 100) (hs : size < U64) :
    IsHdr (hdrBlock name mode uid gid size mtime tf linkname maj min) tf size where
  len := hdrBlock_length name mode uid gid size mtime tf linkname maj min hn hl
  nz := hdrBlock_nonzero name mode uid gid size mtime tf linkname maj min hn hl
  ver := by rw [hdrBlock_version name mode uid gid size mtime tf linkname maj min hn hl]; rfl
  ck := hdrBlock_checksum name mode uid gid size mtime tf linkname maj min hn hl
  tfl := by rw [blk_typeflag name mode uid gid size mtime tf linkname maj min hn hl]; rfl
  size := by
    rw [blk_size name mode uid gid size mtime tf linkname maj min hn hl]
    exact readNumber_writeNumber12 size hs

/-- `sqfs_istream_skip` over bytes that are there -/
theorem istreamSkip_exact (z s' : Bytes) (k : Nat) (hk : z.length = k) : istreamSkip (z ++ s') k = some s' := by
  unfold istreamSkip
  have : ¬ (z ++ s').length < k := by simp [hk]
  rw [if_neg this, List.drop_left' hk]

theorem istreamSkip_zero (s : Bytes) : istreamSkip s 0 = some s := by
  simp [istreamSkip]

theorem recordToMemory_exact (p s' : Bytes) :
    recordToMemory (p ++ (zeros (padding p.length) ++ s')) p.length = some (p, s') := by
  unfold recordToMemory
  have : ¬ (p ++ (zeros (padding p.length) ++ s')).length < p.length := by simp
  rw [if_neg this, List.take_left' rfl, List.drop_left' rfl, istreamSkip_exact _ _ _ (zeros_length _)]

section steps
variable (cfg : ReadCfg) (f : Nat) (H p s' : Bytes) (out : Decoded) (mask : Nat) (pz : Bool)

private theorem len_ok (hl : H.length = 512) (X : Bytes) : ¬ (H ++ X).length < 512 := by simp [hl]

/-- GNU 'K' record: header, payload, padding -/
theorem loop_K (h : IsHdr H 75 p.length) (h1 : 1 ≤ p.length) (h2 : p.length ≤ 65536) :
    readHeaderLoop cfg (f + 1) (H ++ (p ++ (zeros (padding p.length) ++ s'))) out mask pz =
      readHeaderLoop cfg f s' { out with link := some (cstr p) } (setFlag mask PAX_SLINK_TARGET) false := by
  obtain ⟨v, hv⟩ := Option.isSome_iff_exists.1 h.ver
  rw [readHeaderLoop]
  simp only [len_ok H h.len, if_false, List.take_left' h.len, List.drop_left' h.len, h.nz, hv, h.ck, h.tfl, h.size,
    Bool.false_eq_true, not_true_eq_false, if_true, recordToMemory_exact]
  have : ¬ (p.length < 1 ∨ p.length > 65536) := by omega
  simp only [this, if_false]

/-- GNU 'L' record -/
theorem loop_L (h : IsHdr H 76 p.length) (h1 : 1 ≤ p.length) (h2 : p.length ≤ 65536) :
    readHeaderLoop cfg (f + 1) (H ++ (p ++ (zeros (padding p.length) ++ s'))) out mask pz =
      readHeaderLoop cfg f s' { out with name := some (cstr p) } (setFlag mask PAX_NAME) false := by
  obtain ⟨v, hv⟩ := Option.isSome_iff_exists.1 h.ver
  rw [readHeaderLoop]
  simp only [len_ok H h.len, if_false, List.take_left' h.len, List.drop_left' h.len, h.nz, hv, h.ck, h.tfl, h.size,
    Bool.false_eq_true, not_true_eq_false, if_true, recordToMemory_exact]
  have : ¬ (p.length < 1 ∨ p.length > 65536) := by omega
  have h75 : ¬ ((76 : UInt8) = 75) := by decide
  simp only [this, h75, if_false, if_true]

/-- PAX 'x' record: the header is cleared, `set_by_pax` reset, then the payload's records are applied -/
theorem loop_x (h : IsHdr H 120 p.length) (h1 : 1 ≤ p.length) (h2 : p.length ≤ 65536) (out' : Decoded) (mask' : Nat)
    (hp : readPaxHeader ⟨cfg.xattrKeepOrder, cfg.schilyKeyDecode⟩ p {} 0 = some (out', mask')) :
    readHeaderLoop cfg (f + 1) (H ++ (p ++ (zeros (padding p.length) ++ s'))) out mask pz =
      readHeaderLoop cfg f s' out' mask' false := by
  obtain ⟨v, hv⟩ := Option.isSome_iff_exists.1 h.ver
  rw [readHeaderLoop]
  simp only [len_ok H h.len, if_false, List.take_left' h.len, List.drop_left' h.len, h.nz, hv, h.ck, h.tfl, h.size,
    Bool.false_eq_true, not_true_eq_false, if_true, recordToMemory_exact]
  have : ¬ (p.length < 1 ∨ p.length > 65536) := by omega
  have h75 : ¬ ((120 : UInt8) = 75) := by decide
  have h76 : ¬ ((120 : UInt8) = 76) := by decide
  have h103 : ¬ ((120 : UInt8) = 103) := by decide
  simp only [this, h75, h76, h103, if_false, if_true, hp]

end steps

end Sqfs.Tar
