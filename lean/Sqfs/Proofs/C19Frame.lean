import Sqfs.Proofs.ObjRestore
/-! C19: whatever `sqfs_copy` does — succeed, or fail at any allocation and clean up — the cells that existed before
are framed (`Frame`); with the balance theorem this gives: a failed `sqfs_copy` leaves exactly the heap there was. -/
namespace Sqfs.Obj

theorem Frame.fail (h : Heap) (c : Crash) : Frame h (h.fail c) := Frame.of_shrinks (Shrinks.fail h c)

theorem Frame.takeAlloc (h : Heap) : Frame h (takeAlloc h).1 := by
  obtain ⟨bud, hb, _⟩ := takeAlloc_spec h
  rw [hb]
  exact ⟨Nat.le_refl _, Nat.le_refl _, fun _ _ => Or.inr rfl, fun _ _ => Or.inr rfl⟩

theorem Frame.allocBuf (h : Heap) (bf : Buf) : Frame h (allocBuf h bf).1 := by
  rcases allocBuf_spec h bf with he | he
  · rw [he]; exact Frame.takeAlloc h
  · rw [he]
    obtain ⟨bud, hb, _⟩ := takeAlloc_spec h
    rw [hb]
    refine ⟨Nat.le_refl _, Nat.le_succ _, fun _ _ => Or.inr rfl, ?_⟩
    intro b hb'
    right
    have : b ≠ h.nbuf := by omega
    simp [upd, this]

theorem Frame.grab (h : Heap) (x : Nat) : Frame h (Sqfs.Obj.grab h x) := by
  unfold Sqfs.Obj.grab
  split
  · exact Frame.refl _
  · split
    · exact Frame.fail _ _
    · rename_i o ho
      refine ⟨Nat.le_refl _, Nat.le_refl _, ?_, fun _ _ => Or.inr rfl⟩
      intro j _
      right
      by_cases hj : j = x
      · subst hj; simp [upd, ho, Obj.erase]
      · simp [upd, hj]

theorem Frame.drop (n : Nat) (h : Heap) (x : Nat) : Frame h (Sqfs.Obj.drop n h x) := Frame.of_shrinks (Shrinks.drop n h x)

theorem Frame.foldl {α : Type} (f : Heap → α → Heap) (hf : ∀ h a, Frame h (f h a)) : ∀ (l : List α) (h : Heap), Frame h (l.foldl f h) := by
  intro l
  induction l with
  | nil => intro h; exact Frame.refl _
  | cons a t ih => intro h; exact (hf h a).trans (ih (f h a))

theorem Frame.copyBufs : ∀ (bs : List (Option Nat)) (as : List BufAct) (h : Heap), Frame h (Sqfs.Obj.copyBufs h bs as).1 := by
  intro bs
  induction bs with
  | nil => intro as h; simp only [Sqfs.Obj.copyBufs]; exact Frame.refl _
  | cons x bs ih =>
    intro as h
    cases as with
    | nil => simp only [Sqfs.Obj.copyBufs]; exact Frame.refl _
    | cons a as =>
      cases x with
      | none => simp only [Sqfs.Obj.copyBufs, consSlot]; exact ih as h
      | some b =>
        simp only [Sqfs.Obj.copyBufs]
        split
        · simp only [consSlot]; exact ih as h
        · split
          · exact Frame.fail _ _
          · split
            · simp only [consSlot]; exact ih as h
            · rename_i bf _ _
              generalize hnb : (if a = BufAct.trim then ({ cap := bf.used, used := bf.used, val := bf.val } : Buf)
                else if a = BufAct.garble then { cap := bf.cap, used := bf.used, val := bf.val + 1 } else bf) = nbf
              have fa := Frame.allocBuf h nbf
              rcases hal : Sqfs.Obj.allocBuf h nbf with ⟨h1, r⟩
              rw [hal] at fa
              cases r with
              | none => exact fa
              | some id => simp only [consSlot]; exact fa.trans (ih as h1)

theorem Frame.copyRefs (cp : Heap → Nat → Heap × Option Nat) (hcp : ∀ h x, Frame h (cp h x).1) :
    ∀ (rs : List (Option Nat)) (as : List RefAct) (h : Heap), Frame h (Sqfs.Obj.copyRefs cp h rs as).1 := by
  intro rs
  induction rs with
  | nil => intro as h; simp only [Sqfs.Obj.copyRefs]; exact Frame.refl _
  | cons x rs ih =>
    intro as h
    cases as with
    | nil => simp only [Sqfs.Obj.copyRefs]; exact Frame.refl _
    | cons a as =>
      cases x with
      | none => simp only [Sqfs.Obj.copyRefs, consSlot]; exact ih as h
      | some r =>
        cases a with
        | alias => simp only [Sqfs.Obj.copyRefs, consSlot]; exact ih as h
        | grab => simp only [Sqfs.Obj.copyRefs, consSlot]; exact (Frame.grab h r).trans (ih as _)
        | deep =>
          simp only [Sqfs.Obj.copyRefs]
          have fc := hcp h r
          rcases hc : cp h r with ⟨h1, q⟩
          rw [hc] at fc
          cases q with
          | none => exact fc
          | some y => simp only [consSlot]; exact fc.trans (ih as h1)

theorem Shrinks.freeSlot (h : Heap) (s : Option Nat) : Shrinks h (Sqfs.Obj.freeSlot h s) := by
  cases s with
  | none => exact Shrinks.refl _
  | some b => exact Shrinks.freeBuf h b

theorem Shrinks.dropOpt (n : Nat) (h : Heap) (s : Option Nat) : Shrinks h (Sqfs.Obj.dropOpt n h s) := by
  cases s with
  | none => exact Shrinks.refl _
  | some b => exact Shrinks.drop n h b

/-- the failure path of a hook only drops and frees -/
theorem Shrinks.failPath (d : CopyDesc) (h : Heap) (o : Obj) (nr nb : List (Option Nat)) : Shrinks h (Sqfs.Obj.failPath d h o nr nb) := by
  unfold Sqfs.Obj.failPath
  split
  · exact (Shrinks.foldl _ (fun h a => Shrinks.drop _ h a) _ h).trans (Shrinks.foldl _ Shrinks.freeBuf _ _)
  · have a := (Shrinks.foldl _ (fun h' a => Shrinks.drop h.nobj h' a)
      (List.filterMap (fun x => match x with | (x, _, act) => if act = RefAct.alias then none else x) (nr.zip (o.refs.zip d.refs))) h).trans
      (Shrinks.foldl _ Shrinks.freeBuf (List.filterMap (fun x => match x with | (x, orig) => if x ≠ orig then x else none) (nb.zip o.bufs)) _)
    simp only
    split
    · exact a.trans (Shrinks.freeSlot _ _)
    · exact a
  · exact (Shrinks.foldl _ (fun h' a => Shrinks.dropOpt h.nobj h' a) _ h).trans (Shrinks.foldl _ Shrinks.freeBuf _ _)

theorem Frame.finishCopy (d : CopyDesc) (h : Heap) (o : Obj) (nb nr : List (Option Nat)) : Frame h (Sqfs.Obj.finishCopy d h o nb nr).1 := by
  unfold Sqfs.Obj.finishCopy
  refine ⟨Nat.le_succ _, Nat.le_refl _, ?_, fun _ _ => Or.inr rfl⟩
  intro j hj
  right
  have : j ≠ h.nobj := by omega
  simp [upd, this]

/-- **frame of `sqfs_copy`**, for any hook descriptions, any fuel, any allocation budget, success or failure -/
theorem Frame.sqfsCopy (D : Kind → CopyDesc) : ∀ (n : Nat) (h : Heap) (x : Nat), Frame h (Sqfs.Obj.sqfsCopy D n h x).1 := by
  intro n
  induction n with
  | zero => intro h x; exact Frame.fail _ _
  | succ n ih =>
    intro h x
    rw [Sqfs.Obj.sqfsCopy]
    split
    · exact Frame.refl _
    · split
      · exact Frame.fail _ _
      · rename_i o ho
        split
        · exact Frame.refl _
        · have f0 := Frame.takeAlloc h
          rcases hta : Sqfs.Obj.takeAlloc h with ⟨h0, ok0⟩
          rw [hta] at f0
          cases ok0 with
          | false => exact f0
          | true =>
            simp only
            split
            · have f1 := Frame.copyRefs (Sqfs.Obj.sqfsCopy D n) ih o.refs (D o.kind).refs h0
              rcases hr1 : Sqfs.Obj.copyRefs (Sqfs.Obj.sqfsCopy D n) h0 o.refs (D o.kind).refs with ⟨h1, nr, ok1⟩
              rw [hr1] at f1
              cases ok1 with
              | false => exact (f0.trans f1).trans (Frame.of_shrinks (Shrinks.failPath _ _ _ _ _))
              | true =>
                simp only
                have f2 := Frame.copyBufs o.bufs (D o.kind).bufs h1
                rcases hr2 : Sqfs.Obj.copyBufs h1 o.bufs (D o.kind).bufs with ⟨h2, nb, ok2⟩
                rw [hr2] at f2
                cases ok2 with
                | false => exact ((f0.trans f1).trans f2).trans (Frame.of_shrinks (Shrinks.failPath _ _ _ _ _))
                | true => exact ((f0.trans f1).trans f2).trans (Frame.finishCopy _ _ _ _ _)
            · have f1 := Frame.copyBufs o.bufs (D o.kind).bufs h0
              rcases hr1 : Sqfs.Obj.copyBufs h0 o.bufs (D o.kind).bufs with ⟨h1, nb, ok1⟩
              rw [hr1] at f1
              cases ok1 with
              | false => exact (f0.trans f1).trans (Frame.of_shrinks (Shrinks.failPath _ _ _ _ _))
              | true =>
                simp only
                have f2 := Frame.copyRefs (Sqfs.Obj.sqfsCopy D n) ih o.refs (D o.kind).refs h1
                rcases hr2 : Sqfs.Obj.copyRefs (Sqfs.Obj.sqfsCopy D n) h1 o.refs (D o.kind).refs with ⟨h2, nr, ok2⟩
                rw [hr2] at f2
                cases ok2 with
                | false => exact ((f0.trans f1).trans f2).trans (Frame.of_shrinks (Shrinks.failPath _ _ _ _ _))
                | true => exact ((f0.trans f1).trans f2).trans (Frame.finishCopy _ _ _ _ _)

/-- the injected budget is no cell -/
theorem Frame.ofBudget {h h' : Heap} {b : Option Nat} (f : Frame { h with budget := b } h') : Frame h h' :=
  ⟨f.nobj, f.nbuf, f.objs, f.bufs⟩

end Sqfs.Obj
