/-
C01 — one step of `sqfs_serialize_fstree`, in full: which inode is written (its reader-visible content is the node's
attributes on top of the payload the directory writer / block processor / `tree_node_to_inode` produced), which id-table
indices it carries and what those slots hold, and what happens to the directory stream.
-/
import Sqfs.Proofs.EncTree
namespace Sqfs.Enc
open Sqfs.Consts
open Sqfs.DirWriter (DEnt Run addEntry dirEnd dirEndGo encodeRun createInode createInodeCap dirSizeOf RunOk maxIndex)

/-- the inode handed to the second half of `serialize_tree_node` -/
def preInode (st : TreeSt) (n : NodeIn) : Option Inode :=
  match n.kind with
  | .dir ents => match addAllEntries ents with
    | .ok des => some (dirInodeOf st.dirs.length n des)
    | .error _ => none
  | .reg inode => some inode
  | .other devno target => treeNodeToInode n.attr.mode n.attr.linkCount devno target

/-- a view with the two id-table indices replaced -/
def withIds (u g : Nat) (v : View) : View := { v with base := { v.base with uidIdx := u, gidIdx := g } }

theorem step_prefix (lim : Nat) (tbl : List Nat) (id i : Nat) (t : List Nat) (h : Sqfs.IdTable.step lim tbl id = some (i, t)) :
    ∃ e, t = tbl ++ e := by
  unfold Sqfs.IdTable.step at h
  simp only at h
  split at h
  · cases h; exact ⟨[], by simp⟩
  · split at h
    · cases h
    · cases h; exact ⟨_, rfl⟩

/-- the id table is in a state the serializer can have produced -/
def IdsOk (ids : List Nat) : Prop := ids.length ≤ Sqfs.IdTable.limit ∧ ids.Nodup

theorem serializeStep_full (bs : Nat) (st st' : TreeSt) (n : NodeIn) (i0 : Inode) (dirs later : Bytes)
    (hok : NodeInOk bs st n) (hbody : WfBody bs i0) (hmode : n.attr.mode / 4096 * 4096 = i0.typeBits)
    (h : serializeStep st n i0 dirs = .ok st') :
    ∃ ui gi, WfInode bs (setIds ui gi (serializeInode n.kind.isDir n.kind.isReg n.attr i0))
      ∧ st'.inodes = st.inodes ++ encInode (setIds ui gi (serializeInode n.kind.isDir n.kind.isReg n.attr i0))
      ∧ st'.dirs = dirs
      ∧ decInode bs ((st'.inodes ++ later).drop st.inodes.length)
          = .ok (setIds ui gi (serializeInode n.kind.isDir n.kind.isReg n.attr i0), later)
      ∧ IdsOk st'.ids ∧ (∃ e, st'.ids = st.ids ++ e) ∧ st'.ids[ui]? = some n.uid ∧ st'.ids[gi]? = some n.gid := by
  unfold serializeStep at h
  simp only at h
  cases h1 : Sqfs.IdTable.step Sqfs.IdTable.limit st.ids n.uid with
  | none => rw [h1] at h; cases h
  | some r1 =>
    obtain ⟨ui, ids1⟩ := r1
    rw [h1] at h
    simp only at h
    cases h2 : Sqfs.IdTable.step Sqfs.IdTable.limit ids1 n.gid with
    | none => rw [h2] at h; cases h
    | some r2 =>
      obtain ⟨gi, ids2⟩ := r2
      rw [h2] at h
      simp only [Except.ok.injEq] at h
      subst h
      obtain ⟨a1, a2, _, a4, a5⟩ := Sqfs.IdTable.step_spec _ _ _ _ _ hok.ids.1 hok.ids.2 h1
      obtain ⟨b1, b2, _, b4, b5⟩ := Sqfs.IdTable.step_spec _ _ _ _ _ a1 a4 h2
      obtain ⟨e1, he1⟩ := step_prefix _ _ _ _ _ h1
      obtain ⟨e2, he2⟩ := step_prefix _ _ _ _ _ h2
      have hl : Sqfs.IdTable.limit = 65535 := rfl
      have hwf := serialize_wf' bs n.kind.isDir n.kind.isReg n.attr ui gi i0 hbody ⟨hok.mode, hmode⟩ hok.mtime hok.inum hok.lc
        hok.xattr (by omega) (by omega)
      refine ⟨ui, gi, hwf, rfl, rfl, ?_, ⟨b1, b4⟩, ⟨e1 ++ e2, by simp only [he2, he1, List.append_assoc]⟩, ?_, b5⟩
      · simp only [List.append_assoc, List.drop_left]
        exact decInode_encInode bs _ later hwf
      · simp only [he2]
        rw [List.getElem?_append_left a2]; exact a5

/-- **One step of the serializer, in full.** -/
theorem serializeNode_full (bs : Nat) (st st' : TreeSt) (n : NodeIn) (later : Bytes)
    (hn : NodeInOk bs st n) (hlc : 1 ≤ n.attr.linkCount) (h : serializeNode st n = .ok st') :
    ∃ i i0 ui gi, preInode st n = some i0 ∧ WfInode bs i ∧ st'.inodes = st.inodes ++ encInode i
      ∧ decInode bs ((st'.inodes ++ later).drop st.inodes.length) = .ok (i, later)
      ∧ i.view = withIds ui gi (wanted n.attr i0.view)
      ∧ IdsOk st'.ids ∧ (∃ e, st'.ids = st.ids ++ e) ∧ st'.ids[ui]? = some n.uid ∧ st'.ids[gi]? = some n.gid
      ∧ (∀ ents, n.kind = .dir ents → ∃ des, addAllEntries ents = .ok des
          ∧ st'.dirs = st.dirs ++ encListing rawCost (st.dirs.length / metaBlockSize * rawCost) (st.dirs.length % metaBlockSize) des
          ∧ (∀ e ∈ des, WfDEnt e)
          ∧ i0 = dirInodeOf st.dirs.length n des
          ∧ ∀ stream, openDir i stream
              = some ⟨stream, listingSize rawCost (st.dirs.length / metaBlockSize * rawCost) (st.dirs.length % metaBlockSize) des + 3, 0, 0, 0⟩)
      ∧ (n.kind.isDir = false → st'.dirs = st.dirs ∧ i0.view.typeBits ≠ sIFDIR) := by
  have hk := hn.kind
  unfold serializeNode at h
  cases hkind : n.kind with
  | dir ents =>
    rw [hkind] at h hk
    simp only at h hk
    obtain ⟨hm, hpar, hents, hsz⟩ := hk
    cases hae : addAllEntries ents with
    | error e => rw [hae] at h; cases h
    | ok des =>
      rw [hae] at h
      simp only at h
      have hspec := addAllEntries_spec ents des hae
      obtain ⟨w1, w2, w3, w4⟩ := dirInodeOf_spec bs st.dirs.length n des hn.lc hn.xattr hpar
        (fun e he => ⟨(hspec e he).1, (hspec e he).2.1⟩) (hsz des hae)
      have htb : n.attr.mode / 4096 * 4096 = (dirInodeOf st.dirs.length n des).typeBits := by rw [← view_typeBits, w2]; exact hm
      obtain ⟨ui, gi, s1, s2, s3, s4, s5, s6, s7, s8⟩ := serializeStep_full bs st st' n _ _ later hn w1 htb h
      have hisd : n.kind.isDir = true ∧ n.kind.isReg = false := by rw [hkind]; exact ⟨rfl, rfl⟩
      rw [hisd.1, hisd.2] at s1 s2 s4
      have hview : (serializeInode true false n.attr (dirInodeOf st.dirs.length n des)).view
          = wanted n.attr (dirInodeOf st.dirs.length n des).view := by
        obtain ⟨J, hJ⟩ : ∃ J, J = DirInode.toInode (createInode
            (((st.dirs.length / metaBlockSize * rawCost) <<< 16) ||| (st.dirs.length % metaBlockSize))
            (dirEnd rawCost (st.dirs.length / metaBlockSize * rawCost) (st.dirs.length % metaBlockSize) des) des.length 0
            n.attr.xattrIdx n.parentInum) := ⟨_, rfl⟩
        have hdef : dirInodeOf st.dirs.length n des = setDirNlink n.attr.linkCount J := by rw [hJ]; rfl
        have hJt : J.view.typeBits = sIFDIR := by rw [hJ]; exact toInode_typeBits _
        rw [hdef] at w3 ⊢
        have hx' : J.isExt = false → n.attr.xattrIdx = NONE32 := by
          intro hne; apply w3; cases J <;> first | rfl | cases hne
        rw [(serialize_dir_view n.attr J hJt hx').1]
        cases J <;> rfl
      have hpre : preInode st n = some (dirInodeOf st.dirs.length n des) := by
        simp only [preInode, hkind, hae]
      refine ⟨_, _, ui, gi, hpre, s1, s2, s4, ?_, s5, s6, s7, s8, ?_, ?_⟩
      · rw [setIds_view, hview]; rfl
      · intro ents' he
        cases he
        refine ⟨des, hae, s3, ?_, rfl, ?_⟩
        · intro e he
          obtain ⟨a, b, c, x, hx, d1, d2⟩ := hspec e he
          obtain ⟨e1, e2⟩ := hents x hx
          exact ⟨a, by omega, by rw [d1]; exact e1, by omega, by rw [d2]; exact e2⟩
        · intro stream
          have hv2 : (setIds ui gi (serializeInode true false n.attr (dirInodeOf st.dirs.length n des))).view.nums
              = (dirInodeOf st.dirs.length n des).view.nums := by rw [setIds_view, hview]; rfl
          have ht2 : (setIds ui gi (serializeInode true false n.attr (dirInodeOf st.dirs.length n des))).view.typeBits = sIFDIR := by
            rw [setIds_view, hview]; exact w2
          rw [openDir_of_dir _ _ ht2, hv2, ← openDir_of_dir _ _ w2]
          exact w4 stream
      · intro hnd; cases hnd
  | reg inode =>
    rw [hkind] at h hk
    simp only at h hk
    obtain ⟨hm, htb, hbody⟩ := hk
    have htb' : n.attr.mode / 4096 * 4096 = inode.typeBits := by rw [← view_typeBits, htb]; exact hm
    obtain ⟨ui, gi, s1, s2, s3, s4, s5, s6, s7, s8⟩ := serializeStep_full bs st st' n inode st.dirs later hn hbody htb' h
    have hisd : n.kind.isDir = false ∧ n.kind.isReg = true := by rw [hkind]; exact ⟨rfl, rfl⟩
    rw [hisd.1, hisd.2] at s1 s2 s4
    have hpre : preInode st n = some inode := by simp only [preInode, hkind]
    refine ⟨_, _, ui, gi, hpre, s1, s2, s4, ?_, s5, s6, s7, s8, ?_, ?_⟩
    · rw [setIds_view, serialize_file_view n.attr inode hlc htb]; rfl
    · intro ents he; cases he
    · intro _; exact ⟨s3, by rw [htb]; decide⟩
  | other devno target =>
    rw [hkind] at h hk
    simp only at h hk
    obtain ⟨hd, htl, hcons⟩ := hk
    cases ht : treeNodeToInode n.attr.mode n.attr.linkCount devno target with
    | none => rw [ht] at h; cases h
    | some i0 =>
      rw [ht] at h
      simp only at h
      have hbody : WfBody bs i0 ∧ i0.view.typeBits ≠ sIFDIR := by
        unfold treeNodeToInode at ht
        simp only at ht
        have hl := hn.lc
        split at ht
        · cases ht; exact ⟨hl, by simp [Inode.view, sIFDIR, sIFSOCK, sIFIFO, sIFLNK, sIFBLK, sIFCHR]⟩
        · split at ht
          · cases ht; exact ⟨hl, by simp [Inode.view, sIFDIR, sIFSOCK, sIFIFO, sIFLNK, sIFBLK, sIFCHR]⟩
          · split at ht
            · cases ht; exact ⟨⟨hl, htl, rfl⟩, by simp [Inode.view, sIFDIR, sIFSOCK, sIFIFO, sIFLNK, sIFBLK, sIFCHR]⟩
            · split at ht
              · cases ht; exact ⟨⟨hl, hd⟩, by simp [Inode.view, sIFDIR, sIFSOCK, sIFIFO, sIFLNK, sIFBLK, sIFCHR]⟩
              · split at ht
                · cases ht; exact ⟨⟨hl, hd⟩, by simp [Inode.view, sIFDIR, sIFSOCK, sIFIFO, sIFLNK, sIFBLK, sIFCHR]⟩
                · cases ht
      obtain ⟨ui, gi, s1, s2, s3, s4, s5, s6, s7, s8⟩ := serializeStep_full bs st st' n i0 st.dirs later hn hbody.1 (hcons i0 ht) h
      have hisd : n.kind.isDir = false ∧ n.kind.isReg = false := by rw [hkind]; exact ⟨rfl, rfl⟩
      rw [hisd.1, hisd.2] at s1 s2 s4
      have hpre : preInode st n = some i0 := by simp only [preInode, hkind, ht]
      refine ⟨_, _, ui, gi, hpre, s1, s2, s4, ?_, s5, s6, s7, s8, ?_, ?_⟩
      · rw [setIds_view, (serialize_other n.attr devno target i0 ht).1]; rfl
      · intro ents he; cases he
      · intro _; exact ⟨s3, hbody.2⟩

end Sqfs.Enc
