/-
Helper lemmas for the tar number codec (C04).
-/
import Sqfs.Spec.TarNumber
import Mathlib.Tactic.Ring
import Mathlib.Tactic.Linarith
namespace Sqfs.Tar

/-! ### octal reader = specification -/

theorem octRun_ge (acc : Nat) (f : Bytes) : acc ≤ octRun acc f := by
  induction f generalizing acc with
  | nil => simp [octRun]
  | cons c t ih =>
    unfold octRun
    split
    · have := ih (acc * 8 + (c.toNat - 48)); omega
    · omega

theorem octLoop_spec (acc : Nat) (f : Bytes) (hacc : acc < U64) :
    octLoop acc f = if octRun acc f < U64 then some (octRun acc f) else none := by
  induction f generalizing acc with
  | nil => simp [octLoop, octRun, hacc]
  | cons c t ih =>
    unfold octLoop octRun
    by_cases hd : isOctDigit c = true
    · simp only [hd, if_true]
      have hc : c.toNat - 48 < 8 := by
        simp only [isOctDigit, Bool.and_eq_true, decide_eq_true_eq] at hd; omega
      by_cases hov : acc > 0x1FFFFFFFFFFFFFFF
      · have := octRun_ge (acc * 8 + (c.toNat - 48)) t
        have : ¬ octRun (acc * 8 + (c.toNat - 48)) t < U64 := by simp only [U64]; omega
        simp [hov, this]
      · simp only [hov, if_false]
        apply ih
        simp only [U64]; omega
    · simp [hd, hacc]

theorem readOctal_spec (f : Bytes) :
    readOctal f = if specOctal f < U64 then some (specOctal f) else none := by
  unfold readOctal specOctal
  exact octLoop_spec 0 _ (by simp [U64])

/-! ### base-256 reader = specification -/

theorem beVal_ge (acc : Nat) (t : Bytes) : acc * 256 ^ t.length ≤ beVal acc t := by
  induction t generalizing acc with
  | nil => simp [beVal]
  | cons b t ih =>
    simp only [beVal, List.length_cons]
    have := ih (acc * 256 + b.toNat)
    calc acc * 256 ^ (t.length + 1) = (acc * 256) * 256 ^ t.length := by ring
      _ ≤ (acc * 256 + b.toNat) * 256 ^ t.length := Nat.mul_le_mul_right _ (by omega)
      _ ≤ _ := this

theorem beVal_ge' (acc : Nat) (t : Bytes) : acc ≤ beVal acc t := by
  have h1 := beVal_ge acc t
  have h2 : 1 ≤ 256 ^ t.length := Nat.one_le_pow _ _ (by omega)
  calc acc = acc * 1 := by omega
    _ ≤ acc * 256 ^ t.length := Nat.mul_le_mul_left _ h2
    _ ≤ _ := h1

theorem binLoop_pos_spec (acc : Nat) (t : Bytes) (hacc : acc < U64) :
    binLoop false acc t = if beVal acc t < U64 then some (beVal acc t) else none := by
  induction t generalizing acc with
  | nil => simp [binLoop, beVal, hacc]
  | cons b t ih =>
    unfold binLoop beVal
    have hb : b.toNat < 256 := b.toNat_lt
    by_cases hov : acc / 72057594037927936 ≠ 0
    · have h1 := beVal_ge' (acc * 256 + b.toNat) t
      have : ¬ beVal (acc * 256 + b.toNat) t < U64 := by simp only [U64]; omega
      simp [hov, this]
    · have hlt : acc * 256 + b.toNat < U64 := by simp only [U64]; omega
      simp only [Bool.false_eq_true, if_false, hov]
      rw [Nat.mod_eq_of_lt hlt]
      exact ih _ hlt

/-- magnitude of a negative number being read: `m ↦ 256·m − x` per byte -/
def mag (m : Nat) : Bytes → Nat
  | [] => m
  | x :: t => mag (m * 256 - x.toNat) t

theorem mag_ge (m : Nat) (t : Bytes) (hm : 1 ≤ m) : m ≤ mag m t := by
  induction t generalizing m with
  | nil => simp [mag]
  | cons x t ih =>
    simp only [mag]
    have hx : x.toNat < 256 := x.toNat_lt
    have := ih (m * 256 - x.toNat) (by omega)
    omega

theorem binLoop_neg_spec (m : Nat) (t : Bytes) (h1 : 1 ≤ m) (h2 : m ≤ U64) :
    binLoop true (U64 - m) t = if mag m t ≤ U64 then some (U64 - mag m t) else none := by
  induction t generalizing m with
  | nil => simp [binLoop, mag, h2]
  | cons x t ih =>
    unfold binLoop mag
    have hx : x.toNat < 256 := x.toNat_lt
    simp only [U64] at h2 ⊢
    by_cases hov : (18446744073709551616 - m) / 72057594037927936 ≠ 255
    · have hm : m > 72057594037927936 := by omega
      have hge := mag_ge (m * 256 - x.toNat) t (by omega)
      have : ¬ mag (m * 256 - x.toNat) t ≤ 18446744073709551616 := by omega
      simp [hov, this]
    · have hm : m ≤ 72057594037927936 := by omega
      simp only [if_true, hov, if_false]
      have e : ((18446744073709551616 - m) * 256 + x.toNat) % 18446744073709551616
             = 18446744073709551616 - (m * 256 - x.toNat) := by omega
      rw [e]
      have := ih (m * 256 - x.toNat) (by omega) (by simp only [U64]; omega)
      simpa only [U64] using this

theorem mag_spec (p k : Nat) (t : Bytes) (hp : p < 256 ^ k) :
    (beVal p t : Int) - (256 : Int) ^ (k + t.length) = -(mag (256 ^ k - p) t : Int) := by
  induction t generalizing p k with
  | nil =>
    simp only [beVal, mag, List.length_nil, Nat.add_zero]
    have : ((256 ^ k - p : Nat) : Int) = (256 : Int) ^ k - p := by
      rw [Int.ofNat_sub (Nat.le_of_lt hp)]; simp
    rw [this]; ring
  | cons x t ih =>
    have hx : x.toNat < 256 := x.toNat_lt
    simp only [beVal, mag, List.length_cons]
    have hp' : p * 256 + x.toNat < 256 ^ (k + 1) := by
      rw [pow_succ]; nlinarith
    have := ih (p * 256 + x.toNat) (k + 1) hp'
    have e : (256 ^ k - p) * 256 - x.toNat = 256 ^ (k + 1) - (p * 256 + x.toNat) := by
      rw [pow_succ, Nat.sub_mul]; omega
    rw [e, ← this]
    congr 2
    omega

theorem fits64_nat (V : Nat) : fits64 (V : Int) = if V < U64 then some V else none := by
  unfold fits64
  simp only [U64]
  split_ifs <;> first | omega | simp

theorem fits64_neg (M : Nat) (h1 : 1 ≤ M) :
    fits64 (-(M : Int)) = if M ≤ 9223372036854775808 then some (U64 - M) else none := by
  unfold fits64
  simp only [U64]
  split_ifs <;> first | omega | (simp only [Option.some.injEq]; omega) | rfl

theorem readBinary_spec (f : Bytes) : readBinary f = fits64 (specBinary f) := by
  cases f with
  | nil => simp [readBinary, specBinary, fits64, U64]
  | cons b0 t =>
    unfold readBinary specBinary
    by_cases h255 : b0.toNat = 255
    · simp only [h255, if_true]
      rw [binLoop_neg_spec 1 t (by omega) (by simp [U64])]
      have hs := mag_spec 255 1 t (by norm_num)
      have hM := mag_ge 1 t (by omega)
      have e : (256 : Int) ^ (t.length + 1) = (256 : Int) ^ (1 + t.length) := by rw [Nat.add_comm]
      rw [e, hs]
      simp only [show (256 : Nat) ^ 1 - 255 = 1 by norm_num]
      rw [fits64_neg _ hM]
      generalize mag 1 t = M at hM ⊢
      simp only [U64]
      by_cases hle : M ≤ 18446744073709551616
      · simp only [hle, if_true]
        by_cases hlt : 18446744073709551616 - M < 9223372036854775808
        · have : ¬ M ≤ 9223372036854775808 := by omega
          simp only [hlt, this, if_true, if_false]
        · have : M ≤ 9223372036854775808 := by omega
          simp only [hlt, this, if_true, if_false]
      · have : ¬ M ≤ 9223372036854775808 := by omega
        simp only [hle, this, if_false]
    · simp only [h255, if_false]
      have hx : b0.toNat % 128 < U64 := by simp only [U64]; omega
      rw [fits64_nat]
      by_cases hearly : t.length > 7 ∧ b0.toNat % 128 ≠ 0
      · rw [if_pos hearly]
        have hge := beVal_ge (b0.toNat % 128) t
        have hp : 256 ^ 8 ≤ 256 ^ t.length := Nat.pow_le_pow_right (by omega) (by omega)
        have : 256 ^ 8 ≤ beVal (b0.toNat % 128) t := by
          calc 256 ^ 8 ≤ 256 ^ t.length := hp
            _ = 1 * 256 ^ t.length := by omega
            _ ≤ (b0.toNat % 128) * 256 ^ t.length := Nat.mul_le_mul_right _ (by omega)
            _ ≤ _ := hge
        have : ¬ beVal (b0.toNat % 128) t < U64 := by
          simp only [U64]; norm_num at this; omega
        rw [if_neg this]
      · rw [if_neg hearly]
        exact binLoop_pos_spec _ t hx

/-! ### writer lemmas -/

theorem octDigit_toNat (k : Nat) (hk : k < 8) : (UInt8.ofNat (48 + k)).toNat = 48 + k := by
  rw [UInt8.toNat_ofNat']; omega

theorem octDigit_isDigit (k : Nat) (hk : k < 8) : isOctDigit (UInt8.ofNat (48 + k)) = true := by
  simp only [isOctDigit, octDigit_toNat k hk, Bool.and_eq_true, decide_eq_true_eq]; omega

theorem octDigit_notSpace (k : Nat) (hk : k < 8) : isSpace (UInt8.ofNat (48 + k)) = false := by
  simp only [isSpace, octDigit_toNat k hk, Bool.or_eq_false_iff, Bool.and_eq_false_imp,
    decide_eq_false_iff_not, decide_eq_true_eq]; omega

theorem mod_pow_succ' (b v n : Nat) : v % b ^ (n + 1) = (v / b ^ n % b) * b ^ n + v % b ^ n := by
  rw [Nat.mod_pow_succ]; ring

theorem octRun_octDigits (n acc v : Nat) (rest : Bytes) :
    octRun acc (octDigits n v ++ rest) = octRun (acc * 8 ^ n + v % 8 ^ n) rest := by
  induction n generalizing acc with
  | zero => simp [octDigits, Nat.mod_one]
  | succ n ih =>
    have hk : v / 8 ^ n % 8 < 8 := Nat.mod_lt _ (by omega)
    simp only [octDigits, List.cons_append, octRun, octDigit_isDigit _ hk, if_true,
      octDigit_toNat _ hk]
    rw [ih, mod_pow_succ']
    congr 1
    have : 48 + v / 8 ^ n % 8 - 48 = v / 8 ^ n % 8 := by omega
    rw [this]; ring

theorem beVal_beBytes (n acc v : Nat) (rest : Bytes) :
    beVal acc (beBytes n v ++ rest) = beVal (acc * 256 ^ n + v % 256 ^ n) rest := by
  induction n generalizing acc with
  | zero => simp [beBytes, Nat.mod_one]
  | succ n ih =>
    have hk : v / 256 ^ n % 256 < 256 := Nat.mod_lt _ (by omega)
    simp only [beBytes, List.cons_append, beVal]
    rw [ih, mod_pow_succ', UInt8.toNat_ofNat', Nat.mod_eq_of_lt hk]
    congr 1
    ring

theorem beBytes_length (n v : Nat) : (beBytes n v).length = n := by
  induction n with
  | zero => rfl
  | succ n ih => simp [beBytes, ih]

theorem octDigits_length (n v : Nat) : (octDigits n v).length = n := by
  induction n with
  | zero => rfl
  | succ n ih => simp [octDigits, ih]

theorem readNumber_spec (f : Bytes) : readNumber f = specNumber f := by
  cases f with
  | nil => rfl
  | cons b0 t =>
    show (if b0.toNat ≥ 128 then readBinary (b0 :: t) else readOctal (b0 :: t)) =
      (if b0.toNat ≥ 128 then fits64 (specBinary (b0 :: t))
       else if specOctal (b0 :: t) < U64 then some (specOctal (b0 :: t)) else none)
    rw [readBinary_spec, readOctal_spec]

theorem octRun_stop (acc : Nat) (rest : Bytes)
    (hrest : rest = [] ∨ ∃ c t, rest = c :: t ∧ isOctDigit c = false) : octRun acc rest = acc := by
  rcases hrest with h | ⟨c, t, h, hc⟩
  · subst h; rfl
  · subst h; simp [octRun, hc]

/-- reading back `n+1` octal digits followed by a non-digit (or the end of the field) -/
theorem readNumber_octDigits (n v : Nat) (rest : Bytes)
    (hrest : rest = [] ∨ ∃ c t, rest = c :: t ∧ isOctDigit c = false)
    (hv : v < 8 ^ (n + 1)) (hv64 : v < U64) :
    readNumber (octDigits (n + 1) v ++ rest) = some v := by
  rw [readNumber_spec]
  have hk : v / 8 ^ n % 8 < 8 := Nat.mod_lt _ (by omega)
  have hd : octDigits (n + 1) v ++ rest = UInt8.ofNat (48 + v / 8 ^ n % 8) :: (octDigits n v ++ rest) := rfl
  have hval : specOctal (octDigits (n + 1) v ++ rest) = v := by
    unfold specOctal
    have : skipSpaces (octDigits (n + 1) v ++ rest) = octDigits (n + 1) v ++ rest := by
      rw [hd]; unfold skipSpaces; rw [octDigit_notSpace _ hk]; rfl
    rw [this, octRun_octDigits, octRun_stop _ _ hrest, Nat.mod_eq_of_lt hv]; omega
  rw [hd] at hval ⊢
  unfold specNumber
  have h128 : ¬ (UInt8.ofNat (48 + v / 8 ^ n % 8)).toNat ≥ 128 := by
    rw [octDigit_toNat _ hk]; omega
  simp only [h128, if_false, hval, hv64, if_true]

theorem or128 : ∀ k : Fin 127, (UInt8.ofNat k.val ||| 128).toNat = k.val + 128 := by decide

/-- reading back `write_binary` -/
theorem readNumber_writeBinary (n v : Nat) (hk : v / 256 ^ n % 256 < 127) (hv : v < 256 ^ (n + 1))
    (hv64 : v < U64) : readNumber (writeBinary v (n + 1)) = some v := by
  rw [readNumber_spec]
  have hb := or128 ⟨_, hk⟩
  simp only at hb
  have hw : writeBinary v (n + 1) = (UInt8.ofNat (v / 256 ^ n % 256) ||| 128) :: beBytes n v := rfl
  rw [hw]
  have h128 : (UInt8.ofNat (v / 256 ^ n % 256) ||| 128).toNat ≥ 128 := by omega
  have h255 : ¬ (UInt8.ofNat (v / 256 ^ n % 256) ||| 128).toNat = 255 := by omega
  have hm : (v / 256 ^ n % 256 + 128) % 128 = v / 256 ^ n % 256 := by omega
  have hbe := beVal_beBytes n (v / 256 ^ n % 256) v []
  simp only [List.append_nil, beVal] at hbe
  show (if (UInt8.ofNat (v / 256 ^ n % 256) ||| 128).toNat ≥ 128 then
      fits64 (if (UInt8.ofNat (v / 256 ^ n % 256) ||| 128).toNat = 255 then _ else
        (beVal ((UInt8.ofNat (v / 256 ^ n % 256) ||| 128).toNat % 128) (beBytes n v) : Int)) else _) = _
  rw [if_pos h128, if_neg h255, hb, hm, hbe, ← mod_pow_succ', Nat.mod_eq_of_lt hv, fits64_nat, if_pos hv64]

/-! ### checksum -/

theorem sumBytes_le (l : Bytes) : sumBytes l ≤ 255 * l.length := by
  induction l with
  | nil => simp [sumBytes]
  | cons b t ih =>
    have := b.toNat_lt
    simp only [sumBytes, List.length_cons]; omega

theorem computeChecksum_lt (h : Bytes) (hl : h.length = 512) : computeChecksum h < 8 ^ 6 := by
  unfold computeChecksum
  have h1 := sumBytes_le (h.take 148)
  have h2 := sumBytes_le (h.drop 156)
  simp only [List.length_take, List.length_drop, hl] at h1 h2
  norm_num at h1 h2 ⊢
  omega

end Sqfs.Tar
